(* Model/BufferTypes.v — vocabulary of the generated buffer method descriptors (Gen/BufferMethods.v). *)
From GN Require Import Common.Base Common.Int64.
From Coq Require Import String.

Inductive coercion := CInteger | CFloat | CBigInt.   (* goutil.Required{Integer,Float,BigInt}Argument *)
Inductive endian := BE | LE.

Inductive guard :=
| GExpr (cond : expr) (name : string) (cls : Z)   (* if cond { panic(errors.NewX(b.r, name, ...)) } ; cls 1 TypeError 2 RangeError *)
| GBigInt64      (* if !value.IsInt64()  { RangeError } *)
| GBigUint64     (* if !value.IsUint64() { RangeError } *)
| GFloat32.      (* if value < -MaxFloat32 || value > MaxFloat32 { RangeError } *)

Inductive store :=
| SPut (w : Z) (e : endian)       (* binary.X.PutUintN(bb[offset:offset+w], uintN(value)) ; bb[offset] = byte(value) for w = 1 *)
| SLoopBE | SLoopLE               (* variable width: bb[offset+i] = byte(value >> shift) *)
| SBits64 (e : endian) | SBits32 (e : endian)
| SBig (e : endian) (signed : bool).

Inductive load :=
| LGet (w : Z) (e : endian) (signed : bool)
| LLoop (e : endian) (signed : bool)
| LF64 (e : endian) | LF32 (e : endian)
| LBig (e : endian) (signed : bool).

Inductive offmode :=
| OffFixed (argidx : nat) (w : Z)          (* b.getOffsetArgument(call, argidx, bb, w) *)
| OffVar (off_idx len_idx : nat).          (* b.getVariableLength{Read,Write}Arguments *)

Record wdesc := { w_go : string; w_coerce : coercion; w_valarg : nat; w_off : offmode; w_guards : list guard; w_store : store }.
Record rdesc := { r_go : string; r_off : offmode; r_load : load }.

Inductive num_rule := NumToInteger | NumToFloat.
Inductive undef_rule := UndefDefault | UndefTypeError.
Inductive other_rule := OtherTypeError | OtherMismatch.
