(* Model/VC.v — verification conditions emitted by the translator's symbolic executor: for one partial Go operation
   (index, slice, make) the path condition and the bound, as expressions with Go int64 (wrap) semantics. *)
From GN Require Import Common.Base Common.Int64.
From Coq Require Import String.
Open Scope Z_scope.

Record vc := {
  vc_fun : string;             (* Go function *)
  vc_what : string;            (* the operation, as source text *)
  vc_vars : list string;       (* int64 variables mentioned *)
  vc_lens : list string;       (* slices whose length is mentioned *)
  vc_hyps : list expr;         (* facts known on the path (all true) *)
  vc_goal : expr               (* must be true, or Go panics *)
}.

(* Prop-level reading of boolean expressions; arithmetic sub-terms keep the wrap semantics of eval *)
Fixpoint sem (e lens : env) (x : expr) : Prop :=
  match x with
  | EBin OLt a b => eval e lens a < eval e lens b
  | EBin OLe a b => eval e lens a <= eval e lens b
  | EBin OGt a b => eval e lens a > eval e lens b
  | EBin OGe a b => eval e lens a >= eval e lens b
  | EBin OEq a b => eval e lens a = eval e lens b
  | EBin ONe a b => eval e lens a <> eval e lens b
  | EBin OAnd a b => sem e lens a /\ sem e lens b
  | EBin OOr a b => sem e lens a \/ sem e lens b
  | ENot a => ~ sem e lens a
  | _ => eval e lens x <> 0
  end.

Fixpoint all_P {A} (P : A -> Prop) (l : list A) : Prop :=
  match l with [] => True | x :: r => P x /\ all_P P r end.

(* for all values of the variables (any int64) and all slice lengths: the hypotheses imply the bound *)
Definition vc_valid (v : vc) : Prop :=
  forall e lens,
    all_P (fun x => in_i64 (e x)) (vc_vars v) ->
    all_P (fun a => 0 <= lens a < 2 ^ 62) (vc_lens v) ->
    all_P (sem e lens) (vc_hyps v) ->
    sem e lens (vc_goal v).

(* sem is exactly the truth of the evaluated expression *)
Lemma nz_iff z : z <> 0 <-> negb (z =? 0) = true.
Proof. rewrite negb_true_iff, Z.eqb_neq. tauto. Qed.

Lemma b2z_nz b : negb (b2z b =? 0) = true <-> b = true.
Proof. destruct b; cbn; split; intro H; try reflexivity; try discriminate. Qed.

Lemma sem_holds e lens x : sem e lens x <-> holds e lens x = true.
Proof.
  unfold holds. induction x as [v|z|v|o a IHa b IHb|a IHa|a IHa].
  - cbn [sem eval]. apply nz_iff.
  - cbn [sem eval]. apply nz_iff.
  - cbn [sem eval]. apply nz_iff.
  - destruct o; cbn [sem eval eval_bin]; try apply nz_iff; rewrite ?b2z_nz.
    + rewrite Z.ltb_lt. tauto.
    + rewrite Z.leb_le. tauto.
    + rewrite Z.gtb_ltb, Z.ltb_lt. split; intro H; lia.
    + rewrite Z.geb_leb, Z.leb_le. split; intro H; lia.
    + rewrite Z.eqb_eq. tauto.
    + rewrite negb_true_iff, Z.eqb_neq. tauto.
    + rewrite IHa, IHb. rewrite andb_true_iff. tauto.
    + rewrite IHa, IHb. rewrite orb_true_iff. tauto.
  - cbn [sem eval]. apply nz_iff.
  - cbn [sem eval]. rewrite b2z_nz. rewrite IHa. rewrite negb_true_iff, Z.eqb_eq, Z.eqb_neq.
    destruct (Z.eq_dec (eval e lens a) 0); tauto.
Qed.
