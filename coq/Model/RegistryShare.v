(* Model/RegistryShare.v — a require.Registry shared by runtimes on different goroutines (C17): the access rule applied to
   Gen/RegistryAccess.v, and the compile cache of getCompiledSource as a function of the request sequence (the mutex
   held for the whole call makes every interleaving of calls equivalent to some sequence). *)
From Coq Require Import String List Bool Arith Lia.
From GN Require Import Gen.RegistryAccess Model.LoopAccess.
Import ListNotations.

(* contexts: options and RegisterNativeModule belong to the set-up of a Registry, before it is shared *)
Definition reg_context (unit usage : string) : option ctx :=
  if String.eqb usage "value" then Some CInit
  else if String.eqb unit "Registry.RegisterNativeModule" then Some CInit
  else Some CAny.

Definition reg_safe_pair (a b : row) : bool :=
  match reg_context (r_unit a) (r_usage a), reg_context (r_unit b) (r_usage b) with
  | Some ca, Some cb =>
    negb (String.eqb (r_field a) (r_field b)) || (negb (r_write a) && negb (r_write b)) ||
    existsb (fun l => mem l (r_locks b)) (r_locks a) || ctx_eqb ca CInit || ctx_eqb cb CInit
  | _, _ => false
  end.
Definition reg_race_free (t : list row) : bool := forallb (fun a => forallb (reg_safe_pair a) t) t.

Theorem registry_access_race_free : reg_race_free registry_access = true.
Proof. vm_compute. reflexivity. Qed.

(* ---- compile cache ---- *)
Section Cache.
Variable ok : nat -> bool.          (* does loading + compiling path p succeed (the loader is deterministic) *)

Record cstate := { compiled : list nat; loads : list nat }.     (* loads: SourceLoader calls for module files, in order *)

Definition request (s : cstate) (p : nat) : cstate :=
  if existsb (Nat.eqb p) (compiled s) then s
  else if ok p then {| compiled := p :: compiled s; loads := loads s ++ [p] |}
  else {| compiled := compiled s; loads := loads s ++ [p] |}.

Definition requests (s : cstate) (ps : list nat) : cstate := fold_left request ps s.
Definition empty : cstate := {| compiled := []; loads := [] |}.
End Cache.
