(* Model/LoopSrc.v — the text of eventloop/eventloop.go (every function, and the order of the verifPoint names inside each)
   that Model/Loop.v was written against. Gen/LoopSkeleton.v carries the same tables regenerated from the source on every
   run; Proofs compare them, so an edit of the loop's code is a proof obligation that no longer checks until the model
   has been re-validated against it. *)
From Coq Require Import String List.
Import ListNotations.
Definition expected_loop_funcs : list (string * string) := [
  ("NewEventLoop", "vm:=goja.New();loop:=&EventLoop{vm:vm,jobChan:make(chan func()),wakeupChan:make(chan struct{},1),enableConsole:true};loop.stopCond=sync.NewCond(&loop.stopLock);for _,opt:=range opts{opt(loop)};if loop.registry==nil{loop.registry=new(require.Registry)};loop.registry.Enable(vm);if loop.enableConsole{console.Enable(vm)};vm.Set(""setTimeout"",loop.setTimeout);vm.Set(""setInterval"",loop.setInterval);vm.Set(""setImmediate"",loop.setImmediate);vm.Set(""clearTimeout"",loop.clearTimeout);vm.Set(""clearInterval"",loop.clearInterval);vm.Set(""clearImmediate"",loop.clearImmediate);return loop");
  ("EnableConsole", "return func(loop*EventLoop){loop.enableConsole=enableConsole}");
  ("WithRegistry", "return func(loop*EventLoop){loop.registry=registry}");
  ("EventLoop.schedule", "if fn,ok:=goja.AssertFunction(call.Argument(0));ok{delay:=delayMillis(call.Argument(1));var args[]goja.Value;if len(call.Arguments)>2{args=append(args,call.Arguments[2:]...)};f:=func(){fn(nil,args...)};loop.jobCount++var job*job;var ret goja.Value;if repeating{interval:=loop.newInterval(f);interval.start(loop,msToDuration(delay));job=&interval.job;ret=loop.vm.ToValue(interval)}else{timeout:=loop.newTimeout(f);timeout.start(loop,msToDuration(delay));job=&timeout.job;ret=loop.vm.ToValue(timeout)};job.idx=len(loop.jobs);loop.jobs=append(loop.jobs,job);return ret};return goja.Undefined()");
  ("delayMillis", "f:=math.Ceil(v.ToNumber().ToFloat());switch{case f!=f:return 0;case f>=math.MaxInt64:return math.MaxInt64;case f<=math.MinInt64:return math.MinInt64};return int64(f)");
  ("msToDuration", "const max=int64(math.MaxInt64/time.Millisecond);if ms>max{return time.Duration(math.MaxInt64)};if ms<-max{return time.Duration(math.MinInt64)};return time.Duration(ms)*time.Millisecond");
  ("EventLoop.setTimeout", "return loop.schedule(call,false)");
  ("EventLoop.setInterval", "return loop.schedule(call,true)");
  ("EventLoop.setImmediate", "if fn,ok:=goja.AssertFunction(call.Argument(0));ok{var args[]goja.Value;if len(call.Arguments)>1{args=append(args,call.Arguments[1:]...)};f:=func(){fn(nil,args...)};return loop.vm.ToValue(loop.addImmediate(f))};return goja.Undefined()");
  ("EventLoop.SetTimeout", "t:=loop.newTimeout(func(){fn(loop.vm)});if loop.addAuxJob(func(){t.start(loop,timeout);loop.jobCount++t.idx=len(loop.jobs);loop.jobs=append(loop.jobs,&t.job)}){return t};return nil");
  ("EventLoop.ClearTimeout", "loop.addAuxJob(func(){loop.clearTimeout(t)})");
  ("EventLoop.SetInterval", "i:=loop.newInterval(func(){fn(loop.vm)});if loop.addAuxJob(func(){i.start(loop,timeout);loop.jobCount++i.idx=len(loop.jobs);loop.jobs=append(loop.jobs,&i.job)}){return i};return nil");
  ("EventLoop.ClearInterval", "loop.addAuxJob(func(){loop.clearInterval(i)})");
  ("EventLoop.setRunning", "verifPoint(loop,""setrunning"");loop.stopLock.Lock();defer loop.stopLock.Unlock();if loop.running{panic(""Loop is already started"")};loop.running=true;atomic.StoreInt32(&loop.canRun,1);loop.auxJobsLock.Lock();loop.terminated=false;loop.auxJobsLock.Unlock()");
  ("EventLoop.Run", "loop.setRunning();verifPoint(loop,""run_fn"");fn(loop.vm);loop.run(false)");
  ("EventLoop.Start", "loop.setRunning();verifPoint(loop,""start_go"");go loop.run(true)");
  ("EventLoop.StartInForeground", "loop.setRunning();loop.run(true)");
  ("EventLoop.Stop", "verifPoint(loop,""stop_enter"");loop.stopLock.Lock();for loop.running{verifPoint(loop,""stop_request"");atomic.StoreInt32(&loop.canRun,0);verifPoint(loop,""stop_wakeup"");loop.wakeup();verifPoint(loop,""stop_wait"");loop.stopCond.Wait()};verifPoint(loop,""stop_return"");loop.stopLock.Unlock();return int(loop.jobCount)");
  ("EventLoop.StopNoWait", "verifPoint(loop,""stopnowait"");loop.stopLock.Lock();if loop.running{atomic.StoreInt32(&loop.canRun,0);loop.wakeup()};loop.stopLock.Unlock()");
  ("EventLoop.Terminate", "loop.Stop();verifPoint(loop,""term_flag"");loop.auxJobsLock.Lock();loop.terminated=true;loop.auxJobsLock.Unlock();verifPoint(loop,""term_runaux"");loop.runAux();for i:=0;i<len(loop.jobs);i++{job:=loop.jobs[i];if!job.cancelled{verifPoint(loop,""term_cancel"",job);job.cancelled=true;loop.jobCount--if job.cancel(){loop.removeJob(job);i--}}};for len(loop.jobs)>0{verifPoint(loop,""term_drain"");(<-loop.jobChan)()};verifPoint(loop,""term_done"")");
  ("EventLoop.RunOnLoop", "return loop.addAuxJob(func(){fn(loop.vm)})");
  ("EventLoop.runAux", "verifPoint(loop,""runaux_swap"");loop.auxJobsLock.Lock();jobs:=loop.auxJobs;loop.auxJobs=loop.auxJobsSpare;loop.auxJobsLock.Unlock();for i,job:=range jobs{verifPoint(loop,""runaux_job"");job();jobs[i]=nil};verifPoint(loop,""runaux_done"");loop.auxJobsSpare=jobs[:0]");
  ("EventLoop.run", "loop.runAux();verifPoint(loop,""run_enter"");if inBackground{loop.jobCount++};LOOP:for loop.jobCount>0{verifPoint(loop,""run_select"");select{case job:=<-loop.jobChan:verifPoint(loop,""arm_job"");job();case<-loop.wakeupChan:verifPoint(loop,""arm_wakeup"");loop.runAux();verifPoint(loop,""run_canrun"");if atomic.LoadInt32(&loop.canRun)==0{break LOOP}}};verifPoint(loop,""run_leave"");if inBackground{loop.jobCount--};verifPoint(loop,""run_exit"");loop.stopLock.Lock();loop.running=false;loop.stopLock.Unlock();loop.stopCond.Broadcast()");
  ("EventLoop.wakeup", "select{case loop.wakeupChan<-struct{}{}:default:}");
  ("EventLoop.addAuxJob", "verifPoint(loop,""aux_lock"");loop.auxJobsLock.Lock();if loop.terminated{loop.auxJobsLock.Unlock();return false};loop.auxJobs=append(loop.auxJobs,fn);loop.auxJobsLock.Unlock();verifPoint(loop,""aux_wakeup"");loop.wakeup();return true");
  ("EventLoop.newTimeout", "t:=&Timer{job:job{fn:f}};t.cancel=t.doCancel;return t");
  ("Timer.start", "t.timer=time.AfterFunc(timeout,func(){verifPoint(loop,""timer_fire"",t);loop.jobChan<-func(){loop.doTimeout(t)};verifPoint(loop,""timer_sent"",t)})");
  ("EventLoop.newInterval", "i:=&Interval{job:job{fn:f},stopChan:make(chan struct{})};i.cancel=i.doCancel;return i");
  ("Interval.start", "if timeout<=0{timeout=time.Millisecond};i.ticker=time.NewTicker(timeout);go i.run(loop)");
  ("EventLoop.addImmediate", "i:=&Immediate{job:job{fn:f}};if loop.addAuxJob(func(){loop.doImmediate(i)}){loop.jobCount++}else{i.cancelled=true};return i");
  ("EventLoop.doTimeout", "loop.removeJob(&t.job);if!t.cancelled{t.cancelled=true;loop.jobCount--t.fn()}");
  ("EventLoop.doInterval", "if!i.cancelled{i.fn()}");
  ("EventLoop.doImmediate", "if!i.cancelled{i.cancelled=true;loop.jobCount--i.fn()}");
  ("EventLoop.clearTimeout", "if t!=nil&&t.fn!=nil&&!t.cancelled{t.cancelled=true;loop.jobCount--if t.doCancel(){loop.removeJob(&t.job)}}");
  ("EventLoop.clearInterval", "if i!=nil&&i.fn!=nil&&!i.cancelled{i.cancelled=true;loop.jobCount--i.doCancel()}");
  ("EventLoop.removeJob", "idx:=job.idx;if idx<0{return};if idx<len(loop.jobs)-1{loop.jobs[idx]=loop.jobs[len(loop.jobs)-1];loop.jobs[idx].idx=idx};loop.jobs[len(loop.jobs)-1]=nil;loop.jobs=loop.jobs[:len(loop.jobs)-1];job.idx=-1");
  ("EventLoop.clearImmediate", "if i!=nil&&i.fn!=nil&&!i.cancelled{i.cancelled=true;loop.jobCount--}");
  ("Interval.doCancel", "close(i.stopChan);return false");
  ("Timer.doCancel", "return t.timer.Stop()");
  ("Interval.run", "L:for{verifPoint(loop,""int_select"",i);select{case<-i.stopChan:verifPoint(loop,""int_stop"",i);i.ticker.Stop();break L;case<-i.ticker.C:verifPoint(loop,""int_tick_send"",i);loop.jobChan<-func(){loop.doInterval(i)}}};verifPoint(loop,""int_remove_send"",i);loop.jobChan<-func(){loop.removeJob(&i.job)};verifPoint(loop,""int_done"",i)")
]%string.
Definition expected_loop_points : list (string * list string) := [
  ("EventLoop.setRunning", ["setrunning"]);
  ("EventLoop.Run", ["run_fn"]);
  ("EventLoop.Start", ["start_go"]);
  ("EventLoop.Stop", ["stop_enter"; "stop_request"; "stop_wakeup"; "stop_wait"; "stop_return"]);
  ("EventLoop.StopNoWait", ["stopnowait"]);
  ("EventLoop.Terminate", ["term_flag"; "term_runaux"; "term_cancel"; "term_drain"; "term_done"]);
  ("EventLoop.runAux", ["runaux_swap"; "runaux_job"; "runaux_done"]);
  ("EventLoop.run", ["run_enter"; "run_select"; "arm_job"; "arm_wakeup"; "run_canrun"; "run_leave"; "run_exit"]);
  ("EventLoop.addAuxJob", ["aux_lock"; "aux_wakeup"]);
  ("Timer.start", ["timer_fire"; "timer_sent"]);
  ("Interval.run", ["int_select"; "int_stop"; "int_tick_send"; "int_remove_send"; "int_done"])
]%string.
