(* Model/Process.v — process.env: process/module.go Require().  Definitions only. *)
From GN Require Import Common.Base Gen.ProcessEnv.

(* strings.SplitN(s, sep, n) for a one-byte separator. *)
Fixpoint split_at_first (c : Z) (s : zs) : option (zs * zs) :=
  match s with
  | [] => None
  | x :: r => if x =? c then Some ([], r)
              else match split_at_first c r with
                   | Some (a, b) => Some (x :: a, b)
                   | None => None
                   end
  end.

Fixpoint splitn_fuel (fuel : nat) (c : Z) (n : Z) (s : zs) : list zs :=
  match fuel with
  | O => [s]
  | S f => if n =? 1 then [s]
           else match split_at_first c s with
                | None => [s]
                | Some (a, b) => a :: splitn_fuel f c (n - 1) b
                end
  end.

Definition splitn (sep : zs) (n : Z) (s : zs) : option (list zs) :=
  match sep with
  | [c] => Some (if n =? 0 then [] else splitn_fuel (S (length s)) c n s)
  | _ => None   (* multi-byte / empty separators are not modelled; translator refuses them *)
  end.

(* envKeyValue := strings.SplitN(e, "=", 2); p.env[envKeyValue[0]] = envKeyValue[1]
   None = Go index-out-of-range panic (or an untranslated separator). *)
Definition entry_kv (e : zs) : option (zs * zs) :=
  match splitn env_sep env_splitn e with
  | None => None
  | Some parts =>
    match nth_error parts env_key_index, nth_error parts env_val_index with
    | Some k, Some v => Some (k, v)
    | _, _ => None
    end
  end.

Definition envmap := list (zs * zs).

Fixpoint lookup (k : zs) (m : envmap) : option zs :=
  match m with
  | [] => None
  | (k', v) :: r => if zs_eqb k k' then Some v else lookup k r
  end.

Fixpoint remove_key (k : zs) (m : envmap) : envmap :=
  match m with
  | [] => []
  | (k', v) :: r => if zs_eqb k k' then remove_key k r else (k', v) :: remove_key k r
  end.

Definition set_key (k v : zs) (m : envmap) : envmap := (k, v) :: remove_key k m.

(* for _, e := range os.Environ() { ... }  *)
Fixpoint build_env (env : list zs) (m : envmap) : option envmap :=
  match env with
  | [] => Some m
  | e :: r => match entry_kv e with
              | None => None
              | Some (k, v) => build_env r (set_key k v m)
              end
  end.

(* Several runtimes in one host process. *)
Record world := { host : list zs; rt_env : nat -> option envmap }.

Inductive op :=
| Req (rt : nat)                 (* require('process') / process.Enable in runtime rt *)
| SetVar (rt : nat) (k v : zs)   (* process.env[k] = v *)
| DelVar (rt : nat) (k : zs).    (* delete process.env[k] *)

Definition op_rt (o : op) : nat :=
  match o with Req r => r | SetVar r _ _ => r | DelVar r _ => r end.

Definition upd_rt (f : nat -> option envmap) (r : nat) (m : option envmap) : nat -> option envmap :=
  fun r' => if Nat.eqb r' r then m else f r'.

(* step returns None when the host would panic *)
Definition step (w : world) (o : op) : option world :=
  match o with
  | Req r =>
    match rt_env w r with
    | Some _ => Some w                           (* module cached per runtime: same object *)
    | None => match build_env (host w) [] with
              | None => None
              | Some m => Some {| host := host w; rt_env := upd_rt (rt_env w) r (Some m) |}
              end
    end
  | SetVar r k v =>
    match rt_env w r with
    | None => Some w
    | Some m => Some {| host := host w; rt_env := upd_rt (rt_env w) r (Some (set_key k v m)) |}
    end
  | DelVar r k =>
    match rt_env w r with
    | None => Some w
    | Some m => Some {| host := host w; rt_env := upd_rt (rt_env w) r (Some (remove_key k m)) |}
    end
  end.

Fixpoint run (ops : list op) (w : world) : option world :=
  match ops with
  | [] => Some w
  | o :: r => match step w o with None => None | Some w' => run r w' end
  end.

Definition init_world (env : list zs) : world := {| host := env; rt_env := fun _ => None |}.

Definition join_kv (p : zs * zs) : zs := fst p ++ 61 :: snd p.

(* ---- the host changes its own environment (os.Setenv / os.Unsetenv) between operations of the runtimes ---- *)
Definition entry_name (e : zs) : zs := match split_at_first 61 e with Some (a, _) => a | None => e end.
Definition host_unset (k : zs) (env : list zs) : list zs := filter (fun e => negb (zs_eqb (entry_name e) k)) env.
Definition host_set (k v : zs) (env : list zs) : list zs := host_unset k env ++ [k ++ 61 :: v].

Inductive hop :=
| RtOp (o : op)
| HostSet (k v : zs)
| HostUnset (k : zs).

Definition hstep (w : world) (h : hop) : option world :=
  match h with
  | RtOp o => step w o
  | HostSet k v => Some {| host := host_set k v (host w); rt_env := rt_env w |}
  | HostUnset k => Some {| host := host_unset k (host w); rt_env := rt_env w |}
  end.

Fixpoint hrun (hs : list hop) (w : world) : option world :=
  match hs with
  | [] => Some w
  | h :: r => match hstep w h with None => None | Some w' => hrun r w' end
  end.

Definition touches (r : nat) (h : hop) : bool := match h with RtOp o => Nat.eqb (op_rt o) r | _ => false end.
