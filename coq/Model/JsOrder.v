(* Model/JsOrder.v — the order of callbacks as JavaScript sees it on the event loop: a program is a family of callback
   bodies; a body queues promise reactions (microtasks), immediates and timers, clears handles, or throws. The machine
   runs one macro task (the script, an immediate, a timer) and then all microtasks, transitively; which timer fires when
   is free. Theorems: Proofs/JsOrderProofs.v. *)
From GN Require Import Common.Base.
Open Scope nat_scope.

Inductive act :=
| AMicro (cb : nat)                 (* Promise.resolve().then(cb) *)
| AImmediate (cb : nat)             (* h[cb] = setImmediate(cb) *)
| ATimer (cb : nat)                 (* h[cb] = setTimeout(cb, d) / a self-clearing setInterval *)
| AClearImmediate (cb : nat)
| AClearTimer (cb : nat)
| AThrow.                           (* throw: the rest of the body does not run *)

Definition program := list (list act).
Definition body (p : program) (cb : nat) : list act := nth cb p [].

Record jstate := mkJ {
  micro : list nat;          (* promise job queue *)
  imm : list nat;            (* immediates waiting, oldest first *)
  timers : list nat;         (* armed timers *)
  log : list nat;            (* callbacks started, in order *)
  (* ghost *)
  micro_req : list nat;      (* every reaction ever queued, in order *)
  micro_ran : list nat;
  imm_req : list nat;        (* immediates requested and not cleared while waiting, in request order *)
  imm_ran : list nat;
  imm_all : list nat;        (* every immediate ever requested *)
  bad : bool                 (* the program requested the same callback as an immediate twice (outside the modelled programs) *)
}.

Definition remove (x : nat) (l : list nat) : list nat := filter (fun y => negb (Nat.eqb y x)) l.

Fixpoint exec_body (s : jstate) (b : list act) : jstate :=
  match b with
  | [] => s
  | AThrow :: _ => s
  | AMicro cb :: r => exec_body (mkJ (micro s ++ [cb]) (imm s) (timers s) (log s) (micro_req s ++ [cb]) (micro_ran s) (imm_req s) (imm_ran s) (imm_all s) (bad s)) r
  | AImmediate cb :: r =>
    exec_body (if existsb (Nat.eqb cb) (imm_all s)
               then mkJ (micro s) (imm s) (timers s) (log s) (micro_req s) (micro_ran s) (imm_req s) (imm_ran s) (imm_all s) true
               else mkJ (micro s) (imm s ++ [cb]) (timers s) (log s) (micro_req s) (micro_ran s) (imm_req s ++ [cb]) (imm_ran s) (imm_all s ++ [cb]) (bad s)) r
  | ATimer cb :: r => exec_body (mkJ (micro s) (imm s) (timers s ++ [cb]) (log s) (micro_req s) (micro_ran s) (imm_req s) (imm_ran s) (imm_all s) (bad s)) r
  | AClearImmediate cb :: r =>
    (* clearing a waiting immediate removes it; clearing one that ran (or never existed) is a no-op *)
    exec_body (if existsb (Nat.eqb cb) (imm s)
               then mkJ (micro s) (remove cb (imm s)) (timers s) (log s) (micro_req s) (micro_ran s) (remove cb (imm_req s)) (imm_ran s) (imm_all s) (bad s)
               else s) r
  | AClearTimer cb :: r => exec_body (mkJ (micro s) (imm s) (remove cb (timers s)) (log s) (micro_req s) (micro_ran s) (imm_req s) (imm_ran s) (imm_all s) (bad s)) r
  end.

Definition start (p : program) (s : jstate) (cb : nat) : jstate :=
  exec_body (mkJ (micro s) (imm s) (timers s) (log s ++ [cb]) (micro_req s) (micro_ran s) (imm_req s) (imm_ran s) (imm_all s) (bad s)) (body p cb).

Definition run_micro (s : jstate) (m : nat) (rest : list nat) : jstate :=
  mkJ rest (imm s) (timers s) (log s) (micro_req s) (micro_ran s ++ [m]) (imm_req s) (imm_ran s) (imm_all s) (bad s).
Definition run_imm (s : jstate) (i : nat) (rest : list nat) : jstate :=
  mkJ [] rest (timers s) (log s) (micro_req s) (micro_ran s) (imm_req s) (imm_ran s ++ [i]) (imm_all s) (bad s).
Definition run_timer (s : jstate) (t : nat) : jstate :=
  mkJ [] (imm s) (remove t (timers s)) (log s) (micro_req s) (micro_ran s) (imm_req s) (imm_ran s) (imm_all s) (bad s).

(* run the promise job queue to exhaustion (fuel: programs are finite trees, see wf) *)
Fixpoint drain (p : program) (fuel : nat) (s : jstate) : jstate :=
  match fuel with
  | O => s
  | S f =>
    match micro s with
    | [] => s
    | m :: rest =>
      drain p f (start p (run_micro s m rest) m)
    end
  end.

(* a macro step: the oldest immediate, or any armed timer *)
Inductive choice := CImmediate | CTimer (k : nat).

Definition macro (p : program) (fuel : nat) (s : jstate) (c : choice) : option jstate :=
  match micro s with
  | _ :: _ => None                        (* never while reactions are pending *)
  | [] =>
    match c with
    | CImmediate =>
      match imm s with
      | [] => None
      | i :: rest => Some (drain p fuel (start p (run_imm s i rest) i))
      end
    | CTimer k =>
      match nth_error (timers s) k with
      | None => None
      | Some t => Some (drain p fuel (start p (run_timer s t) t))
      end
    end
  end.

Definition init_state : jstate := mkJ [] [] [] [] [] [] [] [] [] false.

(* the script is callback 0 *)
Definition boot (p : program) (fuel : nat) : jstate := drain p fuel (start p init_state 0).

Fixpoint run (p : program) (fuel : nat) (s : jstate) (sched : list choice) : option jstate :=
  match sched with
  | [] => Some s
  | c :: r => match macro p fuel s c with Some s' => run p fuel s' r | None => None end
  end.

(* ---- acceptor: is an observed log one the machine can produce? ---- *)
Fixpoint index_of (x : nat) (l : list nat) : option nat :=
  match l with [] => None | y :: r => if Nat.eqb x y then Some 0 else option_map S (index_of x r) end.

(* consume the observed log; at every point the next callback must be the head of the promise queue if that is
   non-empty, else the oldest immediate or any armed timer. Returns the state reached. *)
Fixpoint accept (p : program) (s : jstate) (obs : list nat) : option jstate :=
  match obs with
  | [] => Some s
  | c :: r =>
    match micro s with
    | m :: rest => if Nat.eqb c m then accept p (start p (run_micro s m rest) m) r else None
    | [] =>
      match imm s with
      | i :: rest =>
        if Nat.eqb c i then accept p (start p (run_imm s i rest) i) r
        else if existsb (Nat.eqb c) (timers s) then accept p (start p (run_timer s c) c) r else None
      | [] => if existsb (Nat.eqb c) (timers s) then accept p (start p (run_timer s c) c) r else None
      end
    end
  end.

(* a complete run: the script first; nothing is left waiting at the end except (possibly) timers that were never due *)
Definition accepts (p : program) (obs : list nat) : bool :=
  match obs with
  | 0 :: r => match accept p (start p init_state 0) r with
              | Some s => match micro s, imm s with [], [] => negb (bad s) | _, _ => false end
              | None => false
              end
  | _ => false
  end.
