(* Model/Codecs.v — the string codecs behind Buffer (hex, base64 / base64url, utf8): encoders of the Go
   standard library and the lenient decoders (encoding/hex prefix decoding, dop251/base64dec, x/text UTF-8).
   Bytes and characters are Z. Definitions only. *)
From GN Require Import Common.Base.
Open Scope Z_scope.

(* ---------------- hex ---------------- *)
Definition hexchar (n : Z) : Z := nth (Z.to_nat n) [48;49;50;51;52;53;54;55;56;57;97;98;99;100;101;102] 0.

Definition hex_encode (b : list Z) : zs := flat_map (fun x => [hexchar (x / 16); hexchar (x mod 16)]) b.

Definition hexdig (c : Z) : option Z :=
  if (48 <=? c) && (c <=? 57) then Some (c - 48)
  else if (97 <=? c) && (c <=? 102) then Some (c - 87)
  else if (65 <=? c) && (c <=? 70) then Some (c - 55)
  else None.

(* hex.Decode keeps the pairs decoded before the first invalid character or the odd tail *)
Fixpoint hex_decode (s : zs) : list Z :=
  match s with
  | a :: b :: r => match hexdig a, hexdig b with
                   | Some x, Some y => (x * 16 + y) :: hex_decode r
                   | _, _ => []
                   end
  | _ => []
  end.

(* ---------------- base64 ---------------- *)
Definition b64_alpha_std : zs :=
  [65;66;67;68;69;70;71;72;73;74;75;76;77;78;79;80;81;82;83;84;85;86;87;88;89;90;
   97;98;99;100;101;102;103;104;105;106;107;108;109;110;111;112;113;114;115;116;117;118;119;120;121;122;
   48;49;50;51;52;53;54;55;56;57;43;47].
Definition b64_alpha_url : zs := firstn 62 b64_alpha_std ++ [45; 95].

Definition b64char (alpha : zs) (i : Z) : Z := nth (Z.to_nat i) alpha 0.

(* decodeMap of base64dec: both alphabets *)
Definition b64val (c : Z) : option Z :=
  if (65 <=? c) && (c <=? 90) then Some (c - 65)
  else if (97 <=? c) && (c <=? 122) then Some (c - 71)
  else if (48 <=? c) && (c <=? 57) then Some (c + 4)
  else if (c =? 43) || (c =? 45) then Some 62
  else if (c =? 47) || (c =? 95) then Some 63
  else None.

(* 3 bytes -> 4 sextets; a tail of 1 byte -> 2 sextets, of 2 bytes -> 3 sextets *)
Fixpoint sextets_of_bytes (b : list Z) : list Z :=
  match b with
  | x :: y :: z :: r => (x / 4) :: ((x mod 4) * 16 + y / 16) :: ((y mod 16) * 4 + z / 64) :: (z mod 64) :: sextets_of_bytes r
  | [x; y] => [x / 4; (x mod 4) * 16 + y / 16; (y mod 16) * 4]
  | [x] => [x / 4; (x mod 4) * 16]
  | [] => []
  end.

Definition b64_pad (n : nat) : zs := match Nat.modulo n 3 with 1%nat => [61; 61] | 2%nat => [61] | _ => [] end.

Definition b64_encode_std (b : list Z) : zs := map (b64char b64_alpha_std) (sextets_of_bytes b) ++ b64_pad (length b).
Definition b64_encode_rawurl (b : list Z) : zs := map (b64char b64_alpha_url) (sextets_of_bytes b).

(* base64dec.DecodeBase64: CR and LF are skipped, the first other character that is not a base64 digit
   (padding included) ends the data; what was collected is flushed *)
Fixpoint b64_sextets (s : zs) : list Z :=
  match s with
  | [] => []
  | c :: r => match b64val c with
              | Some v => v :: b64_sextets r
              | None => if (c =? 10) || (c =? 13) then b64_sextets r else []
              end
  end.

Fixpoint bytes_of_sextets (q : list Z) : list Z :=
  match q with
  | a :: b :: c :: d :: r => (a * 4 + b / 16) :: ((b mod 16) * 16 + c / 4) :: ((c mod 4) * 64 + d) :: bytes_of_sextets r
  | [a; b; c] => [a * 4 + b / 16; (b mod 16) * 16 + c / 4]
  | [a; b] => [a * 4 + b / 16]
  | _ => []
  end.

Definition b64_decode (s : zs) : list Z := bytes_of_sextets (b64_sextets s).

(* strict decoders of encoding/base64 are not used any more after the write() fix *)

(* ---------------- UTF-8 ---------------- *)
Definition is_surrogate (c : Z) : bool := (55296 <=? c) && (c <=? 57343).
Definition scalar (c : Z) : Prop := (0 <= c < 55296) \/ (57344 <= c <= 1114111).

Definition utf8_enc1 (c : Z) : list Z :=
  if c <? 128 then [c]
  else if c <? 2048 then [192 + c / 64; 128 + c mod 64]
  else if c <? 65536 then [224 + c / 4096; 128 + (c / 64) mod 64; 128 + c mod 64]
  else [240 + c / 262144; 128 + (c / 4096) mod 64; 128 + (c / 64) mod 64; 128 + c mod 64].

Definition utf8_encode (cps : list Z) : list Z := flat_map utf8_enc1 cps.

(* a JavaScript string reaches Go as UTF-8 with lone surrogates replaced by U+FFFD *)
Definition js_to_go (cps : list Z) : list Z := utf8_encode (map (fun c => if is_surrogate c then 65533 else c) cps).

Definition cont (b : Z) : bool := (128 <=? b) && (b <=? 191).

(* second byte ranges of Unicode table 3-7 *)
Definition second_ok (x y : Z) : bool :=
  if x =? 224 then (160 <=? y) && (y <=? 191)
  else if x =? 237 then (128 <=? y) && (y <=? 159)
  else if x =? 240 then (144 <=? y) && (y <=? 191)
  else if x =? 244 then (128 <=? y) && (y <=? 143)
  else cont y.

(* decoder: well-formed sequences per Unicode table 3-7; each maximal ill-formed subpart becomes one U+FFFD
   (the policy of golang.org/x/text's UTF-8 decoder and of the WHATWG encoding standard) *)
Fixpoint utf8_decode_fuel (fuel : nat) (b : list Z) : list Z :=
  match fuel with
  | O => []
  | S f =>
    match b with
    | [] => []
    | x :: r =>
      if x <? 128 then x :: utf8_decode_fuel f r
      else if (194 <=? x) && (x <=? 223) then
        match r with
        | y :: r1 => if cont y then ((x - 192) * 64 + (y - 128)) :: utf8_decode_fuel f r1 else 65533 :: utf8_decode_fuel f r
        | [] => [65533]
        end
      else if (224 <=? x) && (x <=? 239) then
        match r with
        | y :: r1 =>
          if second_ok x y then
            match r1 with
            | z :: r2 => if cont z then ((x - 224) * 4096 + (y - 128) * 64 + (z - 128)) :: utf8_decode_fuel f r2
                         else 65533 :: utf8_decode_fuel f r1
            | [] => [65533]
            end
          else 65533 :: utf8_decode_fuel f r
        | [] => [65533]
        end
      else if (240 <=? x) && (x <=? 244) then
        match r with
        | y :: r1 =>
          if second_ok x y then
            match r1 with
            | z :: r2 =>
              if cont z then
                match r2 with
                | w :: r3 => if cont w then ((x - 240) * 262144 + (y - 128) * 4096 + (z - 128) * 64 + (w - 128)) :: utf8_decode_fuel f r3
                             else 65533 :: utf8_decode_fuel f r2
                | [] => [65533]
                end
              else 65533 :: utf8_decode_fuel f r1
            | [] => [65533]
            end
          else 65533 :: utf8_decode_fuel f r
        | [] => [65533]
        end
      else 65533 :: utf8_decode_fuel f r
    end
  end.

Definition utf8_decode (b : list Z) : list Z := utf8_decode_fuel (length b) b.

(* the trimming loop of Buffer.write(): for length > 0 && raw[length]&0xC0 == 0x80 { length-- } *)
Fixpoint trim_cont (raw : list Z) (length : nat) : nat :=
  match length with
  | O => O
  | S k => if cont (nth (S k) raw 0) then trim_cont raw k else S k
  end.

(* ---------------- codec dispatch ---------------- *)
Inductive codec := CHex | CUtf8 | CBase64 | CBase64Url.

Definition codec_decode (c : codec) (s_cps : list Z) : list Z :=
  match c with
  | CHex => hex_decode (js_to_go s_cps)
  | CUtf8 => js_to_go s_cps
  | CBase64 | CBase64Url => b64_decode (js_to_go s_cps)
  end.

(* result as the code points of the JavaScript string *)
Definition codec_encode (c : codec) (b : list Z) : list Z :=
  match c with
  | CHex => hex_encode b
  | CUtf8 => utf8_decode b
  | CBase64 => b64_encode_std b
  | CBase64Url => b64_encode_rawurl b
  end.
