(* Model/LoopAccess.v — which goroutines may execute each code unit of eventloop.go, and the rule that decides that two
   accesses of the generated table (Gen/LoopAccess.v) cannot race. The table is syntactic; the assignment of units to
   contexts is the hand-written part (it follows the routing through addAuxJob / jobChan, and C03's single-owner theorem
   for Terminate). Go's memory model (mutexes, sync/atomic, channel operations and the go statement order events) is
   trusted. *)
From Coq Require Import String List Bool.
From GN Require Import Gen.LoopAccess.
Import ListNotations.
Open Scope string_scope.

Inductive ctx :=
| CInit      (* NewEventLoop and its options: before the loop is visible to anyone *)
| CFresh     (* constructors of a Timer/Interval/Immediate: the object is not shared yet *)
| COwner     (* the goroutine that executes run() — or Terminate after its Stop(): one at a time (C03_single_owner) *)
| CAny       (* documented as safe from any goroutine *)
| CCtl       (* Start / Run / Stop: one controlling goroutine *)
| CHelper.   (* time.AfterFunc callbacks and Interval.run *)

Definition owner_funcs : list string :=
  ["EventLoop.schedule"; "EventLoop.setTimeout"; "EventLoop.setInterval"; "EventLoop.setImmediate"; "EventLoop.runAux"; "EventLoop.run";
   "EventLoop.addImmediate"; "EventLoop.doTimeout"; "EventLoop.doInterval"; "EventLoop.doImmediate"; "EventLoop.clearTimeout";
   "EventLoop.clearInterval"; "EventLoop.clearImmediate"; "EventLoop.removeJob"; "Timer.start"; "Interval.start"; "Timer.doCancel";
   "Interval.doCancel"; "EventLoop.Terminate"].
Definition any_funcs : list string :=
  ["EventLoop.SetTimeout"; "EventLoop.ClearTimeout"; "EventLoop.SetInterval"; "EventLoop.ClearInterval"; "EventLoop.RunOnLoop";
   "EventLoop.StopNoWait"; "EventLoop.addAuxJob"; "EventLoop.wakeup"].
Definition ctl_funcs : list string := ["EventLoop.setRunning"; "EventLoop.Run"; "EventLoop.Start"; "EventLoop.StartInForeground"; "EventLoop.Stop"].
Definition init_funcs : list string := ["NewEventLoop"; "EnableConsole#1"; "WithRegistry#1"; "EnableConsole"; "WithRegistry"].
Definition fresh_funcs : list string := ["EventLoop.newTimeout"; "EventLoop.newInterval"].
Definition helper_funcs : list string := ["Interval.run"].

Definition mem (x : string) (l : list string) : bool := existsb (String.eqb x) l.

(* a function literal: by how it is used *)
Definition context_of (unit usage : string) : option ctx :=
  if String.eqb usage "aux" || String.eqb usage "job" then Some COwner        (* queued on the loop / received from jobChan *)
  else if String.eqb usage "afterfunc" || String.eqb usage "go" then Some CHelper
  else if String.eqb usage "value" then
    if mem unit init_funcs then Some CInit else Some COwner                    (* callback wrappers: called as job.fn by the owner *)
  else if mem unit owner_funcs then Some COwner
  else if mem unit any_funcs then Some CAny
  else if mem unit ctl_funcs then Some CCtl
  else if mem unit init_funcs then Some CInit
  else if mem unit fresh_funcs then Some CFresh
  else if mem unit helper_funcs then Some CHelper
  else None.                                                                   (* an unknown unit: the check fails *)

Definition row := (string * string * string * bool * list string * bool)%type.
Definition r_unit (r : row) := let '(u, _, _, _, _, _) := r in u.
Definition r_usage (r : row) := let '(_, u, _, _, _, _) := r in u.
Definition r_field (r : row) := let '(_, _, f, _, _, _) := r in f.
Definition r_write (r : row) := let '(_, _, _, w, _, _) := r in w.
Definition r_locks (r : row) := let '(_, _, _, _, l, _) := r in l.
Definition r_atomic (r : row) := let '(_, _, _, _, _, a) := r in a.

Definition ctx_eqb (a b : ctx) : bool :=
  match a, b with CInit, CInit | CFresh, CFresh | COwner, COwner | CAny, CAny | CCtl, CCtl | CHelper, CHelper => true | _, _ => false end.

(* reads that are ordered after every owner access by the stopLock hand-shake: Stop() returns the count only after it saw
   running = false under stopLock, which run() writes under stopLock after its last access (C03_stop_returns_stopped) *)
Definition quiescent_reads : list (string * string) := [("EventLoop.Stop", "jobCount")].
(* fields written only before the goroutine that reads them is created (the go statement / time.AfterFunc order them) *)
Definition published_before_helper : list (string * string) := [("ticker", "Interval.start")].

Definition is_quiescent (r : row) : bool :=
  negb (r_write r) && existsb (fun p => String.eqb (fst p) (r_unit r) && String.eqb (snd p) (r_field r)) quiescent_reads.
Definition is_published (w rd : row) : bool :=
  r_write w && negb (r_write rd) && existsb (fun p => String.eqb (fst p) (r_field w) && String.eqb (snd p) (r_unit w)) published_before_helper.

Definition safe_pair (a b : row) : bool :=
  match context_of (r_unit a) (r_usage a), context_of (r_unit b) (r_usage b) with
  | Some ca, Some cb =>
    negb (String.eqb (r_field a) (r_field b)) ||            (* different fields *)
    (negb (r_write a) && negb (r_write b)) ||                (* two reads *)
    (r_atomic a && r_atomic b) ||
    existsb (fun l => mem l (r_locks b)) (r_locks a) ||      (* a common mutex *)
    (ctx_eqb ca COwner && ctx_eqb cb COwner) ||              (* the same goroutine *)
    (ctx_eqb ca CCtl && ctx_eqb cb CCtl) ||
    ctx_eqb ca CInit || ctx_eqb cb CInit || ctx_eqb ca CFresh || ctx_eqb cb CFresh ||
    (is_quiescent a && ctx_eqb cb COwner) || (is_quiescent b && ctx_eqb ca COwner) ||
    (is_published a b && ctx_eqb cb CHelper) || (is_published b a && ctx_eqb ca CHelper)
  | _, _ => false
  end.

Definition race_free (t : list row) : bool := forallb (fun a => forallb (safe_pair a) t) t.

(* what the boolean means *)
Lemma race_free_spec t : race_free t = true -> forall a b, In a t -> In b t -> safe_pair a b = true.
Proof. unfold race_free. intros H a b Ha Hb. rewrite forallb_forall in H. specialize (H a Ha). rewrite forallb_forall in H. exact (H b Hb). Qed.

Theorem loop_access_race_free : race_free loop_access = true.
Proof. vm_compute. reflexivity. Qed.

(* ---------------- deadlock, the part that involves mutexes ----------------
   loop_sync (regenerated from the source) lists every lock acquisition, every blocking channel operation, every condition
   wait and every call made while a mutex is held, with the mutexes held at that point. The discipline checked below:
   (1) mutexes are acquired in one global order (stopLock before auxJobsLock) and never while already held;
   (2) nothing that can block on another thread is executed inside a critical section: no channel send or receive, no
       blocking select, no call of a function value or of code outside this file other than sync/atomic, panic and the
       (no-op) verifPoint hook; a call of a function of this file is allowed if, transitively, it acquires only mutexes later
       in the order and never blocks;
   (3) the only wait inside a critical section is stopCond.Wait() with exactly stopLock held (sync.Cond.Wait releases it).
   Under the Go semantics of sync.Mutex this rules out every deadlock in which a mutex takes part (no cycle in the lock order,
   no thread sleeps holding a mutex another one needs); what remains are waits on channels and on the condition variable,
   which the model's theorems are about (C07: a stop request is never lost and the exit path is finite; C04: no lost wake-up). *)
Definition srow := (string * string * string * list string)%type.
Definition s_unit (r : srow) := let '(u, _, _, _) := r in u.
Definition s_kind (r : srow) := let '(_, k, _, _) := r in k.
Definition s_what (r : srow) := let '(_, _, w, _) := r in w.
Definition s_held (r : srow) := let '(_, _, _, h) := r in h.

Definition lock_rank (l : string) : option nat :=
  if String.eqb l "stopLock" then Some 0 else if String.eqb l "auxJobsLock" then Some 1 else None.
Definition before (h l : string) : bool :=
  match lock_rank h, lock_rank l with Some a, Some b => Nat.ltb a b | _, _ => false end.

Definition ext_ok_holding : list string := ["ext:atomic.StoreInt32"; "ext:atomic.LoadInt32"; "ext:panic"; "ext:verifPoint"].
Definition is_ext (f : string) : bool := String.prefix "ext:" f.
Definition blocking_kind (k : string) : bool := mem k ["chan-send"; "chan-recv"; "select-blocking"; "cond-wait"].

Section Sync.
Variable t : list srow.
Definition rows_of (u : string) : list srow := filter (fun r => String.eqb (s_unit r) u) t.
Definition callees (u : string) : list string :=
  flat_map (fun r => if (String.eqb (s_kind r) "call" || String.eqb (s_kind r) "call-holding") && negb (is_ext (s_what r)) then [s_what r] else []) (rows_of u).
(* units reachable through calls of functions of this file (function literals are units of their own: they run where they
   are invoked — as aux jobs, timer jobs, goroutines — never inside the critical section that creates them) *)
Fixpoint reach_units (fuel : nat) (todo seen : list string) : list string :=
  match fuel with
  | O => seen
  | S f => match todo with
           | [] => seen
           | u :: rest => if mem u seen then reach_units f rest seen else reach_units f (callees u ++ rest) (u :: seen)
           end
  end.
Definition closure (u : string) : list string := reach_units (S (length t * 4)) [u] [].
Definition trans_acq (u : string) : list string :=
  flat_map (fun v => flat_map (fun r => if String.eqb (s_kind r) "lock" then [s_what r] else []) (rows_of v)) (closure u).
Definition trans_blocks (u : string) : bool :=
  existsb (fun v => existsb (fun r => blocking_kind (s_kind r) || (String.eqb (s_kind r) "call" && is_ext (s_what r) && negb (mem (s_what r) ["ext:atomic.StoreInt32"; "ext:atomic.LoadInt32"; "ext:verifPoint"; "ext:len"; "ext:append"; "ext:int"]))) (rows_of v)) (closure u).

Definition row_ok (r : srow) : bool :=
  let k := s_kind r in let h := s_held r in
  if String.eqb k "lock" then forallb (fun x => before x (s_what r)) h && (match lock_rank (s_what r) with Some _ => true | None => false end)
  else if String.eqb k "call-holding" then
    (if is_ext (s_what r) then mem (s_what r) ext_ok_holding
     else forallb (fun l => forallb (fun x => before x l) h) (trans_acq (s_what r)) && negb (trans_blocks (s_what r)))
  else if String.eqb k "cond-wait" then String.eqb (s_what r) "loop.stopCond" && (match h with [x] => String.eqb x "stopLock" | _ => false end)
  else if blocking_kind k then (match h with [] => true | _ => false end)
  else true.
Definition lock_discipline : bool := forallb row_ok t.
End Sync.

Lemma lock_discipline_spec t : lock_discipline t = true -> forall r, In r t -> row_ok t r = true.
Proof. unfold lock_discipline. intro H. apply forallb_forall. exact H. Qed.

Theorem loop_lock_discipline : lock_discipline loop_sync = true.
Proof. vm_compute. reflexivity. Qed.

(* non-vacuity: the table has nested acquisitions, calls under a lock and the condition wait *)
Example loop_sync_nonvacuous :
  existsb (fun r => String.eqb (s_kind r) "lock" && match s_held r with [] => false | _ => true end) loop_sync = true /\
  existsb (fun r => String.eqb (s_kind r) "call-holding" && negb (is_ext (s_what r))) loop_sync = true /\
  existsb (fun r => String.eqb (s_kind r) "cond-wait") loop_sync = true /\
  (* and the check is not trivially true: swapping the order of the two mutexes is rejected *)
  lock_discipline [("f", "lock", "auxJobsLock", []); ("f", "lock", "stopLock", ["auxJobsLock"])]%string = false /\
  lock_discipline [("f", "lock", "stopLock", []); ("f", "chan-send", "c", ["stopLock"])]%string = false /\
  lock_discipline [("f", "lock", "stopLock", []); ("f", "call-holding", "g", ["stopLock"]); ("g", "chan-recv", "c", [])]%string = false.
Proof. vm_compute. repeat split; reflexivity. Qed.
