(* Model/LoopAccess.v — which goroutines may execute each code unit of eventloop.go, and the rule that decides that two
   accesses of the generated table (Gen/LoopAccess.v) cannot race. The table is syntactic; the assignment of units to
   contexts is the hand-written part (it follows the routing through addAuxJob / jobChan, and C03's single-owner theorem
   for Terminate). Go's memory model (mutexes, sync/atomic, channel operations and the go statement order events) is
   trusted. *)
From Coq Require Import String List Bool.
From GN Require Import Gen.LoopAccess.
Import ListNotations.
Open Scope string_scope.

Inductive ctx :=
| CInit      (* NewEventLoop and its options: before the loop is visible to anyone *)
| CFresh     (* constructors of a Timer/Interval/Immediate: the object is not shared yet *)
| COwner     (* the goroutine that executes run() — or Terminate after its Stop(): one at a time (C03_single_owner) *)
| CAny       (* documented as safe from any goroutine *)
| CCtl       (* Start / Run / Stop: one controlling goroutine *)
| CHelper.   (* time.AfterFunc callbacks and Interval.run *)

Definition owner_funcs : list string :=
  ["EventLoop.schedule"; "EventLoop.setTimeout"; "EventLoop.setInterval"; "EventLoop.setImmediate"; "EventLoop.runAux"; "EventLoop.run";
   "EventLoop.addImmediate"; "EventLoop.doTimeout"; "EventLoop.doInterval"; "EventLoop.doImmediate"; "EventLoop.clearTimeout";
   "EventLoop.clearInterval"; "EventLoop.clearImmediate"; "EventLoop.removeJob"; "Timer.start"; "Interval.start"; "Timer.doCancel";
   "Interval.doCancel"; "EventLoop.Terminate"].
Definition any_funcs : list string :=
  ["EventLoop.SetTimeout"; "EventLoop.ClearTimeout"; "EventLoop.SetInterval"; "EventLoop.ClearInterval"; "EventLoop.RunOnLoop";
   "EventLoop.StopNoWait"; "EventLoop.addAuxJob"; "EventLoop.wakeup"].
Definition ctl_funcs : list string := ["EventLoop.setRunning"; "EventLoop.Run"; "EventLoop.Start"; "EventLoop.StartInForeground"; "EventLoop.Stop"].
Definition init_funcs : list string := ["NewEventLoop"; "EnableConsole#1"; "WithRegistry#1"; "EnableConsole"; "WithRegistry"].
Definition fresh_funcs : list string := ["EventLoop.newTimeout"; "EventLoop.newInterval"].
Definition helper_funcs : list string := ["Interval.run"].

Definition mem (x : string) (l : list string) : bool := existsb (String.eqb x) l.

(* a function literal: by how it is used *)
Definition context_of (unit usage : string) : option ctx :=
  if String.eqb usage "aux" || String.eqb usage "job" then Some COwner        (* queued on the loop / received from jobChan *)
  else if String.eqb usage "afterfunc" || String.eqb usage "go" then Some CHelper
  else if String.eqb usage "value" then
    if mem unit init_funcs then Some CInit else Some COwner                    (* callback wrappers: called as job.fn by the owner *)
  else if mem unit owner_funcs then Some COwner
  else if mem unit any_funcs then Some CAny
  else if mem unit ctl_funcs then Some CCtl
  else if mem unit init_funcs then Some CInit
  else if mem unit fresh_funcs then Some CFresh
  else if mem unit helper_funcs then Some CHelper
  else None.                                                                   (* an unknown unit: the check fails *)

Definition row := (string * string * string * bool * list string * bool)%type.
Definition r_unit (r : row) := let '(u, _, _, _, _, _) := r in u.
Definition r_usage (r : row) := let '(_, u, _, _, _, _) := r in u.
Definition r_field (r : row) := let '(_, _, f, _, _, _) := r in f.
Definition r_write (r : row) := let '(_, _, _, w, _, _) := r in w.
Definition r_locks (r : row) := let '(_, _, _, _, l, _) := r in l.
Definition r_atomic (r : row) := let '(_, _, _, _, _, a) := r in a.

Definition ctx_eqb (a b : ctx) : bool :=
  match a, b with CInit, CInit | CFresh, CFresh | COwner, COwner | CAny, CAny | CCtl, CCtl | CHelper, CHelper => true | _, _ => false end.

(* reads that are ordered after every owner access by the stopLock hand-shake: Stop() returns the count only after it saw
   running = false under stopLock, which run() writes under stopLock after its last access (C03_stop_returns_stopped) *)
Definition quiescent_reads : list (string * string) := [("EventLoop.Stop", "jobCount")].
(* fields written only before the goroutine that reads them is created (the go statement / time.AfterFunc order them) *)
Definition published_before_helper : list (string * string) := [("ticker", "Interval.start")].

Definition is_quiescent (r : row) : bool :=
  negb (r_write r) && existsb (fun p => String.eqb (fst p) (r_unit r) && String.eqb (snd p) (r_field r)) quiescent_reads.
Definition is_published (w rd : row) : bool :=
  r_write w && negb (r_write rd) && existsb (fun p => String.eqb (fst p) (r_field w) && String.eqb (snd p) (r_unit w)) published_before_helper.

Definition safe_pair (a b : row) : bool :=
  match context_of (r_unit a) (r_usage a), context_of (r_unit b) (r_usage b) with
  | Some ca, Some cb =>
    negb (String.eqb (r_field a) (r_field b)) ||            (* different fields *)
    (negb (r_write a) && negb (r_write b)) ||                (* two reads *)
    (r_atomic a && r_atomic b) ||
    existsb (fun l => mem l (r_locks b)) (r_locks a) ||      (* a common mutex *)
    (ctx_eqb ca COwner && ctx_eqb cb COwner) ||              (* the same goroutine *)
    (ctx_eqb ca CCtl && ctx_eqb cb CCtl) ||
    ctx_eqb ca CInit || ctx_eqb cb CInit || ctx_eqb ca CFresh || ctx_eqb cb CFresh ||
    (is_quiescent a && ctx_eqb cb COwner) || (is_quiescent b && ctx_eqb ca COwner) ||
    (is_published a b && ctx_eqb cb CHelper) || (is_published b a && ctx_eqb ca CHelper)
  | _, _ => false
  end.

Definition race_free (t : list row) : bool := forallb (fun a => forallb (safe_pair a) t) t.

(* what the boolean means *)
Lemma race_free_spec t : race_free t = true -> forall a b, In a t -> In b t -> safe_pair a b = true.
Proof. unfold race_free. intros H a b Ha Hb. rewrite forallb_forall in H. specialize (H a Ha). rewrite forallb_forall in H. exact (H b Hb). Qed.

Theorem loop_access_race_free : race_free loop_access = true.
Proof. vm_compute. reflexivity. Qed.
