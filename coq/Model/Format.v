(* Model/Format.v — util.format scanner as written in util/module.go (Format / format), console dispatch.
   Strings are lists of Unicode code points (Go ranges over runes). Definitions only. *)
From GN Require Import Common.Base Gen.UtilFormat.

(* The three conversions are oracles supplied with each argument:
   String(a), String(Number(a)), String(JSON.stringify(a)) *)
Record arg := { a_str : zs; a_num : zs; a_json : zs }.

Definition conv_of (c : conv) (a : arg) : zs :=
  match c with CStr => a_str a | CNum => a_num a | CJson => a_json a end.

Fixpoint assocZ {A} (k : Z) (l : list (Z * A)) : option A :=
  match l with
  | [] => None
  | (k', v) :: r => if k =? k' then Some v else assocZ k r
  end.

(* Util.format(f, val, w): what is written and whether the argument was consumed *)
Definition fmt1 (f : Z) (a : arg) : zs * bool :=
  match assocZ f fmt_directives with
  | Some c => (conv_of c a, true)
  | None => if f =? 37 then ([37], false) else ([37; f], false)
  end.

(* the loop of Util.Format: pct = pending '%', rest = args[argNum:], noargs = (len(args) == 0) *)
Fixpoint scan (noargs : bool) (f : zs) (pct : bool) (rest : list arg) : zs * list arg :=
  match f with
  | [] => ((if pct then [37] else []), rest)
  | c :: f' =>
    if pct then
      match rest with
      | a :: rest' =>
        let '(o, used) := fmt1 c a in
        let '(o2, r2) := scan noargs f' false (if used then rest' else rest) in
        (o ++ o2, r2)
      | [] =>
        let o := if negb (c =? 37) || noargs then [37; c] else [37] in
        let '(o2, r2) := scan noargs f' false [] in
        (o ++ o2, r2)
      end
    else if c =? 37 then scan noargs f' true rest
    else let '(o2, r2) := scan noargs f' false rest in (c :: o2, r2)
  end.

Definition is_nil {A} (l : list A) : bool := match l with [] => true | _ => false end.

Definition format (f : zs) (args : list arg) : zs :=
  let '(o, rest) := scan (is_nil args) f false args in
  o ++ flat_map (fun a => 32 :: a_str a) rest.

(* js_format: first argument undefined/absent -> "", the others are the arguments *)
Definition js_format (call : option zs * list arg) : zs := format (match fst call with Some f => f | None => [] end) (snd call).

(* console: one message per call, to the sink registered for the method *)
Record ccall := { c_method : zs; c_fmt : option zs; c_args : list arg }.

Fixpoint assoc_zs {A} (k : zs) (l : list (zs * A)) : option A :=
  match l with
  | [] => None
  | (k', v) :: r => if zs_eqb k k' then Some v else assoc_zs k r
  end.

Record sinks := { s_log : list zs; s_warn : list zs; s_err : list zs }.

Definition deliver (s : sinks) (k : sink) (m : zs) : sinks :=
  match k with
  | SLog => {| s_log := s_log s ++ [m]; s_warn := s_warn s; s_err := s_err s |}
  | SWarn => {| s_log := s_log s; s_warn := s_warn s ++ [m]; s_err := s_err s |}
  | SError => {| s_log := s_log s; s_warn := s_warn s; s_err := s_err s ++ [m] |}
  end.

Definition console_step (s : sinks) (c : ccall) : sinks :=
  match assoc_zs (c_method c) console_sinks with
  | Some k => deliver s k (js_format (c_fmt c, c_args c))
  | None => s      (* not a method of console: TypeError in JS, nothing delivered *)
  end.

Definition console_run (cs : list ccall) : sinks :=
  fold_left console_step cs {| s_log := []; s_warn := []; s_err := [] |}.
