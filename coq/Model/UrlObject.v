(* Model/UrlObject.v — the URL object of url/url.go + url/nodeurl.go as a state machine: the Go url.URL fields that the
   properties talk about, the lazily synchronised searchParams list, the setters and getters as written.
   net/url's parser and printer, ParseRequestURI's verdict and the IDNA/lower-casing of hosts are parameters (oracles). *)
From GN Require Import Common.Base Gen.UrlTables Gen.UrlGlue Model.SearchParams.
From RecordUpdate Require Import RecordSet.
Import RecordSetNotations.
Open Scope Z_scope.

(* ---- host / port splitting: net/url splitHostPort, validOptionalPort ---- *)
Definition is_digit (c : Z) : bool := (48 <=? c) && (c <=? 57).
Definition all_digits (s : zs) : bool := forallb is_digit s.

(* split at the last ':' *)
Fixpoint last_colon (s : zs) : option (zs * zs) :=
  match s with
  | [] => None
  | c :: r =>
    match last_colon r with
    | Some (a, b) => Some (c :: a, b)
    | None => if c =? 58 then Some ([], r) else None
    end
  end.

(* URL.Port() *)
Definition port_of (h : zs) : zs :=
  match last_colon h with
  | Some (_, p) => if all_digits p then p else []
  | None => []
  end.

(* hostWithoutPort: Host minus ":port", or minus a trailing ":" *)
Definition host_without_port (h : zs) : zs :=
  match last_colon h with
  | Some (a, p) => if all_digits p then a else h
  | None => h
  end.

(* strconv.Atoi of a digit string (ports: small numbers; an overflow is 'not a number' in Go, never a default port) *)
Definition num_of (s : zs) : Z := fold_left (fun acc c => acc * 10 + (c - 48)) s 0.

(* isDefaultURLPort, isSpecialProtocol: tables regenerated from the source *)
Definition s_ftp : zs := [102;116;112].
Definition s_file : zs := [102;105;108;101].
Definition s_http : zs := [104;116;116;112].
Definition s_https : zs := [104;116;116;112;115].
Definition s_ws : zs := [119;115].
Definition s_wss : zs := [119;115;115].
Definition default_ports : list (zs * Z) := gen_default_ports.      (* regenerated from isDefaultURLPort *)
Definition is_default_port (proto : zs) (port : Z) : bool :=
  existsb (fun e => zs_eqb (fst e) proto && (snd e =? port)) default_ports.
Definition special_protocols : list zs := gen_special.               (* regenerated from isSpecialProtocol *)
Definition is_special (proto : zs) : bool := existsb (zs_eqb proto) special_protocols.
Definition is_special_net (proto : zs) : bool := existsb (zs_eqb proto) gen_special_net.   (* isSpecialNetProtocol *)

(* strconv.Itoa for 0..65535 is the inverse of num_of on canonical digit strings; we carry the digits themselves *)
Record ustate := mkU {
  scheme : zs;
  host : zs;
  rawquery : zs;
  fragment : zs;
  upath : zs;
  sp : option plist       (* nodeURL.searchParams: None = not materialised *)
}.
#[export] Instance eta_ustate : Settable _ := settable! mkU <scheme; host; rawquery; fragment; upath; sp>.

(* ---- query side ---- *)
(* fixRawQuery *)
Definition fix_raw_query (q : zs) : zs := match q with [] => [] | _ => escape tbl_query false q end.

(* syncSearchParams / rawQueryUpdateNeeded *)
Definition sync (s : ustate) : ustate :=
  match sp s, rawquery s with
  | Some (p :: l), [] => s <| rawquery := serialize (p :: l) |>
  | _, _ => s
  end.

(* getters *)
Definition get_search (s : ustate) : zs := match rawquery (sync s) with [] => [] | q => 63 :: q end.
(* the searchParams getter materialises the list *)
Definition materialise (s : ustate) : ustate :=
  match sp s with Some _ => s | None => s <| sp := Some (parse_raw (rawquery s)) |> end.
Definition get_params (s : ustate) : plist := match sp (materialise s) with Some l => l | None => [] end.

(* setters *)
Definition set_search (s : ustate) (v : zs) : ustate :=
  let q := fix_raw_query (trim_q v) in
  let s1 := s <| rawquery := q |> in
  match sp s with Some _ => s1 <| sp := Some (parse_raw q) |> | None => s1 end.

(* a searchParams mutation (append/set/delete/sort): the list changes, markUpdated empties RawQuery *)
Definition mutate (s : ustate) (f : plist -> plist) : ustate :=
  let s1 := materialise s in
  match sp s1 with Some l => s1 <| sp := Some (f l) |> <| rawquery := [] |> | None => s1 end.

Section Oracles.
(* url.Parse of an absolute URL: scheme, host, raw query, fragment, path as net/url returns them *)
Variable parse_url : zs -> option (zs * zs * zs * zs * zs).
(* ParseRequestURI(scheme://host) succeeds and yields exactly that host *)
Variable host_ok : zs -> zs -> bool.
(* strings.ToLower; idna.Punycode.ToASCII (None: the conversion fails and the setter throws) *)
Variable lower : zs -> zs.
Variable norm_host : zs -> option zs.
(* path.Clean and the trailing-slash rule *)
Variable clean_path : zs -> zs -> zs.

(* ---- host side ---- *)
Definition clear_port (h : zs) : zs := host_without_port h.

(* dropDefaultPort: strconv.Atoi fails exactly when the digits exceed MaxInt64 *)
Definition atoi_ok (p : zs) : bool := num_of p <=? 9223372036854775807.
Definition drop_default_port (sc h : zs) : zs :=
  match port_of h with
  | [] => clear_port h
  | p => if negb (atoi_ok p) || is_default_port sc (num_of p) then clear_port h else h
  end.

(* fixURL, host part (None: throws after the host was stored) *)
Definition fix_host (sc h : zs) : option zs :=
  if is_special_net sc then
    let hn := host_without_port h in
    let lh := lower hn in
    match (if match lh with 91 :: _ => true | _ => false end then Some lh else norm_host lh) with
    | Some ch => Some (if zs_eqb ch hn then h else match port_of h with [] => ch | p => ch ++ 58 :: p end)
    | None => None
    end
  else Some h.

(* href setter / constructor: parseURL = url.Parse, dropDefaultPort, fixURL; a failure throws before anything is stored *)
Definition set_href (s : ustate) (v : zs) : option ustate :=
  match parse_url v with
  | Some (sc, h0, q0, f, p0) =>
    if match sc with [] => true | _ => false end then None                                  (* not absolute *)
    else if is_special_net sc && match h0, p0 with [], [] => true | _, _ => false end then None
    else
    match fix_host sc (drop_default_port sc h0) with
    | Some h =>
      let q := fix_raw_query q0 in
      let s1 := s <| scheme := sc |> <| host := h |> <| rawquery := q |> <| fragment := f |> <| upath := clean_path p0 sc |> in
      Some (match sp s with Some _ => s1 <| sp := Some (parse_raw q) |> | None => s1 end)
    | None => None
    end
  | None => None
  end.

(* setURLPort after valueToURLPort: the argument is already classified *)
Inductive portarg := PEmpty | PInvalid | PNum (digits : zs).   (* digits: canonical decimal of a number 0..65535 *)
Definition set_port (s : ustate) (a : portarg) : ustate :=
  if zs_eqb (scheme s) s_file then s
  else match a with
       | PEmpty => s <| host := clear_port (host s) |>
       | PInvalid => s
       | PNum d => if is_default_port (scheme s) (num_of d) then s <| host := clear_port (host s) |>
                   else s <| host := host_without_port (host s) ++ 58 :: d |>
       end.

(* protocol setter (argument already cut at ':' and lower-cased) *)

(* host setter: result and whether it throws. Since fix 1638926 the setters work on a copy of the url.URL and store it only when
   fixURL has not thrown: a host that cannot be normalised (an invalid punycode label) throws and leaves the URL as it was. *)
Definition set_host (s : ustate) (v : zs) : ustate * bool :=
  if host_ok (scheme s) v then
    let h1 := drop_default_port (scheme s) v in
    match fix_host (scheme s) h1 with
    | Some h2 => (s <| host := h2 |> <| upath := clean_path (upath s) (scheme s) |>, false)
    | None => (s, true)
    end
  else (s, false).

(* protocol setter: the scheme changes only between special and special (or non-special and non-special) and only if the
   host parses under the new scheme; then the default port of the NEW scheme is dropped and - since fix e9d39f9 - fixURL
   normalises the host for it (a host stored under file: was neither lower-cased nor punycoded). Result and whether it throws *)
Definition is_alpha (c : Z) : bool := ((97 <=? c) && (c <=? 122)) || ((65 <=? c) && (c <=? 90)).
Definition is_scheme_tail (c : Z) : bool := is_alpha c || ((48 <=? c) && (c <=? 57)) || (c =? 43) || (c =? 45) || (c =? 46).
(* isValidScheme: a letter followed by letters, digits, '+', '-', '.' *)
Definition valid_scheme (p : zs) : bool :=
  match p with [] => false | c :: r => is_alpha c && forallb is_scheme_tail r end.
Definition set_protocol (s : ustate) (p : zs) : ustate * bool :=
  if negb (valid_scheme p) then (s, false)
  else if Bool.eqb (is_special (scheme s)) (is_special p) && host_ok p (host s) then
    let h1 := drop_default_port p (host s) in
    match fix_host p h1 with
    | Some h2 => (s <| scheme := p |> <| host := h2 |> <| upath := clean_path (upath s) p |>, false)
    | None => (s, true)
    end
  else (s, false).

(* hostname setter *)
Definition set_hostname (s : ustate) (v : zs) : ustate * bool :=
  if existsb (Z.eqb 58) v then (s, false)
  else if host_ok (scheme s) v then
    let h1 := match port_of (host s) with [] => v | p => v ++ 58 :: p end in
    match fix_host (scheme s) h1 with
    | Some h2 => (s <| host := h2 |> <| upath := clean_path (upath s) (scheme s) |>, false)
    | None => (s, true)
    end
  else (s, false).

(* getters *)
Definition get_host (s : ustate) : zs := host s.
Definition get_hostname (s : ustate) : zs := host_without_port (host s).
Definition get_port (s : ustate) : zs := port_of (host s).

(* ---- operation histories ---- *)
Inductive uop :=
| OSearch (v : zs) | OHref (v : zs) | OMaterialise
| OAppend (n v : zs) | ODelete (n : zs) | OSet (n v : zs) | OSort
| OPort (a : portarg) | OProtocol (p : zs) | OHost (v : zs) | OHostname (v : zs)
| OHash (v : zs) | OPath (v : zs)
| OUserinfo.    (* username / password assigned: the setters as written touch url.User only, none of the modelled fields *)

Definition trim_hash (s : zs) : zs := match s with 35 :: r => r | _ => s end.

Definition ustep (s : ustate) (o : uop) : ustate :=
  match o with
  | OSearch v => set_search s v
  | OHref v => match set_href s v with Some s' => s' | None => s end
  | OMaterialise => materialise s
  | OAppend n v => mutate s (fun l => l ++ [(n, v)])
  | ODelete n => mutate s (fun l => delete_as_written (valid_name n) l)
  | OSet n v => mutate s (fun l => set_as_written n v l)
  | OSort => mutate s stable_sort
  | OPort a => set_port s a
  | OProtocol p => fst (set_protocol s p)
  | OHost v => fst (set_host s v)
  | OHostname v => fst (set_hostname s v)
  | OHash v => s <| fragment := trim_hash v |>
  | OPath v => s <| upath := clean_path v (scheme s) |>
  | OUserinfo => s
  end.

Definition urun (s : ustate) (ops : list uop) : ustate := fold_left ustep ops s.

End Oracles.
