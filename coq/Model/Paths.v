(* Model/Paths.v — slash-separated paths as Go's path/filepath (unix) treats them, on a cleaned representation.
   Clean/Join/Dir/Base/IsAbs are library functions: this model is validated against them by the harness. *)
From GN Require Import Common.Base.
Open Scope Z_scope.

(* a cleaned path: rooted or not, segments without "" and ".", ".." only as a prefix of a non-rooted path *)
Record path := { rooted : bool; segs : list zs }.

Definition dotdot : zs := [46; 46].
Definition dot : zs := [46].

Fixpoint split_slash (s : zs) : list zs :=
  match s with
  | [] => [[]]
  | c :: r => if c =? 47 then [] :: split_slash r
              else match split_slash r with h :: t => (c :: h) :: t | [] => [[c]] end
  end.

(* lexical processing of Clean: push segments on a stack *)
Fixpoint norm_segs (rooted : bool) (acc : list zs) (l : list zs) : list zs :=   (* acc is reversed *)
  match l with
  | [] => rev acc
  | s :: r =>
    if zs_eqb s [] || zs_eqb s dot then norm_segs rooted acc r
    else if zs_eqb s dotdot then
      match acc with
      | top :: acc' => if zs_eqb top dotdot then norm_segs rooted (s :: acc) r else norm_segs rooted acc' r
      | [] => if rooted then norm_segs rooted acc r else norm_segs rooted [s] r
      end
    else norm_segs rooted (s :: acc) r
  end.

Definition is_abs (s : zs) : bool := match s with 47 :: _ => true | _ => false end.

Definition parse (s : zs) : path :=
  {| rooted := is_abs s; segs := norm_segs (is_abs s) [] (split_slash s) |}.

Fixpoint join_slash (l : list zs) : zs :=
  match l with [] => [] | [x] => x | x :: r => x ++ 47 :: join_slash r end.

Definition render (p : path) : zs :=
  if rooted p then 47 :: join_slash (segs p)
  else match segs p with [] => dot | _ => join_slash (segs p) end.

(* filepath.Join(base, rel) where base is a cleaned path or the empty string (None) *)
Definition pjoin (base : option path) (rel : zs) : path :=
  match base with
  | None => parse rel
  | Some b => if match rel with [] => true | _ => false end then b
              else {| rooted := rooted b; segs := norm_segs (rooted b) (rev (segs b)) (split_slash rel) |}
  end.

Definition pjoin1 (b : path) (seg : zs) : path := pjoin (Some b) seg.

(* filepath.Dir on a cleaned path *)
Definition pdir (p : path) : path :=
  match rev (segs p) with
  | [] => p
  | last :: r =>
    if rooted p then {| rooted := true; segs := rev r |}
    else match r with
         | [] => {| rooted := false; segs := [] |}          (* Dir("a") = Dir("..") = "." *)
         | _ => {| rooted := false; segs := rev r |}
         end
  end.

(* filepath.Base *)
Definition pbase (p : path) : zs :=
  match rev (segs p) with
  | [] => if rooted p then [47] else dot
  | last :: _ => last
  end.

Definition path_eqb (a b : path) : bool := Bool.eqb (rooted a) (rooted b) && list_eqb zs_eqb (segs a) (segs b).

Definition append_ext (p : path) (ext : zs) : path :=     (* path + ".js": string concatenation on the rendered form *)
  match rev (segs p) with
  | [] => parse (render p ++ ext)
  | last :: r => {| rooted := rooted p; segs := rev ((last ++ ext) :: r) |}
  end.

(* isFileOrDirectoryPath *)
Fixpoint has_prefix (pre s : zs) : bool :=
  match pre, s with
  | [], _ => true
  | a :: p', b :: s' => (a =? b) && has_prefix p' s'
  | _, [] => false
  end.

Definition is_file_or_dir_path (s : zs) : bool :=
  zs_eqb s dot || zs_eqb s dotdot || has_prefix [47] s || has_prefix [46; 47] s || has_prefix [46; 46; 47] s.
