(* Model/Require.v — require(): resolution (resolve.go), the per-runtime caches, module evaluation with cycles
   and failures, native/core names. Executable; recursion is bounded by fuel (nesting depth of requires). *)
From GN Require Import Common.Base Model.Paths.
Open Scope Z_scope.

(* ---------- virtual file tree offered through a SourceLoader ---------- *)
Inductive instr :=
| IBump                              (* count one evaluation of this file *)
| ISet (k v : nat)                   (* exports["k<k>"] = v *)
| IReq (req : zs) (catch : bool)     (* x = require(req), inside try/catch or not; the outcome is logged *)
| IThrow (tag : nat)                 (* throw a tagged object *)
| ILazy (req : zs)                   (* export one more function that calls require(req) when invoked (outcome logged, errors caught) *)
| ICall (target : zs).               (* t = require(target) (logged, errors caught); then invoke the functions t exports so far, in order *)

Inductive fentry :=
| FJs (prog : list instr)
| FJson (valid : bool) (v : nat)     (* a .json file: {"j": v} or malformed text *)
| FPkg (main : option zs)            (* package.json: Some m = non-empty string "main" *)
| FRaw                               (* some other file content (not parsed as a module by these cases) *)
| FErr.                              (* the loader fails with an error other than "does not exist" *)

Definition fsys := list (zs * fentry).    (* keyed by the rendered path *)

Fixpoint fs_get (fs : fsys) (p : zs) : option fentry :=
  match fs with [] => None | (k, e) :: r => if zs_eqb k p then Some e else fs_get r p end.

(* ---------- native / core registrations (C15) ---------- *)
(* n_loader_reqs: what the Go loader of a registered name requires while it runs (re-entrant loaders; none for most) *)
(* n_loader_throws: registered names whose Go loader panics with a JS value (tag 77) when it runs *)
Record natives := { n_registry : list zs; n_global : list zs; n_core : list zs; n_loader_reqs : list (zs * list zs); n_loader_throws : list zs }.
Inductive nkind := NRegistry | NGlobal | NCore.

Fixpoint mem_zs (x : zs) (l : list zs) : bool := match l with [] => false | y :: r => zs_eqb x y || mem_zs x r end.

Definition node_prefix : zs := [110; 111; 100; 101; 58].   (* "node:" *)

(* ---------- run-time state of one RequireModule ---------- *)
Inductive owner := OFile (p : zs) | ONative (name : zs) (k : nkind).

Record mrec := { m_owner : owner; m_exports : list (nat * nat); m_lazies : list zs }.

Record rstate := {
  files_cache : list (zs * nat);       (* r.modules: path of a module file -> module *)
  resolved_cache : list (zs * nat);    (* r.resolved: file-or-directory request path -> module *)
  node_cache : list (zs * nat);        (* r.nodeModules *)
  native_cache : list (zs * nat);      (* r.natives *)
  store : list mrec;                   (* module id = position *)
  compiled : list zs;                  (* Registry.compiled: paths whose source was fetched and compiled *)
  counters : list (zs * nat);          (* evaluations per file *)
  loader_log : list zs;                (* SourceLoader calls, in order (reversed) *)
  native_runs : list (zs * nkind);     (* loader invocations of native/core modules (reversed) *)
  events : list (zs * zs * (Z * nat * list (nat * nat)))   (* requirer, request, outcome (reversed) *)
}.

Definition init_state : rstate :=
  {| files_cache := []; resolved_cache := []; node_cache := []; native_cache := []; store := []; compiled := []; counters := []; loader_log := [];
     native_runs := []; events := [] |}.

Fixpoint cache_get (c : list (zs * nat)) (k : zs) : option nat :=
  match c with [] => None | (k', v) :: r => if zs_eqb k k' then Some v else cache_get r k end.
Definition cache_set (c : list (zs * nat)) (k : zs) (v : nat) : list (zs * nat) :=
  (k, v) :: filter (fun kv => negb (zs_eqb (fst kv) k)) c.
Definition cache_del (c : list (zs * nat)) (k : zs) : list (zs * nat) := filter (fun kv => negb (zs_eqb (fst kv) k)) c.
Definition cache_del_val (c : list (zs * nat)) (v : nat) : list (zs * nat) := filter (fun kv => negb (Nat.eqb (snd kv) v)) c.

Fixpoint bump (c : list (zs * nat)) (k : zs) : list (zs * nat) :=
  match c with
  | [] => [(k, 1%nat)]
  | (k', n) :: r => if zs_eqb k k' then (k', S n) :: r else (k', n) :: bump r k
  end.

Fixpoint upd_nth {A} (l : list A) (i : nat) (f : A -> A) : list A :=
  match l, i with [], _ => [] | x :: r, O => f x :: r | x :: r, S k => x :: upd_nth r k f end.

Fixpoint set_export (e : list (nat * nat)) (k v : nat) : list (nat * nat) :=
  match e with
  | [] => [(k, v)]
  | (k', v') :: r => if Nat.eqb k k' then (k', v) :: r else (k', v') :: set_export r k v
  end.

(* outcome of a require: 0 ok (module id, exports as seen at that moment) ; 1 Invalid module ; 2 loader error ;
   3 No such built-in module ; 4 SyntaxError in a .json file ; 5 thrown (tag) ; 9 out of fuel *)
Inductive res := ROk (m : nat) | RNone | RErr (kind : Z) | RThrown (tag : nat) | RFuel.

Section WithWorld.
Variable fs : fsys.
Variable nat_reg : natives.

Definition new_module (st : rstate) (o : owner) : rstate * nat :=
  let id := length (store st) in
  ({| files_cache := files_cache st; resolved_cache := resolved_cache st; node_cache := node_cache st; native_cache := native_cache st;
      store := store st ++ [{| m_owner := o; m_exports := []; m_lazies := [] |}]; compiled := compiled st; counters := counters st;
      loader_log := loader_log st; native_runs := native_runs st; events := events st |}, id).

Definition with_files (st : rstate) (c : list (zs * nat)) : rstate :=
  {| files_cache := c; resolved_cache := resolved_cache st; node_cache := node_cache st; native_cache := native_cache st; store := store st; compiled := compiled st;
     counters := counters st; loader_log := loader_log st; native_runs := native_runs st; events := events st |}.
Definition with_node (st : rstate) (c : list (zs * nat)) : rstate :=
  {| files_cache := files_cache st; resolved_cache := resolved_cache st; node_cache := c; native_cache := native_cache st; store := store st; compiled := compiled st;
     counters := counters st; loader_log := loader_log st; native_runs := native_runs st; events := events st |}.
Definition with_resolved (st : rstate) (c : list (zs * nat)) : rstate :=
  {| files_cache := files_cache st; resolved_cache := c; node_cache := node_cache st; native_cache := native_cache st; store := store st; compiled := compiled st;
     counters := counters st; loader_log := loader_log st; native_runs := native_runs st; events := events st |}.
Definition with_native (st : rstate) (c : list (zs * nat)) (runs : list (zs * nkind)) : rstate :=
  {| files_cache := files_cache st; resolved_cache := resolved_cache st; node_cache := node_cache st; native_cache := c; store := store st; compiled := compiled st;
     counters := counters st; loader_log := loader_log st; native_runs := runs; events := events st |}.
Definition log_load (st : rstate) (p : zs) : rstate :=
  {| files_cache := files_cache st; resolved_cache := resolved_cache st; node_cache := node_cache st; native_cache := native_cache st; store := store st; compiled := compiled st;
     counters := counters st; loader_log := p :: loader_log st; native_runs := native_runs st; events := events st |}.
Definition add_compiled (st : rstate) (p : zs) : rstate :=
  {| files_cache := files_cache st; resolved_cache := resolved_cache st; node_cache := node_cache st; native_cache := native_cache st; store := store st; compiled := p :: compiled st;
     counters := counters st; loader_log := loader_log st; native_runs := native_runs st; events := events st |}.
Definition with_store (st : rstate) (s : list mrec) (cn : list (zs * nat)) : rstate :=
  {| files_cache := files_cache st; resolved_cache := resolved_cache st; node_cache := node_cache st; native_cache := native_cache st; store := s; compiled := compiled st;
     counters := cn; loader_log := loader_log st; native_runs := native_runs st; events := events st |}.
Definition log_event (st : rstate) (who req : zs) (o : Z * nat * list (nat * nat)) : rstate :=
  {| files_cache := files_cache st; resolved_cache := resolved_cache st; node_cache := node_cache st; native_cache := native_cache st; store := store st; compiled := compiled st;
     counters := counters st; loader_log := loader_log st; native_runs := native_runs st; events := (who, req, o) :: events st |}.

Definition exports_of (st : rstate) (m : nat) : list (nat * nat) :=
  match nth_error (store st) m with Some r => m_exports r | None => [] end.

Definition outcome_of (st : rstate) (r : res) : Z * nat * list (nat * nat) :=
  match r with
  | ROk m => (0, m, exports_of st m)
  | RNone => (1, O, [])
  | RErr k => (k, O, [])
  | RThrown t => (5, t, [])
  | RFuel => (9, O, [])
  end.

(* ---- the candidates that resolution probes, in order (pure functions of the file tree) ---- *)
Inductive cand := CMod (p : path) | CPkg (ps : zs).     (* load a module file | read a package.json *)

Definition ext_js : zs := [46;106;115].
Definition ext_json : zs := [46;106;115;111;110].
Definition index_js : zs := [105;110;100;101;120;46;106;115].
Definition index_json : zs := [105;110;100;101;120;46;106;115;111;110].
Definition package_json : zs := [112;97;99;107;97;103;101;46;106;115;111;110].
Definition node_modules : zs := [110;111;100;101;95;109;111;100;117;108;101;115].

Definition cands_file (p : path) : list cand := [CMod p; CMod (append_ext p ext_js); CMod (append_ext p ext_json)].
Definition cands_index (p : path) : list cand := [CMod (pjoin1 p index_js); CMod (pjoin1 p index_json)].
Definition cands_dir (p : path) : list cand :=
  let pk := render (pjoin1 p package_json) in
  CPkg pk :: match fs_get fs pk with
             | Some (FPkg (Some main)) => let mp := pjoin (Some p) main in cands_file mp ++ cands_index mp
             | _ => cands_index p
             end.
Definition cands_file_or_dir (p : path) : list cand := cands_file p ++ cands_dir p.

(* the directories loadNodeModules visits, as the loop is written *)
Fixpoint walk_dirs (n : nat) (start : path) : list path :=
  match n with
  | O => []
  | S n' =>
    let dir := if zs_eqb (pbase start) node_modules then start else pjoin1 start node_modules in
    dir :: (if path_eqb start {| rooted := false; segs := [dotdot] |} then []
            else let parent := pdir start in if path_eqb parent start then [] else walk_dirs n' parent)
  end.

Definition cands_node (curdir : path) (req : zs) : list cand :=
  flat_map (fun d => cands_file_or_dir (pjoin (Some d) req)) (walk_dirs (S (length (segs curdir))) curdir).

(* loadNative, after the fix that keeps names apart from file paths *)
Definition load_native (st : rstate) (name : zs) : rstate * res :=
  match cache_get (native_cache st) name with
  | Some m => (st, ROk m)
  | None =>
    let direct := if mem_zs name (n_registry nat_reg) then Some NRegistry
                  else if mem_zs name (n_global nat_reg) then Some NGlobal
                  else if mem_zs name (n_core nat_reg) then Some NCore else None in
    let stripped := skipn (length node_prefix) name in
    match direct with
    | Some k =>
      let '(st1, m) := new_module st (ONative name k) in
      let c1 := cache_set (native_cache st1) name m in
      let c2 := match k with
                | NCore => if has_prefix node_prefix name then c1 else cache_set c1 (node_prefix ++ name) m
                | _ => c1
                end in
      (with_native st1 c2 ((name, k) :: native_runs st1), ROk m)
    | None =>
      if has_prefix node_prefix name then
        if mem_zs stripped (n_core nat_reg) then
          let '(st1, m) := new_module st (ONative stripped NCore) in
          let c1 := cache_set (native_cache st1) name m in
          let c2 := if mem_zs stripped (n_registry nat_reg) || mem_zs stripped (n_global nat_reg) then c1
                    else cache_set c1 stripped m in
          (with_native st1 c2 ((stripped, NCore) :: native_runs st1), ROk m)
        else (st, RErr 3)
      else (st, RNone)
    end
  end.

(* ---- evaluation, written with open recursion: rq is "require" for nested calls ---- *)
Section Open.
Variable rq : rstate -> path -> zs -> rstate * res.

Definition set_exp (st : rstate) (m k v : nat) : rstate :=
  with_store st (upd_nth (store st) m (fun r => {| m_owner := m_owner r; m_exports := set_export (m_exports r) k v; m_lazies := m_lazies r |})) (counters st).

Definition add_lazy (st : rstate) (m : nat) (req : zs) : rstate :=
  with_store st (upd_nth (store st) m (fun r => {| m_owner := m_owner r; m_exports := m_exports r; m_lazies := m_lazies r ++ [req] |})) (counters st).

Definition lazies_of (st : rstate) (m : nat) : list zs :=
  match nth_error (store st) m with Some r => m_lazies r | None => [] end.
Definition owner_file (st : rstate) (m : nat) : option zs :=
  match nth_error (store st) m with Some r => match m_owner r with OFile f => Some f | ONative _ _ => None end | None => None end.

(* the exported functions of a module, invoked one after the other: each calls require(req) from the code of the file that
   DEFINED it — the request is resolved against that file's directory, whoever the caller is — logs the outcome and
   swallows errors *)
Fixpoint run_lazies (st : rstate) (def_file : zs) (reqs : list zs) : rstate * bool :=     (* bool: out of fuel *)
  match reqs with
  | [] => (st, false)
  | r :: rest =>
    let '(st1, x) := rq st (pdir (parse def_file)) r in
    let st2 := log_event st1 def_file r (outcome_of st1 x) in
    match x with RFuel => (st2, true) | _ => run_lazies st2 def_file rest end
  end.

Definition bump_counter (st : rstate) (file : zs) : rstate := with_store st (store st) (bump (counters st) file).

(* the loader of a native / core module is Go code that may itself call require(): it runs after the module object has been
   created and cached under its name AND its alias (loadNative writes both before calling the loader), from a script whose
   directory is "." *)
Definition loader_file : zs := [95;95;110;97;116;105;118;101;95;95;46;106;115].     (* "__native__.js" *)

Fixpoint assoc_reqs (l : list (zs * list zs)) (k : zs) : list zs :=
  match l with [] => [] | (k', v) :: r => if zs_eqb k k' then v else assoc_reqs r k end.

Definition registered_name (st : rstate) (m : nat) : zs :=
  match nth_error (store st) m with Some r => match m_owner r with ONative n _ => n | OFile _ => [] end | None => [] end.

(* a core module that is already loaded under its own name, asked for through one more "node:" prefix (a core module
   registered as "node:X" only, required as "node:node:X"): the same module under one more name; no second module object,
   no second run of the loader (fix 4624a93) *)
Definition reuse_core (st : rstate) (name : zs) : option nat :=
  let stripped := skipn (length node_prefix) name in
  if mem_zs name (n_registry nat_reg) || mem_zs name (n_global nat_reg) || mem_zs name (n_core nat_reg) then None
  else if has_prefix node_prefix name && mem_zs stripped (n_core nat_reg)
          && negb (mem_zs stripped (n_registry nat_reg) || mem_zs stripped (n_global nat_reg))
       then cache_get (native_cache st) stripped else None.

Definition load_native_run (st : rstate) (name : zs) : rstate * res :=
  match cache_get (native_cache st) name with
  | Some m => (st, ROk m)
  | None =>
    match reuse_core st name with
    | Some m0 => (with_native st (cache_set (native_cache st) name m0) (native_runs st), ROk m0)
    | None =>
    let '(st1, r) := load_native st name in
    match r with
    | ROk m =>
      (* the module is cached (under both spellings) before the loader runs and stays cached when the loader fails: loadNative has
         no clean-up, a later require returns the same half-initialised module and does not run the loader again *)
      if mem_zs (registered_name st1 m) (n_loader_throws nat_reg) then (st1, RThrown 77)
      else let '(st2, oof) := run_lazies st1 loader_file (assoc_reqs (n_loader_reqs nat_reg) (registered_name st1 m)) in
           (st2, if oof then RFuel else ROk m)
    | other => (st1, other)
    end
    end
  end.

(* the body of a module: a nested require that fails un-caught ends the evaluation with that error *)
Fixpoint run_body (st : rstate) (m : nat) (file : zs) (prog : list instr) : rstate * res :=
  match prog with
  | [] => (st, ROk m)
  | IBump :: rest => run_body (bump_counter st file) m file rest
  | ISet k v :: rest => run_body (set_exp st m k v) m file rest
  | IReq r catch :: rest =>
    let '(st1, x) := rq st (pdir (parse file)) r in
    let st2 := log_event st1 file r (outcome_of st1 x) in
    match x with
    | ROk _ => run_body st2 m file rest
    | RFuel => (st2, RFuel)
    | _ => if catch then run_body st2 m file rest else (st2, match x with RNone => RErr 1 | y => y end)
    end
  | IThrow t :: _ => (st, RThrown t)
  | ILazy r :: rest => run_body (add_lazy st m r) m file rest
  | ICall t :: rest =>
    let '(st1, x) := rq st (pdir (parse file)) t in
    let st2 := log_event st1 file t (outcome_of st1 x) in
    match x with
    | ROk m' =>
      match owner_file st2 m' with
      | Some f' => let '(st3, oof) := run_lazies st2 f' (lazies_of st2 m') in
                   if oof then (st3, RFuel) else run_body st3 m file rest
      | None => run_body st2 m file rest
      end
    | RFuel => (st2, RFuel)
    | _ => run_body st2 m file rest
    end
  end.

(* forget a failed module under every name *)
Definition forget (st : rstate) (m : nat) (ps : zs) : rstate :=
  with_resolved (with_node (with_files st (cache_del (cache_del_val (files_cache st) m) ps)) (cache_del_val (node_cache st) m))
                (cache_del_val (resolved_cache st) m).

(* loadModule(path) *)
Definition load_module (st : rstate) (p : path) : rstate * res :=
  let ps := render p in
  match cache_get (files_cache st) ps with
  | Some m => (st, ROk m)
  | None =>
    let '(st1, m) := new_module st (OFile ps) in
    let st2 := with_files st1 (cache_set (files_cache st1) ps m) in
    (* getCompiledSource: fetched once per Registry *)
    let was_compiled := mem_zs ps (compiled st2) in
    let st3 := if was_compiled then st2 else log_load st2 ps in
    match fs_get fs ps with
    | None => (forget st3 m ps, RNone)
    | Some FErr => (forget st3 m ps, RErr 2)
    | Some (FJs prog) =>
      let st4 := if was_compiled then st3 else add_compiled st3 ps in
      let '(st5, r) := run_body st4 m ps prog in
      match r with ROk _ => (st5, ROk m) | _ => (forget st5 m ps, r) end
    | Some (FJson true v) =>
      let st4 := if was_compiled then st3 else add_compiled st3 ps in
      (set_exp st4 m O v, ROk m)
    | Some (FJson false _) =>
      let st4 := if was_compiled then st3 else add_compiled st3 ps in
      (forget st4 m ps, RErr 4)
    | Some (FPkg _) | Some FRaw =>
      let st4 := if was_compiled then st3 else add_compiled st3 ps in
      (st4, ROk m)
    end
  end.

(* Registry.getManifest: a package.json is fetched under the Registry's lock and at most once per Registry (fix c134aec); the set of
   fetched sources is the one getCompiledSource keeps (a package.json fetched as a manifest is not fetched again as a module,
   and the other way round). A loader failure or a missing file is not remembered. *)
Definition read_manifest (st : rstate) (pk : zs) : rstate :=
  if mem_zs pk (compiled st) then st
  else match fs_get fs pk with
       | None | Some FErr => log_load st pk
       | Some _ => add_compiled (log_load st pk) pk
       end.

Fixpoint try_cands (st : rstate) (cs : list cand) : rstate * res :=
  match cs with
  | [] => (st, RNone)
  | CPkg pk :: rest => try_cands (read_manifest st pk) rest
  | CMod p :: rest => match load_module st p with
                      | (st1, RNone) => try_cands st1 rest
                      | other => other
                      end
  end.

(* resolve(modpath) *)
Definition resolve (st : rstate) (curdir : path) (req : zs) : rstate * res :=
  let start := if is_abs req then None else Some curdir in
  let p := pjoin start req in
  let ps := render p in
  if is_file_or_dir_path req then
    match cache_get (resolved_cache st) ps with
    | Some m => (st, ROk m)
    | None =>
      (* loadAsFileOrDirectory(p) works on the string p: the candidates are a function of the rendered path *)
      let '(st1, r) := try_cands st (cands_file_or_dir (parse ps)) in
      match r with
      | ROk m => (with_resolved st1 (cache_set (resolved_cache st1) ps m), ROk m)     (* r.resolved[p] = module *)
      | other => (st1, other)
      end
    end
  else
    let '(st0, rn) := load_native_run st req in
    match rn with
    | ROk m => (st0, ROk m)
    | RNone =>
      let nk := render curdir ++ 0 :: req in      (* key: start + "\x00" + modpath *)
      match cache_get (node_cache st0) nk with
      | Some m => (st0, ROk m)
      | None =>
        (* loadNodeModules(modpath, start) works on the string start: the walk is a function of the rendered directory *)
        let '(st1, r) := try_cands st0 (cands_node (parse (render curdir)) req) in
        match r with
        | ROk m => (with_node st1 (cache_set (node_cache st1) nk m), ROk m)           (* r.nodeModules[key] = module *)
        | other => (st1, other)
        end
      end
    | other => (st0, other)
    end.

End Open.

Fixpoint require_ (fuel : nat) (st : rstate) (curdir : path) (req : zs) : rstate * res :=
  match fuel with
  | O => (st, RFuel)
  | S f => resolve (require_ f) st curdir req
  end.

(* a top-level call: from a script at a directory, or from Go (directory ".") *)
Definition top_require (fuel : nat) (st : rstate) (dir : path) (req : zs) : rstate * res :=
  let '(st1, r) := require_ fuel st dir req in
  (log_event st1 [] req (outcome_of st1 (match r with RNone => RErr 1 | x => x end)), match r with RNone => RErr 1 | x => x end).

End WithWorld.
