(* Model/Loop.v — the event loop (eventloop/eventloop.go) as a transition system over its synchronisation points
   (the verifPoint names). One event = one thread granted at one point: the code between that point and the thread's
   next point executes atomically (every access to shared state between two points of a thread is either owned by
   that thread or protected by one lock taken and released inside the segment). Control state of the thread that
   executes run() (phase) and of Terminate (tph) is part of the state, so a trace is accepted only if every thread
   follows the program order of the source. Choices of the Go runtime (which select arm fires, whether time.Timer.Stop
   won the race with the expiry, which blocked sender a receive picks) are inputs of the step function, read from the
   observed execution; theorems quantify over all of them. *)
From GN Require Import Common.Base.
From RecordUpdate Require Import RecordSet.
Import RecordSetNotations.
Open Scope Z_scope.

Inductive pt :=
| aux_lock | aux_wakeup | runaux_swap | runaux_job | runaux_done
| run_enter | run_select | arm_job | arm_wakeup | run_canrun | run_leave | run_exit
| setrunning | run_fn | start_go
| stop_enter | stop_request | stop_wakeup | stop_wait | stop_return | stopnowait
| term_flag | term_runaux | term_cancel | term_drain | term_done
| timer_fire | timer_sent | int_select | int_stop | int_tick_send | int_remove_send | int_done.

(* what a queued closure is (the harness knows what it submitted; internal closures are identified by the API call) *)
Inductive subkind :=
| KRun (cb : Z)                                    (* RunOnLoop(cb) *)
| KStartTimeout (t : Z) | KStartInterval (t : Z)   (* SetTimeout / SetInterval from Go: the start job *)
| KClearTimeout (t : Z) | KClearInterval (t : Z)   (* ClearTimeout / ClearInterval from Go *)
| KImmediate (t : Z).                              (* setImmediate: doImmediate(i) *)

Inductive tkind := TTimeout | TInterval | TImmediate.

(* the runtime side of a timer: the time.Timer / ticker and the goroutine that delivers through jobChan *)
Inductive hst :=
| HArmed       (* time.Timer pending, no goroutine yet *)
| HRunning     (* a goroutine exists that still has to complete a send on jobChan *)
| HDone.       (* nothing left: stopped before firing, or the last send was received *)

Record tjob := mkT {
  tj_id : Z; tj_kind : tkind;
  tj_cancelled : bool;      (* job.cancelled *)
  tj_calls : nat;           (* times the callback ran *)
  tj_cleared : bool;        (* a clear or Terminate hit it before it completed *)
  tj_h : hst
}.
#[export] Instance eta_tjob : Settable _ := settable! mkT <tj_id; tj_kind; tj_cancelled; tj_calls; tj_cleared; tj_h>.

Inductive lphase :=        (* program counter of the thread that executes Run()/Start()'s run() *)
| LNone                     (* no run active *)
| LStart                    (* setRunning done *)
| LPre                      (* before the first runAux (Run's function has been called) *)
| LPreB                     (* inside the first runAux, between swap and end *)
| LPreD                     (* first runAux done, before run_enter *)
| LHead                     (* loop head: tests jobCount, then selects *)
| LBlocked                  (* inside select, nothing ready *)
| LArmW                     (* token received *)
| LArmJ                     (* a job received from jobChan, not yet run *)
| LW0 | LWB | LWD           (* runAux of the wake-up arm: before swap, in batch, done *)
| LBreak                    (* canRun was 0: leaving *)
| LLeft.                    (* after the loop, before running=false *)

Inductive sphase := SNone | SEntered | SRequested | SSent | SWaiting.   (* the controller inside Stop() *)
Inductive tphase := TNone | TFlag | TAux | TB | TCan | TDrain.   (* Terminate() after its Stop() returned *)

(* a message travelling through jobChan *)
Inductive jmsg := JTimeout (t : Z) | JTick (t : Z) | JRemove (t : Z).

Record lstate := mkL {
  (* the fields of EventLoop *)
  aux : list Z;             (* auxJobs: submission ids *)
  token : bool;             (* wakeupChan holds a token *)
  canrun : bool; running : bool; terminated : bool;
  jobcount : Z;
  jobs : list Z;            (* loop.jobs: ids of registered timers and intervals *)
  timers : list tjob;       (* every job ever created (ghost: jobs are heap objects) *)
  (* control *)
  phase : lphase; background : bool;
  batch : list Z;           (* the slice runAux is iterating over: jobs still to run *)
  tph : tphase;
  wakers : nat;             (* threads between the append and the wakeup of addAuxJob *)
  pending : option jmsg;    (* received from jobChan by run(), job() not yet called *)
  spc : sphase;             (* where the controller is inside Stop() *)
  natural_exit : bool;      (* run() is leaving because jobCount reached 0 *)
  (* history (ghost) *)
  executed : list Z;        (* submission ids whose closure ran, in order *)
  accepted : list Z; refused : list Z;
  cbs : list Z              (* callbacks started, in order: timer ids, RunOnLoop callback ids, Run's function *)
}.
#[export] Instance eta_lstate : Settable _ :=
  settable! mkL <aux; token; canrun; running; terminated; jobcount; jobs; timers; phase; background; batch; tph; wakers; pending;
                 spc; natural_exit; executed; accepted; refused; cbs>.

Definition init : lstate :=
  {| aux := []; token := false; canrun := false; running := false; terminated := false; jobcount := 0; jobs := []; timers := [];
     phase := LNone; background := false; batch := []; tph := TNone; wakers := 0; pending := None; spc := SNone;
     natural_exit := false; executed := []; accepted := []; refused := []; cbs := [] |}.

(* the state after a Run() of a function that schedules nothing (the harness's set-up): the loop ran once and is
   stopped; Proofs/LoopProps.v shows it is reachable from init *)
Definition init_after_setup : lstate := init <| canrun := true |> <| cbs := [-1] |>.

(* wakeup(): a non-blocking send; a receiver blocked in select takes it directly *)
Definition send_token (s : lstate) : lstate :=
  match phase s with
  | LBlocked => s <| phase := LArmW |>
  | _ => s <| token := true |>
  end.

(* a blocking send on jobChan: a receiver blocked in select takes it at once (what is received is reported by the
   delivered_* effect that follows) *)
Definition offer (s : lstate) : lstate :=
  match phase s with LBlocked => s <| phase := LArmJ |> | _ => s end.

(* ---- timers ---- *)
Fixpoint find_t (ts : list tjob) (id : Z) : option tjob :=
  match ts with [] => None | t :: r => if tj_id t =? id then Some t else find_t r id end.
Fixpoint upd_t (ts : list tjob) (id : Z) (f : tjob -> tjob) : list tjob :=
  match ts with [] => [] | t :: r => if tj_id t =? id then f t :: r else t :: upd_t r id f end.
Definition remove_job (js : list Z) (id : Z) : list Z := filter (fun j => negb (j =? id)) js.

Definition mk_t (id : Z) (k : tkind) (h : hst) : tjob :=
  {| tj_id := id; tj_kind := k; tj_cancelled := false; tj_calls := 0; tj_cleared := false; tj_h := h |}.

(* the specification's count: jobs set and neither completed nor cleared *)
Definition live_of (ts : list tjob) : Z := Z.of_nat (length (filter (fun t => negb (tj_cancelled t)) ts)).
Definition live (s : lstate) : Z := live_of (timers s).

Definition h_of_kind (k : tkind) : hst := match k with TTimeout => HArmed | TInterval => HRunning | TImmediate => HDone end.

(* schedule() / the start job of SetTimeout/SetInterval: jobCount++, runtime timer started, registered. Ids are fresh. *)
Definition do_set (s : lstate) (id : Z) (k : tkind) : option lstate :=
  match find_t (timers s) id with
  | Some _ => None
  | None =>
    let s1 := s <| jobcount := jobcount s + 1 |> <| timers := timers s ++ [mk_t id k (h_of_kind k)] |> in
    Some (match k with TImmediate => s1 | _ => s1 <| jobs := jobs s ++ [id] |> end)
  end.

Definition mark_cleared (h : hst) (t : tjob) : tjob := t <| tj_cancelled := true |> <| tj_cleared := true |> <| tj_h := h |>.

(* clearTimeout / clearInterval / clearImmediate on a handle created by this package; also Terminate's cancel.
   stopped: time.Timer.Stop() returned true (the expiry goroutine will never exist). *)
Definition do_clear (s : lstate) (id : Z) (stopped : bool) : option lstate :=
  match find_t (timers s) id with
  | Some t =>
    if tj_cancelled t then (if stopped then None else Some s)
    else
      let s1 := s <| jobcount := jobcount s - 1 |> in
      match tj_kind t with
      | TTimeout =>
        if stopped then
          match tj_h t with
          | HArmed => Some (s1 <| timers := upd_t (timers s) id (mark_cleared HDone) |> <| jobs := remove_job (jobs s) id |>)
          | _ => None          (* Stop() cannot succeed once the expiry goroutine exists *)
          end
        else
          match tj_h t with
          | HDone => None      (* Stop() fails only if the timer fired: its goroutine has not completed its send (the job has not run) *)
          | _ => Some (s1 <| timers := upd_t (timers s) id (mark_cleared HRunning) |>)
          end
      | TInterval => if stopped then None else Some (s1 <| timers := upd_t (timers s) id (mark_cleared (tj_h t)) |>)
      | TImmediate => if stopped then None else Some (s1 <| timers := upd_t (timers s) id (mark_cleared HDone) |>)
      end
  | None => if stopped then None else Some s     (* null / undefined / a handle of another kind / not started: ignored *)
  end.

Definition mark_fired (t : tjob) : tjob := t <| tj_cancelled := true |> <| tj_calls := S (tj_calls t) |>.
Definition mark_tick (t : tjob) : tjob := t <| tj_calls := S (tj_calls t) |>.

(* doTimeout(t): always unregisters; runs the callback unless cancelled *)
Definition do_timeout (s : lstate) (id : Z) : lstate :=
  let s0 := s <| jobs := remove_job (jobs s) id |> in
  match find_t (timers s) id with
  | Some t => if tj_cancelled t then s0
              else s0 <| jobcount := jobcount s - 1 |> <| timers := upd_t (timers s) id mark_fired |> <| cbs := cbs s ++ [id] |>
  | None => s0
  end.

(* doImmediate(i) *)
Definition do_immediate (s : lstate) (id : Z) : lstate :=
  match find_t (timers s) id with
  | Some t => if tj_cancelled t then s
              else s <| jobcount := jobcount s - 1 |> <| timers := upd_t (timers s) id mark_fired |> <| cbs := cbs s ++ [id] |>
  | None => s      (* refused at creation (the loop was terminated): created cancelled, never counted *)
  end.

(* doInterval(i): runs the callback unless cancelled; the count is unchanged *)
Definition do_tick (s : lstate) (id : Z) : lstate :=
  match find_t (timers s) id with
  | Some t => if tj_cancelled t then s
              else s <| timers := upd_t (timers s) id mark_tick |> <| cbs := cbs s ++ [id] |>
  | None => s
  end.

Definition run_msg (s : lstate) (m : jmsg) : lstate :=
  match m with
  | JTimeout t => do_timeout s t
  | JTick t => do_tick s t
  | JRemove t => s <| jobs := remove_job (jobs s) t |>
  end.

Definition set_h (s : lstate) (id : Z) (h : hst) : lstate := s <| timers := upd_t (timers s) id (fun t => t <| tj_h := h |>) |>.

Definition all_cancelled (s : lstate) : bool :=
  forallb (fun id => match find_t (timers s) id with Some t => tj_cancelled t | None => false end) (jobs s).

Section Step.
Variable kind_of : Z -> option subkind.     (* what each submission id is *)

(* a queued closure runs on the owner thread; stopped: outcome of time.Timer.Stop() where one is called *)
Definition run_sub (s : lstate) (id : Z) (stopped : bool) : option lstate :=
  let s1 := s <| executed := executed s ++ [id] |> in
  match kind_of id with
  | Some (KRun cb) => Some (s1 <| cbs := cbs s ++ [cb] |>)
  | Some (KStartTimeout t) => do_set s1 t TTimeout
  | Some (KStartInterval t) => do_set s1 t TInterval
  | Some (KClearTimeout t) => match find_t (timers s) t with
                              | Some j => match tj_kind j with TTimeout => do_clear s1 t stopped | _ => None end
                              | None => do_clear s1 t stopped
                              end
  | Some (KClearInterval t) => match find_t (timers s) t with
                               | Some j => match tj_kind j with TInterval => do_clear s1 t stopped | _ => None end
                               | None => do_clear s1 t stopped
                               end
  | Some (KImmediate t) => match find_t (timers s) t with
                           | Some j => match tj_kind j with TImmediate => Some (do_immediate s1 t) | _ => None end
                           | None => Some (do_immediate s1 t)
                           end
  | None => None
  end.

Definition count_positive (s : lstate) : bool := 0 <? jobcount s.
Definition dec_bg (s : lstate) : lstate := if background s then s <| jobcount := jobcount s - 1 |> else s.

(* step: None = the event is not possible in this state (the trace is rejected).
   arg: submission / timer / callback id where the point has one; arg2: 1 when a time.Timer.Stop() inside the segment
   returned true; for run_select the arm taken at once (1 wake-up, 2 job, 0 blocked) *)
Definition step (s : lstate) (p : pt) (arg arg2 : Z) : option lstate :=
  match p with
  (* addAuxJob *)
  | aux_lock =>
    if terminated s then Some (s <| refused := refused s ++ [arg] |>)
    else Some (s <| aux := aux s ++ [arg] |> <| accepted := accepted s ++ [arg] |> <| wakers := S (wakers s) |>)
  | aux_wakeup =>
    match wakers s with O => None | S w => Some (send_token (s <| wakers := w |>)) end
  (* runAux: executed by Terminate when it is at that stage, else by the thread inside run() *)
  | runaux_swap =>
    match batch s with
    | _ :: _ => None
    | [] =>
      let s1 := s <| batch := aux s |> <| aux := [] |> in
      match tph s, phase s with
      | TAux, _ => Some (s1 <| tph := TB |>)
      | TNone, LPre => Some (s1 <| phase := LPreB |>)
      | TNone, LStart => Some (s1 <| phase := LPreB |> <| background := true |>)     (* StartInForeground *)
      | TNone, LW0 => Some (s1 <| phase := LWB |>)
      | _, _ => None
      end
    end
  | runaux_job =>
    match batch s with
    | [] => None
    | j :: r =>
      match tph s, phase s with
      | TB, _ | TNone, LPreB | TNone, LWB => run_sub (s <| batch := r |>) j (arg2 =? 1)
      | _, _ => None
      end
    end
  | runaux_done =>
    match batch s with
    | _ :: _ => None
    | [] =>
      match tph s, phase s with
      | TB, _ => Some (s <| tph := TCan |>)
      | TNone, LPreB => Some (s <| phase := LPreD |>)
      | TNone, LWB => Some (s <| phase := LWD |>)
      | _, _ => None
      end
    end
  (* run *)
  | run_enter => match phase s with
                 | LPreD => Some ((if background s then s <| jobcount := jobcount s + 1 |> else s) <| phase := LHead |>)
                 | _ => None
                 end
  | run_select =>
    match phase s with
    | LHead => if count_positive s then
                 if arg2 =? 1 then (if token s then Some (s <| token := false |> <| phase := LArmW |>) else None)
                 else if arg2 =? 2 then Some (s <| phase := LArmJ |>)
                 else (if token s then None else Some (s <| phase := LBlocked |>))
               else None
    | _ => None
    end
  | arm_wakeup => match phase s with LArmW => Some (s <| phase := LW0 |>) | _ => None end
  | arm_job => match phase s, pending s with
               | LArmJ, Some m => Some (run_msg (s <| pending := None |> <| phase := LHead |>) m)
               | _, _ => None
               end
  | run_canrun => match phase s with
                  | LWD => Some (if canrun s then s <| phase := LHead |> else s <| phase := LBreak |>)
                  | _ => None
                  end
  | run_leave => match phase s with
                 | LHead => if count_positive s then None else Some ((dec_bg s) <| phase := LLeft |> <| natural_exit := true |>)
                 | LBreak => Some ((dec_bg s) <| phase := LLeft |>)
                 | _ => None
                 end
  | run_exit => match phase s with
                | LLeft => Some (s <| running := false |> <| phase := LNone |> <| background := false |> <| natural_exit := false |>)
                | _ => None
                end
  | setrunning =>
    if running s then Some s                      (* panics "Loop is already started": nothing changes *)
    else match tph s, spc s with
         | TNone, SNone => Some (s <| running := true |> <| canrun := true |> <| terminated := false |> <| phase := LStart |>)
         | _, _ => None                           (* Start/Run concurrently with Stop/Terminate: outside the contract *)
         end
  | run_fn => match phase s with LStart => Some (s <| phase := LPre |> <| background := false |> <| cbs := cbs s ++ [arg] |>) | _ => None end
  | start_go => match phase s with LStart => Some (s <| phase := LPre |> <| background := true |>) | _ => None end
  (* Stop / StopNoWait *)
  | stop_enter => match spc s with SNone => Some (s <| spc := SEntered |>) | _ => None end
  | stop_request => match spc s with
                    | SEntered | SWaiting => if running s then Some (s <| canrun := false |> <| spc := SRequested |>) else None
                    | _ => None
                    end
  | stop_wakeup => match spc s with SRequested => Some ((send_token s) <| spc := SSent |>) | _ => None end
  | stop_wait => match spc s with SSent => Some (s <| spc := SWaiting |>) | _ => None end
  | stop_return => match spc s with
                   | SEntered | SWaiting => if running s then None else Some (s <| spc := SNone |>)
                   | _ => None
                   end
  | stopnowait => if running s then Some (send_token (s <| canrun := false |>)) else Some s
  (* Terminate, after its Stop() *)
  | term_flag => if running s then None
                 else match tph s, spc s with TNone, SNone => Some (s <| terminated := true |> <| tph := TFlag |>) | _, _ => None end
  | term_runaux => match tph s with TFlag => Some (s <| tph := TAux |>) | _ => None end
  | term_cancel =>
    match tph s with
    | TCan => if existsb (Z.eqb arg) (jobs s) then
                match find_t (timers s) arg with
                | Some t => if tj_cancelled t then None else do_clear s arg (arg2 =? 1)
                | None => None
                end
              else None
    | _ => None
    end
  | term_drain =>
    match tph s with
    | TCan | TDrain => match jobs s with [] => None | _ :: _ => if all_cancelled s then Some (s <| tph := TDrain |>) else None end
    | _ => None
    end
  | term_done =>
    match tph s with
    | TCan | TDrain => match jobs s with [] => Some (s <| tph := TNone |>) | _ :: _ => None end
    | _ => None
    end
  (* helpers *)
  | timer_fire =>
    match find_t (timers s) arg with
    | Some t => match tj_kind t, tj_h t with
                | TTimeout, HDone => None
                | TTimeout, _ => Some (offer (set_h s arg HRunning))
                | _, _ => None
                end
    | None => None
    end
  | timer_sent => match find_t (timers s) arg with Some t => match tj_h t with HDone => Some s | _ => None end | None => None end
  | int_select => Some s
  | int_stop => match find_t (timers s) arg with Some t => if tj_cancelled t then Some s else None | None => None end
  | int_tick_send | int_remove_send => Some (offer s)
  | int_done => match find_t (timers s) arg with Some t => match tj_h t with HDone => Some s | _ => None end | None => None end
  end.

(* ---- what callback programs do, and completed sends (reported by the harness between two grants) ---- *)
Inductive effk :=
| e_js_timeout | e_js_interval               (* setTimeout / setInterval executed in a callback (a = timer id) *)
| e_js_immediate                             (* setImmediate executed (a = timer id, b = submission id) *)
| e_js_clear                                 (* clearX(handle) (a = timer id, b = 0 timeout 1 interval 2 immediate, c = 1 if Stop() succeeded) *)
| e_delivered_timeout | e_delivered_tick | e_delivered_remove.   (* a helper's send on jobChan completed (a = timer id) *)

Definition kind_matches (k : tkind) (which : Z) : bool :=
  match k with TTimeout => which =? 0 | TInterval => which =? 1 | TImmediate => which =? 2 end.

Definition deliver (s : lstate) (m : jmsg) : option lstate :=
  match tph s with
  | TDrain => Some (run_msg s m)                (* Terminate's drain calls the job at once *)
  | _ => match phase s, pending s with
         | LArmJ, None => Some (s <| pending := Some m |>)
         | _, _ => None
         end
  end.

Definition apply_eff (s : lstate) (e : effk) (a b c : Z) : option lstate :=
  match e with
  | e_js_timeout => do_set s a TTimeout
  | e_js_interval => do_set s a TInterval
  | e_js_immediate => if existsb (Z.eqb b) (accepted s) then do_set s a TImmediate else Some s
  | e_js_clear => match find_t (timers s) a with
                  | Some t => if kind_matches (tj_kind t) b then do_clear s a (c =? 1) else Some s
                  | None => Some s
                  end
  | e_delivered_timeout =>
    match find_t (timers s) a with
    | Some t => match tj_kind t, tj_h t with TTimeout, HRunning => deliver (set_h s a HDone) (JTimeout a) | _, _ => None end
    | None => None
    end
  | e_delivered_tick =>
    match find_t (timers s) a with
    | Some t => match tj_kind t, tj_h t with TInterval, HRunning => deliver s (JTick a) | _, _ => None end
    | None => None
    end
  | e_delivered_remove =>
    match find_t (timers s) a with
    | Some t => match tj_kind t, tj_h t with
                | TInterval, HRunning => if tj_cancelled t then deliver (set_h s a HDone) (JRemove a) else None
                | _, _ => None
                end
    | None => None
    end
  end.

(* one event of an execution *)
Inductive ev :=
| EP (p : pt) (arg arg2 : Z)
| EE (e : effk) (a b c : Z).

Definition do_ev (s : lstate) (e : ev) : option lstate :=
  match e with EP p a b => step s p a b | EE e a b c => apply_eff s e a b c end.

Fixpoint run_evs (s : lstate) (l : list ev) : option lstate :=
  match l with [] => Some s | e :: r => match do_ev s e with Some s' => run_evs s' r | None => None end end.

End Step.
