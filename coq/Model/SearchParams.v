(* Model/SearchParams.v — URLSearchParams (url/urlsearchparams.go, url/nodeurl.go, url/escape.go).
   Strings are byte lists (Go strings). Definitions only. *)
From GN Require Import Common.Base Gen.UrlTables Model.Codecs.

Definition pair := (zs * zs)%type.
Definition plist := list pair.

Definition pair_eqb' (p q : pair) : bool := zs_eqb (fst p) (fst q) && zs_eqb (snd p) (snd q).

(* ---------- escape / unescape (url/escape.go) ---------- *)

Definition tbl_get (tbl : list Z) (c : Z) : Z := nth (Z.to_nat c) tbl 0.

Definition hexdigit (n : Z) : Z := nth (Z.to_nat n) upperhex 0.

(* escape(s, table, spaceToPlus) — second loop; the first loop only decides the early return, which
   returns s itself exactly when nothing needs escaping (same result) *)
Definition escape_byte (tbl : list Z) (space_to_plus : bool) (c : Z) : zs :=
  if (c =? 32) && space_to_plus then [43]
  else if (c >? 127) || (tbl_get tbl c =? 0) then [37; hexdigit (c / 16); hexdigit (c mod 16)]
  else [c].

Definition escape (tbl : list Z) (space_to_plus : bool) (s : zs) : zs :=
  flat_map (escape_byte tbl space_to_plus) s.

Definition escape_param (s : zs) : zs := escape tbl_query_param true s.

Fixpoint in_ranges (c : Z) (rs : list (Z * Z)) : bool :=
  match rs with
  | [] => false
  | (lo, hi) :: r => ((lo <=? c) && (c <=? hi)) || in_ranges c r
  end.

Definition ishex (c : Z) : bool := in_ranges c ishex_ranges.

Fixpoint unhex_in (c : Z) (rs : list (Z * Z * Z)) : Z :=
  match rs with
  | [] => 0
  | (lo, hi, add) :: r => if (lo <=? c) && (c <=? hi) then c - lo + add else unhex_in c r
  end.

Definition unhex (c : Z) : Z := unhex_in c unhex_ranges.

(* unescapeSearchParam: '+' -> ' ', valid %XX -> byte, anything else literal *)
Fixpoint unescape (s : zs) : zs :=
  match s with
  | [] => []
  | c :: r =>
    if c =? 37 then
      match r with
      | a :: b :: r2 => if ishex a && ishex b then (unhex a * 16 + unhex b) :: unescape r2
                        else 37 :: unescape r
      | _ => 37 :: unescape r
      end
    else if c =? 43 then 32 :: unescape r
    else c :: unescape r
  end.

(* ---------- serialisation and parsing (url/nodeurl.go) ---------- *)

Definition encode_pair (p : pair) : zs := escape_param (fst p) ++ 61 :: escape_param (snd p).

Fixpoint join_amp (l : list zs) : zs :=
  match l with
  | [] => []
  | [x] => x
  | x :: r => x ++ 38 :: join_amp r
  end.

Definition serialize (l : plist) : zs := join_amp (map encode_pair l).

(* strings.Split(s, "&") *)
Fixpoint split_on (c : Z) (s : zs) : list zs :=
  match s with
  | [] => [[]]
  | x :: r => if x =? c then [] :: split_on c r
              else match split_on c r with
                   | h :: t => (x :: h) :: t
                   | [] => [[x]]   (* unreachable: split_on never returns [] *)
                   end
  end.

Fixpoint cut_at (c : Z) (s : zs) : option (zs * zs) :=
  match s with
  | [] => None
  | x :: r => if x =? c then Some ([], r)
              else match cut_at c r with Some (a, b) => Some (x :: a, b) | None => None end
  end.

Definition parse_piece (v : zs) : option pair :=
  match v with
  | [] => None                                   (* if v == "" { continue } *)
  | _ => match cut_at 61 v with                  (* strings.SplitN(v, "=", 2) *)
         | Some (n, x) => Some (unescape n, unescape x)
         | None => Some (unescape v, [])
         end
  end.

Fixpoint filter_map {A B} (f : A -> option B) (l : list A) : list B :=
  match l with
  | [] => []
  | x :: r => match f x with Some y => y :: filter_map f r | None => filter_map f r end
  end.

Definition trim_q (s : zs) : zs := match s with 63 :: r => r | _ => s end.

(* parseSearchQuery: the raw query of a URL (no '?' handling) *)
Definition parse_raw (q : zs) : plist :=
  match q with
  | [] => []
  | _ => filter_map parse_piece (split_on 38 q)
  end.

(* new URLSearchParams(string): one leading '?' is dropped first *)
Definition parse_query (q : zs) : plist :=
  match q with
  | [] => []
  | _ => filter_map parse_piece (split_on 38 (trim_q q))
  end.

(* ---------- list operations as written (urlsearchparams.go): index-j compaction over a mutable array ---------- *)

Fixpoint set_nth {A} (l : list A) (i : nat) (x : A) : list A :=
  match l, i with
  | [], _ => []
  | _ :: r, O => x :: r
  | y :: r, S k => y :: set_nth r k x
  end.

(* delete: for i, v := range arr { if isValid(v) { if i != j { arr[j] = v }; j++ } }; arr = arr[:j]
   the range expression is evaluated once (n iterations), each v is read from the live array *)
Fixpoint delete_loop (valid : pair -> bool) (arr : plist) (n : nat) (i j : nat) : plist * nat :=
  match n with
  | O => (arr, j)
  | S n' =>
    match nth_error arr i with
    | None => (arr, j)
    | Some v =>
      if valid v then delete_loop valid (if Nat.eqb i j then arr else set_nth arr j v) n' (S i) (S j)
      else delete_loop valid arr n' (S i) j
    end
  end.

Definition delete_as_written (valid : pair -> bool) (arr : plist) : plist :=
  let '(arr', j) := delete_loop valid arr (length arr) 0 0 in firstn j arr'.

Definition valid_name (name : zs) (p : pair) : bool := negb (zs_eqb (fst p) name).
Definition valid_name_value (name value : zs) (p : pair) : bool :=
  negb (zs_eqb (fst p) name && zs_eqb (snd p) value).

(* set: sp is the copy taken at the start of the iteration (stale after arr[i].value is updated) *)
Fixpoint set_loop (name value : zs) (arr : plist) (n : nat) (i j : nat) (found : bool) : plist * nat * bool :=
  match n with
  | O => (arr, j, found)
  | S n' =>
    match nth_error arr i with
    | None => (arr, j, found)
    | Some sp =>
      if zs_eqb (fst sp) name then
        if found then set_loop name value arr n' (S i) j found                       (* continue *)
        else let arr1 := set_nth arr i (fst sp, value) in                            (* arr[i].value = value *)
             let arr2 := if Nat.eqb i j then arr1 else set_nth arr1 j sp in          (* arr[j] = sp (stale copy) *)
             set_loop name value arr2 n' (S i) (S j) true
      else set_loop name value (if Nat.eqb i j then arr else set_nth arr j sp) n' (S i) (S j) found
    end
  end.

Definition set_as_written (name value : zs) (arr : plist) : plist :=
  let '(arr', j, found) := set_loop name value arr (length arr) 0 0 false in
  if found then firstn j arr' else arr ++ [(name, value)].

(* sort.Stable on names: modelled by a stable insertion sort; zs_ltb is the lexicographic order of two lists of numbers ... *)
Fixpoint zs_ltb (a b : zs) : bool :=
  match a, b with
  | _, [] => false
  | [], _ :: _ => true
  | x :: a', y :: b' => (x <? y) || ((x =? y) && zs_ltb a' b')
  end.

(* ... compared as the WHATWG sort compares them: by UTF-16 code units (compareCodeUnits in nodeurl.go, fix 83a5a8a). That is the
   byte order of the UTF-8 names except between a supplementary character (two surrogates, D800..DFFF) and U+E000..U+FFFF. *)
Definition units_of_cp (c : Z) : list Z :=
  if c <? 65536 then [c] else [55296 + (c - 65536) / 1024; 56320 + (c - 65536) mod 1024].
Definition units (name : zs) : list Z := flat_map units_of_cp (utf8_decode name).
Definition sort_key (p : pair) : list Z := units (fst p).

Fixpoint insert_stable (p : pair) (l : plist) : plist :=
  match l with
  | [] => [p]
  | q :: r => if zs_ltb (sort_key q) (sort_key p) then q :: insert_stable p r else p :: l
  end.

Definition stable_sort (l : plist) : plist := fold_right insert_stable [] l.

(* ---------- the object: list + live iterators ---------- *)

Inductive ikind := IKeys | IValues | IEntries.

Record spstate := { items : plist; iters : list (ikind * nat) }.

Inductive op :=
| OAppend (n v : zs) | ODelete (n : zs) | ODeleteNV (n v : zs) | OSet (n v : zs) | OSort
| OGet (n : zs) | OGetAll (n : zs) | OHas (n : zs) | OHasNV (n v : zs) | OSize | OToString | OEntries
| ONewIter (k : ikind) | ONext (it : nat).

Inductive obs :=
| BNone                       (* undefined result *)
| BOptStr (o : option zs)     (* get: value or null *)
| BStrs (l : list zs)         (* getAll *)
| BBool (b : bool)
| BNat (n : nat)
| BStr (s : zs)
| BPairs (l : plist)          (* Array.from(params) *)
| BIter (id : nat)
| BItem (o : option (zs + zs + pair)).  (* iterator result: done, or key / value / entry *)

Fixpoint first_value (name : zs) (l : plist) : option zs :=
  match l with
  | [] => None
  | p :: r => if zs_eqb (fst p) name then Some (snd p) else first_value name r
  end.

Definition all_values (name : zs) (l : plist) : list zs :=
  map snd (filter (fun p => zs_eqb (fst p) name) l).

Definition item_of (k : ikind) (p : pair) : zs + zs + pair :=
  match k with IKeys => inl (inl (fst p)) | IValues => inl (inr (snd p)) | IEntries => inr p end.

Definition with_items (s : spstate) (l : plist) : spstate := {| items := l; iters := iters s |}.

Definition step (s : spstate) (o : op) : spstate * obs :=
  match o with
  | OAppend n v => (with_items s (items s ++ [(n, v)]), BNone)
  | ODelete n => (with_items s (delete_as_written (valid_name n) (items s)), BNone)
  | ODeleteNV n v => (with_items s (delete_as_written (valid_name_value n v) (items s)), BNone)
  | OSet n v => (with_items s (set_as_written n v (items s)), BNone)
  | OSort => (with_items s (stable_sort (items s)), BNone)
  | OGet n => (s, BOptStr (first_value n (items s)))
  | OGetAll n => (s, BStrs (all_values n (items s)))
  | OHas n => (s, BBool (existsb (fun p => zs_eqb (fst p) n) (items s)))
  | OHasNV n v => (s, BBool (existsb (fun p => zs_eqb (fst p) n && zs_eqb (snd p) v) (items s)))
  | OSize => (s, BNat (length (items s)))
  | OToString => (s, BStr (serialize (items s)))
  | OEntries => (s, BPairs (items s))
  | ONewIter k => ({| items := items s; iters := iters s ++ [(k, O)] |}, BIter (length (iters s)))
  | ONext it =>
    match nth_error (iters s) it with
    | None => (s, BNone)
    | Some (k, idx) =>
      match nth_error (items s) idx with
      | Some p => ({| items := items s; iters := set_nth (iters s) it (k, S idx) |}, BItem (Some (item_of k p)))
      | None => (s, BItem None)
      end
    end
  end.

Fixpoint run (s : spstate) (ops : list op) : list obs :=
  match ops with
  | [] => []
  | o :: r => let '(s', b) := step s o in b :: run s' r
  end.

Definition init (l : plist) : spstate := {| items := l; iters := [] |}.
