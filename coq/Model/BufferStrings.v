(* Model/BufferStrings.v — Buffer string entry points as written (post-fix): from(string), toString, write, alloc fill,
   from(array-like). Definitions only. *)
From GN Require Import Common.Base Common.Int64 Model.BufferTypes Gen.BufferMethods Model.Buffer Model.Codecs Gen.BufferCodecs.
From Coq Require Import String.
Open Scope list_scope.
Open Scope Z_scope.

Fixpoint assoc_z {A} (k : zs) (l : list (zs * A)) : option A :=
  match l with [] => None | (k', v) :: r => if zs_eqb k k' then Some v else assoc_z k r end.

(* encoding argument: undefined | a string (its bytes) *)
Inductive encarg := EUndef | EName (n : zs).

(* Buffer.from(string, enc) / fromString: unknown names fall back to utf8 *)
Definition codec_or_utf8 (e : encarg) : codec :=
  match e with EUndef => CUtf8 | EName n => match assoc_z n string_codecs with Some c => c | None => CUtf8 end end.

(* getStringCodec: undefined -> utf8, unknown -> TypeError *)
Definition codec_strict (e : encarg) : option codec :=
  match e with EUndef => Some CUtf8 | EName n => assoc_z n string_codecs end.

Definition from_string (s : list Z) (e : encarg) : list Z := codec_decode (codec_or_utf8 e) s.

(* goutil.CoercedIntegerArgument *)
Definition coerced (a : jsarg) (default mismatch : Z) : Z :=
  match coerce_int "CoercedIntegerArgument" default mismatch a with inl v => v | inr _ => mismatch end.

Definition slice (bb : list Z) (lo hi : Z) : option (list Z) :=
  if (0 <=? lo) && (lo <=? hi) && (hi <=? Z.of_nat (List.length bb))
  then Some (firstn (Z.to_nat (hi - lo)) (skipn (Z.to_nat lo) bb)) else None.

Inductive sres := SStr (cps : list Z) | SThrowT | SPanic.

(* proto_toString *)
Definition to_string (bb : list Z) (e : encarg) (a_start a_end : jsarg) : sres :=
  match codec_strict e with
  | None => SThrowT
  | Some c =>
    let len := Z.of_nat (List.length bb) in
    let start := coerced a_start 0 0 in
    let cont (start : Z) :=
      let en := coerced a_end len 0 in
      if (en <? 0) || (start >=? en) then SStr []
      else let en' := if en >? len then len else en in
           match slice bb start en' with Some sub => SStr (codec_encode c sub) | None => SPanic end in
    if start <? 0 then cont 0 else if start >=? len then SStr [] else cont start
  end.

(* write(string, offset, length, encoding) *)
Inductive wres := WOk (bb : list Z) (n : Z) | WThrow (cls : Z) | WPanic.

Definition write_str (bb : list Z) (s : option (list Z)) (a_off a_len : jsarg) (e : encarg) : wres :=
  match s with
  | None => WThrow 1                       (* RequiredStringArgument: not a string *)
  | Some str =>
    match get_offset (OffFixed 1 0) bb [AUndef; a_off] with
    | inr c => WThrow c
    | inl (off, _) =>
      let maxl := Z.of_nat (List.length bb) - off in
      match coerce_int "OptionalIntegerArgument" maxl 0 a_len with
      | inr c => WThrow c
      | inl len0 =>
        if len0 <? 0 then WThrow 2 else
        match codec_strict e with
        | None => WThrow 1
        | Some c =>
          let raw := codec_decode c str in
          let rl := Z.of_nat (List.length raw) in
          let l1 := if rl <? len0 then rl else len0 in
          let l2 := if l1 >? maxl then maxl else l1 in
          let l3 := match c with
                    | CUtf8 => if l2 <? rl then Z.of_nat (trim_cont raw (Z.to_nat l2)) else l2
                    | _ => l2
                    end in
          if (0 <=? off) && (off <=? Z.of_nat (List.length bb)) && (0 <=? l3) && (l3 <=? rl)
          then let chunk := firstn (Z.to_nat l3) raw in
               let n := Z.min (Z.of_nat (List.length chunk)) maxl in
               WOk (firstn (Z.to_nat off) bb ++ firstn (Z.to_nat n) chunk ++ skipn (Z.to_nat (off + n)) bb) n
          else WPanic
        end
      end
    end
  end.

(* fill(buf, pattern, enc): b1 = decoded pattern; the doubling loop i += copy(buf[i:], buf[:i]) *)
Fixpoint fill_loop (fuel : nat) (buf : list Z) (i : nat) : option (list Z) :=
  let n := List.length buf in
  if Nat.leb n i then Some buf else
  match fuel with
  | O => None                       (* no progress: the loop would spin *)
  | S f =>
    let c := Nat.min (n - i) i in
    if Nat.eqb c 0 then None
    else fill_loop f (firstn i buf ++ firstn c buf ++ skipn (i + c) buf) (i + c)
  end.

Inductive fres := FOk (bb : list Z) | FThrow (cls : Z) | FHang.

Definition alloc_fill (size : nat) (pattern : list Z) (e : encarg) : fres :=
  match codec_strict e with
  | None => FThrow 1
  | Some c =>
    let b1 := codec_decode c pattern in
    let buf := repeat 0 size in
    if Nat.ltb size (List.length b1) then FOk (firstn size b1)
    else if Nat.eqb (List.length b1) 0 then FOk buf
    else match fill_loop size (b1 ++ skipn (List.length b1) buf) (List.length b1) with
         | Some r => FOk r
         | None => FHang
         end
  end.

(* Buffer.from(array-like): each element ToInteger, stored as a byte *)
Definition from_arraylike (items : list Z) : list Z := map (fun v => v mod 256) items.
