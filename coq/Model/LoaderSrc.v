(* Model/LoaderSrc.v — the text of Registry.getSource and Registry.getCompiledSource (require/module.go) that
   Model/JsonModule.v was written against: the bytes of the file reach the JSON wrapper unchanged. *)
From Coq Require Import String List.
From GN Require Import Gen.RequireGlue.
Import ListNotations.
Definition expected_loader_src : list (string * string) := [
  ("getSource", "srcLoader:=r.srcLoader;if srcLoader==nil{srcLoader=DefaultSourceLoader};return srcLoader(p)");
  ("getCompiledSource", "r.Lock();defer r.Unlock();prg:=r.compiled[p];if prg==nil{buf,ok:=r.manifests[p];if!ok{var err error;buf,err=r.getSource(p);if err!=nil{return nil,err};if filepath.Base(p)==""package.json""{if r.manifests==nil{r.manifests=make(map[string][]byte)};r.manifests[p]=buf}};s:=string(buf);if filepath.Ext(p)=="".json""{lit,err:=json.Marshal(s);if err!=nil{return nil,err};s=""module.exports = JSON.parse(""+string(lit)+"")""};source:=""(function(exports,require,module,__filename,__dirname){""+s+""\n})"";parsed,err:=js.Parse(p,source,parser.WithSourceMapLoader(r.srcLoader));if err!=nil{return nil,err};prg,err=js.CompileAST(parsed,false);if err==nil{if r.compiled==nil{r.compiled=make(map[string]*js.Program)};r.compiled[p]=prg};return prg,err};return prg,nil")
]%string.

Theorem loader_source_unchanged : loader_src = expected_loader_src.
Proof. vm_compute. reflexivity. Qed.
