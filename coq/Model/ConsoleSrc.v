(* Model/ConsoleSrc.v — the text of every function of console/module.go and util/module.go that Model/Format.v (format, console routing) was written against.
   Gen/UtilFormat.v carries the same table regenerated from the source on every run; the property files compare them.
   Refreshed with tools/snapshot_src.py after a reviewed change of the source. *)
From Coq Require Import String List.
Import ListNotations.
Definition expected_console_util_src : list (string * string) := [
  ("console:*Console.log", "return func(call goja.FunctionCall)goja.Value{if format,ok:=goja.AssertFunction(c.util.Get(""format""));ok{ret,err:=format(c.util,call.Arguments...);if err!=nil{panic(err)};p(ret.String())}else{panic(c.runtime.NewTypeError(""util.format is not a function""))};return goja.Undefined()}");
  ("console:Require", "requireWithPrinter(defaultStdPrinter)(runtime,module)");
  ("console:RequireWithPrinter", "return requireWithPrinter(printer)");
  ("console:requireWithPrinter", "return func(runtime*goja.Runtime,module*goja.Object){c:=&Console{runtime:runtime,printer:printer};c.util=require.Require(runtime,util.ModuleName).(*goja.Object);o:=module.Get(""exports"").(*goja.Object);o.Set(""log"",c.log(c.printer.Log));o.Set(""error"",c.log(c.printer.Error));o.Set(""warn"",c.log(c.printer.Warn));o.Set(""info"",c.log(c.printer.Log));o.Set(""debug"",c.log(c.printer.Log))}");
  ("console:Enable", "runtime.Set(""console"",require.Require(runtime,ModuleName))");
  ("console:init", "require.RegisterCoreModule(ModuleName,Require)");
  ("util:*Util.format", "switch f{case's':w.WriteString(val.String());case'd':w.WriteString(val.ToNumber().String());case'j':if json,ok:=u.runtime.Get(""JSON"").(*goja.Object);ok{if stringify,ok:=goja.AssertFunction(json.Get(""stringify""));ok{res,err:=stringify(json,val);if err!=nil{panic(err)};w.WriteString(res.String())}};case'%':w.WriteByte('%');return false;default:w.WriteByte('%');w.WriteRune(f);return false};return true");
  ("util:*Util.Format", "pct:=false;argNum:=0;for _,chr:=range f{if pct{if argNum<len(args){if u.format(chr,args[argNum],b){argNum++}}else{b.WriteByte('%');if chr!='%'||len(args)==0{b.WriteRune(chr)}};pct=false}else{if chr=='%'{pct=true}else{b.WriteRune(chr)}}};if pct{b.WriteByte('%')};for _,arg:=range args[argNum:]{b.WriteByte(' ');b.WriteString(arg.String())}");
  ("util:*Util.js_format", "var b bytes.Buffer;var fmt string;if arg:=call.Argument(0);!goja.IsUndefined(arg){fmt=arg.String()};var args[]goja.Value;if len(call.Arguments)>0{args=call.Arguments[1:]};u.Format(&b,fmt,args...);return u.runtime.ToValue(b.String())");
  ("util:Require", "u:=&Util{runtime:runtime};obj:=module.Get(""exports"").(*goja.Object);obj.Set(""format"",u.js_format)");
  ("util:New", "return&Util{runtime:runtime}");
  ("util:init", "require.RegisterCoreModule(ModuleName,Require)")
]%string.
