(* Model/UrlResolve.v — new URL(reference, base) as url/url.go computes it, on components: parseURL's path cleaning of
   the base and of references that are not relative-path references, net/url's ResolveReference (go1.23) with its own
   case analysis, the fragment rule, and the final fixURL. Paths are lists of segments; Go's resolvePath loop and
   path.Clean are modelled at that level (their byte-level loops are exercised by the correspondence run). *)
From GN Require Import Common.Base Spec.Rfc3986.
Open Scope Z_scope.

(* path.Clean on a rooted path + the trailing-slash rule of cleanPath: empty and "." elements are dropped, ".." removes
   the previous element, the root is never left; a trailing slash is put back when the last element was "", "." or ".." *)
Fixpoint clean_stack (stack : list seg) (segs : list seg) : list seg :=
  match segs with
  | [] => stack
  | s :: r =>
    if match s with [] => true | _ => false end then clean_stack stack r
    else if is_dot s then clean_stack stack r
    else if is_dotdot s then clean_stack (removelast stack) r
    else clean_stack (stack ++ [s]) r
  end.
Definition last_is_dir (segs : list seg) : bool :=
  match rev segs with s :: _ => match s with [] => true | _ => is_dot s || is_dotdot s end | [] => false end.
Definition clean_segs (segs : list seg) : list seg :=
  match clean_stack [] segs with
  | [] => [[]]                                            (* "/" *)
  | st => if last_is_dir segs then st ++ [[]] else st
  end.

(* cleanPath(p, proto) *)
Definition clean_path (special : bool) (p : rpath) : rpath :=
  match p with
  | PEmpty => if special then PAbs [[]] else PEmpty
  | PAbs s => PAbs (clean_segs s)
  | PRel s => PAbs (clean_segs s)
  end.

(* net/url resolvePath(base, ref) *)
Definition go_resolve_path (base ref : rpath) : rpath :=
  let full := match ref with
              | PEmpty => base
              | PAbs r => PAbs r
              | PRel r => match base with PAbs b => PAbs (removelast b ++ r) | _ => PAbs r end
              end in
  match full with PAbs s => PAbs (rds s) | x => x end.

(* URL.ResolveReference — Host == "" stands for 'no authority', RawQuery == "" && !ForceQuery for 'no query' *)
Definition go_resolve_reference (u ref : comps) : comps :=
  let scheme := match c_scheme ref with Some s => Some s | None => c_scheme u end in
  match c_scheme ref, c_auth ref with
  | None, None =>
    let q := match c_path ref, c_query ref with PEmpty, None => c_query u | _, q => q end in
    let f := match c_path ref, c_query ref, c_frag ref with PEmpty, None, None => c_frag u | _, _, f => f end in
    mkC scheme (c_auth u) (go_resolve_path (c_path u) (c_path ref)) q f
  | _, _ => mkC scheme (c_auth ref) (go_resolve_path (c_path ref) PEmpty) (c_query ref) (c_frag ref)
  end.

(* fixURL's path step *)
Definition fix_path (special : bool) (c : comps) : comps :=
  match c_scheme c, c_auth c, c_path c with
  | None, None, PRel _ => c                          (* relative-path reference: merged with the base path first *)
  | None, None, PEmpty => c
  | _, _, p => mkC (c_scheme c) (c_auth c) (clean_path special p) (c_query c) (c_frag c)
  end.

(* createURLConstructor with two arguments; special: the scheme of each side is one of http, https, ws, wss, ftp *)
Definition impl_resolve (B R : comps) : comps :=
  let B' := fix_path true B in
  let R' := fix_path (match c_scheme R with Some _ => true | None => false end) R in
  let U := go_resolve_reference B' R' in
  let U := mkC (c_scheme U) (c_auth U) (c_path U) (c_query U) (c_frag R) in
  fix_path true U.

(* the specification: RFC 3986 5.2.2 against the normalised base, then the path of a special URL is never empty *)
Definition normalise (c : comps) : comps :=
  mkC (c_scheme c) (c_auth c) (match c_path c with PEmpty => PAbs [[]] | PAbs s => PAbs (rds s) | PRel s => PAbs (rds s) end) (c_query c) (c_frag c).
Definition spec_resolve (B R : comps) : comps :=
  let T := transform (normalise B) R in
  mkC (c_scheme T) (c_auth T) (match c_path T with PEmpty => PAbs [[]] | p => p end) (c_query T) (c_frag T).
