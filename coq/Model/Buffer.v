(* Model/Buffer.v — Buffer numeric read/write methods: interpreter of the generated descriptors
   (Gen/BufferMethods.v) with Go semantics (int64 wrap, slices that trap). Definitions only. *)
From GN Require Import Common.Base Common.Int64 Model.BufferTypes Gen.BufferMethods.
From Coq Require Import String.
Open Scope string_scope.
Open Scope list_scope.
Open Scope Z_scope.

(* a JavaScript argument as the natives see it; ToInteger / Float64bits are goja's (oracles of the harness) *)
Inductive jsarg :=
| AUndef
| ANum (toint : Z) (bits : Z)    (* a Number: arg.ToInteger() and math.Float64bits(arg.ToFloat()) *)
| ABig (z : Z)                   (* a BigInt *)
| AOther.                        (* anything else: string, object, boolean, null, symbol *)

Inductive jsres :=
| RInt (z : Z)        (* a Number with an integral value, |z| < 2^53, not -0 *)
| RF64 (bits : Z)     (* any other non-NaN Number, as its IEEE-754 bit pattern *)
| RNaN
| RBig (z : Z).

Inductive mout :=
| MOk (buf : list Z) (r : jsres)
| MThrow (cls : Z)     (* 1 TypeError, 2 RangeError; the buffer is untouched *)
| MPanic.              (* a Go run-time panic would escape *)

Fixpoint assoc_s {A} (k : string) (l : list (string * A)) : option A :=
  match l with
  | [] => None
  | (k', v) :: r => if String.eqb k k' then Some v else assoc_s k r
  end.

Definition arg_at (args : list jsarg) (i : nat) : jsarg := nth i args AUndef.

(* goutil.{Required,Optional,Coerced}IntegerArgument by the generated rule table: inl value | inr error class *)
Definition coerce_int (fn : string) (default mismatch : Z) (a : jsarg) : Z + Z :=
  match assoc_s fn coerce_rules with
  | None => inr 0      (* untranslated: not modelled *)
  | Some (num, und, oth) =>
    match a with
    | ANum ti _ => match num with NumToInteger => inl ti | NumToFloat => inr 0 end
    | AUndef => match und with UndefDefault => inl default | UndefTypeError => inr 1 end
    | _ => match oth with OtherTypeError => inr 1 | OtherMismatch => inl mismatch end
    end
  end.

Definition coerce_float (a : jsarg) : Z + Z :=
  match assoc_s "RequiredFloatArgument" coerce_rules with
  | Some (NumToFloat, UndefTypeError, OtherTypeError) =>
    match a with ANum _ bits => inl bits | _ => inr 1 end
  | _ => inr 0
  end.

Definition coerce_big (a : jsarg) : Z + Z :=
  match a with ABig z => inl z | _ => inr 1 end.

(* ---- IEEE-754 helpers on bit patterns ---- *)
Definition f64_sign (b : Z) : Z := b / 2 ^ 63.
Definition f64_exp (b : Z) : Z := (b / 2 ^ 52) mod 2048.
Definition f64_man (b : Z) : Z := b mod 2 ^ 52.
Definition f64_is_nan (b : Z) : bool := (f64_exp b =? 2047) && negb (f64_man b =? 0).
Definition f64_is_inf (b : Z) : bool := (f64_exp b =? 2047) && (f64_man b =? 0).

(* |x| as m * 2^e for finite x *)
Definition f64_m (b : Z) : Z := if f64_exp b =? 0 then f64_man b else f64_man b + 2 ^ 52.
Definition f64_e (b : Z) : Z := if f64_exp b =? 0 then -1074 else f64_exp b - 1075.

(* |x| > MaxFloat32 = (2^24 - 1) * 2^104, exactly *)
Definition f64_exceeds_f32 (b : Z) : bool :=
  if f64_is_nan b then false
  else if f64_is_inf b then true
  else f64_m b * 2 ^ (f64_e b + 1074) >? (2 ^ 24 - 1) * 2 ^ (104 + 1074).

Definition rne_div (m k : Z) : Z :=   (* round-half-even of m / 2^k, k >= 0 *)
  if k <=? 0 then m * 2 ^ (- k)
  else let q := m / 2 ^ k in let r := m mod 2 ^ k in let h := 2 ^ (k - 1) in
       if r <? h then q else if r >? h then q + 1 else if Z.even q then q else q + 1.

(* float32(x) for |x| <= MaxFloat32 or NaN: bits of the nearest float32 (ties to even) *)
Definition f64_to_f32_bits (b : Z) : Z :=
  let s := f64_sign b in
  if f64_is_nan b then s * 2 ^ 31 + 255 * 2 ^ 23 + 2 ^ 22 + (f64_man b / 2 ^ 29) mod 2 ^ 22
  else if f64_is_inf b then s * 2 ^ 31 + 255 * 2 ^ 23
  else let m := f64_m b in
       if m =? 0 then s * 2 ^ 31
       else let e := f64_e b in
            let fl := Z.log2 m + e in
            let q := Z.max (fl - 23) (-149) in
            s * 2 ^ 31 + (q + 149) * 2 ^ 23 + rne_div m (q - e).

(* float64(f) for a float32 bit pattern: exact widening *)
Definition f32_to_f64_bits (b : Z) : Z :=
  let s := b / 2 ^ 31 in let ex := (b / 2 ^ 23) mod 256 in let man := b mod 2 ^ 23 in
  if ex =? 255 then s * 2 ^ 63 + 2047 * 2 ^ 52 + man * 2 ^ 29
  else if ex =? 0 then
    if man =? 0 then s * 2 ^ 63
    else let l := Z.log2 man in     (* value = man * 2^-149 = 1.xxx * 2^(l-149) *)
         s * 2 ^ 63 + (l - 149 + 1023) * 2 ^ 52 + (man * 2 ^ (52 - l)) mod 2 ^ 52
  else s * 2 ^ 63 + (ex - 127 + 1023) * 2 ^ 52 + man * 2 ^ 29.

(* canonical form of a Number result given as bits *)
Definition canon_f64 (b : Z) : jsres :=
  if f64_is_nan b then RNaN
  else if f64_is_inf b then RF64 b
  else let m := f64_m b in let e := f64_e b in
       if m =? 0 then (if f64_sign b =? 0 then RInt 0 else RF64 b)
       else let v := if e >=? 0 then Some (m * 2 ^ e)
                     else if (m mod 2 ^ (- e)) =? 0 then Some (m / 2 ^ (- e)) else None in
            match v with
            | Some z => if z <? 2 ^ 53 then RInt (if f64_sign b =? 0 then z else - z) else RF64 b
            | None => RF64 b
            end.

(* ---- bytes ---- *)
Definition byte_at (v : Z) (k : Z) : Z := (v / 2 ^ (8 * k)) mod 256.

(* little-endian bytes of v (two's complement for negative v), n of them: byte k is (v >> 8k) & 0xff *)
Fixpoint bytes_le_n (v : Z) (n : nat) : list Z :=
  match n with O => [] | S k => (v mod 256) :: bytes_le_n (v / 256) k end.

Definition bytes_le (v : Z) (w : Z) : list Z := bytes_le_n v (Z.to_nat w).
Definition bytes_of (e : endian) (v : Z) (w : Z) : list Z :=
  match e with LE => bytes_le v w | BE => rev (bytes_le v w) end.

Fixpoint from_le (bs : list Z) : Z := match bs with [] => 0 | b :: r => b + 256 * from_le r end.
Definition from_bytes (e : endian) (bs : list Z) : Z :=
  match e with LE => from_le bs | BE => from_le (rev bs) end.

(* bb[off:off+w] = bytes ; None when the slice expression would trap *)
Definition store_at (buf : list Z) (off : Z) (bs : list Z) : option (list Z) :=
  let len := Z.of_nat (List.length buf) in let w := Z.of_nat (List.length bs) in
  if (0 <=? off) && (off + w <=? len)
  then Some (firstn (Z.to_nat off) buf ++ bs ++ skipn (Z.to_nat (off + w)) buf)
  else None.

Definition load_at (buf : list Z) (off w : Z) : option (list Z) :=
  let len := Z.of_nat (List.length buf) in
  if (0 <=? off) && (0 <=? w) && (off + w <=? len)
  then Some (firstn (Z.to_nat w) (skipn (Z.to_nat off) buf))
  else None.

(* ---- guards ---- *)
Definition lens_of (buf : list Z) : env := fun x => if String.eqb x "bb" then Z.of_nat (List.length buf) else 0.

Inductive gval := GVInt (v : Z) | GVFloat (bits : Z) | GVBig (z : Z).

(* Some cls = the guard fires; None = passes. A guard applied to a value of the wrong kind is not modelled (Some 0). *)
Definition guard_fires (g : guard) (e : env) (buf : list Z) (v : gval) : option Z :=
  match g with
  | GExpr c _ cls => if holds e (lens_of buf) c then Some cls else None
  | GBigInt64 => match v with GVBig z => if (- two63 <=? z) && (z <? two63) then None else Some 2 | _ => Some 0 end
  | GBigUint64 => match v with GVBig z => if (0 <=? z) && (z <? two64) then None else Some 2 | _ => Some 0 end
  | GFloat32 => match v with GVFloat b => if f64_exceeds_f32 b then Some 2 else None | _ => Some 0 end
  end.

Fixpoint first_firing (gs : list guard) (e : env) (buf : list Z) (v : gval) : option Z :=
  match gs with
  | [] => None
  | g :: r => match guard_fires g e buf v with Some c => Some c | None => first_firing r e buf v end
  end.

(* offset (and byteLength) as the helper functions compute them: inl (offset, width) | inr error class *)
Definition get_offset (m : offmode) (buf : list Z) (args : list jsarg) : (Z * Z) + Z :=
  match m with
  | OffFixed idx w =>
    match coerce_int "OptionalIntegerArgument" 0 0 (arg_at args idx) with
    | inr c => inr c
    | inl off =>
      let e := upd (upd empty_env "offset" off) "numBytes" w in
      match guard_fires off_guard e buf (GVInt off) with
      | Some c => inr c
      | None => inl (off, w)
      end
    end
  | OffVar oi li =>
    match coerce_int "RequiredIntegerArgument" 0 0 (arg_at args oi) with
    | inr c => inr c
    | inl off =>
      match coerce_int "RequiredIntegerArgument" 0 0 (arg_at args li) with
      | inr c => inr c
      | inl bl =>
        let e := upd (upd empty_env "offset" off) "byteLength" bl in
        match first_firing var_guards e buf (GVInt off) with
        | Some c => inr c
        | None => inl (off, bl)
        end
      end
    end
  end.

Definition put_bytes (buf : list Z) (off : Z) (bs : list Z) (ret : Z) : mout :=
  match store_at buf off bs with
  | Some buf' => MOk buf' (RInt ret)
  | None => MPanic
  end.

Definition run_write (d : wdesc) (buf : list Z) (args : list jsarg) : mout :=
  let va := arg_at args (w_valarg d) in
  let cv := match w_coerce d with
            | CInteger => match coerce_int "RequiredIntegerArgument" 0 0 va with inl v => inl (GVInt v) | inr c => inr c end
            | CFloat => match coerce_float va with inl b => inl (GVFloat b) | inr c => inr c end
            | CBigInt => match coerce_big va with inl z => inl (GVBig z) | inr c => inr c end
            end in
  match cv with
  | inr c => if c =? 0 then MPanic else MThrow c
  | inl v =>
    match get_offset (w_off d) buf args with
    | inr c => if c =? 0 then MPanic else MThrow c
    | inl (off, w) =>
      let iv := match v with GVInt z => z | _ => 0 end in
      let e := upd (upd (upd empty_env "value" iv) "byteLength" w) "offset" off in
      match first_firing (w_guards d) e buf v with
      | Some c => if c =? 0 then MPanic else MThrow c
      | None =>
        match w_store d, v with
        | SPut pw en, GVInt z => put_bytes buf off (bytes_of en z pw) (off + pw)
        | SLoopBE, GVInt z => put_bytes buf off (bytes_of BE z w) (off + w)
        | SLoopLE, GVInt z => put_bytes buf off (bytes_of LE z w) (off + w)
        | SBits64 en, GVFloat b => put_bytes buf off (bytes_of en b 8) (off + 8)
        | SBits32 en, GVFloat b => put_bytes buf off (bytes_of en (f64_to_f32_bits b) 4) (off + 4)
        | SBig en _, GVBig z => put_bytes buf off (bytes_of en z 8) (off + 8)
        | _, _ => MPanic
        end
      end
    end
  end.

(* signExtend(value, n) as written: (value << (64 - 8n)) >> (64 - 8n) on int64 *)
Definition sign_extend (v n : Z) : Z := shr64 (shl64 v (64 - 8 * n)) (64 - 8 * n).

Definition to_signed (u w : Z) : Z := if u >=? 2 ^ (8 * w - 1) then u - 2 ^ (8 * w) else u.

Definition run_read (d : rdesc) (buf : list Z) (args : list jsarg) : mout :=
  match get_offset (r_off d) buf args with
  | inr c => if c =? 0 then MPanic else MThrow c
  | inl (off, w) =>
    let width := match r_load d with LGet pw _ _ => pw | LLoop _ _ => w | LF32 _ => 4 | _ => 8 end in
    match load_at buf off width with
    | None => MPanic
    | Some bs =>
      match r_load d with
      | LGet pw en sg => let u := from_bytes en bs in MOk buf (RInt (if sg then to_signed u pw else u))
      | LLoop en sg => let u := from_bytes en bs in MOk buf (RInt (if sg then sign_extend u w else u))
      | LF64 en => MOk buf (canon_f64 (from_bytes en bs))
      | LF32 en => MOk buf (canon_f64 (f32_to_f64_bits (from_bytes en bs)))
      | LBig en sg => let u := from_bytes en bs in MOk buf (RBig (if sg then to_signed u 8 else u))
      end
    end
  end.

(* dispatch by JavaScript method name through the generated registration table *)
Fixpoint find_w (go : string) (l : list wdesc) : option wdesc :=
  match l with [] => None | d :: r => if String.eqb go (w_go d) then Some d else find_w go r end.
Fixpoint find_r (go : string) (l : list rdesc) : option rdesc :=
  match l with [] => None | d :: r => if String.eqb go (r_go d) then Some d else find_r go r end.

Definition call_method (js_name : string) (buf : list Z) (args : list jsarg) : option mout :=
  match assoc_s js_name registrations with
  | None => None
  | Some go =>
    match find_w go write_methods with
    | Some d => Some (run_write d buf args)
    | None => match find_r go read_methods with
              | Some d => Some (run_read d buf args)
              | None => None
              end
    end
  end.
