(* Model/LoopTime.v — delay arithmetic of timers: msToDuration and the interval clamp, evaluated from the expressions the
   translator extracted from eventloop/eventloop.go (int64 semantics of Common/Int64.v). *)
From GN Require Import Common.Base Common.Int64 Gen.LoopSkeleton.
From Coq Require Import String.
Open Scope Z_scope.

Fixpoint first_branch (e : env) (bs : list (expr * expr)) (d : expr) : Z :=
  match bs with
  | [] => eval e empty_env d
  | (c, r) :: rest => if holds e empty_env c then eval e empty_env r else first_branch e rest d
  end.

(* msToDuration(ms): nanoseconds *)
Definition ms_to_duration (ms : Z) : Z := first_branch (upd empty_env ms_param ms) ms_branches ms_default.

(* Interval.start: the period handed to time.NewTicker *)
Definition interval_period (timeout : Z) : Z :=
  let e := upd empty_env "timeout"%string timeout in
  if holds e empty_env interval_clamp_cond then eval e empty_env interval_clamp_value else timeout.
