(* Model/LoopTime.v — delay arithmetic of timers: msToDuration and the interval clamp, evaluated from the expressions the
   translator extracted from eventloop/eventloop.go (int64 semantics of Common/Int64.v). *)
From GN Require Import Common.Base Common.Int64 Gen.LoopSkeleton.
From Coq Require Import String.
Open Scope Z_scope.

Fixpoint first_branch (e : env) (bs : list (expr * expr)) (d : expr) : Z :=
  match bs with
  | [] => eval e empty_env d
  | (c, r) :: rest => if holds e empty_env c then eval e empty_env r else first_branch e rest d
  end.

(* msToDuration(ms): nanoseconds *)
Definition ms_to_duration (ms : Z) : Z := first_branch (upd empty_env ms_param ms) ms_branches ms_default.

(* Interval.start: the period handed to time.NewTicker *)
Definition interval_period (timeout : Z) : Z :=
  let e := upd empty_env "timeout"%string timeout in
  if holds e empty_env interval_clamp_cond then eval e empty_env interval_clamp_value else timeout.

(* delayMillis(v): the delay argument of setTimeout/setInterval, after ToNumber, as whole milliseconds. A finite value is a
   rational n/d (every float is); NaN is None. math.Ceil, then saturation at the ends of int64 - as written in eventloop.go
   (fix b6ed023); the text of the function is part of loop_funcs, which the property files compare with the source. *)
Definition cdiv (n d : Z) : Z := - ((- n) / d).        (* ceiling of n/d for d > 0 *)
Definition delay_millis (v : option (Z * Z)) : Z :=
  match v with
  | None => 0
  | Some (n, d) =>
    let c := cdiv n d in
    if c >=? 9223372036854775807 then 9223372036854775807
    else if c <=? -9223372036854775808 then -9223372036854775808 else c
  end.
