(* Model/JsonModule.v — how a .json file becomes module source (require/module.go getCompiledSource),
   Go's encoding/json string encoder, and the ECMAScript double-quoted string literal lexer.
   Text is a list of Unicode scalar values. Definitions only. *)
From GN Require Import Common.Base Gen.RequireGlue.

Definition scalar (c : Z) : Prop := (0 <= c < 55296) \/ (57344 <= c <= 1114111).

Definition hexl (n : Z) : Z := nth (Z.to_nat n) [48;49;50;51;52;53;54;55;56;57;97;98;99;100;101;102] 0.

(* encoding/json htmlSafeSet: printable ASCII (0x20..0x7f) except double quote, ampersand, less-than, greater-than, back-slash *)
Definition html_safe (b : Z) : bool :=
  (32 <=? b) && (b <? 128) && negb (b =? 34) && negb (b =? 92) && negb (b =? 60) && negb (b =? 62) && negb (b =? 38).

(* appendString(dst, src, escapeHTML = true), one code point of valid UTF-8 at a time *)
Definition enc_cp (c : Z) : zs :=
  if c <? 128 then
    if html_safe c then [c]
    else if (c =? 92) || (c =? 34) then [92; c]
    else if c =? 8 then [92; 98]
    else if c =? 12 then [92; 102]
    else if c =? 10 then [92; 110]
    else if c =? 13 then [92; 114]
    else if c =? 9 then [92; 116]
    else [92; 117; 48; 48; hexl (c / 16); hexl (c mod 16)]
  else if (c =? 8232) || (c =? 8233) then [92; 117; 50; 48; 50; hexl (c mod 16)]
  else [c].

Definition go_json_string (s : zs) : zs := 34 :: flat_map enc_cp s ++ [34].

(* the escaper named by the generated glue; anything else than json.Marshal is not modelled *)
Definition escape_literal (s : zs) : option zs :=
  match json_escaper with
  | EscGoJSONMarshal => Some (go_json_string s)
  | _ => None
  end.

(* text of the module compiled for a .json file with content s *)
Definition json_module_source (s : zs) : option zs :=
  match escape_literal s with
  | Some lit => Some (wrap_pre ++ json_pre ++ lit ++ json_post ++ wrap_post)
  | None => None
  end.

(* ---- ECMAScript (ES2019+) double-quoted StringLiteral, after the opening quote ---- *)

Definition hexval (c : Z) : option Z :=
  if (48 <=? c) && (c <=? 57) then Some (c - 48)
  else if (97 <=? c) && (c <=? 102) then Some (c - 87)
  else if (65 <=? c) && (c <=? 70) then Some (c - 55)
  else None.

(* SingleEscapeCharacter and NonEscapeCharacter; None = escapes this model does not cover
   (x, u{...}, digits, line continuations): the lexer model rejects them *)
Definition single_escape (e : Z) : option Z :=
  if e =? 98 then Some 8 else if e =? 102 then Some 12 else if e =? 110 then Some 10
  else if e =? 114 then Some 13 else if e =? 116 then Some 9 else if e =? 118 then Some 11
  else if (e =? 34) || (e =? 39) || (e =? 92) then Some e
  else if (e =? 120) || (e =? 117) || ((48 <=? e) && (e <=? 57)) || (e =? 10) || (e =? 13) || (e =? 8232) || (e =? 8233) then None
  else Some e.

Definition cons_res (c : Z) (r : option (zs * zs)) : option (zs * zs) :=
  match r with Some (v, rest) => Some (c :: v, rest) | None => None end.

(* returns the string value and the source text after the closing quote *)
Fixpoint lex_dq_body (s : zs) : option (zs * zs) :=
  match s with
  | [] => None
  | c :: r =>
    if c =? 34 then Some ([], r)
    else if (c =? 10) || (c =? 13) then None
    else if c =? 92 then
      match r with
      | [] => None
      | e :: r1 =>
        if e =? 117 then
          match r1 with
          | h1 :: h2 :: h3 :: h4 :: r2 =>
            match hexval h1, hexval h2, hexval h3, hexval h4 with
            | Some a, Some b, Some c', Some d => cons_res (a * 4096 + b * 256 + c' * 16 + d) (lex_dq_body r2)
            | _, _, _, _ => None
            end
          | _ => None
          end
        else match single_escape e with
             | Some v => cons_res v (lex_dq_body r1)
             | None => None
             end
      end
    else cons_res c (lex_dq_body r)
  end.

Definition lex_dq (s : zs) : option (zs * zs) :=
  match s with
  | 34 :: r => lex_dq_body r
  | _ => None
  end.
