(* Common/Base.v — shared vocabulary of the development (no proofs of properties here). *)
From Coq Require Export List ZArith NArith Bool Lia.
Export ListNotations.
Open Scope Z_scope.

(* A byte / code-point string travels as a list of Z. *)
Definition zs := list Z.

Fixpoint zs_eqb (a b : zs) : bool :=
  match a, b with
  | [], [] => true
  | x :: a', y :: b' => Z.eqb x y && zs_eqb a' b'
  | _, _ => false
  end.

Lemma zs_eqb_eq a b : zs_eqb a b = true <-> a = b.
Proof.
  revert b; induction a as [|x a IH]; intros [|y b]; simpl; split; intro H;
    try reflexivity; try discriminate.
  - apply andb_true_iff in H as [H1 H2]. apply Z.eqb_eq in H1. apply IH in H2. congruence.
  - inversion H; subst. rewrite Z.eqb_refl. simpl. apply IH. reflexivity.
Qed.

Lemma zs_eqb_refl a : zs_eqb a a = true.
Proof. apply zs_eqb_eq; reflexivity. Qed.

Fixpoint list_eqb {A} (eqb : A -> A -> bool) (a b : list A) : bool :=
  match a, b with
  | [], [] => true
  | x :: a', y :: b' => eqb x y && list_eqb eqb a' b'
  | _, _ => false
  end.

Lemma list_eqb_eq {A} (eqb : A -> A -> bool) :
  (forall x y, eqb x y = true <-> x = y) ->
  forall a b, list_eqb eqb a b = true <-> a = b.
Proof.
  intros Heq a; induction a as [|x a IH]; intros [|y b]; simpl; split; intro H;
    try reflexivity; try discriminate.
  - apply andb_true_iff in H as [H1 H2]. apply Heq in H1. apply IH in H2. congruence.
  - inversion H; subst. apply andb_true_iff; split; [apply Heq|apply IH]; reflexivity.
Qed.

Definition pair_eqb {A B} (ea : A -> A -> bool) (eb : B -> B -> bool) (p q : A * B) : bool :=
  ea (fst p) (fst q) && eb (snd p) (snd q).

Definition option_eqb {A} (e : A -> A -> bool) (a b : option A) : bool :=
  match a, b with
  | None, None => true
  | Some x, Some y => e x y
  | _, _ => false
  end.

(* Outcome of an operation of the implementation, as the models see it. *)
Inductive outcome (A : Type) :=
| Ok (v : A)
| Throw (cls : Z)       (* a catchable JavaScript exception; cls: 1 TypeError 2 RangeError 3 SyntaxError 4 Error/other *)
| GoPanic               (* a Go run-time panic escapes *)
| Hang.                 (* no progress *)
Arguments Ok {A} v. Arguments Throw {A} cls. Arguments GoPanic {A}. Arguments Hang {A}.

(* Verdicts of the correspondence run, one per failing case. *)
Inductive verdict :=
| Diff (what : N)       (* model output differs from the implementation's; what = which observable *)
| SpecFail (what : N).  (* the implementation's own output violates the specification oracle *)

Definition check_list {C} (chk : C -> list verdict) (cs : list (N * C)) : list (N * verdict) :=
  flat_map (fun ic => map (fun v => (fst ic, v)) (chk (snd ic))) cs.
