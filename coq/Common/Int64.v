(* Common/Int64.v — Go int64 arithmetic (wrap-around) and the small expression language the translator emits. *)
From GN Require Import Common.Base.
From Coq Require Import String.
Open Scope Z_scope.

Definition two63 : Z := 9223372036854775808.
Definition two64 : Z := 18446744073709551616.

Definition wrap64 (z : Z) : Z := (z + two63) mod two64 - two63.

Definition in_i64 (z : Z) : Prop := - two63 <= z < two63.

Lemma wrap64_id z : in_i64 z -> wrap64 z = z.
Proof.
  unfold in_i64, wrap64, two63, two64. intro H.
  rewrite Z.mod_small by lia. lia.
Qed.

Lemma wrap64_range z : in_i64 (wrap64 z).
Proof.
  unfold in_i64, wrap64, two63, two64.
  pose proof (Z.mod_pos_bound (z + 9223372036854775808) 18446744073709551616 ltac:(lia)). lia.
Qed.

Inductive binop := OAdd | OSub | OMul | OShl | OShr | OMod | OLt | OLe | OGt | OGe | OEq | ONe | OAnd | OOr.

(* all sub-expressions are int64; booleans are 0/1 *)
Inductive expr :=
| EVar (x : string)
| EInt (z : Z)
| ELen (x : string)          (* int64(len(x)) *)
| EBin (o : binop) (a b : expr)
| ENeg (a : expr)
| ENot (a : expr).

Definition env := string -> Z.

Definition b2z (b : bool) : Z := if b then 1 else 0.

(* Go: shift count is the int64 value; >= 64 gives 0 (<<) or sign (>>); a negative count panics — the
   translator only accepts shifts whose count is provably non-negative in context, the evaluator maps a
   negative count to 0 and the VC generator emits the non-negativity as an obligation *)
Definition shl64 (a n : Z) : Z := if n <? 0 then 0 else if n >=? 64 then 0 else wrap64 (a * 2 ^ n).
Definition shr64 (a n : Z) : Z := if n <? 0 then 0 else if n >=? 64 then (if a <? 0 then -1 else 0) else a / 2 ^ n.

Lemma shl64_small a k : 0 <= k < 64 -> shl64 a k = wrap64 (a * 2 ^ k).
Proof. intro H. unfold shl64. destruct (Z.ltb_spec k 0); [lia|]. rewrite Z.geb_leb. destruct (Z.leb_spec 64 k); [lia|reflexivity]. Qed.

Lemma shr64_small a k : 0 <= k < 64 -> shr64 a k = a / 2 ^ k.
Proof. intro H. unfold shr64. destruct (Z.ltb_spec k 0); [lia|]. rewrite Z.geb_leb. destruct (Z.leb_spec 64 k); [lia|reflexivity]. Qed.

Definition eval_bin (o : binop) (a b : Z) : Z :=
  match o with
  | OAdd => wrap64 (a + b)
  | OSub => wrap64 (a - b)
  | OMul => wrap64 (a * b)
  | OShl => shl64 a b
  | OShr => shr64 a b
  | OMod => a mod b          (* only emitted for x & (2^k - 1), which is x mod 2^k for every integer x *)
  | OLt => b2z (a <? b)
  | OLe => b2z (a <=? b)
  | OGt => b2z (a >? b)
  | OGe => b2z (a >=? b)
  | OEq => b2z (a =? b)
  | ONe => b2z (negb (a =? b))
  | OAnd => b2z (negb (a =? 0) && negb (b =? 0))
  | OOr => b2z (negb (a =? 0) || negb (b =? 0))
  end.

Fixpoint eval (e : env) (lens : env) (x : expr) : Z :=
  match x with
  | EVar v => e v
  | EInt z => z
  | ELen v => lens v
  | EBin o a b => eval_bin o (eval e lens a) (eval e lens b)
  | ENeg a => wrap64 (- eval e lens a)
  | ENot a => b2z (eval e lens a =? 0)
  end.

Definition holds (e lens : env) (x : expr) : bool := negb (eval e lens x =? 0).

Definition upd (e : env) (x : string) (v : Z) : env := fun y => if String.eqb y x then v else e y.
Definition empty_env : env := fun _ => 0.

Ltac Zify.zify_post_hook ::= Z.div_mod_to_equations.
