(* Proofs/SearchParamsSort.v — sort(): sorted by name (byte order) and stable *)
From GN Require Import Common.Base Gen.UrlTables Model.SearchParams Spec.SearchParamsSpec.

Lemma ltb_irrefl a : zs_ltb a a = false.
Proof. induction a as [|x a IH]; simpl; [reflexivity|]. rewrite Z.ltb_irrefl, Z.eqb_refl, IH. reflexivity. Qed.

Lemma ltb_trans a : forall b c, zs_ltb a b = true -> zs_ltb b c = true -> zs_ltb a c = true.
Proof.
  induction a as [|x a IH]; intros [|y b] [|z c] H1 H2; simpl in *; try discriminate; try reflexivity.
  apply orb_true_iff in H1, H2. apply orb_true_iff.
  destruct H1 as [H1|H1], H2 as [H2|H2].
  - left. apply Z.ltb_lt in H1, H2. apply Z.ltb_lt. lia.
  - apply andb_true_iff in H2 as [H2 _]. apply Z.eqb_eq in H2. subst. left. exact H1.
  - apply andb_true_iff in H1 as [H1 _]. apply Z.eqb_eq in H1. subst. left. exact H2.
  - apply andb_true_iff in H1 as [E1 H1]. apply andb_true_iff in H2 as [E2 H2].
    apply Z.eqb_eq in E1, E2. subst. right. rewrite Z.eqb_refl. simpl. eapply IH; eassumption.
Qed.

Lemma ltb_trichotomy a : forall b, zs_ltb a b = true \/ a = b \/ zs_ltb b a = true.
Proof.
  induction a as [|x a IH]; intros [|y b]; simpl; auto.
  destruct (Z.lt_total x y) as [H|[H|H]].
  - left. apply Z.ltb_lt in H. rewrite H. reflexivity.
  - subst y. rewrite Z.ltb_irrefl, Z.eqb_refl. simpl.
    destruct (IH b) as [H|[H|H]]; [left; exact H|right; left; congruence|right; right; exact H].
  - right. right. apply Z.ltb_lt in H. rewrite H. reflexivity.
Qed.

Lemma ltb_asym a b : zs_ltb a b = true -> zs_ltb b a = false.
Proof.
  intro H. destruct (zs_ltb b a) eqn:E; [|reflexivity].
  pose proof (ltb_trans a b a H E) as C. rewrite ltb_irrefl in C. discriminate.
Qed.

Lemma in_insert p x l : In x (insert_stable p l) -> x = p \/ In x l.
Proof.
  induction l as [|q r IH]; simpl.
  - intros [H|[]]; auto.
  - destruct (zs_ltb (sort_key q) (sort_key p)); simpl; intros [H|H]; auto.
    apply IH in H. tauto.
Qed.

Lemma insert_sorted p l : sorted_by_name l -> sorted_by_name (insert_stable p l).
Proof.
  induction l as [|q r IH]; simpl; intro Hs.
  - split; [intros ? []|exact I].
  - destruct Hs as [Hq Hr]. destruct (zs_ltb (sort_key q) (sort_key p)) eqn:E; simpl.
    + split; [|apply IH; exact Hr].
      intros x Hx. apply in_insert in Hx. destruct Hx as [->|Hx]; [apply ltb_asym; exact E|apply Hq; exact Hx].
    + split; [|split; assumption].
      intros x [<-|Hx]; [exact E|].
      specialize (Hq x Hx).
      destruct (zs_ltb (sort_key x) (sort_key p)) eqn:Exp; [|reflexivity].
      destruct (ltb_trichotomy (sort_key q) (sort_key x)) as [H|[H|H]].
      * rewrite (ltb_trans _ _ _ H Exp) in E. discriminate.
      * rewrite H in E. rewrite Exp in E. discriminate.
      * rewrite H in Hq. discriminate.
Qed.

Theorem sort_sorted l : sorted_by_name (stable_sort l).
Proof. induction l as [|p l IH]; simpl; [exact I|]. apply insert_sorted. exact IH. Qed.

Definition named (n : zs) (p : pair) : bool := zs_eqb (fst p) n.

Lemma insert_filter n p l : filter (named n) (insert_stable p l) = filter (named n) (p :: l).
Proof.
  induction l as [|q r IH]; [reflexivity|].
  cbn [insert_stable]. destruct (zs_ltb (sort_key q) (sort_key p)) eqn:E; [|reflexivity].
  cbn [filter] in *. rewrite IH. unfold named.
  destruct (zs_eqb (fst q) n) eqn:Eq, (zs_eqb (fst p) n) eqn:Ep; try reflexivity.
  apply zs_eqb_eq in Eq, Ep. unfold sort_key in E. rewrite Eq, Ep, ltb_irrefl in E. discriminate.
Qed.

(* stability: the pairs of each name keep their relative order (and nothing is lost or invented) *)
Theorem sort_stable n l : filter (named n) (stable_sort l) = filter (named n) l.
Proof.
  induction l as [|p l IH]; [reflexivity|].
  cbn [stable_sort fold_right]. fold (stable_sort l). rewrite insert_filter. cbn [filter]. rewrite IH. reflexivity.
Qed.

Theorem sort_length l : length (stable_sort l) = length l.
Proof.
  induction l as [|p l IH]; [reflexivity|]. cbn [stable_sort fold_right]. fold (stable_sort l).
  assert (H : forall q m, length (insert_stable q m) = S (length m)).
  { intros q m. induction m as [|x m IHm]; [reflexivity|]. cbn [insert_stable].
    destruct (zs_ltb (sort_key x) (sort_key q)); simpl; [rewrite IHm|]; reflexivity. }
  rewrite H, IH. reflexivity.
Qed.
