(* Proofs/JobsRegistry.v — loop.jobs as the array it is: registration appends and records the position in job.idx; removeJob
   moves the last entry into the freed slot (constant time) and marks the job with idx = -1. The event-loop model (Model/Loop.v)
   treats loop.jobs as a set of ids with filter-removal; this file shows that the array code refines that, keeps the
   position invariant the white-box monitor checks at run time (jobs[k].idx = k), and never indexes out of range. *)
From Coq Require Import List ZArith Lia Bool.
Import ListNotations.
From GN Require Import Common.Base Model.Loop.
Open Scope Z_scope.

Record reg := mkReg { rjobs : list Z; ridx : Z -> Z }.

Definition set_idx (f : Z -> Z) (j v : Z) : Z -> Z := fun x => if x =? j then v else f x.

Fixpoint replace_nth (l : list Z) (k : nat) (v : Z) : list Z :=
  match l, k with
  | [], _ => []
  | _ :: r, O => v :: r
  | x :: r, S k' => x :: replace_nth r k' v
  end.

(* registration (schedule / the start job of SetTimeout, SetInterval): job.idx = len(loop.jobs); loop.jobs = append(loop.jobs, job) *)
Definition reg_append (r : reg) (j : Z) : reg :=
  {| rjobs := rjobs r ++ [j]; ridx := set_idx (ridx r) j (Z.of_nat (length (rjobs r))) |}.

(* removeJob as written. None = a Go index-out-of-range panic. *)
Definition reg_remove (r : reg) (j : Z) : option reg :=
  let idx := ridx r j in
  if idx <? 0 then Some r
  else
    let n := length (rjobs r) in
    let k := Z.to_nat idx in
    match n with
    | O => None                                               (* jobs[len-1] with len = 0 *)
    | S last =>
      if (idx <? Z.of_nat last) then
        match nth_error (rjobs r) last with                   (* jobs[idx] = jobs[len-1]; jobs[idx].idx = idx *)
        | Some lj => Some {| rjobs := firstn last (replace_nth (rjobs r) k lj); ridx := set_idx (set_idx (ridx r) lj idx) j (-1) |}
        | None => None
        end
      else
        (* idx >= len-1: no move; jobs[len-1] = nil; jobs = jobs[:len-1] *)
        Some {| rjobs := firstn last (rjobs r); ridx := set_idx (ridx r) j (-1) |}
    end.

Definition reg_inv (r : reg) : Prop :=
  NoDup (rjobs r) /\ forall k j, nth_error (rjobs r) k = Some j -> ridx r j = Z.of_nat k.

Lemma nth_error_replace l : forall k v i, (k < length l)%nat ->
  nth_error (replace_nth l k v) i = if Nat.eqb i k then Some v else nth_error l i.
Proof.
  induction l as [|x l IH]; intros k v i Hk; [cbn in Hk; lia|].
  destruct k as [|k]; destruct i as [|i]; cbn; try reflexivity.
  apply IH. cbn in Hk. lia.
Qed.

Lemma length_replace l : forall k v, length (replace_nth l k v) = length l.
Proof. induction l as [|x l IH]; intros [|k] v; cbn; auto. Qed.

Lemma nth_error_firstn {A} (l : list A) n i : nth_error (firstn n l) i = if Nat.ltb i n then nth_error l i else None.
Proof.
  revert n i. induction l as [|x l IH]; intros n i.
  - rewrite firstn_nil. destruct (Nat.ltb i n); destruct i; reflexivity.
  - destruct n as [|n]; destruct i as [|i]; cbn [firstn nth_error]; try reflexivity.
    rewrite IH. reflexivity.
Qed.

Lemma nodup_nth_inj (l : list Z) a b x : NoDup l -> nth_error l a = Some x -> nth_error l b = Some x -> a = b.
Proof. intros Hn Ha Hb. eapply NoDup_nth_error; [exact Hn|apply nth_error_Some; congruence|congruence]. Qed.

Lemma NoDup_snoc (l : list Z) x : NoDup l -> ~ In x l -> NoDup (l ++ [x]).
Proof.
  induction l as [|y l IH]; intros Hn Hx; cbn; [constructor; [intros []|constructor]|].
  inversion Hn as [|? ? Hy Hl]; subst. constructor.
  - intro H. apply in_app_or in H as [H|[H|[]]]; [contradiction|subst; apply Hx; left; reflexivity].
  - apply IH; [exact Hl|intro H; apply Hx; right; exact H].
Qed.

Theorem append_inv r j : reg_inv r -> ~ In j (rjobs r) -> reg_inv (reg_append r j).
Proof.
  intros [Hn Hi] Hj. split; cbn [reg_append rjobs ridx].
  - apply NoDup_snoc; assumption.
  - intros k x Hk. unfold set_idx. destruct (Nat.lt_ge_cases k (length (rjobs r))) as [Hlt|Hge].
    + rewrite nth_error_app1 in Hk by exact Hlt. destruct (x =? j) eqn:E.
      * apply Z.eqb_eq in E. subst x. exfalso. apply Hj. eapply nth_error_In. exact Hk.
      * apply Hi. exact Hk.
    + rewrite nth_error_app2 in Hk by exact Hge. destruct (k - length (rjobs r))%nat as [|d] eqn:Ed; cbn in Hk.
      * inversion Hk; subst x. rewrite Z.eqb_refl. f_equal. lia.
      * destruct d; discriminate.
Qed.

(* removing a registered job: no index leaves the array, the position invariant is kept, exactly that job is gone *)
Theorem remove_registered r j : reg_inv r -> In j (rjobs r) ->
  exists r', reg_remove r j = Some r' /\ reg_inv r' /\ (forall x, In x (rjobs r') <-> In x (rjobs r) /\ x <> j) /\ ridx r' j = -1.
Proof.
  intros [Hn Hi] Hin. apply In_nth_error in Hin as [k Hk]. pose proof (Hi k j Hk) as Hidx.
  assert (Hklt : (k < length (rjobs r))%nat) by (apply nth_error_Some; congruence).
  unfold reg_remove. rewrite Hidx. destruct (Z.of_nat k <? 0) eqn:E0; [apply Z.ltb_lt in E0; lia|]. rewrite Nat2Z.id.
  destruct (length (rjobs r)) as [|last] eqn:El; [lia|].
  destruct (Z.of_nat k <? Z.of_nat last) eqn:Ek.
  - (* the last entry moves into slot k *)
    apply Z.ltb_lt in Ek. assert (Hkl : (k < last)%nat) by lia.
    destruct (nth_error (rjobs r) last) as [lj|] eqn:Elj; [|apply nth_error_None in Elj; lia].
    assert (Hlj : lj <> j) by (intro; subst lj; pose proof (nodup_nth_inj _ _ _ _ Hn Hk Elj); lia).
    eexists. split; [reflexivity|]. cbn [rjobs ridx].
    assert (Hnth : forall i, nth_error (firstn last (replace_nth (rjobs r) k lj)) i =
                             if Nat.ltb i last then (if Nat.eqb i k then Some lj else nth_error (rjobs r) i) else None).
    { intro i. rewrite nth_error_firstn. destruct (Nat.ltb i last); [|reflexivity]. apply nth_error_replace. lia. }
    assert (Hmem : forall x, In x (firstn last (replace_nth (rjobs r) k lj)) <-> In x (rjobs r) /\ x <> j).
    { intro x. split.
      - intro H. apply In_nth_error in H as [i H]. rewrite Hnth in H. destruct (Nat.ltb i last) eqn:Li; [|discriminate].
        destruct (Nat.eqb_spec i k) as [->|Hne].
        + inversion H; subst x. split; [eapply nth_error_In; exact Elj|exact Hlj].
        + split; [eapply nth_error_In; exact H|]. intro; subst x. apply Hne. eapply nodup_nth_inj; eauto.
      - intros [H Hx]. apply In_nth_error in H as [i H].
        destruct (Nat.eq_dec i last) as [->|Hil].
        + (* x was the last entry: now at k *) rewrite Elj in H. inversion H; subst x. apply nth_error_In with (n := k). rewrite Hnth.
          apply Nat.ltb_lt in Hkl. rewrite Hkl, Nat.eqb_refl. reflexivity.
        + assert (Hi_lt : (i < last)%nat) by (assert (i < S last)%nat by (rewrite <- El; apply nth_error_Some; congruence); lia).
          apply nth_error_In with (n := i). rewrite Hnth. apply Nat.ltb_lt in Hi_lt. rewrite Hi_lt.
          destruct (Nat.eqb_spec i k) as [->|_]; [rewrite Hk in H; inversion H; subst; contradiction|exact H]. }
    split; [|split; [exact Hmem|unfold set_idx; rewrite Z.eqb_refl; reflexivity]].
    split.
    + (* NoDup *) apply NoDup_nth_error. intros a b Ha Hab. rewrite !Hnth in Hab.
      assert (Hlen : length (firstn last (replace_nth (rjobs r) k lj)) = last) by (rewrite firstn_length, length_replace, El; lia).
      cbn [rjobs] in Ha. rewrite Hlen in Ha.
      assert (Hab1 : (a <? last)%nat = true) by (apply Nat.ltb_lt; exact Ha). rewrite Hab1 in Hab.
      assert (Hsome : (if (a =? k)%nat then Some lj else nth_error (rjobs r) a) <> None).
      { destruct (a =? k)%nat; [discriminate|]. apply nth_error_Some. lia. }
      assert (Hb : (b < last)%nat).
      { destruct (Nat.ltb b last) eqn:Lb; [apply Nat.ltb_lt; exact Lb|]. exfalso. apply Hsome. exact Hab. }
      assert (Hab2 : (b <? last)%nat = true) by (apply Nat.ltb_lt; exact Hb). rewrite Hab2 in Hab.
      destruct (Nat.eqb_spec a k) as [->|Hak]; destruct (Nat.eqb_spec b k) as [->|Hbk]; try reflexivity.
      * symmetry in Hab. pose proof (nodup_nth_inj _ _ _ _ Hn Hab Elj). lia.
      * pose proof (nodup_nth_inj _ _ _ _ Hn Hab Elj). lia.
      * assert (Hsa : exists xa, nth_error (rjobs r) a = Some xa) by (destruct (nth_error (rjobs r) a) eqn:E; [eauto|apply nth_error_None in E; lia]).
        destruct Hsa as [xa Hxa]. rewrite Hxa in Hab. eapply nodup_nth_inj; eauto.
    + intros i x Hx. rewrite Hnth in Hx. destruct (Nat.ltb i last) eqn:Li; [|discriminate]. unfold set_idx. cbn [ridx].
      destruct (Nat.eqb_spec i k) as [->|Hne].
      * inversion Hx; subst x. destruct (lj =? j) eqn:E; [apply Z.eqb_eq in E; contradiction|]. rewrite Z.eqb_refl. reflexivity.
      * assert (x <> j) by (intro; subst x; apply Hne; eapply nodup_nth_inj; eauto).
        destruct (x =? j) eqn:E; [apply Z.eqb_eq in E; contradiction|].
        destruct (x =? lj) eqn:E2; [apply Z.eqb_eq in E2; subst x; pose proof (nodup_nth_inj _ _ _ _ Hn Hx Elj); apply Nat.ltb_lt in Li; lia|].
        apply Hi. exact Hx.
  - (* j is the last entry *)
    apply Z.ltb_ge in Ek. assert (k = last) by lia. subst k.
    eexists. split; [reflexivity|]. cbn [rjobs ridx].
    assert (Hnth : forall i, nth_error (firstn last (rjobs r)) i = if Nat.ltb i last then nth_error (rjobs r) i else None) by (intro; apply nth_error_firstn).
    assert (Hmem : forall x, In x (firstn last (rjobs r)) <-> In x (rjobs r) /\ x <> j).
    { intro x. split.
      - intro H. apply In_nth_error in H as [i H]. rewrite Hnth in H. destruct (Nat.ltb i last) eqn:Li; [|discriminate].
        split; [eapply nth_error_In; exact H|]. intro; subst x. pose proof (nodup_nth_inj _ _ _ _ Hn H Hk). apply Nat.ltb_lt in Li. lia.
      - intros [H Hx]. apply In_nth_error in H as [i H].
        assert (i <> last) by (intro; subst i; rewrite Hk in H; inversion H; subst; contradiction).
        assert (i < S last)%nat by (rewrite <- El; apply nth_error_Some; congruence).
        apply nth_error_In with (n := i). rewrite Hnth. assert (Hl : (i < last)%nat) by lia. apply Nat.ltb_lt in Hl. rewrite Hl. exact H. }
    split; [|split; [exact Hmem|unfold set_idx; rewrite Z.eqb_refl; reflexivity]].
    split.
    + rewrite <- (firstn_skipn last (rjobs r)) in Hn. clear -Hn. revert Hn. generalize (firstn last (rjobs r)) (skipn last (rjobs r)). intros a b.
      induction a as [|x a IH]; cbn; intro H; [constructor|]. inversion H as [|? ? Hx Hr]; subst. constructor; [intro Hin; apply Hx; apply in_or_app; left; exact Hin|apply IH; exact Hr].
    + intros i x Hx. rewrite Hnth in Hx. destruct (Nat.ltb i last) eqn:Li; [|discriminate]. unfold set_idx. cbn [ridx].
      destruct (x =? j) eqn:E; [apply Z.eqb_eq in E; subst x; pose proof (nodup_nth_inj _ _ _ _ Hn Hx Hk); apply Nat.ltb_lt in Li; lia|].
      apply Hi. exact Hx.
Qed.

(* removeJob on a job that was removed already (or never registered and marked -1): nothing happens *)
Theorem remove_idempotent r j : ridx r j < 0 -> reg_remove r j = Some r.
Proof. intro H. unfold reg_remove. apply Z.ltb_lt in H. rewrite H. reflexivity. Qed.

(* the hazard that the callers must exclude: the zero value of job.idx is 0, so removeJob on a job that was never registered
   (and not marked -1) evicts whatever sits in slot 0 *)
Example zero_value_hazard :
  let r := {| rjobs := [7; 8]; ridx := fun x => if x =? 7 then 0 else if x =? 8 then 1 else 0 |} in
  reg_inv r /\ option_map rjobs (reg_remove r 99) = Some [8].
Proof.
  cbv zeta. split; [split|reflexivity].
  - repeat constructor; cbn; intuition discriminate.
  - intros [|[|k]] x H; cbn in H; inversion H; subst; try reflexivity. destruct k; discriminate.
Qed.

(* ... which is the removal the event-loop model uses (Model/Loop.v: remove_job = filter), as sets *)
Corollary remove_refines_model r j : reg_inv r -> In j (rjobs r) ->
  exists r', reg_remove r j = Some r' /\ reg_inv r' /\ forall x, In x (rjobs r') <-> In x (remove_job (rjobs r) j).
Proof.
  intros HI Hin. destruct (remove_registered r j HI Hin) as (r' & H1 & H2 & H3 & _). exists r'. split; [exact H1|split; [exact H2|]].
  intro x. rewrite H3. unfold remove_job. rewrite filter_In. split.
  - intros [Hx Hne]. split; [exact Hx|]. destruct (x =? j) eqn:E; [apply Z.eqb_eq in E; contradiction|reflexivity].
  - intros [Hx Hb]. split; [exact Hx|]. intro; subst x. rewrite Z.eqb_refl in Hb. discriminate.
Qed.

(* no index leaves the array: removeJob on a registered job, or on one marked -1, never panics *)
Corollary remove_never_out_of_range r j : reg_inv r -> (In j (rjobs r) \/ ridx r j < 0) -> reg_remove r j <> None.
Proof.
  intros HI [Hin|Hneg].
  - destruct (remove_registered r j HI Hin) as (r' & H1 & _). rewrite H1. discriminate.
  - rewrite (remove_idempotent r j Hneg). discriminate.
Qed.
