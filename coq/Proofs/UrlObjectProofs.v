(* Proofs/UrlObjectProofs.v — C13: the URL object stays coherent under every history of setters and searchParams
   operations. The oracles of Model/UrlObject.v (parser, ParseRequestURI, IDNA, path cleaning) are arbitrary. *)
From GN Require Import Common.Base Gen.UrlTables Model.SearchParams Proofs.SearchParamsRoundTrip Model.UrlObject.
From RecordUpdate Require Import RecordSet.
Import RecordSetNotations.
Open Scope Z_scope.

(* ================= query side ================= *)
(* the list, when materialised, is the parse of the raw query, unless the raw query was invalidated (emptied) by a
   searchParams mutation and will be re-encoded from the list on the next read *)
Definition Coh (s : ustate) : Prop :=
  match sp s with Some l => rawquery s = [] \/ l = parse_raw (rawquery s) | None => True end.

Section WithOracles.
Variable parse_url : zs -> option (zs * zs * zs * zs * zs).
Variable host_ok : zs -> zs -> bool.
Variable lower : zs -> zs.
Variable norm_host : zs -> option zs.
Variable clean_path : zs -> zs -> zs.

Notation ustep := (ustep parse_url host_ok lower norm_host clean_path).
Notation urun := (urun parse_url host_ok lower norm_host clean_path).

Lemma mutate_coh s f : Coh (mutate s f).
Proof.
  unfold mutate, materialise, Coh. destruct (sp s) as [l|] eqn:E; cbn; rewrite ?E; cbn; left; reflexivity.
Qed.

Lemma host_ops_query s s' : sp s' = sp s -> rawquery s' = rawquery s -> Coh s -> Coh s'.
Proof. unfold Coh. intros -> ->. tauto. Qed.

Lemma ustep_coh s o : Coh s -> Coh (ustep s o).
Proof.
  intro C. destruct o; cbn [UrlObject.ustep]; try apply mutate_coh.
  - (* search *) unfold set_search, Coh. destruct (sp s) eqn:E; cbn; rewrite ?E; [right; reflexivity|exact I].
  - (* href *) unfold set_href. destruct (parse_url v) as [[[[[sc h] q] f] p]|]; [|exact C].
    destruct (match sc with [] => true | _ => false end); [exact C|]. destruct (_ && _); [exact C|].
    destruct (fix_host _ _ _); [|exact C].
    unfold Coh. destruct (sp s) eqn:E; cbn; rewrite ?E; [right; reflexivity|exact I].
  - (* materialise *) unfold materialise, Coh in *. destruct (sp s) eqn:E; [rewrite E; exact C|cbn; right; reflexivity].
  - (* port *) apply (host_ops_query s); [| |exact C]; unfold set_port; destruct (zs_eqb (scheme s) s_file); try reflexivity;
      destruct a; try reflexivity; destruct (is_default_port _ _); reflexivity.
  - (* protocol *) apply (host_ops_query s); [| |exact C]; unfold set_protocol; destruct (negb (valid_scheme p)); try reflexivity;
      destruct (_ && _); try reflexivity; destruct (fix_host _ _ _); reflexivity.
  - (* host *) apply (host_ops_query s); [| |exact C]; unfold set_host; destruct (host_ok _ _); try reflexivity;
      destruct (fix_host _ _ _); reflexivity.
  - (* hostname *) apply (host_ops_query s); [| |exact C]; unfold set_hostname; destruct (existsb _ _); try reflexivity;
      destruct (host_ok _ _); try reflexivity; destruct (fix_host _ _ _); reflexivity.
  - (* hash *) apply (host_ops_query s); [reflexivity|reflexivity|exact C].
  - (* pathname *) apply (host_ops_query s); [reflexivity|reflexivity|exact C].
  - (* username / password *) exact C.
Qed.

Theorem urun_coh ops : forall s, Coh s -> Coh (urun s ops).
Proof. induction ops as [|o r IH]; cbn; intros s C; [exact C|]. apply IH. apply ustep_coh. exact C. Qed.

(* what a reader sees: search is '' or '?' followed by the current query, and searchParams lists exactly the pairs of
   that query — in every coherent state, whichever of the two was changed last *)
Theorem search_lists_params s : Coh s -> wf_pairs (get_params s) ->
  (get_search s = [] \/ exists q, q <> [] /\ get_search s = 63 :: q /\ rawquery (sync s) = q) /\
  parse_raw (rawquery (sync s)) = get_params s.
Proof.
  intros C Hwf. split.
  - unfold get_search. destruct (rawquery (sync s)) as [|c q] eqn:E; [left; reflexivity|right].
    exists (c :: q). split; [discriminate|split; reflexivity].
  - assert (Hg : get_params s = match sp s with Some l => l | None => parse_raw (rawquery s) end).
    { unfold get_params, materialise. destruct (sp s) eqn:E; [rewrite E; reflexivity|reflexivity]. }
    rewrite Hg in *. unfold Coh in C. unfold sync. destruct (sp s) as [[|p l]|] eqn:E.
    + destruct C as [C|C]; [rewrite C; reflexivity|]. destruct (rawquery s); symmetry; exact C.
    + destruct (rawquery s) as [|c q] eqn:Eq.
      * change (rawquery (s <| rawquery := serialize (p :: l) |>)) with (serialize (p :: l)).
        apply serialize_parse_raw_roundtrip. exact Hwf.
      * rewrite Eq. destruct C as [C|C]; [discriminate|]. symmetry; exact C.
    + destruct (rawquery s); reflexivity.
Qed.

(* href, toString() and toJSON() are one function of the state: each re-encodes a stale query and prints (the three
   source texts are compared in Properties/C13.v); reading twice changes nothing *)
Opaque serialize.
Theorem sync_idempotent s : sync (sync s) = sync s.
Proof.
  destruct s as [sc h rq fr pa spv]. unfold sync. cbn.
  destruct spv as [[|p l]|]; try reflexivity. destruct rq as [|c q]; [|reflexivity].
  cbn. destruct (serialize (p :: l)); reflexivity.
Qed.
Transparent serialize.

End WithOracles.

(* ================= host side ================= *)
Lemma last_colon_app x d : d <> [] -> all_digits d = true -> last_colon (x ++ 58 :: d) = Some (x, d).
Proof.
  intros Hd Hdig.
  assert (Hn : last_colon d = None).
  { clear Hd. induction d as [|c r IH]; [reflexivity|]. cbn in Hdig. apply andb_true_iff in Hdig as [Hc Hr].
    cbn. rewrite (IH Hr). unfold is_digit in Hc. destruct (c =? 58) eqn:E; [apply Z.eqb_eq in E; subst; discriminate|reflexivity]. }
  induction x as [|c r IH]; cbn.
  - rewrite Hn. reflexivity.
  - rewrite IH. reflexivity.
Qed.

Lemma last_colon_split h a p : last_colon h = Some (a, p) -> h = a ++ 58 :: p.
Proof.
  revert a p. induction h as [|c r IH]; cbn; [discriminate|]. intros a p.
  destruct (last_colon r) as [[a' p']|] eqn:E.
  - intro H; inversion H; subst. cbn. f_equal. apply IH. reflexivity.
  - destruct (c =? 58) eqn:Ec; [|discriminate]. intro H; inversion H; subst. apply Z.eqb_eq in Ec. subst. reflexivity.
Qed.

(* host is hostname plus ':' + port when a port is present (bracketed IPv6 literals included: the brackets stay) *)
Theorem host_is_hostname_port h :
  (port_of h <> [] -> h = host_without_port h ++ 58 :: port_of h) /\
  (port_of h = [] -> h = host_without_port h \/ h = host_without_port h ++ [58]).
Proof.
  unfold port_of, host_without_port. destruct (last_colon h) as [[a p]|] eqn:E.
  - pose proof (last_colon_split _ _ _ E) as Hs. destruct (all_digits p) eqn:D.
    + split; [intros _; exact Hs|]. intro Hp. subst p. right. exact Hs.
    + split; [intro H; contradiction H; reflexivity|left; reflexivity].
  - split; [intro H; contradiction H; reflexivity|left; reflexivity].
Qed.

Lemma port_of_app x d : d <> [] -> all_digits d = true -> port_of (x ++ 58 :: d) = d /\ host_without_port (x ++ 58 :: d) = x.
Proof. intros Hd Hg. unfold port_of, host_without_port. rewrite (last_colon_app x d Hd Hg), Hg. auto. Qed.

Lemma port_of_digits h : all_digits (port_of h) = true.
Proof. unfold port_of. destruct (last_colon h) as [[a p]|]; [destruct (all_digits p) eqn:D; [exact D|reflexivity]|reflexivity]. Qed.

(* a name part with no port-like suffix and no trailing ':' of its own: ordinary names and bracketed IPv6 literals *)
Definition plain (x : zs) : Prop := port_of x = [] /\ host_without_port x = x.

Lemma no_colon_plain v : existsb (Z.eqb 58) v = false -> plain v.
Proof.
  intro H. assert (Hn : last_colon v = None).
  { induction v as [|c r IH]; [reflexivity|]. cbn in H. apply orb_false_iff in H as [Hc Hr]. cbn. rewrite (IH Hr).
    destruct (c =? 58) eqn:Ec; [apply Z.eqb_eq in Ec; subst; discriminate Hc|reflexivity]. }
  unfold plain, port_of, host_without_port. rewrite Hn. auto.
Qed.

Definition no_default (sc h : zs) : Prop := port_of h = [] \/ is_default_port sc (num_of (port_of h)) = false.
(* stored hosts: the name part is plain, a host without port has no dangling ':', the port is never the scheme's default *)
Definition host_inv (sc h : zs) : Prop :=
  plain (host_without_port h) /\ (port_of h = [] -> host_without_port h = h) /\ no_default sc h.

Lemma host_inv_plain sc x : plain x -> host_inv sc x.
Proof. intros [Hp Hh]. unfold host_inv, no_default. rewrite Hh. split; [split; assumption|]. split; [auto|left; exact Hp]. Qed.

Lemma host_inv_with_port sc x d : plain x -> d <> [] -> all_digits d = true -> is_default_port sc (num_of d) = false ->
  host_inv sc (x ++ 58 :: d).
Proof.
  intros Hx Hd Hg Hn. destruct (port_of_app x d Hd Hg) as [Hp Hh]. unfold host_inv, no_default. rewrite Hp, Hh.
  split; [exact Hx|]. split; [intro; contradiction|right; exact Hn].
Qed.

Lemma clear_port_inv sc h : plain (host_without_port h) -> host_inv sc (clear_port h).
Proof. intro H. apply host_inv_plain. exact H. Qed.

Lemma drop_default_inv sc h : plain (host_without_port h) -> host_inv sc (drop_default_port sc h).
Proof.
  intro Hp. unfold drop_default_port. destruct (port_of h) as [|c p] eqn:E; [apply clear_port_inv; exact Hp|].
  destruct (negb (atoi_ok (c :: p)) || is_default_port sc (num_of (c :: p))) eqn:D; [apply clear_port_inv; exact Hp|].
  apply orb_false_iff in D as [_ D]. unfold host_inv, no_default. rewrite E. split; [exact Hp|]. split; [discriminate|right; exact D].
Qed.

Section HostHistories.
Variable parse_url : zs -> option (zs * zs * zs * zs * zs).
Variable host_ok : zs -> zs -> bool.
Variable lower : zs -> zs.
Variable norm_host : zs -> option zs.
Variable clean_path : zs -> zs -> zs.
(* what is assumed of the oracles: an accepted host has a plain name part; lower-casing and punycode keep it plain *)
Hypothesis host_ok_plain : forall sc v, host_ok sc v = true -> plain (host_without_port v).
Hypothesis parse_plain : forall v sc h q f p, parse_url v = Some (sc, h, q, f, p) -> plain (host_without_port h).
Hypothesis lower_plain : forall x, plain x -> plain (lower x).
Hypothesis norm_plain : forall x ch, norm_host x = Some ch -> plain x -> plain ch.

Notation ustep := (ustep parse_url host_ok lower norm_host clean_path).
Notation urun := (urun parse_url host_ok lower norm_host clean_path).

Lemma fix_host_inv sc h h' : host_inv sc h -> fix_host lower norm_host sc h = Some h' -> host_inv sc h'.
Proof.
  intros I. unfold fix_host. destruct (is_special_net sc); [|intro H; inversion H; subst; exact I].
  set (hn := host_without_port h) in *. destruct I as (Ip & Iq & Ind). pose proof (lower_plain _ Ip) as Hl. fold hn in Hl.
  assert (G : forall ch, plain ch ->
     host_inv sc (if zs_eqb ch hn then h else match port_of h with [] => ch | p => ch ++ 58 :: p end)).
  { intros ch Hch. destruct (zs_eqb ch hn); [split; [exact Ip|split; assumption]|].
    destruct (port_of h) as [|c p] eqn:E; [apply host_inv_plain; exact Hch|].
    apply host_inv_with_port; [exact Hch|discriminate|rewrite <- E; apply port_of_digits|].
    unfold no_default in Ind; rewrite ?E in Ind; destruct Ind as [Ind|Ind]; [discriminate Ind|exact Ind]. }
  destruct (match lower hn with 91 :: _ => true | _ => false end).
  - intro H; inversion H; subst. apply G. exact Hl.
  - destruct (norm_host (lower hn)) as [ch|] eqn:N; [|discriminate]. intro H; inversion H; subst. apply G. eapply norm_plain; eauto.
Qed.

Definition HostInv (s : ustate) : Prop := host_inv (scheme s) (host s).
Definition wf_portarg (a : portarg) : Prop := match a with PNum d => d <> [] /\ all_digits d = true | _ => True end.
Definition wf_op (o : uop) : Prop := match o with OPort a => wf_portarg a | _ => True end.

Lemma ustep_host s o : wf_op o -> HostInv s -> HostInv (ustep s o).
Proof.
  intros W I. unfold HostInv in *.
  assert (M : forall f, host_inv (scheme (mutate s f)) (host (mutate s f))).
  { intro f. unfold mutate, materialise. destruct (sp s) eqn:E; cbn; rewrite ?E; cbn; exact I. }
  destruct o; cbn [UrlObject.ustep]; try apply M.
  - (* search *) unfold set_search. destruct (sp s); exact I.
  - (* href *) unfold set_href. destruct (parse_url v) as [[[[[sc h] q] f] p]|] eqn:P; [|exact I].
    destruct (match sc with [] => true | _ => false end); [exact I|]. destruct (_ && _); [exact I|].
    destruct (fix_host lower norm_host sc (drop_default_port sc h)) as [h'|] eqn:F; [|exact I].
    assert (H : host_inv sc h') by (eapply fix_host_inv; [apply drop_default_inv; eapply parse_plain; eauto|exact F]).
    destruct (sp s); exact H.
  - (* materialise *) unfold materialise. destruct (sp s); exact I.
  - (* port *) unfold set_port. destruct (zs_eqb (scheme s) s_file); [exact I|]. destruct I as (Ip & Iq & Ind).
    destruct a as [| |d].
    + change (host_inv (scheme s) (clear_port (host s))). apply clear_port_inv; exact Ip.
    + split; [exact Ip|split; assumption].
    + destruct W as [Wd Wg]. destruct (is_default_port (scheme s) (num_of d)) eqn:D.
      * change (host_inv (scheme s) (clear_port (host s))). apply clear_port_inv; exact Ip.
      * change (host_inv (scheme s) (host_without_port (host s) ++ 58 :: d)). apply host_inv_with_port; assumption.
  - (* protocol *) unfold set_protocol. destruct (negb (valid_scheme p)); [exact I|]. destruct (_ && _); [|exact I].
    pose proof (drop_default_inv p (host s) (proj1 I)) as D.
    destruct (fix_host lower norm_host p (drop_default_port p (host s))) as [h2|] eqn:F; cbn; [eapply fix_host_inv; eauto|exact I].
  - (* host *) unfold set_host. destruct (host_ok (scheme s) v) eqn:K; [|exact I].
    pose proof (drop_default_inv (scheme s) v (host_ok_plain _ _ K)) as D.
    destruct (fix_host lower norm_host (scheme s) (drop_default_port (scheme s) v)) as [h2|] eqn:F; cbn; [eapply fix_host_inv; eauto|exact I].
  - (* hostname *) unfold set_hostname. destruct (existsb (Z.eqb 58) v) eqn:C; [exact I|].
    destruct (host_ok (scheme s) v) eqn:K; [|exact I]. pose proof (no_colon_plain v C) as Pv. destruct I as (Ip & Iq & Ind).
    assert (D : host_inv (scheme s) match port_of (host s) with [] => v | p => v ++ 58 :: p end).
    { destruct (port_of (host s)) as [|c p] eqn:E; [apply host_inv_plain; exact Pv|].
      apply host_inv_with_port; [exact Pv|discriminate|rewrite <- E; apply port_of_digits|unfold no_default in Ind; rewrite ?E in Ind; destruct Ind as [Ind|Ind]; [discriminate Ind|exact Ind]]. }
    destruct (fix_host lower norm_host (scheme s) _) as [h2|] eqn:F; cbn; [eapply fix_host_inv; eauto|split; [exact Ip|split; [exact Iq|exact Ind]]].
  - (* hash *) exact I.
  - (* pathname *) exact I.
  - (* username / password *) exact I.
Qed.

Theorem urun_host ops : forall s, Forall wf_op ops -> HostInv s -> HostInv (urun s ops).
Proof.
  induction ops as [|o r IH]; cbn; intros s W I; [exact I|]. inversion W; subst. apply IH; [assumption|]. apply ustep_host; assumption.
Qed.

(* the default port of the current scheme is never shown, and host = hostname [':' port], after every history *)
Theorem default_port_never_shown ops s : Forall wf_op ops -> HostInv s ->
  let s' := urun s ops in
  (get_port s' = [] \/ is_default_port (scheme s') (num_of (get_port s')) = false) /\
  (get_port s' = [] -> get_host s' = get_hostname s') /\
  (get_port s' <> [] -> get_host s' = get_hostname s' ++ 58 :: get_port s').
Proof.
  intros W I s'. pose proof (urun_host ops s W I) as (Hp & Hq & Hn). fold s' in Hp, Hq, Hn.
  unfold get_port, get_host, get_hostname. split; [exact Hn|]. split.
  - intro E. symmetry. apply Hq. exact E.
  - apply (proj1 (host_is_hostname_port (host s'))).
Qed.

End HostHistories.

(* ---- assignments take effect: what is read right after search, href or searchParams was changed ---- *)
Definition show_query (q : zs) : zs := match q with [] => [] | _ => 63 :: q end.

Lemma parse_raw_nil : parse_raw [] = [].
Proof. reflexivity. Qed.

(* right after url.search = v: search is '' or '?' + the assigned query (leading '?' removed, escaped as fixRawQuery does), and
   searchParams - whether the object was handed out before or is obtained now - lists exactly its pairs; nothing of the
   previous query or list survives, whatever state a searchParams change had left the lazy marker in *)
Theorem search_assignment_takes_effect s v :
  let q := fix_raw_query (trim_q v) in
  get_search (set_search s v) = show_query q /\ get_params (set_search s v) = parse_raw q /\
  scheme (set_search s v) = scheme s /\ host (set_search s v) = host s /\ fragment (set_search s v) = fragment s /\ upath (set_search s v) = upath s.
Proof.
  intro q. unfold set_search. fold q. generalize q. clear q. intro q.
  assert (N : q = [] -> parse_raw q = []) by (intros ->; reflexivity).
  remember (parse_raw q) as P eqn:HP.
  destruct (sp s) as [l|] eqn:E.
  - unfold get_search, sync, get_params, materialise. cbn [sp rawquery scheme host fragment upath set].
    destruct q as [|c q']; [rewrite (N eq_refl)|]; cbn.
    + repeat split; reflexivity.
    + destruct P; repeat split; reflexivity.
  - unfold get_search, sync, get_params, materialise. cbn. rewrite E. cbn. destruct q; repeat split; try reflexivity. all: symmetry; exact HP.
Qed.

(* right after a searchParams change f (append, delete, set, sort): searchParams lists f of what it listed, and search (hence
   href, which prints the same synchronised url.URL) shows exactly that list re-encoded *)
Local Opaque serialize parse_raw.
Theorem params_change_takes_effect s f :
  get_params (mutate s f) = f (get_params s) /\
  get_search (mutate s f) = show_query (match f (get_params s) with [] => [] | l => serialize l end).
Proof.
  unfold mutate. destruct (sp s) as [l|] eqn:E.
  - assert (M : materialise s = s) by (unfold materialise; rewrite E; reflexivity). rewrite M, E.
    assert (G : get_params s = l) by (unfold get_params; rewrite M, E; reflexivity). rewrite G.
    remember (f l) as fl eqn:F. clear F. split.
    + unfold get_params, materialise. cbn. reflexivity.
    + unfold get_search, sync. cbn. destruct fl as [|p r]; cbn; [reflexivity|]. destruct (serialize (p :: r)); reflexivity.
  - assert (M : sp (materialise s) = Some (parse_raw (rawquery s))) by (unfold materialise; rewrite E; reflexivity). rewrite M.
    assert (G : get_params s = parse_raw (rawquery s)) by (unfold get_params; rewrite M; reflexivity). rewrite G.
    remember (f (parse_raw (rawquery s))) as fl eqn:F. clear F. split.
    + unfold get_params, materialise. cbn. reflexivity.
    + unfold get_search, sync. cbn. destruct fl as [|p r]; cbn; [reflexivity|]. destruct (serialize (p :: r)); reflexivity.
Qed.

(* right after url.href = v was accepted (no throw): scheme, fragment and query are those of v as net/url parses it; search
   shows that query and searchParams - handed out before or obtained now - lists exactly its pairs *)
Theorem href_assignment_takes_effect parse_url lower norm_host clean_path s v s' :
  set_href parse_url lower norm_host clean_path s v = Some s' ->
  exists sc h0 q0 f p0, parse_url v = Some (sc, h0, q0, f, p0) /\ scheme s' = sc /\ fragment s' = f /\
    get_search s' = show_query (fix_raw_query q0) /\ get_params s' = parse_raw (fix_raw_query q0).
Proof.
  unfold set_href. destruct (parse_url v) as [[[[[sc h0] q0] f] p0]|] eqn:P; [|discriminate].
  destruct sc as [|c sc']; [discriminate|]. cbv beta iota.
  destruct (is_special_net (c :: sc') && match h0, p0 with [], [] => true | _, _ => false end); [discriminate|].
  destruct (fix_host lower norm_host (c :: sc') (drop_default_port (c :: sc') h0)) as [h|]; [|discriminate].
  intro H. injection H as <-. exists (c :: sc'), h0, q0, f, p0. split; [reflexivity|].
  remember (fix_raw_query q0) as q eqn:Q. clear Q.
  assert (N : q = [] -> parse_raw q = []) by (intros ->; reflexivity).
  remember (parse_raw q) as PL eqn:HP.
  destruct (sp s) as [l|] eqn:E.
  - unfold get_search, sync, get_params, materialise. cbn. destruct q as [|z q']; [rewrite (N eq_refl)|]; cbn.
    + repeat split; reflexivity.
    + destruct PL; repeat split; reflexivity.
  - unfold get_search, sync, get_params, materialise. cbn. rewrite E. cbn. destruct q; repeat split; try reflexivity. all: symmetry; exact HP.
Qed.
Local Transparent serialize parse_raw.

(* an assignment that throws stores nothing: host, hostname and protocol setters (a host that cannot be normalised - an invalid
   punycode label - after it passed the syntactic check) and the href setter (an unparsable URL) leave the state as it was *)
Theorem throwing_assignment_stores_nothing host_ok lower norm_host clean_path s v :
  (snd (set_host host_ok lower norm_host clean_path s v) = true -> fst (set_host host_ok lower norm_host clean_path s v) = s) /\
  (snd (set_hostname host_ok lower norm_host clean_path s v) = true -> fst (set_hostname host_ok lower norm_host clean_path s v) = s) /\
  (snd (set_protocol host_ok lower norm_host clean_path s v) = true -> fst (set_protocol host_ok lower norm_host clean_path s v) = s).
Proof.
  unfold set_host, set_hostname, set_protocol. repeat split.
  - destruct (host_ok (scheme s) v); [|discriminate]. destruct (fix_host _ _ _ _); [discriminate|reflexivity].
  - destruct (existsb _ _); [discriminate|]. destruct (host_ok (scheme s) v); [|discriminate]. destruct (fix_host _ _ _ _); [discriminate|reflexivity].
  - destruct (negb (valid_scheme v)); [discriminate|]. destruct (_ && _); [|discriminate]. destruct (fix_host _ _ _ _); [discriminate|reflexivity].
Qed.

(* the protocol setter never stores something that is not a scheme ('/', '', '1x', 'h ttp') *)
Theorem protocol_needs_a_scheme host_ok lower norm_host clean_path s p :
  valid_scheme p = false -> set_protocol host_ok lower norm_host clean_path s p = (s, false).
Proof. intro H. unfold set_protocol. rewrite H. reflexivity. Qed.
