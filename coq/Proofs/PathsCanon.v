(* Proofs/PathsCanon.v — the path representation is canonical: what parse / pjoin / pdir produce is "clean", and a clean path
   is recovered from its rendering (parse (render p) = p). Hence the rendered string identifies the path: the candidates that
   resolve() derives from the string p are those of the structured path. *)
From GN Require Import Common.Base Model.Paths.
Open Scope Z_scope.

Definition no_slash (s : zs) : Prop := ~ In 47 s.
Definition clean_seg (s : zs) : Prop := s <> [] /\ s <> dot /\ no_slash s.

(* ".." only as a prefix of a non-rooted path *)
Fixpoint dd_prefix_ok (l : list zs) : Prop :=
  match l with
  | [] => True
  | s :: r => if zs_eqb s dotdot then dd_prefix_ok r else Forall (fun x => x <> dotdot) r
  end.

Definition clean (p : path) : Prop :=
  Forall clean_seg (segs p) /\ (if rooted p then Forall (fun x => x <> dotdot) (segs p) else dd_prefix_ok (segs p)).

(* ---- split_slash / join_slash ---- *)
Lemma split_no_slash s : no_slash s -> split_slash s = [s].
Proof.
  induction s as [|c s IH]; intro H; [reflexivity|]. cbn [split_slash].
  destruct (c =? 47) eqn:E; [exfalso; apply H; left; apply Z.eqb_eq; exact E|].
  rewrite IH; [reflexivity|]. intro Hin. apply H. right. exact Hin.
Qed.

Lemma split_app_slash x rest : no_slash x -> split_slash (x ++ 47 :: rest) = x :: split_slash rest.
Proof.
  induction x as [|c x IH]; intro H; cbn [app split_slash].
  - reflexivity.
  - destruct (c =? 47) eqn:E; [exfalso; apply H; left; apply Z.eqb_eq; exact E|].
    rewrite IH; [reflexivity|]. intro Hin. apply H. right. exact Hin.
Qed.

Lemma split_join l : l <> [] -> Forall no_slash l -> split_slash (join_slash l) = l.
Proof.
  induction l as [|x l IH]; intros Hne Hf; [contradiction|].
  inversion Hf as [|? ? Hx Hl]; subst. destruct l as [|y l].
  - cbn [join_slash]. apply split_no_slash. exact Hx.
  - change (join_slash (x :: y :: l)) with (x ++ 47 :: join_slash (y :: l)).
    rewrite split_app_slash by exact Hx. rewrite IH; [reflexivity|discriminate|exact Hl].
Qed.

Lemma split_all_no_slash s : Forall no_slash (split_slash s).
Proof.
  induction s as [|c s IH]; cbn [split_slash].
  - constructor; [intros []|constructor].
  - destruct (c =? 47) eqn:E.
    + constructor; [intros []|exact IH].
    + destruct (split_slash s) as [|h t] eqn:Es.
      * constructor; [|constructor]. intros [H|[]]. subst. rewrite Z.eqb_refl in E. discriminate.
      * inversion IH as [|? ? Hh Ht]; subst. constructor; [|exact Ht].
        intros [H|H]; [subst; rewrite Z.eqb_refl in E; discriminate|apply Hh; exact H].
Qed.

(* ---- norm_segs ---- *)
Definition is_dd (s : zs) : Prop := s = dotdot.

Lemma zs_eqb_false a b : zs_eqb a b = false -> a <> b.
Proof. intros H E. subst. rewrite zs_eqb_refl in H. discriminate. Qed.

(* the stack invariant: rev acc is a clean segment list for the given rootedness *)
Definition clean_list (rooted : bool) (l : list zs) : Prop :=
  Forall clean_seg l /\ (if rooted then Forall (fun x => x <> dotdot) l else dd_prefix_ok l).

Lemma dotdot_clean_seg : clean_seg dotdot.
Proof. repeat split; try discriminate. intros [H|[H|[]]]; discriminate. Qed.

Lemma dd_prefix_snoc_dd l : Forall is_dd l -> dd_prefix_ok (l ++ [dotdot]).
Proof.
  induction l as [|x l IH]; intro H; cbn.
  - exact I.
  - inversion H as [|? ? Hx Hl]; subst. unfold is_dd in Hx. subst x. cbn. apply IH. exact Hl.
Qed.

Lemma dd_prefix_snoc l s : dd_prefix_ok l -> s <> dotdot -> dd_prefix_ok (l ++ [s]).
Proof.
  induction l as [|x l IH]; intros H Hs; cbn.
  - destruct (zs_eqb s dotdot) eqn:E; [apply zs_eqb_eq in E; contradiction|constructor].
  - cbn in H. destruct (zs_eqb x dotdot); [apply IH; assumption|].
    apply Forall_app. split; [exact H|constructor; [exact Hs|constructor]].
Qed.

Lemma dd_prefix_removelast l x : dd_prefix_ok (l ++ [x]) -> dd_prefix_ok l.
Proof.
  induction l as [|y l IH]; intro H; cbn in *; [exact I|].
  destruct (zs_eqb y dotdot); [apply IH; exact H|]. apply Forall_app in H. exact (proj1 H).
Qed.

(* if the last element of a dd-prefixed list is "..", the whole list is ".."s *)
Lemma dd_prefix_last_dd l : dd_prefix_ok (l ++ [dotdot]) -> Forall is_dd l.
Proof.
  induction l as [|y l IH]; intro H; cbn in *; [constructor|].
  destruct (zs_eqb y dotdot) eqn:E.
  - constructor; [apply zs_eqb_eq; exact E|apply IH; exact H].
  - apply Forall_app in H. destruct H as [_ H]. inversion H as [|? ? Hx _]; subst. contradiction Hx. reflexivity.
Qed.

Lemma norm_segs_clean rooted l : forall acc, Forall no_slash l -> clean_list rooted (rev acc) -> clean_list rooted (norm_segs rooted acc l).
Proof.
  induction l as [|s l IH]; intros acc Hl Hacc; cbn [norm_segs]; [exact Hacc|].
  inversion Hl as [|? ? Hs Hl']; subst.
  destruct (zs_eqb s [] || zs_eqb s dot) eqn:E1; [apply IH; assumption|].
  apply Bool.orb_false_iff in E1 as [Ee Ed]. apply zs_eqb_false in Ee. apply zs_eqb_false in Ed.
  assert (Hcs : clean_seg s) by (repeat split; assumption).
  destruct (zs_eqb s dotdot) eqn:E2.
  - apply zs_eqb_eq in E2. subst s. destruct acc as [|top acc'].
    + destruct rooted; [apply IH; assumption|]. apply IH; [exact Hl'|]. cbn. split; [constructor; [exact Hcs|constructor]|exact I].
    + destruct (zs_eqb top dotdot) eqn:E3.
      * apply zs_eqb_eq in E3. subst top. apply IH; [exact Hl'|].
        cbn [rev] in *. destruct Hacc as [Hf Hd]. split.
        -- apply Forall_app. split; [exact Hf|constructor; [exact Hcs|constructor]].
        -- destruct rooted.
           ++ apply Forall_app in Hd. destruct Hd as [_ Hd]. inversion Hd as [|? ? Hx _]; subst. contradiction Hx. reflexivity.
           ++ change (rev acc' ++ [dotdot] ++ [dotdot]) with (rev acc' ++ [dotdot] ++ [dotdot]).
              rewrite <- app_assoc in *. cbn [app]. pose proof (dd_prefix_last_dd _ Hd) as Hall.
              replace (rev acc' ++ [dotdot; dotdot]) with ((rev acc' ++ [dotdot]) ++ [dotdot]) by (rewrite <- app_assoc; reflexivity).
              apply dd_prefix_snoc_dd. apply Forall_app. split; [exact Hall|constructor; [reflexivity|constructor]].
      * apply IH; [exact Hl'|]. cbn [rev] in Hacc. destruct Hacc as [Hf Hd]. apply Forall_app in Hf. split; [exact (proj1 Hf)|].
        destruct rooted; [apply Forall_app in Hd; exact (proj1 Hd)|eapply dd_prefix_removelast; exact Hd].
  - apply zs_eqb_false in E2. apply IH; [exact Hl'|]. cbn [rev]. destruct Hacc as [Hf Hd]. split.
    + apply Forall_app. split; [exact Hf|constructor; [exact Hcs|constructor]].
    + destruct rooted; [apply Forall_app; split; [exact Hd|constructor; [exact E2|constructor]]|apply dd_prefix_snoc; assumption].
Qed.

(* on an already clean continuation the stack machine only pushes *)
Lemma norm_segs_id rooted l : forall acc, clean_list rooted (rev acc ++ l) -> norm_segs rooted acc l = rev acc ++ l.
Proof.
  induction l as [|s l IH]; intros acc H; cbn [norm_segs]; [rewrite app_nil_r; reflexivity|].
  destruct H as [Hf Hd]. pose proof Hf as Hf0. apply Forall_app in Hf0. destruct Hf0 as [_ Hsl]. inversion Hsl as [|? ? Hs _]; subst.
  destruct Hs as (Hne & Hnd & Hns).
  destruct (zs_eqb s []) eqn:Ee; [apply zs_eqb_eq in Ee; contradiction|].
  destruct (zs_eqb s dot) eqn:Ed; [apply zs_eqb_eq in Ed; contradiction|]. cbn [orb].
  assert (Hnext : norm_segs rooted (s :: acc) l = rev acc ++ s :: l).
  { rewrite IH; [cbn [rev]; rewrite <- app_assoc; reflexivity|]. cbn [rev]. rewrite <- app_assoc. split; assumption. }
  destruct (zs_eqb s dotdot) eqn:E2; [|exact Hnext].
  apply zs_eqb_eq in E2. subst s. destruct rooted.
  - exfalso. apply Forall_app in Hd. destruct Hd as [_ Hd]. inversion Hd as [|? ? Hx _]; subst. apply Hx. reflexivity.
  - assert (Hall : Forall is_dd (rev acc)).
    { apply dd_prefix_last_dd. replace (rev acc ++ dotdot :: l) with ((rev acc ++ [dotdot]) ++ l) in Hd by (rewrite <- app_assoc; reflexivity).
      clear -Hd. revert Hd. generalize (rev acc ++ [dotdot]). intros a. induction a as [|y a IHa]; intro H; cbn in *; [exact I|].
      destruct (zs_eqb y dotdot); [apply IHa; exact H|]. apply Forall_app in H. exact (proj1 H). }
    destruct acc as [|top acc']; [exact Hnext|].
    cbn [rev] in Hall. apply Forall_app in Hall. destruct Hall as [_ Ht]. inversion Ht as [|? ? Htop _]; subst. unfold is_dd in Htop. subst top.
    rewrite zs_eqb_refl. exact Hnext.
Qed.

(* ---- parse / render ---- *)
Lemma clean_parse s : clean (parse s).
Proof.
  unfold clean, parse. cbn [segs rooted]. apply (norm_segs_clean (is_abs s) (split_slash s) []); [apply split_all_no_slash|].
  cbn. split; [constructor|]. destruct (is_abs s); [constructor|exact I].
Qed.

Lemma clean_pjoin b rel : clean b -> clean (pjoin (Some b) rel).
Proof.
  intro Hb. unfold pjoin. destruct rel as [|c rel]; [exact Hb|].
  unfold clean. cbn [segs rooted]. apply norm_segs_clean; [apply split_all_no_slash|]. rewrite rev_involutive. exact Hb.
Qed.

Lemma first_not_slash l : Forall clean_seg l -> l <> [] -> is_abs (join_slash l) = false.
Proof.
  intros Hf Hne. destruct l as [|x l]; [contradiction|]. inversion Hf as [|? ? Hx _]; subst. destruct Hx as (Hxe & _ & Hxs).
  destruct x as [|c x]; [contradiction|].
  assert (Hc : c <> 47) by (intro; subst; apply Hxs; left; reflexivity).
  destruct l; cbn [join_slash app is_abs]; destruct c; try reflexivity; destruct p; try reflexivity;
    repeat (destruct p; try reflexivity); contradiction Hc; reflexivity.
Qed.

Theorem parse_render p : clean p -> parse (render p) = p.
Proof.
  destruct p as [r sg]. intros [Hf Hd]. cbn [segs rooted] in *.
  assert (Hns : Forall no_slash sg) by (eapply Forall_impl; [|exact Hf]; intros a (_ & _ & H); exact H).
  unfold render, parse. cbn [rooted segs]. destruct r.
  - cbn [is_abs]. f_equal. cbn [split_slash]. rewrite Z.eqb_refl. cbn [norm_segs]. rewrite zs_eqb_refl. cbn [orb].
    destruct sg as [|x sg']; [reflexivity|]. rewrite split_join; [|discriminate|exact Hns].
    apply (norm_segs_id true (x :: sg') []). cbn. split; assumption.
  - destruct sg as [|x sg']; [reflexivity|].
    rewrite (first_not_slash (x :: sg') Hf) by discriminate. f_equal.
    rewrite split_join; [|discriminate|exact Hns]. apply (norm_segs_id false (x :: sg') []). cbn [rev app]. split; assumption.
Qed.

Lemma clean_pdir p : clean p -> clean (pdir p).
Proof.
  destruct p as [r sg]. intros [Hf Hd]. unfold pdir. cbn [segs rooted] in *.
  destruct (rev sg) as [|last rs] eqn:E; [split; assumption|].
  assert (Hsg : sg = rev rs ++ [last]) by (rewrite <- (rev_involutive sg), E; reflexivity).
  subst sg. apply Forall_app in Hf. destruct Hf as [Hf _].
  destruct r.
  - split; cbn [segs rooted]; [exact Hf|]. apply Forall_app in Hd. exact (proj1 Hd).
  - destruct rs as [|y rs']; [split; cbn; [constructor|exact I]|]. split; cbn [segs rooted]; [exact Hf|]. eapply dd_prefix_removelast. exact Hd.
Qed.
