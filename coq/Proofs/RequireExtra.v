(* Proofs/RequireExtra.v — consequences read off the definitions: cycles, throws, native names *)
From GN Require Import Common.Base Model.Paths Model.Require Proofs.RequireInv.
Open Scope Z_scope.

Section X.
Variable fs : fsys.
Variable nat_reg : natives.
Variable rq : rstate -> path -> zs -> rstate * res.

(* a file that is cached — complete, or still being evaluated (a cycle) — is not evaluated again: the same module
   comes back and nothing in the state changes *)
Lemma cached_not_reentered st p m :
  cache_get (files_cache st) (render p) = Some m -> load_module fs rq st p = (st, ROk m).
Proof. intro H. unfold load_module. rewrite H. reflexivity. Qed.

(* the body: a thrown value passes through every un-caught require unchanged *)
Lemma run_body_never_none prog : forall st m file, snd (run_body rq st m file prog) <> RNone.
Proof.
  induction prog as [|i prog IH]; intros st m file; cbn [run_body]; [discriminate|].
  destruct i as [|k v|r catch|t|r|t]; try apply IH; [|discriminate|].
  - destruct (rq st (pdir (parse file)) r) as [st1 x].
    destruct x; cbn [snd]; try apply IH; try (destruct catch; [apply IH|cbn [snd]; discriminate]). discriminate.
  - destruct (rq st (pdir (parse file)) t) as [st1 x].
    destruct x as [m'| | | |]; cbn [snd]; try apply IH; [|discriminate].
    destruct (owner_file (log_event st1 file t (outcome_of st1 (ROk m'))) m') as [f'|]; [|apply IH].
    destruct (run_lazies rq (log_event st1 file t (outcome_of st1 (ROk m'))) f' (lazies_of (log_event st1 file t (outcome_of st1 (ROk m'))) m')) as [st3 oof].
    destruct oof; [cbn [snd]; discriminate|apply IH].
Qed.

Lemma throw_passes_uncaught st m file r rest st1 t :
  rq st (pdir (parse file)) r = (st1, RThrown t) ->
  snd (run_body rq st m file (IReq r false :: rest)) = RThrown t.
Proof. intro H. cbn [run_body]. rewrite H. reflexivity. Qed.

Lemma throw_instr st m file t rest : run_body rq st m file (IThrow t :: rest) = (st, RThrown t).
Proof. reflexivity. Qed.

(* try_cands / resolve hand a failure of the selected module to the caller as it is *)
Lemma try_cands_failure st p rest st1 r :
  load_module fs rq st p = (st1, r) -> r <> RNone -> try_cands fs rq st (CMod p :: rest) = (st1, r).
Proof. intros H Hn. cbn [try_cands]. rewrite H. destruct r; try reflexivity. contradiction. Qed.

End X.

(* ---- native / core names (C15): what load_native yields depends on the registrations and the name only ---- *)
Definition native_choice (nat_reg : natives) (name : zs) : option (zs * nkind) + unit :=
  (* inl (Some (n, k)): the loader registered for n of kind k ; inl None: No such built-in module ; inr: not a native name *)
  let stripped := skipn (length node_prefix) name in
  if mem_zs name (n_registry nat_reg) then inl (Some (name, NRegistry))
  else if mem_zs name (n_global nat_reg) then inl (Some (name, NGlobal))
  else if mem_zs name (n_core nat_reg) then inl (Some (name, NCore))
  else if has_prefix node_prefix name then
    (if mem_zs stripped (n_core nat_reg) then inl (Some (stripped, NCore)) else inl None)
  else inr tt.

Definition native_owner (st : rstate) (m : nat) : option (zs * nkind) :=
  match nth_error (store st) m with
  | Some r => match m_owner r with ONative n k => Some (n, k) | OFile _ => None end
  | None => None
  end.

(* native cache entries always hold the implementation the registrations prescribe for that name *)
Definition NInv (nat_reg : natives) (st : rstate) : Prop :=
  forall name m, cache_get (native_cache st) name = Some m ->
    exists nk, native_choice nat_reg name = inl (Some nk) /\ native_owner st m = Some nk.

Lemma native_owner_new st o : native_owner (fst (new_module st o)) (length (store st)) = match o with ONative n k => Some (n, k) | _ => None end.
Proof. unfold native_owner. cbn. rewrite nth_error_app2 by lia. rewrite Nat.sub_diag. cbn. reflexivity. Qed.

Lemma native_owner_old st o m : (m < length (store st))%nat -> native_owner (fst (new_module st o)) m = native_owner st m.
Proof. intro H. unfold native_owner. cbn. rewrite nth_error_app1 by exact H. reflexivity. Qed.

Lemma native_owner_lt st m nk : native_owner st m = Some nk -> (m < length (store st))%nat.
Proof. unfold native_owner. destruct (nth_error (store st) m) eqn:E; [|discriminate]. intros _. apply nth_error_Some. congruence. Qed.

(* what a first (uncached) lookup returns *)
Theorem load_native_by_registration nat_reg st name :
  cache_get (native_cache st) name = None ->
  match native_choice nat_reg name, snd (load_native nat_reg st name) with
  | inl (Some nk), ROk m => native_owner (fst (load_native nat_reg st name)) m = Some nk
  | inl None, RErr 3 => True
  | inr _, RNone => True
  | _, _ => False
  end.
Proof.
  intro Hc. unfold load_native, native_choice. rewrite Hc.
  destruct (mem_zs name (n_registry nat_reg)).
  - cbn [snd fst]. unfold native_owner. cbn. rewrite nth_error_app2 by lia. rewrite Nat.sub_diag. reflexivity.
  - destruct (mem_zs name (n_global nat_reg)).
    + cbn [snd fst]. unfold native_owner. cbn. rewrite nth_error_app2 by lia. rewrite Nat.sub_diag. reflexivity.
    + destruct (mem_zs name (n_core nat_reg)).
      * cbn [snd fst]. unfold native_owner. cbn. rewrite nth_error_app2 by lia. rewrite Nat.sub_diag. reflexivity.
      * destruct (has_prefix node_prefix name); [|exact I].
        destruct (mem_zs (skipn (length node_prefix) name) (n_core nat_reg)); [|exact I].
        cbn [snd fst]. unfold native_owner. cbn. rewrite nth_error_app2 by lia. rewrite Nat.sub_diag. reflexivity.
Qed.

(* a cached lookup returns the cached object and runs nothing: repeated calls are identical, each loader runs once *)
Theorem load_native_cached nat_reg st name m :
  cache_get (native_cache st) name = Some m -> load_native nat_reg st name = (st, ROk m).
Proof. intro H. unfold load_native. rewrite H. reflexivity. Qed.

(* ---- NInv holds in every reachable state ---- *)
Definition NExt (st st' : rstate) : Prop := forall m nk, native_owner st m = Some nk -> native_owner st' m = Some nk.
Definition ngood (nat_reg : natives) (st st' : rstate) : Prop := NInv nat_reg st' /\ NExt st st'.

Lemma ngood_refl nr st : NInv nr st -> ngood nr st st.
Proof. intro H. split; [exact H|intros m nk Hm; exact Hm]. Qed.

Lemma ngood_trans nr a b c : ngood nr a b -> ngood nr b c -> ngood nr a c.
Proof. intros [_ E1] [I2 E2]. split; [exact I2|intros m nk H; apply E2, E1, H]. Qed.

(* steps that keep the native cache and every native owner *)
Definition nsame (st st' : rstate) : Prop := native_cache st' = native_cache st /\ NExt st st'.

Lemma nsame_ngood nr st st' : nsame st st' -> NInv nr st -> ngood nr st st'.
Proof.
  intros [Hc He] HI. split; [|exact He]. intros name m Hm. rewrite Hc in Hm.
  destruct (HI name m Hm) as (nk & H1 & H2). exists nk. split; [exact H1|apply He; exact H2].
Qed.

Lemma nsame_owner_eq st st' : native_cache st' = native_cache st -> (forall m, native_owner st' m = native_owner st m) -> nsame st st'.
Proof. intros Hc Ho. split; [exact Hc|intros m nk H; rewrite Ho; exact H]. Qed.

Lemma ns_log_load st p : nsame st (log_load st p). Proof. apply nsame_owner_eq; reflexivity. Qed.
Lemma ns_add_compiled st p : nsame st (add_compiled st p). Proof. apply nsame_owner_eq; reflexivity. Qed.
Lemma ns_log_event st a b c : nsame st (log_event st a b c). Proof. apply nsame_owner_eq; reflexivity. Qed.
Lemma ns_read_manifest fs st pk : nsame st (read_manifest fs st pk).
Proof.
  unfold read_manifest. destruct (mem_zs pk (compiled st)); [apply nsame_owner_eq; reflexivity|].
  destruct (fs_get fs pk) as [[]|]; apply nsame_owner_eq; reflexivity.
Qed.
Lemma ns_bump st f : nsame st (bump_counter st f). Proof. apply nsame_owner_eq; reflexivity. Qed.
Lemma ns_with_files st c : nsame st (with_files st c). Proof. apply nsame_owner_eq; reflexivity. Qed.
Lemma ns_with_node st c : nsame st (with_node st c). Proof. apply nsame_owner_eq; reflexivity. Qed.
Lemma ns_with_resolved st c : nsame st (with_resolved st c). Proof. apply nsame_owner_eq; reflexivity. Qed.
Lemma ns_forget st m ps : nsame st (forget st m ps). Proof. apply nsame_owner_eq; reflexivity. Qed.
Lemma ns_set_exp st m k v : nsame st (set_exp st m k v).
Proof.
  apply nsame_owner_eq; [reflexivity|]. intro j. unfold native_owner, set_exp. cbn. rewrite nth_upd_nth.
  destruct (Nat.eqb m j); [|reflexivity]. destruct (nth_error (store st) j); reflexivity.
Qed.
Lemma ns_add_lazy st m r : nsame st (add_lazy st m r).
Proof.
  apply nsame_owner_eq; [reflexivity|]. intro j. unfold native_owner, add_lazy. cbn. rewrite nth_upd_nth.
  destruct (Nat.eqb m j); [|reflexivity]. destruct (nth_error (store st) j); reflexivity.
Qed.
Lemma ns_new_module st o : nsame st (fst (new_module st o)).
Proof.
  split; [reflexivity|]. intros m nk H. rewrite native_owner_old; [exact H|]. eapply native_owner_lt. exact H.
Qed.

Lemma nsame_trans a b c : nsame a b -> nsame b c -> nsame a c.
Proof. intros [C1 E1] [C2 E2]. split; [congruence|intros m nk H; apply E2, E1, H]. Qed.

Definition wf_natives (nr : natives) : Prop :=
  (forall n, mem_zs n (n_registry nr) = true \/ mem_zs n (n_global nr) = true -> has_prefix node_prefix n = false) /\
  (forall c, mem_zs c (n_core nr) = true -> has_prefix node_prefix c = false -> mem_zs (node_prefix ++ c) (n_core nr) = false).

Lemma skipn_prefix (name : zs) : skipn (length node_prefix) (node_prefix ++ name) = name.
Proof. reflexivity. Qed.

Lemma has_prefix_app (name : zs) : has_prefix node_prefix (node_prefix ++ name) = true.
Proof. reflexivity. Qed.

Lemma load_native_ngood nr st name : wf_natives nr -> NInv nr st -> ngood nr st (fst (load_native nr st name)).
Proof.
  intros [Wn Wc] HI. unfold load_native.
  destruct (cache_get (native_cache st) name) eqn:Ec; [apply ngood_refl; exact HI|].
  (* a new module st1, cached under name (and possibly one alias) *)
  assert (Hadd : forall o c2 runs nk,
            (match o with ONative n k => Some (n, k) | _ => None end) = Some nk ->
            (forall nm m, cache_get c2 nm = Some m -> (m = length (store st) /\ native_choice nr nm = inl (Some nk)) \/ cache_get (native_cache st) nm = Some m) ->
            ngood nr st (with_native (fst (new_module st o)) c2 runs)).
  { intros o c2 runs nk Ho Hc2. split.
    - intros nm m Hm. cbn [native_cache with_native] in Hm. destruct (Hc2 nm m Hm) as [[-> Hch]|Hold].
      + exists nk. split; [exact Hch|]. unfold native_owner. cbn. rewrite nth_error_app2 by lia. rewrite Nat.sub_diag. cbn. exact Ho.
      + destruct (HI nm m Hold) as (nk' & H1 & H2). exists nk'. split; [exact H1|].
        change (native_owner (fst (new_module st o)) m = Some nk'). rewrite native_owner_old; [exact H2|eapply native_owner_lt; exact H2].
    - intros m nk' H. change (native_owner (fst (new_module st o)) m = Some nk'). rewrite native_owner_old; [exact H|eapply native_owner_lt; exact H]. }
  destruct (mem_zs name (n_registry nr)) eqn:Er.
  - cbn [fst]. apply (Hadd (ONative name NRegistry) _ _ (name, NRegistry) eq_refl).
    intros nm m Hm. cbn [native_cache] in Hm. rewrite RequireInv.get_set in Hm. destruct (zs_eqb nm name) eqn:E; [|right; exact Hm].
    apply zs_eqb_eq in E. subst nm. inversion Hm. left. split; [reflexivity|]. unfold native_choice. rewrite Er. reflexivity.
  - destruct (mem_zs name (n_global nr)) eqn:Eg.
    + cbn [fst]. apply (Hadd (ONative name NGlobal) _ _ (name, NGlobal) eq_refl).
      intros nm m Hm. cbn [native_cache] in Hm. rewrite RequireInv.get_set in Hm. destruct (zs_eqb nm name) eqn:E; [|right; exact Hm].
      apply zs_eqb_eq in E. subst nm. inversion Hm. left. split; [reflexivity|]. unfold native_choice. rewrite Er, Eg. reflexivity.
    + destruct (mem_zs name (n_core nr)) eqn:Ecore.
      * cbn [fst]. apply (Hadd (ONative name NCore) _ _ (name, NCore) eq_refl).
        intros nm m Hm. cbn [native_cache] in Hm.
        assert (Hdirect : native_choice nr name = inl (Some (name, NCore))) by (unfold native_choice; rewrite Er, Eg, Ecore; reflexivity).
        destruct (has_prefix node_prefix name) eqn:Ep.
        -- rewrite RequireInv.get_set in Hm. destruct (zs_eqb nm name) eqn:E; [|right; exact Hm].
           apply zs_eqb_eq in E. subst nm. inversion Hm. left. split; [reflexivity|exact Hdirect].
        -- rewrite !RequireInv.get_set in Hm. destruct (zs_eqb nm (node_prefix ++ name)) eqn:E1.
           ++ apply zs_eqb_eq in E1. subst nm. inversion Hm. left. split; [reflexivity|].
              unfold native_choice. rewrite skipn_prefix, has_prefix_app.
              assert (R1 : mem_zs (node_prefix ++ name) (n_registry nr) = false).
              { destruct (mem_zs (node_prefix ++ name) (n_registry nr)) eqn:X; [|reflexivity]. pose proof (Wn _ (or_introl X)) as W. rewrite has_prefix_app in W. discriminate. }
              assert (R2 : mem_zs (node_prefix ++ name) (n_global nr) = false).
              { destruct (mem_zs (node_prefix ++ name) (n_global nr)) eqn:X; [|reflexivity]. pose proof (Wn _ (or_intror X)) as W. rewrite has_prefix_app in W. discriminate. }
              rewrite R1, R2, (Wc name Ecore Ep), Ecore. reflexivity.
           ++ destruct (zs_eqb nm name) eqn:E; [|right; exact Hm]. apply zs_eqb_eq in E. subst nm. inversion Hm. left. split; [reflexivity|exact Hdirect].
      * destruct (has_prefix node_prefix name) eqn:Ep; [|apply ngood_refl; exact HI].
        destruct (mem_zs (skipn (length node_prefix) name) (n_core nr)) eqn:Es; [|apply ngood_refl; exact HI].
        cbn [fst]. set (stripped := skipn (length node_prefix) name) in *.
        apply (Hadd (ONative stripped NCore) _ _ (stripped, NCore) eq_refl).
        intros nm m Hm. cbn [native_cache] in Hm.
        assert (Hvia : native_choice nr name = inl (Some (stripped, NCore))) by (unfold native_choice; fold stripped; rewrite Er, Eg, Ecore, Ep, Es; reflexivity).
        destruct (mem_zs stripped (n_registry nr) || mem_zs stripped (n_global nr)) eqn:Eo.
        -- rewrite RequireInv.get_set in Hm. destruct (zs_eqb nm name) eqn:E; [|right; exact Hm].
           apply zs_eqb_eq in E. subst nm. inversion Hm. left. split; [reflexivity|exact Hvia].
        -- rewrite !RequireInv.get_set in Hm. apply orb_false_iff in Eo as [Eo1 Eo2].
           destruct (zs_eqb nm stripped) eqn:E1.
           ++ apply zs_eqb_eq in E1. subst nm. inversion Hm. left. split; [reflexivity|].
              unfold native_choice. rewrite Eo1, Eo2, Es. reflexivity.
           ++ destruct (zs_eqb nm name) eqn:E; [|right; exact Hm]. apply zs_eqb_eq in E. subst nm. inversion Hm. left. split; [reflexivity|exact Hvia].
Qed.

Section NOpen.
Variable fs : fsys.
Variable nr : natives.
Hypothesis Hwf : wf_natives nr.
Variable rq : rstate -> path -> zs -> rstate * res.
Hypothesis Hrq : forall st d r, NInv nr st -> ngood nr st (fst (rq st d r)).

Lemma ngood_ns st st' : nsame st st' -> NInv nr st -> ngood nr st st'.
Proof. apply nsame_ngood. Qed.

Lemma run_lazies_ngood reqs : forall st f, NInv nr st -> ngood nr st (fst (run_lazies rq st f reqs)).
Proof.
  induction reqs as [|r reqs IH]; intros st f HI; cbn [run_lazies].
  - apply ngood_refl. exact HI.
  - pose proof (Hrq st (pdir (parse f)) r HI) as G1. destruct (rq st (pdir (parse f)) r) as [st1 x]. cbn [fst] in G1.
    pose proof (ngood_ns _ _ (ns_log_event st1 f r (outcome_of st1 x)) (proj1 G1)) as G2.
    assert (G : ngood nr st (log_event st1 f r (outcome_of st1 x))) by exact (ngood_trans _ _ _ _ G1 G2).
    assert (Hc : ngood nr st (fst (run_lazies rq (log_event st1 f r (outcome_of st1 x)) f reqs)))
      by (eapply ngood_trans; [exact G|apply IH; exact (proj1 G)]).
    destruct x; cbn [fst]; try exact Hc. exact G.
Qed.

Lemma run_body_ngood prog : forall st m file, NInv nr st -> ngood nr st (fst (run_body rq st m file prog)).
Proof.
  induction prog as [|i prog IH]; intros st m file HI; cbn [run_body].
  - apply ngood_refl. exact HI.
  - destruct i as [|k v|r catch|t|r|t].
    + pose proof (ngood_ns _ _ (ns_bump st file) HI) as G. eapply ngood_trans; [exact G|apply IH; exact (proj1 G)].
    + pose proof (ngood_ns _ _ (ns_set_exp st m k v) HI) as G. eapply ngood_trans; [exact G|apply IH; exact (proj1 G)].
    + pose proof (Hrq st (pdir (parse file)) r HI) as G1. destruct (rq st (pdir (parse file)) r) as [st1 x]. cbn [fst] in G1.
      pose proof (ngood_ns _ _ (ns_log_event st1 file r (outcome_of st1 x)) (proj1 G1)) as G2.
      assert (G : ngood nr st (log_event st1 file r (outcome_of st1 x))) by exact (ngood_trans _ _ _ _ G1 G2).
      assert (Hc : ngood nr st (fst (run_body rq (log_event st1 file r (outcome_of st1 x)) m file prog)))
        by (eapply ngood_trans; [exact G|apply IH; exact (proj1 G)]).
      destruct x; try exact Hc; try (destruct catch; [exact Hc|exact G]). exact G.
    + apply ngood_refl. exact HI.
    + pose proof (ngood_ns _ _ (ns_add_lazy st m r) HI) as G. eapply ngood_trans; [exact G|apply IH; exact (proj1 G)].
    + pose proof (Hrq st (pdir (parse file)) t HI) as G1. destruct (rq st (pdir (parse file)) t) as [st1 x]. cbn [fst] in G1.
      pose proof (ngood_ns _ _ (ns_log_event st1 file t (outcome_of st1 x)) (proj1 G1)) as G2.
      set (st2 := log_event st1 file t (outcome_of st1 x)) in *.
      assert (G : ngood nr st st2) by exact (ngood_trans _ _ _ _ G1 G2).
      assert (Hc : ngood nr st (fst (run_body rq st2 m file prog))) by (eapply ngood_trans; [exact G|apply IH; exact (proj1 G)]).
      destruct x as [m'| | | |]; try exact Hc; [|exact G].
      destruct (owner_file st2 m') as [f'|]; [|exact Hc].
      remember (run_lazies rq st2 f' (lazies_of st2 m')) as rl eqn:ERL.
      assert (G3 : ngood nr st2 (fst rl)) by (rewrite ERL; apply run_lazies_ngood; exact (proj1 G)).
      destruct rl as [st3 oof]. cbn [fst] in G3.
      assert (G03 : ngood nr st st3) by exact (ngood_trans _ _ _ _ G G3).
      destruct oof; [exact G03|]. eapply ngood_trans; [exact G03|apply IH; exact (proj1 G03)].
Qed.

Lemma load_module_ngood st p : NInv nr st -> ngood nr st (fst (load_module fs rq st p)).
Proof.
  intro HI. unfold load_module. set (ps := render p).
  destruct (cache_get (files_cache st) ps); [apply ngood_refl; exact HI|].
  destruct (new_module st (OFile ps)) as [st1 m] eqn:En.
  assert (S1 : nsame st st1) by (pose proof (ns_new_module st (OFile ps)) as H; rewrite En in H; exact H).
  set (st2 := with_files st1 (cache_set (files_cache st1) ps m)).
  assert (S2 : nsame st st2) by (eapply nsame_trans; [exact S1|apply ns_with_files]).
  set (st3 := if mem_zs ps (compiled st2) then st2 else log_load st2 ps).
  assert (S3 : nsame st st3) by (unfold st3; destruct (mem_zs ps (compiled st2)); [exact S2|eapply nsame_trans; [exact S2|apply ns_log_load]]).
  assert (Hst4 : forall stx, nsame st stx -> nsame st (if mem_zs ps (compiled st2) then stx else add_compiled stx ps))
    by (intros stx Hx; destruct (mem_zs ps (compiled st2)); [exact Hx|eapply nsame_trans; [exact Hx|apply ns_add_compiled]]).
  assert (Hforget : forall stx, ngood nr st stx -> ngood nr st (forget stx m ps))
    by (intros stx Gx; eapply ngood_trans; [exact Gx|apply ngood_ns; [apply ns_forget|exact (proj1 Gx)]]).
  destruct (fs_get fs ps) as [[prog|valid v|mn| |]|]; cbn [fst].
  - pose proof (ngood_ns _ _ (Hst4 st3 S3) HI) as G4.
    pose proof (run_body_ngood prog _ m ps (proj1 G4)) as G5.
    destruct (run_body rq (if mem_zs ps (compiled st2) then st3 else add_compiled st3 ps) m ps prog) as [st5 r]. cbn [fst] in *.
    assert (G : ngood nr st st5) by (eapply ngood_trans; eassumption).
    destruct r; cbn [fst]; try exact G; apply Hforget; exact G.
  - pose proof (ngood_ns _ _ (Hst4 st3 S3) HI) as G4. destruct valid; cbn [fst].
    + eapply ngood_trans; [exact G4|apply ngood_ns; [apply ns_set_exp|exact (proj1 G4)]].
    + apply Hforget. exact G4.
  - apply ngood_ns; [apply Hst4; exact S3|exact HI].
  - apply ngood_ns; [apply Hst4; exact S3|exact HI].
  - apply Hforget. apply ngood_ns; assumption.
  - apply Hforget. apply ngood_ns; assumption.
Qed.

Lemma try_cands_ngood cs : forall st, NInv nr st -> ngood nr st (fst (try_cands fs rq st cs)).
Proof.
  induction cs as [|c cs IH]; intros st HI; cbn [try_cands]; [apply ngood_refl; exact HI|].
  destruct c as [p|pk].
  - pose proof (load_module_ngood st p HI) as G. destruct (load_module fs rq st p) as [st1 r]. cbn [fst] in G.
    destruct r; try exact G. eapply ngood_trans; [exact G|apply IH; exact (proj1 G)].
  - pose proof (ngood_ns _ _ (ns_read_manifest fs st pk) HI) as G. eapply ngood_trans; [exact G|apply IH; exact (proj1 G)].
Qed.

(* one more name for a core module that is already loaded: the entry holds what the registrations prescribe for that name *)
Lemma reuse_core_ngood st name m0 : NInv nr st -> reuse_core nr st name = Some m0 ->
  ngood nr st (with_native st (cache_set (native_cache st) name m0) (native_runs st)).
Proof.
  intros HI HR. unfold reuse_core in HR.
  destruct (mem_zs name (n_registry nr)) eqn:E1; [discriminate|]. destruct (mem_zs name (n_global nr)) eqn:E2; [discriminate|].
  destruct (mem_zs name (n_core nr)) eqn:E3; [discriminate|]. cbn [orb] in HR.
  destruct (has_prefix node_prefix name) eqn:E4; [|discriminate].
  destruct (mem_zs (skipn (length node_prefix) name) (n_core nr)) eqn:E5; [|discriminate].
  destruct (mem_zs (skipn (length node_prefix) name) (n_registry nr)) eqn:E6; [discriminate|].
  destruct (mem_zs (skipn (length node_prefix) name) (n_global nr)) eqn:E7; [discriminate|]. cbn [andb orb negb] in HR.
  destruct (HI _ _ HR) as (nk & Hc & Ho).
  assert (Hnk : nk = (skipn (length node_prefix) name, NCore)).
  { unfold native_choice in Hc. rewrite E6, E7, E5 in Hc. inversion Hc. reflexivity. }
  split; [|intros m nk' H; exact H].
  intros n m Hm. cbn [native_cache with_native] in Hm. rewrite get_set in Hm. destruct (zs_eqb n name) eqn:En.
  - apply zs_eqb_eq in En. subst n. inversion Hm; subst m. exists nk. split; [|exact Ho].
    unfold native_choice. rewrite E1, E2, E3, E4, E5, Hnk. reflexivity.
  - destruct (HI _ _ Hm) as (nk2 & H1 & H2). exists nk2. split; assumption.
Qed.

Lemma load_native_run_ngood st name : NInv nr st -> ngood nr st (fst (load_native_run nr rq st name)).
Proof.
  intro HI. unfold load_native_run.
  destruct (cache_get (native_cache st) name); [apply ngood_refl; exact HI|].
  destruct (reuse_core nr st name) as [m0|] eqn:ER; [cbn [fst]; apply reuse_core_ngood; assumption|].
  pose proof (load_native_ngood nr st name Hwf HI) as G. destruct (load_native nr st name) as [st1 r]. cbn [fst] in G.
  destruct r as [m| | | |]; try exact G.
  destruct (mem_zs (registered_name st1 m) (n_loader_throws nr)); [exact G|].
  remember (run_lazies rq st1 loader_file (assoc_reqs (n_loader_reqs nr) (registered_name st1 m))) as rl eqn:ERL.
  assert (G3 : ngood nr st1 (fst rl)) by (rewrite ERL; apply run_lazies_ngood; exact (proj1 G)).
  destruct rl as [st2 oof]. cbn [fst] in *. exact (ngood_trans _ _ _ _ G G3).
Qed.

Lemma resolve_ngood st d r : NInv nr st -> ngood nr st (fst (resolve fs nr rq st d r)).
Proof.
  intro HI. unfold resolve.
  set (p := pjoin (if is_abs r then None else Some d) r). set (ps := render p).
  destruct (is_file_or_dir_path r).
  - destruct (cache_get (resolved_cache st) ps); [apply ngood_refl; exact HI|].
    pose proof (try_cands_ngood (cands_file_or_dir fs (parse ps)) st HI) as G.
    destruct (try_cands fs rq st (cands_file_or_dir fs (parse ps))) as [st1 x]. cbn [fst] in *.
    destruct x as [m| | | |]; exact G.
  - pose proof (load_native_run_ngood st r HI) as G0. destruct (load_native_run nr rq st r) as [st0 rn]. cbn [fst] in G0.
    destruct rn as [m| | | |]; try exact G0.
    set (nk := render d ++ 0 :: r).
    destruct (cache_get (node_cache st0) nk); [exact G0|].
    pose proof (try_cands_ngood (cands_node fs (parse (render d)) r) st0 (proj1 G0)) as G.
    destruct (try_cands fs rq st0 (cands_node fs (parse (render d)) r)) as [st1 x]. cbn [fst] in *.
    assert (G01 : ngood nr st st1) by (eapply ngood_trans; eassumption).
    destruct x as [m| | | |]; exact G01.
Qed.

End NOpen.

Theorem require_ngood fs nr fuel : wf_natives nr -> forall st d r, NInv nr st -> ngood nr st (fst (require_ fs nr fuel st d r)).
Proof.
  intro Hwf. induction fuel as [|f IH]; intros st d r HI; [apply ngood_refl; exact HI|].
  cbn [require_]. apply resolve_ngood; [exact Hwf| |exact HI]. intros st' d' r' HI'. apply IH. exact HI'.
Qed.

Lemma init_ninv nr : NInv nr init_state.
Proof. intros name m H. discriminate. Qed.

(* in every reachable state, every cached native/core name holds the implementation its registrations prescribe:
   what require(name) yields never depends on what was required before *)
Theorem reachable_ninv fs nr fuel calls : wf_natives nr -> NInv nr (run_tops fs nr fuel init_state calls).
Proof.
  intro Hwf.
  assert (H : forall st, NInv nr st -> NInv nr (run_tops fs nr fuel st calls)).
  { induction calls as [|[d r] rest IH]; intros st HI; [exact HI|]. cbn [run_tops]. apply IH.
    unfold top_require. pose proof (require_ngood fs nr fuel Hwf st d r HI) as [HI1 _].
    destruct (require_ fs nr fuel st d r) as [st1 x]. cbn [fst] in *.
    exact (proj1 (ngood_ns nr _ _ (ns_log_event st1 [] r _) HI1)). }
  apply H. apply init_ninv.
Qed.

(* re-entrant loaders: when the loader of a core module X starts, X is already cached under both spellings, so a require of
   either spelling from inside the loader (directly or through a cycle of other loaders) returns the very module being
   loaded and starts no second loader *)
Theorem alias_in_place_for_the_loader nr rq st name :
  has_prefix node_prefix name = false ->
  mem_zs name (n_registry nr) = false -> mem_zs name (n_global nr) = false -> mem_zs name (n_core nr) = true ->
  cache_get (native_cache st) name = None ->
  exists m, snd (load_native nr st name) = ROk m /\
    let st1 := fst (load_native nr st name) in
    load_native_run nr rq st1 name = (st1, ROk m) /\ load_native_run nr rq st1 (node_prefix ++ name) = (st1, ROk m).
Proof.
  intros Hp Hr Hg Hc Hn. unfold load_native. rewrite Hn, Hr, Hg, Hc.
  destruct (new_module st (ONative name NCore)) as [s1 m] eqn:E. rewrite Hp. exists m. cbn [fst snd]. split; [reflexivity|].
  unfold load_native_run. cbn [native_cache with_native]. rewrite !RequireInv.get_set, !zs_eqb_refl.
  destruct (zs_eqb name (node_prefix ++ name)); split; reflexivity.
Qed.

(* ---- package.json (C17): fetched at most once per Registry ---- *)
(* reading a manifest that exists a second time - from another runtime of the same Registry, from another requiring directory,
   or after it was compiled as a module - asks the SourceLoader nothing: the state (loader log included) does not move *)
Theorem manifest_fetched_once fs st pk e : fs_get fs pk = Some e -> e <> FErr ->
  let st1 := read_manifest fs st pk in
  read_manifest fs st1 pk = st1 /\ (length (loader_log st1) <= S (length (loader_log st)))%nat.
Proof.
  intros He Hne st1. unfold st1, read_manifest at 2 3 4. rewrite He.
  destruct (mem_zs pk (compiled st)) eqn:Em.
  - split; [unfold read_manifest; rewrite Em; reflexivity|lia].
  - assert (Hm : mem_zs pk (compiled (add_compiled (log_load st pk) pk)) = true).
    { cbn [compiled add_compiled]. unfold mem_zs. cbn [existsb]. rewrite zs_eqb_refl. reflexivity. }
    destruct e; try contradiction; (split; [unfold read_manifest; rewrite Hm; reflexivity|cbn; lia]).
Qed.
