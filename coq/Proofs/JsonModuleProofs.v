From GN Require Import Common.Base Gen.RequireGlue Model.JsonModule.

Definition ascii128 : list Z := map Z.of_nat (seq 0 128).

Lemma in_ascii128 c : 0 <= c < 128 -> In c ascii128.
Proof.
  intros [H0 H1]. unfold ascii128. apply in_map_iff. exists (Z.to_nat c). split; [lia|]. apply in_seq. lia.
Qed.

(* finite fact about the two hex digits of a byte below 128, decided by computation *)
Definition hex2_ok (c : Z) : bool :=
  match hexval (hexl (c / 16)), hexval (hexl (c mod 16)) with
  | Some a, Some b => a * 16 + b =? c
  | _, _ => false
  end.

Lemma hex2_ok_all : forallb hex2_ok ascii128 = true.
Proof. vm_compute. reflexivity. Qed.

Lemma hex2_ok_c c : 0 <= c < 128 -> hex2_ok c = true.
Proof. intro H. exact (proj1 (forallb_forall _ _) hex2_ok_all c (in_ascii128 c H)). Qed.

(* each encoded code point lexes back to that code point, whatever follows *)
Lemma chunk c t : scalar c -> lex_dq_body (enc_cp c ++ t) = cons_res c (lex_dq_body t).
Proof.
  intro Hs. unfold enc_cp.
  destruct (Z.ltb_spec c 128) as [Hlt|Hge].
  - assert (H0 : 0 <= c) by (destruct Hs; lia).
    destruct (html_safe c) eqn:Hsafe.
    + unfold html_safe in Hsafe. repeat (apply andb_true_iff in Hsafe as [Hsafe ?]).
      repeat match goal with H : negb _ = true |- _ => apply negb_true_iff in H; apply Z.eqb_neq in H end.
      apply Z.leb_le in Hsafe.
      cbn [app lex_dq_body].
      replace (c =? 34) with false by (symmetry; apply Z.eqb_neq; assumption).
      replace (c =? 10) with false by (symmetry; apply Z.eqb_neq; lia).
      replace (c =? 13) with false by (symmetry; apply Z.eqb_neq; lia).
      replace (c =? 92) with false by (symmetry; apply Z.eqb_neq; assumption).
      reflexivity.
    + destruct (Z.eqb_spec c 92) as [->|N92]; [reflexivity|].
      destruct (Z.eqb_spec c 34) as [->|N34]; [reflexivity|]. cbn [orb].
      destruct (Z.eqb_spec c 8) as [->|N8]; [reflexivity|].
      destruct (Z.eqb_spec c 12) as [->|N12]; [reflexivity|].
      destruct (Z.eqb_spec c 10) as [->|N10]; [reflexivity|].
      destruct (Z.eqb_spec c 13) as [->|N13]; [reflexivity|].
      destruct (Z.eqb_spec c 9) as [->|N9]; [reflexivity|].
      pose proof (hex2_ok_c c (conj H0 Hlt)) as Hh. unfold hex2_ok in Hh.
      cbn [app lex_dq_body]. change (92 =? 34) with false. change ((92 =? 10) || (92 =? 13)) with false.
      change (92 =? 92) with true. change (117 =? 117) with true. cbn iota.
      change (hexval 48) with (Some 0).
      destruct (hexval (hexl (c / 16))) as [a|]; [|discriminate].
      destruct (hexval (hexl (c mod 16))) as [b|]; [|discriminate].
      apply Z.eqb_eq in Hh. replace (0 * 4096 + 0 * 256 + a * 16 + b) with c by lia. reflexivity.
  - destruct (Z.eqb_spec c 8232) as [->|N1]; [reflexivity|].
    destruct (Z.eqb_spec c 8233) as [->|N2]; [reflexivity|]. cbn [orb app lex_dq_body].
    replace (c =? 34) with false by (symmetry; apply Z.eqb_neq; lia).
    replace (c =? 10) with false by (symmetry; apply Z.eqb_neq; lia).
    replace (c =? 13) with false by (symmetry; apply Z.eqb_neq; lia).
    replace (c =? 92) with false by (symmetry; apply Z.eqb_neq; lia).
    reflexivity.
Qed.

Lemma body_roundtrip s rest : Forall scalar s ->
  lex_dq_body (flat_map enc_cp s ++ 34 :: rest) = Some (s, rest).
Proof.
  induction 1 as [|c s Hc Hs IH]; [reflexivity|].
  cbn [flat_map]. rewrite <- app_assoc. rewrite chunk by exact Hc. rewrite IH. reflexivity.
Qed.

Theorem literal_airtight s rest : Forall scalar s -> lex_dq (go_json_string s ++ rest) = Some (s, rest).
Proof.
  intro H. unfold go_json_string, lex_dq. cbn [app]. rewrite <- app_assoc. cbn [app].
  apply body_roundtrip. exact H.
Qed.

Lemma glue_facts :
  require_glue_translated = true /\ json_escaper = EscGoJSONMarshal /\
  json_ext = [46;106;115;111;110] /\
  json_pre = [109;111;100;117;108;101;46;101;120;112;111;114;116;115;32;61;32;74;83;79;78;46;112;97;114;115;101;40] /\
  json_post = [41].
Proof. repeat split; reflexivity. Qed.

(* the compiled text is  <wrapper>module.exports = JSON.parse(<one string literal denoting s>)<wrapper end> *)
Theorem json_source_shape s : Forall scalar s ->
  exists src lit, json_module_source s = Some src /\
    src = wrap_pre ++ json_pre ++ lit ++ json_post ++ wrap_post /\
    lex_dq (lit ++ json_post ++ wrap_post) = Some (s, json_post ++ wrap_post).
Proof.
  intro H. unfold json_module_source, escape_literal.
  destruct glue_facts as (_ & -> & _). eexists. eexists. split; [reflexivity|]. split; [reflexivity|].
  apply literal_airtight. exact H.
Qed.
