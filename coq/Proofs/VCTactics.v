(* Proofs/VCTactics.v — one tactic for every generated verification condition *)
From GN Require Import Common.Base Common.Int64 Model.VC.
From Coq Require Import String.
Open Scope Z_scope.
Ltac Zify.zify_post_hook ::= Z.div_mod_to_equations.

Ltac vc_solve :=
  unfold vc_valid; intros e lens Hv Hl Hh;
  cbn [vc_vars vc_lens vc_hyps vc_goal all_P sem eval eval_bin] in *;
  repeat rewrite shr64_small in * by lia; repeat rewrite shl64_small in * by lia;
  cbn [Z.pow Z.pow_pos Pos.iter Z.mul Pos.mul] in *;
  unfold in_i64, wrap64, two63, two64 in *;
  change (2 ^ 62) with 4611686018427387904 in *;
  lia.
