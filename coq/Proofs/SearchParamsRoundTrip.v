(* Proofs/SearchParamsRoundTrip.v — parse (serialize l) = l for every list of byte-string pairs *)
From GN Require Import Common.Base Gen.UrlTables Model.SearchParams Spec.SearchParamsSpec.

Definition wf_byte (c : Z) : Prop := 0 <= c < 256.
Definition wf_bytes (s : zs) : Prop := Forall wf_byte s.
Definition wf_pairs (l : plist) : Prop := Forall (fun p => wf_bytes (fst p) /\ wf_bytes (snd p)) l.

(* decidable facts about the GENERATED tables, decided by computation, lifted to all bytes *)
Definition bytes256 : list Z := map Z.of_nat (seq 0 256).

Lemma in_bytes256 c : wf_byte c -> In c bytes256.
Proof.
  intros [H0 H1]. unfold bytes256. apply in_map_iff. exists (Z.to_nat c). split; [lia|].
  apply in_seq. lia.
Qed.

Definition hex_ok (c : Z) : bool :=
  let h1 := hexdigit (c / 16) in let h2 := hexdigit (c mod 16) in
  ishex h1 && ishex h2 && (unhex h1 * 16 + unhex h2 =? c) &&
  negb (special h1) && negb (special h2).

Lemma hex_ok_all : forallb hex_ok bytes256 = true.
Proof. vm_compute. reflexivity. Qed.

Lemma hex_ok_byte c : wf_byte c -> hex_ok c = true.
Proof. intro H. exact (proj1 (forallb_forall hex_ok bytes256) hex_ok_all c (in_bytes256 c H)). Qed.

Lemma table_param_ok : table_ok tbl_query_param = true.
Proof. vm_compute. reflexivity. Qed.

Lemma table_ok_byte tbl c : table_ok tbl = true -> 0 <= c < 128 -> tbl_get tbl c =? 0 = false -> special c = false.
Proof.
  unfold table_ok. intros H Hc Hn. apply andb_true_iff in H as [_ H].
  pose proof (proj1 (forallb_forall _ _) H c) as Hc'.
  assert (Hin : In c (map Z.of_nat (seq 0 128))).
  { apply in_map_iff. exists (Z.to_nat c). split; [lia|]. apply in_seq. lia. }
  specialize (Hc' Hin). cbv beta in Hc'. unfold tbl_get in Hn. rewrite Hn in Hc'. cbn [orb] in Hc'.
  destruct (special c); [discriminate|reflexivity].
Qed.

Section RoundTrip.
Variable tbl : list Z.
Hypothesis Htbl : table_ok tbl = true.

Let esc := escape tbl true.

(* the bytes an escaped string can contain are never special, except the '%' and '+' it introduces itself *)
Definition plain (c : Z) : Prop := special c = false.

Lemma special_false c : special c = false -> c <> 37 /\ c <> 43 /\ c <> 38 /\ c <> 61 /\ c <> 63.
Proof.
  unfold special. intro H. repeat (apply orb_false_iff in H as [H ?]).
  repeat match goal with E : (_ =? _) = false |- _ => apply Z.eqb_neq in E end. auto.
Qed.

Inductive esc_shape (c : Z) : zs -> Prop :=
| ShPlus : c = 32 -> esc_shape c [43]
| ShHex h1 h2 : ishex h1 = true -> ishex h2 = true -> unhex h1 * 16 + unhex h2 = c ->
                special h1 = false -> special h2 = false -> esc_shape c [37; h1; h2]
| ShLit : special c = false -> esc_shape c [c].

Lemma escape_byte_shape c : wf_byte c -> esc_shape c (escape_byte tbl true c).
Proof.
  intro Hc. unfold escape_byte.
  destruct (Z.eqb_spec c 32) as [->|Hne]; cbn [andb].
  - apply ShPlus. reflexivity.
  - pose proof (hex_ok_byte c Hc) as Hh. unfold hex_ok in Hh. cbv zeta in Hh.
    repeat (apply andb_true_iff in Hh as [Hh ?]).
    destruct ((c >? 127) || (tbl_get tbl c =? 0)) eqn:E.
    + apply ShHex; try assumption.
      * apply Z.eqb_eq. assumption.
      * destruct (special (hexdigit (c / 16))); [discriminate|reflexivity].
      * destruct (special (hexdigit (c mod 16))); [discriminate|reflexivity].
    + apply orb_false_iff in E as [E1 E2]. apply ShLit.
      apply (table_ok_byte tbl c Htbl); [|exact E2]. destruct Hc. lia.
Qed.

Lemma unescape_chunk c t : wf_byte c -> unescape (escape_byte tbl true c ++ t) = c :: unescape t.
Proof.
  intro Hc. destruct (escape_byte_shape c Hc) as [->|h1 h2 H1 H2 H3 _ _|Hs].
  - reflexivity.
  - cbn [app unescape]. change (37 =? 37) with true. cbn iota. rewrite H1, H2. cbn [andb]. rewrite H3. reflexivity.
  - destruct (special_false c Hs) as (N37 & N43 & _).
    cbn [app unescape]. apply Z.eqb_neq in N37, N43. rewrite N37, N43. reflexivity.
Qed.

Lemma unescape_escape s : wf_bytes s -> unescape (esc s) = s.
Proof.
  unfold esc, escape. induction 1 as [|c s Hc Hs IH]; [reflexivity|].
  cbn [flat_map]. rewrite unescape_chunk by exact Hc. rewrite IH. reflexivity.
Qed.

(* no byte of an escaped string is '&', '=' or '?' *)
Definition no_sep (s : zs) : Prop := Forall (fun c => c <> 38 /\ c <> 61 /\ c <> 63) s.

Lemma escape_no_sep s : wf_bytes s -> no_sep (esc s).
Proof.
  unfold esc, escape, no_sep. induction 1 as [|c s Hc Hs IH]; [constructor|].
  cbn [flat_map]. apply Forall_app. split; [|exact IH].
  destruct (escape_byte_shape c Hc) as [->|h1 h2 _ _ _ S1 S2|Hs'].
  - repeat constructor; discriminate.
  - destruct (special_false _ S1) as (_ & _ & ? & ? & ?). destruct (special_false _ S2) as (_ & _ & ? & ? & ?).
    repeat constructor; try discriminate; assumption.
  - destruct (special_false _ Hs') as (_ & _ & ? & ? & ?). repeat constructor; assumption.
Qed.

Lemma cut_at_app s t : Forall (fun c => c <> 61) s -> cut_at 61 (s ++ 61 :: t) = Some (s, t).
Proof.
  induction 1 as [|c s Hc Hs IH]; cbn [app cut_at].
  - reflexivity.
  - apply Z.eqb_neq in Hc. rewrite Hc, IH. reflexivity.
Qed.

Definition enc_pair (p : pair) : zs := esc (fst p) ++ 61 :: esc (snd p).

Lemma parse_piece_enc p : wf_bytes (fst p) -> wf_bytes (snd p) -> parse_piece (enc_pair p) = Some p.
Proof.
  intros H1 H2. unfold parse_piece, enc_pair.
  assert (Hne : esc (fst p) ++ 61 :: esc (snd p) <> []) by (destruct (esc (fst p)); discriminate).
  destruct (esc (fst p) ++ 61 :: esc (snd p)) eqn:E; [contradiction|]. rewrite <- E.
  rewrite cut_at_app.
  - rewrite !unescape_escape by assumption. destruct p; reflexivity.
  - eapply Forall_impl; [|apply escape_no_sep; exact H1]. simpl. tauto.
Qed.

Lemma enc_pair_no_amp p : wf_bytes (fst p) -> wf_bytes (snd p) -> Forall (fun c => c <> 38) (enc_pair p).
Proof.
  intros H1 H2. unfold enc_pair. apply Forall_app. split; [|constructor; [discriminate|]];
    (eapply Forall_impl; [|apply escape_no_sep; eassumption]); simpl; tauto.
Qed.

Lemma split_on_no_sep s : Forall (fun c => c <> 38) s -> split_on 38 s = [s].
Proof.
  induction 1 as [|c s Hc Hs IH]; [reflexivity|].
  cbn [split_on]. apply Z.eqb_neq in Hc. rewrite Hc, IH. reflexivity.
Qed.

Lemma split_on_app s t : Forall (fun c => c <> 38) s -> split_on 38 (s ++ 38 :: t) = s :: split_on 38 t.
Proof.
  induction 1 as [|c s Hc Hs IH]; cbn [app split_on].
  - reflexivity.
  - apply Z.eqb_neq in Hc. rewrite Hc, IH. reflexivity.
Qed.

Lemma split_join pieces : pieces <> [] -> Forall (Forall (fun c => c <> 38)) pieces ->
  split_on 38 (join_amp pieces) = pieces.
Proof.
  induction pieces as [|x r IH]; intros Hne Hall; [contradiction|].
  inversion Hall as [|? ? Hx Hr]; subst.
  destruct r as [|y r'].
  - cbn [join_amp]. apply split_on_no_sep. exact Hx.
  - change (join_amp (x :: y :: r')) with (x ++ 38 :: join_amp (y :: r')).
    rewrite split_on_app by exact Hx. rewrite IH; [reflexivity|discriminate|exact Hr].
Qed.

Lemma filter_map_enc l : wf_pairs l -> filter_map parse_piece (map enc_pair l) = l.
Proof.
  induction 1 as [|p l [H1 H2] Hl IH]; [reflexivity|].
  cbn [map filter_map]. rewrite parse_piece_enc by assumption. rewrite IH. reflexivity.
Qed.

Lemma join_first_not_q x r c t : join_amp (x :: r) = c :: t -> (exists t', x = c :: t') \/ x = [].
Proof. destruct x as [|c' x']; [right; reflexivity|]. intro H. left. destruct r; simpl in H; inversion H; eauto. Qed.

Theorem roundtrip l : wf_pairs l -> parse_query (join_amp (map enc_pair l)) = l.
Proof.
  intro Hwf. destruct l as [|p l]; [reflexivity|].
  assert (Hall : Forall (Forall (fun c => c <> 38)) (map enc_pair (p :: l))).
  { apply Forall_map. eapply Forall_impl; [|exact Hwf]. intros q [H1 H2]. apply enc_pair_no_amp; assumption. }
  unfold parse_query.
  destruct (join_amp (map enc_pair (p :: l))) as [|c t] eqn:E.
  - (* impossible: the first piece contains '=' *)
    exfalso. cbn [map] in E. unfold enc_pair in E at 1.
    destruct (esc (fst p)); destruct (map enc_pair l); simpl in E; discriminate.
  - assert (Hq : trim_q (c :: t) = c :: t).
    { cbn [map] in E. inversion Hwf as [|? ? [H1 H2] _]; subst.
      pose proof (escape_no_sep (fst p) H1) as Hn.
      unfold enc_pair in E at 1. destruct (esc (fst p)) as [|c' x'] eqn:Ex.
      - assert (c = 61) by (destruct (map enc_pair l); simpl in E; inversion E; reflexivity). subst c. reflexivity.
      - assert (c = c') by (destruct (map enc_pair l); simpl in E; inversion E; reflexivity). subst c'.
        inversion Hn as [|? ? (_ & _ & N63) _]; subst. unfold trim_q.
        destruct c as [|pc|pc]; try reflexivity. repeat (destruct pc as [pc|pc|]; try reflexivity). contradiction. }
    rewrite Hq, <- E. rewrite split_join by (try exact Hall; discriminate).
    apply filter_map_enc. exact Hwf.
Qed.

(* the serialisation never starts with a raw '?', so it reads back the same with or without the constructor's trimming *)
Lemma join_trim l : wf_pairs l -> trim_q (join_amp (map enc_pair l)) = join_amp (map enc_pair l).
Proof.
  intro Hwf. destruct l as [|p l]; [reflexivity|].
  destruct (join_amp (map enc_pair (p :: l))) as [|c t] eqn:E; [reflexivity|].
  cbn [map] in E. inversion Hwf as [|? ? [H1 H2] _]; subst.
  pose proof (escape_no_sep (fst p) H1) as Hn.
  unfold enc_pair in E at 1. destruct (esc (fst p)) as [|c' x'] eqn:Ex.
  - assert (c = 61) by (destruct (map enc_pair l); simpl in E; inversion E; reflexivity). subst c. reflexivity.
  - assert (c = c') by (destruct (map enc_pair l); simpl in E; inversion E; reflexivity). subst c'.
    inversion Hn as [|? ? (_ & _ & N63) _]; subst. unfold trim_q.
    destruct c as [|pc|pc]; try reflexivity. repeat (destruct pc as [pc|pc|]; try reflexivity). contradiction.
Qed.

End RoundTrip.

Theorem serialize_parse_roundtrip l : wf_pairs l -> parse_query (serialize l) = l.
Proof.
  intro H. exact (roundtrip tbl_query_param table_param_ok l H).
Qed.

Lemma parse_query_raw q : parse_query q = parse_raw (trim_q q).
Proof.
  unfold parse_query, parse_raw. destruct q as [|c t]; [reflexivity|].
  destruct (trim_q (c :: t)) eqn:E; [|reflexivity]. reflexivity.
Qed.

Lemma serialize_first_not_q l : wf_pairs l -> trim_q (serialize l) = serialize l.
Proof. intro H. exact (join_trim tbl_query_param table_param_ok l H). Qed.

Theorem serialize_parse_raw_roundtrip l : wf_pairs l -> parse_raw (serialize l) = l.
Proof.
  intro H. rewrite <- (serialize_first_not_q l H), <- parse_query_raw. apply serialize_parse_roundtrip. exact H.
Qed.

(* parsing accepts any string and follows the WHATWG urlencoded parser piece by piece *)
Lemma parse_total q : exists l, parse_query q = l.
Proof. eexists; reflexivity. Qed.

Lemma unescape_plus r : unescape (43 :: r) = 32 :: unescape r.
Proof. reflexivity. Qed.

Lemma unescape_valid_pct a b r : ishex a = true -> ishex b = true ->
  unescape (37 :: a :: b :: r) = (unhex a * 16 + unhex b) :: unescape r.
Proof. intros Ha Hb. cbn [unescape]. change (37 =? 37) with true. cbn iota. rewrite Ha, Hb. reflexivity. Qed.

Lemma unescape_bad_pct r :
  (match r with a :: b :: _ => ishex a && ishex b = false | _ => True end) ->
  unescape (37 :: r) = 37 :: unescape r.
Proof.
  intro H. cbn [unescape]. change (37 =? 37) with true. cbn iota.
  destruct r as [|a [|b r2]]; try reflexivity. rewrite H. reflexivity.
Qed.

Lemma unescape_other c r : c <> 37 -> c <> 43 -> unescape (c :: r) = c :: unescape r.
Proof. intros H1 H2. apply Z.eqb_neq in H1, H2. cbn [unescape]. rewrite H1, H2. reflexivity. Qed.

(* ---- model parser = WHATWG parser ---- *)

Lemma ishex_32 : ishex 32 = false /\ ishex 43 = false.
Proof. split; vm_compute; reflexivity. Qed.

Lemma unescape_is_whatwg_len n : forall s, (length s <= n)%nat -> unescape s = pct_decode (plus_to_space s).
Proof.
  induction n as [|n IH]; intros s Hl.
  - destruct s; [reflexivity|simpl in Hl; lia].
  - destruct s as [|c r]; [reflexivity|]. simpl in Hl.
    cbn [unescape plus_to_space map pct_decode].
    destruct (Z.eqb_spec c 37) as [->|N37].
    + change (37 =? 43) with false. cbn iota. change (37 =? 37) with true. cbn iota.
      destruct r as [|a [|b r2]].
      * reflexivity.
      * cbn [map]. rewrite (IH [a]) by (simpl in *; lia). reflexivity.
      * cbn [map]. fold (plus_to_space r2).
        assert (Ha : ishex (if a =? 43 then 32 else a) = ishex a).
        { destruct (Z.eqb_spec a 43) as [->|]; [|reflexivity]. destruct ishex_32 as [-> ->]. reflexivity. }
        assert (Hb : ishex (if b =? 43 then 32 else b) = ishex b).
        { destruct (Z.eqb_spec b 43) as [->|]; [|reflexivity]. destruct ishex_32 as [-> ->]. reflexivity. }
        rewrite Ha, Hb.
        destruct (ishex a && ishex b) eqn:E.
        -- apply andb_true_iff in E as [E1 E2].
           assert (a =? 43 = false) by (destruct (Z.eqb_spec a 43) as [->|]; [rewrite (proj2 ishex_32) in E1; discriminate|reflexivity]).
           assert (b =? 43 = false) by (destruct (Z.eqb_spec b 43) as [->|]; [rewrite (proj2 ishex_32) in E2; discriminate|reflexivity]).
           rewrite H, H0. rewrite (IH r2) by (simpl in Hl; lia). reflexivity.
        -- rewrite (IH (a :: b :: r2)) by (simpl in *; lia). reflexivity.
    + destruct (Z.eqb_spec c 43) as [->|N43].
      * change (32 =? 37) with false. cbn iota. rewrite (IH r) by lia. reflexivity.
      * apply Z.eqb_neq in N37. rewrite N37. rewrite (IH r) by lia. reflexivity.
Qed.

Lemma unescape_is_whatwg s : unescape s = pct_decode (plus_to_space s).
Proof. apply (unescape_is_whatwg_len (length s)). lia. Qed.

Theorem parse_is_whatwg q : parse_query q = whatwg_parse q.
Proof.
  unfold parse_query, whatwg_parse. destruct q as [|c t]; [reflexivity|].
  induction (split_on 38 (trim_q (c :: t))) as [|v l IH]; [reflexivity|].
  cbn [filter_map]. rewrite IH.
  assert (Hp : parse_piece v = whatwg_piece v).
  { unfold parse_piece, whatwg_piece. destruct v as [|x v']; [reflexivity|].
    destruct (cut_at 61 (x :: v')) as [[n y]|]; rewrite !unescape_is_whatwg; reflexivity. }
  rewrite Hp. reflexivity.
Qed.
