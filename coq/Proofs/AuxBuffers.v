(* Proofs/AuxBuffers.v — the queue of RunOnLoop functions as the two Go slices it is.

   addAuxJob appends to loop.auxJobs; runAux takes that slice as its batch, installs loop.auxJobsSpare as the new queue,
   runs the batch entry by entry (writing nil into each slot after the call) and keeps the emptied batch (jobs[:0]) as the
   next spare. The event-loop model (Model/Loop.v) speaks of two lists, `aux` and `batch`. This file models slices with
   backing arrays and capacities — append writes in place when there is room and re-allocates otherwise, exactly where
   aliasing bugs live — and proves that the code as written refines the two lists: the batch being executed and the queue
   never share a backing array, an entry read from the batch is never nil, clearing a slot never touches the queue, and a
   submission never touches the batch, for every interleaving of submissions with the steps of runAux and every choice of
   capacities by the runtime. *)
From Coq Require Import List ZArith Lia Bool Arith.
Import ListNotations.

Record slice := mkS { sarr : nat; slen : nat; scap : nat }.
Definition heap := nat -> list (option Z).            (* backing arrays by id; slot = Some closure id | None (nil) *)

Record bst := mkB {
  hp : heap; fresh : nat;
  qs : slice;                      (* loop.auxJobs *)
  sps : slice;                     (* loop.auxJobsSpare *)
  running : option (slice * nat)   (* runAux between its swap and its end: the local `jobs` and the loop index i *)
}.

Definition nil_slice : slice := mkS 0 0 0.
Definition binit : bst := mkB (fun _ => []) 1 nil_slice nil_slice None.

Definition upd (h : heap) (a : nat) (l : list (option Z)) : heap := fun x => if Nat.eqb x a then l else h x.

Fixpoint set_nth (l : list (option Z)) (k : nat) (v : option Z) : list (option Z) :=
  match l, k with
  | [], _ => []
  | _ :: r, O => v :: r
  | x :: r, S k' => x :: set_nth r k' v
  end.

Definition elems (h : heap) (s : slice) : list (option Z) := firstn (slen s) (h (sarr s)).

(* append(loop.auxJobs, fn): in place if len < cap, else a fresh array of a capacity the runtime chooses (> len) *)
Definition do_append (s : bst) (f : Z) (newcap : nat) : bst :=
  let a := qs s in
  if Nat.ltb (slen a) (scap a) then
    mkB (upd (hp s) (sarr a) (set_nth (hp s (sarr a)) (slen a) (Some f))) (fresh s) (mkS (sarr a) (S (slen a)) (scap a)) (sps s) (running s)
  else
    let c := Nat.max newcap (S (slen a)) in
    let arr := elems (hp s) a ++ [Some f] ++ repeat None (c - S (slen a)) in
    mkB (upd (hp s) (fresh s) arr) (S (fresh s)) (mkS (fresh s) (S (slen a)) c) (sps s) (running s).

Inductive bop :=
| BSubmit (f : Z) (newcap : nat)   (* addAuxJob's critical section *)
| BSwap                            (* runAux: jobs := auxJobs; auxJobs = auxJobsSpare *)
| BCall                            (* job := jobs[i]; job() begins (what it does — e.g. submissions — are further ops) *)
| BClear                           (* jobs[i] = nil; i++ *)
| BDone.                           (* loop finished: auxJobsSpare = jobs[:0] *)

(* result: new state and, for BCall, the entry read (None inside Some = a nil func would be called: a Go panic) *)
Definition bstep (s : bst) (o : bop) : option (bst * option (option Z)) :=
  match o with
  | BSubmit f c => Some (do_append s f c, None)
  | BSwap => match running s with
             | Some _ => None
             | None => Some (mkB (hp s) (fresh s) (sps s) (sps s) (Some (qs s, O)), None)
             end
  | BCall => match running s with
             | Some (jobs, i) => if Nat.ltb i (slen jobs) then Some (s, Some (nth i (hp s (sarr jobs)) None)) else None
             | None => None
             end
  | BClear => match running s with
              | Some (jobs, i) => if Nat.ltb i (slen jobs)
                                  then Some (mkB (upd (hp s) (sarr jobs) (set_nth (hp s (sarr jobs)) i None)) (fresh s) (qs s) (sps s) (Some (jobs, S i)), None)
                                  else None
              | None => None
              end
  | BDone => match running s with
             | Some (jobs, i) => if Nat.eqb i (slen jobs)
                                 then Some (mkB (hp s) (fresh s) (qs s) (mkS (sarr jobs) 0 (scap jobs)) None, None)
                                 else None
             | None => None
             end
  end.

(* ---- the two lists of the model ---- *)
Definition queue_of (s : bst) : list (option Z) := elems (hp s) (qs s).
Definition batch_of (s : bst) : list (option Z) :=
  match running s with Some (jobs, i) => skipn i (elems (hp s) jobs) | None => [] end.

(* ---- invariant ---- *)
Definition wf_slice (s : bst) (a : slice) : Prop :=
  slen a <= scap a /\ (scap a = 0 \/ (sarr a <> 0 /\ sarr a < fresh s /\ length (hp s (sarr a)) = scap a)).
Definition disjoint (a b : slice) : Prop := scap a = 0 \/ scap b = 0 \/ sarr a <> sarr b.
Definition all_some (l : list (option Z)) : Prop := Forall (fun x => x <> None) l.

Record BInv (s : bst) : Prop := {
  b_fresh : 0 < fresh s;
  b_q : wf_slice s (qs s);
  b_sp : wf_slice s (sps s);
  b_splen : slen (sps s) = 0;
  b_qsome : all_some (queue_of s);
  b_idle : running s = None -> disjoint (qs s) (sps s);
  b_run : forall jobs i, running s = Some (jobs, i) ->
            wf_slice s jobs /\ i <= slen jobs /\ disjoint jobs (qs s) /\ all_some (batch_of s)
}.

(* ---- list lemmas ---- *)
Lemma set_nth_length l : forall k v, length (set_nth l k v) = length l.
Proof. induction l as [|x l IH]; intros [|k] v; cbn; auto. Qed.

Lemma firstn_set_nth_ge l : forall k n v, n <= k -> firstn n (set_nth l k v) = firstn n l.
Proof.
  induction l as [|x l IH]; intros [|k] [|n] v H; cbn; try reflexivity; try lia.
  rewrite IH by lia. reflexivity.
Qed.

Lemma firstn_set_nth_snoc l : forall k v, k < length l -> firstn (S k) (set_nth l k v) = firstn k l ++ [v].
Proof.
  induction l as [|x l IH]; intros [|k] v H; cbn in *; try lia; try reflexivity.
  rewrite IH by lia. reflexivity.
Qed.

Lemma skipn_set_nth_lt l : forall k n v, k < n -> skipn n (set_nth l k v) = skipn n l.
Proof.
  induction l as [|x l IH]; intros [|k] [|n] v H; cbn; try reflexivity; try lia.
  apply IH. lia.
Qed.

Lemma skipn_firstn_S {A} (l : list A) : forall i n d, i < n -> n <= length l -> skipn i (firstn n l) = nth i l d :: skipn (S i) (firstn n l).
Proof.
  induction l as [|x l IH]; intros i n d Hi Hn; cbn in Hn; [lia|].
  destruct n as [|n]; [lia|]. destruct i as [|i]; cbn [firstn skipn nth]; [reflexivity|].
  apply IH; lia.
Qed.

Lemma firstn_firstn_set l : forall n k v, n <= length l -> k < n -> firstn n (set_nth l k v) = set_nth (firstn n l) k v.
Proof.
  induction l as [|x l IH]; intros [|n] [|k] v Hn Hk; cbn in *; try reflexivity; try lia.
  rewrite IH by lia. reflexivity.
Qed.

Lemma upd_same h a l : upd h a l a = l.
Proof. unfold upd. rewrite Nat.eqb_refl. reflexivity. Qed.
Lemma upd_other h a l b : b <> a -> upd h a l b = h b.
Proof. intro H. unfold upd. destruct (Nat.eqb_spec b a); [contradiction|reflexivity]. Qed.

Lemma elems_upd_other h a l s : scap s = 0 \/ sarr s <> a -> slen s <= scap s -> elems (upd h a l) s = elems h s.
Proof.
  intros [H|H] Hl; unfold elems.
  - assert (slen s = 0) by lia. rewrite H0. reflexivity.
  - rewrite upd_other by exact H. reflexivity.
Qed.

(* ---- the steps keep the invariant and act on the two lists as the model says ---- *)
Lemma wf_slice_mono s s' a : fresh s <= fresh s' -> (forall x, x < fresh s -> x <> 0 -> length (hp s' x) = length (hp s x)) ->
  wf_slice s a -> wf_slice s' a.
Proof.
  intros Hf Hh [Hl [Hc|(Hn & Hlt & Hlen)]]; split; try exact Hl; [left; exact Hc|right]. split; [exact Hn|split; [lia|]].
  rewrite Hh by assumption. exact Hlen.
Qed.

Theorem submit_refines s f c : BInv s ->
  let s' := do_append s f c in
  BInv s' /\ queue_of s' = queue_of s ++ [Some f] /\ batch_of s' = batch_of s.
Proof.
  intros [Hfr Hq Hsp Hspl Hqs Hidle Hrun]. cbv zeta. unfold do_append.
  destruct Hq as [Hql Hqc].
  destruct (Nat.ltb (slen (qs s)) (scap (qs s))) eqn:E.
  - (* room: written in place, into slot len of the queue's array *)
    apply Nat.ltb_lt in E. destruct Hqc as [Hc|(Hn0 & Hlt & Hlen)]; [lia|].
    set (a := sarr (qs s)). set (arr' := set_nth (hp s a) (slen (qs s)) (Some f)).
    assert (Hq' : queue_of (mkB (upd (hp s) a arr') (fresh s) (mkS a (S (slen (qs s))) (scap (qs s))) (sps s) (running s)) = queue_of s ++ [Some f]).
    { unfold queue_of, elems. cbn. rewrite upd_same. unfold arr'. apply firstn_set_nth_snoc. subst a. rewrite Hlen. exact E. }
    assert (Hb' : batch_of (mkB (upd (hp s) a arr') (fresh s) (mkS a (S (slen (qs s))) (scap (qs s))) (sps s) (running s)) = batch_of s).
    { unfold batch_of. cbn. destruct (running s) as [[jobs i]|] eqn:Er; [|reflexivity].
      destruct (Hrun jobs i eq_refl) as (Hwj & Hi & Hd & _). f_equal. apply elems_upd_other; [|exact (proj1 Hwj)].
      destruct Hd as [Hd|[Hd|Hd]]; [left; exact Hd|lia|right; exact Hd]. }
    split; [|split; assumption].
    assert (Hlenpres : forall x, length (upd (hp s) a arr' x) = length (hp s x)).
    { intro x. unfold upd. destruct (Nat.eqb_spec x a); [subst; unfold arr'; apply set_nth_length|reflexivity]. }
    constructor; cbn [hp fresh qs sps running slen scap sarr].
    + exact Hfr.
    + split; cbn; [lia|right; split; [exact Hn0|split; [exact Hlt|rewrite Hlenpres; exact Hlen]]].
    + eapply wf_slice_mono; [| |exact Hsp]; cbn; [lia|intros; apply Hlenpres].
    + exact Hspl.
    + rewrite Hq'. apply Forall_app. split; [exact Hqs|constructor; [discriminate|constructor]].
    + intro Hr. destruct (Hidle Hr) as [H|[H|H]]; [lia|right; left; exact H|right; right; exact H].
    + intros jobs i Hr. destruct (Hrun jobs i Hr) as (Hwj & Hi & Hd & Hbs). split; [|split; [exact Hi|split]].
      * eapply wf_slice_mono; [| |exact Hwj]; cbn; [lia|intros; apply Hlenpres].
      * destruct Hd as [H|[H|H]]; [left; exact H|lia|right; right; exact H].
      * change (all_some (batch_of (mkB (upd (hp s) a arr') (fresh s) (mkS a (S (slen (qs s))) (scap (qs s))) (sps s) (running s)))).
        rewrite Hb'. exact Hbs.
  - (* no room: a fresh array *)
    apply Nat.ltb_ge in E.
    set (c' := Nat.max c (S (slen (qs s)))). set (id := fresh s).
    set (arr := elems (hp s) (qs s) ++ [Some f] ++ repeat None (c' - S (slen (qs s)))).
    assert (Helen : length (elems (hp s) (qs s)) = slen (qs s)).
    { unfold elems. rewrite firstn_length. destruct Hqc as [Hc|(_ & _ & Hlen)]; [lia|lia]. }
    assert (Harrlen : length arr = c') by (unfold arr; rewrite !app_length, repeat_length, Helen; cbn; unfold c'; lia).
    assert (Hq' : queue_of (mkB (upd (hp s) id arr) (S id) (mkS id (S (slen (qs s))) c') (sps s) (running s)) = queue_of s ++ [Some f]).
    { unfold queue_of. unfold elems at 1. cbn [hp qs sarr slen]. rewrite upd_same. unfold arr. rewrite app_assoc.
      assert (Hl2 : length (elems (hp s) (qs s) ++ [Some f]) = S (slen (qs s))) by (rewrite app_length, Helen; cbn; lia).
      rewrite <- Hl2. rewrite firstn_app, Nat.sub_diag, firstn_all. cbn [firstn]. rewrite app_nil_r. reflexivity. }
    assert (Hother : forall a, wf_slice s a -> elems (upd (hp s) id arr) a = elems (hp s) a).
    { intros a [Hl [Hc|(Hn & Hlt & _)]]; apply elems_upd_other; try exact Hl; [left; exact Hc|right; unfold id; lia]. }
    assert (Hb' : batch_of (mkB (upd (hp s) id arr) (S id) (mkS id (S (slen (qs s))) c') (sps s) (running s)) = batch_of s).
    { unfold batch_of. cbn. destruct (running s) as [[jobs i]|] eqn:Er; [|reflexivity].
      destruct (Hrun jobs i eq_refl) as (Hwj & _). f_equal. apply Hother. exact Hwj. }
    split; [|split; assumption].
    assert (Hlenpres : forall x, x < fresh s -> x <> 0 -> length (upd (hp s) id arr x) = length (hp s x)).
    { intros x Hx _. rewrite upd_other by (unfold id; lia). reflexivity. }
    constructor; cbn [hp fresh qs sps running slen scap sarr].
    + lia.
    + split; cbn; [unfold c'; lia|right; split; [unfold id; lia|split; [unfold id; lia|rewrite upd_same; exact Harrlen]]].
    + eapply wf_slice_mono; [| |exact Hsp]; cbn; [unfold id; lia|exact Hlenpres].
    + exact Hspl.
    + rewrite Hq'. apply Forall_app. split; [exact Hqs|constructor; [discriminate|constructor]].
    + intros _. destruct Hsp as [_ [Hc|(_ & Hlt & _)]]; [right; left; exact Hc|right; right; unfold id; cbn; lia].
    + intros jobs i Hr. destruct (Hrun jobs i Hr) as (Hwj & Hi & Hd & Hbs). split; [|split; [exact Hi|split]].
      * eapply wf_slice_mono; [| |exact Hwj]; cbn; [unfold id; lia|exact Hlenpres].
      * destruct Hwj as [_ [Hc|(_ & Hlt & _)]]; [left; exact Hc|right; right; cbn; unfold id; lia].
      * change (all_some (batch_of (mkB (upd (hp s) id arr) (S id) (mkS id (S (slen (qs s))) c') (sps s) (running s)))).
        rewrite Hb'. exact Hbs.
Qed.

Lemma elems_length s a : wf_slice s a -> length (elems (hp s) a) = slen a.
Proof.
  intros [Hl [Hc|(_ & _ & Hlen)]]; unfold elems; rewrite firstn_length; lia.
Qed.

Lemma disjoint_sym a b : disjoint a b -> disjoint b a.
Proof. unfold disjoint. intros [H|[H|H]]; auto. Qed.

Theorem swap_refines s : BInv s -> running s = None ->
  exists s', bstep s BSwap = Some (s', None) /\ BInv s' /\ batch_of s' = queue_of s /\ queue_of s' = [].
Proof.
  intros [Hfr Hq Hsp Hspl Hqs Hidle Hrun] Hr. cbn [bstep]. rewrite Hr. eexists. split; [reflexivity|].
  assert (Hq0 : queue_of (mkB (hp s) (fresh s) (sps s) (sps s) (Some (qs s, 0))) = []).
  { unfold queue_of, elems. cbn [hp qs]. rewrite Hspl. reflexivity. }
  assert (Hb0 : batch_of (mkB (hp s) (fresh s) (sps s) (sps s) (Some (qs s, 0))) = queue_of s) by reflexivity.
  split; [|split; assumption].
  constructor; cbn [hp fresh qs sps running]; try assumption.
  - rewrite Hq0. constructor.
  - discriminate.
  - intros jobs i H. inversion H; subst jobs i. split; [exact Hq|split; [lia|split; [exact (Hidle Hr)|]]].
    rewrite Hb0. exact Hqs.
Qed.

Lemma batch_cons s jobs i x rest : BInv s -> running s = Some (jobs, i) -> batch_of s = x :: rest ->
  i < slen jobs /\ x = nth i (hp s (sarr jobs)) None /\ x <> None /\ skipn (S i) (elems (hp s) jobs) = rest.
Proof.
  intros HI Hr Hb. destruct (b_run s HI jobs i Hr) as (Hwj & Hi & _ & Hs).
  unfold batch_of in Hb, Hs. rewrite Hr in Hb, Hs.
  pose proof (elems_length s jobs Hwj) as Hlen.
  assert (Hlt : i < slen jobs).
  { destruct (Nat.lt_ge_cases i (slen jobs)) as [H|H]; [exact H|]. rewrite skipn_all2 in Hb by lia. discriminate. }
  assert (Hcap : slen jobs <= length (hp s (sarr jobs))).
  { destruct Hwj as [Hl [Hc|(_ & _ & Hle)]]; lia. }
  unfold elems in *. rewrite (skipn_firstn_S (hp s (sarr jobs)) i (slen jobs) None Hlt Hcap) in Hb, Hs.
  inversion Hb; subst. inversion Hs; subst. repeat split; auto.
Qed.

(* job := jobs[i]: the entry read is never nil *)
Theorem call_refines s x rest : BInv s -> batch_of s = x :: rest ->
  bstep s BCall = Some (s, Some x) /\ x <> None.
Proof.
  intros HI Hb. destruct (running s) as [[jobs i]|] eqn:Hr; [|unfold batch_of in Hb; rewrite Hr in Hb; discriminate].
  destruct (batch_cons s jobs i x rest HI Hr Hb) as (Hlt & Hx & Hne & _).
  cbn [bstep]. rewrite Hr. apply Nat.ltb_lt in Hlt. rewrite Hlt. subst x. split; [reflexivity|exact Hne].
Qed.

(* jobs[i] = nil: the batch loses its head, the queue is untouched *)
Theorem clear_refines s x rest : BInv s -> batch_of s = x :: rest ->
  exists s', bstep s BClear = Some (s', None) /\ BInv s' /\ batch_of s' = rest /\ queue_of s' = queue_of s.
Proof.
  intros HI Hb. destruct (running s) as [[jobs i]|] eqn:Hr; [|unfold batch_of in Hb; rewrite Hr in Hb; discriminate].
  destruct (batch_cons s jobs i x rest HI Hr Hb) as (Hlt & _ & _ & Hrest).
  destruct (b_run s HI jobs i Hr) as (Hwj & Hi & Hd & Hs).
  cbn [bstep]. rewrite Hr. pose proof Hlt as Hltb. apply Nat.ltb_lt in Hltb. rewrite Hltb. eexists. split; [reflexivity|].
  set (a := sarr jobs). set (arr' := set_nth (hp s a) i None).
  assert (Hcap : slen jobs <= length (hp s a)) by (destruct Hwj as [Hl [Hc|(_ & _ & Hle)]]; unfold a; lia).
  assert (Hjobs_cap : scap jobs <> 0) by (destruct Hwj as [Hl _]; lia).
  assert (Hq' : queue_of (mkB (upd (hp s) a arr') (fresh s) (qs s) (sps s) (Some (jobs, S i))) = queue_of s).
  { unfold queue_of. cbn [hp qs]. apply elems_upd_other; [|exact (proj1 (b_q s HI))].
    destruct Hd as [H|[H|H]]; [contradiction|left; exact H|right; intro E; apply H; symmetry; exact E]. }
  assert (Hb' : batch_of (mkB (upd (hp s) a arr') (fresh s) (qs s) (sps s) (Some (jobs, S i))) = rest).
  { unfold batch_of. cbn [running hp]. unfold elems. fold a. rewrite upd_same. unfold arr'.
    rewrite firstn_firstn_set by (try exact Hcap; exact Hlt). rewrite skipn_set_nth_lt by lia. exact Hrest. }
  split; [|split; assumption].
  assert (Hlenpres : forall y, length (upd (hp s) a arr' y) = length (hp s y)).
  { intro y. unfold upd. destruct (Nat.eqb_spec y a); [subst; unfold arr'; apply set_nth_length|reflexivity]. }
  destruct HI as [Hfr Hq Hsp Hspl Hqs Hidle Hrun].
  constructor; cbn [hp fresh qs sps running].
  - exact Hfr.
  - eapply wf_slice_mono; [| |exact Hq]; cbn; [lia|intros; apply Hlenpres].
  - eapply wf_slice_mono; [| |exact Hsp]; cbn; [lia|intros; apply Hlenpres].
  - exact Hspl.
  - rewrite Hq'. exact Hqs.
  - discriminate.
  - intros jobs' i' H. inversion H; subst jobs' i'. split; [|split; [lia|split; [exact Hd|]]].
    + eapply wf_slice_mono; [| |exact Hwj]; cbn; [lia|intros; apply Hlenpres].
    + rewrite Hb'. unfold batch_of in Hs. rewrite Hr in Hs. unfold all_some in *.
      rewrite <- Hrest. clear -Hs. revert Hs. generalize (elems (hp s) jobs). intro l. revert i. induction l as [|y l IH]; intros i H.
      * destruct i; constructor.
      * destruct i as [|i]; cbn in *; [inversion H; assumption|apply IH; exact H].
Qed.

(* the loop is over: the emptied batch becomes the spare; queue and spare are different arrays again *)
Theorem done_refines s jobs i : BInv s -> running s = Some (jobs, i) -> batch_of s = [] ->
  exists s', bstep s BDone = Some (s', None) /\ BInv s' /\ running s' = None /\ queue_of s' = queue_of s /\ batch_of s' = [].
Proof.
  intros HI Hr Hb. destruct (b_run s HI jobs i Hr) as (Hwj & Hi & Hd & Hs).
  assert (Hil : i = slen jobs).
  { unfold batch_of in Hb. rewrite Hr in Hb. pose proof (elems_length s jobs Hwj) as Hlen.
    destruct (Nat.lt_ge_cases i (slen jobs)) as [H|H]; [|lia].
    exfalso. assert (length (skipn i (elems (hp s) jobs)) = slen jobs - i) by (rewrite skipn_length, Hlen; reflexivity).
    rewrite Hb in H0. cbn in H0. lia. }
  cbn [bstep]. rewrite Hr. subst i. rewrite Nat.eqb_refl. eexists. split; [reflexivity|].
  destruct HI as [Hfr Hq Hsp Hspl Hqs Hidle Hrun].
  split; [|split; [reflexivity|split; reflexivity]].
  constructor; cbn [hp fresh qs sps running slen scap sarr]; try assumption.
  - destruct Hwj as [Hl Hc]. split; cbn; [lia|exact Hc].
  - reflexivity.
  - intros _. apply disjoint_sym. unfold disjoint in *. cbn. exact Hd.
  - discriminate.
Qed.

Lemma binit_inv : BInv binit.
Proof.
  constructor; cbn; try lia.
  - split; cbn; [lia|left; reflexivity].
  - split; cbn; [lia|left; reflexivity].
  - constructor.
  - intros _. left. reflexivity.
  - discriminate.
Qed.

(* every state reachable by any interleaving of submissions (with any capacities the runtime picks) and steps of runAux *)
Fixpoint bruns (s : bst) (ops : list bop) : option bst :=
  match ops with
  | [] => Some s
  | o :: r => match bstep s o with Some (s', _) => bruns s' r | None => None end
  end.

Theorem reachable_binv ops : forall s s', BInv s -> bruns s ops = Some s' -> BInv s'.
Proof.
  induction ops as [|o ops IH]; intros s s' HI H; cbn in H; [inversion H; subst; exact HI|].
  destruct (bstep s o) as [[s1 r]|] eqn:E; [|discriminate]. apply (IH s1 s'); [|exact H].
  destruct o as [f c| | | |]; cbn [bstep] in E.
  - inversion E; subst. exact (proj1 (submit_refines s f c HI)).
  - destruct (running s) eqn:Hr; [discriminate|]. destruct (swap_refines s HI Hr) as (s2 & E2 & HI2 & _). cbn [bstep] in E2. rewrite Hr in E2.
    rewrite E in E2. inversion E2; subst. exact HI2.
  - destruct (running s) as [[jobs i]|]; [|discriminate]. destruct (Nat.ltb i (slen jobs)); inversion E; subst. exact HI.
  - destruct (running s) as [[jobs i]|] eqn:Hr; [|discriminate]. destruct (Nat.ltb i (slen jobs)) eqn:Hlt; [|discriminate].
    (* the batch is not empty *)
    destruct (b_run s HI jobs i Hr) as (Hwj & _ & _ & _). pose proof (elems_length s jobs Hwj) as Hlen.
    destruct (batch_of s) as [|x rest] eqn:Hb.
    + exfalso. unfold batch_of in Hb. rewrite Hr in Hb. apply Nat.ltb_lt in Hlt.
      assert (length (skipn i (elems (hp s) jobs)) = slen jobs - i) by (rewrite skipn_length, Hlen; reflexivity). rewrite Hb in H0. cbn in H0. lia.
    + destruct (clear_refines s x rest HI Hb) as (s2 & E2 & HI2 & _). cbn [bstep] in E2. rewrite Hr, Hlt in E2. rewrite E in E2. inversion E2; subst. exact HI2.
  - destruct (running s) as [[jobs i]|] eqn:Hr; [|discriminate]. destruct (Nat.eqb i (slen jobs)) eqn:Heq; [|discriminate].
    apply Nat.eqb_eq in Heq. subst i.
    assert (Hb : batch_of s = []).
    { unfold batch_of. rewrite Hr. destruct (b_run s HI jobs (slen jobs) Hr) as (Hwj & _). apply skipn_all2. rewrite (elems_length s jobs Hwj). lia. }
    destruct (done_refines s jobs (slen jobs) HI Hr Hb) as (s2 & E2 & HI2 & _). cbn [bstep] in E2. rewrite Hr, Nat.eqb_refl in E2. rewrite E in E2. inversion E2; subst. exact HI2.
Qed.

(* non-vacuity, and the aliasing bug this guards against: if runAux left the old spare in place instead of jobs[:0] after a
   drain (as a seeded change did), the next batch and the queue share one array and a submission overwrites the batch *)
Example buffers_in_use :
  match bruns binit [BSubmit 1%Z 1; BSubmit 2%Z 4; BSwap; BCall; BSubmit 3%Z 2; BClear; BCall; BClear; BDone; BSwap; BCall] with
  | Some s => batch_of s = [Some 3%Z] /\ queue_of s = [] /\ sarr (qs s) = 2 /\ scap (qs s) = 4 /\ running s = Some (mkS 3 1 2, 0)
  | None => False
  end.
Proof. vm_compute. repeat split; reflexivity. Qed.

(* ... and the theorems are not vacuous: had runAux left auxJobsSpare as it was at the end of a drain (the effect of one of the
   seeded changes), queue and batch would share an array two drains later, and a submission would overwrite the entry that
   is being executed *)
Definition bad_done (s : bst) : option bst :=
  match running s with
  | Some (jobs, i) => if Nat.eqb i (slen jobs) then Some (mkB (hp s) (fresh s) (qs s) (sps s) None) else None
  | None => None
  end.
Definition thenb (s : option bst) (ops : list bop) : option bst := match s with Some x => bruns x ops | None => None end.
Example aliasing_without_the_spare_update :
  let s1 := bruns binit [BSubmit 1%Z 4; BSwap; BCall; BClear; BDone; BSubmit 2%Z 4; BSwap; BCall; BClear] in
  let s2 := match s1 with Some x => bad_done x | None => None end in
  let s3 := thenb s2 [BSubmit 3%Z 4; BSwap; BCall] in
  let s4 := thenb s3 [BSubmit 4%Z 4] in
  option_map batch_of s3 = Some [Some 3%Z] /\ option_map batch_of s4 = Some [Some 4%Z].
Proof. vm_compute. split; reflexivity. Qed.
