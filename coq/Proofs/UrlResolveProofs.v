(* Proofs/UrlResolveProofs.v — C14: on paths built from ordinary segments, the constructor's pipeline computes the URL
   RFC 3986 section 5.2 prescribes against the normalised base. *)
From GN Require Import Common.Base Spec.Rfc3986 Model.UrlResolve.
Open Scope Z_scope.

(* ordinary paths: no empty segment except possibly the last one (a trailing slash) *)
Fixpoint dom (segs : list seg) : Prop :=
  match segs with
  | [] => True
  | [s] => True
  | s :: r => s <> [] /\ dom r
  end.
Definition nonempty_all (segs : list seg) : Prop := Forall (fun s => s <> []) segs.

Lemma is_dot_nonempty s : is_dot s = true -> s <> [].
Proof. unfold is_dot, dot. destruct s; [discriminate|discriminate]. Qed.
Lemma is_dotdot_nonempty s : is_dotdot s = true -> s <> [].
Proof. unfold is_dotdot, dotdot. destruct s; [discriminate|discriminate]. Qed.

(* path.Clean's loop is the RFC's stack on segments without empty elements *)
Lemma clean_rds_stack segs : nonempty_all segs -> forall st, clean_stack st segs = rds_stack st segs.
Proof.
  induction segs as [|s r IH]; intros Hn st; [reflexivity|]. inversion Hn as [|? ? Hs Hr]; subst.
  cbn. destruct s as [|c t]; [contradiction Hs; reflexivity|]. cbn [clean_stack].
  destruct (is_dot (c :: t)); [apply IH; exact Hr|]. destruct (is_dotdot (c :: t)); apply IH; exact Hr.
Qed.

Lemma rds_stack_app st a b : rds_stack st (a ++ b) = rds_stack (rds_stack st a) b.
Proof.
  revert st. induction a as [|s r IH]; intro st; [reflexivity|]. cbn.
  destruct (is_dot s); [apply IH|]. destruct (is_dotdot s); apply IH.
Qed.

Lemma clean_stack_app st a b : clean_stack st (a ++ b) = clean_stack (clean_stack st a) b.
Proof.
  revert st. induction a as [|s r IH]; intro st; [reflexivity|]. cbn.
  destruct s as [|c t]; [apply IH|]. destruct (is_dot (c :: t)); [apply IH|]. destruct (is_dotdot (c :: t)); apply IH.
Qed.

Lemma dom_split segs : dom segs -> segs = [] \/ exists init l, segs = init ++ [l] /\ nonempty_all init.
Proof.
  induction segs as [|s r IH]; [left; reflexivity|]. intro H. right. destruct r as [|s2 r2].
  - exists [], s. split; [reflexivity|constructor].
  - destruct H as [Hs Hd]. destruct (IH Hd) as [E|(init & l & E & Hn)]; [discriminate|].
    exists (s :: init), l. split; [cbn; rewrite E; reflexivity|constructor; assumption].
Qed.

Lemma rev_app_last {A} (i : list A) l : rev (i ++ [l]) = l :: rev i.
Proof. rewrite rev_app_distr. reflexivity. Qed.

(* cleanPath = remove_dot_segments on ordinary paths *)
Theorem clean_is_rds segs : dom segs -> segs <> [] -> clean_segs segs = rds segs.
Proof.
  intros Hd Hne. destruct (dom_split segs Hd) as [E|(init & l & E & Hn)]; [contradiction|]. subst segs.
  unfold clean_segs, rds, last_is_dir, ends_with_dot. rewrite !rev_app_last.
  rewrite clean_stack_app, rds_stack_app, (clean_rds_stack init Hn).
  set (st := rds_stack [] init). destruct l as [|c t].
  - (* trailing slash *) cbn. destruct st as [|x xs]; [reflexivity|]. cbn. reflexivity.
  - cbn [clean_stack rds_stack]. destruct (is_dot (c :: t)) eqn:D1; cbn [orb].
    + destruct st; reflexivity.
    + destruct (is_dotdot (c :: t)) eqn:D2; cbn [orb].
      * destruct (removelast st); reflexivity.
      * assert (G : forall w : list seg, match w with [] => [[]] | _ :: _ => w end = match w with [] => [[]] | s :: l => s :: l end) by (intros [|x xs]; reflexivity).
        symmetry. apply G.
Qed.

(* ---- remove_dot_segments is idempotent and stays within ordinary paths ---- *)
Definition nodot (s : seg) : Prop := is_dot s = false /\ is_dotdot s = false.
Definition nodots (l : list seg) : Prop := Forall nodot l.

Lemma nodots_removelast l : nodots l -> nodots (removelast l).
Proof. induction l as [|x r IH]; intro H; [constructor|]. inversion H; subst. destruct r; [constructor|]. cbn. constructor; [assumption|apply IH; assumption]. Qed.

Lemma rds_stack_nodots segs : forall st, nodots st -> nodots (rds_stack st segs).
Proof.
  induction segs as [|s r IH]; intros st H; [exact H|]. cbn. destruct (is_dot s) eqn:D1; [apply IH; exact H|].
  destruct (is_dotdot s) eqn:D2; [apply IH; apply nodots_removelast; exact H|].
  apply IH. apply Forall_app. split; [exact H|constructor; [split; assumption|constructor]].
Qed.

Lemma rds_stack_id l : nodots l -> forall st, rds_stack st l = st ++ l.
Proof.
  induction l as [|s r IH]; intros H st; [rewrite app_nil_r; reflexivity|]. inversion H as [|? ? [D1 D2] Hr]; subst.
  cbn. rewrite D1, D2, IH by exact Hr. rewrite <- app_assoc. reflexivity.
Qed.

Lemma ends_with_dot_nodots l : nodots l -> ends_with_dot l = false.
Proof.
  intro H. unfold ends_with_dot. destruct (rev l) as [|s r] eqn:E; [reflexivity|].
  assert (Hin : In s l) by (apply in_rev; rewrite E; left; reflexivity).
  unfold nodots in H. rewrite Forall_forall in H. destruct (H _ Hin) as [D1 D2]. rewrite D1, D2. reflexivity.
Qed.

Lemma rds_nodots segs : nodots (rds segs) /\ rds segs <> [].
Proof.
  unfold rds. pose proof (rds_stack_nodots segs [] (Forall_nil _)) as H.
  destruct (ends_with_dot segs).
  - split; [apply Forall_app; split; [exact H|constructor; [split; reflexivity|constructor]]|destruct (rds_stack [] segs); discriminate].
  - destruct (rds_stack [] segs) eqn:E; [split; [constructor; [split; reflexivity|constructor]|discriminate]|split; [exact H|discriminate]].
Qed.

Theorem rds_fixed l : nodots l -> l <> [] -> rds l = l.
Proof.
  intros H Hne. unfold rds. rewrite (ends_with_dot_nodots l H), (rds_stack_id l H []). cbn. destruct l; [contradiction|reflexivity].
Qed.

Theorem rds_idempotent segs : rds (rds segs) = rds segs.
Proof. destruct (rds_nodots segs) as [H Hne]. apply rds_fixed; assumption. Qed.

Lemma nonempty_removelast l : dom l -> nonempty_all (removelast l).
Proof.
  induction l as [|x r IH]; intro H; [constructor|]. destruct r as [|y r']; [constructor|].
  destruct H as [Hx Hd]. change (nonempty_all (x :: removelast (y :: r'))). constructor; [exact Hx|apply IH; exact Hd].
Qed.

Lemma dom_app a b : nonempty_all a -> dom b -> dom (a ++ b).
Proof.
  induction a as [|x r IH]; intros Ha Hb; [exact Hb|]. inversion Ha; subst. cbn.
  specialize (IH H2 Hb). destruct (r ++ b) eqn:E; [exact I|]. split; [assumption|exact IH].
Qed.

Lemma rds_stack_nonempty segs : nonempty_all segs -> forall st, nonempty_all st -> nonempty_all (rds_stack st segs).
Proof.
  induction segs as [|s r IH]; intros Hs st Hst; [exact Hst|]. inversion Hs; subst. cbn.
  destruct (is_dot s); [apply IH; assumption|]. destruct (is_dotdot s).
  - apply IH; [assumption|]. clear -Hst. induction st as [|x xs IHx]; [constructor|]. inversion Hst; subst. destruct xs; [constructor|]. cbn. constructor; [assumption|apply IHx; assumption].
  - apply IH; [assumption|]. apply Forall_app. split; [assumption|constructor; [assumption|constructor]].
Qed.

Lemma dom_of_nonempty_snoc a x : nonempty_all a -> dom (a ++ [x]).
Proof. intro H. apply dom_app; [exact H|exact I]. Qed.

Theorem rds_dom segs : dom segs -> dom (rds segs).
Proof.
  intro Hd. destruct (dom_split segs Hd) as [E|(init & l & E & Hn)].
  - subst. cbn. exact I.
  - subst. unfold rds, ends_with_dot. rewrite rev_app_last, rds_stack_app.
    pose proof (rds_stack_nonempty init Hn [] (Forall_nil _)) as Hst. set (st := rds_stack [] init) in *.
    cbn [rds_stack]. destruct (is_dot l) eqn:D1; cbn [orb].
    + apply dom_of_nonempty_snoc. exact Hst.
    + destruct (is_dotdot l) eqn:D2; cbn [orb].
      * apply dom_of_nonempty_snoc. clear -Hst. induction st as [|x xs IHx]; [constructor|]. inversion Hst; subst. destruct xs; [constructor|]. cbn. constructor; [assumption|apply IHx; assumption].
      * assert (G : dom (st ++ [l])) by (apply dom_of_nonempty_snoc; exact Hst).
        destruct (st ++ [l]) eqn:E; [exact I|exact G].
Qed.

(* ---- the constructor computes RFC 3986 5.2 against the normalised base ---- *)
Definition ok_path (p : rpath) : Prop :=
  match p with PEmpty => True | PAbs s => dom s /\ s <> [] | PRel s => dom s /\ s <> [] end.
Definition wf_base (B : comps) : Prop :=
  c_scheme B <> None /\ c_auth B <> None /\ ok_path (c_path B) /\ (forall s, c_path B <> PRel s).
Definition wf_ref (R : comps) : Prop :=
  ok_path (c_path R) /\ ((c_scheme R <> None \/ c_auth R <> None) -> forall s, c_path R <> PRel s).

Lemma clean_abs s : dom s -> s <> [] -> clean_segs s = rds s.
Proof. apply clean_is_rds. Qed.

Theorem impl_is_rfc B R : wf_base B -> wf_ref R -> impl_resolve B R = spec_resolve B R.
Proof.
  intros (Bs & Ba & Bp & Bnr) (Rp & Rnr).
  destruct B as [bs ba bp bq bf], R as [rs ra rp rq rf]. cbn in *.
  destruct bs as [bs|]; [|contradiction Bs; reflexivity]. destruct ba as [ba|]; [|contradiction Ba; reflexivity].
  assert (CB : clean_path true bp = match bp with PEmpty => PAbs [[]] | PAbs s => PAbs (rds s) | PRel s => PAbs (rds s) end).
  { destruct bp as [|b|b]; cbn; [reflexivity| |exfalso; apply (Bnr b); reflexivity]. destruct Bp as [Hd Hne]. rewrite clean_abs by assumption. reflexivity. }
  unfold impl_resolve, spec_resolve, normalise, transform, fix_path, go_resolve_reference, go_resolve_path. cbn.
  destruct rs as [rs|]; [|destruct ra as [ra|]].
  - (* reference with a scheme *)
    assert (Hn : forall s, rp <> PRel s) by (apply Rnr; left; discriminate).
    destruct rp as [|r|r]; cbn; [reflexivity| |exfalso; apply (Hn r); reflexivity].
    destruct Rp as [Hd Hne]. rewrite (clean_abs r Hd Hne), rds_idempotent.
    destruct (rds_nodots r) as [_ Hr]. rewrite clean_abs; [rewrite rds_idempotent; reflexivity|apply rds_dom; exact Hd|exact Hr].
  - (* scheme-relative reference *)
    assert (Hn : forall s, rp <> PRel s) by (apply Rnr; right; discriminate).
    destruct rp as [|r|r]; cbn; [reflexivity| |exfalso; apply (Hn r); reflexivity].
    destruct Rp as [Hd Hne]. rewrite (clean_abs r Hd Hne), rds_idempotent.
    destruct (rds_nodots r) as [_ Hr]. rewrite clean_abs; [rewrite rds_idempotent; reflexivity|apply rds_dom; exact Hd|exact Hr].
  - (* same authority *)
    rewrite CB. destruct rp as [|r|r]; cbn.
    + (* empty path: the base path *)
      destruct bp as [|b|b]; cbn.
      * destruct rq; reflexivity.
      * destruct Bp as [Hd Hne]. destruct (rds_nodots b) as [_ Hr]. rewrite rds_idempotent.
        rewrite clean_abs; [rewrite rds_idempotent; destruct rq; reflexivity|apply rds_dom; exact Hd|exact Hr].
      * exfalso; apply (Bnr b); reflexivity.
    + (* path-absolute *)
      destruct Rp as [Hd Hne]. rewrite (clean_abs r Hd Hne), rds_idempotent.
      destruct (rds_nodots r) as [_ Hr]. rewrite clean_abs; [rewrite rds_idempotent; reflexivity|apply rds_dom; exact Hd|exact Hr].
    + (* path-relative: merge with the directory of the (normalised) base path *)
      destruct Rp as [Hd Hne].
      assert (G : forall b', dom b' -> clean_segs (rds (removelast b' ++ r)) = rds (removelast b' ++ r)).
      { intros b' Hb'. destruct (rds_nodots (removelast b' ++ r)) as [_ Hr].
        rewrite clean_abs; [apply rds_idempotent| |exact Hr]. apply rds_dom. apply dom_app; [apply nonempty_removelast; exact Hb'|exact Hd]. }
      destruct bp as [|b|b]; cbn.
      * pose proof (G [[]] I) as G0. cbn in G0. rewrite G0. reflexivity.
      * destruct Bp as [Hbd Hbne]. rewrite (G (rds b) (rds_dom b Hbd)). reflexivity.
      * exfalso; apply (Bnr b); reflexivity.
Qed.
