(* Proofs/BufferGuards.v — semantics of the GENERATED offset / byteLength guards (int64 wrap arithmetic) *)
From GN Require Import Common.Base Common.Int64 Model.BufferTypes Gen.BufferMethods Model.Buffer Spec.BufferNumSpec.
From Coq Require Import String ZifyBool.
Open Scope string_scope.
Open Scope list_scope.
Open Scope Z_scope.
Ltac Zify.zify_post_hook ::= Z.div_mod_to_equations.

Lemma upd_eq e x v : upd e x v x = v.
Proof. unfold upd. rewrite String.eqb_refl. reflexivity. Qed.

Lemma upd_neq e x v y : String.eqb y x = false -> upd e x v y = e y.
Proof. unfold upd. intros ->. reflexivity. Qed.

Ltac env_simpl :=
  repeat (rewrite upd_eq || rewrite upd_neq by reflexivity);
  unfold lens_of, empty_env; cbn [String.eqb Ascii.eqb Bool.eqb].

Definition len_ok (buf : list Z) : Prop := Z.of_nat (List.length buf) < 2 ^ 62.

Ltac arith :=
  unfold holds; cbn [eval eval_bin]; env_simpl; unfold b2z, wrap64, in_i64, two63, two64 in *;
  repeat match goal with
         | |- context [Z.ltb ?a ?b] => destruct (Z.ltb_spec a b)
         | |- context [Z.gtb ?a ?b] => rewrite (Z.gtb_ltb a b); destruct (Z.ltb_spec b a)
         | |- context [Z.leb ?a ?b] => destruct (Z.leb_spec a b)
         | |- context [Z.geb ?a ?b] => rewrite (Z.geb_leb a b); destruct (Z.leb_spec b a)
         end; simpl; try reflexivity; try (exfalso; lia).

(* getOffsetArgument: the generated guard fires exactly when [offset, offset+numBytes) is not inside the buffer,
   for EVERY int64 offset — no wrap-around escape *)
Lemma off_guard_sem off n buf :
  in_i64 off -> 0 <= n <= 8 -> len_ok buf ->
  guard_fires off_guard (upd (upd empty_env "offset" off) "numBytes" n) buf (GVInt off)
  = if in_buffer buf off n then None else Some 2.
Proof.
  intros Hoff Hn Hlen. unfold len_ok in Hlen. unfold off_guard, guard_fires, in_buffer.
  pose proof (Zle_0_nat (List.length buf)) as Hl0.
  assert (H62 : 2 ^ 62 = 4611686018427387904) by reflexivity. rewrite H62 in Hlen.
  arith.
Qed.

(* getVariableLengthArguments: byteLength in 1..6, then the same offset test *)
Lemma var_guards_sem off bl buf :
  in_i64 off -> in_i64 bl -> len_ok buf ->
  first_firing var_guards (upd (upd empty_env "offset" off) "byteLength" bl) buf (GVInt off)
  = if (1 <=? bl) && (bl <=? 6) then (if in_buffer buf off bl then None else Some 2) else Some 2.
Proof.
  intros Hoff Hbl Hlen. unfold len_ok in Hlen. unfold var_guards, first_firing, guard_fires, in_buffer.
  pose proof (Zle_0_nat (List.length buf)) as Hl0.
  assert (H62 : 2 ^ 62 = 4611686018427387904) by reflexivity. rewrite H62 in Hlen.
  arith.
Qed.
