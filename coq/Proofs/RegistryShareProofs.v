(* Proofs/RegistryShareProofs.v — each source file is fetched and compiled at most once per Registry, whatever the
   order in which runtimes ask for it; a file that fails to load is asked for again (nothing is cached for it). *)
From Coq Require Import String List Bool Arith Lia.
From GN Require Import Model.RegistryShare.
Import ListNotations.

Section Cache.
Variable ok : nat -> bool.

Definition inv (s : cstate) : Prop :=
  forall p, (In p (compiled s) -> ok p = true /\ count_occ Nat.eq_dec (loads s) p = 1) /\
            (~ In p (compiled s) -> ok p = true -> count_occ Nat.eq_dec (loads s) p = 0).

Lemma existsb_in p l : existsb (Nat.eqb p) l = true <-> In p l.
Proof. rewrite existsb_exists. split; [intros (y & Hy & E); apply Nat.eqb_eq in E; subst; exact Hy|intro H; exists p; split; [exact H|apply Nat.eqb_refl]]. Qed.

Lemma count_snoc l p q : count_occ Nat.eq_dec (l ++ [q]) p = count_occ Nat.eq_dec l p + (if Nat.eq_dec q p then 1 else 0).
Proof. rewrite count_occ_app. cbn. destruct (Nat.eq_dec q p); lia. Qed.

Lemma request_inv s q : inv s -> inv (request ok s q).
Proof.
  intros I. unfold request. destruct (existsb (Nat.eqb q) (compiled s)) eqn:E; [exact I|].
  assert (Hq : ~ In q (compiled s)) by (intro H; apply existsb_in in H; congruence).
  destruct (ok q) eqn:Oq; intro p; cbn [compiled loads]; rewrite count_snoc; destruct (Nat.eq_dec q p) as [->|Hne].
  - split; [intros _; split; [exact Oq|rewrite (proj2 (I p) Hq Oq); reflexivity]|intro H; exfalso; apply H; left; reflexivity].
  - split.
    + intros [H|H]; [congruence|]. destruct (proj1 (I p) H) as [A B]. split; [exact A|lia].
    + intros H Op. rewrite (proj2 (I p)); [lia| |exact Op]. intro Hin. apply H. right. exact Hin.
  - split; [intro H; contradiction|intros _ Op; congruence].
  - split.
    + intro H. destruct (proj1 (I p) H) as [A B]. split; [exact A|lia].
    + intros H Op. rewrite (proj2 (I p) H Op). lia.
Qed.

Lemma inv_empty : inv empty.
Proof. intro p. split; [intros []|intros _ _; reflexivity]. Qed.

Theorem requests_inv ps : forall s, inv s -> inv (requests ok s ps).
Proof. induction ps as [|q r IH]; intros s I; [exact I|]. cbn. apply IH. apply request_inv. exact I. Qed.

(* at most once, for every sequence of requests from any number of runtimes *)
Theorem loaded_at_most_once ps p : ok p = true -> count_occ Nat.eq_dec (loads (requests ok empty ps)) p <= 1.
Proof.
  intro Op. pose proof (requests_inv ps empty inv_empty p) as [A B].
  destruct (in_dec Nat.eq_dec p (compiled (requests ok empty ps))) as [H|H]; [destruct (A H) as [_ C]; lia|rewrite (B H Op); lia].
Qed.

(* exactly once if anybody asked *)
Lemma request_compiles s q : ok q = true -> In q (compiled (request ok s q)).
Proof. intro O. unfold request. destruct (existsb (Nat.eqb q) (compiled s)) eqn:E; [apply existsb_in; exact E|]. rewrite O. left. reflexivity. Qed.
Lemma request_keeps s q p : In p (compiled s) -> In p (compiled (request ok s q)).
Proof. intro H. unfold request. destruct (existsb _ _); [exact H|]. destruct (ok q); [right; exact H|exact H]. Qed.
Lemma requests_keeps ps : forall s p, In p (compiled s) -> In p (compiled (requests ok s ps)).
Proof. induction ps as [|q r IH]; intros s p H; [exact H|]. cbn. apply IH. apply request_keeps. exact H. Qed.

Theorem loaded_exactly_once ps p : ok p = true -> In p ps -> count_occ Nat.eq_dec (loads (requests ok empty ps)) p = 1.
Proof.
  intros Op Hin. pose proof (requests_inv ps empty inv_empty p) as [A _]. apply A.
  clear A. generalize empty. induction ps as [|q r IH]; intro s; [contradiction|]. cbn. destruct Hin as [->|Hin].
  - apply requests_keeps. apply request_compiles. exact Op.
  - apply IH. exact Hin.
Qed.

(* the result does not depend on the order in which the runtimes' requests are served *)
Theorem order_irrelevant ps qs p : ok p = true -> (In p ps <-> In p qs) ->
  count_occ Nat.eq_dec (loads (requests ok empty ps)) p = count_occ Nat.eq_dec (loads (requests ok empty qs)) p.
Proof.
  intros Op H. destruct (in_dec Nat.eq_dec p ps) as [Hi|Hn].
  - rewrite (loaded_exactly_once ps p Op Hi), (loaded_exactly_once qs p Op (proj1 H Hi)). reflexivity.
  - assert (Hq : ~ In p qs) by (intro X; apply Hn; apply H; exact X).
    assert (Z : forall l, ~ In p l -> count_occ Nat.eq_dec (loads (requests ok empty l)) p = 0).
    { intros l Hl. assert (G : forall s, count_occ Nat.eq_dec (loads s) p = 0 -> count_occ Nat.eq_dec (loads (requests ok s l)) p = 0).
      { induction l as [|q r IH]; intros s Hs; [exact Hs|]. cbn. apply IH; [intro X; apply Hl; right; exact X|].
        unfold request. destruct (existsb _ _); [exact Hs|]. destruct (ok q); cbn; rewrite count_snoc, Hs;
          destruct (Nat.eq_dec q p) as [->|]; try reflexivity; exfalso; apply Hl; left; reflexivity. }
      apply G. reflexivity. }
    rewrite (Z ps Hn), (Z qs Hq). reflexivity.
Qed.

End Cache.
