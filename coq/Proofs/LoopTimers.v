(* Proofs/LoopTimers.v — invariants of the timer bookkeeping of Model/Loop.v: the job count is the number of live jobs
   (+1 while a background run counts itself), one-shot jobs run at most once, a cancelled job never runs, and every
   runtime timer / helper goroutine that still exists is registered in loop.jobs. *)
From GN Require Import Common.Base Model.Loop Proofs.LoopFrame.
From RecordUpdate Require Import RecordSet.
Import RecordSetNotations.
Open Scope Z_scope.

Definition once (t : tjob) : Prop :=
  tj_kind t <> TInterval -> (tj_calls t <= 1)%nat /\ (tj_calls t = 1%nat -> tj_cancelled t = true).

(* what must hold of one job given the registry *)
Definition good (js : list Z) (t : tjob) : Prop :=
  once t /\
  (tj_h t <> HDone -> In (tj_id t) js) /\
  (tj_kind t <> TImmediate -> ~ In (tj_id t) js -> tj_cancelled t = true /\ tj_h t = HDone) /\
  (tj_kind t = TImmediate -> tj_h t = HDone) /\
  (tj_cleared t = true -> tj_cancelled t = true).

Definition TJ (ts : list tjob) (js : list Z) : Prop :=
  NoDup (map tj_id ts) /\ forall t, In t ts -> good js t.

Lemma NoDup_app_single (l : list Z) x : NoDup l -> ~ In x l -> NoDup (l ++ [x]).
Proof.
  induction l as [|y r IH]; cbn; intros Hnd Hni; [constructor; [tauto|constructor]|].
  inversion Hnd; subst. constructor.
  - intro Hin. apply in_app_or in Hin. destruct Hin as [Hin|[->|[]]]; tauto.
  - apply IH; tauto.
Qed.

Lemma TJ_upd ts js js' id f t :
  TJ ts js -> find_t ts id = Some t -> (forall x, tj_id (f x) = tj_id x) ->
  good js' (f t) -> (forall x, In x ts -> tj_id x <> id -> good js x -> good js' x) ->
  TJ (upd_t ts id f) js'.
Proof.
  intros [Hnd Hg] Hfind Hid Hnew Hoth. split.
  - rewrite upd_ids; assumption.
  - intros x Hin. destruct (Z.eq_dec (tj_id x) id) as [He|Hne].
    + destruct (in_upd_same _ _ _ _ Hnd Hid Hin He) as [t' [Hf' ->]]. rewrite Hfind in Hf'. inversion Hf'; subst. exact Hnew.
    + pose proof (in_upd_other _ _ _ _ Hnd Hid Hin Hne) as Hin'. apply Hoth; auto.
Qed.

Lemma TJ_app ts js js' t :
  TJ ts js -> find_t ts (tj_id t) = None -> good js' t -> (forall x, In x ts -> good js x -> good js' x) -> TJ (ts ++ [t]) js'.
Proof.
  intros [Hnd Hg] Hnone Hnew Hoth. split.
  - rewrite map_app. cbn. apply NoDup_app_single; [exact Hnd|apply find_none_notin; exact Hnone].
  - intros x Hin. apply in_app_or in Hin. destruct Hin as [Hin|[<-|[]]]; [apply Hoth; auto|exact Hnew].
Qed.

Lemma TJ_jobs ts js js' : TJ ts js -> (forall x, In x ts -> good js x -> good js' x) -> TJ ts js'.
Proof. intros [Hnd Hg] H. split; [exact Hnd|]. intros x Hin. apply H; auto. Qed.

Lemma good_add js i x : good js x -> good (js ++ [i]) x.
Proof.
  intros (H1 & H2 & H3 & H4 & H5). split; [exact H1|]. split; [|split; [|split; assumption]].
  - intro H. apply in_or_app; left; auto.
  - intros Hk Hni. apply H3; auto. intro; apply Hni. apply in_or_app; left; auto.
Qed.

Lemma good_remove js i x : tj_id x <> i -> good js x -> good (remove_job js i) x.
Proof.
  intros Hne (H1 & H2 & H3 & H4 & H5). split; [exact H1|]. split; [|split; [|split; assumption]].
  - intro H. apply in_remove_job; split; auto.
  - intros Hk Hni. apply H3; auto. intro Hin; apply Hni. apply in_remove_job; split; auto.
Qed.

(* ---- what every event preserves of each job (C05: cancelled is for ever, a cancelled job never runs) ---- *)
Definition keeps_ts (ts ts' : list tjob) : Prop :=
  forall id t, find_t ts id = Some t ->
    exists t', find_t ts' id = Some t' /\ tj_kind t' = tj_kind t /\
      (tj_h t = HDone -> tj_h t' = HDone) /\
      (tj_cancelled t = true -> tj_cancelled t' = true /\ tj_calls t' = tj_calls t) /\
      (tj_calls t <= tj_calls t')%nat /\
      (tj_cleared t = true -> tj_cleared t' = true).

Lemma keeps_refl ts : keeps_ts ts ts.
Proof. intros id t H. exists t. repeat split; auto. Qed.

Lemma keeps_trans a b c : keeps_ts a b -> keeps_ts b c -> keeps_ts a c.
Proof.
  intros H1 H2 id t Hf. destruct (H1 _ _ Hf) as (t1 & Hf1 & Hk1 & Hh1 & Hc1 & Hn1 & Hl1).
  destruct (H2 _ _ Hf1) as (t2 & Hf2 & Hk2 & Hh2 & Hc2 & Hn2 & Hl2).
  exists t2. split; [exact Hf2|]. split; [congruence|]. split; [auto|]. split; [|split; [lia|auto]].
  intro Hc. destruct (Hc1 Hc) as [Hc1' Hn1']. destruct (Hc2 Hc1') as [Hc2' Hn2']. split; [auto|congruence].
Qed.

Lemma keeps_app ts t : find_t ts (tj_id t) = None -> keeps_ts ts (ts ++ [t]).
Proof. intros Hn id x Hf. exists x. split; [apply find_app_some; exact Hf|]. repeat split; auto. Qed.

Lemma keeps_upd ts id f :
  (forall x, tj_id (f x) = tj_id x) ->
  (forall t, find_t ts id = Some t ->
     tj_kind (f t) = tj_kind t /\ (tj_h t = HDone -> tj_h (f t) = HDone) /\
     (tj_cancelled t = true -> tj_cancelled (f t) = true /\ tj_calls (f t) = tj_calls t) /\ (tj_calls t <= tj_calls (f t))%nat /\
     (tj_cleared t = true -> tj_cleared (f t) = true)) ->
  keeps_ts ts (upd_t ts id f).
Proof.
  intros Hid Hf id' t Hfind. destruct (Z.eq_dec id' id) as [->|Hne].
  - exists (f t). split; [apply find_upd_same; auto|]. apply Hf. exact Hfind.
  - exists t. split; [rewrite find_upd_other; auto|]. repeat split; auto.
Qed.

Definition counted (p : lphase) : bool :=
  match p with LHead | LBlocked | LArmW | LArmJ | LW0 | LWB | LWD | LBreak => true | _ => false end.
Definition bgc (s : lstate) : Z := if background s && counted (phase s) then 1 else 0.

(* ---- each timer operation ---- *)
Lemma once_mk id k h : once (mk_t id k h).
Proof. intros _. cbn. split; [lia|discriminate]. Qed.

Lemma do_set_T s id k s' :
  do_set s id k = Some s' -> TJ (timers s) (jobs s) ->
  TJ (timers s') (jobs s') /\ jobcount s' - live s' = jobcount s - live s /\ keeps_ts (timers s) (timers s').
Proof.
  unfold do_set. destruct (find_t (timers s) id) eqn:Ef; [discriminate|]. intros H T; inversion H; subst; clear H.
  assert (Hl : live_of (timers s ++ [mk_t id k (h_of_kind k)]) = live s + 1) by (rewrite live_of_app; reflexivity).
  unfold live in *. destruct k; cbn -[live_of mk_t h_of_kind]; rewrite Hl.
  - split; [|split; [lia|apply keeps_app; exact Ef]]. apply TJ_app with (js := jobs s); auto.
    + split; [apply once_mk|]. cbn. split; [intros _; apply in_or_app; right; left; reflexivity|].
      split; [intros _ Hni; exfalso; apply Hni; apply in_or_app; right; left; reflexivity|]. split; discriminate.
    + intros x _ Hg. apply good_add. exact Hg.
  - split; [|split; [lia|apply keeps_app; exact Ef]]. apply TJ_app with (js := jobs s); auto.
    + split; [apply once_mk|]. cbn. split; [intros _; apply in_or_app; right; left; reflexivity|].
      split; [intros _ Hni; exfalso; apply Hni; apply in_or_app; right; left; reflexivity|]. split; discriminate.
    + intros x _ Hg. apply good_add. exact Hg.
  - split; [|split; [lia|apply keeps_app; exact Ef]]. apply TJ_app with (js := jobs s); auto.
    split; [apply once_mk|]. cbn. split; [intro Hx; exfalso; apply Hx; reflexivity|].
    split; [intro Hx; exfalso; apply Hx; reflexivity|]. split; [reflexivity|discriminate].
Qed.

Ltac good_tac Hg :=
  let G1 := fresh "G" in let G2 := fresh "G" in let G3 := fresh "G" in let G4 := fresh "G" in let G5 := fresh "G" in
  destruct Hg as (G1 & G2 & G3 & G4 & G5); unfold good, once in *; cbn in *;
  repeat split; intros;
  try solve [ congruence | discriminate | lia | tauto
            | exfalso; auto
            | match goal with H : _ -> _ /\ _ |- _ => apply H; (congruence || assumption || discriminate) end
            | intuition (try congruence; try discriminate; try lia) ].

Lemma do_clear_T s id st s' :
  do_clear s id st = Some s' -> TJ (timers s) (jobs s) ->
  TJ (timers s') (jobs s') /\ jobcount s' - live s' = jobcount s - live s /\ keeps_ts (timers s) (timers s').
Proof.
  unfold do_clear, live. destruct (find_t (timers s) id) as [t|] eqn:Ef.
  2: { destruct st; [discriminate|]. intros H T; inversion H; subst. split; [exact T|split; [reflexivity|apply keeps_refl]]. }
  destruct (tj_cancelled t) eqn:Ec.
  { destruct st; [discriminate|]. intros H T; inversion H; subst. split; [exact T|split; [reflexivity|apply keeps_refl]]. }
  intros H T. pose proof (find_in _ _ _ Ef) as Hin. pose proof (find_id _ _ _ Ef) as Hid. destruct T as [Hnd Hg]. pose proof (Hg _ Hin) as Hgt.
  assert (Hmid : forall h x, tj_id (mark_cleared h x) = tj_id x) by reflexivity.
  destruct (tj_kind t) eqn:Ek; destruct st; try discriminate; try (destruct (tj_h t) eqn:Eh; try discriminate);
    inversion H; subst; clear H; cbn -[live_of];
    (split; [|split; [erewrite live_of_upd_cancel by (try exact Ef; try exact Ec; reflexivity); lia|]]).
  all: try (apply keeps_upd; [apply Hmid|]; intros t0 Ht0; rewrite Ef in Ht0; inversion Ht0; subst t0; cbn;
            repeat split; intros; try congruence; try lia; try discriminate).
  all: eapply TJ_upd with (js := jobs s); try exact Ef; try apply Hmid; try (split; assumption).
  all: try (intros x Hx Hne Hgx; first [apply good_remove; assumption | exact Hgx]).
  all: good_tac Hgt.
Qed.

Lemma once_not_cancelled t : once t -> tj_cancelled t = false -> tj_kind t <> TInterval -> tj_calls t = 0%nat.
Proof.
  intros Ho Hc Hk. destruct (Ho Hk) as [Ha Hb]. destruct (tj_calls t) as [|[|n]]; [reflexivity| |lia].
  rewrite Hb in Hc by reflexivity. discriminate.
Qed.

Lemma mark_fired_id x : tj_id (mark_fired x) = tj_id x. Proof. reflexivity. Qed.
Lemma mark_tick_id x : tj_id (mark_tick x) = tj_id x. Proof. reflexivity. Qed.

(* doTimeout: the message was delivered, so the helper is done *)
Lemma do_timeout_T s id :
  TJ (timers s) (jobs s) -> (forall t, find_t (timers s) id = Some t -> tj_h t = HDone /\ tj_kind t = TTimeout) ->
  TJ (timers (do_timeout s id)) (jobs (do_timeout s id)) /\
  jobcount (do_timeout s id) - live (do_timeout s id) = jobcount s - live s /\ keeps_ts (timers s) (timers (do_timeout s id)).
Proof.
  intros T Hd. unfold do_timeout, live. destruct (find_t (timers s) id) as [t|] eqn:Ef.
  2: { cbn. split; [|split; [reflexivity|apply keeps_refl]]. eapply TJ_jobs; [exact T|]. intros x Hx Hg.
       apply good_remove; [|exact Hg]. intro He. pose proof (in_find _ _ (proj1 T) Hx) as Hf. rewrite He in Hf. congruence. }
  destruct (Hd _ eq_refl) as [Hh Hk]. pose proof (find_in _ _ _ Ef) as Hin. pose proof (find_id _ _ _ Ef) as Hid.
  destruct T as [Hnd Hg]. pose proof (Hg _ Hin) as Hgt.
  destruct (tj_cancelled t) eqn:Ec; cbn -[live_of].
  - split; [|split; [reflexivity|apply keeps_refl]]. split; [exact Hnd|]. intros x Hx.
    destruct (Z.eq_dec (tj_id x) id) as [He|Hne].
    + assert (x = t) as -> by (pose proof (in_find _ _ Hnd Hx) as Hf; rewrite He in Hf; congruence).
      destruct Hgt as (G1 & G2 & G3 & G4 & G5). split; [exact G1|]. split; [intro; congruence|]. split; [intros; split; assumption|]. split; assumption.
    + apply good_remove; auto.
  - split; [|split; [erewrite live_of_upd_cancel by (try exact Ef; try exact Ec; reflexivity); lia|]].
    + eapply TJ_upd with (js := jobs s); try exact Ef; try apply mark_fired_id; try (split; assumption).
      * subst id. pose proof (once_not_cancelled _ (proj1 Hgt) Ec) as Hz. good_tac Hgt.
      * intros x Hx Hne Hgx. apply good_remove; assumption.
    + apply keeps_upd; [apply mark_fired_id|]. intros t0 Ht0. rewrite Ef in Ht0; inversion Ht0; subst t0. cbn.
      repeat split; intros; try congruence; try lia.
Qed.

Lemma do_immediate_T s id :
  TJ (timers s) (jobs s) -> (forall t, find_t (timers s) id = Some t -> tj_kind t = TImmediate) ->
  TJ (timers (do_immediate s id)) (jobs (do_immediate s id)) /\
  jobcount (do_immediate s id) - live (do_immediate s id) = jobcount s - live s /\ keeps_ts (timers s) (timers (do_immediate s id)).
Proof.
  intros T Hd. unfold do_immediate, live. destruct (find_t (timers s) id) as [t|] eqn:Ef.
  2: { split; [exact T|split; [reflexivity|apply keeps_refl]]. }
  pose proof (Hd _ eq_refl) as Hk. pose proof (find_in _ _ _ Ef) as Hin. pose proof (find_id _ _ _ Ef) as Hid.
  destruct T as [Hnd Hg]. pose proof (Hg _ Hin) as Hgt.
  destruct (tj_cancelled t) eqn:Ec; cbn -[live_of].
  - split; [split; assumption|split; [reflexivity|apply keeps_refl]].
  - split; [|split; [erewrite live_of_upd_cancel by (try exact Ef; try exact Ec; reflexivity); lia|]].
    + eapply TJ_upd with (js := jobs s); try exact Ef; try apply mark_fired_id; try (split; assumption).
      * subst id. pose proof (once_not_cancelled _ (proj1 Hgt) Ec) as Hz. good_tac Hgt.
      * intros x Hx Hne Hgx. exact Hgx.
    + apply keeps_upd; [apply mark_fired_id|]. intros t0 Ht0. rewrite Ef in Ht0; inversion Ht0; subst t0. cbn.
      repeat split; intros; try congruence; try lia.
Qed.

Lemma do_tick_T s id :
  TJ (timers s) (jobs s) -> (forall t, find_t (timers s) id = Some t -> tj_kind t = TInterval) ->
  TJ (timers (do_tick s id)) (jobs (do_tick s id)) /\
  jobcount (do_tick s id) - live (do_tick s id) = jobcount s - live s /\ keeps_ts (timers s) (timers (do_tick s id)).
Proof.
  intros T Hd. unfold do_tick, live. destruct (find_t (timers s) id) as [t|] eqn:Ef.
  2: { split; [exact T|split; [reflexivity|apply keeps_refl]]. }
  pose proof (Hd _ eq_refl) as Hk. pose proof (find_in _ _ _ Ef) as Hin. pose proof (find_id _ _ _ Ef) as Hid.
  destruct T as [Hnd Hg]. pose proof (Hg _ Hin) as Hgt.
  destruct (tj_cancelled t) eqn:Ec; cbn -[live_of].
  - split; [split; assumption|split; [reflexivity|apply keeps_refl]].
  - split; [|split; [rewrite live_of_upd_same by reflexivity; lia|]].
    + eapply TJ_upd with (js := jobs s); try exact Ef; try apply mark_tick_id; try (split; assumption).
      * subst id. good_tac Hgt.
      * intros x Hx Hne Hgx. exact Hgx.
    + apply keeps_upd; [apply mark_tick_id|]. intros t0 Ht0. rewrite Ef in Ht0; inversion Ht0; subst t0. cbn.
      repeat split; intros; try congruence; try lia.
Qed.

(* the expiry goroutine appeared (timer_fire), or completed its last send (delivered) *)
Lemma set_h_T s id h :
  TJ (timers s) (jobs s) ->
  (forall t, find_t (timers s) id = Some t ->
     (h = HRunning /\ tj_h t <> HDone) \/ (h = HDone /\ tj_kind t <> TImmediate /\ (~ In id (jobs s) -> tj_cancelled t = true))) ->
  TJ (timers (set_h s id h)) (jobs (set_h s id h)) /\ live (set_h s id h) = live s /\ keeps_ts (timers s) (timers (set_h s id h)).
Proof.
  intros T Hd. unfold set_h, live. cbn -[live_of]. destruct (find_t (timers s) id) as [t|] eqn:Ef.
  2: { assert (upd_t (timers s) id (fun t => t <| tj_h := h |>) = timers s) as ->.
       { clear T Hd. induction (timers s) as [|x r IH]; cbn in *; [reflexivity|]. destruct (tj_id x =? id); [discriminate|]. rewrite IH; auto. }
       split; [exact T|split; [reflexivity|apply keeps_refl]]. }
  pose proof (find_in _ _ _ Ef) as Hin. pose proof (find_id _ _ _ Ef) as Hid. destruct T as [Hnd Hg]. pose proof (Hg _ Hin) as Hgt.
  split; [|split; [apply live_of_upd_same; reflexivity|]].
  - eapply TJ_upd with (js := jobs s); try exact Ef; try reflexivity; try (split; assumption).
    + subst id. destruct (Hd _ eq_refl) as [[-> Hn]|(-> & Hk & Hc)]; good_tac Hgt.
    + intros x Hx Hne Hgx. exact Hgx.
  - apply keeps_upd; [reflexivity|]. intros t0 Ht0. rewrite Ef in Ht0; inversion Ht0; subst t0. cbn.
    destruct (Hd _ eq_refl) as [[-> Hn]|(-> & Hk & Hc)]; repeat split; intros; try congruence; try lia.
Qed.

Lemma remove_T s id :
  TJ (timers s) (jobs s) -> (forall t, find_t (timers s) id = Some t -> tj_h t = HDone /\ tj_cancelled t = true) ->
  TJ (timers s) (remove_job (jobs s) id).
Proof.
  intros [Hnd Hg] Hd. split; [exact Hnd|]. intros x Hx. destruct (Z.eq_dec (tj_id x) id) as [He|Hne].
  - pose proof (in_find _ _ Hnd Hx) as Hf. rewrite He in Hf. destruct (Hd _ Hf) as [Hh Hc].
    destruct (Hg _ Hx) as (G1 & G2 & G3 & G4 & G5). split; [exact G1|]. split; [intro; congruence|]. split; [intros; split; assumption|]. split; assumption.
  - apply good_remove; auto.
Qed.

(* ---- the invariant ---- *)
Definition pend_ok (ts : list tjob) (m : option jmsg) : Prop :=
  match m with
  | Some (JTimeout id) => exists t, find_t ts id = Some t /\ tj_h t = HDone /\ tj_kind t = TTimeout
  | Some (JTick id) => exists t, find_t ts id = Some t /\ tj_kind t = TInterval
  | Some (JRemove id) => exists t, find_t ts id = Some t /\ tj_h t = HDone /\ tj_cancelled t = true
  | None => True
  end.

Lemma pend_ok_keeps ts ts' m : keeps_ts ts ts' -> pend_ok ts m -> pend_ok ts' m.
Proof.
  intros K. destruct m as [[id|id|id]|]; cbn; auto.
  - intros (t & Hf & Hh & Hk). destruct (K _ _ Hf) as (t' & Hf' & Hk' & Hh' & _). exists t'. repeat split; auto; congruence.
  - intros (t & Hf & Hk). destruct (K _ _ Hf) as (t' & Hf' & Hk' & _). exists t'. split; auto; congruence.
  - intros (t & Hf & Hh & Hc). destruct (K _ _ Hf) as (t' & Hf' & Hk' & Hh' & Hc' & _). exists t'. repeat split; auto. apply Hc'; auto.
Qed.

Record InvT (s : lstate) : Prop := mkInvT {
  t_tj : TJ (timers s) (jobs s);
  t_count : jobcount s = live s + bgc s;
  t_pend : pend_ok (timers s) (pending s)
}.

Lemma InvT_init : InvT init.
Proof. constructor; cbn; [split; [constructor|intros t []]|reflexivity|exact I]. Qed.
Lemma InvT_init_after_setup : InvT init_after_setup.
Proof. constructor; cbn; [split; [constructor|intros t []]|reflexivity|exact I]. Qed.

Lemma bgc_same_ctl s s' : same_ctl s s' -> bgc s' = bgc s.
Proof. unfold same_ctl, bgc. intros (_ & _ & _ & _ & _ & Hp & Hb & _). rewrite Hp, Hb. reflexivity. Qed.
Lemma pending_same_ctl s s' : same_ctl s s' -> pending s' = pending s.
Proof. unfold same_ctl. intuition. Qed.

(* a timer operation applied to a state that satisfies the invariant *)
Lemma InvT_op s s' :
  same_ctl s s' -> TJ (timers s') (jobs s') -> jobcount s' - live s' = jobcount s - live s -> keeps_ts (timers s) (timers s') ->
  InvT s -> InvT s'.
Proof.
  intros Hc T Hn K [T0 Hcount Hp]. constructor; [exact T| |].
  - rewrite (bgc_same_ctl _ _ Hc). lia.
  - rewrite (pending_same_ctl _ _ Hc). eapply pend_ok_keeps; eauto.
Qed.
