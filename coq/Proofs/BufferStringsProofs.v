From GN Require Import Common.Base Common.Int64 Model.BufferTypes Gen.BufferMethods Model.Buffer Model.Codecs Gen.BufferCodecs
  Model.BufferStrings Spec.BufferNumSpec Spec.BufferStringsSpec Proofs.BufferBytes Proofs.BufferGuards Proofs.BufferNumRefine.
From Coq Require Import String.
Open Scope list_scope.
Open Scope Z_scope.

Lemma coerced_sem a d m :
  coerced a d m = match a with ANum v _ => v | AUndef => d | _ => m end.
Proof.
  unfold coerced, coerce_int.
  assert (H : assoc_s "CoercedIntegerArgument" coerce_rules = Some (NumToInteger, UndefDefault, OtherMismatch)) by reflexivity.
  rewrite H. destruct a; reflexivity.
Qed.

(* toString(enc, start, end) is the encoding of the clamped sub-range, for every start and end *)
Theorem to_string_clamped bb e c a_start a_end :
  codec_strict e = Some c ->
  to_string bb e a_start a_end = SStr (spec_to_string c bb a_start a_end).
Proof.
  intro Hc. unfold to_string, spec_to_string. rewrite Hc. rewrite !coerced_sem.
  set (len := Z.of_nat (List.length bb)).
  assert (Hlen : 0 <= len) by (unfold len; lia).
  unfold num_or. set (s := match a_start with ANum v _ => v | AUndef => 0 | _ => 0 end).
  set (t := match a_end with ANum v _ => v | AUndef => len | _ => 0 end).
  unfold clamp, subrange, slice. fold len.
  (* the three control-flow paths *)
  destruct (Z.ltb_spec s 0) as [Hs|Hs].
  - (* start clamped to 0 *)
    rewrite Z.geb_leb. destruct (Z.ltb_spec t 0) as [Ht|Ht]; cbn [orb].
    + replace (Z.max 0 (Z.min t len)) with 0 by lia. replace (Z.max 0 (Z.min s len)) with 0 by lia.
      cbn. destruct c; reflexivity.
    + destruct (Z.leb_spec t 0) as [Ht0|Ht0].
      * replace (Z.max 0 (Z.min t len)) with 0 by lia. replace (Z.max 0 (Z.min s len)) with 0 by lia. cbn. destruct c; reflexivity.
      * rewrite Z.gtb_ltb. destruct (Z.ltb_spec len t) as [Hl|Hl].
        -- replace (Z.max 0 (Z.min t len)) with len by lia. replace (Z.max 0 (Z.min s len)) with 0 by lia.
           replace ((0 <=? 0) && (0 <=? len) && (len <=? len)) with true by (symmetry; rewrite !andb_true_iff; repeat split; apply Z.leb_le; lia).
           reflexivity.
        -- replace (Z.max 0 (Z.min t len)) with t by lia. replace (Z.max 0 (Z.min s len)) with 0 by lia.
           replace ((0 <=? 0) && (0 <=? t) && (t <=? len)) with true by (symmetry; rewrite !andb_true_iff; repeat split; apply Z.leb_le; lia).
           reflexivity.
  - rewrite Z.geb_leb. destruct (Z.leb_spec len s) as [Hsl|Hsl].
    + (* start beyond the buffer: empty *)
      replace (Z.max 0 (Z.min s len)) with len by lia.
      assert (He : Z.max 0 (Z.min t len) - len <= 0) by lia.
      replace (Z.to_nat (Z.max 0 (Z.min t len) - len)) with 0%nat by lia. cbn. destruct c; reflexivity.
    + replace (Z.max 0 (Z.min s len)) with s by lia.
      rewrite Z.geb_leb. destruct (Z.ltb_spec t 0) as [Ht|Ht]; cbn [orb].
      * replace (Z.max 0 (Z.min t len)) with 0 by lia. replace (Z.to_nat (0 - s)) with 0%nat by lia. cbn. destruct c; reflexivity.
      * destruct (Z.leb_spec t s) as [Hts|Hts].
        -- replace (Z.to_nat (Z.max 0 (Z.min t len) - s)) with 0%nat by lia. cbn. destruct c; reflexivity.
        -- rewrite Z.gtb_ltb. destruct (Z.ltb_spec len t) as [Hl|Hl].
           ++ replace (Z.max 0 (Z.min t len)) with len by lia.
              replace ((0 <=? s) && (s <=? len) && (len <=? len)) with true by (symmetry; rewrite !andb_true_iff; repeat split; apply Z.leb_le; lia).
              reflexivity.
           ++ replace (Z.max 0 (Z.min t len)) with t by lia.
              replace ((0 <=? s) && (s <=? t) && (t <=? len)) with true by (symmetry; rewrite !andb_true_iff; repeat split; apply Z.leb_le; lia).
              reflexivity.
Qed.

(* ---- fill: the doubling loop produces the cyclic repetition of the decoded pattern ---- *)

Lemma nth_firstn' {A} (l : list A) c j d : (j < c)%nat -> nth j (firstn c l) d = nth j l d.
Proof.
  revert c j; induction l as [|x l IH]; intros [|c] [|j] H; simpl; try reflexivity; try lia.
  apply IH. lia.
Qed.

Section Fill.
Variable p : list Z.
Let m := List.length p.
Hypothesis Hm : (1 <= m)%nat.

Let f (i : nat) : Z := nth (Nat.modulo i m) p 0.

Lemma length_cyclic n : List.length (cyclic p n) = n.
Proof. unfold cyclic. rewrite map_length, seq_length. reflexivity. Qed.

Lemma nth_cyclic n i : (i < n)%nat -> nth i (cyclic p n) 0 = f i.
Proof.
  intro H. unfold cyclic. fold m.
  rewrite (nth_indep _ 0 ((fun i0 : nat => nth (Nat.modulo i0 m) p 0) 0%nat)) by (rewrite map_length, seq_length; exact H).
  rewrite (map_nth (fun i0 : nat => nth (Nat.modulo i0 m) p 0) (seq 0 n) 0%nat i). rewrite seq_nth by exact H. reflexivity.
Qed.

Lemma f_shift k j : f (k * m + j) = f j.
Proof. unfold f. rewrite Nat.add_comm. rewrite Nat.mod_add by lia. reflexivity. Qed.

Lemma cyclic_extend k c : (c <= k * m)%nat ->
  cyclic p (k * m + c) = cyclic p (k * m) ++ firstn c (cyclic p (k * m)).
Proof.
  intro Hc. apply (nth_ext _ _ 0 0).
  - rewrite app_length, firstn_length, !length_cyclic. lia.
  - intros j Hj. rewrite length_cyclic in Hj. rewrite nth_cyclic by exact Hj.
    destruct (Nat.lt_ge_cases j (k * m)) as [Hlt|Hge].
    + rewrite app_nth1 by (rewrite length_cyclic; exact Hlt). rewrite nth_cyclic by exact Hlt. reflexivity.
    + rewrite app_nth2 by (rewrite length_cyclic; exact Hge). rewrite length_cyclic.
      rewrite nth_firstn' by lia. rewrite nth_cyclic by lia.
      replace j with (k * m + (j - k * m))%nat at 1 by lia. apply f_shift.
Qed.

Lemma fill_loop_cyclic fuel : forall buf i,
  let n := List.length buf in
  (i <= n)%nat -> ((exists k, (1 <= k)%nat /\ i = (k * m)%nat) \/ i = n) ->
  firstn i buf = cyclic p i -> (n - i <= fuel)%nat ->
  fill_loop fuel buf i = Some (cyclic p n).
Proof.
  induction fuel as [|fuel IH]; intros buf i n Hi Hinv Hpre Hfuel.
  - assert (i = n) by lia. subst i. cbn [fill_loop]. fold n. rewrite Nat.leb_refl.
    rewrite <- Hpre. unfold n. rewrite firstn_all. reflexivity.
  - cbn [fill_loop]. fold n. destruct (Nat.leb_spec n i) as [Hge|Hlt].
    + assert (i = n) by lia. subst i. rewrite <- Hpre. unfold n. rewrite firstn_all. reflexivity.
    + destruct Hinv as [(k & Hk & Hik)|Hin]; [|lia].
      assert (Hi1 : (1 <= i)%nat) by nia.
      set (c := Nat.min (n - i) i).
      assert (Hc : (1 <= c <= i)%nat) by (unfold c; lia).
      destruct (Nat.eqb_spec c 0) as [Hc0|_]; [lia|].
      set (buf' := firstn i buf ++ firstn c buf ++ skipn (i + c) buf).
      assert (Hlen' : List.length buf' = n).
      { unfold buf'. rewrite !app_length, !firstn_length, skipn_length. fold n. unfold c. lia. }
      assert (Hfc : firstn c buf = firstn c (cyclic p i)).
      { rewrite <- Hpre. rewrite firstn_firstn. f_equal. lia. }
      assert (Hpre' : firstn (i + c) buf' = cyclic p (i + c)).
      { unfold buf'. rewrite Hpre, Hfc. rewrite app_assoc. rewrite firstn_app.
        assert (Hl : List.length (cyclic p i ++ firstn c (cyclic p i)) = (i + c)%nat)
          by (rewrite app_length, firstn_length, length_cyclic; lia).
        rewrite Hl, Nat.sub_diag. cbn [firstn]. rewrite app_nil_r.
        rewrite firstn_all2 by lia. subst i. symmetry. apply cyclic_extend. lia. }
      specialize (IH buf' (i + c)%nat). cbv zeta in IH. rewrite Hlen' in IH. apply IH.
      * unfold c. lia.
      * destruct (Nat.le_gt_cases i (n - i)) as [Hle|Hgt].
        -- left. exists (2 * k)%nat. split; [lia|]. unfold c. rewrite Nat.min_r by lia. lia.
        -- right. unfold c. rewrite Nat.min_l by lia. lia.
      * exact Hpre'.
      * unfold c. lia.
Qed.

End Fill.

(* Buffer.alloc(size, pattern, enc): the pattern's decoded bytes repeated to the size; an empty pattern leaves
   zeros; a pattern longer than the buffer is cut; never a hang *)
Theorem alloc_fill_cyclic size pattern e c :
  codec_strict e = Some c ->
  let b1 := codec_decode c pattern in
  alloc_fill size pattern e =
  FOk (if Nat.eqb (List.length b1) 0 then repeat 0 size else cyclic b1 size).
Proof.
  intros Hc b1. unfold alloc_fill. rewrite Hc. fold b1.
  set (m := List.length b1).
  destruct (Nat.ltb_spec size m) as [Hlt|Hge].
  - (* cut *)
    destruct (Nat.eqb_spec m 0) as [H0|H0]; [lia|]. f_equal.
    apply (nth_ext _ _ 0 0).
    + rewrite firstn_length, length_cyclic. fold m. lia.
    + intros j Hj. rewrite firstn_length in Hj. fold m in Hj. rewrite nth_firstn' by lia.
      rewrite nth_cyclic by lia. fold m. rewrite Nat.mod_small by lia. reflexivity.
  - destruct (Nat.eqb_spec m 0) as [H0|H0]; [reflexivity|].
    rewrite (fill_loop_cyclic b1 ltac:(fold m; lia) size (b1 ++ skipn m (repeat 0 size)) m).
    + f_equal. f_equal. rewrite app_length, skipn_length, repeat_length. fold m. lia.
    + rewrite app_length, skipn_length, repeat_length. fold m. lia.
    + left. exists 1%nat. split; [lia|]. fold m. lia.
    + rewrite firstn_app. fold m. rewrite Nat.sub_diag. cbn [firstn]. rewrite app_nil_r. unfold m at 1. rewrite firstn_all.
      apply (nth_ext _ _ 0 0).
      * rewrite length_cyclic. reflexivity.
      * intros j Hj. fold m in Hj. rewrite nth_cyclic by exact Hj. fold m. rewrite Nat.mod_small by lia. reflexivity.
    + rewrite app_length, skipn_length, repeat_length. fold m. lia.
Qed.

Theorem from_arraylike_mod256 items : Forall (fun b => 0 <= b < 256) (from_arraylike items) /\
  List.length (from_arraylike items) = List.length items.
Proof.
  unfold from_arraylike. split; [|apply map_length].
  apply Forall_forall. intros x Hx. apply in_map_iff in Hx as (v & <- & _). apply Z.mod_pos_bound. lia.
Qed.
