(* Proofs/LoopTime.v — a timer is never armed for less than the requested delay (C05, arithmetic part). *)
From GN Require Import Common.Base Common.Int64 Gen.LoopSkeleton Model.LoopTime Model.LoopSrc Model.Loop.
From Coq Require Import String ZifyBool.
Open Scope Z_scope.
Ltac Zify.zify_post_hook ::= Z.div_mod_to_equations.

Definition max64 : Z := 9223372036854775807.
Definition min64 : Z := -9223372036854775808.
Definition in64 (z : Z) : Prop := min64 <= z <= max64.

(* the mathematical specification: milliseconds to nanoseconds, saturating at the ends of int64 *)
Definition saturate (z : Z) : Z := if z >? max64 then max64 else if z <? min64 then min64 else z.

Lemma wrap64_small z : in64 z -> wrap64 z = z.
Proof. intros H. apply wrap64_id. unfold in64, min64, max64, in_i64, two63 in *. lia. Qed.

Theorem ms_to_duration_spec ms : in64 ms -> ms_to_duration ms = saturate (ms * 1000000).
Proof.
  intros H. unfold ms_to_duration, ms_branches, ms_default, ms_param. cbn [first_branch].
  unfold holds. cbn [eval eval_bin]. unfold upd. cbn [String.eqb Ascii.eqb Bool.eqb]. cbn [eval eval_bin].
  unfold b2z, saturate, in64, min64, max64 in *.
  destruct (ms >? 9223372036854) eqn:E1; cbn [negb Z.eqb].
  - destruct (ms * 1000000 >? 9223372036854775807) eqn:E2; [reflexivity|lia].
  - destruct (ms <? -9223372036854) eqn:E3; cbn [negb Z.eqb].
    + destruct (ms * 1000000 >? 9223372036854775807) eqn:E2; [lia|]. destruct (ms * 1000000 <? -9223372036854775808) eqn:E4; [reflexivity|lia].
    + rewrite wrap64_small by (unfold in64, min64, max64; lia).
      destruct (ms * 1000000 >? 9223372036854775807) eqn:E2; [lia|]. destruct (ms * 1000000 <? -9223372036854775808) eqn:E4; [lia|reflexivity].
Qed.

(* never early: the armed duration is at least the requested one whenever that is representable, and never negative
   for a non-negative request; it never wraps *)
Theorem ms_to_duration_never_shorter ms : in64 ms -> 0 <= ms ->
  0 <= ms_to_duration ms /\ (ms * 1000000 <= max64 -> ms_to_duration ms = ms * 1000000) /\ (ms * 1000000 > max64 -> ms_to_duration ms = max64).
Proof.
  intros H H0. rewrite ms_to_duration_spec by exact H. unfold saturate, in64, min64, max64 in *.
  destruct (ms * 1000000 >? 9223372036854775807) eqn:E2; [lia|]. destruct (ms * 1000000 <? -9223372036854775808) eqn:E4; lia.
Qed.

Theorem ms_to_duration_monotone a b : in64 a -> in64 b -> a <= b -> ms_to_duration a <= ms_to_duration b.
Proof.
  intros Ha Hb H. rewrite !ms_to_duration_spec by assumption. unfold saturate, in64, min64, max64 in *.
  destruct (a * 1000000 >? 9223372036854775807) eqn:E1; destruct (b * 1000000 >? 9223372036854775807) eqn:E2;
  destruct (a * 1000000 <? -9223372036854775808) eqn:E3; destruct (b * 1000000 <? -9223372036854775808) eqn:E4; lia.
Qed.

(* an interval period is the requested one when positive, else one millisecond: an interval never fires earlier than
   one period after it was set *)
Theorem interval_period_spec d : interval_period d = if d <=? 0 then 1000000 else d.
Proof.
  unfold interval_period, interval_clamp_cond, interval_clamp_value, holds. cbn [eval eval_bin]. unfold upd. cbn [String.eqb Ascii.eqb Bool.eqb].
  unfold b2z. destruct (d <=? 0); reflexivity.
Qed.

Theorem interval_period_positive d : 0 < interval_period d /\ d <= interval_period d.
Proof. rewrite interval_period_spec. destruct (d <=? 0) eqn:E; lia. Qed.

Theorem loop_time_source : loop_time_translated = true.
Proof. reflexivity. Qed.

(* ---- the source the model was written against ---- *)
Theorem loop_source_unchanged : loop_funcs = expected_loop_funcs.
Proof. vm_compute. reflexivity. Qed.

Theorem loop_points_unchanged : loop_points = expected_loop_points.
Proof. vm_compute. reflexivity. Qed.

(* every point of the model is a verifPoint of the source and vice versa *)
Definition pt_name (p : Model.Loop.pt) : string :=
  match p with
  | Model.Loop.aux_lock => "aux_lock"
  | Model.Loop.aux_wakeup => "aux_wakeup"
  | Model.Loop.runaux_swap => "runaux_swap"
  | Model.Loop.runaux_job => "runaux_job"
  | Model.Loop.runaux_done => "runaux_done"
  | Model.Loop.run_enter => "run_enter"
  | Model.Loop.run_select => "run_select"
  | Model.Loop.arm_job => "arm_job"
  | Model.Loop.arm_wakeup => "arm_wakeup"
  | Model.Loop.run_canrun => "run_canrun"
  | Model.Loop.run_leave => "run_leave"
  | Model.Loop.run_exit => "run_exit"
  | Model.Loop.setrunning => "setrunning"
  | Model.Loop.run_fn => "run_fn"
  | Model.Loop.start_go => "start_go"
  | Model.Loop.stop_enter => "stop_enter"
  | Model.Loop.stop_request => "stop_request"
  | Model.Loop.stop_wakeup => "stop_wakeup"
  | Model.Loop.stop_wait => "stop_wait"
  | Model.Loop.stop_return => "stop_return"
  | Model.Loop.stopnowait => "stopnowait"
  | Model.Loop.term_flag => "term_flag"
  | Model.Loop.term_runaux => "term_runaux"
  | Model.Loop.term_cancel => "term_cancel"
  | Model.Loop.term_drain => "term_drain"
  | Model.Loop.term_done => "term_done"
  | Model.Loop.timer_fire => "timer_fire"
  | Model.Loop.timer_sent => "timer_sent"
  | Model.Loop.int_select => "int_select"
  | Model.Loop.int_stop => "int_stop"
  | Model.Loop.int_tick_send => "int_tick_send"
  | Model.Loop.int_remove_send => "int_remove_send"
  | Model.Loop.int_done => "int_done"
  end%string.
Definition all_points : list Model.Loop.pt := [Model.Loop.aux_lock; Model.Loop.aux_wakeup; Model.Loop.runaux_swap; Model.Loop.runaux_job; Model.Loop.runaux_done; Model.Loop.run_enter; Model.Loop.run_select; Model.Loop.arm_job; Model.Loop.arm_wakeup; Model.Loop.run_canrun; Model.Loop.run_leave; Model.Loop.run_exit; Model.Loop.setrunning; Model.Loop.run_fn; Model.Loop.start_go; Model.Loop.stop_enter; Model.Loop.stop_request; Model.Loop.stop_wakeup; Model.Loop.stop_wait; Model.Loop.stop_return; Model.Loop.stopnowait; Model.Loop.term_flag; Model.Loop.term_runaux; Model.Loop.term_cancel; Model.Loop.term_drain; Model.Loop.term_done; Model.Loop.timer_fire; Model.Loop.timer_sent; Model.Loop.int_select; Model.Loop.int_stop; Model.Loop.int_tick_send; Model.Loop.int_remove_send; Model.Loop.int_done].
Definition source_points : list string := List.concat (map snd loop_points).
Theorem points_match :
  forallb (fun n => existsb (String.eqb n) (map pt_name all_points)) source_points = true /\
  forallb (fun p => existsb (String.eqb (pt_name p)) source_points) all_points = true.
Proof. split; vm_compute; reflexivity. Qed.

(* ---- the whole path from the script's delay to the armed duration: never earlier than the delay ---- *)
Lemma delay_millis_in64 v : in64 (delay_millis v).
Proof.
  unfold delay_millis, in64, min64, max64. destruct v as [[n d]|]; [|lia].
  cbv zeta. destruct (cdiv n d >=? 9223372036854775807) eqn:E1; [lia|]. destruct (cdiv n d <=? -9223372036854775808) eqn:E2; lia.
Qed.

(* for every finite non-negative delay n/d milliseconds (fractional, huge, given as a number, a string or an object - whatever
   ToNumber made of it) the timer is armed for at least n/d milliseconds (in nanoseconds: armed * d >= n * 10^6), or for the
   largest duration there is *)
Theorem delay_never_early n d : 0 < d -> 0 <= n ->
  let armed := ms_to_duration (delay_millis (Some (n, d))) in
  armed * d >= n * 1000000 \/ armed = max64.
Proof.
  intros Hd Hn armed. unfold armed. pose proof (delay_millis_in64 (Some (n, d))) as Hin.
  rewrite ms_to_duration_spec by exact Hin. unfold saturate, delay_millis, cdiv, in64, min64, max64 in *. cbv zeta in *.
  destruct (- (- n / d) >=? 9223372036854775807) eqn:E1.
  - right. destruct (9223372036854775807 * 1000000 >? 9223372036854775807) eqn:E; [reflexivity|lia].
  - destruct (- (- n / d) <=? -9223372036854775808) eqn:E2; [lia|].
    destruct (- (- n / d) * 1000000 >? 9223372036854775807) eqn:E3; [right; reflexivity|].
    destruct (- (- n / d) * 1000000 <? -9223372036854775808) eqn:E4; [lia|]. left. nia.
Qed.

(* NaN and negative delays are armed with a non-positive or zero delay: "as soon as possible", never a wrapped huge one *)
Theorem delay_nan_is_zero : ms_to_duration (delay_millis None) = 0.
Proof. rewrite ms_to_duration_spec by (apply delay_millis_in64). reflexivity. Qed.
