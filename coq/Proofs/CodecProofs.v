(* Proofs/CodecProofs.v — round trips of the Buffer string codecs, for all byte sequences *)
From GN Require Import Common.Base Model.Codecs.
From Coq Require Import ZifyBool.
Open Scope Z_scope.
Ltac Zify.zify_post_hook ::= Z.div_mod_to_equations.

Definition wf_byte (c : Z) : Prop := 0 <= c < 256.
Definition wf_bytes (l : list Z) : Prop := Forall wf_byte l.

(* decide every `if` of the goal by linear arithmetic *)
Ltac decide_ifs :=
  repeat match goal with
         | |- context [if ?c then _ else _] =>
           first [ replace c with true by (symmetry; unfold second_ok, cont, is_surrogate; lia)
                 | replace c with false by (symmetry; unfold second_ok, cont, is_surrogate; lia) ]; cbv iota
         end.

(* ---- hex ---- *)
Definition nibbles : list Z := [0;1;2;3;4;5;6;7;8;9;10;11;12;13;14;15].

Lemma hexdig_hexchar_all : forallb (fun n => match hexdig (hexchar n) with Some m => m =? n | None => false end) nibbles = true.
Proof. vm_compute. reflexivity. Qed.

Lemma hexdig_hexchar n : 0 <= n < 16 -> hexdig (hexchar n) = Some n.
Proof.
  intro H. assert (Hin : In n nibbles).
  { unfold nibbles. assert (Hc : n = 0 \/ n = 1 \/ n = 2 \/ n = 3 \/ n = 4 \/ n = 5 \/ n = 6 \/ n = 7 \/ n = 8 \/ n = 9 \/ n = 10 \/ n = 11 \/ n = 12 \/ n = 13 \/ n = 14 \/ n = 15) by lia.
    repeat (destruct Hc as [->|Hc]; [simpl; tauto|]). subst. simpl. tauto. }
  pose proof (proj1 (forallb_forall _ _) hexdig_hexchar_all n Hin) as Hn. cbv beta in Hn.
  destruct (hexdig (hexchar n)) as [m|]; [|discriminate]. apply Z.eqb_eq in Hn. congruence.
Qed.

Theorem hex_roundtrip b : wf_bytes b -> hex_decode (hex_encode b) = b.
Proof.
  induction 1 as [|x b Hx Hb IH]; [reflexivity|].
  unfold wf_byte in Hx. cbn [hex_encode flat_map app hex_decode]. fold (hex_encode b).
  rewrite !hexdig_hexchar by lia. rewrite IH. f_equal. lia.
Qed.

(* hex decoding stops at the first invalid pair and keeps what came before *)
Theorem hex_stops b c d rest : wf_bytes b -> (hexdig c = None \/ hexdig d = None) ->
  hex_decode (hex_encode b ++ c :: d :: rest) = b.
Proof.
  intros Hb Hbad. induction Hb as [|x b Hx Hb IH].
  - cbn [hex_encode flat_map app hex_decode]. destruct Hbad as [-> | Hd]; [reflexivity|]. rewrite Hd. destruct (hexdig c); reflexivity.
  - unfold wf_byte in Hx. cbn [hex_encode flat_map app hex_decode]. fold (hex_encode b).
    rewrite !hexdig_hexchar by lia. rewrite IH. f_equal. lia.
Qed.

(* ---- base64 ---- *)
Definition sextet (v : Z) : Prop := 0 <= v < 64.

Definition idx64 : list Z := map Z.of_nat (seq 0 64).

Lemma in_idx64 v : sextet v -> In v idx64.
Proof. intros [H0 H1]. unfold idx64. apply in_map_iff. exists (Z.to_nat v). split; [lia|]. apply in_seq. lia. Qed.

Definition alpha_ok (alpha : zs) : bool :=
  forallb (fun i => match b64val (b64char alpha i) with Some v => v =? i | None => false end) idx64.

Lemma alpha_std_ok : alpha_ok b64_alpha_std = true.
Proof. vm_compute. reflexivity. Qed.
Lemma alpha_url_ok : alpha_ok b64_alpha_url = true.
Proof. vm_compute. reflexivity. Qed.

Lemma b64val_char alpha i : alpha_ok alpha = true -> sextet i -> b64val (b64char alpha i) = Some i.
Proof.
  intros Ha Hi. pose proof (proj1 (forallb_forall _ _) Ha i (in_idx64 i Hi)) as H. cbv beta in H.
  destruct (b64val (b64char alpha i)) as [v|]; [|discriminate]. apply Z.eqb_eq in H. congruence.
Qed.

Lemma b64_sextets_chars alpha q tail :
  alpha_ok alpha = true -> Forall sextet q -> b64_sextets tail = [] ->
  b64_sextets (map (b64char alpha) q ++ tail) = q.
Proof.
  intros Ha Hq Ht. induction Hq as [|v q Hv Hq IH]; [exact Ht|].
  cbn [map app b64_sextets]. rewrite (b64val_char alpha v Ha Hv). rewrite IH. reflexivity.
Qed.

Lemma list_ind3 {A} (P : list A -> Prop) :
  P [] -> (forall x, P [x]) -> (forall x y, P [x; y]) ->
  (forall x y z r, P r -> P (x :: y :: z :: r)) -> forall l, P l.
Proof.
  intros H0 H1 H2 H3. fix IH 1. intros [|x [|y [|z r]]]; [exact H0|apply H1|apply H2|apply H3; apply IH].
Qed.

Lemma sextets_range b : wf_bytes b -> Forall sextet (sextets_of_bytes b).
Proof.
  induction b as [|x|x y|x y z r IH] using list_ind3; intro H; unfold wf_bytes in H;
    repeat match goal with H : Forall _ (_ :: _) |- _ => inversion H; clear H; subst end;
    cbn [sextets_of_bytes]; unfold wf_byte, sextet in *; repeat constructor; try lia.
  apply IH. assumption.
Qed.

Lemma bytes_sextets_roundtrip b : wf_bytes b -> bytes_of_sextets (sextets_of_bytes b) = b.
Proof.
  induction b as [|x|x y|x y z r IH] using list_ind3; intro H; unfold wf_bytes in H;
    repeat match goal with H : Forall _ (_ :: _) |- _ => inversion H; clear H; subst end;
    cbn [sextets_of_bytes bytes_of_sextets]; unfold wf_byte in *.
  - reflexivity.
  - f_equal. lia.
  - f_equal; [lia|]. f_equal. lia.
  - rewrite IH by assumption. f_equal; [lia|]. f_equal; [lia|]. f_equal. lia.
Qed.

Lemma pad_stops n : b64_sextets (b64_pad n) = [].
Proof. unfold b64_pad. destruct (Nat.modulo n 3) as [|[|[|k]]]; reflexivity. Qed.

Theorem b64_std_roundtrip b : wf_bytes b -> b64_decode (b64_encode_std b) = b.
Proof.
  intro H. unfold b64_decode, b64_encode_std.
  rewrite (b64_sextets_chars b64_alpha_std _ _ alpha_std_ok (sextets_range b H) (pad_stops _)).
  apply bytes_sextets_roundtrip. exact H.
Qed.

Theorem b64_url_roundtrip b : wf_bytes b -> b64_decode (b64_encode_rawurl b) = b.
Proof.
  intro H. unfold b64_decode, b64_encode_rawurl.
  rewrite <- (app_nil_r (map _ _)).
  rewrite (b64_sextets_chars b64_alpha_url _ [] alpha_url_ok (sextets_range b H) eq_refl).
  apply bytes_sextets_roundtrip. exact H.
Qed.

(* line breaks are ignored by the decoder *)
Theorem b64_ignores_newlines s1 s2 : b64_sextets (s1 ++ 10 :: s2) = b64_sextets (s1 ++ s2) \/ b64_sextets (s1 ++ 10 :: s2) = b64_sextets s1.
Proof.
  induction s1 as [|c s1 IH]; cbn [app b64_sextets].
  - left. reflexivity.
  - destruct (b64val c).
    + destruct IH as [IH|IH]; [left|right]; rewrite IH; reflexivity.
    + destruct ((c =? 10) || (c =? 13)); [exact IH|right; reflexivity].
Qed.

(* ---- UTF-8 ---- *)
Lemma enc1_len c : scalar c -> (1 <= length (utf8_enc1 c) <= 4)%nat.
Proof. intro H. unfold utf8_enc1. destruct (c <? 128), (c <? 2048), (c <? 65536); simpl; lia. Qed.

Lemma second_ok_3 c : 2048 <= c < 65536 -> (c < 55296 \/ 57344 <= c) ->
  second_ok (224 + c / 4096) (128 + (c / 64) mod 64) = true.
Proof.
  intros Hr Hs. unfold second_ok.
  destruct (Z.eqb_spec (224 + c / 4096) 224); [lia|].
  destruct (Z.eqb_spec (224 + c / 4096) 237); [lia|].
  destruct (Z.eqb_spec (224 + c / 4096) 240); [lia|].
  destruct (Z.eqb_spec (224 + c / 4096) 244); [lia|]. unfold cont. lia.
Qed.

Lemma second_ok_4 c : 65536 <= c <= 1114111 ->
  second_ok (240 + c / 262144) (128 + (c / 4096) mod 64) = true.
Proof.
  intros Hr. unfold second_ok.
  destruct (Z.eqb_spec (240 + c / 262144) 224); [lia|].
  destruct (Z.eqb_spec (240 + c / 262144) 237); [lia|].
  destruct (Z.eqb_spec (240 + c / 262144) 240); [lia|].
  destruct (Z.eqb_spec (240 + c / 262144) 244); [lia|]. unfold cont. lia.
Qed.

Lemma utf8_chunk c f t : scalar c -> utf8_decode_fuel (S f) (utf8_enc1 c ++ t) = c :: utf8_decode_fuel f t.
Proof.
  intro Hs. unfold scalar in Hs. unfold utf8_enc1.
  destruct (Z.ltb_spec c 128) as [H1|H1].
  - cbn [app utf8_decode_fuel]. decide_ifs. reflexivity.
  - destruct (Z.ltb_spec c 2048) as [H2|H2].
    + cbn [app utf8_decode_fuel]. decide_ifs. f_equal. lia.
    + destruct (Z.ltb_spec c 65536) as [H3|H3].
      * cbn [app utf8_decode_fuel]. rewrite second_ok_3 by lia. decide_ifs. f_equal. lia.
      * cbn [app utf8_decode_fuel]. rewrite second_ok_4 by lia. decide_ifs. f_equal. lia.
Qed.

Lemma utf8_roundtrip_fuel cps : Forall scalar cps -> forall f,
  (length (utf8_encode cps) <= f)%nat -> utf8_decode_fuel f (utf8_encode cps) = cps.
Proof.
  induction 1 as [|c cps Hc Hcps IH]; intros f Hf.
  - destruct f; reflexivity.
  - cbn [utf8_encode flat_map] in *. fold (utf8_encode cps) in *. rewrite app_length in Hf.
    pose proof (enc1_len c Hc) as Hl.
    destruct f as [|f]; [lia|]. rewrite utf8_chunk by exact Hc. f_equal. apply IH. lia.
Qed.

(* for every well-formed UTF-8 byte sequence (= the encoding of some scalar values): decoding and re-encoding is the identity *)
Theorem utf8_roundtrip cps : Forall scalar cps -> utf8_decode (utf8_encode cps) = cps.
Proof. intro H. unfold utf8_decode. apply utf8_roundtrip_fuel; [exact H|lia]. Qed.

Theorem utf8_bytes_roundtrip cps : Forall scalar cps ->
  js_to_go (utf8_decode (utf8_encode cps)) = utf8_encode cps.
Proof.
  intro H. rewrite utf8_roundtrip by exact H. unfold js_to_go. f_equal.
  induction H as [|c cps Hc Hcps IH]; [reflexivity|]. cbn [map]. rewrite IH. f_equal.
  unfold scalar in Hc. unfold is_surrogate. decide_ifs. reflexivity.
Qed.

(* ---- buf.write never stores part of a multi-byte character ---- *)

Definition boundary (cps : list Z) (q : nat) : Prop := exists k, q = length (utf8_encode (firstn k cps)).

Lemma enc1_lead c : scalar c -> exists b r, utf8_enc1 c = b :: r /\ cont b = false /\ Forall (fun x => cont x = true) r.
Proof.
  intro Hs. unfold scalar in Hs. unfold utf8_enc1.
  destruct (Z.ltb_spec c 128); [|destruct (Z.ltb_spec c 2048); [|destruct (Z.ltb_spec c 65536)]];
    eexists; eexists; (split; [reflexivity|]); (split; [unfold cont; lia|]); repeat constructor; unfold cont; lia.
Qed.

Lemma boundary_of_noncont cps : Forall scalar cps -> forall q,
  (q < length (utf8_encode cps))%nat -> cont (nth q (utf8_encode cps) 0) = false -> boundary cps q.
Proof.
  induction 1 as [|c cps Hc Hcps IH]; intros q Hq Hnc.
  - simpl in Hq. lia.
  - cbn [utf8_encode flat_map] in *. fold (utf8_encode cps) in *.
    destruct (enc1_lead c Hc) as (b & r & He & Hb & Hr). rewrite He in *.
    destruct q as [|q].
    + exists 0%nat. reflexivity.
    + cbn [app nth length] in *.
      destruct (Nat.lt_ge_cases q (length r)) as [Hlt|Hge].
      * (* inside the character: a continuation byte *)
        rewrite app_nth1 in Hnc by exact Hlt.
        pose proof (proj1 (Forall_forall _ _) Hr (nth q r 0) (nth_In _ _ Hlt)) as Hcq. cbv beta in Hcq. congruence.
      * rewrite app_nth2 in Hnc by exact Hge. rewrite app_length in Hq.
        destruct (IH (q - length r)%nat ltac:(lia) Hnc) as [k Hk].
        exists (S k). cbn [firstn utf8_encode flat_map]. fold (utf8_encode (firstn k cps)). rewrite He.
        cbn [app length]. rewrite app_length. lia.
Qed.

Lemma trim_cont_le raw l : (trim_cont raw l <= l)%nat.
Proof. induction l as [|l IH]; cbn [trim_cont]; [lia|]. destruct (cont (nth (S l) raw 0)); lia. Qed.

Lemma trim_cont_stops raw l : trim_cont raw l = 0%nat \/ cont (nth (trim_cont raw l) raw 0) = false.
Proof.
  induction l as [|l IH]; cbn [trim_cont]; [left; reflexivity|].
  destruct (cont (nth (S l) raw 0)) eqn:E; [exact IH|right; exact E].
Qed.

Lemma encode_prefix cps k : utf8_encode cps = utf8_encode (firstn k cps) ++ utf8_encode (skipn k cps).
Proof. unfold utf8_encode. rewrite <- flat_map_app, firstn_skipn. reflexivity. Qed.

(* what write() keeps of a string whose UTF-8 form does not fit is the encoding of a prefix of its characters *)
Theorem write_keeps_whole_chars cps l :
  Forall scalar cps -> (l < length (utf8_encode cps))%nat ->
  exists k, firstn (trim_cont (utf8_encode cps) l) (utf8_encode cps) = utf8_encode (firstn k cps).
Proof.
  intros Hs Hl. set (raw := utf8_encode cps) in *.
  pose proof (trim_cont_le raw l) as Hle.
  assert (Hb : boundary cps (trim_cont raw l)).
  { destruct (trim_cont_stops raw l) as [H0|Hnc].
    - rewrite H0. exists 0%nat. reflexivity.
    - apply boundary_of_noncont; [exact Hs|fold raw; lia|exact Hnc]. }
  destruct Hb as [k Hk]. exists k. unfold raw at 2. rewrite (encode_prefix cps k).
  rewrite Hk. rewrite firstn_app, Nat.sub_diag, firstn_all. cbn [firstn]. apply app_nil_r.
Qed.

(* and it is the longest such prefix: every byte dropped beyond it is a continuation byte *)
Theorem write_trim_maximal raw l j : (trim_cont raw l < j <= l)%nat -> cont (nth j raw 0) = true.
Proof.
  induction l as [|l IH]; cbn [trim_cont]; intro H; [lia|].
  destruct (cont (nth (S l) raw 0)) eqn:E.
  - destruct (Nat.eq_dec j (S l)) as [->|Hne]; [exact E|]. apply IH. lia.
  - lia.
Qed.
