(* Proofs/ResolveProofs.v — the candidates the code probes select the file the Node.js algorithm selects *)
From GN Require Import Common.Base Model.Paths Model.Require Spec.NodeResolve.
Open Scope Z_scope.

Section R.
Variable fs : fsys.

Lemma select_app a b : select fs (a ++ b) = match select fs a with SNotFound => select fs b | x => x end.
Proof.
  induction a as [|c a IH]; [reflexivity|]. destruct c as [p|pk]; cbn [app select].
  - destruct (probe fs p); [reflexivity|exact IH|reflexivity].
  - exact IH.
Qed.

Lemma first_hit_app a b : first_hit fs (a ++ b) = match first_hit fs a with SNotFound => first_hit fs b | x => x end.
Proof.
  induction a as [|c a IH]; [reflexivity|]. cbn [app first_hit]. destruct (probe fs c); [reflexivity|exact IH|reflexivity].
Qed.

Lemma select_mods l : select fs (map CMod l) = first_hit fs l.
Proof. induction l as [|p l IH]; [reflexivity|]. cbn [map select first_hit]. rewrite IH. reflexivity. Qed.

Lemma cands_file_spec p : select fs (cands_file p) = first_hit fs (LOAD_AS_FILE p).
Proof. exact (select_mods (LOAD_AS_FILE p)). Qed.

Lemma cands_index_spec p : select fs (cands_index p) = first_hit fs (LOAD_INDEX p).
Proof. exact (select_mods (LOAD_INDEX p)). Qed.

Lemma cands_dir_spec p : select fs (cands_dir fs p) = first_hit fs (LOAD_AS_DIRECTORY fs p).
Proof.
  unfold cands_dir, LOAD_AS_DIRECTORY. cbn [select].
  destruct (fs_get fs (render (pjoin1 p package_json))) as [[prog|v n|[main|]| |]|]; try apply cands_index_spec.
  rewrite select_app, first_hit_app, cands_file_spec, cands_index_spec. reflexivity.
Qed.

Lemma cands_file_or_dir_spec p :
  select fs (cands_file_or_dir fs p) = first_hit fs (LOAD_AS_FILE p ++ LOAD_AS_DIRECTORY fs p).
Proof. unfold cands_file_or_dir. rewrite select_app, first_hit_app, cands_file_spec, cands_dir_spec. reflexivity. Qed.

(* probing is a pure function of the tree: probing a directory again after a miss misses again *)
Lemma select_twice a rest :
  select fs (a ++ a ++ rest) = select fs (a ++ rest).
Proof. rewrite !select_app. destruct (select fs a); reflexivity. Qed.

(* ---- the directory walk ---- *)
(* directories visited by the loop of loadNodeModules, on reversed parts *)
Fixpoint code_dirs_rev (rparts : list zs) : list (list zs) :=
  (if zs_eqb (hd [] rparts) node_modules then rparts else node_modules :: rparts) ::
  match rparts with
  | [] => []
  | _ :: r => code_dirs_rev r
  end.

Fixpoint no_double_nm (rparts : list zs) : Prop :=
  match rparts with
  | a :: (b :: _) as r => ~ (zs_eqb a node_modules = true /\ zs_eqb b node_modules = true) /\ no_double_nm r
  | _ => True
  end.

Variable F : list zs -> list cand.    (* the candidates probed in one directory *)

Lemma walk_select rparts : no_double_nm rparts ->
  select fs (flat_map F (code_dirs_rev rparts)) = select fs (flat_map F (nm_paths_rev rparts)).
Proof.
  induction rparts as [|s r IH]; intro Hnd.
  - reflexivity.
  - cbn [code_dirs_rev nm_paths_rev hd flat_map].
    destruct (zs_eqb s node_modules) eqn:Es.
    + (* the start directory is itself a node_modules: the code probes it now and again from its parent *)
      cbn [app]. destruct r as [|b r'].
      * cbn [code_dirs_rev nm_paths_rev hd flat_map app]. change (zs_eqb [] node_modules) with false. cbn iota.
        apply zs_eqb_eq in Es. subst s. cbn [flat_map app]. rewrite !app_nil_r.
        pose proof (select_twice (F [node_modules]) []) as H. rewrite !app_nil_r in H. exact H.
      * destruct Hnd as [Hnot Hnd]. specialize (IH Hnd).
        assert (Eb : zs_eqb b node_modules = false) by (destruct (zs_eqb b node_modules); [exfalso; apply Hnot; split; [exact Es|reflexivity]|reflexivity]).
        cbn [code_dirs_rev nm_paths_rev hd flat_map] in *. rewrite Eb in *. cbn [app flat_map] in *.
        apply zs_eqb_eq in Es. subst s.
        rewrite select_twice. exact IH.
    + cbn [app flat_map]. rewrite !select_app.
      assert (Hr : no_double_nm r) by (destruct r; [exact I|destruct Hnd; assumption]).
      rewrite (IH Hr). reflexivity.
Qed.

End R.

(* ---- the loop of loadNodeModules visits code_dirs_rev ---- *)

Lemma pjoin1_nm p : pjoin1 p node_modules = {| rooted := rooted p; segs := segs p ++ [node_modules] |}.
Proof.
  unfold pjoin1, pjoin. cbn [node_modules]. cbv beta iota.
  change (split_slash node_modules) with [node_modules].
  cbn [norm_segs]. change (zs_eqb node_modules [] || zs_eqb node_modules dot) with false. cbn iota.
  change (zs_eqb node_modules dotdot) with false. cbn iota. cbn [rev]. rewrite rev_involutive. reflexivity.
Qed.

Lemma list_eqb_length {A} (e : A -> A -> bool) a : forall b, list_eqb e a b = true -> length a = length b.
Proof.
  induction a as [|x a IH]; intros [|y b] H; simpl in *; try discriminate; [reflexivity|].
  apply andb_true_iff in H as [_ H]. f_equal. apply IH. exact H.
Qed.

Lemma walk_dirs_code rs : forall n, (S (length rs) <= n)%nat ->
  walk_dirs n {| rooted := true; segs := rev rs |} = map (fun r => {| rooted := true; segs := rev r |}) (code_dirs_rev rs).
Proof.
  induction rs as [|s r IH]; intros n Hn; (destruct n as [|n]; [lia|]).
  - cbn [walk_dirs rev code_dirs_rev hd map]. unfold pbase. cbn [rev segs rooted].
    change (zs_eqb [47] node_modules) with false. cbn iota.
    rewrite pjoin1_nm. cbn [rooted segs app].
    change (zs_eqb [] node_modules) with false. cbn iota. cbn [rev app].
    unfold path_eqb at 1. cbn [rooted Bool.eqb andb]. unfold pdir. cbn [rev segs]. 
    unfold path_eqb. cbn [rooted segs Bool.eqb list_eqb andb]. reflexivity.
  - cbn [walk_dirs code_dirs_rev hd map]. unfold pbase. cbn [segs rooted]. rewrite rev_involutive.
    assert (Hdir : (if zs_eqb s node_modules then {| rooted := true; segs := rev (s :: r) |}
                    else pjoin1 {| rooted := true; segs := rev (s :: r) |} node_modules)
                   = {| rooted := true; segs := rev (if zs_eqb s node_modules then s :: r else node_modules :: s :: r) |}).
    { destruct (zs_eqb s node_modules); [reflexivity|]. rewrite pjoin1_nm. cbn [rooted segs rev]. reflexivity. }
    rewrite Hdir. f_equal.
    unfold path_eqb at 1. cbn [rooted Bool.eqb andb].
    assert (Hpd : pdir {| rooted := true; segs := rev (s :: r) |} = {| rooted := true; segs := rev r |}).
    { unfold pdir. cbn [segs rooted]. rewrite rev_involutive. reflexivity. }
    rewrite Hpd.
    assert (Hne : path_eqb {| rooted := true; segs := rev r |} {| rooted := true; segs := rev (s :: r) |} = false).
    { unfold path_eqb. cbn [rooted segs Bool.eqb andb].
      destruct (list_eqb zs_eqb (rev r) (rev (s :: r))) eqn:E; [|reflexivity].
      apply list_eqb_length in E. rewrite !rev_length in E. simpl in E. lia. }
    rewrite Hne. apply IH. simpl in Hn. lia.
Qed.

Lemma select_flat_map_spec fs (F : list zs -> list cand) (G : list zs -> list path) l :
  (forall rs, select fs (F rs) = first_hit fs (G rs)) ->
  select fs (flat_map F l) = first_hit fs (flat_map G l).
Proof.
  intro H. induction l as [|x l IH]; [reflexivity|].
  cbn [flat_map]. rewrite select_app, first_hit_app, H, IH. reflexivity.
Qed.

(* C02: for every tree, every absolute requiring directory and every request (file, directory or bare name),
   the file the code's probing order selects is the file the Node.js algorithm selects (or the same failure) *)
Theorem model_resolve_is_node fs y x :
  rooted y = true -> no_double_nm (rev (segs y)) ->
  model_resolve fs y x = spec_resolve fs y x.
Proof.
  intros Hr Hnd. unfold model_resolve, spec_resolve.
  destruct (is_file_or_dir_path x); [apply cands_file_or_dir_spec|].
  unfold cands_node, LOAD_NODE_MODULES, NODE_MODULES_PATHS.
  destruct y as [ry sy]. cbn [rooted segs] in *. subst ry.
  pose proof (walk_dirs_code (rev sy) (S (length sy)) ltac:(rewrite rev_length; lia)) as Hw.
  rewrite rev_involutive in Hw. cbn [segs]. rewrite Hw.
  rewrite !flat_map_concat_map, !map_map, <- !flat_map_concat_map.
  rewrite (walk_select fs (fun r => cands_file_or_dir fs (pjoin (Some {| rooted := true; segs := rev r |}) x)) (rev sy) Hnd).
  apply select_flat_map_spec. intro rs. apply cands_file_or_dir_spec.
Qed.

(* a bare name is only ever looked up inside node_modules directories, never as a relative file *)
Lemma code_dirs_in_nm rs d : In d (code_dirs_rev rs) -> hd [] d = node_modules.
Proof.
  induction rs as [|s r IH]; cbn [code_dirs_rev hd]; intros [H|H]; try contradiction; try (apply IH; exact H).
  - subst d. reflexivity.
  - subst d. destruct (zs_eqb s node_modules) eqn:E; [apply zs_eqb_eq in E; subst; reflexivity|reflexivity].
Qed.

Theorem bare_only_in_node_modules y d :
  rooted y = true -> In d (walk_dirs (S (length (segs y))) y) -> last (segs d) [] = node_modules.
Proof.
  intros Hr Hin. destruct y as [ry sy]. cbn [rooted segs] in *. subst ry.
  pose proof (walk_dirs_code (rev sy) (S (length sy)) ltac:(rewrite rev_length; lia)) as Hw.
  rewrite rev_involutive in Hw. rewrite Hw in Hin.
  apply in_map_iff in Hin as (rs & <- & Hrs). cbn [segs]. apply code_dirs_in_nm in Hrs.
  destruct rs as [|a rs]; [discriminate|]. cbn [hd] in Hrs. subst a. cbn [rev]. apply last_last.
Qed.

(* no candidate exists -> not found; a loader failure on the first existing candidate is reported *)
Theorem nothing_found fs cs : (forall p, In (CMod p) cs -> fs_get fs (render p) = None) -> select fs cs = SNotFound.
Proof.
  induction cs as [|c cs IH]; intro H; [reflexivity|]. destruct c as [p|pk]; cbn [select].
  - unfold probe. rewrite (H p (or_introl eq_refl)). apply IH. intros q Hq. apply H. right. exact Hq.
  - apply IH. intros q Hq. apply H. right. exact Hq.
Qed.

Theorem io_error_reported fs cs1 p cs2 :
  (forall q, In (CMod q) cs1 -> fs_get fs (render q) = None) -> fs_get fs (render p) = Some FErr ->
  select fs (cs1 ++ CMod p :: cs2) = SIOError (render p).
Proof.
  intros H1 H2. rewrite select_app, (nothing_found fs cs1 H1). cbn [select]. unfold probe. rewrite H2. reflexivity.
Qed.

(* the probing functions of resolve.go are textually the ones the model mirrors *)
From GN Require Import Gen.RequireGlue Model.ResolveSrc.
Lemma resolve_source_unchanged : resolve_src = expected_resolve_src.
Proof. reflexivity. Qed.
