(* Proofs/LoopFrame.v — what the timer operations of Model/Loop.v leave alone (frame lemmas), and list facts. *)
From GN Require Import Common.Base Model.Loop.
From RecordUpdate Require Import RecordSet.
Import RecordSetNotations.
Open Scope Z_scope.

(* everything except the timer bookkeeping (jobcount, jobs, timers) and the callback history *)
Definition same_ctl (s s' : lstate) : Prop :=
  aux s' = aux s /\ token s' = token s /\ canrun s' = canrun s /\ running s' = running s /\ terminated s' = terminated s /\
  phase s' = phase s /\ background s' = background s /\ batch s' = batch s /\ tph s' = tph s /\ wakers s' = wakers s /\
  pending s' = pending s /\ spc s' = spc s /\ natural_exit s' = natural_exit s /\ executed s' = executed s /\
  accepted s' = accepted s /\ refused s' = refused s.

Lemma same_ctl_refl s : same_ctl s s.
Proof. unfold same_ctl; repeat split. Qed.

Lemma same_ctl_trans a b c : same_ctl a b -> same_ctl b c -> same_ctl a c.
Proof. unfold same_ctl; intros H1 H2; intuition congruence. Qed.

Ltac ctl := unfold same_ctl; cbn; repeat split; reflexivity.

Lemma do_set_ctl s id k s' : do_set s id k = Some s' -> same_ctl s s'.
Proof.
  unfold do_set; destruct (find_t (timers s) id); [discriminate|].
  intro H; inversion H; subst; clear H. destruct k; ctl.
Qed.

Lemma do_clear_ctl s id st s' : do_clear s id st = Some s' -> same_ctl s s'.
Proof.
  unfold do_clear. destruct (find_t (timers s) id) as [t|].
  - destruct (tj_cancelled t).
    + destruct st; [discriminate|]. intro H; inversion H; subst. apply same_ctl_refl.
    + destruct (tj_kind t); destruct st; try discriminate; try (destruct (tj_h t); try discriminate);
        intro H; inversion H; subst; ctl.
  - destruct st; [discriminate|]. intro H; inversion H; subst. apply same_ctl_refl.
Qed.

Lemma do_timeout_ctl s id : same_ctl s (do_timeout s id).
Proof. unfold do_timeout. destruct (find_t (timers s) id) as [t|]; [destruct (tj_cancelled t)|]; ctl. Qed.
Lemma do_immediate_ctl s id : same_ctl s (do_immediate s id).
Proof. unfold do_immediate. destruct (find_t (timers s) id) as [t|]; [destruct (tj_cancelled t)|]; ctl. Qed.
Lemma do_tick_ctl s id : same_ctl s (do_tick s id).
Proof. unfold do_tick. destruct (find_t (timers s) id) as [t|]; [destruct (tj_cancelled t)|]; ctl. Qed.
Lemma run_msg_ctl s m : same_ctl s (run_msg s m).
Proof. destruct m; cbn [run_msg]; [apply do_timeout_ctl|apply do_tick_ctl|ctl]. Qed.
Lemma set_h_ctl s id h : same_ctl s (set_h s id h).
Proof. unfold set_h; ctl. Qed.

(* ---- lists of jobs ---- *)
Lemma find_upd_same ts id f t : find_t ts id = Some t -> tj_id (f t) = tj_id t -> find_t (upd_t ts id f) id = Some (f t).
Proof.
  induction ts as [|x r IH]; cbn; [discriminate|].
  destruct (tj_id x =? id) eqn:E; intros H Hf.
  - inversion H; subst. cbn. rewrite Hf, E. reflexivity.
  - cbn. rewrite E. apply IH; assumption.
Qed.

Lemma find_upd_other ts id f id' : (forall t, tj_id (f t) = tj_id t) -> id' <> id -> find_t (upd_t ts id f) id' = find_t ts id'.
Proof.
  intros Hf Hne. induction ts as [|x r IH]; cbn; [reflexivity|].
  destruct (tj_id x =? id) eqn:E; cbn.
  - rewrite Hf. apply Z.eqb_eq in E. destruct (tj_id x =? id') eqn:E2; [apply Z.eqb_eq in E2; congruence|reflexivity].
  - destruct (tj_id x =? id'); [reflexivity|apply IH].
Qed.

Lemma find_upd_none ts id f id' : (forall t, tj_id (f t) = tj_id t) -> find_t ts id' = None -> find_t (upd_t ts id f) id' = None.
Proof.
  intros Hf. induction ts as [|x r IH]; cbn; [reflexivity|].
  destruct (tj_id x =? id') eqn:E2; [discriminate|]. intro H.
  destruct (tj_id x =? id) eqn:E; cbn; [rewrite Hf, E2; exact H|rewrite E2; apply IH; exact H].
Qed.

Lemma find_app_none ts id t : find_t ts id = None -> find_t (ts ++ [t]) id = if tj_id t =? id then Some t else None.
Proof.
  induction ts as [|x r IH]; cbn; [reflexivity|]. destruct (tj_id x =? id); [discriminate|apply IH].
Qed.

Lemma find_app_some ts id t x : find_t ts id = Some x -> find_t (ts ++ [t]) id = Some x.
Proof.
  induction ts as [|y r IH]; cbn; [discriminate|]. destruct (tj_id y =? id); [auto|apply IH].
Qed.

Lemma find_id ts id t : find_t ts id = Some t -> tj_id t = id.
Proof. induction ts as [|y r IH]; cbn; [discriminate|]. destruct (tj_id y =? id) eqn:E; [intro H; inversion H; subst; apply Z.eqb_eq; exact E|apply IH]. Qed.

Lemma find_in ts id t : find_t ts id = Some t -> In t ts.
Proof. induction ts as [|y r IH]; cbn; [discriminate|]. destruct (tj_id y =? id); [intro H; inversion H; auto|auto]. Qed.

Lemma find_none_notin ts id : find_t ts id = None -> ~ In id (map tj_id ts).
Proof.
  induction ts as [|y r IH]; cbn; [tauto|]. destruct (tj_id y =? id) eqn:E; [discriminate|].
  intros H [H1|H1]; [apply Z.eqb_neq in E; congruence|exact (IH H H1)].
Qed.

Lemma in_find ts t : NoDup (map tj_id ts) -> In t ts -> find_t ts (tj_id t) = Some t.
Proof.
  induction ts as [|y r IH]; cbn; [tauto|]. intros Hnd [H|H].
  - subst. rewrite Z.eqb_refl. reflexivity.
  - inversion Hnd; subst. destruct (tj_id y =? tj_id t) eqn:E.
    + apply Z.eqb_eq in E. exfalso. apply H2. rewrite E. apply in_map. exact H.
    + apply IH; assumption.
Qed.

Lemma upd_ids ts id f : (forall t, tj_id (f t) = tj_id t) -> map tj_id (upd_t ts id f) = map tj_id ts.
Proof. intro Hf. induction ts as [|y r IH]; cbn; [reflexivity|]. destruct (tj_id y =? id); cbn; [rewrite Hf; reflexivity|rewrite IH; reflexivity]. Qed.

(* an element of an updated list is either untouched or the image of the updated one *)
Lemma in_upd ts id f x : In x (upd_t ts id f) -> In x ts \/ (exists t, find_t ts id = Some t /\ x = f t).
Proof.
  induction ts as [|y r IH]; cbn; [tauto|]. destruct (tj_id y =? id) eqn:E; cbn.
  - intros [H|H]; [right; exists y; auto|left; auto].
  - intros [H|H]; [left; auto|]. destruct (IH H) as [H1|H1]; [left; auto|right; exact H1].
Qed.

Lemma in_upd_other ts id f x : NoDup (map tj_id ts) -> (forall t, tj_id (f t) = tj_id t) -> In x (upd_t ts id f) -> tj_id x <> id -> In x ts.
Proof.
  intros Hnd Hf H Hne. destruct (in_upd _ _ _ _ H) as [H1|[t [H1 H2]]]; [exact H1|].
  subst. rewrite Hf in Hne. apply find_id in H1. congruence.
Qed.

Lemma in_upd_same ts id f x : NoDup (map tj_id ts) -> (forall t, tj_id (f t) = tj_id t) -> In x (upd_t ts id f) -> tj_id x = id ->
  exists t, find_t ts id = Some t /\ x = f t.
Proof.
  intros Hnd Hf. revert Hnd. induction ts as [|y r IH]; cbn; [tauto|]. intros Hnd Hin He. inversion Hnd as [|? ? Hny Hnr]; subst.
  destruct (tj_id y =? tj_id x) eqn:E; cbn in Hin.
  - apply Z.eqb_eq in E. destruct Hin as [Hin|Hin].
    + exists y; auto.
    + exfalso. apply Hny. rewrite E. apply in_map. exact Hin.
  - destruct Hin as [Hin|Hin].
    + subst. rewrite Z.eqb_refl in E. discriminate.
    + apply IH; auto.
Qed.

(* ---- live count ---- *)
Lemma live_of_app ts t : live_of (ts ++ [t]) = live_of ts + (if tj_cancelled t then 0 else 1).
Proof.
  unfold live_of. rewrite filter_app, app_length. simpl. destruct (tj_cancelled t); simpl; lia.
Qed.

Definition nc (t : tjob) : bool := negb (tj_cancelled t).
Lemma live_nat_upd_cancel ts id f t :
  find_t ts id = Some t -> tj_cancelled t = false -> tj_cancelled (f t) = true ->
  (length (filter nc (upd_t ts id f)) + 1 = length (filter nc ts))%nat.
Proof.
  induction ts as [|x r IH]; simpl; [discriminate|].
  destruct (tj_id x =? id) eqn:E; intros H Hc Hf.
  - inversion H; subst. simpl. assert (nc (f t) = false) as -> by (unfold nc; rewrite Hf; reflexivity).
    assert (nc t = true) as -> by (unfold nc; rewrite Hc; reflexivity). simpl. lia.
  - simpl. specialize (IH H Hc Hf). destruct (nc x); simpl; lia.
Qed.
Lemma live_of_upd_cancel ts id f t :
  find_t ts id = Some t -> tj_cancelled t = false -> tj_cancelled (f t) = true -> live_of (upd_t ts id f) = live_of ts - 1.
Proof.
  intros H Hc Hf. pose proof (live_nat_upd_cancel ts id f t H Hc Hf) as L. unfold live_of. fold nc. lia.
Qed.

Lemma live_of_upd_same ts id f : (forall t, tj_cancelled (f t) = tj_cancelled t) -> live_of (upd_t ts id f) = live_of ts.
Proof.
  intro Hf. unfold live_of. f_equal. induction ts as [|x r IH]; simpl; [reflexivity|].
  destruct (tj_id x =? id); simpl; [rewrite Hf; destruct (tj_cancelled x); reflexivity|]. destruct (tj_cancelled x); simpl; congruence.
Qed.

Lemma live_of_nonneg ts : 0 <= live_of ts.
Proof. unfold live_of; lia. Qed.

Lemma in_remove_job js id x : In x (remove_job js id) <-> In x js /\ x <> id.
Proof.
  unfold remove_job. rewrite filter_In. split; intros [H1 H2]; split; auto.
  - intro; subst. rewrite Z.eqb_refl in H2. discriminate.
  - apply Z.eqb_neq in H2. rewrite H2. reflexivity.
Qed.

(* ---- the callback history is touched only by the operations that run a callback ---- *)
Lemma do_set_cbs s id k s' : do_set s id k = Some s' -> cbs s' = cbs s.
Proof. unfold do_set; destruct (find_t (timers s) id); [discriminate|]. intro H; inversion H; subst. destruct k; reflexivity. Qed.
Lemma do_clear_cbs s id st s' : do_clear s id st = Some s' -> cbs s' = cbs s.
Proof.
  unfold do_clear. destruct (find_t (timers s) id) as [t|].
  - destruct (tj_cancelled t).
    + destruct st; [discriminate|]. intro H; inversion H; subst. reflexivity.
    + destruct (tj_kind t); destruct st; try discriminate; try (destruct (tj_h t); try discriminate);
        intro H; inversion H; subst; reflexivity.
  - destruct st; [discriminate|]. intro H; inversion H; subst. reflexivity.
Qed.
