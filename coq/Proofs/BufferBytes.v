(* Proofs/BufferBytes.v — byte-level encode/decode lemmas (shared by C10 and C11) *)
From GN Require Import Common.Base Common.Int64 Model.BufferTypes Gen.BufferMethods Model.Buffer.
Open Scope Z_scope.

Definition wf_byte (c : Z) : Prop := 0 <= c < 256.
Definition wf_bytes (l : list Z) : Prop := Forall wf_byte l.

Lemma length_bytes_le_n v n : List.length (bytes_le_n v n) = n.
Proof. revert v; induction n as [|n IH]; intro v; simpl; [reflexivity|]. rewrite IH. reflexivity. Qed.

Lemma length_bytes_of e v w : 0 <= w -> Z.of_nat (List.length (bytes_of e v w)) = w.
Proof.
  intro H. unfold bytes_of, bytes_le. destruct e; rewrite ?rev_length, length_bytes_le_n; lia.
Qed.

Lemma wf_bytes_le_n v n : wf_bytes (bytes_le_n v n).
Proof.
  revert v; induction n as [|n IH]; intro v; simpl; constructor.
  - unfold wf_byte. apply Z.mod_pos_bound. lia.
  - apply IH.
Qed.

Lemma wf_bytes_of e v w : wf_bytes (bytes_of e v w).
Proof.
  unfold bytes_of, bytes_le. destruct e; [apply Forall_rev|]; apply wf_bytes_le_n.
Qed.

Lemma pow256_S n : 256 ^ Z.of_nat (S n) = 256 * 256 ^ Z.of_nat n.
Proof. rewrite Nat2Z.inj_succ, Z.pow_succ_r by lia. reflexivity. Qed.

Lemma from_le_bytes_le_n v n : from_le (bytes_le_n v n) = v mod 256 ^ Z.of_nat n.
Proof.
  revert v; induction n as [|n IH]; intro v.
  - simpl. rewrite Z.mod_1_r. reflexivity.
  - cbn [bytes_le_n from_le]. rewrite IH, pow256_S.
    rewrite Z.rem_mul_r by (try apply Z.pow_nonzero; lia). reflexivity.
Qed.

Lemma from_le_range bs : wf_bytes bs -> 0 <= from_le bs < 256 ^ Z.of_nat (List.length bs).
Proof.
  induction 1 as [|b bs Hb Hbs IH].
  - simpl. lia.
  - cbn [from_le List.length]. rewrite pow256_S. unfold wf_byte in Hb. nia.
Qed.

Lemma bytes_le_n_from_le bs : wf_bytes bs -> bytes_le_n (from_le bs) (List.length bs) = bs.
Proof.
  induction 1 as [|b bs Hb Hbs IH]; [reflexivity|].
  cbn [from_le List.length bytes_le_n]. unfold wf_byte in Hb.
  assert (H1 : (b + 256 * from_le bs) mod 256 = b).
  { rewrite Z.mul_comm, Z.mod_add by lia. apply Z.mod_small. lia. }
  assert (H2 : (b + 256 * from_le bs) / 256 = from_le bs).
  { rewrite Z.mul_comm, Z.div_add by lia. rewrite Z.div_small by lia. lia. }
  rewrite H1, H2, IH. reflexivity.
Qed.

(* decode is total on byte lists and inverse to encode *)
Lemma from_bytes_bytes_of e v w : 0 <= w -> from_bytes e (bytes_of e v w) = v mod 2 ^ (8 * w).
Proof.
  intro Hw. unfold from_bytes, bytes_of, bytes_le. destruct e; rewrite ?rev_involutive, from_le_bytes_le_n;
    rewrite Z2Nat.id by lia; replace 256 with (2 ^ 8) by reflexivity; rewrite <- Z.pow_mul_r by lia; reflexivity.
Qed.

Lemma bytes_of_from_bytes e bs : wf_bytes bs ->
  bytes_of e (from_bytes e bs) (Z.of_nat (List.length bs)) = bs.
Proof.
  intro H. unfold from_bytes, bytes_of, bytes_le. rewrite Nat2Z.id. destruct e.
  - rewrite <- (rev_length bs). rewrite bytes_le_n_from_le by (apply Forall_rev; exact H). apply rev_involutive.
  - apply bytes_le_n_from_le. exact H.
Qed.

Lemma from_bytes_range e bs : wf_bytes bs -> 0 <= from_bytes e bs < 2 ^ (8 * Z.of_nat (List.length bs)).
Proof.
  intro H. replace (2 ^ (8 * Z.of_nat (List.length bs))) with (256 ^ Z.of_nat (List.length bs)).
  - unfold from_bytes. destruct e; [rewrite <- (rev_length bs); apply from_le_range, Forall_rev; exact H|apply from_le_range; exact H].
  - replace 256 with (2 ^ 8) by reflexivity. rewrite <- Z.pow_mul_r by lia. reflexivity.
Qed.

(* the bytes only depend on the value modulo 2^(8w): two's complement *)
Lemma bytes_le_n_mod v n : bytes_le_n (v mod 256 ^ Z.of_nat n) n = bytes_le_n v n.
Proof.
  revert v; induction n as [|n IH]; intro v; [reflexivity|].
  cbn [bytes_le_n]. rewrite pow256_S.
  assert (Hp : 0 < 256 ^ Z.of_nat n) by (apply Z.pow_pos_nonneg; lia).
  f_equal.
  - rewrite <- Znumtheory.Zmod_div_mod; [reflexivity|lia|nia|]. exists (256 ^ Z.of_nat n). lia.
  - rewrite Z.rem_mul_r by lia.
    rewrite Z.add_comm, Z.mul_comm, Z.div_add_l by lia.
    rewrite (Z.div_small (v mod 256)) by (apply Z.mod_pos_bound; lia).
    rewrite Z.add_0_r. apply IH.
Qed.

Lemma bytes_of_mod e v w : 0 <= w -> bytes_of e (v mod 2 ^ (8 * w)) w = bytes_of e v w.
Proof.
  intro Hw. unfold bytes_of, bytes_le.
  replace (2 ^ (8 * w)) with (256 ^ Z.of_nat (Z.to_nat w)).
  - destruct e; rewrite bytes_le_n_mod; reflexivity.
  - rewrite Z2Nat.id by lia. replace 256 with (2 ^ 8) by reflexivity. rewrite <- Z.pow_mul_r by lia. reflexivity.
Qed.

(* byte k of the encoding is (v >> 8k) & 0xff, the expression in the variable-width loops *)
Lemma nth_bytes_le_n v n k : (k < n)%nat -> nth k (bytes_le_n v n) 0 = byte_at v (Z.of_nat k).
Proof.
  revert v k; induction n as [|n IH]; intros v k Hk; [lia|].
  destruct k as [|k]; cbn [bytes_le_n nth].
  - unfold byte_at. simpl. rewrite Z.div_1_r. reflexivity.
  - rewrite IH by lia. unfold byte_at. rewrite Nat2Z.inj_succ.
    replace (8 * Z.succ (Z.of_nat k)) with (8 + 8 * Z.of_nat k) by lia.
    rewrite Z.pow_add_r by lia. rewrite Z.div_div by (try apply Z.pow_pos_nonneg; lia). reflexivity.
Qed.
