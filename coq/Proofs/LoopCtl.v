(* Proofs/LoopCtl.v — control invariants of the event-loop model: single owner, queue = history, wake-up never lost,
   stop request never lost. Every lemma is about all states reachable by any event sequence the model accepts. *)
From GN Require Import Common.Base Model.Loop Proofs.LoopFrame.
From RecordUpdate Require Import RecordSet.
Import RecordSetNotations.
Open Scope Z_scope.

(* phases in which the run() thread has already drained the queue and will not drain again before it blocks or tests *)
Definition awake (p : lphase) : bool :=
  match p with LPreB | LPreD | LHead | LBlocked | LArmJ | LWB | LWD => true | _ => false end.
(* phases from which run() reaches the canRun test / the exit without another select *)
Definition exiting (p : lphase) : bool :=
  match p with LArmW | LW0 | LWB | LWD | LBreak | LLeft => true | _ => false end.

Record InvCtl (s : lstate) : Prop := {
  c_run : running s = false -> phase s = LNone;
  c_term : tph s <> TNone -> running s = false /\ terminated s = true;
  c_batch : batch s <> [] -> (tph s = TB \/ (tph s = TNone /\ (phase s = LPreB \/ phase s = LWB)));
  c_term_q : (tph s = TB \/ tph s = TCan \/ tph s = TDrain) -> aux s = [] /\ (tph s <> TB -> batch s = []);
  c_pending : pending s <> None -> phase s = LArmJ;
  c_queue : executed s ++ batch s ++ aux s = accepted s;
  c_blocked : phase s = LBlocked -> token s = false;
  c_wake : awake (phase s) = true -> aux s <> [] -> token s = true \/ (0 < wakers s)%nat;
  c_stop1 : (spc s = SRequested \/ spc s = SSent \/ spc s = SWaiting) -> running s = true -> canrun s = false;
  c_stop2 : (spc s = SSent \/ spc s = SWaiting) -> running s = true -> token s = true \/ exiting (phase s) = true
}.

Lemma InvCtl_init : InvCtl init.
Proof. constructor; cbn; try tauto; try congruence; intros; try discriminate; intuition discriminate. Qed.

Lemma InvCtl_init_after_setup : InvCtl init_after_setup.
Proof. constructor; cbn; try tauto; try congruence; intros; try discriminate; intuition discriminate. Qed.

Lemma InvCtl_same_ctl s s' : same_ctl s s' -> InvCtl s -> InvCtl s'.
Proof.
  unfold same_ctl. intros (Ha & Ht & Hc & Hr & Hte & Hp & Hb & Hba & Htp & Hw & Hpe & Hs & Hn & He & Hac & Hre) I.
  destruct I. constructor; rewrite ?Ha, ?Ht, ?Hc, ?Hr, ?Hte, ?Hp, ?Hb, ?Hba, ?Htp, ?Hw, ?Hpe, ?Hs, ?Hn, ?He, ?Hac, ?Hre; assumption.
Qed.

Section WithKinds.
Variable kind_of : Z -> option subkind.

Lemma run_sub_ctl s id st s' : run_sub kind_of s id st = Some s' -> same_ctl (s <| executed := executed s ++ [id] |>) s'.
Proof.
  unfold run_sub. destruct (kind_of id) as [[cb|t|t|t|t|t]|]; try discriminate.
  - intro H; inversion H; subst. ctl.
  - apply do_set_ctl.
  - apply do_set_ctl.
  - destruct (find_t (timers s) t) as [j|]; [destruct (tj_kind j); try discriminate|]; apply do_clear_ctl.
  - destruct (find_t (timers s) t) as [j|]; [destruct (tj_kind j); try discriminate|]; apply do_clear_ctl.
  - destruct (find_t (timers s) t) as [j|]; [destruct (tj_kind j); try discriminate|]; intro H; inversion H; subst; apply do_immediate_ctl.
Qed.

Ltac inv_some :=
  repeat match goal with
  | H : Some _ = Some _ |- _ => inversion H; subst; clear H
  | H : None = Some _ |- _ => discriminate H
  end.

Ltac solve_ctl I :=
  destruct I as [Irun Iterm Ibatch Itq Ipend Iq Iblk Iwake Is1 Is2];
  constructor; cbn in *; intros;
  repeat match goal with
  | H : _ /\ _ |- _ => destruct H
  | H : ?a = ?a -> _ |- _ => specialize (H eq_refl)
  end;
  try solve [ tauto | congruence | discriminate | intuition (try congruence; try discriminate; try lia)
            | rewrite ?app_nil_r in *; rewrite <- ?app_assoc in *; cbn in *; intuition (try congruence; try discriminate) ].

Lemma deliver_ctl s m s' : InvCtl s -> deliver s m = Some s' -> InvCtl s'.
Proof.
  intros I. unfold deliver.
  assert (D : tph s = TDrain -> Some (run_msg s m) = Some s' -> InvCtl s').
  { intros _ H; inv_some. eapply InvCtl_same_ctl; [apply run_msg_ctl|exact I]. }
  destruct (tph s) eqn:Et; try (apply D; reflexivity); clear D;
    (destruct (phase s) eqn:Ep; try discriminate; destruct (pending s) eqn:Epe; try discriminate; intro H; inv_some;
     solve_ctl I).
Qed.

Lemma InvCtl_eff s e a b c s' : InvCtl s -> apply_eff s e a b c = Some s' -> InvCtl s'.
Proof.
  intros I. destruct e; cbn [apply_eff].
  - intro H. eapply InvCtl_same_ctl; [eapply do_set_ctl; exact H|exact I].
  - intro H. eapply InvCtl_same_ctl; [eapply do_set_ctl; exact H|exact I].
  - destruct (existsb (Z.eqb b) (accepted s)); intro H; [eapply InvCtl_same_ctl; [eapply do_set_ctl; exact H|exact I]|inv_some; exact I].
  - destruct (find_t (timers s) a) as [t|]; [destruct (kind_matches (tj_kind t) b)|]; intro H;
      try (inv_some; exact I). eapply InvCtl_same_ctl; [eapply do_clear_ctl; exact H|exact I].
  - destruct (find_t (timers s) a) as [t|]; [|discriminate]. destruct (tj_kind t); try discriminate. destruct (tj_h t); try discriminate.
    apply deliver_ctl. eapply InvCtl_same_ctl; [apply set_h_ctl|exact I].
  - destruct (find_t (timers s) a) as [t|]; [|discriminate]. destruct (tj_kind t); try discriminate. destruct (tj_h t); try discriminate.
    apply deliver_ctl. exact I.
  - destruct (find_t (timers s) a) as [t|]; [|discriminate]. destruct (tj_kind t); try discriminate. destruct (tj_h t); try discriminate.
    destruct (tj_cancelled t); [|discriminate].
    apply deliver_ctl. eapply InvCtl_same_ctl; [apply set_h_ctl|exact I].
Qed.

Ltac split_matches H :=
  repeat (match type of H with
  | context [match ?x with _ => _ end] => (is_var x; destruct x) || (let E := fresh "E" in destruct x eqn:E)
  | context [if ?x then _ else _] => (is_var x; destruct x) || (let E := fresh "E" in destruct x eqn:E)
  end; try discriminate H; cbn in H).

Ltac brk :=
  repeat match goal with
  | H : _ /\ _ |- _ => destruct H
  | H : _ \/ _ |- _ => destruct H
  | H : ?a = ?a -> _ |- _ => specialize (H eq_refl)
  | H : ?x ++ [_] = [] |- _ => destruct x; discriminate H
  | H : ?a <> ?a |- _ => exfalso; apply H; reflexivity
  | H : ?x = _ |- _ => is_var x; subst x
  | H : ?P, I : ?P -> _ |- _ => specialize (I H)
  | I : ?a <> ?b -> _ |- _ => let X := fresh in assert (X : a <> b) by discriminate; specialize (I X); clear X
  end.

Ltac cheap :=
  try assumption; try (intros; discriminate); try (intros; congruence);
  try (intros; brk; (discriminate || congruence));
  try (intros; brk; rewrite ?app_nil_r, <- ?app_assoc in *; cbn in *; (reflexivity || congruence));
  try (intros; brk; first [ left; (reflexivity || congruence || lia) | right; (reflexivity || congruence || lia) | split; (reflexivity || congruence) ]);
  try (intros; brk; timeout 300 (intuition (congruence || discriminate || lia))).

Lemma InvCtl_step s p a b s' : InvCtl s -> step kind_of s p a b = Some s' -> InvCtl s'.
Proof.
  intros I H. destruct I as [Irun Iterm Ibatch Itq Ipend Iq Iblk Iwake Is1 Is2].
  destruct s as [aux0 token0 canrun0 running0 terminated0 jobcount0 jobs0 timers0 phase0 background0 batch0 tph0 wakers0 pending0
                 spc0 natural0 executed0 accepted0 refused0 cbs0].
  cbn in *.
  destruct p; cbn in H; unfold send_token, offer, dec_bg, set_h in H; cbn in H.
  4: { (* runaux_job: the closure's own effect leaves the control part alone *)
    split_matches H;
      (apply run_sub_ctl in H; eapply InvCtl_same_ctl; [exact H|]; constructor; cbn in *; cheap).
  }
  7: { (* arm_job *)
    split_matches H; inv_some. eapply InvCtl_same_ctl; [apply run_msg_ctl|]. constructor; cbn in *; cheap. }
  22: { (* term_cancel *)
    split_matches H; inv_some. eapply InvCtl_same_ctl; [eapply do_clear_ctl; exact H|]. constructor; cbn in *; cheap. }
  all: try (timeout 1800 (split_matches H; inv_some; constructor; cbn in *; cheap)).
Qed.

End WithKinds.
