(* Proofs/LoopReplay.v — the trace checker is sound for the model: a log that replays without any difference is an
   execution of Model/Loop.v, so the state it reaches is a reachable state and every theorem of Proofs/LoopProps.v
   applies to it. *)
From GN Require Import Common.Base Model.Loop Cases.LoopCheck Proofs.LoopProps.
Open Scope Z_scope.

Definition erase (l : list lev) : list ev :=
  flat_map (fun e => match e with
                     | LP _ p a b _ => [EP p a b]
                     | LE _ e a b c => [EE e a b c]
                     | LO _ _ _ _ => []
                     end) l.

Lemma differ_some m i w : m_diff (differ m i w) <> None.
Proof. unfold differ. destruct (m_diff m) eqn:E; [rewrite E; discriminate|cbn; discriminate]. Qed.

Lemma with_expect_diff m e : m_diff (with_expect m e) = m_diff m.
Proof. reflexivity. Qed.
Lemma flag_diff m b : m_diff (flag m b) = m_diff m.
Proof. reflexivity. Qed.

Lemma on_obs_diff_mono s m i o a b : m_diff m <> None -> m_diff (on_obs s m i o a b) <> None.
Proof.
  intro H. destruct o; cbn [on_obs]; try assumption.
  - unfold on_cb_start. cbn.
    repeat match goal with
    | |- context [if ?c then _ else _] => destruct c
    | |- context [match ?x with _ => _ end] => destruct x
    end; cbn; try assumption; try (apply differ_some).
  - destruct (Bool.eqb _ _); assumption.
  - destruct (a =? live s); assumption.
Qed.

Lemma replay_diff_mono k l : forall s m i, m_diff m <> None -> m_diff (snd (replay k s m l i)) <> None.
Proof.
  induction l as [|e r IH]; intros s m i H; [exact H|]. destruct e as [th p a b sn|th e a b c|th o a b]; cbn [replay].
  - set (m0 := match m_expect m with [] => m | _ :: _ => differ (with_expect m []) i 5 end).
    assert (H0 : m_diff m0 <> None) by (unfold m0; destruct (m_expect m); [exact H|apply differ_some]).
    set (m1 := if snap_ok s sn then m0 else if snap_rest s sn then differ m0 i 2 else differ m0 i 2).
    assert (H1 : m_diff m1 <> None) by (unfold m1; destruct (snap_ok s sn); [exact H0|destruct (snap_rest s sn); apply differ_some]).
    destruct (snap_rest s sn); [|exact H1].
    set (m2 := match p with run_exit => if natural_exit s && negb (live s =? 0) then flag m1 6 else m1 | _ => m1 end).
    assert (H2 : m_diff m2 <> None) by (unfold m2; destruct p; try exact H1; destruct (_ && _); exact H1).
    destruct (step k s p a b); [apply IH; exact H2|apply differ_some].
  - destruct (apply_eff s e a b c); [apply IH; exact H|apply differ_some].
  - apply IH. apply on_obs_diff_mono. exact H.
Qed.

Theorem replay_sound k l : forall s m i s' m',
  replay k s m l i = (s', m') -> m_diff m' = None -> run_evs k s (erase l) = Some s'.
Proof.
  induction l as [|e r IH]; intros s m i s' m' H Hn; [inversion H; subst; reflexivity|].
  destruct e as [th p a b sn|th e a b c|th o a b]; cbn [replay] in H; cbn [erase flat_map app].
  - set (m0 := match m_expect m with [] => m | _ :: _ => differ (with_expect m []) i 5 end) in H.
    set (m1 := if snap_ok s sn then m0 else if snap_rest s sn then differ m0 i 2 else differ m0 i 2) in H.
    destruct (snap_rest s sn) eqn:Sr.
    + set (m2 := match p with run_exit => if natural_exit s && negb (live s =? 0) then flag m1 6 else m1 | _ => m1 end) in H.
      cbn [run_evs do_ev]. destruct (step k s p a b) as [s1|] eqn:St.
      * change (run_evs k s1 (erase r) = Some s'). eapply IH; [exact H|exact Hn].
      * injection H as Hs Hm. exfalso. rewrite <- Hm in Hn. exact (differ_some m2 i 1 Hn).
    + injection H as Hs Hm. exfalso. rewrite <- Hm in Hn. unfold m1 in Hn.
      assert (So : snap_ok s sn = false) by (unfold snap_ok; rewrite Sr; apply andb_false_r).
      rewrite So in Hn. exact (differ_some m0 i 2 Hn).
  - cbn [run_evs do_ev]. destruct (apply_eff s e a b c) as [s1|] eqn:Ef.
    + change (run_evs k s1 (erase r) = Some s'). eapply IH; [exact H|exact Hn].
    + injection H as Hs Hm. exfalso. rewrite <- Hm in Hn. exact (differ_some m i 1 Hn).
  - change (run_evs k s (erase r) = Some s'). eapply IH; [exact H|exact Hn].
Qed.

(* hence: a scenario whose log replays without difference ends in a reachable state of the model *)
Theorem replayed_state_reachable k l s m : replay k init_after_setup mon0 l 0 = (s, m) -> m_diff m = None -> reach k s.
Proof. intros H Hn. eapply reach_run; [apply setup_reach|eapply replay_sound; eauto]. Qed.
