(* Proofs/LoopProgress.v — C04, progress form: while the loop is running and no stop was requested, an accepted function that
   is still queued gets closer to its execution with every step of the run thread (other than serving a timer job, where Go's
   select chooses among ready arms at random) and with every wake-up; no step of any other thread moves it away. The measure
   is well-founded (lexicographic on naturals), so — select fairness granted — the function runs without any further
   submission being needed; otherwise the loop is on its way out (Stop, or Run() reaching quiescence), and the function waits
   for the next start (C07_queue_kept). *)
From GN Require Import Common.Base Model.Loop Proofs.LoopFrame Proofs.LoopCtl Proofs.LoopTimers Proofs.LoopInv Proofs.LoopProps.
From RecordUpdate Require Import RecordSet.
Import RecordSetNotations.
Open Scope Z_scope.

Fixpoint idx (x : Z) (l : list Z) : option nat :=
  match l with [] => None | y :: r => if y =? x then Some O else option_map S (idx x r) end.

Lemma idx_app_l x l r i : idx x l = Some i -> idx x (l ++ r) = Some i.
Proof.
  revert i; induction l as [|y l IH]; intros i H; cbn in *; [discriminate|].
  destruct (y =? x); [exact H|]. destruct (idx x l) as [j|]; [|discriminate]. rewrite (IH j eq_refl). exact H.
Qed.

Lemma idx_app_r x l r : idx x l = None -> idx x (l ++ r) = option_map (fun i => (length l + i)%nat) (idx x r).
Proof.
  induction l as [|y l IH]; intro H; cbn in *; [destruct (idx x r); reflexivity|].
  destruct (y =? x); [discriminate|]. destruct (idx x l) as [j|] eqn:E; [discriminate|].
  rewrite (IH eq_refl). destruct (idx x r); reflexivity.
Qed.

Lemma idx_snoc_keep x l y i : idx x l = Some i -> idx x (l ++ [y]) = Some i.
Proof. apply idx_app_l. Qed.

(* the run thread's distance to its next drain of the queue (for a function still in auxJobs), along
   LStart -> LPre -> [swap] and LPreB -> LPreD -> LHead -> (LBlocked ->) LArmW -> LW0 -> [swap], LWB -> LWD -> LHead ... *)
Definition qrank (p : lphase) : nat :=
  match p with
  | LPreB => 9 | LPreD => 8 | LWB => 7 | LWD => 6 | LHead => 5 | LArmJ => 5 | LBlocked => 4 | LArmW => 3 | LW0 => 2 | LStart => 2 | LPre => 1
  | _ => 0
  end.

Definition in_aux (x : Z) (s : lstate) : nat := match idx x (batch s) with Some _ => 0 | None => 1 end.

(* (functions in front of x, x not yet in the batch being executed, steps to the next drain) *)
Definition measure (x : Z) (s : lstate) : option (nat * nat * nat) :=
  match idx x (batch s ++ aux s) with
  | Some i => Some (i, in_aux x s, qrank (phase s))
  | None => None
  end.

Definition lt3 (a b : nat * nat * nat) : Prop :=
  let '(a1, a2, a3) := a in let '(b1, b2, b3) := b in
  (a1 < b1)%nat \/ (a1 = b1 /\ (a2 < b2)%nat) \/ (a1 = b1 /\ a2 = b2 /\ (a3 < b3)%nat).
Definition le3 (a b : nat * nat * nat) : Prop := a = b \/ lt3 a b.

Lemma lt3_wf : well_founded lt3.
Proof.
  assert (H : forall n1 n2 n3 a, (let '(a1, a2, a3) := a in (a1 < n1)%nat \/ (a1 = n1 /\ (a2 < n2)%nat) \/ (a1 = n1 /\ a2 = n2 /\ (a3 < n3)%nat)) -> Acc lt3 a).
  { induction n1 as [n1 IH1] using lt_wf_ind. induction n2 as [n2 IH2] using lt_wf_ind. induction n3 as [n3 IH3] using lt_wf_ind.
    intros [[a1 a2] a3] H. constructor. intros [[b1 b2] b3] Hb. unfold lt3 in Hb.
    destruct H as [H|[[H1 H2]|[H1 [H2 H3]]]].
    - apply (IH1 a1 H a2 a3). exact Hb.
    - subst a1. apply (IH2 a2 H2 a3). exact Hb.
    - subst a1 a2. apply (IH3 a3 H3). exact Hb. }
  intros [[a1 a2] a3]. apply (H (S a1) 0%nat 0%nat). left. lia.
Qed.

(* the loop is on its way out, or gone *)
Definition leaving (p : lphase) : bool := match p with LBreak | LLeft | LNone => true | _ => false end.

(* steps that bring the function closer: the run thread's own points except the job arm of the select, the two points at
   which Run()/Start() hand over to run(), and a wake-up being delivered *)
Definition helpful (p : pt) (arg2 : Z) : bool :=
  match p with
  | run_select => negb (arg2 =? 2)
  | arm_wakeup | runaux_swap | runaux_job | runaux_done | run_canrun | run_leave | run_enter | run_fn | start_go => true
  | _ => false
  end.

Section WithKinds.
Variable kind_of : Z -> option subkind.

Lemma in_executed_snoc (l : list Z) x : In x (l ++ [x]).
Proof. apply in_or_app. right. left. reflexivity. Qed.

Theorem head_progress s x m p a b s' :
  reach kind_of s -> tph s = TNone -> canrun s = true -> measure x s = Some m ->
  helpful p b = true -> step kind_of s p a b = Some s' ->
  In x (executed s') \/ leaving (phase s') = true \/ (exists m', measure x s' = Some m' /\ lt3 m' m).
Proof.
  intros R Ht Hc Hm Hh H. destruct (reach_Inv _ _ R) as [C _].
  unfold measure in Hm. destruct (idx x (batch s ++ aux s)) as [i|] eqn:Ei; [|discriminate]. inversion Hm; subst m; clear Hm.
  destruct p; try discriminate Hh; cbn in H.
  - (* runaux_swap: the queue becomes the batch *)
    destruct (batch s) eqn:Eb; [|discriminate]. rewrite Ht in H. cbn [app] in Ei.
    assert (Hgoal : forall ph, (qrank ph <= 9)%nat -> exists m', measure x (s <| batch := aux s |> <| aux := [] |> <| phase := ph |>) = Some m' /\ lt3 m' (i, in_aux x s, qrank (phase s))).
    { intros ph _. unfold measure, in_aux. cbn. rewrite app_nil_r, Ei, Eb. cbn. eexists. split; [reflexivity|]. right. left. split; [reflexivity|lia]. }
    destruct (phase s); try discriminate; inversion H; subst; right; right.
    + destruct (Hgoal LPreB) as (m' & H1 & H2); [cbn; lia|]. exists m'. split; [|exact H2]. unfold measure, in_aux in *. cbn in *. exact H1.
    + destruct (Hgoal LPreB) as (m' & H1 & H2); [cbn; lia|]. exists m'. split; [|exact H2]. unfold measure, in_aux in *. cbn in *. exact H1.
    + destruct (Hgoal LWB) as (m' & H1 & H2); [cbn; lia|]. exists m'. split; [|exact H2]. unfold measure, in_aux in *. cbn in *. exact H1.
  - (* runaux_job: the head of the batch runs *)
    destruct (batch s) as [|j r] eqn:Eb; [discriminate|]. rewrite Ht in H.
    assert (Hrun : forall ph, phase s = ph -> (ph = LPreB \/ ph = LWB) -> run_sub kind_of (s <| batch := r |>) j (b =? 1) = Some s' ->
              In x (executed s') \/ leaving (phase s') = true \/ (exists m', measure x s' = Some m' /\ lt3 m' (i, in_aux x s, qrank (phase s)))).
    { intros ph Ep _ Hr. apply run_sub_ctl in Hr. unfold same_ctl in Hr. cbn in Hr.
      destruct Hr as (Ha & _ & _ & _ & _ & Hp & _ & Hb & _ & _ & _ & _ & _ & He & _).
      cbn [app idx] in Ei. destruct (j =? x) eqn:Ej.
      - left. rewrite He. apply Z.eqb_eq in Ej. subst j. apply in_executed_snoc.
      - right. right. destruct (idx x (r ++ aux s)) as [i0|] eqn:Ei0; [|discriminate]. cbn in Ei. inversion Ei; subst i.
        unfold measure, in_aux. rewrite Hb, Ha, Ei0, Hp, Eb. cbn [idx]. rewrite Ej.
        eexists. split; [reflexivity|]. left. lia. }
    destruct (phase s) eqn:Ep; try discriminate; eapply Hrun; eauto.
  - (* runaux_done: the batch is empty, the function is in the queue *)
    destruct (batch s) eqn:Eb; [|discriminate]. rewrite Ht in H.
    destruct (phase s) eqn:Ep; try discriminate; inversion H; subst; right; right;
      unfold measure, in_aux; cbn; rewrite Eb; cbn [app] in *; rewrite Ei; eexists; (split; [reflexivity|]); right; right; repeat split; lia.
  - (* run_enter *)
    destruct (phase s) eqn:Ep; try discriminate. inversion H; subst. right. right.
    unfold measure, in_aux. destruct (background s); cbn; rewrite Ei; eexists; (split; [reflexivity|]); right; right; repeat split; lia.
  - (* run_select, not the job arm *)
    destruct (phase s) eqn:Ep; try discriminate. destruct (count_positive s); [|discriminate].
    cbn in Hh. destruct (b =? 1) eqn:B1.
    + destruct (token s); [|discriminate]. inversion H; subst. right. right. unfold measure, in_aux. cbn. rewrite Ei.
      eexists. split; [reflexivity|]. right. right. repeat split; lia.
    + destruct (b =? 2); [discriminate|]. destruct (token s); [discriminate|]. inversion H; subst. right. right. unfold measure, in_aux. cbn. rewrite Ei.
      eexists. split; [reflexivity|]. right. right. repeat split; lia.
  - (* arm_wakeup *)
    destruct (phase s) eqn:Ep; try discriminate. inversion H; subst. right. right. unfold measure, in_aux. cbn. rewrite Ei.
    eexists. split; [reflexivity|]. right. right. repeat split; lia.
  - (* run_canrun: no stop was requested *)
    destruct (phase s) eqn:Ep; try discriminate. rewrite Hc in H. inversion H; subst. right. right. unfold measure, in_aux. cbn. rewrite Ei.
    eexists. split; [reflexivity|]. right. right. repeat split; lia.
  - (* run_leave: quiescence of a Run() loop *)
    unfold dec_bg in H. destruct (phase s) eqn:Ep; try discriminate.
    + destruct (count_positive s); [discriminate|]. destruct (background s); inversion H; subst; right; left; reflexivity.
    + destruct (background s); inversion H; subst; right; left; reflexivity.
  - (* run_fn *)
    destruct (phase s) eqn:Ep; try discriminate. inversion H; subst. right. right. unfold measure, in_aux. cbn. rewrite Ei.
    eexists. split; [reflexivity|]. right. right. repeat split; lia.
  - (* start_go *)
    destruct (phase s) eqn:Ep; try discriminate. inversion H; subst. right. right. unfold measure, in_aux. cbn. rewrite Ei.
    eexists. split; [reflexivity|]. right. right. repeat split; lia.
Qed.

(* no other step moves the function away. Excluded, besides the helpful steps above: a timer job being offered to / taken by
   the select (timer_fire, int_tick_send, int_remove_send, the job arm, arm_job) — the unfair-select caveat — and the steps
   that need a loop that is not running *)
Definition neutral (p : pt) : bool :=
  match p with
  | aux_lock | aux_wakeup | stop_enter | stop_request | stop_wakeup | stop_wait | stop_return | stopnowait
  | timer_sent | int_select | int_stop | int_done | setrunning => true
  | _ => false
  end.

Lemma measure_same_queue x s s' :
  batch s' = batch s -> aux s' = aux s -> phase s' = phase s -> measure x s' = measure x s.
Proof. intros Hb Ha Hp. unfold measure, in_aux. rewrite Hb, Ha, Hp. reflexivity. Qed.

Lemma send_token_measure x s m : measure x s = Some m ->
  exists m', measure x (send_token s) = Some m' /\ le3 m' m.
Proof.
  intro Hm. unfold send_token. destruct (phase s) eqn:Ep;
    try (exists m; split; [rewrite <- Hm; apply measure_same_queue; reflexivity|left; reflexivity]).
  unfold measure, in_aux in *. cbn. rewrite Ep in Hm. destruct (idx x (batch s ++ aux s)) as [i|]; [|discriminate]. inversion Hm; subst.
  eexists. split; [reflexivity|]. right. right. right. repeat split; cbn; lia.
Qed.

Theorem other_threads_keep s x m p a b s' :
  reach kind_of s -> running s = true -> measure x s = Some m -> neutral p = true -> step kind_of s p a b = Some s' ->
  exists m', measure x s' = Some m' /\ le3 m' m.
Proof.
  intros R Hr Hm Hn H.
  assert (Hsame : forall t, batch t = batch s -> aux t = aux s -> phase t = phase s -> exists m', measure x t = Some m' /\ le3 m' m).
  { intros t Hb Ha Hp. exists m. split; [rewrite <- Hm; apply measure_same_queue; assumption|left; reflexivity]. }
  destruct p; try discriminate Hn; cbn in H.
  - (* aux_lock: appended behind *)
    destruct (terminated s); inversion H; subst; [apply Hsame; reflexivity|].
    unfold measure, in_aux in *. cbn. destruct (idx x (batch s ++ aux s)) as [i|] eqn:Ei; [|discriminate].
    rewrite app_assoc, (idx_app_l x _ [a] i Ei). exists m. split; [exact Hm|left; reflexivity].
  - (* aux_wakeup *)
    destruct (wakers s); [discriminate|]. inversion H; subst.
    apply (send_token_measure x (s <| wakers := n |>) m). rewrite <- Hm. apply measure_same_queue; reflexivity.
  - (* setrunning on a running loop: the panic, nothing changes *)
    rewrite Hr in H. inversion H; subst. apply Hsame; reflexivity.
  - destruct (spc s); try discriminate; inversion H; subst; apply Hsame; reflexivity.
  - destruct (spc s); try discriminate; destruct (running s); try discriminate; inversion H; subst; apply Hsame; reflexivity.
  - destruct (spc s); try discriminate. inversion H; subst.
    destruct (send_token_measure x s m Hm) as (m' & H1 & H2). exists m'. split; [|exact H2]. rewrite <- H1. apply measure_same_queue; reflexivity.
  - destruct (spc s); try discriminate; inversion H; subst; apply Hsame; reflexivity.
  - destruct (spc s); try discriminate; destruct (running s); try discriminate; inversion H; subst; apply Hsame; reflexivity.
  - (* stopnowait *)
    rewrite Hr in H. inversion H; subst.
    apply (send_token_measure x (s <| canrun := false |>) m). rewrite <- Hm. apply measure_same_queue; reflexivity.
  - destruct (find_t (timers s) a) as [t|]; [|discriminate]. destruct (tj_h t); try discriminate. inversion H; subst. apply Hsame; reflexivity.
  - inversion H; subst. apply Hsame; reflexivity.
  - destruct (find_t (timers s) a) as [t|]; [|discriminate]. destruct (tj_cancelled t); try discriminate. inversion H; subst. apply Hsame; reflexivity.
  - destruct (find_t (timers s) a) as [t|]; [|discriminate]. destruct (tj_h t); try discriminate. inversion H; subst. apply Hsame; reflexivity.
Qed.

(* when the run thread is blocked in its select with the function queued, a wake-up is on its way, and delivering it is a
   helpful step: the loop cannot sit on the function *)
Theorem blocked_is_woken s x m :
  reach kind_of s -> phase s = LBlocked -> measure x s = Some m -> idx x (batch s) = None ->
  exists s', step kind_of s aux_wakeup 0 0 = Some s' /\ phase s' = LArmW /\ exists m', measure x s' = Some m' /\ lt3 m' m.
Proof.
  intros R Hp Hm Hb.
  assert (Haux : aux s <> []).
  { intro E. unfold measure in Hm. rewrite E, app_nil_r, Hb in Hm. discriminate. }
  pose proof (blocked_with_work_has_waker kind_of s R Hp Haux) as Hw.
  cbn [step]. destruct (wakers s) as [|w] eqn:Ew; [lia|]. eexists. split; [reflexivity|].
  unfold send_token. cbn. rewrite Hp. cbn. split; [reflexivity|].
  unfold measure, in_aux in *. cbn. rewrite Hp in Hm. destruct (idx x (batch s ++ aux s)) as [i|]; [|discriminate]. inversion Hm; subst.
  eexists. split; [reflexivity|]. right. right. repeat split; cbn; lia.
Qed.

End WithKinds.

(* ---- C05, possibility form of "a timeout that is not cleared does run provided the loop keeps running" ---- *)
Section TimerCanRun.
Variable kind_of : Z -> option subkind.

Lemma run_evs_app l : forall s s1 r s', run_evs kind_of s l = Some s1 -> run_evs kind_of s1 r = Some s' -> run_evs kind_of s (l ++ r) = Some s'.
Proof.
  induction l as [|e l IH]; intros s s1 r s' H1 H2; cbn in *; [inversion H1; subst; exact H2|].
  destruct (do_ev kind_of s e) as [s2|]; [eapply IH; eassumption|discriminate].
Qed.

Lemma find_live_positive ts id t : find_t ts id = Some t -> tj_cancelled t = false -> 0 < live_of ts.
Proof.
  induction ts as [|u ts IH]; cbn; [discriminate|]. unfold live_of in *. cbn [filter].
  destruct (tj_id u =? id).
  - intros H Hc. inversion H; subst. rewrite Hc. cbn [negb length]. lia.
  - intros H Hc. specialize (IH H Hc). destruct (negb (tj_cancelled u)); cbn [length]; lia.
Qed.

(* In every reachable state in which the run thread is at the head of its loop, a timeout that was set and neither fired nor
   cleared keeps the loop from leaving (the live-job count is positive) and can be served at once: its expiry, the select
   taking the job arm, the delivery and the call are all enabled, and they run its callback. *)
Theorem live_timeout_can_run s id t :
  reach kind_of s -> phase s = LHead -> find_t (timers s) id = Some t -> tj_kind t = TTimeout -> tj_cancelled t = false -> tj_h t <> HDone ->
  step kind_of s run_leave 0 0 = None /\
  exists s', run_evs kind_of s ((if match tj_h t with HArmed => true | _ => false end then [EP timer_fire id 0] else []) ++
                                [EP run_select 0 2; EE e_delivered_timeout id 0 0; EP arm_job 0 0]) = Some s' /\
             cbs s' = cbs s ++ [id] /\ phase s' = LHead.
Proof.
  intros R Hp Hf Hk Hc Hh. destruct (reach_Inv _ _ R) as [C T].
  assert (Hpos : count_positive s = true).
  { unfold count_positive. rewrite (t_count _ T). unfold live. pose proof (find_live_positive _ _ _ Hf Hc) as Hl.
    unfold bgc. destruct (background s && counted (phase s)); apply Z.ltb_lt; lia. }
  assert (Htph : tph s = TNone).
  { destruct (tph s) eqn:Et; [reflexivity| | | | |]; (destruct (c_term _ C) as [Hr _]; [rewrite Et; discriminate|]; rewrite (c_run _ C Hr) in Hp; discriminate). }
  assert (Hpend : pending s = None).
  { destruct (pending s) eqn:E; [|reflexivity]. assert (Hx : phase s = LArmJ) by (apply (c_pending _ C); rewrite E; discriminate). rewrite Hp in Hx. discriminate. }
  split; [cbn; rewrite Hp, Hpos; reflexivity|].
  (* the state in which the expiry goroutine exists *)
  set (s1 := set_h s id HRunning).
  assert (Hf1 : find_t (timers s1) id = Some (t <| tj_h := HRunning |>)) by (apply set_h_keeps_find; exact Hf).
  assert (Hfire : run_evs kind_of s (if match tj_h t with HArmed => true | _ => false end then [EP timer_fire id 0] else []) = Some s1 \/
                  (tj_h t = HRunning /\ run_evs kind_of s (if match tj_h t with HArmed => true | _ => false end then [EP timer_fire id 0] else []) = Some s)).
  { destruct (tj_h t) eqn:Eh; [left|right|contradiction Hh; reflexivity].
    - cbn. rewrite Hf, Hk, Eh. unfold offer. cbn. rewrite Hp. reflexivity.
    - split; [reflexivity|]. reflexivity. }
  assert (Hrest : forall s0, phase s0 = LHead -> count_positive s0 = true -> tph s0 = TNone -> pending s0 = None -> cbs s0 = cbs s ->
             (exists t0, find_t (timers s0) id = Some t0 /\ tj_kind t0 = TTimeout /\ tj_cancelled t0 = false /\ tj_h t0 = HRunning) ->
             exists s', run_evs kind_of s0 [EP run_select 0 2; EE e_delivered_timeout id 0 0; EP arm_job 0 0] = Some s' /\ cbs s' = cbs s ++ [id] /\ phase s' = LHead).
  { intros s0 Hp0 Hpos0 Ht0 Hpe0 Hcb0 (t0 & Hf0 & Hk0 & Hc0 & Hh0).
    cbn [run_evs do_ev step]. rewrite Hp0, Hpos0. cbn.
    rewrite Hf0, Hk0, Hh0. unfold deliver. cbn. rewrite Ht0, Hpe0. cbn.
    unfold do_timeout. cbn.
    match goal with |- context [find_t (upd_t (timers s0) id ?f) id] => rewrite (find_upd_same (timers s0) id f t0 Hf0 eq_refl) end. cbn. rewrite Hc0. cbn.
    eexists. split; [reflexivity|]. cbn. rewrite Hcb0. split; reflexivity. }
  destruct Hfire as [Hfire|[Eh Hfire]].
  - destruct (Hrest s1) as (s' & H1 & H2 & H3).
    + exact Hp.
    + exact Hpos.
    + exact Htph.
    + exact Hpend.
    + reflexivity.
    + eexists. split; [exact Hf1|]. cbn. auto.
    + exists s'. split; [|split; assumption]. eapply run_evs_app; eassumption.
  - destruct (Hrest s) as (s' & H1 & H2 & H3); try assumption; try reflexivity.
    + exists t. auto.
    + exists s'. split; [|split; assumption]. eapply run_evs_app; eassumption.
Qed.

End TimerCanRun.
