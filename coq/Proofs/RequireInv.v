(* Proofs/RequireInv.v — invariants of the require() caches over every module graph and call history *)
From GN Require Import Common.Base Model.Paths Model.Require.
Open Scope Z_scope.

(* ---- association-list caches with unique keys ---- *)
Definition nodupk (c : list (zs * nat)) : Prop := NoDup (map fst c).

Lemma cache_get_in c k v : cache_get c k = Some v -> In (k, v) c.
Proof.
  induction c as [|[k' v'] c IH]; cbn [cache_get]; [discriminate|].
  destruct (zs_eqb k k') eqn:E; intro H.
  - inversion H; subst. apply zs_eqb_eq in E. subst. left. reflexivity.
  - right. apply IH. exact H.
Qed.

Lemma in_cache_get c k v : nodupk c -> In (k, v) c -> cache_get c k = Some v.
Proof.
  unfold nodupk. induction c as [|[k' v'] c IH]; cbn [cache_get map]; intros Hnd Hin; [contradiction|].
  inversion Hnd as [|? ? Hni Hnd']; subst. destruct Hin as [Heq|Hin].
  - inversion Heq; subst. rewrite zs_eqb_refl. reflexivity.
  - destruct (zs_eqb k k') eqn:E; [|apply IH; assumption].
    apply zs_eqb_eq in E. subst. exfalso. apply Hni. apply in_map_iff. exists (k', v). auto.
Qed.

Lemma filter_keys_incl (f : zs * nat -> bool) c x : In x (map fst (filter f c)) -> In x (map fst c).
Proof. intro H. apply in_map_iff in H as (p & <- & Hp). apply filter_In in Hp as [Hp _]. apply in_map. exact Hp. Qed.

Lemma nodupk_filter f c : nodupk c -> nodupk (filter f c).
Proof.
  unfold nodupk. induction c as [|[k v] c IH]; cbn [filter map]; intro H; [constructor|].
  inversion H as [|? ? Hni Hnd]; subst. destruct (f (k, v)); [|apply IH; exact Hnd].
  cbn [map]. constructor; [|apply IH; exact Hnd]. intro Hin. apply Hni. eapply filter_keys_incl. exact Hin.
Qed.

Lemma nodupk_set c k v : nodupk c -> nodupk (cache_set c k v).
Proof.
  intro H. unfold cache_set, nodupk. cbn [map]. constructor; [|apply nodupk_filter; exact H].
  intro Hin. apply in_map_iff in Hin as ([k' v'] & Hk & Hp). cbn in Hk. subst k'.
  apply filter_In in Hp as [_ Hp]. cbn in Hp. rewrite zs_eqb_refl in Hp. discriminate.
Qed.

Lemma get_set c k v k' : cache_get (cache_set c k v) k' = if zs_eqb k' k then Some v else cache_get c k'.
Proof.
  unfold cache_set. cbn [cache_get]. destruct (zs_eqb k' k) eqn:E; [reflexivity|].
  induction c as [|[k2 v2] c IH]; [reflexivity|]. cbn [filter fst].
  destruct (zs_eqb k2 k) eqn:E2; cbn [negb cache_get].
  - apply zs_eqb_eq in E2. subst k2. rewrite E. exact IH.
  - destruct (zs_eqb k' k2); [reflexivity|exact IH].
Qed.

Lemma get_del c k k' : cache_get (cache_del c k) k' = if zs_eqb k' k then None else cache_get c k'.
Proof.
  unfold cache_del. induction c as [|[k2 v2] c IH]; cbn [filter fst cache_get].
  - destruct (zs_eqb k' k); reflexivity.
  - destruct (zs_eqb k2 k) eqn:E2; cbn [negb cache_get].
    + apply zs_eqb_eq in E2. subst k2. destruct (zs_eqb k' k); [exact IH|exact IH].
    + destruct (zs_eqb k' k2) eqn:E3; [|exact IH].
      destruct (zs_eqb k' k) eqn:E4; [|reflexivity].
      apply zs_eqb_eq in E3, E4. subst. rewrite zs_eqb_refl in E2. discriminate.
Qed.

Lemma get_del_val c m k : nodupk c ->
  cache_get (cache_del_val c m) k = match cache_get c k with Some m' => if Nat.eqb m' m then None else Some m' | None => None end.
Proof.
  intro Hnd. destruct (cache_get c k) as [m'|] eqn:E.
  - destruct (Nat.eqb m' m) eqn:Em.
    + destruct (cache_get (cache_del_val c m) k) as [x|] eqn:E2; [|reflexivity].
      apply cache_get_in in E2. unfold cache_del_val in E2. apply filter_In in E2 as [Hin Hv]. cbn in Hv.
      rewrite (in_cache_get c k x Hnd Hin) in E. inversion E; subst. rewrite Em in Hv. discriminate.
    + apply in_cache_get; [apply nodupk_filter; exact Hnd|]. unfold cache_del_val. apply filter_In. split; [apply cache_get_in; exact E|].
      cbn. rewrite Em. reflexivity.
  - destruct (cache_get (cache_del_val c m) k) as [x|] eqn:E2; [|reflexivity].
    apply cache_get_in in E2. unfold cache_del_val in E2. apply filter_In in E2 as [Hin _].
    rewrite (in_cache_get c k x Hnd Hin) in E. discriminate.
Qed.

(* ---- the invariant ---- *)
Definition file_owner (st : rstate) (m : nat) : option zs :=
  match nth_error (store st) m with
  | Some r => match m_owner r with OFile p => Some p | ONative _ _ => None end
  | None => None
  end.

(* k -> m in r.modules (path of the module file), in r.resolved (request path) or in r.nodeModules (start dir + bare name) *)
Definition cached (st : rstate) (k : zs) (m : nat) : Prop :=
  cache_get (files_cache st) k = Some m \/ cache_get (resolved_cache st) k = Some m \/ cache_get (node_cache st) k = Some m.

(* the keys of r.modules are the paths of the module files themselves, and every module cached under a request path or a
   bare name is a file module that is also cached under its own path *)
Record Inv (st : rstate) : Prop := {
  inv_nd_f : nodupk (files_cache st);
  inv_nd_r : nodupk (resolved_cache st);
  inv_nd_n : nodupk (node_cache st);
  inv_own : forall k m, cache_get (files_cache st) k = Some m -> file_owner st m = Some k;
  inv_canon : forall k m, cached st k m -> exists p, file_owner st m = Some p /\ cache_get (files_cache st) p = Some m
}.

(* st' extends st: modules are only added, owners never change, the r.modules entries of older modules stay
   (a module under evaluation keeps its entry in every state nested requires can reach) *)
Record ext (st st' : rstate) : Prop := {
  ext_len : (length (store st) <= length (store st'))%nat;
  ext_owner : forall m, (m < length (store st))%nat -> file_owner st' m = file_owner st m;
  ext_files : forall k m, (m < length (store st))%nat -> cache_get (files_cache st) k = Some m -> cache_get (files_cache st') k = Some m
}.

Lemma ext_refl st : ext st st.
Proof. constructor; auto. Qed.

Lemma ext_trans a b c : ext a b -> ext b c -> ext a c.
Proof.
  intros [L1 O1 F1] [L2 O2 F2]. constructor.
  - lia.
  - intros m Hm. rewrite O2 by lia. apply O1. exact Hm.
  - intros k m Hm H. apply F2; [lia|]. apply F1; assumption.
Qed.

Lemma file_owner_lt st m p : file_owner st m = Some p -> (m < length (store st))%nat.
Proof.
  unfold file_owner. destruct (nth_error (store st) m) eqn:E; [|discriminate]. intros _.
  apply nth_error_Some. congruence.
Qed.

Lemma cached_lt st k m : Inv st -> cached st k m -> (m < length (store st))%nat.
Proof. intros HI Hc. destruct (inv_canon st HI k m Hc) as (p & Ho & _). eapply file_owner_lt. exact Ho. Qed.

(* transformers that touch neither the caches nor the owners *)
Definition same_core (st st' : rstate) : Prop :=
  files_cache st' = files_cache st /\ resolved_cache st' = resolved_cache st /\ node_cache st' = node_cache st /\
  length (store st') = length (store st) /\ (forall m, file_owner st' m = file_owner st m).

Lemma same_core_inv st st' : same_core st st' -> Inv st -> Inv st'.
Proof.
  intros (Hf & Hr & Hn & Hl & Ho) [A Br B O C]. constructor; rewrite ?Hf, ?Hr, ?Hn; try assumption.
  - intros k m H. rewrite Ho. apply O. exact H.
  - intros k m Hc. unfold cached in Hc. rewrite Hf, Hr, Hn in Hc. destruct (C k m Hc) as (p & H1 & H2).
    exists p. rewrite Ho. auto.
Qed.

Lemma same_core_ext st st' : same_core st st' -> ext st st'.
Proof.
  intros (Hf & Hr & Hn & Hl & Ho). constructor; rewrite ?Hf, ?Hn; auto; lia.
Qed.

Lemma sc_log_load st p : same_core st (log_load st p).
Proof. repeat split. Qed.
Lemma sc_add_compiled st p : same_core st (add_compiled st p).
Proof. repeat split. Qed.
Lemma sc_read_manifest fs st pk : same_core st (read_manifest fs st pk).
Proof.
  unfold read_manifest. destruct (mem_zs pk (compiled st)); [repeat split|].
  destruct (fs_get fs pk) as [[]|]; try apply sc_log_load; repeat split.
Qed.

Lemma sc_log_event st a b c : same_core st (log_event st a b c).
Proof. repeat split. Qed.
Lemma sc_bump st f : same_core st (bump_counter st f).
Proof. repeat split. Qed.

Lemma nth_upd_nth {A} (l : list A) i j (f : A -> A) :
  nth_error (upd_nth l i f) j = if Nat.eqb i j then option_map f (nth_error l j) else nth_error l j.
Proof.
  revert i j; induction l as [|x l IH]; intros [|i] [|j]; simpl; try reflexivity.
  - destruct (Nat.eqb i j); reflexivity.
  - apply IH.
Qed.

Lemma length_upd_nth {A} (l : list A) i (f : A -> A) : length (upd_nth l i f) = length l.
Proof. revert i; induction l as [|x l IH]; intros [|i]; simpl; auto. Qed.

Lemma sc_set_exp st m k v : same_core st (set_exp st m k v).
Proof.
  unfold set_exp. repeat split; cbn; try apply length_upd_nth.
  intro j. unfold file_owner. cbn. rewrite nth_upd_nth. destruct (Nat.eqb m j); [|reflexivity].
  destruct (nth_error (store st) j); reflexivity.
Qed.

Lemma sc_add_lazy st m r : same_core st (add_lazy st m r).
Proof.
  unfold add_lazy. repeat split; cbn; try apply length_upd_nth.
  intro j. unfold file_owner. cbn. rewrite nth_upd_nth. destruct (Nat.eqb m j); [|reflexivity].
  destruct (nth_error (store st) j); reflexivity.
Qed.

Lemma sc_with_native st c r : same_core st (with_native st c r).
Proof. repeat split. Qed.

(* a new module *)
Lemma new_module_facts st o : let st' := fst (new_module st o) in let m := snd (new_module st o) in
  m = length (store st) /\ files_cache st' = files_cache st /\ resolved_cache st' = resolved_cache st /\ node_cache st' = node_cache st /\
  length (store st') = S (length (store st)) /\
  (forall j, (j < length (store st))%nat -> file_owner st' j = file_owner st j) /\
  file_owner st' m = match o with OFile p => Some p | _ => None end.
Proof.
  cbn. repeat split.
  - rewrite app_length. simpl. lia.
  - intros j Hj. unfold file_owner. cbn. rewrite nth_error_app1 by exact Hj. reflexivity.
  - unfold file_owner. cbn. rewrite nth_error_app2 by lia. rewrite Nat.sub_diag. cbn. reflexivity.
Qed.

Lemma new_module_inv st o : Inv st -> Inv (fst (new_module st o)) /\ ext st (fst (new_module st o)).
Proof.
  intro HI. destruct (new_module_facts st o) as (Hm & Hf & Hr & Hn & Hl & Ho & _). cbv zeta in *.
  split.
  - pose proof (fun k m => cached_lt st k m HI) as Hlt. destruct HI as [A Br B O C]. constructor; rewrite ?Hf, ?Hr, ?Hn; try assumption.
    + intros k m H. rewrite Ho; [apply O; exact H|]. eapply Hlt. left. exact H.
    + intros k m Hc. unfold cached in Hc. rewrite Hf, Hr, Hn in Hc. destruct (C k m Hc) as (p & H1 & H2).
      exists p. rewrite Ho by (eapply file_owner_lt; exact H1). auto.
  - constructor; rewrite ?Hf, ?Hn, ?Hl; auto.
Qed.

Definition good (st st' : rstate) : Prop := Inv st' /\ ext st st'.

Lemma good_refl st : Inv st -> good st st.
Proof. intro H. split; [exact H|apply ext_refl]. Qed.

Lemma good_trans a b c : good a b -> good b c -> good a c.
Proof. intros [_ E1] [I2 E2]. split; [exact I2|eapply ext_trans; eassumption]. Qed.

Lemma good_sc st st' : same_core st st' -> Inv st -> good st st'.
Proof. intros Hs HI. split; [eapply same_core_inv; eassumption|apply same_core_ext; exact Hs]. Qed.

(* forgetting a failed module: it disappears from the three maps under every name, nothing else changes *)
Lemma forget_get st m ps : Inv st ->
  (forall k, cache_get (files_cache (forget st m ps)) k =
     if zs_eqb k ps then None else match cache_get (files_cache st) k with Some m' => if Nat.eqb m' m then None else Some m' | None => None end) /\
  (forall k, cache_get (resolved_cache (forget st m ps)) k =
     match cache_get (resolved_cache st) k with Some m' => if Nat.eqb m' m then None else Some m' | None => None end) /\
  (forall k, cache_get (node_cache (forget st m ps)) k =
     match cache_get (node_cache st) k with Some m' => if Nat.eqb m' m then None else Some m' | None => None end).
Proof.
  intros [A Br B O C]. split; [|split]; intro k; unfold forget; cbn.
  - rewrite get_del, get_del_val by exact A. reflexivity.
  - apply get_del_val. exact Br.
  - apply get_del_val. exact B.
Qed.

Lemma forget_good st m ps :
  Inv st -> file_owner st m = Some ps -> cache_get (files_cache st) ps = Some m ->
  Inv (forget st m ps) /\
  (forall k m', m' <> m -> cache_get (files_cache st) k = Some m' -> cache_get (files_cache (forget st m ps)) k = Some m') /\
  (forall k, ~ cached (forget st m ps) k m) /\
  length (store (forget st m ps)) = length (store st) /\ (forall j, file_owner (forget st m ps) j = file_owner st j).
Proof.
  intros HI Ho Hps. destruct (forget_get st m ps HI) as (Hf & Hr & Hn). destruct HI as [A Br B O C].
  assert (Hkeep : forall k m', m' <> m -> cache_get (files_cache st) k = Some m' -> cache_get (files_cache (forget st m ps)) k = Some m').
  { intros k m' Hne Hk. rewrite Hf, Hk. destruct (Nat.eqb_spec m' m); [contradiction|].
    destruct (zs_eqb k ps) eqn:E; [|reflexivity]. apply zs_eqb_eq in E. subst k.
    rewrite Hps in Hk. inversion Hk; subst; contradiction. }
  assert (Hback : forall k m', cached (forget st m ps) k m' -> cached st k m' /\ m' <> m).
  { intros k m' [Hc|[Hc|Hc]].
    - rewrite Hf in Hc. destruct (zs_eqb k ps); [discriminate|].
      destruct (cache_get (files_cache st) k) as [x|] eqn:E; [|discriminate].
      destruct (Nat.eqb_spec x m); [discriminate|]. inversion Hc; subst. split; [left; exact E|assumption].
    - rewrite Hr in Hc. destruct (cache_get (resolved_cache st) k) as [x|] eqn:E; [|discriminate].
      destruct (Nat.eqb_spec x m); [discriminate|]. inversion Hc; subst. split; [right; left; exact E|assumption].
    - rewrite Hn in Hc. destruct (cache_get (node_cache st) k) as [x|] eqn:E; [|discriminate].
      destruct (Nat.eqb_spec x m); [discriminate|]. inversion Hc; subst. split; [right; right; exact E|assumption]. }
  split; [|split; [exact Hkeep|split; [|split; [reflexivity|reflexivity]]]].
  - constructor.
    + unfold forget. cbn. unfold cache_del. apply nodupk_filter. apply nodupk_filter. exact A.
    + unfold forget. cbn. apply nodupk_filter. exact Br.
    + unfold forget. cbn. apply nodupk_filter. exact B.
    + intros k m' Hc. destruct (Hback k m' (or_introl Hc)) as [[Hold|[Hold|Hold]] Hne].
      * change (file_owner st m' = Some k). apply O. exact Hold.
      * rewrite Hf in Hc. destruct (zs_eqb k ps); [discriminate|].
        destruct (cache_get (files_cache st) k) as [x|] eqn:E; [|discriminate].
        destruct (Nat.eqb x m); [discriminate|]. inversion Hc; subst. change (file_owner st m' = Some k). apply O. exact E.
      * rewrite Hf in Hc. destruct (zs_eqb k ps); [discriminate|].
        destruct (cache_get (files_cache st) k) as [x|] eqn:E; [|discriminate].
        destruct (Nat.eqb x m); [discriminate|]. inversion Hc; subst. change (file_owner st m' = Some k). apply O. exact E.
    + intros k m' Hc. destruct (Hback k m' Hc) as [Hold Hne]. destruct (C k m' Hold) as (p & H1 & H2).
      exists p. split; [exact H1|]. apply Hkeep; assumption.
  - intros k Hc. destruct (Hback k m Hc) as [_ Hne]. apply Hne. reflexivity.
Qed.

(* r.modules[path] = module for a new module whose own path is that key *)
Lemma add_file_inv st1 ps m : Inv st1 -> cache_get (files_cache st1) ps = None -> file_owner st1 m = Some ps ->
  Inv (with_files st1 (cache_set (files_cache st1) ps m)).
Proof.
  intros [A Br B O C] Ec Hon.
  assert (Hget2 : forall k, cache_get (files_cache (with_files st1 (cache_set (files_cache st1) ps m))) k = if zs_eqb k ps then Some m else cache_get (files_cache st1) k).
  { intro k. cbn [files_cache with_files]. apply get_set. }
  constructor.
  - cbn [files_cache with_files]. apply nodupk_set. exact A.
  - exact Br.
  - exact B.
  - intros k m' Hc. rewrite Hget2 in Hc. destruct (zs_eqb k ps) eqn:E.
    + apply zs_eqb_eq in E. inversion Hc; subst. exact Hon.
    + change (file_owner st1 m' = Some k). apply O. exact Hc.
  - intros k m' Hc.
    assert (Hcase : (k = ps /\ m' = m) \/ cached st1 k m').
    { destruct Hc as [Hc|Hc]; [|right; right; exact Hc].
      rewrite Hget2 in Hc. destruct (zs_eqb k ps) eqn:E.
      - apply zs_eqb_eq in E. inversion Hc; subst. left. auto.
      - right. left. exact Hc. }
    destruct Hcase as [[-> ->]|Hc1].
    + exists ps. split; [exact Hon|]. rewrite Hget2, zs_eqb_refl. reflexivity.
    + destruct (C k m' Hc1) as (p' & H1 & H2). exists p'. split; [exact H1|].
      rewrite Hget2. destruct (zs_eqb p' ps) eqn:E; [|exact H2].
      apply zs_eqb_eq in E. subst p'. rewrite Ec in H2. discriminate.
Qed.

Section OpenProofs.
Variable fs : fsys.
Variable nat_reg : natives.
Variable rq : rstate -> path -> zs -> rstate * res.
Hypothesis Hrq : forall st d r, Inv st -> good st (fst (rq st d r)).

Lemma run_lazies_good reqs : forall st f, Inv st -> good st (fst (run_lazies rq st f reqs)).
Proof.
  induction reqs as [|r reqs IH]; intros st f HI; cbn [run_lazies].
  - apply good_refl. exact HI.
  - pose proof (Hrq st (pdir (parse f)) r HI) as Hg. destruct (rq st (pdir (parse f)) r) as [st1 x]. cbn [fst] in Hg.
    destruct Hg as [HI1 E1].
    set (st2 := log_event st1 f r (outcome_of st1 x)).
    assert (G2 : good st st2).
    { split; [eapply same_core_inv; [apply sc_log_event|exact HI1]|]. eapply ext_trans; [exact E1|apply same_core_ext, sc_log_event]. }
    assert (Hcont : good st (fst (run_lazies rq st2 f reqs))) by (eapply good_trans; [exact G2|apply IH; exact (proj1 G2)]).
    destruct x; cbn [fst]; try exact Hcont. exact G2.
Qed.

Lemma run_body_good prog : forall st m file, Inv st -> good st (fst (run_body rq st m file prog)).
Proof.
  induction prog as [|i prog IH]; intros st m file HI; cbn [run_body].
  - apply good_refl. exact HI.
  - destruct i as [|k v|r catch|t|r|t].
    + eapply good_trans; [apply good_sc; [apply sc_bump|exact HI]|]. apply IH. eapply same_core_inv; [apply sc_bump|exact HI].
    + eapply good_trans; [apply good_sc; [apply sc_set_exp|exact HI]|]. apply IH. eapply same_core_inv; [apply sc_set_exp|exact HI].
    + pose proof (Hrq st (pdir (parse file)) r HI) as Hg. destruct (rq st (pdir (parse file)) r) as [st1 x]. cbn [fst] in Hg.
      destruct Hg as [HI1 E1].
      set (st2 := log_event st1 file r (outcome_of st1 x)).
      assert (G2 : good st st2).
      { split; [eapply same_core_inv; [apply sc_log_event|exact HI1]|]. eapply ext_trans; [exact E1|apply same_core_ext, sc_log_event]. }
      assert (Hcont : good st (fst (run_body rq st2 m file prog))) by (eapply good_trans; [exact G2|apply IH; exact (proj1 G2)]).
      destruct x; try exact Hcont; try (destruct catch; [exact Hcont|exact G2]). exact G2.
    + apply good_refl. exact HI.
    + eapply good_trans; [apply good_sc; [apply sc_add_lazy|exact HI]|]. apply IH. eapply same_core_inv; [apply sc_add_lazy|exact HI].
    + pose proof (Hrq st (pdir (parse file)) t HI) as Hg. destruct (rq st (pdir (parse file)) t) as [st1 x]. cbn [fst] in Hg.
      destruct Hg as [HI1 E1].
      set (st2 := log_event st1 file t (outcome_of st1 x)).
      assert (G2 : good st st2).
      { split; [eapply same_core_inv; [apply sc_log_event|exact HI1]|]. eapply ext_trans; [exact E1|apply same_core_ext, sc_log_event]. }
      assert (Hcont : good st (fst (run_body rq st2 m file prog))) by (eapply good_trans; [exact G2|apply IH; exact (proj1 G2)]).
      destruct x as [m'| | | |]; try exact Hcont; [|exact G2].
      destruct (owner_file st2 m') as [f'|]; [|exact Hcont].
      remember (run_lazies rq st2 f' (lazies_of st2 m')) as rl eqn:ERL.
      assert (G3 : good st2 (fst rl)) by (rewrite ERL; apply run_lazies_good; exact (proj1 G2)).
      destruct rl as [st3 oof]. cbn [fst] in G3.
      assert (G03 : good st st3) by exact (good_trans _ _ _ G2 G3).
      destruct oof; [exact G03|]. eapply good_trans; [exact G03|apply IH; exact (proj1 G03)].
Qed.

Definition good_res (st : rstate) (r : res) : Prop :=
  match r with ROk m => exists ps, file_owner st m = Some ps /\ cache_get (files_cache st) ps = Some m | _ => True end.

(* a failed evaluation leaves no cache entry for the module it created *)
Definition clean_failure (st st' : rstate) (r : res) : Prop :=
  match r with ROk _ => True | _ => forall k, ~ cached st' k (length (store st)) end.

Lemma load_module_good3 st p : Inv st ->
  good st (fst (load_module fs rq st p)) /\ good_res (fst (load_module fs rq st p)) (snd (load_module fs rq st p)) /\
  (cache_get (files_cache st) (render p) = None -> clean_failure st (fst (load_module fs rq st p)) (snd (load_module fs rq st p))).
Proof.
  intro HI. unfold load_module. set (ps := render p).
  destruct (cache_get (files_cache st) ps) as [m0|] eqn:Ec.
  - cbn [fst snd]. split; [apply good_refl; exact HI|]. split; [apply (inv_canon st HI ps m0); left; exact Ec|]. intro Hn. unfold ps in *. congruence.
  - destruct (new_module_facts st (OFile ps)) as (Hm & Hf1 & Hr1 & Hn1 & Hl1 & Ho1 & Hon). cbv zeta in *.
    destruct (new_module_inv st (OFile ps) HI) as [HI1 E1].
    destruct (new_module st (OFile ps)) as [st1 m] eqn:Enm. cbn [fst snd] in *.
    set (st2 := with_files st1 (cache_set (files_cache st1) ps m)).
    assert (Hget2 : forall k, cache_get (files_cache st2) k = if zs_eqb k ps then Some m else cache_get (files_cache st) k).
    { intro k. unfold st2. cbn [files_cache with_files]. rewrite get_set, Hf1. reflexivity. }
    assert (HI2 : Inv st2) by (apply add_file_inv; [exact HI1|rewrite Hf1; exact Ec|exact Hon]).
    assert (E2 : ext st st2).
    { constructor.
      - unfold st2. cbn. lia.
      - intros j Hj. apply Ho1. exact Hj.
      - intros k m0 Hm0 Hk. rewrite Hget2. destruct (zs_eqb k ps) eqn:E; [|exact Hk].
        apply zs_eqb_eq in E. subst k. rewrite Ec in Hk. discriminate. }
    assert (Hm2 : (m < length (store st2))%nat) by (unfold st2; cbn; lia).
    assert (Hown2 : file_owner st2 m = Some ps) by exact Hon.
    assert (Hps2 : cache_get (files_cache st2) ps = Some m) by (rewrite Hget2, zs_eqb_refl; reflexivity).
    set (was := mem_zs ps (compiled st2)).
    set (st3 := if was then st2 else log_load st2 ps).
    assert (S3 : same_core st2 st3) by (unfold st3; destruct was; [repeat split|apply sc_log_load]).
    assert (HI3 : Inv st3) by (eapply same_core_inv; eassumption).
    assert (E3 : ext st st3) by (eapply ext_trans; [exact E2|apply same_core_ext; exact S3]).
    (* facts about m carried along extensions of st2 *)
    assert (Hcarry : forall stx, ext st2 stx -> file_owner stx m = Some ps /\ cache_get (files_cache stx) ps = Some m).
    { intros stx Ex. split; [rewrite (ext_owner _ _ Ex) by exact Hm2; exact Hown2|apply (ext_files _ _ Ex); assumption]. }
    (* failure at a state stx that extends st2 *)
    assert (Hfail : forall stx, Inv stx -> ext st2 stx ->
              good st (forget stx m ps) /\ (forall k, ~ cached (forget stx m ps) k m)).
    { intros stx HIx Ex. destruct (Hcarry stx Ex) as [Hox Hpx].
      destruct (forget_good stx m ps HIx Hox Hpx) as (HIf & Kf & Kc & Hlen & Hown).
      split; [|exact Kc].
      split; [exact HIf|]. constructor.
      - rewrite Hlen. pose proof (ext_len _ _ Ex). pose proof (ext_len _ _ E2). lia.
      - intros j Hj. rewrite Hown. rewrite (ext_owner _ _ Ex) by (pose proof (ext_len _ _ E2); lia). apply (ext_owner _ _ E2). exact Hj.
      - intros k m0 Hm0 Hk. apply Kf; [lia|]. apply (ext_files _ _ Ex); [pose proof (ext_len _ _ E2); lia|]. apply (ext_files _ _ E2); assumption. }
    assert (E23 : ext st2 st3) by (apply same_core_ext; exact S3).
    destruct (fs_get fs ps) as [[prog|valid v|mn| |]|].
    + (* a JavaScript module *)
      set (st4 := if was then st3 else add_compiled st3 ps).
      assert (S4 : same_core st3 st4) by (unfold st4; destruct was; [repeat split|apply sc_add_compiled]).
      assert (HI4 : Inv st4) by (eapply same_core_inv; eassumption).
      assert (E24 : ext st2 st4) by (eapply ext_trans; [exact E23|apply same_core_ext; exact S4]).
      pose proof (run_body_good prog st4 m ps HI4) as [HI5 E45].
      destruct (run_body rq st4 m ps prog) as [st5 r] eqn:Erb. cbn [fst] in *.
      assert (E25 : ext st2 st5) by (eapply ext_trans; eassumption).
      destruct r as [mm| |kk|tt|]; cbn [fst snd];
        try (destruct (Hfail st5 HI5 E25) as [G Kc]; split; [exact G|split; [exact I|intros _ k; rewrite <- Hm; apply Kc]]).
      destruct (Hcarry st5 E25) as [Ho5 Hp5]. split; [|split; [|intros _; exact I]].
      * split; [exact HI5|eapply ext_trans; [exact E2|exact E25]].
      * exists ps. auto.
    + (* a .json module *)
      set (st4 := if was then st3 else add_compiled st3 ps).
      assert (S4 : same_core st3 st4) by (unfold st4; destruct was; [repeat split|apply sc_add_compiled]).
      assert (HI4 : Inv st4) by (eapply same_core_inv; eassumption).
      assert (E24 : ext st2 st4) by (eapply ext_trans; [exact E23|apply same_core_ext; exact S4]).
      destruct valid; cbn [fst snd].
      * assert (S5 : same_core st4 (set_exp st4 m 0 v)) by apply sc_set_exp.
        assert (E25 : ext st2 (set_exp st4 m 0 v)) by (eapply ext_trans; [exact E24|apply same_core_ext; exact S5]).
        destruct (Hcarry _ E25) as [Ho5 Hp5]. split; [|split; [|intros _; exact I]].
        -- split; [eapply same_core_inv; eassumption|eapply ext_trans; [exact E2|exact E25]].
        -- exists ps. auto.
      * destruct (Hfail st4 HI4 E24) as [G Kc]. split; [exact G|split; [exact I|intros _ k; rewrite <- Hm; apply Kc]].
    + set (st4 := if was then st3 else add_compiled st3 ps).
      assert (S4 : same_core st3 st4) by (unfold st4; destruct was; [repeat split|apply sc_add_compiled]).
      assert (HI4 : Inv st4) by (eapply same_core_inv; eassumption).
      assert (E24 : ext st2 st4) by (eapply ext_trans; [exact E23|apply same_core_ext; exact S4]).
      cbn [fst snd]. destruct (Hcarry _ E24) as [Ho5 Hp5]. split; [|split; [|intros _; exact I]].
      * split; [exact HI4|eapply ext_trans; [exact E2|exact E24]].
      * exists ps. auto.
    + set (st4 := if was then st3 else add_compiled st3 ps).
      assert (S4 : same_core st3 st4) by (unfold st4; destruct was; [repeat split|apply sc_add_compiled]).
      assert (HI4 : Inv st4) by (eapply same_core_inv; eassumption).
      assert (E24 : ext st2 st4) by (eapply ext_trans; [exact E23|apply same_core_ext; exact S4]).
      cbn [fst snd]. destruct (Hcarry _ E24) as [Ho5 Hp5]. split; [|split; [|intros _; exact I]].
      * split; [exact HI4|eapply ext_trans; [exact E2|exact E24]].
      * exists ps. auto.
    + cbn [fst snd]. destruct (Hfail st3 HI3 E23) as [G Kc]. split; [exact G|split; [exact I|intros _ k; rewrite <- Hm; apply Kc]].
    + cbn [fst snd]. destruct (Hfail st3 HI3 E23) as [G Kc]. split; [exact G|split; [exact I|intros _ k; rewrite <- Hm; apply Kc]].
Qed.

Lemma load_module_good st p : Inv st ->
  good st (fst (load_module fs rq st p)) /\ good_res (fst (load_module fs rq st p)) (snd (load_module fs rq st p)).
Proof. intro HI. destruct (load_module_good3 st p HI) as (A & B & _). split; assumption. Qed.

Lemma try_cands_good cs : forall st, Inv st ->
  good st (fst (try_cands fs rq st cs)) /\ good_res (fst (try_cands fs rq st cs)) (snd (try_cands fs rq st cs)).
Proof.
  induction cs as [|c cs IH]; intros st HI; cbn [try_cands].
  - split; [apply good_refl; exact HI|exact I].
  - destruct c as [p|pk].
    + destruct (load_module_good st p HI) as [G R]. destruct (load_module fs rq st p) as [st1 r]. cbn [fst snd] in *.
      destruct r; try (split; [exact G|exact R]).
      destruct (IH st1 (proj1 G)) as [G2 R2]. split; [eapply good_trans; eassumption|exact R2].
    + assert (HI1 : Inv (read_manifest fs st pk)) by (eapply same_core_inv; [apply sc_read_manifest|exact HI]).
      destruct (IH _ HI1) as [G2 R2]. split; [|exact R2].
      eapply good_trans; [apply good_sc; [apply sc_read_manifest|exact HI]|exact G2].
Qed.

Lemma load_native_good st name : Inv st -> good st (fst (load_native nat_reg st name)).
Proof.
  intro HI. unfold load_native.
  destruct (cache_get (native_cache st) name); [apply good_refl; exact HI|].
  assert (Hnew : forall o c r, good st (with_native (fst (new_module st o)) c r)).
  { intros o c r. destruct (new_module_inv st o HI) as [HI1 E1].
    split; [eapply same_core_inv; [apply sc_with_native|exact HI1]|eapply ext_trans; [exact E1|apply same_core_ext, sc_with_native]]. }
  destruct (if mem_zs name (n_registry nat_reg) then Some NRegistry else if mem_zs name (n_global nat_reg) then Some NGlobal
            else if mem_zs name (n_core nat_reg) then Some NCore else None) as [k|].
  - destruct (new_module st (ONative name k)) as [st1 m] eqn:E. cbn [fst].
    pose proof (Hnew (ONative name k)) as H. rewrite E in H. cbn [fst] in H. apply H.
  - destruct (has_prefix node_prefix name); [|apply good_refl; exact HI].
    destruct (mem_zs (skipn (length node_prefix) name) (n_core nat_reg)); [|apply good_refl; exact HI].
    destruct (new_module st (ONative (skipn (length node_prefix) name) NCore)) as [st1 m] eqn:E. cbn [fst].
    pose proof (Hnew (ONative (skipn (length node_prefix) name) NCore)) as H. rewrite E in H. cbn [fst] in H. apply H.
Qed.

Lemma load_native_run_good st name : Inv st -> good st (fst (load_native_run nat_reg rq st name)).
Proof.
  intro HI. unfold load_native_run.
  destruct (cache_get (native_cache st) name); [apply good_refl; exact HI|].
  destruct (reuse_core nat_reg st name) as [m0|]; [cbn [fst]; apply good_sc; [apply sc_with_native|exact HI]|].
  pose proof (load_native_good st name HI) as G. destruct (load_native nat_reg st name) as [st1 r]. cbn [fst] in G.
  destruct r as [m| | | |]; try exact G.
  destruct (mem_zs (registered_name st1 m) (n_loader_throws nat_reg)); [exact G|].
  remember (run_lazies rq st1 loader_file (assoc_reqs (n_loader_reqs nat_reg) (registered_name st1 m))) as rl eqn:ERL.
  assert (G3 : good st1 (fst rl)) by (rewrite ERL; apply run_lazies_good; exact (proj1 G)).
  destruct rl as [st2 oof]. cbn [fst] in *. exact (good_trans _ _ _ G G3).
Qed.

(* recording what a request path / a bare name resolved to (r.resolved[p] = module, r.nodeModules[key] = module, written
   unconditionally as in the code): the module is cached under its own path, so the invariant is kept *)
Lemma alias_resolved_good st k m : Inv st -> good_res st (ROk m) ->
  good st (with_resolved st (cache_set (resolved_cache st) k m)).
Proof.
  intros [A Br B O C] (ps & Ho & Hp).
  assert (Hget : forall k', cache_get (resolved_cache (with_resolved st (cache_set (resolved_cache st) k m))) k' = if zs_eqb k' k then Some m else cache_get (resolved_cache st) k').
  { intro k'. cbn [resolved_cache with_resolved]. apply get_set. }
  split.
  - constructor.
    + exact A.
    + cbn [resolved_cache with_resolved]. apply nodupk_set. exact Br.
    + exact B.
    + exact O.
    + intros k' m' Hc.
      assert (Hcase : m' = m \/ cached st k' m').
      { destruct Hc as [Hc|[Hc|Hc]]; [right; left; exact Hc| |right; right; right; exact Hc]. rewrite Hget in Hc.
        destruct (zs_eqb k' k); [inversion Hc; left; reflexivity|right; right; left; exact Hc]. }
      destruct Hcase as [->|Hc1].
      * exists ps. split; [exact Ho|exact Hp].
      * destruct (C k' m' Hc1) as (p' & H1 & H2). exists p'. split; [exact H1|exact H2].
  - constructor; auto.
Qed.

Lemma alias_node_good st k m : Inv st -> good_res st (ROk m) ->
  good st (with_node st (cache_set (node_cache st) k m)).
Proof.
  intros [A Br B O C] (ps & Ho & Hp).
  assert (Hget : forall k', cache_get (node_cache (with_node st (cache_set (node_cache st) k m))) k' = if zs_eqb k' k then Some m else cache_get (node_cache st) k').
  { intro k'. cbn [node_cache with_node]. apply get_set. }
  split.
  - constructor.
    + exact A.
    + exact Br.
    + cbn [node_cache with_node]. apply nodupk_set. exact B.
    + exact O.
    + intros k' m' Hc.
      assert (Hcase : m' = m \/ cached st k' m').
      { destruct Hc as [Hc|[Hc|Hc]]; [right; left; exact Hc|right; right; left; exact Hc|]. rewrite Hget in Hc.
        destruct (zs_eqb k' k); [inversion Hc; left; reflexivity|right; right; right; exact Hc]. }
      destruct Hcase as [->|Hc1].
      * exists ps. split; [exact Ho|exact Hp].
      * destruct (C k' m' Hc1) as (p' & H1 & H2). exists p'. split; [exact H1|exact H2].
  - constructor; auto.
Qed.

Lemma resolve_good st d r : Inv st -> good st (fst (resolve fs nat_reg rq st d r)).
Proof.
  intro HI. unfold resolve.
  set (p := pjoin (if is_abs r then None else Some d) r). set (ps := render p).
  destruct (is_file_or_dir_path r).
  - destruct (cache_get (resolved_cache st) ps) eqn:Ec; [apply good_refl; exact HI|].
    destruct (try_cands_good (cands_file_or_dir fs (parse ps)) st HI) as [G R].
    destruct (try_cands fs rq st (cands_file_or_dir fs (parse ps))) as [st1 x]. cbn [fst snd] in *.
    destruct x as [m| | | |]; try exact G. cbn [fst].
    eapply good_trans; [exact G|]. apply alias_resolved_good; [exact (proj1 G)|exact R].
  - pose proof (load_native_run_good st r HI) as G0. destruct (load_native_run nat_reg rq st r) as [st0 rn]. cbn [fst] in G0.
    destruct rn as [m| | | |]; try exact G0.
    set (nk := render d ++ 0 :: r).
    destruct (cache_get (node_cache st0) nk) eqn:Ec; [exact G0|].
    destruct (try_cands_good (cands_node fs (parse (render d)) r) st0 (proj1 G0)) as [G R].
    destruct (try_cands fs rq st0 (cands_node fs (parse (render d)) r)) as [st1 x]. cbn [fst snd] in *.
    assert (G01 : good st st1) by (eapply good_trans; eassumption).
    destruct x as [m| | | |]; try exact G01. cbn [fst].
    eapply good_trans; [exact G01|]. apply alias_node_good; [exact (proj1 G)|exact R].
Qed.

End OpenProofs.

(* ---- closing the recursion: every fuel, every graph, every request ---- *)
Theorem require_good fs nat_reg fuel : forall st d r, Inv st -> good st (fst (require_ fs nat_reg fuel st d r)).
Proof.
  induction fuel as [|f IH]; intros st d r HI.
  - apply good_refl. exact HI.
  - cbn [require_]. apply resolve_good; [|exact HI]. intros st' d' r' HI'. apply IH. exact HI'.
Qed.

Lemma init_inv : Inv init_state.
Proof. constructor; try constructor; try discriminate. intros k m [H|[H|H]]; discriminate. Qed.

Theorem top_require_inv fs nat_reg fuel st d r : Inv st -> Inv (fst (top_require fs nat_reg fuel st d r)).
Proof.
  intro HI. unfold top_require. pose proof (require_good fs nat_reg fuel st d r HI) as [HI1 _].
  destruct (require_ fs nat_reg fuel st d r) as [st1 x]. cbn [fst] in *.
  eapply same_core_inv; [apply sc_log_event|exact HI1].
Qed.

(* every state reachable by any sequence of top-level calls *)
Fixpoint run_tops (fs : fsys) (nat_reg : natives) (fuel : nat) (st : rstate) (calls : list (path * zs)) : rstate :=
  match calls with
  | [] => st
  | (d, r) :: rest => run_tops fs nat_reg fuel (fst (top_require fs nat_reg fuel st d r)) rest
  end.

Theorem reachable_inv fs nat_reg fuel calls : Inv (run_tops fs nat_reg fuel init_state calls).
Proof.
  assert (H : forall st, Inv st -> Inv (run_tops fs nat_reg fuel st calls)).
  { induction calls as [|[d r] rest IH]; intros st HI; [exact HI|]. cbn [run_tops]. apply IH. apply top_require_inv. exact HI. }
  apply H. apply init_inv.
Qed.

(* one live module per file: any two cache entries (under whatever spelling, in any of the three maps) whose modules belong
   to the same file hold the identical module *)
Theorem one_module_per_file st k1 m1 k2 m2 p :
  Inv st -> cached st k1 m1 -> cached st k2 m2 -> file_owner st m1 = Some p -> file_owner st m2 = Some p -> m1 = m2.
Proof.
  intros HI H1 H2 O1 O2.
  destruct (inv_canon st HI k1 m1 H1) as (p1 & P1 & C1). destruct (inv_canon st HI k2 m2 H2) as (p2 & P2 & C2).
  rewrite O1 in P1. rewrite O2 in P2. inversion P1; inversion P2; subst. rewrite C1 in C2. inversion C2. reflexivity.
Qed.

(* what a failure must NOT touch: forgetting the failed module m (cached under its own path ps) removes the entries of m and
   nothing else - every other module, in particular a member of a cycle through m whose own evaluation had completed, stays
   cached under every one of its names, and no module's exports, owner or evaluation counter moves. (Every failure branch of
   load_module has the shape (forget stx m ps, r).) *)
Theorem forget_keeps_others st m ps k m' :
  Inv st -> cache_get (files_cache st) ps = Some m -> m' <> m -> cached st k m' -> cached (forget st m ps) k m'.
Proof.
  intros HI Hps Hne Hc. destruct (forget_get st m ps HI) as (Gf & Gr & Gn).
  assert (Eq : Nat.eqb m' m = false) by (apply Nat.eqb_neq; exact Hne).
  destruct Hc as [Hc|[Hc|Hc]].
  - left. rewrite Gf. destruct (zs_eqb k ps) eqn:E.
    + apply zs_eqb_eq in E. subst k. rewrite Hps in Hc. inversion Hc. congruence.
    + rewrite Hc, Eq. reflexivity.
  - right; left. rewrite Gr, Hc, Eq. reflexivity.
  - right; right. rewrite Gn, Hc, Eq. reflexivity.
Qed.

Lemma forget_store st m ps : store (forget st m ps) = store st /\ counters (forget st m ps) = counters st.
Proof. split; reflexivity. Qed.
