(* Proofs/ProcessProofs.v — lemmas for C20 *)
From GN Require Import Common.Base Gen.ProcessEnv Model.Process.

Lemma split_at_first_app c name value :
  ~ In c name -> split_at_first c (name ++ c :: value) = Some (name, value).
Proof.
  induction name as [|x name IH]; simpl; intro Hn.
  - rewrite Z.eqb_refl. reflexivity.
  - destruct (Z.eqb_spec x c) as [->|Hne].
    + exfalso. apply Hn. left. reflexivity.
    + rewrite IH; [reflexivity|]. intro Hin. apply Hn. right. exact Hin.
Qed.

Lemma splitn_fuel_one f c s : splitn_fuel f c 1 s = [s].
Proof. destruct f; reflexivity. Qed.

(* The generated constants are the ones the proofs are about. *)
Lemma gen_constants :
  env_translated = true /\ env_sep = [61] /\ env_splitn = 2 /\ env_key_index = 0%nat /\ env_val_index = 1%nat.
Proof. repeat split; reflexivity. Qed.

Lemma entry_kv_join name value :
  ~ In 61 name -> entry_kv (name ++ 61 :: value) = Some (name, value).
Proof.
  intro Hn. unfold entry_kv.
  destruct gen_constants as (_ & Hs & Hk & Hi & Hj). rewrite Hs, Hk, Hi, Hj.
  unfold splitn. change (2 =? 0) with false. cbn iota.
  cbn [splitn_fuel]. change (2 =? 1) with false. cbn iota.
  rewrite (split_at_first_app 61 name value Hn).
  change (2 - 1) with 1. rewrite splitn_fuel_one. reflexivity.
Qed.

Lemma lookup_remove_same k m : lookup k (remove_key k m) = None.
Proof.
  induction m as [|[k' v] m IH]; simpl; [reflexivity|].
  destruct (zs_eqb k k') eqn:E; [exact IH|]. simpl. rewrite E. exact IH.
Qed.

Lemma lookup_remove_other k k' m : zs_eqb k k' = false -> lookup k (remove_key k' m) = lookup k m.
Proof.
  intro Hne. induction m as [|[k2 v] m IH]; simpl; [reflexivity|].
  destruct (zs_eqb k' k2) eqn:E1.
  - apply zs_eqb_eq in E1; subst k2. rewrite Hne. exact IH.
  - simpl. destruct (zs_eqb k k2); [reflexivity|exact IH].
Qed.

Lemma lookup_set k k' v m :
  lookup k (set_key k' v m) = if zs_eqb k k' then Some v else lookup k m.
Proof.
  unfold set_key; simpl. destruct (zs_eqb k k') eqn:E; [reflexivity|].
  apply lookup_remove_other; exact E.
Qed.

Lemma keys_remove_incl k m x : In x (map fst (remove_key k m)) -> In x (map fst m) /\ x <> k.
Proof.
  induction m as [|[k' v] m IH]; simpl; [tauto|].
  destruct (zs_eqb k k') eqn:E.
  - intro H. apply IH in H. tauto.
  - simpl. intros [H|H].
    + subst x. split; [left; reflexivity|]. intro Hc; subst k'. rewrite zs_eqb_refl in E. discriminate.
    + apply IH in H. tauto.
Qed.

Lemma nodup_remove k m : NoDup (map fst m) -> NoDup (map fst (remove_key k m)).
Proof.
  induction m as [|[k' v] m IH]; simpl; intro H; [constructor|].
  inversion H as [|? ? Hni Hnd]; subst.
  destruct (zs_eqb k k'); [apply IH; exact Hnd|].
  simpl. constructor; [|apply IH; exact Hnd].
  intro Hin. apply keys_remove_incl in Hin. tauto.
Qed.

Lemma nodup_set k v m : NoDup (map fst m) -> NoDup (map fst (set_key k v m)).
Proof.
  intro H. unfold set_key; simpl. constructor; [|apply nodup_remove; exact H].
  intro Hin. apply keys_remove_incl in Hin. tauto.
Qed.

Definition set_pair (m : envmap) (p : zs * zs) : envmap := set_key (fst p) (snd p) m.

Lemma build_env_pairs ps : forall m,
  (forall p, In p ps -> ~ In 61 (fst p)) ->
  build_env (map join_kv ps) m = Some (fold_left set_pair ps m).
Proof.
  induction ps as [|[k v] ps IH]; intros m Hok; simpl; [reflexivity|].
  unfold join_kv at 1; simpl. rewrite entry_kv_join.
  - apply IH. intros p Hp. apply Hok. right. exact Hp.
  - apply (Hok (k, v)). left. reflexivity.
Qed.

Lemma fold_nodup ps : forall m, NoDup (map fst m) -> NoDup (map fst (fold_left set_pair ps m)).
Proof.
  induction ps as [|p ps IH]; intros m H; simpl; [exact H|].
  apply IH. apply nodup_set. exact H.
Qed.

Lemma lookup_fold_notin ps : forall m k,
  ~ In k (map fst ps) -> lookup k (fold_left set_pair ps m) = lookup k m.
Proof.
  induction ps as [|[k' v'] ps IH]; intros m k Hn; simpl; [reflexivity|].
  rewrite IH.
  - unfold set_pair; cbn [fst snd]. rewrite lookup_set.
    destruct (zs_eqb k k') eqn:E; [|reflexivity].
    apply zs_eqb_eq in E; subst k'. exfalso. apply Hn. left. reflexivity.
  - intro Hin. apply Hn. right. exact Hin.
Qed.

Lemma lookup_fold_in ps : forall m k v,
  NoDup (map fst ps) -> In (k, v) ps -> lookup k (fold_left set_pair ps m) = Some v.
Proof.
  induction ps as [|[k' v'] ps IH]; intros m k v Hnd Hin; simpl in *; [contradiction|].
  inversion Hnd as [|? ? Hni Hnd']; subst.
  destruct Hin as [Heq|Hin].
  - inversion Heq; subst. rewrite lookup_fold_notin; [|exact Hni].
    unfold set_pair; cbn [fst snd]. rewrite lookup_set, zs_eqb_refl. reflexivity.
  - apply IH; assumption.
Qed.

Lemma lookup_fold_some ps : forall m k v,
  lookup k (fold_left set_pair ps m) = Some v -> In (k, v) ps \/ lookup k m = Some v.
Proof.
  induction ps as [|[k' v'] ps IH]; intros m k v H; simpl in *; [right; exact H|].
  apply IH in H. destruct H as [H|H]; [left; right; exact H|].
  unfold set_pair in H; cbn [fst snd] in H. rewrite lookup_set in H.
  destruct (zs_eqb k k') eqn:E.
  - apply zs_eqb_eq in E; subst k'. inversion H; subst. left. left. reflexivity.
  - right. exact H.
Qed.

Theorem env_exact ps :
  NoDup (map fst ps) ->
  (forall p, In p ps -> ~ In 61 (fst p)) ->
  exists m, build_env (map join_kv ps) [] = Some m
         /\ NoDup (map fst m)
         /\ forall k v, lookup k m = Some v <-> In (k, v) ps.
Proof.
  intros Hnd Hok. exists (fold_left set_pair ps []). split; [|split].
  - apply build_env_pairs. exact Hok.
  - apply fold_nodup. constructor.
  - intros k v. split.
    + intro H. apply lookup_fold_some in H. destruct H as [H|H]; [exact H|discriminate].
    + intro H. apply lookup_fold_in; assumption.
Qed.

(* A variable without '=' makes the host panic (index [1] out of range): outside the property's
   quantifier, recorded so that the totalised option is not mistaken for "works". *)
Lemma entry_without_eq_panics e : ~ In 61 e -> entry_kv e = None.
Proof.
  intro Hn. unfold entry_kv.
  destruct gen_constants as (_ & Hs & Hk & Hi & Hj). rewrite Hs, Hk, Hi, Hj.
  unfold splitn. change (2 =? 0) with false. cbn iota. cbn [splitn_fuel].
  change (2 =? 1) with false. cbn iota.
  assert (Hs1 : split_at_first 61 e = None).
  { induction e as [|x e IH]; simpl; [reflexivity|].
    destruct (Z.eqb_spec x 61) as [->|Hne]; [exfalso; apply Hn; left; reflexivity|].
    rewrite IH; [reflexivity|]. intro H; apply Hn; right; exact H. }
  rewrite Hs1. reflexivity.
Qed.

(* ---- isolation ---- *)

Definition targets (r : nat) (o : op) : bool := Nat.eqb (op_rt o) r.

Definition sim (r : nat) (w v : world) : Prop := host w = host v /\ rt_env w r = rt_env v r.

Lemma step_host w o w' : step w o = Some w' -> host w' = host w.
Proof.
  destruct o as [r|r k v|r k]; simpl;
    destruct (rt_env w r); try destruct (build_env (host w) []); intro H; inversion H; reflexivity.
Qed.

Lemma step_other r w o w' :
  targets r o = false -> step w o = Some w' -> rt_env w' r = rt_env w r.
Proof.
  unfold targets. intros Ht Hs.
  destruct o as [r0|r0 k v|r0 k]; simpl in *;
    destruct (rt_env w r0); try destruct (build_env (host w) []); inversion Hs; subst; simpl;
    try reflexivity; unfold upd_rt; rewrite Nat.eqb_sym, Ht; reflexivity.
Qed.

Lemma step_target r w v o w' :
  targets r o = true -> sim r w v -> step w o = Some w' ->
  exists v', step v o = Some v' /\ sim r w' v'.
Proof.
  unfold targets, sim. intros Ht [Hh He] Hs. apply Nat.eqb_eq in Ht.
  destruct o as [r0|r0 k x|r0 k]; simpl in *; subst r0; rewrite <- He, <- Hh.
  - destruct (rt_env w r) eqn:Er.
    + inversion Hs; subst. exists v. repeat split; congruence.
    + destruct (build_env (host w) []) eqn:Eb; [|discriminate].
      inversion Hs; subst; simpl. eexists. split; [reflexivity|]. simpl.
      unfold upd_rt. rewrite Nat.eqb_refl. repeat split; congruence.
  - destruct (rt_env w r) eqn:Er; inversion Hs; subst.
    + eexists. split; [reflexivity|]. simpl. unfold upd_rt. rewrite Nat.eqb_refl. repeat split; congruence.
    + exists v. repeat split; congruence.
  - destruct (rt_env w r) eqn:Er; inversion Hs; subst.
    + eexists. split; [reflexivity|]. simpl. unfold upd_rt. rewrite Nat.eqb_refl. repeat split; congruence.
    + exists v. repeat split; congruence.
Qed.

Lemma run_filter_sim r ops : forall w v w',
  sim r w v -> run ops w = Some w' ->
  exists v', run (filter (targets r) ops) v = Some v' /\ sim r w' v'.
Proof.
  induction ops as [|o ops IH]; intros w v w' Hsim Hrun; simpl in *.
  - inversion Hrun; subst. exists v. split; [reflexivity|exact Hsim].
  - destruct (step w o) as [w1|] eqn:Es; [|discriminate].
    destruct (targets r o) eqn:Et.
    + destruct (step_target r w v o w1 Et Hsim Es) as (v1 & Hv1 & Hsim1).
      simpl. rewrite Hv1. eapply IH; eassumption.
    + eapply IH; [|exact Hrun]. destruct Hsim as [Hh He]. split.
      * rewrite (step_host _ _ _ Es). exact Hh.
      * rewrite (step_other r w o w1 Et Es). exact He.
Qed.

Theorem env_isolated ops w w' :
  run ops w = Some w' ->
  host w' = host w /\
  forall r, exists w'', run (filter (targets r) ops) w = Some w'' /\ rt_env w'' r = rt_env w' r.
Proof.
  intro Hrun. split.
  - revert w Hrun. induction ops as [|o ops IH]; intros w Hrun; simpl in Hrun.
    + inversion Hrun; reflexivity.
    + destruct (step w o) as [w1|] eqn:Es; [|discriminate].
      rewrite (IH _ Hrun). eapply step_host; exact Es.
  - intro r. destruct (run_filter_sim r ops w w w') as (v' & Hv & [_ He]).
    + split; reflexivity.
    + exact Hrun.
    + exists v'. split; [exact Hv|symmetry; exact He].
Qed.

(* What a runtime sees at its first require is the host environment as it is (a snapshot). *)
Theorem env_snapshot w r m :
  rt_env w r = None -> build_env (host w) [] = Some m ->
  exists w', step w (Req r) = Some w' /\ rt_env w' r = Some m.
Proof.
  intros Hn Hb. simpl. rewrite Hn, Hb. eexists. split; [reflexivity|].
  simpl. unfold upd_rt. rewrite Nat.eqb_refl. reflexivity.
Qed.

(* ---- the host changes its environment: what a runtime has is a snapshot ---- *)
(* once a runtime has required process, nothing but its own assignments and deletes changes what it sees: not the host's
   later Setenv/Unsetenv, not other runtimes, not further requires *)
Theorem snapshot_stable hs : forall w w' r m,
  rt_env w r = Some m -> forallb (fun h => negb (touches r h) || match h with RtOp (Req _) => true | _ => false end) hs = true ->
  hrun hs w = Some w' -> rt_env w' r = Some m.
Proof.
  induction hs as [|h hs IH]; intros w w' r m Hm Hall Hrun; cbn [hrun] in Hrun.
  - inversion Hrun; subst. exact Hm.
  - cbn [forallb] in Hall. apply andb_prop in Hall as [Hh Hall].
    destruct (hstep w h) as [w1|] eqn:Es; [|discriminate].
    apply (IH w1 w' r m); [|exact Hall|exact Hrun].
    destruct h as [o|k v|k]; cbn [hstep] in Es.
    + destruct (touches r (RtOp o)) eqn:Et.
      * cbn in Hh. destruct o as [r0|r0 k v|r0 k]; try discriminate. cbn [touches op_rt] in Et. apply Nat.eqb_eq in Et. subst r0.
        cbn [step] in Es. rewrite Hm in Es. inversion Es; subst. exact Hm.
      * rewrite (step_other r w o w1); [exact Hm| |exact Es]. unfold targets. exact Et.
    + inversion Es; subst. exact Hm.
    + inversion Es; subst. exact Hm.
Qed.

(* the first require after a host change sees the changed environment (the snapshot is taken then, not earlier) *)
Theorem snapshot_taken_at_require w r k v m :
  rt_env w r = None -> build_env (host_set k v (host w)) [] = Some m ->
  exists w', hrun [HostSet k v; RtOp (Req r)] w = Some w' /\ rt_env w' r = Some m.
Proof.
  intros Hn Hb. cbn [hrun hstep step rt_env host]. rewrite Hn, Hb. eexists. split; [reflexivity|].
  cbn. unfold upd_rt. rewrite Nat.eqb_refl. reflexivity.
Qed.
