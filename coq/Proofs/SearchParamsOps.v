(* Proofs/SearchParamsOps.v — the compaction loops of delete/set as written compute the WHATWG list operations *)
From GN Require Import Common.Base Gen.UrlTables Model.SearchParams Spec.SearchParamsSpec.

Section ListLemmas.
Context {A : Type}.

Lemma length_set_nth (l : list A) i x : length (set_nth l i x) = length l.
Proof. revert i; induction l as [|y l IH]; intros [|i]; simpl; auto. Qed.

Lemma firstn_S_nth_error (l : list A) i v : nth_error l i = Some v -> firstn (S i) l = firstn i l ++ [v].
Proof.
  revert i; induction l as [|y l IH]; intros [|i] H; simpl in *; try discriminate.
  - inversion H; reflexivity.
  - f_equal. apply IH. exact H.
Qed.

Lemma skipn_nth_error (l : list A) i v : nth_error l i = Some v -> skipn i l = v :: skipn (S i) l.
Proof.
  revert i; induction l as [|y l IH]; intros [|i] H; simpl in *; try discriminate.
  - inversion H; reflexivity.
  - apply IH. exact H.
Qed.

Lemma firstn_set_nth_same (l : list A) j v : (j < length l)%nat -> firstn (S j) (set_nth l j v) = firstn j l ++ [v].
Proof.
  revert j; induction l as [|y l IH]; intros [|j] H; simpl in *; try lia.
  - reflexivity.
  - f_equal. apply IH. lia.
Qed.

Lemma firstn_set_nth_ge (l : list A) j k v : (k <= j)%nat -> firstn k (set_nth l j v) = firstn k l.
Proof.
  revert j k; induction l as [|y l IH]; intros [|j] [|k] H; simpl in *; try reflexivity; try lia.
  f_equal. apply IH. lia.
Qed.

Lemma skipn_set_nth_lt (l : list A) j k v : (j < k)%nat -> skipn k (set_nth l j v) = skipn k l.
Proof.
  revert j k; induction l as [|y l IH]; intros [|j] [|k] H; simpl in *; try reflexivity; try lia.
  apply IH. lia.
Qed.

Lemma nth_error_lt (l : list A) i : (i < length l)%nat -> exists v, nth_error l i = Some v.
Proof.
  intro H. destruct (nth_error l i) eqn:E; [eauto|]. apply nth_error_None in E. lia.
Qed.

End ListLemmas.

(* ---- delete ---- *)

Lemma delete_loop_spec valid : forall n arr i j,
  (i + n = length arr)%nat -> (j <= i)%nat ->
  firstn (snd (delete_loop valid arr n i j)) (fst (delete_loop valid arr n i j))
  = firstn j arr ++ filter valid (skipn i arr).
Proof.
  induction n as [|n IH]; intros arr i j Hlen Hj.
  - simpl. rewrite skipn_all2 by lia. rewrite app_nil_r. reflexivity.
  - cbn [delete_loop].
    destruct (nth_error_lt arr i ltac:(lia)) as [v Hv]. rewrite Hv.
    rewrite (skipn_nth_error arr i v Hv). cbn [filter].
    destruct (valid v) eqn:Ev.
    + destruct (Nat.eqb_spec i j) as [->|Hne].
      * rewrite IH by lia. rewrite (firstn_S_nth_error arr j v Hv). rewrite <- app_assoc. reflexivity.
      * rewrite IH by (rewrite ?length_set_nth; lia).
        rewrite firstn_set_nth_same by lia. rewrite skipn_set_nth_lt by lia.
        rewrite <- app_assoc. reflexivity.
    + rewrite IH by lia. reflexivity.
Qed.

Theorem delete_as_written_filter valid l : delete_as_written valid l = filter valid l.
Proof.
  unfold delete_as_written.
  pose proof (delete_loop_spec valid (length l) l 0 0 eq_refl (le_n 0)) as H.
  destruct (delete_loop valid l (length l) 0 0) as [arr' j]. simpl in H. exact H.
Qed.

(* ---- set ---- *)

Definition is_name (name : zs) (p : pair) : bool := zs_eqb (fst p) name.

(* once the first match has been rewritten, the rest of the loop is a delete-by-name compaction *)
Lemma set_loop_found name value : forall n arr i j,
  (i + n = length arr)%nat -> (j <= i)%nat ->
  let r := set_loop name value arr n i j true in
  snd r = true /\
  firstn (snd (fst r)) (fst (fst r)) = firstn j arr ++ filter (fun p => negb (is_name name p)) (skipn i arr).
Proof.
  induction n as [|n IH]; intros arr i j Hlen Hj; cbv zeta.
  - simpl. rewrite skipn_all2 by lia. rewrite app_nil_r. auto.
  - cbn [set_loop].
    destruct (nth_error_lt arr i ltac:(lia)) as [v Hv]. rewrite Hv.
    rewrite (skipn_nth_error arr i v Hv). cbn [filter]. unfold is_name at 1.
    destruct (zs_eqb (fst v) name) eqn:Ev; cbn [negb].
    + apply IH; lia.
    + destruct (Nat.eqb_spec i j) as [->|Hne].
      * destruct (IH arr (S j) (S j) ltac:(lia) ltac:(lia)) as [H1 H2]. split; [exact H1|].
        rewrite H2. rewrite (firstn_S_nth_error arr j v Hv). rewrite <- app_assoc. reflexivity.
      * destruct (IH (set_nth arr j v) (S i) (S j) ltac:(rewrite length_set_nth; lia) ltac:(lia)) as [H1 H2].
        split; [exact H1|]. rewrite H2.
        rewrite firstn_set_nth_same by lia. rewrite skipn_set_nth_lt by lia.
        rewrite <- app_assoc. reflexivity.
Qed.

(* before the first match nothing has been skipped, so i = j and the array is untouched *)
Lemma set_loop_notfound name value : forall n arr i,
  (i + n = length arr)%nat ->
  let r := set_loop name value arr n i i false in
  (snd r = true /\ existsb (is_name name) (skipn i arr) = true /\
   firstn (snd (fst r)) (fst (fst r)) = firstn i arr ++ spec_set_first name value (skipn i arr))
  \/ (snd r = false /\ existsb (is_name name) (skipn i arr) = false).
Proof.
  induction n as [|n IH]; intros arr i Hlen; cbv zeta.
  - right. simpl. rewrite skipn_all2 by lia. auto.
  - cbn [set_loop].
    destruct (nth_error_lt arr i ltac:(lia)) as [v Hv]. rewrite Hv.
    rewrite (skipn_nth_error arr i v Hv). cbn [existsb spec_set_first]. unfold is_name at 1 3.
    destruct (zs_eqb (fst v) name) eqn:Ev.
    + left. rewrite Nat.eqb_refl. cbn [orb].
      destruct (set_loop_found name value n (set_nth arr i (fst v, value)) (S i) (S i)
                  ltac:(rewrite length_set_nth; lia) ltac:(lia)) as [H1 H2].
      split; [exact H1|]. split; [reflexivity|].
      rewrite H2. rewrite firstn_set_nth_same by lia. rewrite skipn_set_nth_lt by lia.
      rewrite <- app_assoc. reflexivity.
    + rewrite Nat.eqb_refl. cbn [orb].
      destruct (IH arr (S i) ltac:(lia)) as [(H1 & H2 & H3)|(H1 & H2)].
      * left. split; [exact H1|]. split; [exact H2|].
        rewrite H3. rewrite (firstn_S_nth_error arr i v Hv). rewrite <- app_assoc. reflexivity.
      * right. auto.
Qed.

Theorem set_as_written_spec name value l : set_as_written name value l = spec_set name value l.
Proof.
  unfold set_as_written, spec_set.
  pose proof (set_loop_notfound name value (length l) l 0 eq_refl) as H. cbv zeta in H.
  destruct (set_loop name value l (length l) 0 0 false) as [[arr' j] found]. simpl in H.
  change (existsb (fun p => zs_eqb (fst p) name) l) with (existsb (is_name name) l).
  destruct H as [(H1 & H2 & H3)|(H1 & H2)]; subst found; rewrite H2; [exact H3|reflexivity].
Qed.

(* ---- every history ---- *)

Lemma step_spec s o : step s o = spec_step s o.
Proof.
  destruct o; try reflexivity; unfold step, spec_step.
  - rewrite delete_as_written_filter. reflexivity.
  - rewrite delete_as_written_filter. reflexivity.
  - rewrite set_as_written_spec. reflexivity.
Qed.

Theorem run_refines_spec ops : forall s, run s ops = spec_run s ops.
Proof.
  induction ops as [|o ops IH]; intro s; [reflexivity|].
  cbn [run spec_run]. rewrite step_spec. destruct (spec_step s o) as [s' b]. rewrite IH. reflexivity.
Qed.
