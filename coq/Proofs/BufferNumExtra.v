(* Proofs/BufferNumExtra.v — frame, read-after-write, bijection: consequences at the specification level *)
From GN Require Import Common.Base Common.Int64 Model.BufferTypes Gen.BufferMethods Model.Buffer Spec.BufferNumSpec
  Proofs.BufferBytes Proofs.BufferGuards Proofs.BufferNumRefine.
From Coq Require Import String.
Open Scope list_scope.
Open Scope Z_scope.

Lemma in_buffer_bounds buf off w : in_buffer buf off w = true -> 0 <= off /\ off + w <= Z.of_nat (List.length buf).
Proof. unfold in_buffer. intro H. apply andb_true_iff in H as [H1 H2]. apply Z.leb_le in H1, H2. lia. Qed.

(* exactly the positions off .. off+w-1 change; the length does not *)
Theorem splice_frame buf off bs :
  in_buffer buf off (Z.of_nat (List.length bs)) = true ->
  List.length (splice buf off bs) = List.length buf /\
  (forall i d, (i < Z.to_nat off \/ Z.to_nat off + List.length bs <= i)%nat -> nth i (splice buf off bs) d = nth i buf d) /\
  firstn (List.length bs) (skipn (Z.to_nat off) (splice buf off bs)) = bs.
Proof.
  intro Hin. apply in_buffer_bounds in Hin as [H0 H1]. unfold splice.
  set (o := Z.to_nat off). set (n := List.length bs).
  assert (Ho : (o + n <= List.length buf)%nat) by (unfold o, n; lia).
  replace (Z.to_nat (off + Z.of_nat n)) with (o + n)%nat by (unfold o; lia).
  assert (Hlf : List.length (firstn o buf) = o) by (rewrite firstn_length; lia).
  split; [|split].
  - rewrite !app_length, Hlf, skipn_length. lia.
  - intros i d [Hi|Hi].
    + rewrite app_nth1 by lia. rewrite <- (firstn_skipn o buf) at 2. rewrite app_nth1 by lia. reflexivity.
    + rewrite app_nth2 by lia. rewrite Hlf. rewrite app_nth2 by (fold n; lia). fold n.
      rewrite <- (firstn_skipn (o + n) buf) at 2. rewrite app_nth2 by (rewrite firstn_length; lia).
      rewrite firstn_length. f_equal. lia.
  - rewrite skipn_app, Hlf. rewrite (skipn_all2 (firstn o buf)) by lia. rewrite Nat.sub_diag. cbn [app skipn].
    rewrite firstn_app, Nat.sub_diag. cbn [firstn]. rewrite app_nil_r. apply firstn_all2. fold n. lia.
Qed.

(* read(write v) = v for every representable integer of every width *)
Theorem int_roundtrip sg w e v :
  0 < w -> int_representable sg w v = true ->
  (let u := from_bytes e (enc_bytes e v w) in if sg then to_signed u w else u) = v.
Proof.
  intros Hw Hr. cbv zeta. unfold enc_bytes. rewrite from_bytes_bytes_of by lia. rewrite Z.mod_mod by (apply Z.pow_nonzero; lia).
  assert (Hp : 2 ^ (8 * w) = 2 * 2 ^ (8 * w - 1)).
  { replace (8 * w) with (1 + (8 * w - 1)) at 1 by lia. rewrite Z.pow_add_r by lia. reflexivity. }
  assert (Hpos : 0 < 2 ^ (8 * w - 1)) by (apply Z.pow_pos_nonneg; lia).
  unfold int_representable in Hr. destruct sg.
  - apply andb_true_iff in Hr as [H1 H2]. apply Z.leb_le in H1. apply Z.ltb_lt in H2.
    unfold to_signed. rewrite Z.geb_leb.
    destruct (Z.leb_spec 0 v).
    + rewrite (Z.mod_small v) by lia. destruct (Z.leb_spec (2 ^ (8 * w - 1)) v); lia.
    + assert (E : v mod 2 ^ (8 * w) = v + 2 ^ (8 * w)).
      { symmetry. apply (Z.mod_unique_pos _ _ (-1)); lia. }
      rewrite E. destruct (Z.leb_spec (2 ^ (8 * w - 1)) (v + 2 ^ (8 * w))); lia.
  - apply andb_true_iff in Hr as [H1 H2]. apply Z.leb_le in H1. apply Z.ltb_lt in H2. apply Z.mod_small. lia.
Qed.

(* doubles: the 64 bits are stored and read back exactly (NaN payloads included) *)
Theorem double_roundtrip e b : 0 <= b < two64 -> from_bytes e (bytes_of e b 8) = b.
Proof.
  intro H. rewrite from_bytes_bytes_of by lia. apply Z.mod_small. change (2 ^ (8 * 8)) with two64. exact H.
Qed.

(* the Uint spellings are registered to the same implementation as their UInt twins *)
Definition alias_pairs : list (string * string) :=
  [("readUint8", "readUInt8"); ("readUint16BE", "readUInt16BE"); ("readUint16LE", "readUInt16LE");
   ("readUint32BE", "readUInt32BE"); ("readUint32LE", "readUInt32LE"); ("readUintBE", "readUIntBE"); ("readUintLE", "readUIntLE");
   ("readBigUint64BE", "readBigUInt64BE"); ("readBigUint64LE", "readBigUInt64LE");
   ("writeUint8", "writeUInt8"); ("writeUint16BE", "writeUInt16BE"); ("writeUint16LE", "writeUInt16LE");
   ("writeUint32BE", "writeUInt32BE"); ("writeUint32LE", "writeUInt32LE"); ("writeUintBE", "writeUIntBE"); ("writeUintLE", "writeUIntLE");
   ("writeBigUint64BE", "writeBigUInt64BE"); ("writeBigUint64LE", "writeBigUInt64LE")]%string.

Definition opt_s_eqb (a b : option string) : bool :=
  match a, b with Some x, Some y => String.eqb x y | _, _ => false end.

Theorem aliases_registered :
  forallb (fun p => opt_s_eqb (assoc_s (fst p) registrations) (assoc_s (snd p) registrations)) alias_pairs = true.
Proof. vm_compute. reflexivity. Qed.

(* every name of the specification table is registered, exactly once, and appears in the list it is looked up from *)
Definition registered_once (js : string) : bool :=
  match assoc_s js registrations with
  | Some go => Nat.eqb (List.length (filter (fun r => String.eqb (fst r) js) registrations)) 1
  | None => false
  end.

Theorem spec_names_registered : forallb (fun p => registered_once (fst p)) spec_table = true.
Proof. vm_compute. reflexivity. Qed.

Lemma assoc_in js go : assoc_s js registrations = Some go -> In (js, go) registrations.
Proof.
  generalize registrations. induction l as [|[k v] l IH]; cbn [assoc_s]; [discriminate|].
  destruct (String.eqb js k) eqn:E.
  - intro H. inversion H; subst. apply String.eqb_eq in E. subst. left. reflexivity.
  - intro H. right. apply IH. exact H.
Qed.

Theorem numeric_method_correct js buf args sp :
  spec_of_name js = Some sp -> wf_buf buf -> wf_args args ->
  exists m, call_method js buf args = Some m /\
            refines m (if ms_write sp then spec_write sp buf args else spec_read sp buf args).
Proof.
  intros Hsp Hbuf Hargs.
  assert (Hreg : registered_once js = true).
  { assert (Hin : In (js, sp) spec_table).
    { revert Hsp. unfold spec_of_name. generalize spec_table. induction l as [|[k v] l IH]; cbn [assoc_s]; [discriminate|].
      destruct (String.eqb js k) eqn:E; intro H.
      - inversion H; subst. apply String.eqb_eq in E. subst. left. reflexivity.
      - right. apply IH. exact H. }
    exact (proj1 (forallb_forall _ _) spec_names_registered _ Hin). }
  unfold registered_once in Hreg. destruct (assoc_s js registrations) as [go|] eqn:Ea; [|discriminate].
  eapply registered_method_refines; try eassumption.
  - apply assoc_in. exact Ea.
  - apply all_registrations_ok.
Qed.
