From GN Require Import Common.Base Gen.UtilFormat Model.Format Spec.FormatSpec.

Definition sspec := spec_scan arg a_str a_num a_json.

Lemma gen_directives :
  fmt_translated = true /\ fmt_directives = [(115, CStr); (100, CNum); (106, CJson)].
Proof. split; reflexivity. Qed.

Lemma fmt1_directive c a :
  fmt1 c a =
  match directive arg a_str a_num a_json c with
  | Some cv => (cv a, true)
  | None => if c =? 37 then ([37], false) else ([37; c], false)
  end.
Proof.
  unfold fmt1, directive. destruct gen_directives as [_ ->]. cbn [assocZ].
  destruct (c =? 115); [reflexivity|]. destruct (c =? 100); [reflexivity|].
  destruct (c =? 106); reflexivity.
Qed.

Lemma directive_not_pct c : c =? 37 = true -> directive arg a_str a_num a_json c = None.
Proof.
  intro H. apply Z.eqb_eq in H. subst c. reflexivity.
Qed.

(* scan with a pending '%' is the spec on "%" ++ f; without, the spec on f *)
Lemma scan_spec na f : forall rest,
  (na = true -> rest = []) ->
  scan na f false rest = sspec (negb na) f rest /\
  scan na f true rest = sspec (negb na) (37 :: f) rest.
Proof.
  induction f as [|c f IH]; intros rest Hna.
  - split; reflexivity.
  - split.
    + (* not pending *)
      cbn [scan]. unfold sspec. cbn [spec_scan]. fold sspec.
      destruct (c =? 37) eqn:Ec.
      * apply Z.eqb_eq in Ec. subst c. apply (proj2 (IH rest Hna)).
      * rewrite (proj1 (IH rest Hna)). reflexivity.
    + (* pending *)
      cbn [scan]. unfold sspec. cbn [spec_scan]. change (37 =? 37) with true. cbn iota. fold sspec.
      destruct rest as [|a rest'].
      * (* no argument left *)
        rewrite (proj1 (IH [] (fun _ => eq_refl))).
        destruct (Z.eqb_spec c 37) as [->|Hne].
        -- cbn [negb orb]. destruct na; cbn [negb]; destruct (sspec _ f []); reflexivity.
        -- cbn [negb orb]. destruct (directive arg a_str a_num a_json c); destruct (sspec _ f []); reflexivity.
      * assert (Hna' : na = false) by (destruct na; [specialize (Hna eq_refl); discriminate|reflexivity]).
        subst na. cbn [negb].
        rewrite fmt1_directive.
        destruct (c =? 37) eqn:Ec.
        -- rewrite (directive_not_pct c Ec).
           rewrite (proj1 (IH (a :: rest') (fun H => match Bool.diff_false_true H with end))).
           cbn [negb]. destruct (sspec true f (a :: rest')); reflexivity.
        -- destruct (directive arg a_str a_num a_json c) as [cv|].
           ++ rewrite (proj1 (IH rest' (fun H => match Bool.diff_false_true H with end))).
              cbn [negb]. destruct (sspec true f rest'); reflexivity.
           ++ rewrite (proj1 (IH (a :: rest') (fun H => match Bool.diff_false_true H with end))).
              cbn [negb]. destruct (sspec true f (a :: rest')); reflexivity.
Qed.

Theorem format_is_spec f args : format f args = spec_format arg a_str a_num a_json f args.
Proof.
  unfold format, spec_format.
  assert (H : is_nil args = true -> args = []) by (destruct args; [reflexivity|discriminate]).
  rewrite (proj1 (scan_spec (is_nil args) f args H)). unfold sspec.
  destruct args; reflexivity.
Qed.

(* literal text is copied unchanged: no '%' in f -> output starts with f, followed by the surplus arguments *)
Lemma no_pct_literal f args :
  ~ In 37 f -> format f args = f ++ flat_map (fun a => 32 :: a_str a) args.
Proof.
  intro Hn. rewrite format_is_spec. unfold spec_format.
  assert (H : forall b, spec_scan arg a_str a_num a_json b f args = (f, args)).
  { intro b. induction f as [|x f IH]; [reflexivity|]. cbn [spec_scan].
    destruct (Z.eqb_spec x 37) as [->|Hne]; [exfalso; apply Hn; left; reflexivity|].
    rewrite IH; [reflexivity|]. intro Hin. apply Hn. right. exact Hin. }
  rewrite H. reflexivity.
Qed.

(* ---- console ---- *)

Definition sink_of (c : ccall) : option sink := assoc_zs (c_method c) console_sinks.

Definition msgs_to (k : sink) (cs : list ccall) : list zs :=
  flat_map (fun c => match sink_of c with
                     | Some k' => if match k, k' with SLog, SLog | SWarn, SWarn | SError, SError => true | _, _ => false end
                                  then [js_format (c_fmt c, c_args c)] else []
                     | None => [] end) cs.

Lemma console_run_gen cs : forall s,
  let s' := fold_left console_step cs s in
  s_log s' = s_log s ++ msgs_to SLog cs /\
  s_warn s' = s_warn s ++ msgs_to SWarn cs /\
  s_err s' = s_err s ++ msgs_to SError cs.
Proof.
  induction cs as [|c cs IH]; intro s; cbn [fold_left].
  - cbn. rewrite !app_nil_r. repeat split.
  - cbv zeta. destruct (IH (console_step s c)) as (H1 & H2 & H3). rewrite H1, H2, H3.
    unfold console_step, msgs_to at 2 4 6. cbn [flat_map]. unfold sink_of.
    destruct (assoc_zs (c_method c) console_sinks) as [[| |]|]; cbn [deliver s_log s_warn s_err];
      rewrite <- ?app_assoc; cbn [app]; rewrite ?app_nil_r; repeat split; reflexivity.
Qed.

Theorem console_one_message_per_call cs :
  s_log (console_run cs) = msgs_to SLog cs /\
  s_warn (console_run cs) = msgs_to SWarn cs /\
  s_err (console_run cs) = msgs_to SError cs.
Proof. unfold console_run. apply (console_run_gen cs). Qed.

Lemma console_table :
  console_translated = true /\
  assoc_zs [108;111;103] console_sinks = Some SLog /\       (* log *)
  assoc_zs [105;110;102;111] console_sinks = Some SLog /\   (* info *)
  assoc_zs [100;101;98;117;103] console_sinks = Some SLog /\ (* debug *)
  assoc_zs [119;97;114;110] console_sinks = Some SWarn /\   (* warn *)
  assoc_zs [101;114;114;111;114] console_sinks = Some SError. (* error *)
Proof. repeat split; reflexivity. Qed.
