(* Proofs/VCProofs.v — every generated verification condition holds *)
From GN Require Import Common.Base Common.Int64 Model.VC Gen.BufferVC Gen.OtherVC Proofs.VCTactics.
From Coq Require Import String.
Open Scope Z_scope.

Theorem buffer_vcs_valid : Forall vc_valid buffer_vcs.
Proof. unfold buffer_vcs. repeat (apply Forall_cons; [solve [vc_solve]|]). apply Forall_nil. Qed.

Theorem other_vcs_valid : Forall vc_valid other_vcs.
Proof. unfold other_vcs. repeat (apply Forall_cons; [solve [vc_solve]|]). apply Forall_nil. Qed.

(* what a valid VC means operationally: whenever the path condition evaluates to true under Go's int64 semantics,
   so does the bounds check of the operation — for every value of every variable and every slice length *)
Theorem vc_valid_operational v : vc_valid v ->
  forall e lens,
    all_P (fun x => in_i64 (e x)) (vc_vars v) ->
    all_P (fun a => 0 <= lens a < 2 ^ 62) (vc_lens v) ->
    forallb (holds e lens) (vc_hyps v) = true ->
    holds e lens (vc_goal v) = true.
Proof.
  intros Hv e lens H1 H2 H3. apply sem_holds. apply Hv; try assumption.
  induction (vc_hyps v) as [|h hs IH]; cbn [all_P forallb] in *; [exact I|].
  apply andb_true_iff in H3 as [Ha Hb]. split; [apply sem_holds; exact Ha|apply IH; exact Hb].
Qed.

Definition nonempty {A} (l : list A) : bool := match l with [] => false | _ => true end.

Lemma vcs_present : nonempty buffer_vcs = true /\ nonempty other_vcs = true /\ buffer_vc_uncovered = [] /\ other_vc_uncovered = [].
Proof. repeat split; reflexivity. Qed.
