(* Proofs/LoopProps.v — what the invariants mean for C03..C08. `reach s` = some event sequence (any number of
   submitters, helpers and controller calls, interleaved in any way the model accepts) leads from the initial state to s. *)
From GN Require Import Common.Base Model.Loop Proofs.LoopFrame Proofs.LoopCtl Proofs.LoopTimers Proofs.LoopInv.
From RecordUpdate Require Import RecordSet.
Import RecordSetNotations.
Open Scope Z_scope.

Section WithKinds.
Variable kind_of : Z -> option subkind.

Definition reach (s : lstate) : Prop := exists l, run_evs kind_of init l = Some s.

Lemma reach_Inv s : reach s -> Inv s.
Proof. intros [l H]. eapply Inv_reachable; eauto. Qed.

Lemma reach_ev s e s' : reach s -> do_ev kind_of s e = Some s' -> reach s'.
Proof.
  intros [l H] He. exists (l ++ [e]). revert H. generalize init. induction l as [|x r IH]; cbn; intros s0 H.
  - inversion H; subst. rewrite He. reflexivity.
  - destruct (do_ev kind_of s0 x); [apply IH; exact H|discriminate].
Qed.

Lemma reach_run s l s' : reach s -> run_evs kind_of s l = Some s' -> reach s'.
Proof.
  revert s. induction l as [|e r IH]; cbn; intros s R H; [inversion H; subst; exact R|].
  destruct (do_ev kind_of s e) as [s1|] eqn:E; [|discriminate]. eapply IH; [eapply reach_ev; eauto|exact H].
Qed.

(* the harness starts every scenario after one Run() of a function that schedules nothing *)
Definition setup_trace : list ev :=
  [EP setrunning (-1) 0; EP run_fn (-1) 0; EP runaux_swap (-1) 0; EP runaux_done (-1) 0; EP run_enter (-1) 0; EP run_leave (-1) 0; EP run_exit (-1) 0].
Lemma setup_reach : reach init_after_setup.
Proof. exists setup_trace. reflexivity. Qed.

Ltac inv_some :=
  repeat match goal with
  | H : Some _ = Some _ |- _ => inversion H; subst; clear H
  | H : None = Some _ |- _ => discriminate H
  end.
Ltac split_matches H :=
  repeat (match type of H with
  | context [match ?x with _ => _ end] => (is_var x; destruct x) || (let E := fresh "E" in destruct x eqn:E)
  | context [if ?x then _ else _] => (is_var x; destruct x) || (let E := fresh "E" in destruct x eqn:E)
  end; try discriminate H; cbn in H).

(* ================= C03 ================= *)
(* who may execute callbacks: the thread inside run() (phase <> LNone) or Terminate (tph <> TNone); never both, and
   neither while the loop is stopped *)
Theorem single_owner s : reach s -> tph s <> TNone -> phase s = LNone /\ running s = false.
Proof. intros R H. destruct (reach_Inv _ R) as [C _]. destruct (c_term _ C H) as [Hr _]. split; [apply (c_run _ C Hr)|exact Hr]. Qed.

Theorem stopped_no_run_thread s : reach s -> running s = false -> phase s = LNone.
Proof. intros R. apply (c_run _ (proj1 (reach_Inv _ R))). Qed.

Lemma run_sub_hist s id st s' : run_sub kind_of s id st = Some s' -> True.
Proof. trivial. Qed.

(* an event starts a callback or runs a queued function only if executed by an owner *)
Theorem work_needs_owner s e s' :
  do_ev kind_of s e = Some s' -> (cbs s' <> cbs s \/ executed s' <> executed s) -> phase s <> LNone \/ tph s <> TNone.
Proof.
  intros H Hch.
  assert (G : (cbs s' = cbs s /\ executed s' = executed s) \/ (phase s <> LNone \/ tph s <> TNone)); [|destruct G as [[G1 G2]|G]; [destruct Hch; congruence|exact G]].
  clear Hch. destruct e as [p a b|e a b c]; cbn [do_ev] in H.
  - destruct p.
    4: { cbn in H. destruct (batch s); [discriminate|]. right. destruct (tph s); destruct (phase s); try discriminate; (left; discriminate) || (right; discriminate). }
    7: { cbn in H. destruct (phase s); try discriminate. right; left; discriminate. }
    22: { cbn in H. destruct (tph s); try discriminate. right; right; discriminate. }
    24: { cbn in H. left. destruct (find_t (timers s) a) as [t|]; [|discriminate]. destruct (tj_kind t); try discriminate.
          assert (H' : s' = offer (set_h s a HRunning)) by (destruct (tj_h t); try discriminate; inversion H; reflexivity). subst s'.
          unfold offer, set_h. destruct (phase _); cbn; auto. }
    all: destruct s as [aux0 token0 canrun0 running0 terminated0 jobcount0 jobs0 timers0 phase0 background0 batch0 tph0 wakers0 pending0
                   spc0 natural0 executed0 accepted0 refused0 cbs0];
      cbn in *; unfold send_token, offer, dec_bg in H; cbn in H.
    all: timeout 1800 (split_matches H; inv_some; cbn; first [left; split; reflexivity | right; left; discriminate | right; right; discriminate]).
  - assert (D : forall s0 m, deliver s0 m = Some s' -> (cbs s' = cbs s0 /\ executed s' = executed s0) \/ tph s0 <> TNone).
    { intros s0 m. unfold deliver. destruct (tph s0); try (intros _; right; discriminate).
      destruct (phase s0); try discriminate. destruct (pending s0); try discriminate. intro H0; inversion H0; subst. left; split; reflexivity. }
    destruct e; cbn [apply_eff] in H.
    + left. split; [eapply do_set_cbs; eauto|]. apply do_set_ctl in H. unfold same_ctl in H. intuition.
    + left. split; [eapply do_set_cbs; eauto|]. apply do_set_ctl in H. unfold same_ctl in H. intuition.
    + left. destruct (existsb (Z.eqb b) (accepted s)); [|inversion H; subst; split; reflexivity].
      split; [eapply do_set_cbs; eauto|]. apply do_set_ctl in H. unfold same_ctl in H. intuition.
    + left. destruct (find_t (timers s) a) as [t|]; [destruct (kind_matches (tj_kind t) b)|]; try (inversion H; subst; split; reflexivity).
      split; [eapply do_clear_cbs; eauto|]. apply do_clear_ctl in H. unfold same_ctl in H. intuition.
    + destruct (find_t (timers s) a) as [t|]; [|discriminate]. destruct (tj_kind t); try discriminate. destruct (tj_h t); try discriminate.
      destruct (D _ _ H) as [G|G]; [left; exact G|right; right; exact G].
    + destruct (find_t (timers s) a) as [t|]; [|discriminate]. destruct (tj_kind t); try discriminate. destruct (tj_h t); try discriminate.
      destruct (D _ _ H) as [G|G]; [left; exact G|right; right; exact G].
    + destruct (find_t (timers s) a) as [t|]; [|discriminate]. destruct (tj_kind t); try discriminate. destruct (tj_h t); try discriminate.
      destruct (tj_cancelled t); [|discriminate].
      destruct (D _ _ H) as [G|G]; [left; exact G|right; right; exact G].
Qed.

(* from the moment Stop() has returned until the loop is started again (and outside Terminate): nothing runs *)
Theorem none_while_stopped s e s' :
  reach s -> running s = false -> tph s = TNone -> do_ev kind_of s e = Some s' -> cbs s' = cbs s /\ executed s' = executed s.
Proof.
  intros R Hr Ht H. pose proof (stopped_no_run_thread _ R Hr) as Hp.
  destruct (list_eq_dec Z.eq_dec (cbs s') (cbs s)) as [E1|N1]; [destruct (list_eq_dec Z.eq_dec (executed s') (executed s)) as [E2|N2]; [auto|]|].
  - destruct (work_needs_owner _ _ _ H (or_intror N2)); congruence.
  - destruct (work_needs_owner _ _ _ H (or_introl N1)); congruence.
Qed.

Theorem stop_returns_when_no_run_thread s a b s' : reach s -> step kind_of s stop_return a b = Some s' -> running s' = false /\ phase s' = LNone.
Proof.
  intros R H. assert (R' : reach s') by (eapply reach_ev with (e := EP stop_return a b); eauto).
  cbn in H. destruct (spc s); try discriminate; destruct (running s) eqn:Er; try discriminate; inversion H; subst; cbn;
    (split; [exact Er|]); apply (stopped_no_run_thread _ R Er).
Qed.

(* a new run starts only when no run thread exists: the single `phase` slot of the model is justified by setRunning *)
Theorem new_run_only_after_exit s e s' : reach s -> do_ev kind_of s e = Some s' -> phase s' = LStart -> phase s = LNone \/ phase s = LStart.
Proof.
  intros R H Hs. pose proof (c_run _ (proj1 (reach_Inv _ R))) as Crun.
  destruct e as [p a b|e a b c]; cbn [do_ev] in H.
  - destruct p.
    4: { cbn in H. destruct (batch s) as [|j r]; [discriminate|]. exfalso.
         assert (forall s0 s1, run_sub kind_of s0 j (b =? 1) = Some s1 -> phase s1 = phase s0) as P.
         { intros s0 s1 H0. apply run_sub_ctl in H0. unfold same_ctl in H0. cbn in H0. intuition. }
         destruct (tph s) eqn:Et; [destruct (phase s) eqn:Ep; try discriminate; apply P in H; cbn in H; congruence| | | | |]; try discriminate.
         apply P in H; cbn in H. destruct (single_owner _ R) as [Hn _]; [rewrite Et; discriminate|]. congruence. }
    7: { cbn in H. destruct (phase s); try discriminate. destruct (pending s) as [m|]; [|discriminate]. inversion H; subst. exfalso.
         pose proof (run_msg_ctl (s <| pending := None |> <| phase := LHead |>) m) as P. unfold same_ctl in P. cbn in P.
         destruct P as (_ & _ & _ & _ & _ & P & _). congruence. }
    22: { cbn in H. destruct (tph s); try discriminate. destruct (existsb _ _); [|discriminate]. destruct (find_t _ _) as [t|]; [|discriminate].
          destruct (tj_cancelled t); [discriminate|]. apply do_clear_ctl in H. unfold same_ctl in H.
          destruct H as (_ & _ & _ & _ & _ & P & _). rewrite P in Hs. right; exact Hs. }
    24: { cbn in H. destruct (find_t (timers s) a) as [t|]; [|discriminate]. destruct (tj_kind t); try discriminate.
          assert (H' : s' = offer (set_h s a HRunning)) by (destruct (tj_h t); try discriminate; inversion H; reflexivity). subst s'.
          unfold offer, set_h in Hs. cbn in Hs. destruct (phase s) eqn:Ep; cbn in Hs; rewrite ?Ep in Hs; cbn in Hs; try discriminate; auto. }
    all: destruct s as [aux0 token0 canrun0 running0 terminated0 jobcount0 jobs0 timers0 phase0 background0 batch0 tph0 wakers0 pending0
                   spc0 natural0 executed0 accepted0 refused0 cbs0];
      cbn in *; unfold send_token, offer, dec_bg in H; cbn in H.
    all: timeout 1800 (split_matches H; inv_some; cbn in *; try discriminate; auto).
  - assert (P : phase s' = phase s); [|rewrite P in Hs; right; exact Hs].
    assert (D : forall s0 m x, deliver s0 m = Some x -> phase x = phase s0).
    { intros s0 m x. unfold deliver.
      assert (Some (run_msg s0 m) = Some x -> phase x = phase s0) as Q.
      { intros Hx. inversion Hx; subst. pose proof (run_msg_ctl s0 m) as P. unfold same_ctl in P. intuition. }
      destruct (tph s0); try apply Q; destruct (phase s0) eqn:Ep; try discriminate; destruct (pending s0); try discriminate;
        intro H0; inversion H0; subst; cbn; congruence. }
    destruct e; cbn [apply_eff] in H.
    + apply do_set_ctl in H. unfold same_ctl in H. intuition.
    + apply do_set_ctl in H. unfold same_ctl in H. intuition.
    + destruct (existsb _ _); [|inversion H; subst; reflexivity]. apply do_set_ctl in H. unfold same_ctl in H. intuition.
    + destruct (find_t (timers s) a) as [t|]; [destruct (kind_matches (tj_kind t) b)|]; try (inversion H; subst; reflexivity).
      apply do_clear_ctl in H. unfold same_ctl in H. intuition.
    + destruct (find_t (timers s) a) as [t|]; [|discriminate]. destruct (tj_kind t); try discriminate. destruct (tj_h t); try discriminate.
      apply D in H. exact H.
    + destruct (find_t (timers s) a) as [t|]; [|discriminate]. destruct (tj_kind t); try discriminate. destruct (tj_h t); try discriminate.
      apply D in H. exact H.
    + destruct (find_t (timers s) a) as [t|]; [|discriminate]. destruct (tj_kind t); try discriminate. destruct (tj_h t); try discriminate.
      destruct (tj_cancelled t); [|discriminate]. apply D in H. exact H.
Qed.

(* ================= C04 ================= *)
Theorem queue_is_history s : reach s -> executed s ++ batch s ++ aux s = accepted s.
Proof. intros R. apply (c_queue _ (proj1 (reach_Inv _ R))). Qed.

(* order and exactly-once: what has run is a prefix of what was accepted, in acceptance order *)
Theorem executed_prefix s : reach s -> exists rest, accepted s = executed s ++ rest /\ rest = batch s ++ aux s.
Proof. intros R. exists (batch s ++ aux s). split; [symmetry; apply queue_is_history; exact R|reflexivity]. Qed.

Lemma NoDup_app_l {A} (l r : list A) : NoDup (l ++ r) -> NoDup l.
Proof. induction l as [|x l IH]; cbn; intros H; [constructor|]. inversion H; subst. constructor; [intro; apply H2; apply in_or_app; left; assumption|auto]. Qed.

Theorem executed_once s : reach s -> NoDup (accepted s) -> NoDup (executed s).
Proof. intros R H. rewrite <- (queue_is_history _ R) in H. apply NoDup_app_l in H. exact H. Qed.

Lemma NoDup_app_disjoint {A} (l r : list A) x : NoDup (l ++ r) -> In x l -> In x r -> False.
Proof.
  induction l as [|y l IH]; cbn; intros H Hl Hr; [tauto|]. inversion H; subst. destruct Hl as [->|Hl].
  - apply H2. apply in_or_app; right; exact Hr.
  - eapply IH; eauto.
Qed.

(* submission ids are distinct (each call has its own): a refused function is never executed *)
Theorem refused_never_executed s x : reach s -> NoDup (accepted s ++ refused s) -> In x (refused s) -> ~ In x (executed s).
Proof.
  intros R Hnd Hr He. apply (NoDup_app_disjoint _ _ x Hnd); [|exact Hr].
  rewrite <- (queue_is_history _ R). apply in_or_app; left; exact He.
Qed.

(* the call is accepted exactly when the loop is not terminated *)
Theorem accept_iff_not_terminated s a b s' :
  step kind_of s aux_lock a b = Some s' ->
  (terminated s = false /\ accepted s' = accepted s ++ [a] /\ aux s' = aux s ++ [a] /\ refused s' = refused s) \/
  (terminated s = true /\ accepted s' = accepted s /\ aux s' = aux s /\ refused s' = refused s ++ [a]).
Proof. cbn. destruct (terminated s); intro H; inversion H; subst; cbn; [right|left]; repeat split; reflexivity. Qed.

(* never left waiting: while the run thread is past its drain and the queue is non-empty, a wake-up token is in the
   channel or a submitter is about to send one; in particular a blocked loop with work has a waker on its way *)
Theorem no_lost_wakeup s : reach s -> awake (phase s) = true -> aux s <> [] -> token s = true \/ (0 < wakers s)%nat.
Proof. intros R. apply (c_wake _ (proj1 (reach_Inv _ R))). Qed.

Theorem blocked_with_work_has_waker s : reach s -> phase s = LBlocked -> aux s <> [] -> (0 < wakers s)%nat.
Proof.
  intros R Hb Ha. destruct (reach_Inv _ R) as [C _]. destruct (c_wake _ C) as [H|H]; auto.
  - rewrite Hb; reflexivity.
  - rewrite (c_blocked _ C Hb) in H. discriminate.
Qed.

(* a token in the channel is consumed only by the select of run(), which then drains the whole queue *)
Theorem token_leads_to_drain s a b s' : step kind_of s run_select a b = Some s' -> token s = true -> token s' = false -> phase s' = LArmW.
Proof.
  intros H Ht Ht'. cbn in H. destruct (phase s); try discriminate. destruct (count_positive s); try discriminate.
  rewrite Ht in H. destruct (b =? 1); [inversion H; subst; reflexivity|].
  destruct (b =? 2); [inversion H; subst; cbn in Ht'; congruence|discriminate].
Qed.

(* Terminate runs everything that was accepted *)
Theorem terminate_runs_all_accepted s : reach s -> (tph s = TCan \/ tph s = TDrain) -> executed s = accepted s /\ aux s = [].
Proof.
  intros R H. destruct (reach_Inv _ R) as [C _]. destruct (c_term_q _ C) as [Ha Hb]; [tauto|].
  rewrite <- (c_queue _ C), Ha, Hb, !app_nil_r; [tauto|]. destruct H as [H|H]; rewrite H; discriminate.
Qed.

(* ================= C05 ================= *)
Theorem one_shot_at_most_once s t : reach s -> In t (timers s) -> tj_kind t <> TInterval -> (tj_calls t <= 1)%nat.
Proof.
  intros R Hin Hk. destruct (reach_Inv _ R) as [_ IT]. destruct (t_tj _ IT) as [_ Hg]. destruct (Hg _ Hin) as (Ho & _). apply Ho; exact Hk.
Qed.

(* fired or cleared once, a job's callback never runs again, whatever happens afterwards (restarts included) *)
Theorem cancelled_never_runs_again s l s' id t :
  reach s -> run_evs kind_of s l = Some s' -> find_t (timers s) id = Some t -> tj_cancelled t = true ->
  exists t', find_t (timers s') id = Some t' /\ tj_cancelled t' = true /\ tj_calls t' = tj_calls t.
Proof.
  intros R H Hf Hc. destruct (keeps_run kind_of l s s' (reach_Inv _ R) H id t Hf) as (t' & Hf' & _ & _ & Hc' & _).
  exists t'. destruct (Hc' Hc). auto.
Qed.

(* a clear that executes on the loop cancels the job (whatever time.Timer.Stop() answered) *)
Theorem clear_cancels s id st s' t : do_clear s id st = Some s' -> find_t (timers s) id = Some t ->
  exists t', find_t (timers s') id = Some t' /\ tj_cancelled t' = true.
Proof.
  unfold do_clear. intros H Hf. rewrite Hf in H. destruct (tj_cancelled t) eqn:Ec.
  - destruct st; [discriminate|]. inversion H; subst. exists t; auto.
  - assert (Hid : forall h x, tj_id (mark_cleared h x) = tj_id x) by reflexivity.
    destruct (tj_kind t); destruct st; try discriminate; try (destruct (tj_h t); try discriminate); inversion H; subst; cbn;
      eexists; (split; [apply find_upd_same; [exact Hf|reflexivity]|reflexivity]).
Qed.

(* clearing twice, or a job that has fired, or null/undefined/foreign handles: no effect at all *)
Theorem clear_idempotent s id s' : do_clear s id false = Some s' ->
  (find_t (timers s) id = None \/ exists t, find_t (timers s) id = Some t /\ tj_cancelled t = true) -> s' = s.
Proof.
  unfold do_clear. intros H [Hn|(t & Hf & Hc)]; [rewrite Hn in H|rewrite Hf, Hc in H]; inversion H; reflexivity.
Qed.

(* a live timeout is never forgotten: it stays registered, with its runtime timer or its delivering goroutine *)
Theorem live_timeout_registered s t : reach s -> In t (timers s) -> tj_kind t = TTimeout -> tj_cancelled t = false -> In (tj_id t) (jobs s).
Proof.
  intros R Hin Hk Hc. destruct (reach_Inv _ R) as [_ IT]. destruct (t_tj _ IT) as [_ Hg]. destruct (Hg _ Hin) as (_ & _ & G3 & _).
  destruct (in_dec Z.eq_dec (tj_id t) (jobs s)) as [Hi|Hni]; [exact Hi|]. destruct G3 as [G _]; [rewrite Hk; discriminate|exact Hni|congruence].
Qed.

(* ================= C06 ================= *)
Theorem count_exact s : reach s -> jobcount s = live s + bgc s.
Proof. intros R. apply (t_count _ (proj2 (reach_Inv _ R))). Qed.

Theorem stop_returns_live_count s a b s' : reach s -> step kind_of s stop_return a b = Some s' -> jobcount s' = live s'.
Proof.
  intros R H. assert (R' : reach s') by (eapply reach_ev with (e := EP stop_return a b); eauto).
  destruct (stop_returns_when_no_run_thread _ _ _ _ R H) as [_ Hp]. rewrite (count_exact _ R'). unfold bgc. rewrite Hp. cbn. rewrite andb_false_r. lia.
Qed.

(* Run(): the loop is left through the jobCount test exactly when no live job remains *)
Theorem run_leaves_iff_quiescent s : reach s -> phase s = LHead -> background s = false ->
  ((exists s', step kind_of s run_leave 0 0 = Some s') <-> live s = 0) /\
  (forall b s', step kind_of s run_select 0 b = Some s' -> 0 < live s).
Proof.
  intros R Hp Hb. pose proof (count_exact _ R) as Hc. unfold bgc in Hc. rewrite Hb in Hc. cbn in Hc.
  pose proof (live_of_nonneg (timers s)) as Hn. unfold live in *. split.
  - cbn. rewrite Hp. unfold count_positive. destruct (0 <? jobcount s) eqn:E.
    + split; [intros [s' H]; discriminate|]. apply Z.ltb_lt in E. lia.
    + split; [intros _; apply Z.ltb_ge in E; lia|intros _; eexists; reflexivity].
  - intros b s'. cbn. rewrite Hp. unfold count_positive. destruct (0 <? jobcount s) eqn:E; [|discriminate]. apply Z.ltb_lt in E. intros _. lia.
Qed.

(* a background loop (Start) never leaves through the count test *)
Theorem background_never_quiesces s : reach s -> phase s = LHead -> background s = true -> step kind_of s run_leave 0 0 = None.
Proof.
  intros R Hp Hb. pose proof (count_exact _ R) as Hc. unfold bgc in Hc. rewrite Hb, Hp in Hc. cbn in Hc.
  pose proof (live_of_nonneg (timers s)) as Hn. unfold live in *. cbn. rewrite Hp. unfold count_positive.
  destruct (0 <? jobcount s) eqn:E; [reflexivity|]. apply Z.ltb_ge in E. lia.
Qed.

(* ================= C07 ================= *)
(* once Stop() has stored canRun=0 and sent its token, the request cannot be lost: the token is still in the channel,
   or the run thread has consumed it and is on the path that tests canRun and leaves *)
Theorem stop_request_not_lost s : reach s -> (spc s = SSent \/ spc s = SWaiting) -> running s = true ->
  canrun s = false /\ (token s = true \/ exiting (phase s) = true).
Proof.
  intros R H Hr. destruct (reach_Inv _ R) as [C _]. split; [apply (c_stop1 _ C); tauto|apply (c_stop2 _ C); tauto].
Qed.

(* on that path every step of the run thread makes progress towards the exit (no select in between) *)
Definition prank (p : lphase) : nat :=
  match p with LArmW => 6 | LW0 => 5 | LWB => 4 | LWD => 3 | LBreak => 2 | LLeft => 1 | _ => 0 end.
Definition run_thread_point (p : pt) : bool :=
  match p with arm_wakeup | runaux_swap | runaux_job | runaux_done | run_canrun | run_leave | run_exit | run_select | arm_job | run_enter => true | _ => false end.

Theorem exit_path_progress s p a b s' :
  reach s -> exiting (phase s) = true -> canrun s = false -> run_thread_point p = true -> step kind_of s p a b = Some s' ->
  (prank (phase s') < prank (phase s))%nat \/ (phase s' = phase s /\ (length (batch s') < length (batch s))%nat).
Proof.
  intros R He Hc Hp H. destruct (reach_Inv _ R) as [C _].
  assert (Ht : tph s = TNone).
  { destruct (tph s) eqn:Et; [reflexivity| | | | |]; (destruct (c_term _ C) as [Hr _]; [rewrite Et; discriminate|]; rewrite (c_run _ C Hr) in He; discriminate). }
  destruct p; try discriminate; cbn in H.
  - (* runaux_swap *) destruct (batch s); [|discriminate]. rewrite Ht in H. destruct (phase s); try discriminate; inversion H; subst; cbn; left; lia.
  - (* runaux_job *) destruct (batch s) as [|j r] eqn:Eb; [discriminate|]. rewrite Ht in H.
    destruct (phase s) eqn:Ep; try discriminate; apply run_sub_ctl in H; unfold same_ctl in H; cbn in H;
      destruct H as (_ & _ & _ & _ & _ & P & _ & B & _); right; rewrite P, B, Ep; cbn; split; [reflexivity|lia].
  - (* runaux_done *) destruct (batch s); [|discriminate]. rewrite Ht in H. destruct (phase s); try discriminate; inversion H; subst; cbn; left; lia.
  - destruct (phase s); discriminate.
  - destruct (phase s); discriminate.
  - destruct (phase s); try discriminate; destruct (pending s); discriminate.
  - destruct (phase s); try discriminate; inversion H; subst; cbn; left; lia.
  - destruct (phase s); try discriminate. rewrite Hc in H. inversion H; subst; cbn; left; lia.
  - unfold dec_bg in H. destruct (phase s); try discriminate; destruct (background s); inversion H; subst; cbn; left; lia.
  - destruct (phase s); try discriminate; inversion H; subst; cbn; left; lia.
Qed.

(* Stop() on a loop that is not running changes nothing *)
Theorem stop_noop_when_not_running s s1 s2 :
  reach s -> running s = false -> spc s = SNone ->
  step kind_of s stop_enter 0 0 = Some s1 -> step kind_of s1 stop_return 0 0 = Some s2 -> s2 = s.
Proof.
  intros R Hr Hs H1 H2. cbn in H1. rewrite Hs in H1. inversion H1; subst; clear H1. cbn in H2. rewrite Hr in H2. inversion H2; subst.
  destruct s; cbn in *; subst; reflexivity.
Qed.

(* the life-cycle calls lose and duplicate nothing: queue, history, timers and registry are untouched *)
Definition lifecycle_point (p : pt) : bool :=
  match p with stop_enter | stop_request | stop_wakeup | stop_wait | stop_return | stopnowait | setrunning | start_go | run_enter | run_select
             | arm_wakeup | run_canrun | run_leave | run_exit => true | _ => false end.

Theorem lifecycle_keeps_work s p a b s' : lifecycle_point p = true -> step kind_of s p a b = Some s' ->
  aux s' = aux s /\ batch s' = batch s /\ executed s' = executed s /\ accepted s' = accepted s /\ timers s' = timers s /\
  jobs s' = jobs s /\ pending s' = pending s /\ cbs s' = cbs s.
Proof.
  intros Hp H. destruct p; try discriminate;
  destruct s as [aux0 token0 canrun0 running0 terminated0 jobcount0 jobs0 timers0 phase0 background0 batch0 tph0 wakers0 pending0
                   spc0 natural0 executed0 accepted0 refused0 cbs0];
    cbn in *; unfold send_token, offer, dec_bg in H; cbn in H;
  split_matches H; inv_some; cbn; repeat split; reflexivity.
Qed.

(* ================= C08 ================= *)
(* when Terminate returns: no runtime timer, ticker or helper goroutine of the loop exists, and every timeout and
   interval is cancelled (so, by cancelled_never_runs_again, none of them ever runs, restarts included) *)
Theorem terminate_leaves_nothing s a b s' : reach s -> step kind_of s term_done a b = Some s' ->
  jobs s' = [] /\ (forall t, In t (timers s') -> tj_h t = HDone /\ (tj_kind t <> TImmediate -> tj_cancelled t = true)) /\
  executed s' = accepted s' /\ aux s' = [] /\ terminated s' = true.
Proof.
  intros R H. destruct (reach_Inv _ R) as [C IT].
  assert (Hq : tph s = TCan \/ tph s = TDrain) by (cbn in H; destruct (tph s); try discriminate; auto).
  destruct (terminate_runs_all_accepted _ R Hq) as [Hx Ha].
  assert (Hterm : terminated s = true) by (destruct (c_term _ C) as [_ Ht]; [destruct Hq as [Hq|Hq]; rewrite Hq; discriminate|exact Ht]).
  assert (Hj : jobs s = []) by (cbn in H; destruct (tph s); try discriminate; destruct (jobs s); try discriminate; reflexivity).
  assert (s' = s <| tph := TNone |>) as -> by (cbn in H; destruct (tph s); try discriminate; destruct (jobs s); try discriminate; inversion H; reflexivity).
  cbn. split; [exact Hj|]. split; [|auto].
  intros t Hin. destruct (t_tj _ IT) as [_ Hg]. destruct (Hg _ Hin) as (_ & G2 & G3 & G4 & _). rewrite Hj in *.
  destruct (tj_kind t) eqn:Ek.
  - destruct G3 as [G3a G3b]; [discriminate|intros []|]. split; [exact G3b|intros _; exact G3a].
  - destruct G3 as [G3a G3b]; [discriminate|intros []|]. split; [exact G3b|intros _; exact G3a].
  - split; [apply G4; reflexivity|intro Hx0; exfalso; apply Hx0; reflexivity].
Qed.

Theorem helpers_registered s : reach s -> TJ (timers s) (jobs s).
Proof. intros R. exact (t_tj _ (proj2 (reach_Inv _ R))). Qed.

(* from Terminate until the next Start/Run every submission is refused *)
Theorem terminated_until_restart s p a b s' : step kind_of s p a b = Some s' -> terminated s = true -> p <> setrunning -> terminated s' = true.
Proof.
  intros H Ht Hp. destruct p; try congruence.
  4: { cbn in H. destruct (batch s); [discriminate|]. assert (forall s0 s1 j, run_sub kind_of s0 j (b =? 1) = Some s1 -> terminated s1 = terminated s0) as P.
       { intros s0 s1 j H0. apply run_sub_ctl in H0. unfold same_ctl in H0. cbn in H0. intuition. }
       destruct (tph s); destruct (phase s); try discriminate; apply P in H; cbn in H; congruence. }
  7: { cbn in H. destruct (phase s); try discriminate. destruct (pending s) as [m|]; [|discriminate]. inversion H; subst.
       pose proof (run_msg_ctl (s <| pending := None |> <| phase := LHead |>) m) as P. unfold same_ctl in P. cbn in P. intuition congruence. }
  21: { cbn in H. destruct (tph s); try discriminate. destruct (existsb _ _); [|discriminate]. destruct (find_t _ _) as [t|]; [|discriminate].
        destruct (tj_cancelled t); [discriminate|]. apply do_clear_ctl in H. unfold same_ctl in H. intuition congruence. }
  23: { cbn in H. destruct (find_t (timers s) a) as [t|]; [|discriminate]. destruct (tj_kind t); try discriminate.
        assert (H' : s' = offer (set_h s a HRunning)) by (destruct (tj_h t); try discriminate; inversion H; reflexivity). subst s'.
        unfold offer, set_h. destruct (phase _); cbn; exact Ht. }
  all: destruct s as [aux0 token0 canrun0 running0 terminated0 jobcount0 jobs0 timers0 phase0 background0 batch0 tph0 wakers0 pending0
                   spc0 natural0 executed0 accepted0 refused0 cbs0];
      cbn in *; unfold send_token, offer, dec_bg in H; cbn in H.
  all: timeout 1800 (split_matches H; inv_some; cbn; congruence).
Qed.

(* after a restart the loop accepts work again *)
Theorem restart_accepts s a b s' : running s = false -> step kind_of s setrunning a b = Some s' ->
  terminated s' = false /\ running s' = true /\ canrun s' = true.
Proof.
  intros Hr. cbn. rewrite Hr. destruct (tph s); try discriminate. destruct (spc s); try discriminate. intro H; inversion H; subst; cbn. auto.
Qed.

End WithKinds.
