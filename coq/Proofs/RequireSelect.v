(* Proofs/RequireSelect.v — what the caches hold is what the stateless probing selects: the outcome of a file-or-directory
   request does not depend on the history of earlier requests.

   SInv adds to the cache invariant: (1) every key of r.modules is a file of the tree the loader can deliver; (2) the module
   recorded for a request path k in r.resolved belongs to the file that `select` (first existing candidate of the probing
   order, a pure function of the tree) chooses for k. The second part is exactly what failed before request paths got a map
   of their own: an entry written for the request './pkg/lib' (a directory with its own package.json) answered the probe
   that the "main": "lib" of ./pkg makes with loadModule('<dir>/pkg/lib'). *)
From GN Require Import Common.Base Model.Paths Model.Require Spec.NodeResolve Proofs.RequireInv Proofs.RequireExtra Proofs.ResolveProofs Proofs.PathsCanon.
Open Scope Z_scope.

Section Sel.
Variable fs : fsys.
Variable nat_reg : natives.

Definition loadable (k : zs) : Prop := exists e, fs_get fs k = Some e /\ e <> FErr.

Record SInv (st : rstate) : Prop := {
  s_inv : Inv st;
  s_files : forall k m, cache_get (files_cache st) k = Some m -> loadable k;
  s_res : forall k m, cache_get (resolved_cache st) k = Some m ->
            exists f, file_owner st m = Some f /\ select fs (cands_file_or_dir fs (parse k)) = SFile f;
  s_node : forall k m, cache_get (node_cache st) k = Some m ->
            exists d r f, k = render d ++ 0 :: r /\ file_owner st m = Some f /\ select fs (cands_node fs (parse (render d)) r) = SFile f
}.

Definition sgood (st st' : rstate) : Prop := SInv st' /\ ext st st'.

Lemma sgood_refl st : SInv st -> sgood st st.
Proof. intro H. split; [exact H|apply ext_refl]. Qed.

Lemma sgood_trans a b c : sgood a b -> sgood b c -> sgood a c.
Proof. intros [_ E1] [I2 E2]. split; [exact I2|eapply ext_trans; eassumption]. Qed.

(* the extra facts are about single entries: a state whose entries all come from a state that has them, has them *)
Lemma sinv_sub st st' : Inv st' -> SInv st ->
  (forall k m, cache_get (files_cache st') k = Some m -> cache_get (files_cache st) k = Some m) ->
  (forall k m, cache_get (resolved_cache st') k = Some m -> cache_get (resolved_cache st) k = Some m) ->
  (forall k m, cache_get (node_cache st') k = Some m -> cache_get (node_cache st) k = Some m) ->
  (forall j, (j < length (store st))%nat -> file_owner st' j = file_owner st j) ->
  SInv st'.
Proof.
  intros HI' [HI F R N] Hf Hr Hn Ho. constructor; [exact HI'| | |].
  - intros k m H. eapply F. apply Hf. exact H.
  - intros k m H. apply Hr in H. destruct (R k m H) as (f & H1 & H2). exists f. split; [|exact H2].
    rewrite Ho; [exact H1|]. eapply file_owner_lt. exact H1.
  - intros k m H. apply Hn in H. destruct (N k m H) as (d & r & f & H0 & H1 & H2). exists d, r, f. split; [exact H0|split; [|exact H2]].
    rewrite Ho; [exact H1|]. eapply file_owner_lt. exact H1.
Qed.

Lemma sinv_same_core st st' : same_core st st' -> SInv st -> SInv st'.
Proof.
  intros Hs HS. pose proof Hs as (Hf & Hr & Hn & Hl & Ho).
  apply (sinv_sub st st'); [eapply same_core_inv; [exact Hs|exact (s_inv _ HS)]|exact HS| | | |].
  - intros k m H. rewrite <- Hf. exact H.
  - intros k m H. rewrite <- Hr. exact H.
  - intros k m H. rewrite <- Hn. exact H.
  - intros j _. apply Ho.
Qed.

Lemma sgood_sc st st' : same_core st st' -> SInv st -> sgood st st'.
Proof. intros Hs HS. split; [eapply sinv_same_core; eassumption|apply same_core_ext; exact Hs]. Qed.

Lemma sinv_forget st m ps : SInv st -> file_owner st m = Some ps -> cache_get (files_cache st) ps = Some m ->
  SInv (forget st m ps).
Proof.
  intros HS Ho Hp. pose proof (s_inv _ HS) as HI.
  destruct (forget_good st m ps HI Ho Hp) as (HIf & _ & _ & _ & Hown).
  destruct (forget_get st m ps HI) as (Hf & Hr & Hn).
  apply (sinv_sub st); [exact HIf|exact HS| | | |].
  - intros k m' H. rewrite Hf in H. destruct (zs_eqb k ps); [discriminate|].
    destruct (cache_get (files_cache st) k) as [x|]; [|discriminate]. destruct (Nat.eqb x m); [discriminate|exact H].
  - intros k m' H. rewrite Hr in H.
    destruct (cache_get (resolved_cache st) k) as [x|]; [|discriminate]. destruct (Nat.eqb x m); [discriminate|exact H].
  - intros k m' H. rewrite Hn in H.
    destruct (cache_get (node_cache st) k) as [x|]; [|discriminate]. destruct (Nat.eqb x m); [discriminate|exact H].
  - intros j _. apply Hown.
Qed.

Lemma sinv_new_module st o : SInv st -> SInv (fst (new_module st o)).
Proof.
  intro HS. pose proof (s_inv _ HS) as HI.
  destruct (new_module_facts st o) as (_ & Hf & Hr & Hn & _ & Ho & _). cbv zeta in *.
  apply (sinv_sub st); [apply new_module_inv; exact HI|exact HS| | | |exact Ho].
  - intros k m H. rewrite <- Hf. exact H.
  - intros k m H. rewrite <- Hr. exact H.
  - intros k m H. rewrite <- Hn. exact H.
Qed.

Lemma sinv_add_file st1 ps m : SInv st1 -> cache_get (files_cache st1) ps = None -> file_owner st1 m = Some ps -> loadable ps ->
  SInv (with_files st1 (cache_set (files_cache st1) ps m)).
Proof.
  intros [HI F R N] Ec Hon Hl. constructor.
  - apply add_file_inv; assumption.
  - intros k m' H. cbn [files_cache with_files] in H. rewrite get_set in H. destruct (zs_eqb k ps) eqn:E.
    + apply zs_eqb_eq in E. subst k. exact Hl.
    + eapply F. exact H.
  - intros k m' H. exact (R k m' H).
  - intros k m' H. exact (N k m' H).
Qed.

(* ---- open recursion ---- *)
Section Open.
Variable rq : rstate -> path -> zs -> rstate * res.
Hypothesis Hrq : forall st d r, SInv st -> sgood st (fst (rq st d r)).

Lemma run_lazies_sgood reqs : forall st f, SInv st -> sgood st (fst (run_lazies rq st f reqs)).
Proof.
  induction reqs as [|r reqs IH]; intros st f HS; cbn [run_lazies].
  - apply sgood_refl. exact HS.
  - pose proof (Hrq st (pdir (parse f)) r HS) as Hg. destruct (rq st (pdir (parse f)) r) as [st1 x]. cbn [fst] in Hg.
    destruct Hg as [HS1 E1].
    set (st2 := log_event st1 f r (outcome_of st1 x)).
    assert (G2 : sgood st st2).
    { split; [eapply sinv_same_core; [apply sc_log_event|exact HS1]|]. eapply ext_trans; [exact E1|apply same_core_ext, sc_log_event]. }
    assert (Hcont : sgood st (fst (run_lazies rq st2 f reqs))) by (eapply sgood_trans; [exact G2|apply IH; exact (proj1 G2)]).
    destruct x; cbn [fst]; try exact Hcont. exact G2.
Qed.

Lemma run_body_sgood prog : forall st m file, SInv st -> sgood st (fst (run_body rq st m file prog)).
Proof.
  induction prog as [|i prog IH]; intros st m file HS; cbn [run_body].
  - apply sgood_refl. exact HS.
  - destruct i as [|k v|r catch|t|r|t].
    + eapply sgood_trans; [apply sgood_sc; [apply sc_bump|exact HS]|]. apply IH. eapply sinv_same_core; [apply sc_bump|exact HS].
    + eapply sgood_trans; [apply sgood_sc; [apply sc_set_exp|exact HS]|]. apply IH. eapply sinv_same_core; [apply sc_set_exp|exact HS].
    + pose proof (Hrq st (pdir (parse file)) r HS) as Hg. destruct (rq st (pdir (parse file)) r) as [st1 x]. cbn [fst] in Hg.
      destruct Hg as [HS1 E1].
      set (st2 := log_event st1 file r (outcome_of st1 x)).
      assert (G2 : sgood st st2).
      { split; [eapply sinv_same_core; [apply sc_log_event|exact HS1]|]. eapply ext_trans; [exact E1|apply same_core_ext, sc_log_event]. }
      assert (Hcont : sgood st (fst (run_body rq st2 m file prog))) by (eapply sgood_trans; [exact G2|apply IH; exact (proj1 G2)]).
      destruct x; try exact Hcont; try (destruct catch; [exact Hcont|exact G2]). exact G2.
    + apply sgood_refl. exact HS.
    + eapply sgood_trans; [apply sgood_sc; [apply sc_add_lazy|exact HS]|]. apply IH. eapply sinv_same_core; [apply sc_add_lazy|exact HS].
    + pose proof (Hrq st (pdir (parse file)) t HS) as Hg. destruct (rq st (pdir (parse file)) t) as [st1 x]. cbn [fst] in Hg.
      destruct Hg as [HS1 E1].
      set (st2 := log_event st1 file t (outcome_of st1 x)).
      assert (G2 : sgood st st2).
      { split; [eapply sinv_same_core; [apply sc_log_event|exact HS1]|]. eapply ext_trans; [exact E1|apply same_core_ext, sc_log_event]. }
      assert (Hcont : sgood st (fst (run_body rq st2 m file prog))) by (eapply sgood_trans; [exact G2|apply IH; exact (proj1 G2)]).
      destruct x as [m'| | | |]; try exact Hcont; [|exact G2].
      destruct (owner_file st2 m') as [f'|]; [|exact Hcont].
      remember (run_lazies rq st2 f' (lazies_of st2 m')) as rl eqn:ERL.
      assert (G3 : sgood st2 (fst rl)) by (rewrite ERL; apply run_lazies_sgood; exact (proj1 G2)).
      destruct rl as [st3 oof]. cbn [fst] in G3.
      assert (G03 : sgood st st3) by exact (sgood_trans _ _ _ G2 G3).
      destruct oof; [exact G03|]. eapply sgood_trans; [exact G03|apply IH; exact (proj1 G03)].
Qed.

(* what loadModule(path) tells about the tree *)
Definition lm_res (st' : rstate) (ps : zs) (r : res) : Prop :=
  match r with
  | ROk m => file_owner st' m = Some ps /\ cache_get (files_cache st') ps = Some m /\ loadable ps
  | RNone => fs_get fs ps = None
  | _ => True
  end.

Lemma load_module_sgood st p : SInv st ->
  sgood st (fst (load_module fs rq st p)) /\ lm_res (fst (load_module fs rq st p)) (render p) (snd (load_module fs rq st p)).
Proof.
  intro HS. pose proof (s_inv _ HS) as HI. unfold load_module. set (ps := render p).
  destruct (cache_get (files_cache st) ps) as [m0|] eqn:Ec.
  - cbn [fst snd]. split; [apply sgood_refl; exact HS|]. cbn [lm_res].
    split; [apply (inv_own st HI); exact Ec|split; [exact Ec|eapply s_files; eassumption]].
  - destruct (new_module_facts st (OFile ps)) as (Hm & Hf1 & Hr1 & Hn1 & Hl1 & Ho1 & Hon). cbv zeta in *.
    pose proof (sinv_new_module st (OFile ps) HS) as HS1.
    destruct (new_module_inv st (OFile ps) HI) as [HI1 E1].
    destruct (new_module st (OFile ps)) as [st1 m] eqn:Enm. cbn [fst snd] in *.
    set (st2 := with_files st1 (cache_set (files_cache st1) ps m)).
    assert (Ec1 : cache_get (files_cache st1) ps = None) by (rewrite Hf1; exact Ec).
    assert (Hget2 : forall k, cache_get (files_cache st2) k = if zs_eqb k ps then Some m else cache_get (files_cache st) k).
    { intro k. unfold st2. cbn [files_cache with_files]. rewrite get_set, Hf1. reflexivity. }
    assert (HI2 : Inv st2) by (apply add_file_inv; assumption).
    assert (E2 : ext st st2).
    { constructor.
      - unfold st2. cbn. lia.
      - intros j Hj. apply Ho1. exact Hj.
      - intros k m0 Hm0 Hk. rewrite Hget2. destruct (zs_eqb k ps) eqn:E; [|exact Hk].
        apply zs_eqb_eq in E. subst k. rewrite Ec in Hk. discriminate. }
    assert (Hm2 : (m < length (store st2))%nat) by (unfold st2; cbn; lia).
    assert (Hown2 : file_owner st2 m = Some ps) by exact Hon.
    assert (Hps2 : cache_get (files_cache st2) ps = Some m) by (rewrite Hget2, zs_eqb_refl; reflexivity).
    set (was := mem_zs ps (compiled st2)).
    set (st3 := if was then st2 else log_load st2 ps).
    assert (S3 : same_core st2 st3) by (unfold st3; destruct was; [repeat split|apply sc_log_load]).
    assert (HI3 : Inv st3) by (eapply same_core_inv; eassumption).
    assert (E23 : ext st2 st3) by (apply same_core_ext; exact S3).
    assert (Hcarry : forall stx, ext st2 stx -> file_owner stx m = Some ps /\ cache_get (files_cache stx) ps = Some m).
    { intros stx Ex. split; [rewrite (ext_owner _ _ Ex) by exact Hm2; exact Hown2|apply (ext_files _ _ Ex); assumption]. }
    (* ext from st to a forgotten extension of st2 *)
    assert (Hext_forget : forall stx, Inv stx -> ext st2 stx -> ext st (forget stx m ps)).
    { intros stx HIx Ex. destruct (Hcarry stx Ex) as [Hox Hpx].
      destruct (forget_good stx m ps HIx Hox Hpx) as (HIf & Kf & Kc & Hlen & Hown).
      constructor.
      - rewrite Hlen. pose proof (ext_len _ _ Ex). pose proof (ext_len _ _ E2). lia.
      - intros j Hj. rewrite Hown. rewrite (ext_owner _ _ Ex) by (pose proof (ext_len _ _ E2); lia). apply (ext_owner _ _ E2). exact Hj.
      - intros k m0 Hm0 Hk. apply Kf; [lia|]. apply (ext_files _ _ Ex); [pose proof (ext_len _ _ E2); lia|]. apply (ext_files _ _ E2); assumption. }
    (* the file is absent or unreadable: the entry just made is withdrawn, the caches are those of st again *)
    assert (Hwithdraw : sgood st (forget st3 m ps)).
    { split; [|apply Hext_forget; assumption].
      destruct (Hcarry st3 E23) as [Ho3 Hp3].
      destruct (forget_good st3 m ps HI3 Ho3 Hp3) as (HIf & _ & _ & _ & Hown).
      destruct (forget_get st3 m ps HI3) as (Hf & Hr & Hnn).
      destruct S3 as (Sf & Sr & Sn & _ & So).
      apply (sinv_sub st); [exact HIf|exact HS| | | |].
      - intros k m' H. rewrite Hf in H. destruct (zs_eqb k ps) eqn:E; [discriminate|]. rewrite Sf, Hget2, E in H.
        destruct (cache_get (files_cache st) k) as [x|]; [|discriminate]. destruct (Nat.eqb x m); [discriminate|exact H].
      - intros k m' H. rewrite Hr in H. rewrite Sr in H. unfold st2 in H. cbn [resolved_cache with_files] in H. rewrite Hr1 in H.
        destruct (cache_get (resolved_cache st) k) as [x|]; [|discriminate]. destruct (Nat.eqb x m); [discriminate|exact H].
      - intros k m' H. rewrite Hnn in H. rewrite Sn in H. unfold st2 in H. cbn [node_cache with_files] in H. rewrite Hn1 in H.
        destruct (cache_get (node_cache st) k) as [x|]; [|discriminate]. destruct (Nat.eqb x m); [discriminate|exact H].
      - intros j Hj. rewrite Hown, So. apply Ho1. exact Hj. }
    (* the file exists: the new entry is legitimate *)
    assert (Hexists : loadable ps -> forall st4, same_core st2 st4 -> SInv st4 /\ ext st2 st4).
    { intros Hl st4 S4. split; [|apply same_core_ext; exact S4].
      eapply sinv_same_core; [exact S4|]. apply sinv_add_file; assumption. }
    destruct (fs_get fs ps) as [[prog|valid v|mn| |]|] eqn:Efs.
    + (* a JavaScript module *)
      assert (Hl : loadable ps) by (eexists; split; [exact Efs|discriminate]).
      set (st4 := if was then st3 else add_compiled st3 ps).
      assert (S4 : same_core st2 st4).
      { unfold st4, st3. destruct was; [repeat split|]. repeat split. }
      destruct (Hexists Hl st4 S4) as [HS4 E24].
      pose proof (run_body_sgood prog st4 m ps HS4) as [HS5 E45].
      pose proof (run_body_never_none rq prog st4 m ps) as Hnn.
      destruct (run_body rq st4 m ps prog) as [st5 r] eqn:Erb. cbn [fst snd] in *.
      assert (E25 : ext st2 st5) by (eapply ext_trans; eassumption).
      destruct (Hcarry st5 E25) as [Ho5 Hp5].
      assert (Hfail5 : sgood st (forget st5 m ps)).
      { split; [apply sinv_forget; assumption|apply Hext_forget; [exact (s_inv _ HS5)|exact E25]]. }
      destruct r as [mm| |kk|tt|]; cbn [fst snd lm_res]; try (split; [exact Hfail5|exact I]).
      * split; [split; [exact HS5|eapply ext_trans; [exact E2|exact E25]]|]. split; [exact Ho5|split; [exact Hp5|exact Hl]].
      * contradiction Hnn. reflexivity.
    + (* a .json module *)
      assert (Hl : loadable ps) by (eexists; split; [exact Efs|discriminate]).
      set (st4 := if was then st3 else add_compiled st3 ps).
      assert (S4 : same_core st2 st4).
      { unfold st4, st3. destruct was; [repeat split|]. repeat split. }
      destruct (Hexists Hl st4 S4) as [HS4 E24].
      destruct valid; cbn [fst snd lm_res].
      * assert (S5 : same_core st4 (set_exp st4 m 0 v)) by apply sc_set_exp.
        assert (E25 : ext st2 (set_exp st4 m 0 v)) by (eapply ext_trans; [exact E24|apply same_core_ext; exact S5]).
        destruct (Hcarry _ E25) as [Ho5 Hp5].
        split; [split; [eapply sinv_same_core; eassumption|eapply ext_trans; [exact E2|exact E25]]|].
        split; [exact Ho5|split; [exact Hp5|exact Hl]].
      * destruct (Hcarry st4 E24) as [Ho4 Hp4].
        split; [|exact I]. split; [apply sinv_forget; assumption|apply Hext_forget; [exact (s_inv _ HS4)|exact E24]].
    + assert (Hl : loadable ps) by (eexists; split; [exact Efs|discriminate]).
      set (st4 := if was then st3 else add_compiled st3 ps).
      assert (S4 : same_core st2 st4).
      { unfold st4, st3. destruct was; [repeat split|]. repeat split. }
      destruct (Hexists Hl st4 S4) as [HS4 E24]. destruct (Hcarry st4 E24) as [Ho4 Hp4]. cbn [fst snd lm_res].
      split; [split; [exact HS4|eapply ext_trans; [exact E2|exact E24]]|]. split; [exact Ho4|split; [exact Hp4|exact Hl]].
    + assert (Hl : loadable ps) by (eexists; split; [exact Efs|discriminate]).
      set (st4 := if was then st3 else add_compiled st3 ps).
      assert (S4 : same_core st2 st4).
      { unfold st4, st3. destruct was; [repeat split|]. repeat split. }
      destruct (Hexists Hl st4 S4) as [HS4 E24]. destruct (Hcarry st4 E24) as [Ho4 Hp4]. cbn [fst snd lm_res].
      split; [split; [exact HS4|eapply ext_trans; [exact E2|exact E24]]|]. split; [exact Ho4|split; [exact Hp4|exact Hl]].
    + cbn [fst snd lm_res]. split; [exact Hwithdraw|exact I].
    + cbn [fst snd lm_res]. split; [exact Hwithdraw|exact Efs].
Qed.

(* trying the candidates in order, with the caches in the way: the module obtained belongs to the file `select` chooses on
   the tree alone; "no module" only if no candidate file exists *)
Definition tc_res (st' : rstate) (cs : list cand) (r : res) : Prop :=
  match r with
  | ROk m => exists f, file_owner st' m = Some f /\ cache_get (files_cache st') f = Some m /\ select fs cs = SFile f
  | RNone => select fs cs = SNotFound
  | _ => True
  end.

Lemma probe_loadable p : loadable (render p) -> probe fs p = SFile (render p).
Proof. intros (e & He & Hne). unfold probe. rewrite He. destruct e; try reflexivity. contradiction. Qed.

Lemma try_cands_select cs : forall st, SInv st ->
  sgood st (fst (try_cands fs rq st cs)) /\ tc_res (fst (try_cands fs rq st cs)) cs (snd (try_cands fs rq st cs)).
Proof.
  induction cs as [|c cs IH]; intros st HS; cbn [try_cands].
  - split; [apply sgood_refl; exact HS|reflexivity].
  - destruct c as [p|pk].
    + destruct (load_module_sgood st p HS) as [G R]. destruct (load_module fs rq st p) as [st1 r]. cbn [fst snd] in *.
      destruct r as [m| |k|t|]; cbn [fst snd tc_res lm_res] in *; try (split; [exact G|exact I]).
      * split; [exact G|]. destruct R as (Ho & Hp & Hl). exists (render p). split; [exact Ho|split; [exact Hp|]].
        cbn [select]. rewrite (probe_loadable p Hl). reflexivity.
      * destruct (IH st1 (proj1 G)) as [G2 R2]. split; [eapply sgood_trans; eassumption|].
        assert (Hpr : probe fs p = SNotFound) by (unfold probe; rewrite R; reflexivity).
        destruct (snd (try_cands fs rq st1 cs)); cbn [tc_res select] in *; rewrite ?Hpr; exact R2.
    + assert (HS1 : SInv (read_manifest fs st pk)) by (eapply sinv_same_core; [apply sc_read_manifest|exact HS]).
      destruct (IH _ HS1) as [G2 R2]. split.
      * eapply sgood_trans; [apply sgood_sc; [apply sc_read_manifest|exact HS]|exact G2].
      * destruct (snd (try_cands fs rq (read_manifest fs st pk) cs)); cbn [tc_res select] in *; exact R2.
Qed.

Lemma sinv_with_native st c r : SInv st -> SInv (with_native st c r).
Proof. apply sinv_same_core. apply sc_with_native. Qed.

Lemma load_native_sgood st name : SInv st -> sgood st (fst (load_native nat_reg st name)).
Proof.
  intro HS. pose proof (s_inv _ HS) as HI. unfold load_native.
  destruct (cache_get (native_cache st) name); [apply sgood_refl; exact HS|].
  assert (Hnew : forall o c r, sgood st (with_native (fst (new_module st o)) c r)).
  { intros o c r. destruct (new_module_inv st o HI) as [HI1 E1].
    split; [apply sinv_with_native, sinv_new_module; exact HS|eapply ext_trans; [exact E1|apply same_core_ext, sc_with_native]]. }
  destruct (if mem_zs name (n_registry nat_reg) then Some NRegistry else if mem_zs name (n_global nat_reg) then Some NGlobal
            else if mem_zs name (n_core nat_reg) then Some NCore else None) as [k|].
  - destruct (new_module st (ONative name k)) as [st1 m] eqn:E. cbn [fst].
    pose proof (Hnew (ONative name k)) as H. rewrite E in H. cbn [fst] in H. apply H.
  - destruct (has_prefix node_prefix name); [|apply sgood_refl; exact HS].
    destruct (mem_zs (skipn (length node_prefix) name) (n_core nat_reg)); [|apply sgood_refl; exact HS].
    destruct (new_module st (ONative (skipn (length node_prefix) name) NCore)) as [st1 m] eqn:E. cbn [fst].
    pose proof (Hnew (ONative (skipn (length node_prefix) name) NCore)) as H. rewrite E in H. cbn [fst] in H. apply H.
Qed.

Lemma load_native_run_sgood st name : SInv st -> sgood st (fst (load_native_run nat_reg rq st name)).
Proof.
  intro HS. unfold load_native_run.
  destruct (cache_get (native_cache st) name); [apply sgood_refl; exact HS|].
  destruct (reuse_core nat_reg st name) as [m0|]; [cbn [fst]; apply sgood_sc; [apply sc_with_native|exact HS]|].
  pose proof (load_native_sgood st name HS) as G. destruct (load_native nat_reg st name) as [st1 r]. cbn [fst] in G.
  destruct r as [m| | | |]; try exact G.
  destruct (mem_zs (registered_name st1 m) (n_loader_throws nat_reg)); [exact G|].
  remember (run_lazies rq st1 loader_file (assoc_reqs (n_loader_reqs nat_reg) (registered_name st1 m))) as rl eqn:ERL.
  assert (G3 : sgood st1 (fst rl)) by (rewrite ERL; apply run_lazies_sgood; exact (proj1 G)).
  destruct rl as [st2 oof]. cbn [fst] in *. exact (sgood_trans _ _ _ G G3).
Qed.

(* a name that is not a native or core name: nothing happens *)
Lemma lnr_none st name : snd (load_native nat_reg st name) = RNone -> load_native_run nat_reg rq st name = (st, RNone).
Proof.
  unfold load_native_run, load_native, reuse_core. destruct (cache_get (native_cache st) name); [discriminate|].
  destruct (mem_zs name (n_registry nat_reg)); [destruct (new_module st (ONative name NRegistry)) as [st1 m]; cbn [snd]; discriminate|].
  destruct (mem_zs name (n_global nat_reg)); [destruct (new_module st (ONative name NGlobal)) as [st1 m]; cbn [snd]; discriminate|].
  destruct (mem_zs name (n_core nat_reg)); [destruct (new_module st (ONative name NCore)) as [st1 m]; cbn [snd]; discriminate|].
  cbn [orb]. destruct (has_prefix node_prefix name); [|reflexivity].
  destruct (mem_zs (skipn (length node_prefix) name) (n_core nat_reg)); [|discriminate].
  destruct (new_module st (ONative (skipn (length node_prefix) name) NCore)) as [st1 m]. cbn [snd]. discriminate.
Qed.

Lemma sinv_alias_resolved st k m f : SInv st -> file_owner st m = Some f -> cache_get (files_cache st) f = Some m ->
  select fs (cands_file_or_dir fs (parse k)) = SFile f ->
  SInv (with_resolved st (cache_set (resolved_cache st) k m)).
Proof.
  intros HS Ho Hp Hsel. pose proof (s_inv _ HS) as HI.
  constructor.
  - apply (alias_resolved_good st k m HI). exists f. split; assumption.
  - intros k' m' H. eapply s_files; [exact HS|exact H].
  - intros k' m' H. cbn [resolved_cache with_resolved] in H. rewrite get_set in H. destruct (zs_eqb k' k) eqn:E.
    + apply zs_eqb_eq in E. subst k'. inversion H; subst m'. exists f. split; [exact Ho|exact Hsel].
    + exact (s_res _ HS k' m' H).
  - intros k' m' H. exact (s_node _ HS k' m' H).
Qed.

Lemma sinv_alias_node st d r m f : SInv st -> file_owner st m = Some f -> cache_get (files_cache st) f = Some m ->
  select fs (cands_node fs (parse (render d)) r) = SFile f ->
  SInv (with_node st (cache_set (node_cache st) (render d ++ 0 :: r) m)).
Proof.
  intros HS Ho Hp Hsel. pose proof (s_inv _ HS) as HI.
  constructor.
  - apply (alias_node_good st _ m HI). exists f. split; assumption.
  - intros k' m' H. eapply s_files; [exact HS|exact H].
  - intros k' m' H. exact (s_res _ HS k' m' H).
  - intros k' m' H. cbn [node_cache with_node] in H. rewrite get_set in H. destruct (zs_eqb k' (render d ++ 0 :: r)) eqn:E.
    + apply zs_eqb_eq in E. subst k'. inversion H; subst m'. exists d, r, f. split; [reflexivity|split; [exact Ho|exact Hsel]].
    + exact (s_node _ HS k' m' H).
Qed.

(* the key start + "\x00" + name splits in one way only when neither part contains a NUL *)
Lemma nul_split (a b a' b' : zs) : a ++ 0 :: b = a' ++ 0 :: b' -> ~ In 0 a -> ~ In 0 b -> a = a' /\ b = b'.
Proof.
  revert a'. induction a as [|x a IH]; intros a' E Ha Hb.
  - destruct a' as [|y a']; cbn in E.
    + inversion E. auto.
    + inversion E; subst. exfalso. apply Hb. apply in_or_app. right. left. reflexivity.
  - destruct a' as [|y a']; cbn in E.
    + inversion E; subst. exfalso. apply Ha. left. reflexivity.
    + inversion E; subst. destruct (IH a' H1) as [-> ->]; [intro; apply Ha; right; assumption|exact Hb|auto].
Qed.

(* the outcome of resolve() for a file-or-directory request, in any state satisfying the invariant, hit or miss *)
Definition rs_res (st' : rstate) (k : zs) (r : res) : Prop :=
  match r with
  | ROk m => exists f, file_owner st' m = Some f /\ select fs (cands_file_or_dir fs (parse k)) = SFile f
  | RNone => select fs (cands_file_or_dir fs (parse k)) = SNotFound
  | _ => True
  end.

Definition rn_res (st' : rstate) (d : path) (r : zs) (x : res) : Prop :=
  match x with
  | ROk m => exists f, file_owner st' m = Some f /\ select fs (cands_node fs (parse (render d)) r) = SFile f
  | RNone => select fs (cands_node fs (parse (render d)) r) = SNotFound
  | _ => True
  end.

Lemma resolve_sgood st d r : SInv st ->
  sgood st (fst (resolve fs nat_reg rq st d r)) /\
  (is_file_or_dir_path r = true ->
   rs_res (fst (resolve fs nat_reg rq st d r)) (render (pjoin (if is_abs r then None else Some d) r)) (snd (resolve fs nat_reg rq st d r))) /\
  (is_file_or_dir_path r = false -> snd (load_native nat_reg st r) = RNone -> ~ In 0 (render d) -> ~ In 0 r ->
   rn_res (fst (resolve fs nat_reg rq st d r)) d r (snd (resolve fs nat_reg rq st d r))).
Proof.
  intro HS. unfold resolve.
  set (p := pjoin (if is_abs r then None else Some d) r). set (ps := render p).
  destruct (is_file_or_dir_path r).
  - cut ((sgood st (fst (match cache_get (resolved_cache st) ps with
                         | Some m => (st, ROk m)
                         | None => let '(st1, r0) := try_cands fs rq st (cands_file_or_dir fs (parse ps)) in
                                   match r0 with ROk m => (with_resolved st1 (cache_set (resolved_cache st1) ps m), ROk m) | other => (st1, other) end
                         end))) /\
         (true = true -> rs_res (fst (match cache_get (resolved_cache st) ps with
                         | Some m => (st, ROk m)
                         | None => let '(st1, r0) := try_cands fs rq st (cands_file_or_dir fs (parse ps)) in
                                   match r0 with ROk m => (with_resolved st1 (cache_set (resolved_cache st1) ps m), ROk m) | other => (st1, other) end
                         end)) ps (snd (match cache_get (resolved_cache st) ps with
                         | Some m => (st, ROk m)
                         | None => let '(st1, r0) := try_cands fs rq st (cands_file_or_dir fs (parse ps)) in
                                   match r0 with ROk m => (with_resolved st1 (cache_set (resolved_cache st1) ps m), ROk m) | other => (st1, other) end
                         end)))).
    { intros [A B]. split; [exact A|split; [exact B|discriminate]]. }
    destruct (cache_get (resolved_cache st) ps) as [m0|] eqn:Ec.
    + cbn [fst snd]. split; [apply sgood_refl; exact HS|]. intros _. cbn [rs_res]. exact (s_res _ HS ps m0 Ec).
    + destruct (try_cands_select (cands_file_or_dir fs (parse ps)) st HS) as [G R].
      destruct (try_cands fs rq st (cands_file_or_dir fs (parse ps))) as [st1 x]. cbn [fst snd] in *.
      destruct x as [m| | | |]; cbn [fst snd tc_res rs_res] in *; try (split; [exact G|intros _; exact I]).
      * destruct R as (f & Ho & Hp & Hsel).
        assert (HS2 : SInv (with_resolved st1 (cache_set (resolved_cache st1) ps m))) by (eapply sinv_alias_resolved; [exact (proj1 G)|eassumption..]).
        split; [split; [exact HS2|eapply ext_trans; [exact (proj2 G)|constructor; auto]]|].
        intros _. exists f. split; [exact Ho|exact Hsel].
      * split; [exact G|intros _; exact R].
  - pose proof (load_native_run_sgood st r HS) as G0.
    destruct (load_native_run nat_reg rq st r) as [st0 rn] eqn:ELN. cbn [fst snd] in *.
    destruct rn as [m| | | |]; try (split; [exact G0|split; [discriminate|intros _ Hrn; rewrite (lnr_none st r Hrn) in ELN; inversion ELN]]).
    set (nk := render d ++ 0 :: r).
    destruct (cache_get (node_cache st0) nk) as [m0|] eqn:Ec.
    + cbn [fst snd]. split; [exact G0|split; [discriminate|]]. intros _ _ Hd Hr. cbn [rn_res].
      destruct (s_node _ (proj1 G0) nk m0 Ec) as (d' & r' & f & Hk & Ho & Hsel). unfold nk in Hk.
      destruct (nul_split _ _ _ _ Hk Hd Hr) as [Hd' Hr']. exists f. split; [exact Ho|]. rewrite Hd', Hr'. exact Hsel.
    + destruct (try_cands_select (cands_node fs (parse (render d)) r) st0 (proj1 G0)) as [G R].
      destruct (try_cands fs rq st0 (cands_node fs (parse (render d)) r)) as [st1 x]. cbn [fst snd] in *.
      assert (G01 : sgood st st1) by (eapply sgood_trans; eassumption).
      destruct x as [m| | | |]; cbn [fst snd tc_res rn_res] in *; try (split; [exact G01|split; [discriminate|intros; exact I]]).
      * destruct R as (f & Ho & Hp & Hsel).
        assert (HS2 : SInv (with_node st1 (cache_set (node_cache st1) nk m))) by (apply (sinv_alias_node st1 d r m f); [exact (proj1 G)|assumption..]).
        split; [split; [exact HS2|eapply ext_trans; [exact (proj2 G01)|constructor; auto]]|]. split; [discriminate|].
        intros _ _ _ _. exists f. split; [exact Ho|exact Hsel].
      * split; [exact G01|split; [discriminate|intros _ _ _ _; exact R]].
Qed.

End Open.
End Sel.

(* ---- closing the recursion ---- *)
Theorem require_sgood fs nat_reg fuel : forall st d r, SInv fs st -> sgood fs st (fst (require_ fs nat_reg fuel st d r)).
Proof.
  induction fuel as [|f IH]; intros st d r HS.
  - apply sgood_refl. exact HS.
  - cbn [require_]. apply (resolve_sgood fs nat_reg (require_ fs nat_reg f)); [|exact HS]. intros st' d' r' HS'. apply IH. exact HS'.
Qed.

Lemma init_sinv fs : SInv fs init_state.
Proof. constructor; [apply init_inv| | |]; intros k m H; discriminate. Qed.

Theorem top_require_sinv fs nat_reg fuel st d r : SInv fs st -> SInv fs (fst (top_require fs nat_reg fuel st d r)).
Proof.
  intro HS. unfold top_require. pose proof (require_sgood fs nat_reg fuel st d r HS) as [HS1 _].
  destruct (require_ fs nat_reg fuel st d r) as [st1 x]. cbn [fst] in *.
  eapply sinv_same_core; [apply sc_log_event|exact HS1].
Qed.

Theorem reachable_sinv fs nat_reg fuel calls : SInv fs (run_tops fs nat_reg fuel init_state calls).
Proof.
  assert (H : forall st, SInv fs st -> SInv fs (run_tops fs nat_reg fuel st calls)).
  { induction calls as [|[d r] rest IH]; intros st HS; [exact HS|]. cbn [run_tops]. apply IH. apply top_require_sinv. exact HS. }
  apply H. apply init_sinv.
Qed.

(* History independence: in every state reachable by any sequence of requires (any module graph, cycles, failures), a
   file-or-directory request — from any directory, in any spelling — that yields a module yields the module of the file
   that the stateless probing order selects for the request path; and it reports "no module" only when that order finds
   nothing. With C02_selects_node_file (select = the Node.js algorithm) the file obtained never depends on what was required
   before. *)
Theorem resolve_history_independent fs nat_reg fuel calls d r st' x :
  is_file_or_dir_path r = true ->
  require_ fs nat_reg fuel (run_tops fs nat_reg fuel init_state calls) d r = (st', x) ->
  let k := render (pjoin (if is_abs r then None else Some d) r) in
  match x with
  | ROk m => exists f, file_owner st' m = Some f /\ select fs (cands_file_or_dir fs (parse k)) = SFile f
  | RNone => select fs (cands_file_or_dir fs (parse k)) = SNotFound
  | _ => True
  end.
Proof.
  intros Hp E k. pose proof (reachable_sinv fs nat_reg fuel calls) as HS.
  destruct fuel as [|f]; [cbn in E; inversion E; subst; exact I|].
  cbn [require_] in E.
  destruct (resolve_sgood fs nat_reg (require_ fs nat_reg f) (fun s dd rr Hs => require_sgood fs nat_reg f s dd rr Hs) _ d r HS) as (_ & R & _).
  rewrite E in R. cbn [fst snd] in R. exact (R Hp).
Qed.

(* ... and therefore, for a request path in canonical form (parse (render p) = p: what filepath.Join returns is clean; checked
   on every request of the correspondence run), the Node.js algorithm's file — in every reachable state *)
Corollary resolve_is_node_in_every_state fs nat_reg fuel calls d r st' m :
  is_file_or_dir_path r = true -> rooted d = true -> no_double_nm (rev (segs d)) ->
  (let p := pjoin (if is_abs r then None else Some d) r in parse (render p) = p) ->
  require_ fs nat_reg fuel (run_tops fs nat_reg fuel init_state calls) d r = (st', ROk m) ->
  exists f, file_owner st' m = Some f /\ spec_resolve fs d r = SFile f.
Proof.
  intros Hp Hr Hnd Hwf E. pose proof (resolve_history_independent fs nat_reg fuel calls d r st' (ROk m) Hp E) as H.
  cbv zeta in H, Hwf. destruct H as (f & Ho & Hsel). exists f. split; [exact Ho|].
  rewrite Hwf in Hsel. rewrite <- (model_resolve_is_node fs d r Hr Hnd). unfold model_resolve. rewrite Hp. exact Hsel.
Qed.

(* the canonical-form premise holds for every request made from a clean directory (what parse, pjoin and pdir produce is
   clean: Proofs/PathsCanon.v), so it can be dropped *)
Theorem resolve_is_node_from_clean_dir fs nat_reg fuel calls d r st' m :
  is_file_or_dir_path r = true -> rooted d = true -> no_double_nm (rev (segs d)) -> clean d ->
  require_ fs nat_reg fuel (run_tops fs nat_reg fuel init_state calls) d r = (st', ROk m) ->
  exists f, file_owner st' m = Some f /\ spec_resolve fs d r = SFile f.
Proof.
  intros Hp Hr Hnd Hc E. eapply resolve_is_node_in_every_state; try eassumption.
  cbv zeta. apply parse_render. destruct (is_abs r); [apply clean_parse|apply clean_pjoin; exact Hc].
Qed.

(* the same for bare names (searched through node_modules, cached in r.nodeModules under start + "\x00" + name): when the name
   is not a native or core module and neither the requiring directory nor the name contains a NUL, the module obtained in any
   reachable state belongs to the file the stateless walk selects *)
Theorem bare_history_independent fs nat_reg fuel calls d r st' x :
  is_file_or_dir_path r = false ->
  snd (load_native nat_reg (run_tops fs nat_reg fuel init_state calls) r) = RNone ->
  ~ In 0 (render d) -> ~ In 0 r ->
  require_ fs nat_reg fuel (run_tops fs nat_reg fuel init_state calls) d r = (st', x) ->
  match x with
  | ROk m => exists f, file_owner st' m = Some f /\ select fs (cands_node fs (parse (render d)) r) = SFile f
  | RNone => select fs (cands_node fs (parse (render d)) r) = SNotFound
  | _ => True
  end.
Proof.
  intros Hp Hn Hd Hr E. pose proof (reachable_sinv fs nat_reg fuel calls) as HS.
  destruct fuel as [|f0]; [cbn in E; inversion E; subst; exact I|].
  cbn [require_] in E.
  destruct (resolve_sgood fs nat_reg (require_ fs nat_reg f0) (fun s dd rr Hs => require_sgood fs nat_reg f0 s dd rr Hs) _ d r HS) as (_ & _ & R).
  rewrite E in R. cbn [fst snd] in R. exact (R Hp Hn Hd Hr).
Qed.

Corollary bare_is_node_from_clean_dir fs nat_reg fuel calls d r st' m :
  is_file_or_dir_path r = false ->
  snd (load_native nat_reg (run_tops fs nat_reg fuel init_state calls) r) = RNone ->
  ~ In 0 (render d) -> ~ In 0 r -> rooted d = true -> no_double_nm (rev (segs d)) -> clean d ->
  require_ fs nat_reg fuel (run_tops fs nat_reg fuel init_state calls) d r = (st', ROk m) ->
  exists f, file_owner st' m = Some f /\ spec_resolve fs d r = SFile f.
Proof.
  intros Hp Hn Hd Hr Hro Hnd Hc E.
  pose proof (bare_history_independent fs nat_reg fuel calls d r st' (ROk m) Hp Hn Hd Hr E) as (f & Ho & Hsel).
  exists f. split; [exact Ho|]. rewrite (parse_render d Hc) in Hsel.
  rewrite <- (model_resolve_is_node fs d r Hro Hnd). unfold model_resolve. rewrite Hp. exact Hsel.
Qed.
