(* Proofs/JsOrderProofs.v — C18: what every execution of the callback machine, and every log the acceptor accepts,
   satisfies: promise reactions run in queue order and all of them before the next macro task; immediates run in the
   order they were requested; a throw removes nothing that was queued. *)
From GN Require Import Common.Base Model.JsOrder.
Open Scope nat_scope.

Record J (s : jstate) : Prop := {
  j_micro : micro_ran s ++ micro s = micro_req s;
  j_imm : imm_ran s ++ imm s = imm_req s;
  j_nodup : NoDup (imm_req s);
  j_incl : incl (imm_req s) (imm_all s)
}.

Lemma remove_notin x l : ~ In x l -> remove x l = l.
Proof.
  induction l as [|y r IH]; intro H; [reflexivity|]. unfold remove in *. cbn. destruct (Nat.eqb y x) eqn:E.
  - apply Nat.eqb_eq in E. subst. exfalso. apply H. left. reflexivity.
  - cbn. rewrite IH; [reflexivity|]. intro Hi. apply H. right. exact Hi.
Qed.
Lemma remove_app x a b : remove x (a ++ b) = remove x a ++ remove x b.
Proof. unfold remove. apply filter_app. Qed.
Lemma in_remove x y l : In y (remove x l) <-> In y l /\ y <> x.
Proof.
  unfold remove. rewrite filter_In. split; intros [H1 H2]; split; auto.
  - intro; subst. rewrite Nat.eqb_refl in H2. discriminate.
  - apply Nat.eqb_neq in H2. rewrite H2. reflexivity.
Qed.
Lemma NoDup_remove_nat x l : NoDup l -> NoDup (remove x l).
Proof. unfold remove. apply NoDup_filter. Qed.
Lemma NoDup_app_notin (a b : list nat) x : NoDup (a ++ b) -> In x b -> ~ In x a.
Proof.
  induction a as [|y r IH]; cbn; intros Hnd Hb; [tauto|]. inversion Hnd; subst. intros [->|Hr].
  - apply H1. apply in_or_app. right. exact Hb.
  - exact (IH H2 Hb Hr).
Qed.
Lemma NoDup_snoc (l : list nat) x : NoDup l -> ~ In x l -> NoDup (l ++ [x]).
Proof.
  induction l as [|y r IH]; cbn; intros Hnd Hni; [constructor; [tauto|constructor]|].
  inversion Hnd; subst. constructor.
  - intro Hin. apply in_app_or in Hin. destruct Hin as [Hin|[->|[]]]; tauto.
  - apply IH; tauto.
Qed.
Lemma existsb_in x l : existsb (Nat.eqb x) l = true <-> In x l.
Proof. rewrite existsb_exists. split; [intros (y & Hy & E); apply Nat.eqb_eq in E; subst; exact Hy|intro H; exists x; split; [exact H|apply Nat.eqb_refl]]. Qed.

Lemma exec_body_J b : forall s, J s -> J (exec_body s b).
Proof.
  induction b as [|a r IH]; intros s I; [exact I|]. destruct I as [Hm Hi Hn Hc]. destruct a; cbn [exec_body].
  - (* micro *) apply IH. constructor; cbn; try assumption. rewrite app_assoc, Hm. reflexivity.
  - (* immediate *) destruct (existsb (Nat.eqb cb) (imm_all s)) eqn:E; apply IH; constructor; cbn; try assumption.
    + rewrite app_assoc, Hi. reflexivity.
    + apply NoDup_snoc; [exact Hn|]. intro Hin. apply Hc in Hin. apply existsb_in in Hin. congruence.
    + intros x Hx. apply in_app_or in Hx. apply in_or_app. destruct Hx as [Hx|Hx]; [left; apply Hc; exact Hx|right; exact Hx].
  - (* timer *) apply IH. constructor; cbn; assumption.
  - (* clear immediate *) destruct (existsb (Nat.eqb cb) (imm s)) eqn:E; apply IH; [|constructor; assumption].
    apply existsb_in in E. constructor; cbn; try assumption.
    + rewrite <- Hi, remove_app. rewrite <- Hi in Hn. rewrite (remove_notin cb (imm_ran s)); [reflexivity|].
      exact (NoDup_app_notin _ _ _ Hn E).
    + apply NoDup_remove_nat. exact Hn.
    + intros x Hx. apply in_remove in Hx. apply Hc. tauto.
  - (* clear timer *) apply IH. constructor; cbn; assumption.
  - (* throw *) constructor; assumption.
Qed.

Lemma start_J p s cb : J s -> J (start p s cb).
Proof. intro I. unfold start. apply exec_body_J. destruct I. constructor; cbn; assumption. Qed.

Lemma run_micro_J s m rest : J s -> micro s = m :: rest -> J (run_micro s m rest).
Proof. intros [Hm Hi Hn Hc] E. constructor; cbn; try assumption. rewrite <- Hm, E, <- app_assoc. reflexivity. Qed.
Lemma run_imm_J s i rest : J s -> imm s = i :: rest -> micro s = [] -> J (run_imm s i rest).
Proof. intros [Hm Hi Hn Hc] E Em. constructor; cbn; try assumption; [rewrite <- Hm, Em; reflexivity|rewrite <- Hi, E, <- app_assoc; reflexivity]. Qed.
Lemma run_timer_J s t : J s -> micro s = [] -> J (run_timer s t).
Proof. intros [Hm Hi Hn Hc] Em. constructor; cbn; try assumption. rewrite <- Hm, Em. reflexivity. Qed.

Lemma drain_J p fuel : forall s, J s -> J (drain p fuel s).
Proof.
  induction fuel as [|f IH]; intros s I; [exact I|]. cbn. destruct (micro s) as [|m rest] eqn:E; [exact I|].
  apply IH. apply start_J. apply run_micro_J; assumption.
Qed.

Lemma macro_J p fuel s c s' : J s -> macro p fuel s c = Some s' -> J s'.
Proof.
  intros I. unfold macro. destruct (micro s) eqn:Em; [|discriminate]. destruct c as [|k].
  - destruct (imm s) as [|i rest] eqn:Ei; [discriminate|]. intro H; inversion H; subst. apply drain_J, start_J, run_imm_J; assumption.
  - destruct (nth_error (timers s) k) as [t|]; [|discriminate]. intro H; inversion H; subst. apply drain_J, start_J, run_timer_J; assumption.
Qed.

Lemma J_init : J init_state.
Proof. constructor; cbn; [reflexivity|reflexivity|constructor|intros x []]. Qed.

Lemma boot_J p fuel : J (boot p fuel).
Proof. apply drain_J, start_J, J_init. Qed.

(* ---- every execution, under every schedule of timers ---- *)
Theorem run_J p fuel sched : forall s s', J s -> run p fuel s sched = Some s' -> J s'.
Proof.
  induction sched as [|c r IH]; cbn; intros s s' I H; [inversion H; subst; exact I|].
  destruct (macro p fuel s c) as [s1|] eqn:E; [|discriminate]. eapply IH; [eapply macro_J; eauto|exact H].
Qed.

(* immediates start in the order they were requested: what ran, followed by what waits, is the request sequence
   (minus those cleared while waiting); one requested from inside an immediate is behind all requested before it *)
Theorem immediates_fifo p fuel sched s : run p fuel (boot p fuel) sched = Some s -> imm_ran s ++ imm s = imm_req s /\ NoDup (imm_req s).
Proof. intro H. destruct (run_J p fuel sched _ _ (boot_J p fuel) H). auto. Qed.

(* a macro task (immediate or timer callback) starts only when every promise reaction queued so far, transitively, has run *)
Theorem reactions_before_next_macro p fuel s c s' : J s -> macro p fuel s c = Some s' -> micro s = [] /\ micro_ran s = micro_req s.
Proof.
  intros I H. unfold macro in H. destruct (micro s) eqn:E; [|discriminate]. split; [reflexivity|].
  rewrite <- (j_micro _ I), E, app_nil_r. reflexivity.
Qed.

(* reactions run in the order they were queued *)
Theorem reactions_fifo p fuel sched s : run p fuel (boot p fuel) sched = Some s -> micro_ran s ++ micro s = micro_req s.
Proof. intro H. exact (j_micro _ (run_J p fuel sched _ _ (boot_J p fuel) H)). Qed.

(* ---- throws are isolated ---- *)
Theorem throw_skips_the_rest s pre post : exec_body s (pre ++ AThrow :: post) = exec_body s pre.
Proof.
  revert s. induction pre as [|a r IH]; intro s; [reflexivity|]. destruct a; cbn [app exec_body]; try apply IH. reflexivity.
Qed.

(* a body, throwing or not, removes nothing that was queued before it, except by an explicit clear *)
Theorem body_keeps_queued b : forall s,
  incl (micro s) (micro (exec_body s b)) /\
  (forall x, In x (imm s) -> In x (imm (exec_body s b)) \/ In (AClearImmediate x) b) /\
  (forall x, In x (timers s) -> In x (timers (exec_body s b)) \/ In (AClearTimer x) b).
Proof.
  induction b as [|a r IH]; intro s; [split; [apply incl_refl|split; intros x H; left; exact H]|].
  destruct a; cbn [exec_body].
  - destruct (IH (mkJ (micro s ++ [cb]) (imm s) (timers s) (log s) (micro_req s ++ [cb]) (micro_ran s) (imm_req s) (imm_ran s) (imm_all s) (bad s))) as (A & B & C).
    cbn in *. split; [intros x Hx; apply A; apply in_or_app; left; exact Hx|]. split; intros x Hx; [destruct (B x Hx); [left|right; right]; assumption|destruct (C x Hx); [left|right; right]; assumption].
  - destruct (existsb (Nat.eqb cb) (imm_all s)).
    + destruct (IH (mkJ (micro s) (imm s) (timers s) (log s) (micro_req s) (micro_ran s) (imm_req s) (imm_ran s) (imm_all s) true)) as (A & B & C). cbn in *.
      split; [exact A|]. split; intros x Hx; [destruct (B x Hx); [left|right; right]; assumption|destruct (C x Hx); [left|right; right]; assumption].
    + destruct (IH (mkJ (micro s) (imm s ++ [cb]) (timers s) (log s) (micro_req s) (micro_ran s) (imm_req s ++ [cb]) (imm_ran s) (imm_all s ++ [cb]) (bad s))) as (A & B & C). cbn in *.
      split; [exact A|]. split; intros x Hx; [destruct (B x (in_or_app _ _ _ (or_introl Hx))); [left|right; right]; assumption|destruct (C x Hx); [left|right; right]; assumption].
  - destruct (IH (mkJ (micro s) (imm s) (timers s ++ [cb]) (log s) (micro_req s) (micro_ran s) (imm_req s) (imm_ran s) (imm_all s) (bad s))) as (A & B & C). cbn in *.
    split; [exact A|]. split; intros x Hx; [destruct (B x Hx); [left|right; right]; assumption|destruct (C x (in_or_app _ _ _ (or_introl Hx))); [left|right; right]; assumption].
  - destruct (existsb (Nat.eqb cb) (imm s)).
    + destruct (IH (mkJ (micro s) (remove cb (imm s)) (timers s) (log s) (micro_req s) (micro_ran s) (remove cb (imm_req s)) (imm_ran s) (imm_all s) (bad s))) as (A & B & C). cbn in *.
      split; [exact A|]. split; intros x Hx.
      * destruct (Nat.eq_dec x cb) as [->|Hne]; [right; left; reflexivity|].
        destruct (B x) as [H|H]; [apply in_remove; split; assumption|left; exact H|right; right; exact H].
      * destruct (C x Hx); [left|right; right]; assumption.
    + destruct (IH s) as (A & B & C). split; [exact A|]. split; intros x Hx; [destruct (B x Hx); [left|right; right]; assumption|destruct (C x Hx); [left|right; right]; assumption].
  - destruct (IH (mkJ (micro s) (imm s) (remove cb (timers s)) (log s) (micro_req s) (micro_ran s) (imm_req s) (imm_ran s) (imm_all s) (bad s))) as (A & B & C). cbn in *.
    split; [exact A|]. split; intros x Hx.
    + destruct (B x Hx); [left|right; right]; assumption.
    + destruct (Nat.eq_dec x cb) as [->|Hne]; [right; left; reflexivity|].
      destruct (C x) as [H|H]; [apply in_remove; split; assumption|left; exact H|right; right; exact H].
  - split; [apply incl_refl|split; intros x H; left; exact H].
Qed.

(* ---- every log the acceptor accepts has these properties (this is how the implementation's logs are judged) ---- *)
Lemma accept_J p obs : forall s s', J s -> accept p s obs = Some s' -> J s' /\ log s' = log s ++ obs.
Proof.
  induction obs as [|c r IH]; intros s s' I H; [inversion H; subst; split; [exact I|rewrite app_nil_r; reflexivity]|].
  assert (L : forall st cb, log (start p st cb) = log st ++ [cb]).
  { intros st cb. unfold start. generalize (body p cb). intro b.
    assert (G : forall b0 s0, log (exec_body s0 b0) = log s0).
    { induction b0 as [|a b0 IHb]; intro s0; [reflexivity|]. destruct a; cbn [exec_body]; try (rewrite IHb; reflexivity); try reflexivity.
      - destruct (existsb _ _); rewrite IHb; reflexivity.
      - destruct (existsb _ _); rewrite IHb; reflexivity. }
    rewrite G. reflexivity. }
  cbn in H. destruct (micro s) as [|m rest] eqn:Em.
  - destruct (imm s) as [|i rest] eqn:Ei.
    + destruct (existsb (Nat.eqb c) (timers s)); [|discriminate].
      destruct (IH _ _ (start_J p _ c (run_timer_J s c I Em)) H) as [I' Hl]. split; [exact I'|]. rewrite Hl, L. cbn. rewrite <- app_assoc. reflexivity.
    + destruct (Nat.eqb c i) eqn:E.
      * apply Nat.eqb_eq in E. subst c. destruct (IH _ _ (start_J p _ i (run_imm_J s i rest I Ei Em)) H) as [I' Hl]. split; [exact I'|]. rewrite Hl, L. cbn. rewrite <- app_assoc. reflexivity.
      * destruct (existsb (Nat.eqb c) (timers s)); [|discriminate].
        destruct (IH _ _ (start_J p _ c (run_timer_J s c I Em)) H) as [I' Hl]. split; [exact I'|]. rewrite Hl, L. cbn. rewrite <- app_assoc. reflexivity.
  - destruct (Nat.eqb c m) eqn:E; [|discriminate]. apply Nat.eqb_eq in E. subst c.
    destruct (IH _ _ (start_J p _ m (run_micro_J s m rest I Em)) H) as [I' Hl]. split; [exact I'|]. rewrite Hl, L. cbn. rewrite <- app_assoc. reflexivity.
Qed.

Theorem accepted_log_ordered p obs : accepts p obs = true ->
  exists s, log s = obs /\ micro s = [] /\ imm s = [] /\ micro_ran s = micro_req s /\ imm_ran s = imm_req s /\ NoDup (imm_req s).
Proof.
  unfold accepts. destruct obs as [|[|n] r]; try discriminate.
  destruct (accept p (start p init_state 0) r) as [s|] eqn:E; [|discriminate].
  destruct (micro s) eqn:Em; [|discriminate]. destruct (imm s) eqn:Ei; [|discriminate]. intros _.
  destruct (accept_J p r _ _ (start_J p _ 0 J_init) E) as [[Hm Hi Hn Hc] Hl].
  exists s. rewrite Em, app_nil_r in Hm. rewrite Ei, app_nil_r in Hi. repeat split; try assumption.
  rewrite Hl. unfold start. cbn.
  assert (G : forall b0 s0, log (exec_body s0 b0) = log s0).
  { induction b0 as [|a b0 IHb]; intro s0; [reflexivity|]. destruct a; cbn [exec_body]; try (rewrite IHb; reflexivity); try reflexivity.
    - destruct (existsb _ _); rewrite IHb; reflexivity.
    - destruct (existsb _ _); rewrite IHb; reflexivity. }
  rewrite G. reflexivity.
Qed.
