(* Proofs/LoopInv.v — the invariants hold in every state reachable by any event sequence the model accepts. *)
From GN Require Import Common.Base Model.Loop Proofs.LoopFrame Proofs.LoopCtl Proofs.LoopTimers.
From RecordUpdate Require Import RecordSet.
Import RecordSetNotations.
Open Scope Z_scope.

Section WithKinds.
Variable kind_of : Z -> option subkind.

Ltac inv_some :=
  repeat match goal with
  | H : Some _ = Some _ |- _ => inversion H; subst; clear H
  | H : None = Some _ |- _ => discriminate H
  end.

Ltac split_matches H :=
  repeat (match type of H with
  | context [match ?x with _ => _ end] => (is_var x; destruct x) || (let E := fresh "E" in destruct x eqn:E)
  | context [if ?x then _ else _] => (is_var x; destruct x) || (let E := fresh "E" in destruct x eqn:E)
  end; try discriminate H; cbn in H).

Ltac ctl_only T Hc Hp :=
  constructor; cbn; [exact T | unfold bgc, live in *; cbn in *; repeat (match goal with |- context [if ?b then _ else _] => is_var b; destruct b | H : context [if ?b then _ else _] |- _ => is_var b; destruct b | |- context [andb ?b _] => is_var b; destruct b | H : context [andb ?b _] |- _ => is_var b; destruct b end; cbn in * ); lia
                    | unfold pend_ok in *; cbn in *; first [exact Hp | exact I] ].

Lemma run_sub_T s id st s' :
  run_sub kind_of s id st = Some s' -> InvT s -> InvT s'.
Proof.
  unfold run_sub. intros H IT.
  assert (I1 : InvT (s <| executed := executed s ++ [id] |>)) by (destruct IT; constructor; assumption).
  set (s1 := s <| executed := executed s ++ [id] |>) in *.
  destruct (kind_of id) as [[cb|t|t|t|t|t]|]; try discriminate.
  - inversion H; subst. destruct I1; constructor; assumption.
  - destruct (do_set_T _ _ _ _ H (t_tj _ I1)) as (T' & Hn & K). eapply InvT_op; eauto. eapply do_set_ctl; eauto.
  - destruct (do_set_T _ _ _ _ H (t_tj _ I1)) as (T' & Hn & K). eapply InvT_op; eauto. eapply do_set_ctl; eauto.
  - assert (H' : do_clear s1 t st = Some s') by (destruct (find_t (timers s) t) as [j|]; [destruct (tj_kind j); try discriminate|]; exact H).
    destruct (do_clear_T _ _ _ _ H' (t_tj _ I1)) as (T' & Hn & K). eapply InvT_op; eauto. eapply do_clear_ctl; eauto.
  - assert (H' : do_clear s1 t st = Some s') by (destruct (find_t (timers s) t) as [j|]; [destruct (tj_kind j); try discriminate|]; exact H).
    destruct (do_clear_T _ _ _ _ H' (t_tj _ I1)) as (T' & Hn & K). eapply InvT_op; eauto. eapply do_clear_ctl; eauto.
  - assert (Hk : forall j, find_t (timers s1) t = Some j -> tj_kind j = TImmediate).
    { intros j Hj. change (timers s1) with (timers s) in Hj. rewrite Hj in H. destruct (tj_kind j); try discriminate; reflexivity. }
    assert (H' : s' = do_immediate s1 t) by (destruct (find_t (timers s) t) as [j|]; [destruct (tj_kind j); try discriminate|]; inversion H; reflexivity).
    subst s'. destruct (do_immediate_T s1 t (t_tj _ I1) Hk) as (T' & Hn & K). eapply InvT_op; eauto. apply do_immediate_ctl.
Qed.

Lemma run_msg_T s m : InvT s -> pend_ok (timers s) (Some m) -> InvT (run_msg s m).
Proof.
  intros IT Hp. destruct m as [id|id|id]; cbn [run_msg]; cbn in Hp.
  - destruct Hp as (t & Hf & Hh & Hk).
    assert (Hd : forall t0, find_t (timers s) id = Some t0 -> tj_h t0 = HDone /\ tj_kind t0 = TTimeout) by (intros t0 H0; rewrite Hf in H0; inversion H0; subst; auto).
    destruct (do_timeout_T s id (t_tj _ IT) Hd) as (T' & Hn & K). eapply InvT_op; eauto. apply do_timeout_ctl.
  - destruct Hp as (t & Hf & Hk).
    assert (Hd : forall t0, find_t (timers s) id = Some t0 -> tj_kind t0 = TInterval) by (intros t0 H0; rewrite Hf in H0; inversion H0; subst; auto).
    destruct (do_tick_T s id (t_tj _ IT) Hd) as (T' & Hn & K). eapply InvT_op; eauto. apply do_tick_ctl.
  - destruct Hp as (t & Hf & Hh & Hc).
    assert (Hd : forall t0, find_t (timers s) id = Some t0 -> tj_h t0 = HDone /\ tj_cancelled t0 = true) by (intros t0 H0; rewrite Hf in H0; inversion H0; subst; auto).
    destruct IT as [T Hcount Hpe]. constructor; cbn.
    + apply remove_T; assumption.
    + exact Hcount.
    + exact Hpe.
Qed.

Lemma InvT_step s p a b s' : InvCtl s -> InvT s -> step kind_of s p a b = Some s' -> InvT s'.
Proof.
  intros C IT H. pose proof (c_run _ C) as Crun. pose proof (c_pending _ C) as Cpend.
  destruct p.
  4: { (* runaux_job *) cbn in H. destruct (batch s) as [|j r] eqn:Eb; [discriminate|].
       assert (I1 : InvT (s <| batch := r |>)) by (destruct IT; constructor; assumption).
       destruct (tph s); destruct (phase s); try discriminate; eapply run_sub_T; eauto. }
  7: { (* arm_job *) cbn in H. destruct (phase s) eqn:Ep; try discriminate. destruct (pending s) as [m|] eqn:Epe; [|discriminate].
       inversion H; subst; clear H. apply run_msg_T.
       - destruct IT as [T Hc Hp]. constructor; cbn; [exact T| |exact I].
         unfold bgc in *. cbn. rewrite Ep in Hc. exact Hc.
       - cbn. destruct IT as [T Hc Hp]. rewrite Epe in Hp. exact Hp. }
  22: { (* term_cancel *) cbn in H. destruct (tph s); try discriminate. destruct (existsb (Z.eqb a) (jobs s)); [|discriminate].
        destruct (find_t (timers s) a) as [t|]; [|discriminate]. destruct (tj_cancelled t); [discriminate|].
        destruct (do_clear_T _ _ _ _ H (t_tj _ IT)) as (T' & Hn & K). eapply InvT_op; eauto. eapply do_clear_ctl; eauto. }
  24: { (* timer_fire *) cbn in H. destruct (find_t (timers s) a) as [t|] eqn:Ef; [|discriminate].
        destruct (tj_kind t) eqn:Ek; try discriminate.
        assert (Hne : tj_h t <> HDone) by (destruct (tj_h t); try discriminate; intro; discriminate).
        assert (H' : s' = offer (set_h s a HRunning)) by (destruct (tj_h t); try discriminate; inversion H; reflexivity). subst s'. clear H.
        assert (Hd : forall t0, find_t (timers s) a = Some t0 ->
                  (HRunning = HRunning /\ tj_h t0 <> HDone) \/ (HRunning = HDone /\ tj_kind t0 <> TImmediate /\ (~ In a (jobs s) -> tj_cancelled t0 = true))).
        { intros t0 H0. rewrite Ef in H0. inversion H0; subst. left; auto. }
        destruct (set_h_T s a HRunning (t_tj _ IT) Hd) as (T' & Hl & K).
        assert (I1 : InvT (set_h s a HRunning)).
        { apply (InvT_op s (set_h s a HRunning)); [apply set_h_ctl|exact T'| |exact K|exact IT]. rewrite Hl. unfold set_h. cbn. lia. }
        unfold offer. destruct (phase (set_h s a HRunning)) eqn:Ep; try exact I1.
        destruct I1 as [T1 Hc1 Hp1]. constructor; cbn; [exact T1| |exact Hp1]. unfold bgc in *. cbn in *. rewrite Ep in Hc1. exact Hc1. }
  all: destruct IT as [T Hc Hp];
    destruct s as [aux0 token0 canrun0 running0 terminated0 jobcount0 jobs0 timers0 phase0 background0 batch0 tph0 wakers0 pending0
                   spc0 natural0 executed0 accepted0 refused0 cbs0];
    cbn in *; unfold send_token, offer, dec_bg in H; cbn in H.
  all: try (timeout 1800 (split_matches H; inv_some; try (specialize (Crun eq_refl); subst); ctl_only T Hc Hp)).
Qed.

Lemma deliver_T s m s' : InvT s -> pend_ok (timers s) (Some m) -> deliver s m = Some s' -> InvT s'.
Proof.
  intros IT Hp. unfold deliver.
  assert (D : Some (run_msg s m) = Some s' -> InvT s') by (intro H; inversion H; subst; apply run_msg_T; assumption).
  assert (P : match phase s, pending s with LArmJ, None => Some (s <| pending := Some m |>) | _, _ => None end = Some s' -> InvT s').
  { destruct (phase s) eqn:Ep; try discriminate. destruct (pending s) eqn:Epe; try discriminate. intro H; inversion H; subst.
    destruct IT as [T Hc _]. constructor; cbn; [exact T| |exact Hp]. unfold bgc, live in *. cbn. exact Hc. }
  destruct (tph s); auto.
Qed.

Lemma set_h_keeps_find s a h t : find_t (timers s) a = Some t -> find_t (timers (set_h s a h)) a = Some (t <| tj_h := h |>).
Proof. intro Hf. unfold set_h. cbn. apply (find_upd_same _ _ (fun t => t <| tj_h := h |>) _ Hf). reflexivity. Qed.

Lemma set_done_T s a t :
  InvT s -> find_t (timers s) a = Some t -> tj_h t = HRunning -> tj_kind t <> TImmediate -> InvT (set_h s a HDone).
Proof.
  intros IT Hf Hh Hk.
  assert (Hd : forall t0, find_t (timers s) a = Some t0 ->
            (HDone = HRunning /\ tj_h t0 <> HDone) \/ (HDone = HDone /\ tj_kind t0 <> TImmediate /\ (~ In a (jobs s) -> tj_cancelled t0 = true))).
  { intros t0 H0. rewrite Hf in H0. inversion H0; subst. right. split; [reflexivity|]. split; [exact Hk|]. intro Hni. exfalso. apply Hni.
    destruct (t_tj _ IT) as [_ Hg]. destruct (Hg _ (find_in _ _ _ Hf)) as (_ & G2 & _). rewrite <- (find_id _ _ _ Hf). apply G2. rewrite Hh. discriminate. }
  destruct (set_h_T s a HDone (t_tj _ IT) Hd) as (T' & Hl & K).
  apply (InvT_op s (set_h s a HDone)); [apply set_h_ctl|exact T'| |exact K|exact IT]. rewrite Hl. unfold set_h. cbn. lia.
Qed.

Lemma InvT_eff s e a b c s' : InvT s -> apply_eff s e a b c = Some s' -> InvT s'.
Proof.
  intros IT. destruct e; cbn [apply_eff].
  - intro H. destruct (do_set_T _ _ _ _ H (t_tj _ IT)) as (T' & Hn & K). eapply InvT_op; eauto. eapply do_set_ctl; eauto.
  - intro H. destruct (do_set_T _ _ _ _ H (t_tj _ IT)) as (T' & Hn & K). eapply InvT_op; eauto. eapply do_set_ctl; eauto.
  - destruct (existsb (Z.eqb b) (accepted s)); intro H; [|inversion H; subst; exact IT].
    destruct (do_set_T _ _ _ _ H (t_tj _ IT)) as (T' & Hn & K). eapply InvT_op; eauto. eapply do_set_ctl; eauto.
  - destruct (find_t (timers s) a) as [t|]; [destruct (kind_matches (tj_kind t) b)|]; intro H; try (inversion H; subst; exact IT).
    destruct (do_clear_T _ _ _ _ H (t_tj _ IT)) as (T' & Hn & K). eapply InvT_op; eauto. eapply do_clear_ctl; eauto.
  - destruct (find_t (timers s) a) as [t|] eqn:Ef; [|discriminate]. destruct (tj_kind t) eqn:Ek; try discriminate. destruct (tj_h t) eqn:Eh; try discriminate.
    apply deliver_T.
    + eapply set_done_T; eauto. rewrite Ek; discriminate.
    + cbn. exists (t <| tj_h := HDone |>). split; [apply set_h_keeps_find; exact Ef|]. split; [reflexivity|exact Ek].
  - destruct (find_t (timers s) a) as [t|] eqn:Ef; [|discriminate]. destruct (tj_kind t) eqn:Ek; try discriminate. destruct (tj_h t) eqn:Eh; try discriminate.
    apply deliver_T; [exact IT|]. cbn. exists t. split; assumption.
  - destruct (find_t (timers s) a) as [t|] eqn:Ef; [|discriminate]. destruct (tj_kind t) eqn:Ek; try discriminate. destruct (tj_h t) eqn:Eh; try discriminate.
    destruct (tj_cancelled t) eqn:Ec; [|discriminate].
    apply deliver_T.
    + eapply set_done_T; eauto. rewrite Ek; discriminate.
    + cbn. exists (t <| tj_h := HDone |>). split; [apply set_h_keeps_find; exact Ef|]. split; [reflexivity|exact Ec].
Qed.

(* ---- what every event keeps of every job ---- *)
Lemma run_sub_keeps s id st s' : run_sub kind_of s id st = Some s' -> InvT s -> keeps_ts (timers s) (timers s').
Proof.
  unfold run_sub. intros H IT.
  assert (I1 : InvT (s <| executed := executed s ++ [id] |>)) by (destruct IT; constructor; assumption).
  set (s1 := s <| executed := executed s ++ [id] |>) in *.
  destruct (kind_of id) as [[cb|t|t|t|t|t]|]; try discriminate.
  - inversion H; subst. apply keeps_refl.
  - exact (proj2 (proj2 (do_set_T _ _ _ _ H (t_tj _ I1)))).
  - exact (proj2 (proj2 (do_set_T _ _ _ _ H (t_tj _ I1)))).
  - assert (H' : do_clear s1 t st = Some s') by (destruct (find_t (timers s) t) as [j|]; [destruct (tj_kind j); try discriminate|]; exact H).
    exact (proj2 (proj2 (do_clear_T _ _ _ _ H' (t_tj _ I1)))).
  - assert (H' : do_clear s1 t st = Some s') by (destruct (find_t (timers s) t) as [j|]; [destruct (tj_kind j); try discriminate|]; exact H).
    exact (proj2 (proj2 (do_clear_T _ _ _ _ H' (t_tj _ I1)))).
  - assert (Hk : forall j, find_t (timers s1) t = Some j -> tj_kind j = TImmediate).
    { intros j Hj. change (timers s1) with (timers s) in Hj. rewrite Hj in H. destruct (tj_kind j); try discriminate; reflexivity. }
    assert (H' : s' = do_immediate s1 t) by (destruct (find_t (timers s) t) as [j|]; [destruct (tj_kind j); try discriminate|]; inversion H; reflexivity).
    subst s'. exact (proj2 (proj2 (do_immediate_T s1 t (t_tj _ I1) Hk))).
Qed.

Lemma run_msg_keeps s m : InvT s -> pend_ok (timers s) (Some m) -> keeps_ts (timers s) (timers (run_msg s m)).
Proof.
  intros IT Hp. destruct m as [id|id|id]; cbn [run_msg]; cbn in Hp.
  - destruct Hp as (t & Hf & Hh & Hk).
    assert (Hd : forall t0, find_t (timers s) id = Some t0 -> tj_h t0 = HDone /\ tj_kind t0 = TTimeout) by (intros t0 H0; rewrite Hf in H0; inversion H0; subst; auto).
    exact (proj2 (proj2 (do_timeout_T s id (t_tj _ IT) Hd))).
  - destruct Hp as (t & Hf & Hk).
    assert (Hd : forall t0, find_t (timers s) id = Some t0 -> tj_kind t0 = TInterval) by (intros t0 H0; rewrite Hf in H0; inversion H0; subst; auto).
    exact (proj2 (proj2 (do_tick_T s id (t_tj _ IT) Hd))).
  - apply keeps_refl.
Qed.

Lemma keeps_step s p a b s' : InvT s -> step kind_of s p a b = Some s' -> keeps_ts (timers s) (timers s').
Proof.
  intros IT H.
  destruct p.
  4: { cbn in H. destruct (batch s) as [|j r] eqn:Eb; [discriminate|].
       assert (I1 : InvT (s <| batch := r |>)) by (destruct IT; constructor; assumption).
       destruct (tph s); destruct (phase s); try discriminate; exact (run_sub_keeps _ _ _ _ H I1). }
  7: { cbn in H. destruct (phase s) eqn:Ep; try discriminate. destruct (pending s) as [m|] eqn:Epe; [|discriminate].
       inversion H; subst; clear H.
       assert (I1 : InvT (s <| pending := None |> <| phase := LHead |>)).
       { destruct IT as [T Hc Hp]. constructor; cbn; [exact T| |exact I]. unfold bgc, live in *. cbn. rewrite Ep in Hc. exact Hc. }
       apply (run_msg_keeps _ m I1). cbn. destruct IT as [T Hc Hp]. rewrite Epe in Hp. exact Hp. }
  22: { cbn in H. destruct (tph s); try discriminate. destruct (existsb (Z.eqb a) (jobs s)); [|discriminate].
        destruct (find_t (timers s) a) as [t|]; [|discriminate]. destruct (tj_cancelled t); [discriminate|].
        exact (proj2 (proj2 (do_clear_T _ _ _ _ H (t_tj _ IT)))). }
  24: { cbn in H. destruct (find_t (timers s) a) as [t|] eqn:Ef; [|discriminate].
        destruct (tj_kind t) eqn:Ek; try discriminate.
        assert (Hne : tj_h t <> HDone) by (destruct (tj_h t); try discriminate; intro; discriminate).
        assert (H' : s' = offer (set_h s a HRunning)) by (destruct (tj_h t); try discriminate; inversion H; reflexivity). subst s'. clear H.
        assert (Hd : forall t0, find_t (timers s) a = Some t0 ->
                  (HRunning = HRunning /\ tj_h t0 <> HDone) \/ (HRunning = HDone /\ tj_kind t0 <> TImmediate /\ (~ In a (jobs s) -> tj_cancelled t0 = true))).
        { intros t0 H0. rewrite Ef in H0. inversion H0; subst. left; auto. }
        pose proof (proj2 (proj2 (set_h_T s a HRunning (t_tj _ IT) Hd))) as K.
        unfold offer. destruct (phase (set_h s a HRunning)); exact K. }
  all: destruct s as [aux0 token0 canrun0 running0 terminated0 jobcount0 jobs0 timers0 phase0 background0 batch0 tph0 wakers0 pending0
                   spc0 natural0 executed0 accepted0 refused0 cbs0];
    cbn in *; unfold send_token, offer, dec_bg in H; cbn in H.
  all: timeout 1800 (split_matches H; inv_some; cbn; apply keeps_refl).
Qed.

Lemma deliver_keeps s m s' : InvT s -> pend_ok (timers s) (Some m) -> deliver s m = Some s' -> keeps_ts (timers s) (timers s').
Proof.
  intros IT Hp. unfold deliver.
  assert (D : Some (run_msg s m) = Some s' -> keeps_ts (timers s) (timers s')) by (intro H; inversion H; subst; apply run_msg_keeps; assumption).
  assert (P : match phase s, pending s with LArmJ, None => Some (s <| pending := Some m |>) | _, _ => None end = Some s' -> keeps_ts (timers s) (timers s')).
  { destruct (phase s); try discriminate. destruct (pending s); try discriminate. intro H; inversion H; subst. apply keeps_refl. }
  destruct (tph s); auto.
Qed.

Lemma set_done_keeps s a t :
  InvT s -> find_t (timers s) a = Some t -> tj_h t = HRunning -> tj_kind t <> TImmediate -> keeps_ts (timers s) (timers (set_h s a HDone)).
Proof.
  intros IT Hf Hh Hk.
  assert (Hd : forall t0, find_t (timers s) a = Some t0 ->
            (HDone = HRunning /\ tj_h t0 <> HDone) \/ (HDone = HDone /\ tj_kind t0 <> TImmediate /\ (~ In a (jobs s) -> tj_cancelled t0 = true))).
  { intros t0 H0. rewrite Hf in H0. inversion H0; subst. right. split; [reflexivity|]. split; [exact Hk|]. intro Hni. exfalso. apply Hni.
    destruct (t_tj _ IT) as [_ Hg]. destruct (Hg _ (find_in _ _ _ Hf)) as (_ & G2 & _). rewrite <- (find_id _ _ _ Hf). apply G2. rewrite Hh. discriminate. }
  exact (proj2 (proj2 (set_h_T s a HDone (t_tj _ IT) Hd))).
Qed.

Lemma keeps_eff s e a b c s' : InvT s -> apply_eff s e a b c = Some s' -> keeps_ts (timers s) (timers s').
Proof.
  intros IT. destruct e; cbn [apply_eff].
  - intro H. exact (proj2 (proj2 (do_set_T _ _ _ _ H (t_tj _ IT)))).
  - intro H. exact (proj2 (proj2 (do_set_T _ _ _ _ H (t_tj _ IT)))).
  - destruct (existsb (Z.eqb b) (accepted s)); intro H; [|inversion H; subst; apply keeps_refl].
    exact (proj2 (proj2 (do_set_T _ _ _ _ H (t_tj _ IT)))).
  - destruct (find_t (timers s) a) as [t|]; [destruct (kind_matches (tj_kind t) b)|]; intro H; try (inversion H; subst; apply keeps_refl).
    exact (proj2 (proj2 (do_clear_T _ _ _ _ H (t_tj _ IT)))).
  - destruct (find_t (timers s) a) as [t|] eqn:Ef; [|discriminate]. destruct (tj_kind t) eqn:Ek; try discriminate. destruct (tj_h t) eqn:Eh; try discriminate.
    intro H. eapply keeps_trans; [eapply set_done_keeps; eauto; rewrite Ek; discriminate|].
    eapply deliver_keeps; [eapply set_done_T; eauto; rewrite Ek; discriminate| |exact H].
    cbn. exists (t <| tj_h := HDone |>). split; [apply set_h_keeps_find; exact Ef|]. split; [reflexivity|exact Ek].
  - destruct (find_t (timers s) a) as [t|] eqn:Ef; [|discriminate]. destruct (tj_kind t) eqn:Ek; try discriminate. destruct (tj_h t) eqn:Eh; try discriminate.
    apply deliver_keeps; [exact IT|]. cbn. exists t. split; assumption.
  - destruct (find_t (timers s) a) as [t|] eqn:Ef; [|discriminate]. destruct (tj_kind t) eqn:Ek; try discriminate. destruct (tj_h t) eqn:Eh; try discriminate.
    destruct (tj_cancelled t) eqn:Ec; [|discriminate].
    intro H. eapply keeps_trans; [eapply set_done_keeps; eauto; rewrite Ek; discriminate|].
    eapply deliver_keeps; [eapply set_done_T; eauto; rewrite Ek; discriminate| |exact H].
    cbn. exists (t <| tj_h := HDone |>). split; [apply set_h_keeps_find; exact Ef|]. split; [reflexivity|exact Ec].
Qed.

(* ---- every reachable state ---- *)
Definition Inv (s : lstate) : Prop := InvCtl s /\ InvT s.

Lemma Inv_ev s e s' : Inv s -> do_ev kind_of s e = Some s' -> Inv s'.
Proof.
  intros [C T]. destruct e as [p a b|e a b c]; cbn [do_ev]; intro H.
  - split; [eapply InvCtl_step; eauto|eapply InvT_step; eauto].
  - split; [eapply InvCtl_eff; eauto|eapply InvT_eff; eauto].
Qed.

Lemma Inv_run l : forall s s', Inv s -> run_evs kind_of s l = Some s' -> Inv s'.
Proof.
  induction l as [|e r IH]; cbn; intros s s' I H; [inversion H; subst; exact I|].
  destruct (do_ev kind_of s e) as [s1|] eqn:E; [|discriminate]. eapply IH; [eapply Inv_ev; eauto|exact H].
Qed.

Lemma keeps_ev s e s' : Inv s -> do_ev kind_of s e = Some s' -> keeps_ts (timers s) (timers s').
Proof. intros [C T]. destruct e as [p a b|e a b c]; cbn [do_ev]; intro H; [eapply keeps_step; eauto|eapply keeps_eff; eauto]. Qed.

Lemma keeps_run l : forall s s', Inv s -> run_evs kind_of s l = Some s' -> keeps_ts (timers s) (timers s').
Proof.
  induction l as [|e r IH]; cbn; intros s s' I H; [inversion H; subst; apply keeps_refl|].
  destruct (do_ev kind_of s e) as [s1|] eqn:E; [|discriminate].
  eapply keeps_trans; [eapply keeps_ev; eauto|eapply IH; [eapply Inv_ev; eauto|exact H]].
Qed.

Theorem Inv_reachable l s : run_evs kind_of init l = Some s -> Inv s.
Proof. apply Inv_run. split; [apply InvCtl_init|apply InvT_init]. Qed.

Theorem Inv_reachable_after_setup l s : run_evs kind_of init_after_setup l = Some s -> Inv s.
Proof. apply Inv_run. split; [apply InvCtl_init_after_setup|apply InvT_init_after_setup]. Qed.

End WithKinds.
