(* Proofs/BufferNumRefine.v — every generated numeric descriptor computes what the Node specification of its name says *)
From GN Require Import Common.Base Common.Int64 Model.BufferTypes Gen.BufferMethods Model.Buffer Spec.BufferNumSpec
  Proofs.BufferBytes Proofs.BufferGuards.
From Coq Require Import String Ascii.
Open Scope string_scope.
Open Scope list_scope.
Open Scope Z_scope.
Ltac Zify.zify_post_hook ::= Z.div_mod_to_equations.

Definition wf_arg (a : jsarg) : Prop :=
  match a with ANum ti b => in_i64 ti /\ 0 <= b < two64 | _ => True end.
Definition wf_args (args : list jsarg) : Prop := Forall wf_arg args.
Definition wf_buf (buf : list Z) : Prop := wf_bytes buf /\ len_ok buf.

Definition refines (m : mout) (s : sout) : Prop :=
  match m, s with
  | MOk b r, SOk b' r' => b = b' /\ r = r'
  | MThrow c, SThrow => c = 1 \/ c = 2
  | _, _ => False
  end.

Lemma wf_arg_at args i : wf_args args -> wf_arg (arg_at args i).
Proof.
  intro H. unfold arg_at. destruct (nth_in_or_default i args AUndef) as [Hin | ->]; [|exact I].
  exact (proj1 (Forall_forall _ _) H _ Hin).
Qed.

(* the generated goutil rule table says what the coercion helpers do *)
Lemma rules_facts :
  buffer_methods_translated = true /\
  assoc_s "RequiredIntegerArgument" coerce_rules = Some (NumToInteger, UndefTypeError, OtherTypeError) /\
  assoc_s "OptionalIntegerArgument" coerce_rules = Some (NumToInteger, UndefDefault, OtherTypeError) /\
  assoc_s "RequiredFloatArgument" coerce_rules = Some (NumToFloat, UndefTypeError, OtherTypeError).
Proof. repeat split; reflexivity. Qed.

Lemma coerce_required a :
  coerce_int "RequiredIntegerArgument" 0 0 a = match a with ANum ti _ => inl ti | _ => inr 1 end.
Proof. unfold coerce_int. destruct rules_facts as (_ & -> & _). destruct a; reflexivity. Qed.

Lemma coerce_optional a :
  coerce_int "OptionalIntegerArgument" 0 0 a = match a with ANum ti _ => inl ti | AUndef => inl 0 | _ => inr 1 end.
Proof. unfold coerce_int. destruct rules_facts as (_ & _ & -> & _). destruct a; reflexivity. Qed.

Lemma coerce_float_sem a : coerce_float a = match a with ANum _ b => inl b | _ => inr 1 end.
Proof. unfold coerce_float. destruct rules_facts as (_ & _ & _ & ->). reflexivity. Qed.

Definition chk (buf : list Z) (off w : Z) : (Z * Z) + Z := if in_buffer buf off w then inl (off, w) else inr 2.

Lemma get_offset_fixed i w buf args :
  wf_args args -> len_ok buf -> 0 <= w <= 8 ->
  get_offset (OffFixed i w) buf args =
  match arg_at args i with AUndef => chk buf 0 w | ANum off _ => chk buf off w | _ => inr 1 end.
Proof.
  intros Hargs Hlen Hw. unfold get_offset. rewrite coerce_optional.
  pose proof (wf_arg_at args i Hargs) as Ha.
  destruct (arg_at args i) as [|off b|z|]; try reflexivity.
  - rewrite off_guard_sem by (try assumption; unfold in_i64, two63; lia). unfold chk. destruct (in_buffer buf 0 w); reflexivity.
  - destruct Ha as [Hoff _]. rewrite off_guard_sem by assumption. unfold chk. destruct (in_buffer buf off w); reflexivity.
Qed.

Lemma get_offset_var oi li buf args :
  wf_args args -> len_ok buf ->
  get_offset (OffVar oi li) buf args =
  match arg_at args oi, arg_at args li with
  | ANum off _, ANum bl _ => if (1 <=? bl) && (bl <=? 6) then chk buf off bl else inr 2
  | _, _ => inr 1
  end.
Proof.
  intros Hargs Hlen. unfold get_offset. rewrite !coerce_required.
  pose proof (wf_arg_at args oi Hargs) as Ha. pose proof (wf_arg_at args li Hargs) as Hb.
  destruct (arg_at args oi) as [|off b|z|]; try reflexivity.
  destruct (arg_at args li) as [|bl b'|z|]; try reflexivity.
  destruct Ha as [Hoff _]. destruct Hb as [Hbl _].
  rewrite var_guards_sem by assumption. unfold chk.
  destruct ((1 <=? bl) && (bl <=? 6)); [|reflexivity]. destruct (in_buffer buf off bl); reflexivity.
Qed.

Lemma store_at_in buf off bs :
  in_buffer buf off (Z.of_nat (List.length bs)) = true -> store_at buf off bs = Some (splice buf off bs).
Proof. unfold store_at, in_buffer, splice. intros ->. reflexivity. Qed.

Lemma put_bytes_in buf off e v w ret :
  0 <= w -> in_buffer buf off w = true ->
  put_bytes buf off (bytes_of e v w) ret = MOk (splice buf off (bytes_of e v w)) (RInt ret).
Proof.
  intros Hw Hin. unfold put_bytes. rewrite store_at_in; [reflexivity|]. rewrite length_bytes_of by exact Hw. exact Hin.
Qed.

(* ---- value-range guards: any `value < A || value > B` ---- *)

Fixpoint only_bl (x : expr) : bool :=
  match x with
  | EVar v => String.eqb v "byteLength"
  | EInt _ => true
  | ELen _ => false
  | EBin _ a b => only_bl a && only_bl b
  | ENeg a | ENot a => only_bl a
  end.

Lemma eval_only_bl x : only_bl x = true -> forall e1 e2 l1 l2,
  e1 "byteLength" = e2 "byteLength" -> eval e1 l1 x = eval e2 l2 x.
Proof.
  induction x as [v|z|v|o a IHa b IHb|a IHa|a IHa]; cbn [only_bl eval]; intros H e1 e2 l1 l2 He; try discriminate; try reflexivity.
  - apply String.eqb_eq in H. subst v. exact He.
  - apply andb_true_iff in H as [Ha Hb]. rewrite (IHa Ha e1 e2 l1 l2 He), (IHb Hb e1 e2 l1 l2 He). reflexivity.
  - rewrite (IHa H e1 e2 l1 l2 He). reflexivity.
  - rewrite (IHa H e1 e2 l1 l2 He). reflexivity.
Qed.

Definition range_guard (A B : expr) : guard :=
  GExpr (EBin OOr (EBin OLt (EVar "value") A) (EBin OGt (EVar "value") B)) "value" 2.

Definition bl_env (bl : Z) : env := upd empty_env "byteLength" bl.

Lemma range_guard_sem A B e buf v bl :
  only_bl A = true -> only_bl B = true -> e "value" = v -> e "byteLength" = bl ->
  guard_fires (range_guard A B) e buf (GVInt v)
  = if (eval (bl_env bl) empty_env A <=? v) && (v <=? eval (bl_env bl) empty_env B) then None else Some 2.
Proof.
  intros HA HB Hv Hbl. unfold range_guard, guard_fires, holds. cbn [eval eval_bin].
  rewrite Hv.
  rewrite (eval_only_bl A HA e (bl_env bl) (lens_of buf) empty_env) by (unfold bl_env; rewrite upd_eq; exact Hbl).
  rewrite (eval_only_bl B HB e (bl_env bl) (lens_of buf) empty_env) by (unfold bl_env; rewrite upd_eq; exact Hbl).
  set (a := eval (bl_env bl) empty_env A). set (b := eval (bl_env bl) empty_env B).
  unfold b2z. rewrite (Z.gtb_ltb v b).
  destruct (Z.ltb_spec v a), (Z.ltb_spec b v), (Z.leb_spec a v), (Z.leb_spec v b); simpl; try reflexivity; exfalso; lia.
Qed.

Definition imin (sg : bool) (w : Z) : Z := if sg then - 2 ^ (8 * w - 1) else 0.
Definition imax (sg : bool) (w : Z) : Z := if sg then 2 ^ (8 * w - 1) - 1 else 2 ^ (8 * w) - 1.

Lemma int_representable_minmax sg w v : int_representable sg w v = (imin sg w <=? v) && (v <=? imax sg w).
Proof.
  unfold int_representable, imin, imax. destruct sg;
    destruct (Z.leb_spec (- 2 ^ (8 * w - 1)) v), (Z.ltb_spec v (2 ^ (8 * w - 1))), (Z.leb_spec v (2 ^ (8 * w - 1) - 1)),
             (Z.leb_spec 0 v), (Z.ltb_spec v (2 ^ (8 * w))), (Z.leb_spec v (2 ^ (8 * w) - 1)); simpl; try reflexivity; exfalso; lia.
Qed.

Definition bounds_ok (sg : bool) (A B : expr) (bl : Z) : bool :=
  (eval (bl_env bl) empty_env A =? imin sg bl) && (eval (bl_env bl) empty_env B =? imax sg bl).

(* ---- canonical descriptor of a specification entry; the guard bounds A, B are whatever the source wrote ---- *)

Definition canon_w (go : string) (sp : mspec) (A B : expr) : wdesc :=
  match ms_kind sp with
  | KInt sg w => {| w_go := go; w_coerce := CInteger; w_valarg := 0; w_off := OffFixed 1 w; w_guards := [range_guard A B]; w_store := SPut w (ms_end sp) |}
  | KVar sg => {| w_go := go; w_coerce := CInteger; w_valarg := 0; w_off := OffVar 1 2; w_guards := [range_guard A B];
                  w_store := match ms_end sp with BE => SLoopBE | LE => SLoopLE end |}
  | KBig sg => {| w_go := go; w_coerce := CBigInt; w_valarg := 0; w_off := OffFixed 1 8;
                  w_guards := [if sg then GBigInt64 else GBigUint64]; w_store := SBig (ms_end sp) sg |}
  | KFloat => {| w_go := go; w_coerce := CFloat; w_valarg := 0; w_off := OffFixed 1 4; w_guards := [GFloat32]; w_store := SBits32 (ms_end sp) |}
  | KDouble => {| w_go := go; w_coerce := CFloat; w_valarg := 0; w_off := OffFixed 1 8; w_guards := []; w_store := SBits64 (ms_end sp) |}
  end.

Definition bounds_hold (sp : mspec) (A B : expr) : bool :=
  match ms_kind sp with
  | KInt sg w => only_bl A && only_bl B && bounds_ok sg A B w && ((w =? 1) || (w =? 2) || (w =? 4))
  | KVar sg => only_bl A && only_bl B && forallb (bounds_ok sg A B) [1; 2; 3; 4; 5; 6]
  | _ => true
  end.

Lemma range_fires sg A B e buf v bl :
  only_bl A = true -> only_bl B = true -> bounds_ok sg A B bl = true -> e "value" = v -> e "byteLength" = bl ->
  first_firing [range_guard A B] e buf (GVInt v) = if int_representable sg bl v then None else Some 2.
Proof.
  intros HA HB Hb Hv Hbl. cbn [first_firing]. rewrite (range_guard_sem A B e buf v bl HA HB Hv Hbl).
  unfold bounds_ok in Hb. apply andb_true_iff in Hb as [Ha Hb']. apply Z.eqb_eq in Ha, Hb'. rewrite Ha, Hb'.
  rewrite int_representable_minmax. destruct ((imin sg bl <=? v) && (v <=? imax sg bl)); reflexivity.
Qed.

Lemma enc_bytes_eq e v w : 0 <= w -> enc_bytes e v w = bytes_of e v w.
Proof. intro H. unfold enc_bytes. apply bytes_of_mod. exact H. Qed.

Ltac env_lookup := repeat (rewrite upd_eq || rewrite upd_neq by reflexivity); try reflexivity.

Lemma write_int_refines go sg w en A B buf args :
  let sp := mk true (KInt sg w) en in
  bounds_hold sp A B = true -> wf_buf buf -> wf_args args ->
  refines (run_write (canon_w go sp A B) buf args) (spec_write sp buf args).
Proof.
  intros sp Hb [Hbytes Hlen] Hargs. unfold bounds_hold in Hb. cbn [ms_kind sp mk] in Hb.
  repeat (apply andb_true_iff in Hb as [Hb ?]).
  assert (Hw : 0 <= w <= 8).
  { repeat match goal with H : (_ || _) = true |- _ => apply orb_true_iff in H as [H|H] end;
      match goal with H : (w =? _) = true |- _ => apply Z.eqb_eq in H; lia end. }
  unfold run_write, spec_write, canon_w. cbn [ms_kind ms_end sp mk w_coerce w_valarg w_off w_guards w_store spec_offset width_of].
  rewrite coerce_required.
  pose proof (wf_arg_at args 0 Hargs) as Hv.
  rewrite get_offset_fixed by (try assumption; lia).
  destruct (arg_at args 0) as [|v bits|z|] eqn:Ev.
  - destruct (arg_at args 1); cbn; auto; unfold chk; destruct (in_buffer _ _ _); cbn; auto.
  - assert (Hgen : forall off, refines
        (match chk buf off w with
         | inl (off0, w0) =>
           match first_firing [range_guard A B]
                   (upd (upd (upd empty_env "value" v) "byteLength" w0) "offset" off0) buf (GVInt v) with
           | Some c => if c =? 0 then MPanic else MThrow c
           | None => put_bytes buf off0 (bytes_of en v w) (off0 + w)
           end
         | inr c => if c =? 0 then MPanic else MThrow c
         end)
        (match (if int_representable sg w v then Some (enc_bytes en v w) else None) with
         | Some bs => if in_buffer buf off w then SOk (splice buf off bs) (RInt (off + w)) else SThrow
         | None => SThrow
         end)).
    { intro off. unfold chk. destruct (in_buffer buf off w) eqn:Ein.
      - rewrite (range_fires sg A B _ buf v w) by (try assumption; env_lookup).
        destruct (int_representable sg w v); cbn; auto.
        rewrite put_bytes_in by (try assumption; lia). rewrite enc_bytes_eq by lia. cbn. auto.
      - cbn. destruct (int_representable sg w v); cbn; auto. }
    destruct (arg_at args 1) as [|off b|z|]; [apply (Hgen 0)|apply (Hgen off)| |];
      cbn; destruct (int_representable sg w v); cbn; auto.
  - destruct (arg_at args 1); cbn; auto; unfold chk; destruct (in_buffer _ _ _); cbn; auto.
  - destruct (arg_at args 1); cbn; auto; unfold chk; destruct (in_buffer _ _ _); cbn; auto.
Qed.

Lemma forallb_1_6 (P : Z -> bool) bl :
  forallb P [1; 2; 3; 4; 5; 6] = true -> (1 <=? bl) && (bl <=? 6) = true -> P bl = true.
Proof.
  intros H Hbl. apply andb_true_iff in Hbl as [H1 H6]. apply Z.leb_le in H1, H6.
  cbn [forallb] in H. repeat (apply andb_true_iff in H as [? H]).
  assert (Hc : bl = 1 \/ bl = 2 \/ bl = 3 \/ bl = 4 \/ bl = 5 \/ bl = 6) by lia.
  destruct Hc as [->|[->|[->|[->|[->| ->]]]]]; assumption.
Qed.

Lemma write_var_refines go sg en A B buf args :
  let sp := mk true (KVar sg) en in
  bounds_hold sp A B = true -> wf_buf buf -> wf_args args ->
  refines (run_write (canon_w go sp A B) buf args) (spec_write sp buf args).
Proof.
  intros sp Hb [Hbytes Hlen] Hargs. unfold bounds_hold in Hb. cbn [ms_kind sp mk] in Hb.
  repeat (apply andb_true_iff in Hb as [Hb ?]).
  unfold run_write, spec_write, canon_w. cbn [ms_kind ms_end sp mk w_coerce w_valarg w_off w_guards w_store spec_offset width_of].
  rewrite coerce_required. rewrite get_offset_var by assumption.
  destruct (arg_at args 0) as [|v bits|z|] eqn:Ev.
  1,3,4: (destruct (arg_at args 1); [| destruct (arg_at args 2) | |]; cbn; auto;
          try (destruct ((1 <=? _) && (_ <=? 6)); cbn; auto; unfold chk; destruct (in_buffer _ _ _); cbn; auto)).
  destruct (arg_at args 1) as [|off b|z|]; try (cbn; auto; fail).
  destruct (arg_at args 2) as [|bl b2|z|]; try (cbn; auto; fail).
  destruct ((1 <=? bl) && (bl <=? 6)) eqn:Ebl; [|cbn; auto].
  pose proof (forallb_1_6 _ bl H Ebl) as Hbo.
  apply andb_true_iff in Ebl as [E1 E6]. apply Z.leb_le in E1, E6.
  unfold chk. destruct (in_buffer buf off bl) eqn:Ein.
  - rewrite (range_fires sg A B _ buf v bl) by (try assumption; env_lookup).
    destruct (int_representable sg bl v); [|cbn; auto].
    destruct en; rewrite put_bytes_in by (try assumption; lia); rewrite enc_bytes_eq by lia; cbn; auto.
  - cbn. destruct (int_representable sg bl v); cbn; auto.
Qed.

Lemma write_big_refines go sg en A B buf args :
  let sp := mk true (KBig sg) en in
  wf_buf buf -> wf_args args ->
  refines (run_write (canon_w go sp A B) buf args) (spec_write sp buf args).
Proof.
  intros sp [Hbytes Hlen] Hargs.
  unfold run_write, spec_write, canon_w. cbn [ms_kind ms_end sp mk w_coerce w_valarg w_off w_guards w_store spec_offset width_of].
  rewrite get_offset_fixed by (try assumption; lia).
  assert (Hgen : forall z off, refines
      (match chk buf off 8 with
       | inl (off0, w0) =>
         match first_firing [if sg then GBigInt64 else GBigUint64]
                 (upd (upd (upd empty_env "value" 0) "byteLength" w0) "offset" off0) buf (GVBig z) with
         | Some c => if c =? 0 then MPanic else MThrow c
         | None => put_bytes buf off0 (bytes_of en z 8) (off0 + 8)
         end
       | inr c => if c =? 0 then MPanic else MThrow c
       end)
      (match (if int_representable sg 8 z then Some (enc_bytes en z 8) else None) with
       | Some bs => if in_buffer buf off 8 then SOk (splice buf off bs) (RInt (off + 8)) else SThrow
       | None => SThrow
       end)).
  { intros z off. unfold chk. destruct (in_buffer buf off 8) eqn:Ein.
    - assert (Hf : first_firing [if sg then GBigInt64 else GBigUint64]
                     (upd (upd (upd empty_env "value" 0) "byteLength" 8) "offset" off) buf (GVBig z)
                   = if int_representable sg 8 z then None else Some 2).
      { unfold int_representable. destruct sg; cbn [first_firing guard_fires];
          change (2 ^ (8 * 8 - 1)) with two63; change (2 ^ (8 * 8)) with two64;
          destruct ((_ <=? z) && (z <? _)); reflexivity. }
      rewrite Hf. destruct (int_representable sg 8 z); [|cbn; auto].
      rewrite put_bytes_in by (try assumption; lia). rewrite enc_bytes_eq by lia. cbn. auto.
    - cbn. destruct (int_representable sg 8 z); cbn; auto. }
  unfold coerce_big.
  destruct (arg_at args 0) as [|v bits|z|] eqn:Ev.
  1,2,4: (destruct (arg_at args 1); cbn; auto; unfold chk; destruct (in_buffer _ _ _); cbn; auto).
  destruct (arg_at args 1) as [|off b|z'|]; [apply (Hgen z 0)|apply (Hgen z off)| |];
    cbn; destruct (int_representable sg 8 z); cbn; auto.
Qed.

Lemma write_float_refines go en A B buf args :
  let sp := mk true KFloat en in
  wf_buf buf -> wf_args args ->
  refines (run_write (canon_w go sp A B) buf args) (spec_write sp buf args).
Proof.
  intros sp [Hbytes Hlen] Hargs.
  unfold run_write, spec_write, canon_w. cbn [ms_kind ms_end sp mk w_coerce w_valarg w_off w_guards w_store spec_offset width_of].
  rewrite get_offset_fixed by (try assumption; lia). rewrite coerce_float_sem.
  assert (Hgen : forall bits off, refines
      (match chk buf off 4 with
       | inl (off0, w0) =>
         match first_firing [GFloat32] (upd (upd (upd empty_env "value" 0) "byteLength" w0) "offset" off0) buf (GVFloat bits) with
         | Some c => if c =? 0 then MPanic else MThrow c
         | None => put_bytes buf off0 (bytes_of en (f64_to_f32_bits bits) 4) (off0 + 4)
         end
       | inr c => if c =? 0 then MPanic else MThrow c
       end)
      (match (if f64_exceeds_f32 bits then None else Some (bytes_of en (f64_to_f32_bits bits) 4)) with
       | Some bs => if in_buffer buf off 4 then SOk (splice buf off bs) (RInt (off + 4)) else SThrow
       | None => SThrow
       end)).
  { intros bits off. unfold chk. destruct (in_buffer buf off 4) eqn:Ein.
    - cbn [first_firing guard_fires]. destruct (f64_exceeds_f32 bits); [cbn; auto|].
      rewrite put_bytes_in by (try assumption; lia). cbn. auto.
    - cbn. destruct (f64_exceeds_f32 bits); cbn; auto. }
  destruct (arg_at args 0) as [|v bits|z|] eqn:Ev.
  1,3,4: (destruct (arg_at args 1); cbn; auto; unfold chk; destruct (in_buffer _ _ _); cbn; auto).
  destruct (arg_at args 1) as [|off b|z'|]; [apply (Hgen bits 0)|apply (Hgen bits off)| |];
    cbn; destruct (f64_exceeds_f32 bits); cbn; auto.
Qed.

Lemma write_double_refines go en A B buf args :
  let sp := mk true KDouble en in
  wf_buf buf -> wf_args args ->
  refines (run_write (canon_w go sp A B) buf args) (spec_write sp buf args).
Proof.
  intros sp [Hbytes Hlen] Hargs.
  unfold run_write, spec_write, canon_w. cbn [ms_kind ms_end sp mk w_coerce w_valarg w_off w_guards w_store spec_offset width_of].
  rewrite get_offset_fixed by (try assumption; lia). rewrite coerce_float_sem.
  assert (Hgen : forall bits off, refines
      (match chk buf off 8 with
       | inl (off0, w0) =>
         match first_firing [] (upd (upd (upd empty_env "value" 0) "byteLength" w0) "offset" off0) buf (GVFloat bits) with
         | Some c => if c =? 0 then MPanic else MThrow c
         | None => put_bytes buf off0 (bytes_of en bits 8) (off0 + 8)
         end
       | inr c => if c =? 0 then MPanic else MThrow c
       end)
      (if in_buffer buf off 8 then SOk (splice buf off (bytes_of en bits 8)) (RInt (off + 8)) else SThrow)).
  { intros bits off. unfold chk. destruct (in_buffer buf off 8) eqn:Ein.
    - cbn [first_firing]. rewrite put_bytes_in by (try assumption; lia). cbn. auto.
    - cbn. auto. }
  destruct (arg_at args 0) as [|v bits|z|] eqn:Ev.
  1,3,4: (destruct (arg_at args 1); cbn; auto; unfold chk; destruct (in_buffer _ _ _); cbn; auto).
  destruct (arg_at args 1) as [|off b|z'|]; [apply (Hgen bits 0)|apply (Hgen bits off)| |]; cbn; auto.
Qed.

Theorem canon_w_refines go sp A B buf args :
  ms_write sp = true -> bounds_hold sp A B = true -> wf_buf buf -> wf_args args ->
  refines (run_write (canon_w go sp A B) buf args) (spec_write sp buf args).
Proof.
  destruct sp as [wr k en]. cbn [ms_write]. intros -> Hb Hbuf Hargs.
  destruct k as [sg w|sg|sg| |].
  - apply (write_int_refines go sg w en A B buf args Hb Hbuf Hargs).
  - apply (write_var_refines go sg en A B buf args Hb Hbuf Hargs).
  - apply (write_big_refines go sg en A B buf args Hbuf Hargs).
  - apply (write_float_refines go en A B buf args Hbuf Hargs).
  - apply (write_double_refines go en A B buf args Hbuf Hargs).
Qed.

(* ---- reads ---- *)

Definition canon_r (go : string) (sp : mspec) : rdesc :=
  match ms_kind sp with
  | KInt sg w => {| r_go := go; r_off := OffFixed 0 w; r_load := LGet w (ms_end sp) sg |}
  | KVar sg => {| r_go := go; r_off := OffVar 0 1; r_load := LLoop (ms_end sp) sg |}
  | KBig sg => {| r_go := go; r_off := OffFixed 0 8; r_load := LBig (ms_end sp) sg |}
  | KFloat => {| r_go := go; r_off := OffFixed 0 4; r_load := LF32 (ms_end sp) |}
  | KDouble => {| r_go := go; r_off := OffFixed 0 8; r_load := LF64 (ms_end sp) |}
  end.

Definition read_ok (sp : mspec) : bool :=
  match ms_kind sp with KInt _ w => (w =? 1) || (w =? 2) || (w =? 4) | _ => true end.

(* signExtend as written, (value << (64-8n)) >> (64-8n) on int64, is two's-complement reinterpretation *)
Lemma sign_extend_case u n p k h :
  64 - 8 * n = k -> 0 <= k < 64 -> 2 ^ k = p -> 2 ^ (8 * n - 1) = h -> 2 ^ (8 * n) = 2 * h -> 2 * h * p = two64 -> 0 < p -> 0 < h ->
  0 <= u < 2 ^ (8 * n) -> sign_extend u n = to_signed u n.
Proof.
  intros Hk Hkr Hp Hh Hn Hprod Hp0 Hh0 Hu. unfold sign_extend, to_signed. rewrite Hk, shl64_small, shr64_small by assumption.
  rewrite Hp, Hh, Hn in *. unfold wrap64, two63, two64 in *.
  rewrite Z.geb_leb. destruct (Z.leb_spec h u) as [Hge|Hlt].
  - (* negative: u*p >= 2^63 *)
    assert (E : (u * p + 9223372036854775808) mod 18446744073709551616 = u * p - 9223372036854775808).
    { symmetry. apply (Z.mod_unique_pos _ _ 1). nia. nia. }
    rewrite E. replace (u * p - 9223372036854775808 - 9223372036854775808) with ((u - 2 * h) * p) by nia.
    rewrite Z.div_mul by lia. reflexivity.
  - assert (E : (u * p + 9223372036854775808) mod 18446744073709551616 = u * p + 9223372036854775808).
    { apply Z.mod_small. nia. }
    rewrite E. replace (u * p + 9223372036854775808 - 9223372036854775808) with (u * p) by lia.
    rewrite Z.div_mul by lia. reflexivity.
Qed.

Lemma sign_extend_to_signed u n : 1 <= n <= 6 -> 0 <= u < 2 ^ (8 * n) -> sign_extend u n = to_signed u n.
Proof.
  intros Hn Hu.
  assert (Hc : n = 1 \/ n = 2 \/ n = 3 \/ n = 4 \/ n = 5 \/ n = 6) by lia.
  destruct Hc as [->|[->|[->|[->|[->| ->]]]]].
  - eapply (sign_extend_case u 1 _ 56 _); try reflexivity; try lia; exact Hu.
  - eapply (sign_extend_case u 2 _ 48 _); try reflexivity; try lia; exact Hu.
  - eapply (sign_extend_case u 3 _ 40 _); try reflexivity; try lia; exact Hu.
  - eapply (sign_extend_case u 4 _ 32 _); try reflexivity; try lia; exact Hu.
  - eapply (sign_extend_case u 5 _ 24 _); try reflexivity; try lia; exact Hu.
  - eapply (sign_extend_case u 6 _ 16 _); try reflexivity; try lia; exact Hu.
Qed.

Lemma load_at_in buf off w : 0 <= w -> in_buffer buf off w = true ->
  load_at buf off w = Some (firstn (Z.to_nat w) (skipn (Z.to_nat off) buf)).
Proof.
  intros Hw Hin. unfold load_at, in_buffer in *. apply andb_true_iff in Hin as [H1 H2]. rewrite H1, H2.
  destruct (Z.leb_spec 0 w); [reflexivity|lia].
Qed.

Lemma in_firstn' {A} (x : A) n l : In x (firstn n l) -> In x l.
Proof. revert l; induction n as [|n IH]; intros [|y l] H; simpl in *; try contradiction. destruct H; [left; assumption|right; apply IH; assumption]. Qed.

Lemma in_skipn' {A} (x : A) n l : In x (skipn n l) -> In x l.
Proof. revert l; induction n as [|n IH]; intros [|y l] H; simpl in *; try contradiction; auto. Qed.

Lemma loaded_bytes buf off w : wf_bytes buf -> 0 <= w -> in_buffer buf off w = true ->
  wf_bytes (firstn (Z.to_nat w) (skipn (Z.to_nat off) buf)) /\
  Z.of_nat (List.length (firstn (Z.to_nat w) (skipn (Z.to_nat off) buf))) = w.
Proof.
  intros Hb Hw Hin. split.
  - apply Forall_forall. intros x Hx. apply (proj1 (Forall_forall _ _) Hb). eapply in_skipn'. eapply in_firstn'. exact Hx.
  - unfold in_buffer in Hin. apply andb_true_iff in Hin as [H1 H2]. apply Z.leb_le in H1, H2.
    rewrite firstn_length, skipn_length. lia.
Qed.

Theorem canon_r_refines go sp buf args :
  ms_write sp = false -> read_ok sp = true -> wf_buf buf -> wf_args args ->
  refines (run_read (canon_r go sp) buf args) (spec_read sp buf args).
Proof.
  destruct sp as [wr k en]. cbn [ms_write]. intros -> Hok [Hbytes Hlen] Hargs.
  unfold run_read, spec_read, canon_r. cbn [ms_kind ms_end r_off r_load spec_offset width_of].
  destruct k as [sg w|sg|sg| |]; cbn [r_off r_load width_of spec_offset].
  - (* fixed-width integers *)
    unfold read_ok in Hok. cbn [ms_kind] in Hok.
    assert (Hw : 0 <= w <= 8).
    { repeat match goal with H : (_ || _) = true |- _ => apply orb_true_iff in H as [H|H] end;
        match goal with H : (w =? _) = true |- _ => apply Z.eqb_eq in H; lia end. }
    rewrite get_offset_fixed by (try assumption; lia).
    assert (Hgen : forall off, refines
      (match chk buf off w with
       | inl (off0, _) => match load_at buf off0 w with
                           | None => MPanic
                           | Some bs => let u := from_bytes en bs in MOk buf (RInt (if sg then to_signed u w else u))
                           end
       | inr c => if c =? 0 then MPanic else MThrow c
       end)
      (if in_buffer buf off w then
         SOk buf (RInt (if sg then to_signed (from_bytes en (firstn (Z.to_nat w) (skipn (Z.to_nat off) buf))) w
                        else from_bytes en (firstn (Z.to_nat w) (skipn (Z.to_nat off) buf))))
       else SThrow)).
    { intro off. unfold chk. destruct (in_buffer buf off w) eqn:Ein; [|cbn; auto].
      rewrite load_at_in by (try assumption; lia). cbn. auto. }
    destruct (arg_at args 0) as [|off b|z|]; [apply (Hgen 0)|apply (Hgen off)| |]; cbn; auto.
  - (* variable width *)
    rewrite get_offset_var by assumption.
    destruct (arg_at args 0) as [|off b|z|]; try (cbn; auto; fail).
    destruct (arg_at args 1) as [|bl b2|z|]; try (cbn; auto; fail).
    destruct ((1 <=? bl) && (bl <=? 6)) eqn:Ebl; [|cbn; auto].
    apply andb_true_iff in Ebl as [E1 E6]. apply Z.leb_le in E1, E6.
    unfold chk. destruct (in_buffer buf off bl) eqn:Ein; [|cbn; auto].
    rewrite load_at_in by (try assumption; lia). cbn [refines].
    split; [reflexivity|]. destruct sg; [|reflexivity].
    destruct (loaded_bytes buf off bl Hbytes ltac:(lia) Ein) as [Hwf Hl].
    pose proof (from_bytes_range en _ Hwf) as Hr. rewrite Hl in Hr.
    rewrite sign_extend_to_signed by (try lia; exact Hr). reflexivity.
  - (* BigInt *)
    rewrite get_offset_fixed by (try assumption; lia).
    assert (Hgen : forall off, refines
      (match chk buf off 8 with
       | inl (off0, _) => match load_at buf off0 8 with
                           | None => MPanic
                           | Some bs => let u := from_bytes en bs in MOk buf (RBig (if sg then to_signed u 8 else u))
                           end
       | inr c => if c =? 0 then MPanic else MThrow c
       end)
      (if in_buffer buf off 8 then
         SOk buf (RBig (if sg then to_signed (from_bytes en (firstn (Z.to_nat 8) (skipn (Z.to_nat off) buf))) 8
                        else from_bytes en (firstn (Z.to_nat 8) (skipn (Z.to_nat off) buf))))
       else SThrow)).
    { intro off. unfold chk. destruct (in_buffer buf off 8) eqn:Ein; [|cbn; auto].
      rewrite load_at_in by (try assumption; lia). cbn. auto. }
    destruct (arg_at args 0) as [|off b|z|]; [apply (Hgen 0)|apply (Hgen off)| |]; cbn; auto.
  - (* float32 *)
    rewrite get_offset_fixed by (try assumption; lia).
    assert (Hgen : forall off, refines
      (match chk buf off 4 with
       | inl (off0, _) => match load_at buf off0 4 with
                           | None => MPanic
                           | Some bs => MOk buf (canon_f64 (f32_to_f64_bits (from_bytes en bs)))
                           end
       | inr c => if c =? 0 then MPanic else MThrow c
       end)
      (if in_buffer buf off 4 then
         SOk buf (canon_f64 (f32_to_f64_bits (from_bytes en (firstn (Z.to_nat 4) (skipn (Z.to_nat off) buf)))))
       else SThrow)).
    { intro off. unfold chk. destruct (in_buffer buf off 4) eqn:Ein; [|cbn; auto].
      rewrite load_at_in by (try assumption; lia). cbn. auto. }
    destruct (arg_at args 0) as [|off b|z|]; [apply (Hgen 0)|apply (Hgen off)| |]; cbn; auto.
  - (* double *)
    rewrite get_offset_fixed by (try assumption; lia).
    assert (Hgen : forall off, refines
      (match chk buf off 8 with
       | inl (off0, _) => match load_at buf off0 8 with
                           | None => MPanic
                           | Some bs => MOk buf (canon_f64 (from_bytes en bs))
                           end
       | inr c => if c =? 0 then MPanic else MThrow c
       end)
      (if in_buffer buf off 8 then
         SOk buf (canon_f64 (from_bytes en (firstn (Z.to_nat 8) (skipn (Z.to_nat off) buf))))
       else SThrow)).
    { intro off. unfold chk. destruct (in_buffer buf off 8) eqn:Ein; [|cbn; auto].
      rewrite load_at_in by (try assumption; lia). cbn. auto. }
    destruct (arg_at args 0) as [|off b|z|]; [apply (Hgen 0)|apply (Hgen off)| |]; cbn; auto.
Qed.

(* ---- every registered name ---- *)

(* what must hold of one registration (js name -> go method) for the theorem below to apply *)
Definition registration_ok (reg : string * string) : Prop :=
  let (js, go) := reg in
  match spec_of_name js with
  | None => True            (* not a numeric method (equals, toString, write): other properties *)
  | Some sp =>
    if ms_write sp
    then exists A B, find_w go write_methods = Some (canon_w go sp A B) /\ bounds_hold sp A B = true
    else find_r go read_methods = Some (canon_r go sp) /\ read_ok sp = true
  end.

Theorem registered_method_refines js go buf args :
  In (js, go) registrations -> Forall registration_ok registrations ->
  assoc_s js registrations = Some go ->
  wf_buf buf -> wf_args args ->
  forall sp, spec_of_name js = Some sp ->
  exists m, call_method js buf args = Some m /\
            refines m (if ms_write sp then spec_write sp buf args else spec_read sp buf args).
Proof.
  intros Hin Hall Hassoc Hbuf Hargs sp Hsp.
  pose proof (proj1 (Forall_forall _ _) Hall _ Hin) as Hok. unfold registration_ok in Hok. rewrite Hsp in Hok.
  unfold call_method. rewrite Hassoc.
  destruct (ms_write sp) eqn:Ew.
  - destruct Hok as (A & B & Hf & Hb). rewrite Hf. eexists. split; [reflexivity|].
    apply canon_w_refines; assumption.
  - destruct Hok as (Hf & Hr).
    destruct (find_w go write_methods) as [d|] eqn:Efw.
    + (* a method name cannot be in both tables: decided on the generated lists *)
      exfalso. revert Efw Hf. clear. intros Efw Hf.
      assert (Hdisj : forall g, match find_w g write_methods, find_r g read_methods with Some _, Some _ => False | _, _ => True end).
      { intro g. destruct (find_w g write_methods) as [dw|] eqn:E1; [|exact I].
        destruct (find_r g read_methods) as [dr|] eqn:E2; [|exact I].
        (* the go names of write methods start with 'w', those of read methods with 'r' *)
        assert (Hw : forall l dw', find_w g l = Some dw' -> (forall x, In x l -> exists t, w_go x = String "w"%char t) -> exists t, g = String "w"%char t).
        { induction l as [|x l IH]; intros dw' H Hall; [discriminate|]. cbn [find_w] in H.
          destruct (String.eqb g (w_go x)) eqn:Eg.
          - apply String.eqb_eq in Eg. destruct (Hall x (or_introl eq_refl)) as [t Ht]. exists t. congruence.
          - eapply IH; [exact H|]. intros y Hy. apply Hall. right. exact Hy. }
        assert (Hr : forall l dr', find_r g l = Some dr' -> (forall x, In x l -> exists t, r_go x = String "r"%char t) -> exists t, g = String "r"%char t).
        { induction l as [|x l IH]; intros dr' H Hall; [discriminate|]. cbn [find_r] in H.
          destruct (String.eqb g (r_go x)) eqn:Eg.
          - apply String.eqb_eq in Eg. destruct (Hall x (or_introl eq_refl)) as [t Ht]. exists t. congruence.
          - eapply IH; [exact H|]. intros y Hy. apply Hall. right. exact Hy. }
        destruct (Hw _ _ E1) as [t1 H1].
        { intros x Hx. repeat (destruct Hx as [<-|Hx]; [eexists; reflexivity|]). destruct Hx. }
        destruct (Hr _ _ E2) as [t2 H2].
        { intros x Hx. repeat (destruct Hx as [<-|Hx]; [eexists; reflexivity|]). destruct Hx. }
        rewrite H1 in H2. discriminate. }
      specialize (Hdisj go). rewrite Efw, Hf in Hdisj. exact Hdisj.
    + rewrite Hf. eexists. split; [reflexivity|]. apply canon_r_refines; assumption.
Qed.

Ltac solve_registration :=
  unfold registration_ok; cbv beta iota;
  match goal with
  | |- match spec_of_name ?js with _ => _ end =>
    let r := eval vm_compute in (spec_of_name js) in
    change (spec_of_name js) with r; cbv beta iota
  end;
  match goal with
  | |- True => exact I
  | |- exists A B, _ => first [ exists (EInt 0), (EInt 0); split; [vm_compute; reflexivity | vm_compute; reflexivity] | do 2 eexists; split; [vm_compute; reflexivity | vm_compute; reflexivity] ]
  | |- _ /\ _ => split; vm_compute; reflexivity
  | |- if ?c then _ else _ => let r := eval vm_compute in c in change c with r; cbv beta iota;
        match goal with
        | |- exists A B, _ => first [ exists (EInt 0), (EInt 0); split; [vm_compute; reflexivity | vm_compute; reflexivity] | do 2 eexists; split; [vm_compute; reflexivity | vm_compute; reflexivity] ]
        | |- _ /\ _ => split; vm_compute; reflexivity
        end
  end.

Theorem all_registrations_ok : Forall registration_ok registrations.
Proof.
  unfold registrations. repeat (apply Forall_cons; [solve_registration|]). apply Forall_nil.
Qed.
