(* Spec/NodeResolve.v — the Node.js CommonJS resolution algorithm as the manual states it (modules.html, "All together"),
   restricted to what the property claims: no "exports"/"imports", no global folders, no request ending in '/'. *)
From GN Require Import Common.Base Model.Paths Model.Require.
Open Scope Z_scope.

Section Spec.
Variable fs : fsys.

Inductive sres := SFile (p : zs) | SNotFound | SIOError (p : zs).

(* a candidate module file: present, absent, or the loader fails on it *)
Definition probe (p : path) : sres :=
  match fs_get fs (render p) with
  | None => SNotFound
  | Some FErr => SIOError (render p)
  | Some _ => SFile (render p)
  end.

Fixpoint first_hit (cs : list path) : sres :=
  match cs with
  | [] => SNotFound
  | c :: r => match probe c with SNotFound => first_hit r | x => x end
  end.

(* LOAD_AS_FILE(X): X, X.js, X.json *)
Definition LOAD_AS_FILE (x : path) : list path := [x; append_ext x ext_js; append_ext x ext_json].
(* LOAD_INDEX(X): X/index.js, X/index.json *)
Definition LOAD_INDEX (x : path) : list path := [pjoin1 x index_js; pjoin1 x index_json].
(* LOAD_AS_DIRECTORY(X): package.json "main" (truthy) -> LOAD_AS_FILE(M), LOAD_INDEX(M); else LOAD_INDEX(X) *)
Definition LOAD_AS_DIRECTORY (x : path) : list path :=
  match fs_get fs (render (pjoin1 x package_json)) with
  | Some (FPkg (Some main)) => let m := pjoin (Some x) main in LOAD_AS_FILE m ++ LOAD_INDEX m
  | _ => LOAD_INDEX x
  end.

(* NODE_MODULES_PATHS(START): let PARTS = path split(START); for I = count of PARTS - 1 down to 0:
   if PARTS[I] = "node_modules" continue; DIR = path join(PARTS[0 .. I] + "node_modules"); append DIR — nearest first.
   The parts are kept in reverse (PARTS[I] first), so the loop over I is structural recursion. *)
Fixpoint nm_paths_rev (rparts : list zs) : list (list zs) :=
  (if zs_eqb (hd [] rparts) node_modules then [] else [node_modules :: rparts]) ++
  match rparts with
  | [] => []
  | _ :: r => nm_paths_rev r
  end.

Definition NODE_MODULES_PATHS (start : path) : list path :=
  map (fun rs => {| rooted := rooted start; segs := rev rs |}) (nm_paths_rev (rev (segs start))).

(* LOAD_NODE_MODULES(X, START) *)
Definition LOAD_NODE_MODULES (x : zs) (start : path) : list path :=
  flat_map (fun dir => let t := pjoin (Some dir) x in LOAD_AS_FILE t ++ LOAD_AS_DIRECTORY t) (NODE_MODULES_PATHS start).

(* require(X) from a module in directory Y (core/native names are C15) *)
Definition spec_resolve (y : path) (x : zs) : sres :=
  if is_file_or_dir_path x then
    let t := pjoin (if is_abs x then None else Some y) x in
    first_hit (LOAD_AS_FILE t ++ LOAD_AS_DIRECTORY t)
  else first_hit (LOAD_NODE_MODULES x y).

End Spec.

(* what the model's candidate list selects *)
Fixpoint select (fs : fsys) (cs : list cand) : sres :=
  match cs with
  | [] => SNotFound
  | CPkg _ :: r => select fs r
  | CMod p :: r => match probe fs p with SNotFound => select fs r | x => x end
  end.

Definition model_resolve (fs : fsys) (y : path) (x : zs) : sres :=
  if is_file_or_dir_path x then select fs (cands_file_or_dir fs (pjoin (if is_abs x then None else Some y) x))
  else select fs (cands_node fs y x).
