(* Spec/FormatSpec.v — Node's util.format restricted to %s %d %j %%, read off the property statement. *)
From GN Require Import Common.Base.

Section Spec.
Variable arg : Type.
Variables str num json : arg -> zs.

Definition directive (c : Z) : option (arg -> zs) :=
  if c =? 115 then Some str else if c =? 100 then Some num else if c =? 106 then Some json else None.

(* Every character that is not part of a recognised directive is copied unchanged ('%' at the very end or before an
   unknown letter included); %s %d %j take the next unused argument; %% is % when arguments are present; a directive
   with no argument left stays as it is. Returns the text and the unused arguments. *)
Fixpoint spec_scan (has_args : bool) (f : zs) (rest : list arg) : zs * list arg :=
  match f with
  | [] => ([], rest)
  | x :: f1 =>
    if x =? 37 then
      match f1 with
      | [] => ([37], rest)
      | c :: f2 =>
        if c =? 37 then
          let '(o, r) := spec_scan has_args f2 rest in
          ((if has_args then [37] else [37; 37]) ++ o, r)
        else
          match directive c, rest with
          | Some cv, a :: rest' => let '(o, r) := spec_scan has_args f2 rest' in (cv a ++ o, r)
          | _, _ => let '(o, r) := spec_scan has_args f2 rest in (37 :: c :: o, r)
          end
      end
    else let '(o, r) := spec_scan has_args f1 rest in (x :: o, r)
  end.

Definition spec_format (f : zs) (args : list arg) : zs :=
  let '(o, rest) := spec_scan (match args with [] => false | _ => true end) f args in
  o ++ flat_map (fun a => 32 :: str a) rest.

End Spec.
