(* Spec/Rfc3986.v — reference resolution as prescribed by RFC 3986 section 5.2, on components, with the string-level
   parser (appendix B) and recomposition (5.3) so that the normative examples of section 5.4 can be checked. *)
From GN Require Import Common.Base.
Open Scope Z_scope.

Definition seg := zs.
Definition dot : seg := [46].
Definition dotdot : seg := [46; 46].
Definition is_dot (s : seg) : bool := zs_eqb s dot.
Definition is_dotdot (s : seg) : bool := zs_eqb s dotdot.

(* a path: empty, or '/' followed by segments joined with '/', or (references only) segments without the leading '/' *)
Inductive rpath := PEmpty | PAbs (s : list seg) | PRel (s : list seg).

Record comps := mkC { c_scheme : option zs; c_auth : option zs; c_path : rpath; c_query : option zs; c_frag : option zs }.

(* 5.2.4 remove_dot_segments on an absolute path: a complete path segment "." is dropped, ".." also removes the
   preceding segment (if any); when the last segment is "." or ".." the result ends with '/' *)
Fixpoint rds_stack (stack : list seg) (segs : list seg) : list seg :=
  match segs with
  | [] => stack
  | s :: r =>
    if is_dot s then rds_stack stack r
    else if is_dotdot s then rds_stack (removelast stack) r
    else rds_stack (stack ++ [s]) r
  end.
Definition ends_with_dot (segs : list seg) : bool :=
  match rev segs with s :: _ => is_dot s || is_dotdot s | [] => false end.
Definition rds (segs : list seg) : list seg :=
  let st := rds_stack [] segs in
  if ends_with_dot segs then st ++ [[]] else match st with [] => [[]] | _ => st end.

(* 5.2.3 merge *)
Definition merge (base_has_auth : bool) (b : rpath) (r : list seg) : list seg :=
  match b with
  | PAbs bs => removelast bs ++ r
  | _ => r          (* empty base path (with authority): "/" + reference *)
  end.

(* 5.2.2 transform references (strict) *)
Definition rds_path (p : rpath) : rpath :=
  match p with PAbs s => PAbs (rds s) | PRel s => PRel s (* rootless path after a scheme: kept *) | PEmpty => PEmpty end.

Definition transform (B R : comps) : comps :=
  match c_scheme R with
  | Some _ => mkC (c_scheme R) (c_auth R) (rds_path (c_path R)) (c_query R) (c_frag R)
  | None =>
    match c_auth R with
    | Some _ => mkC (c_scheme B) (c_auth R) (rds_path (c_path R)) (c_query R) (c_frag R)
    | None =>
      match c_path R with
      | PEmpty => mkC (c_scheme B) (c_auth B) (c_path B) (match c_query R with Some q => Some q | None => c_query B end) (c_frag R)
      | PAbs s => mkC (c_scheme B) (c_auth B) (PAbs (rds s)) (c_query R) (c_frag R)
      | PRel s => mkC (c_scheme B) (c_auth B) (PAbs (rds (merge (match c_auth B with Some _ => true | None => false end) (c_path B) s))) (c_query R) (c_frag R)
      end
    end
  end.

(* ---- strings: appendix B parsing, 5.3 recomposition ---- *)
Fixpoint split_seg (s : zs) : list seg :=       (* split on '/' *)
  match s with
  | [] => [[]]
  | c :: r => if c =? 47 then [] :: split_seg r
              else match split_seg r with x :: xs => (c :: x) :: xs | [] => [[c]] end
  end.
Fixpoint join_seg (l : list seg) : zs :=
  match l with [] => [] | [x] => x | x :: r => x ++ 47 :: join_seg r end.

Fixpoint cut (ch : Z) (s : zs) : zs * option zs :=
  match s with
  | [] => ([], None)
  | c :: r => if c =? ch then ([], Some r) else let '(a, b) := cut ch r in (c :: a, b)
  end.
(* the scheme: letters/digits/+-. up to the first ':', provided no '/', '?' or '#' comes before it *)
Definition is_scheme_char (c : Z) : bool :=
  ((65 <=? c) && (c <=? 90)) || ((97 <=? c) && (c <=? 122)) || ((48 <=? c) && (c <=? 57)) || (c =? 43) || (c =? 45) || (c =? 46).
Definition split_scheme (s : zs) : option zs * zs :=
  match cut 58 s with
  | (pre, Some rest) => match pre with [] => (None, s) | _ => if forallb is_scheme_char pre then (Some pre, rest) else (None, s) end
  | (_, None) => (None, s)
  end.
Definition cut_any (stops : list Z) (s : zs) : zs * zs :=
  (fix go (s : zs) : zs * zs := match s with [] => ([], []) | c :: r => if existsb (Z.eqb c) stops then ([], s) else let '(a, b) := go r in (c :: a, b) end) s.

Definition parse_path (p : zs) : rpath :=
  match p with [] => PEmpty | 47 :: r => PAbs (split_seg r) | _ => PRel (split_seg p) end.

Definition parse_ref (s : zs) : comps :=
  let '(nofrag, frag) := cut 35 s in
  let '(noq, q) := cut 63 nofrag in
  let '(sch, rest) := split_scheme noq in
  match rest with
  | 47 :: 47 :: r => let '(auth, p) := cut_any [47] r in mkC sch (Some auth) (parse_path p) q frag
  | _ => mkC sch None (parse_path rest) q frag
  end.

Definition path_str (p : rpath) : zs :=
  match p with PEmpty => [] | PAbs s => 47 :: join_seg s | PRel s => join_seg s end.
Definition recompose (c : comps) : zs :=
  (match c_scheme c with Some s => s ++ [58] | None => [] end) ++
  (match c_auth c with Some a => 47 :: 47 :: a | None => [] end) ++
  path_str (c_path c) ++
  (match c_query c with Some q => 63 :: q | None => [] end) ++
  (match c_frag c with Some f => 35 :: f | None => [] end).

Definition resolve_str (base ref : zs) : zs := recompose (transform (parse_ref base) (parse_ref ref)).
