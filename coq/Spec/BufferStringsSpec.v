(* Spec/BufferStringsSpec.v — Node semantics of the string entry points, written with list combinators *)
From GN Require Import Common.Base Common.Int64 Model.BufferTypes Gen.BufferMethods Model.Buffer Model.Codecs Gen.BufferCodecs Model.BufferStrings.
Open Scope list_scope.
Open Scope Z_scope.

Definition clamp (x len : Z) : Z := Z.max 0 (Z.min x len).

(* bytes s' .. e'-1 of the buffer, empty when reversed *)
Definition subrange (bb : list Z) (s e : Z) : list Z :=
  firstn (Z.to_nat (e - s)) (skipn (Z.to_nat s) bb).

(* start: undefined or a non-number counts as 0; end: undefined is the length, a non-number is 0 *)
Definition num_or (a : jsarg) (undef other : Z) : Z :=
  match a with ANum v _ => v | AUndef => undef | _ => other end.

Definition spec_to_string (c : codec) (bb : list Z) (a_start a_end : jsarg) : list Z :=
  let len := Z.of_nat (List.length bb) in
  codec_encode c (subrange bb (clamp (num_or a_start 0 0) len) (clamp (num_or a_end len 0) len)).

(* the n-th byte of a buffer filled with a pattern *)
Definition cyclic (p : list Z) (n : nat) : list Z :=
  map (fun i => nth (Nat.modulo i (List.length p)) p 0) (seq 0 n).
