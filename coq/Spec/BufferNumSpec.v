(* Spec/BufferNumSpec.v — what Node documents for the numeric Buffer methods, by JavaScript method name.
   Independent of Gen: the table below is written from the Node API, not from the source under verification. *)
From GN Require Import Common.Base Common.Int64 Model.BufferTypes Model.Buffer.
From Coq Require Import String.
Open Scope string_scope.
Open Scope list_scope.
Open Scope Z_scope.

Inductive nkind :=
| KInt (signed : bool) (w : Z)     (* 8/16/32-bit *)
| KVar (signed : bool)             (* 1..6 bytes, byteLength argument *)
| KBig (signed : bool)             (* 64-bit BigInt *)
| KFloat | KDouble.

Record mspec := { ms_write : bool; ms_kind : nkind; ms_end : endian }.

Definition mk (wr : bool) (k : nkind) (e : endian) := {| ms_write := wr; ms_kind := k; ms_end := e |}.

Definition base_table : list (string * (nkind * endian)) := [
  ("Int8", (KInt true 1, BE)); ("UInt8", (KInt false 1, BE));
  ("Int16BE", (KInt true 2, BE)); ("Int16LE", (KInt true 2, LE)); ("UInt16BE", (KInt false 2, BE)); ("UInt16LE", (KInt false 2, LE));
  ("Int32BE", (KInt true 4, BE)); ("Int32LE", (KInt true 4, LE)); ("UInt32BE", (KInt false 4, BE)); ("UInt32LE", (KInt false 4, LE));
  ("IntBE", (KVar true, BE)); ("IntLE", (KVar true, LE)); ("UIntBE", (KVar false, BE)); ("UIntLE", (KVar false, LE));
  ("BigInt64BE", (KBig true, BE)); ("BigInt64LE", (KBig true, LE)); ("BigUInt64BE", (KBig false, BE)); ("BigUInt64LE", (KBig false, LE));
  ("FloatBE", (KFloat, BE)); ("FloatLE", (KFloat, LE)); ("DoubleBE", (KDouble, BE)); ("DoubleLE", (KDouble, LE));
  (* the Uint spellings are aliases *)
  ("Uint8", (KInt false 1, BE)); ("Uint16BE", (KInt false 2, BE)); ("Uint16LE", (KInt false 2, LE));
  ("Uint32BE", (KInt false 4, BE)); ("Uint32LE", (KInt false 4, LE)); ("UintBE", (KVar false, BE)); ("UintLE", (KVar false, LE));
  ("BigUint64BE", (KBig false, BE)); ("BigUint64LE", (KBig false, LE))
].

Definition spec_table : list (string * mspec) :=
  map (fun p => (String.append "read" (fst p), mk false (fst (snd p)) (snd (snd p)))) base_table ++
  map (fun p => (String.append "write" (fst p), mk true (fst (snd p)) (snd (snd p)))) base_table.

Definition spec_of_name (n : string) : option mspec := assoc_s n spec_table.

Inductive sout :=
| SOk (buf : list Z) (r : jsres)
| SThrow.      (* a RangeError or a TypeError, buffer unchanged *)

Definition width_of (k : nkind) (bl : Z) : Z :=
  match k with KInt _ w => w | KVar _ => bl | KBig _ => 8 | KFloat => 4 | KDouble => 8 end.

Definition int_representable (signed : bool) (w v : Z) : bool :=
  if signed then (- 2 ^ (8 * w - 1) <=? v) && (v <? 2 ^ (8 * w - 1)) else (0 <=? v) && (v <? 2 ^ (8 * w)).

(* two's-complement / IEEE-754 bytes of the value, most significant first for BE *)
Definition enc_bytes (e : endian) (u w : Z) : list Z := bytes_of e (u mod 2 ^ (8 * w)) w.

(* offset (and byteLength): Some (off, w) or None = must throw *)
Definition spec_offset (k : nkind) (args : list jsarg) (first : nat) : option (Z * Z) :=
  match k with
  | KVar _ =>
    match arg_at args first, arg_at args (S first) with
    | ANum off _, ANum bl _ => if (1 <=? bl) && (bl <=? 6) then Some (off, bl) else None
    | _, _ => None
    end
  | _ =>
    match arg_at args first with
    | AUndef => Some (0, width_of k 0)
    | ANum off _ => Some (off, width_of k 0)
    | _ => None
    end
  end.

Definition in_buffer (buf : list Z) (off w : Z) : bool := (0 <=? off) && (off + w <=? Z.of_nat (List.length buf)).

Definition splice (buf : list Z) (off : Z) (bs : list Z) : list Z :=
  firstn (Z.to_nat off) buf ++ bs ++ skipn (Z.to_nat (off + Z.of_nat (List.length bs))) buf.

Definition spec_write (sp : mspec) (buf : list Z) (args : list jsarg) : sout :=
  match spec_offset (ms_kind sp) args 1 with
  | None => SThrow
  | Some (off, w) =>
    let bytes :=
      match ms_kind sp, arg_at args 0 with
      | KInt sg _, ANum v _ | KVar sg, ANum v _ => if int_representable sg w v then Some (enc_bytes (ms_end sp) v w) else None
      | KBig sg, ABig z => if int_representable sg 8 z then Some (enc_bytes (ms_end sp) z 8) else None
      | KDouble, ANum _ b => Some (bytes_of (ms_end sp) b 8)
      | KFloat, ANum _ b => if f64_exceeds_f32 b then None else Some (bytes_of (ms_end sp) (f64_to_f32_bits b) 4)
      | _, _ => None
      end in
    match bytes with
    | Some bs => if in_buffer buf off w then SOk (splice buf off bs) (RInt (off + w)) else SThrow
    | None => SThrow
    end
  end.

Definition spec_read (sp : mspec) (buf : list Z) (args : list jsarg) : sout :=
  match spec_offset (ms_kind sp) args 0 with
  | None => SThrow
  | Some (off, w) =>
    if in_buffer buf off w then
      let u := from_bytes (ms_end sp) (firstn (Z.to_nat w) (skipn (Z.to_nat off) buf)) in
      SOk buf (match ms_kind sp with
               | KInt sg _ | KVar sg => RInt (if sg then to_signed u w else u)
               | KBig sg => RBig (if sg then to_signed u 8 else u)
               | KDouble => canon_f64 u
               | KFloat => canon_f64 (f32_to_f64_bits u)
               end)
    else SThrow
  end.

Definition spec_call (name : string) (buf : list Z) (args : list jsarg) : option sout :=
  match spec_of_name name with
  | None => None
  | Some sp => Some (if ms_write sp then spec_write sp buf args else spec_read sp buf args)
  end.
