(* Spec/SearchParamsSpec.v — the WHATWG URLSearchParams list, written with list combinators. *)
From GN Require Import Common.Base Model.SearchParams.

(* delete(name): remove all pairs whose name is name; delete(name, value): whose name and value match *)
Definition spec_delete (name : zs) (l : plist) : plist := filter (fun p => negb (zs_eqb (fst p) name)) l.
Definition spec_delete_nv (name value : zs) (l : plist) : plist :=
  filter (fun p => negb (zs_eqb (fst p) name && zs_eqb (snd p) value)) l.

(* set(name, value): if there is a pair with that name, set the first one's value and remove the others; else append *)
Fixpoint spec_set_first (name value : zs) (l : plist) : plist :=
  match l with
  | [] => []
  | p :: r => if zs_eqb (fst p) name then (fst p, value) :: spec_delete name r else p :: spec_set_first name value r
  end.

Definition spec_set (name value : zs) (l : plist) : plist :=
  if existsb (fun p => zs_eqb (fst p) name) l then spec_set_first name value l else l ++ [(name, value)].

Definition spec_step (s : spstate) (o : op) : spstate * obs :=
  match o with
  | ODelete n => (with_items s (spec_delete n (items s)), BNone)
  | ODeleteNV n v => (with_items s (spec_delete_nv n v (items s)), BNone)
  | OSet n v => (with_items s (spec_set n v (items s)), BNone)
  | _ => step s o     (* append, sort (stable), getters, live-index iterators: the definitions coincide *)
  end.

Fixpoint spec_run (s : spstate) (ops : list op) : list obs :=
  match ops with
  | [] => []
  | o :: r => let '(s', b) := spec_step s o in b :: spec_run s' r
  end.

(* "stable, by name" *)
Fixpoint sorted_by_name (l : plist) : Prop :=
  match l with
  | [] => True
  | p :: r => (forall q, In q r -> zs_ltb (sort_key q) (sort_key p) = false) /\ sorted_by_name r
  end.

(* the parser must never see these bytes raw in a serialised name or value: % + & = ?  *)
Definition special (c : Z) : bool := (c =? 37) || (c =? 43) || (c =? 38) || (c =? 61) || (c =? 63).

Definition table_ok (tbl : list Z) : bool :=
  Nat.eqb (length tbl) 128 &&
  forallb (fun c => (nth (Z.to_nat c) tbl 0 =? 0) || negb (special c)) (map Z.of_nat (seq 0 128)).

(* WHATWG application/x-www-form-urlencoded parsing, as the standard phrases it: split on '&', skip empty
   sequences, split at the first '=', replace '+' by space, then percent-decode (valid %XX only). *)
Definition plus_to_space (s : zs) : zs := map (fun c => if c =? 43 then 32 else c) s.

Fixpoint pct_decode (s : zs) : zs :=
  match s with
  | [] => []
  | c :: r =>
    if c =? 37 then
      match r with
      | a :: b :: r2 => if ishex a && ishex b then (unhex a * 16 + unhex b) :: pct_decode r2 else 37 :: pct_decode r
      | _ => 37 :: pct_decode r
      end
    else c :: pct_decode r
  end.

Definition whatwg_piece (v : zs) : option pair :=
  match v with
  | [] => None
  | _ => let '(n, x) := match cut_at 61 v with Some nx => nx | None => (v, []) end in
         Some (pct_decode (plus_to_space n), pct_decode (plus_to_space x))
  end.

Definition whatwg_parse (q : zs) : plist :=
  filter_map whatwg_piece (split_on 38 (trim_q q)).   (* one leading '?' is dropped *)
