(* Properties/C05.v — timers: never early (arithmetic), at most once, never after being cleared. *)
From GN Require Import Common.Base Common.Int64 Model.Loop Model.LoopSrc Model.LoopTime Gen.LoopSkeleton
  Proofs.LoopFrame Proofs.LoopCtl Proofs.LoopTimers Proofs.LoopInv Proofs.LoopProps Proofs.LoopTime Cases.LoopCheck Proofs.LoopReplay.
From GN Require Import Proofs.LoopProgress.
Open Scope Z_scope.

Theorem C05_one_shot_at_most_once : forall k s t, reach k s -> In t (timers s) -> tj_kind t <> TInterval -> (tj_calls t <= 1)%nat.
Proof. exact one_shot_at_most_once. Qed.
Print Assumptions C05_one_shot_at_most_once.

(* once fired or cleared, the callback of a job never runs again, whatever follows (Stop/Start/Terminate included) *)
Theorem C05_cancelled_never_runs_again : forall k s l s' id t,
  reach k s -> run_evs k s l = Some s' -> find_t (timers s) id = Some t -> tj_cancelled t = true ->
  exists t', find_t (timers s') id = Some t' /\ tj_cancelled t' = true /\ tj_calls t' = tj_calls t.
Proof. exact cancelled_never_runs_again. Qed.
Print Assumptions C05_cancelled_never_runs_again.

Theorem C05_clear_cancels : forall s id st s' t, do_clear s id st = Some s' -> find_t (timers s) id = Some t ->
  exists t', find_t (timers s') id = Some t' /\ tj_cancelled t' = true.
Proof. exact clear_cancels. Qed.
Print Assumptions C05_clear_cancels.

Theorem C05_clear_harmless : forall s id s', do_clear s id false = Some s' ->
  (find_t (timers s) id = None \/ exists t, find_t (timers s) id = Some t /\ tj_cancelled t = true) -> s' = s.
Proof. exact clear_idempotent. Qed.
Print Assumptions C05_clear_harmless.

Theorem C05_live_timeout_registered : forall k s t, reach k s -> In t (timers s) -> tj_kind t = TTimeout -> tj_cancelled t = false -> In (tj_id t) (jobs s).
Proof. exact live_timeout_registered. Qed.
Print Assumptions C05_live_timeout_registered.

(* never early: the duration a timeout is armed with is the requested number of milliseconds, saturating (never wrapping) *)
Theorem C05_delay_exact : forall ms, in64 ms -> ms_to_duration ms = saturate (ms * 1000000).
Proof. exact ms_to_duration_spec. Qed.
Print Assumptions C05_delay_exact.

Theorem C05_delay_never_shorter : forall ms, in64 ms -> 0 <= ms ->
  0 <= ms_to_duration ms /\ (ms * 1000000 <= max64 -> ms_to_duration ms = ms * 1000000) /\ (ms * 1000000 > max64 -> ms_to_duration ms = max64).
Proof. exact ms_to_duration_never_shorter. Qed.
Print Assumptions C05_delay_never_shorter.

Theorem C05_interval_period : forall d, 0 < interval_period d /\ d <= interval_period d.
Proof. exact interval_period_positive. Qed.
Print Assumptions C05_interval_period.

Theorem C05_time_source : loop_time_translated = true.
Proof. exact loop_time_source. Qed.
Print Assumptions C05_time_source.

(* "a timeout that is not cleared does run provided the loop keeps running", possibility form: in every reachable state in
   which the run thread is at the head of its loop, a timeout that was set and has neither fired nor been cleared keeps run()
   from leaving (the live-job count is positive: run_leave is not enabled) and can be served at once - its expiry, the select's
   job arm, the delivery through jobChan and the call are all enabled, and running them starts its callback. (That the select
   does take the job arm eventually is Go's select fairness; real time is outside the model.) *)
Theorem C05_live_timeout_can_run : forall k s id t,
  reach k s -> phase s = LHead -> find_t (timers s) id = Some t -> tj_kind t = TTimeout -> tj_cancelled t = false -> tj_h t <> HDone ->
  step k s run_leave 0 0 = None /\
  exists s', run_evs k s ((if match tj_h t with HArmed => true | _ => false end then [EP timer_fire id 0] else []) ++
                          [EP run_select 0 2; EE e_delivered_timeout id 0 0; EP arm_job 0 0]) = Some s' /\
             cbs s' = cbs s ++ [id] /\ phase s' = LHead.
Proof. exact live_timeout_can_run. Qed.
Print Assumptions C05_live_timeout_can_run.

(* the whole path from the script's delay argument to the armed duration (delayMillis after ToNumber: rounded up, saturating;
   then msToDuration): for every finite non-negative delay n/d milliseconds - fractional, huge, given as a number, a string
   or an object - the timer is armed for at least that long, or for the largest duration there is *)
Theorem C05_delay_never_early : forall n d, 0 < d -> 0 <= n ->
  let armed := ms_to_duration (delay_millis (Some (n, d))) in
  armed * d >= n * 1000000 \/ armed = max64.
Proof. exact delay_never_early. Qed.
Print Assumptions C05_delay_never_early.

Example C05_delay_examples :
  ms_to_duration (delay_millis (Some (19, 10))) = 2000000 /\                         (* 1.9 ms -> 2 ms *)
  ms_to_duration (delay_millis (Some (99, 100))) = 1000000 /\                        (* 0.99 ms -> 1 ms *)
  ms_to_duration (delay_millis (Some (10 ^ 30, 1))) = max64 /\                       (* "1e30" *)
  ms_to_duration (delay_millis (Some (18446744073710, 1))) = max64 /\                (* the product wraps past 2^64 *)
  ms_to_duration (delay_millis None) = 0.                                            (* NaN *)
Proof. vm_compute. repeat split; reflexivity. Qed.

(* the text of eventloop/eventloop.go, and the order of its synchronisation points, are what the model was written against *)
Theorem C05_source_tie : loop_funcs = expected_loop_funcs /\ loop_points = expected_loop_points.
Proof. exact (conj loop_source_unchanged loop_points_unchanged). Qed.
Print Assumptions C05_source_tie.

(* the hypotheses are met by real executions: the harness's set-up state is reachable *)
Theorem C05_reach_nonvacuous : forall k, reach k init_after_setup.
Proof. exact setup_reach. Qed.
Print Assumptions C05_reach_nonvacuous.

(* a controlled execution of the real loop whose log replays without difference ends in a reachable state of the model:
   the theorems above apply to the executions the harness observes *)
Theorem C05_checker_sound : forall k l s m, replay k init_after_setup mon0 l 0 = (s, m) -> m_diff m = None -> reach k s.
Proof. exact replayed_state_reachable. Qed.
Print Assumptions C05_checker_sound.
