(* Properties/C18.v — callback order seen by JavaScript: promise reactions first, immediates in request order, throws
   isolated. The machine of Model/JsOrder.v leaves the firing order of timers free; `accept` is the judge applied to the
   logs of the real loop. *)
From GN Require Import Common.Base Model.Loop Model.LoopSrc Gen.LoopSkeleton Proofs.LoopTime
  Proofs.LoopFrame Proofs.LoopCtl Proofs.LoopTimers Proofs.LoopInv Proofs.LoopProps.
From GN Require Import Model.JsOrder Proofs.JsOrderProofs.
Open Scope nat_scope.

(* for every program and every schedule of timers: the immediates that ran, followed by those still waiting, are the
   requests in request order (minus those cleared while waiting) — so one requested from inside an immediate runs after
   all requested before it *)
Theorem C18_immediates_fifo : forall p fuel sched s,
  run p fuel (boot p fuel) sched = Some s -> imm_ran s ++ imm s = imm_req s /\ NoDup (imm_req s).
Proof. exact immediates_fifo. Qed.
Print Assumptions C18_immediates_fifo.

(* a timer or immediate callback starts only when every promise reaction queued so far, transitively, has run *)
Theorem C18_reactions_before_next_macro : forall p fuel s c s',
  J s -> macro p fuel s c = Some s' -> micro s = [] /\ micro_ran s = micro_req s.
Proof. exact reactions_before_next_macro. Qed.
Print Assumptions C18_reactions_before_next_macro.

Theorem C18_reactions_fifo : forall p fuel sched s, run p fuel (boot p fuel) sched = Some s -> micro_ran s ++ micro s = micro_req s.
Proof. exact reactions_fifo. Qed.
Print Assumptions C18_reactions_fifo.

(* the rest of the current synchronous block runs first: a callback body executes completely (up to a throw) before
   anything it queued; a throw skips the rest of its own body only, and removes nothing that was queued *)
Theorem C18_throw_skips_only_its_body : forall s pre post, exec_body s (pre ++ AThrow :: post) = exec_body s pre.
Proof. exact throw_skips_the_rest. Qed.
Print Assumptions C18_throw_skips_only_its_body.

Theorem C18_body_keeps_queued : forall b s,
  incl (micro s) (micro (exec_body s b)) /\
  (forall x, In x (imm s) -> In x (imm (exec_body s b)) \/ In (AClearImmediate x) b) /\
  (forall x, In x (timers s) -> In x (timers (exec_body s b)) \/ In (AClearTimer x) b).
Proof. exact body_keeps_queued. Qed.
Print Assumptions C18_body_keeps_queued.

(* a log the judge accepts is the log of an execution with all of the above *)
Theorem C18_accepted_log_ordered : forall p obs, accepts p obs = true ->
  exists s, log s = obs /\ micro s = [] /\ imm s = [] /\ micro_ran s = micro_req s /\ imm_ran s = imm_req s /\ NoDup (imm_req s).
Proof. exact accepted_log_ordered. Qed.
Print Assumptions C18_accepted_log_ordered.

(* in the loop itself immediates travel through the FIFO queue of C04 *)
Theorem C18_immediates_use_the_fifo_queue : forall k s, reach k s -> Loop.executed s ++ Loop.batch s ++ Loop.aux s = Loop.accepted s.
Proof. exact queue_is_history. Qed.
Print Assumptions C18_immediates_use_the_fifo_queue.

Theorem C18_source_tie : loop_funcs = expected_loop_funcs.
Proof. exact loop_source_unchanged. Qed.
Print Assumptions C18_source_tie.

Example C18_nonvacuous :
  let p := [[AImmediate 1; AMicro 2; ATimer 3; AImmediate 4; AThrow; AMicro 5]; [AMicro 6; AImmediate 7]; [AMicro 8]; []; [AClearTimer 3]; []; []; []; []] in
  accepts p [0; 2; 8; 1; 6; 4; 7] = true /\ accepts p [0; 2; 8; 1; 6; 3; 4; 7] = true /\
  accepts p [0; 1; 2; 8; 6; 4; 7] = false /\ accepts p [0; 2; 8; 4; 1; 6; 7] = false /\ accepts p [0; 2; 8; 1; 6; 4; 7; 3] = false.
Proof. vm_compute. repeat split. Qed.
