(* Properties/C14.v — new URL(reference, base) denotes the URL RFC 3986 section 5.2 prescribes (against the normalised
   base, with the path of a special URL never empty), on paths built from ordinary segments. *)
From GN Require Import Common.Base Spec.Rfc3986 Spec.Rfc3986Examples Model.UrlResolve Proofs.UrlResolveProofs Gen.UrlGlue Model.UrlSrc.
Open Scope Z_scope.

(* for every base and reference whose paths have no empty segment except a trailing one: the constructor's pipeline
   (cleanPath on the base and on non-relative references, net/url's ResolveReference with its own case analysis, the
   fragment rule, the final fixURL) chooses scheme, authority, path, query and fragment as RFC 3986 5.2.2 does, with dot
   segments removed and a trailing slash preserved *)
Theorem C14_resolve_is_rfc3986 : forall B R, wf_base B -> wf_ref R -> impl_resolve B R = spec_resolve B R.
Proof. exact impl_is_rfc. Qed.
Print Assumptions C14_resolve_is_rfc3986.

(* cleanPath (path.Clean + the trailing-slash rule) is remove_dot_segments on ordinary paths *)
Theorem C14_clean_is_remove_dot_segments : forall segs, dom segs -> segs <> [] -> clean_segs segs = rds segs.
Proof. exact clean_is_rds. Qed.
Print Assumptions C14_clean_is_remove_dot_segments.

(* normalisation is stable: resolving twice, or parsing the result again, changes nothing in the path *)
Theorem C14_remove_dots_idempotent : forall segs, rds (rds segs) = rds segs.
Proof. exact rds_idempotent. Qed.
Print Assumptions C14_remove_dots_idempotent.

Theorem C14_ordinary_paths_closed : forall segs, dom segs -> dom (rds segs).
Proof. exact rds_dom. Qed.
Print Assumptions C14_ordinary_paths_closed.

(* the specification reproduces all 42 normative examples of RFC 3986 section 5.4 *)
Theorem C14_rfc_examples : forallb (fun e => zs_eqb (resolve_str rfc_base (fst e)) (snd e)) rfc_examples = true.
Proof. exact rfc3986_section_5_4. Qed.
Print Assumptions C14_rfc_examples.

Theorem C14_source_tie : url_funcs = expected_url_funcs.
Proof. exact url_source_unchanged. Qed.
Print Assumptions C14_source_tie.

Example C14_nonvacuous :
  let B := parse_ref [104;116;116;112;58;47;47;97;47;98;47;99;47;100;59;112;63;113] in       (* http://a/b/c/d;p?q *)
  let R := parse_ref [46;46;47;103;47;46;47;104;47] in                                         (* ../g/./h/ *)
  (exists s a, c_scheme B = Some s /\ c_auth B = Some a) /\
  recompose (impl_resolve B R) = [104;116;116;112;58;47;47;97;47;98;47;103;47;104;47] /\     (* http://a/b/g/h/ *)
  impl_resolve B R = spec_resolve B R.
Proof. vm_compute. repeat split; eauto. Qed.
