(* Properties/C11.v — Buffer string encodings round-trip and every decoding entry point agrees. *)
From GN Require Import Common.Base Common.Int64 Model.BufferTypes Gen.BufferMethods Model.Buffer Model.Codecs Gen.BufferCodecs
  Model.BufferStrings Spec.BufferStringsSpec Proofs.CodecProofs Proofs.BufferStringsProofs.
From GN Require Import Model.BufferSrc.
Open Scope list_scope.
Open Scope Z_scope.

(* for EVERY byte sequence b: decoding what the encoder produced gives b back *)
Theorem C11_hex_rt : forall b, wf_bytes b -> hex_decode (hex_encode b) = b.
Proof. exact hex_roundtrip. Qed.
Print Assumptions C11_hex_rt.

Theorem C11_b64_rt : forall b, wf_bytes b -> b64_decode (b64_encode_std b) = b.
Proof. exact b64_std_roundtrip. Qed.
Print Assumptions C11_b64_rt.

Theorem C11_b64url_rt : forall b, wf_bytes b -> b64_decode (b64_encode_rawurl b) = b.
Proof. exact b64_url_roundtrip. Qed.
Print Assumptions C11_b64url_rt.

(* utf8, whenever b is well-formed UTF-8 (the encoding of some scalar values) *)
Theorem C11_utf8_rt : forall cps, Forall scalar cps -> js_to_go (utf8_decode (utf8_encode cps)) = utf8_encode cps.
Proof. exact utf8_bytes_roundtrip. Qed.
Print Assumptions C11_utf8_rt.

(* hex decoding stops at the first invalid pair *)
Theorem C11_hex_stops : forall b c d rest, wf_bytes b -> (hexdig c = None \/ hexdig d = None) ->
  hex_decode (hex_encode b ++ c :: d :: rest) = b.
Proof. exact hex_stops. Qed.
Print Assumptions C11_hex_stops.

(* toString(enc, start, end) is the encoding of the clamped sub-range for every start and end
   (negative, reversed, huge, undefined, non-numeric), and never traps *)
Theorem C11_toString_clamped : forall bb e c a_start a_end,
  codec_strict e = Some c -> to_string bb e a_start a_end = SStr (spec_to_string c bb a_start a_end).
Proof. exact to_string_clamped. Qed.
Print Assumptions C11_toString_clamped.

(* the fill argument of Buffer.alloc: the decoded pattern repeated; empty pattern -> zeros; never a hang *)
Theorem C11_fill_cyclic : forall size pattern e c,
  codec_strict e = Some c ->
  let b1 := codec_decode c pattern in
  alloc_fill size pattern e = FOk (if Nat.eqb (List.length b1) 0 then repeat 0 size else cyclic b1 size).
Proof. exact alloc_fill_cyclic. Qed.
Print Assumptions C11_fill_cyclic.

(* buf.write stores only whole characters that fit, and as many as fit *)
Theorem C11_write_whole_chars : forall cps l,
  Forall scalar cps -> (l < length (utf8_encode cps))%nat ->
  exists k, firstn (trim_cont (utf8_encode cps) l) (utf8_encode cps) = utf8_encode (firstn k cps).
Proof. exact write_keeps_whole_chars. Qed.
Print Assumptions C11_write_whole_chars.

Theorem C11_write_trim_maximal : forall raw l j, (trim_cont raw l < j <= l)%nat -> cont (nth j raw 0) = true.
Proof. exact write_trim_maximal. Qed.
Print Assumptions C11_write_trim_maximal.

Theorem C11_from_arraylike_mod256 : forall items,
  Forall (fun b => 0 <= b < 256) (from_arraylike items) /\ List.length (from_arraylike items) = List.length items.
Proof. exact from_arraylike_mod256. Qed.
Print Assumptions C11_from_arraylike_mod256.

(* the encoding-name table and the codec delegation are the ones the model assumes *)
Theorem C11_codec_table : buffer_codecs_translated = true /\
  assoc_z [104;101;120] string_codecs = Some CHex /\ assoc_z [117;116;102;56] string_codecs = Some CUtf8 /\
  assoc_z [98;97;115;101;54;52] string_codecs = Some CBase64 /\
  assoc_z [98;97;115;101;54;52;117;114;108] string_codecs = Some CBase64Url.
Proof. repeat split; reflexivity. Qed.
Print Assumptions C11_codec_table.

(* the string entry points the model mirrors (DecodeBytes, EncodeBytes, fromString, getStringCodec, fill, alloc, toString, equals,
   write) have the text the model was written against (regenerated from buffer.go on every run) *)
Theorem C11_source_tie : buffer_strings_src = expected_buffer_strings_src.
Proof. vm_compute. reflexivity. Qed.
Print Assumptions C11_source_tie.

Example C11_nonvacuous :
  b64_decode (b64_encode_std [255; 254; 253; 0; 1]) = [255; 254; 253; 0; 1] /\
  b64_decode [81;85;73;10;45;95;61;61;120] = [65; 66; 62] /\       (* "QUI\n-_==x": both alphabets, a line break, padding, garbage *)
  hex_decode [52;49;122;122;52;50] = [65] /\
  to_string [104;105;33] EUndef (ANum (-5) 0) (ANum 9223372036854775807 0) = SStr [104;105;33] /\
  alloc_fill 5 [97;98] EUndef = FOk [97;98;97;98;97] /\
  trim_cont (utf8_encode [97; 8364]) 2 = 1%nat.
Proof. repeat split; vm_compute; reflexivity. Qed.
