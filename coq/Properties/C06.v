(* Properties/C06.v — Run() returns exactly at quiescence; the live-job count is exact over every history. *)
From GN Require Import Common.Base Common.Int64 Model.Loop Model.LoopSrc Model.LoopTime Gen.LoopSkeleton
  Proofs.LoopFrame Proofs.LoopCtl Proofs.LoopTimers Proofs.LoopInv Proofs.LoopProps Proofs.LoopTime Cases.LoopCheck Proofs.LoopReplay.
Open Scope Z_scope.

(* in every reachable state jobCount is the number of jobs set and neither completed nor cleared, plus one exactly while
   a loop started in the background counts itself *)
Theorem C06_count_exact : forall k s, reach k s -> jobcount s = live s + bgc s.
Proof. exact count_exact. Qed.
Print Assumptions C06_count_exact.

(* the number Stop() returns *)
Theorem C06_stop_returns_live : forall k s a b s', reach k s -> step k s stop_return a b = Some s' -> jobcount s' = live s'.
Proof. exact stop_returns_live_count. Qed.
Print Assumptions C06_stop_returns_live.

(* Run(): at the loop head the exit is taken exactly when no live job remains, and the select exactly when one does *)
Theorem C06_run_leaves_iff_quiescent : forall k s, reach k s -> phase s = LHead -> background s = false ->
  ((exists s', step k s run_leave 0 0 = Some s') <-> live s = 0) /\
  (forall b s', step k s run_select 0 b = Some s' -> 0 < live s).
Proof. exact run_leaves_iff_quiescent. Qed.
Print Assumptions C06_run_leaves_iff_quiescent.

Theorem C06_background_never_quiesces : forall k s, reach k s -> phase s = LHead -> background s = true -> step k s run_leave 0 0 = None.
Proof. exact background_never_quiesces. Qed.
Print Assumptions C06_background_never_quiesces.

(* the text of eventloop/eventloop.go, and the order of its synchronisation points, are what the model was written against *)
Theorem C06_source_tie : loop_funcs = expected_loop_funcs /\ loop_points = expected_loop_points.
Proof. exact (conj loop_source_unchanged loop_points_unchanged). Qed.
Print Assumptions C06_source_tie.

(* the hypotheses are met by real executions: the harness's set-up state is reachable *)
Theorem C06_reach_nonvacuous : forall k, reach k init_after_setup.
Proof. exact setup_reach. Qed.
Print Assumptions C06_reach_nonvacuous.

(* a controlled execution of the real loop whose log replays without difference ends in a reachable state of the model:
   the theorems above apply to the executions the harness observes *)
Theorem C06_checker_sound : forall k l s m, replay k init_after_setup mon0 l 0 = (s, m) -> m_diff m = None -> reach k s.
Proof. exact replayed_state_reachable. Qed.
Print Assumptions C06_checker_sound.
