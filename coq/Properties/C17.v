(* Properties/C17.v — thread-safe APIs and a shared Registry: no data race, compile once, no cross-runtime leak.
   The race-freedom theorems are decided on the access tables regenerated from the source on every run. *)
From Coq Require Import String List Bool Arith.
From GN Require Model.Require Proofs.RequireExtra.
From GN Require Import Gen.LoopAccess Gen.RegistryAccess Model.LoopAccess Model.RegistryShare Proofs.RegistryShareProofs.
From GN Require Import Gen.UtilFormat Model.ConsoleSrc.
From GN Require Import Common.Base Model.Loop Proofs.LoopProps.
Import ListNotations.

(* every pair of accesses to one field of the loop, of a job, a Timer or an Interval, at least one of them a write, is
   ordered: both through sync/atomic, or under a common mutex, or made by the same goroutine (the owner: everything else
   is routed through addAuxJob / jobChan), or one of them precedes the publication of the object *)
Theorem C17_loop_accesses_ordered : race_free loop_access = true.
Proof. exact loop_access_race_free. Qed.
Print Assumptions C17_loop_accesses_ordered.

Theorem C17_race_free_meaning : forall t, race_free t = true -> forall a b, In a t -> In b t -> safe_pair a b = true.
Proof. exact race_free_spec. Qed.
Print Assumptions C17_race_free_meaning.

(* 'the owner' is one goroutine at a time: the thread inside run(), or Terminate once no such thread exists *)
Theorem C17_single_owner : forall k s, reach k s -> tph s <> TNone -> phase s = LNone /\ running s = false.
Proof. exact single_owner. Qed.
Print Assumptions C17_single_owner.

(* the shared Registry: its compile cache is only touched under the registry mutex; the rest is set up before sharing *)
Theorem C17_registry_accesses_ordered : reg_race_free registry_access = true.
Proof. exact registry_access_race_free. Qed.
Print Assumptions C17_registry_accesses_ordered.

(* lookup, load, compilation and store of getCompiledSource form one critical section: concurrent first-time requests are
   served one after the other, which is what makes the sequential model below the model of every interleaving *)
Theorem C17_compile_serialised : getcompiled_locked_throughout = true.
Proof. exact eq_refl. Qed.
Print Assumptions C17_compile_serialised.

(* each source file is fetched and compiled at most once per Registry — exactly once if any runtime asks — in whatever
   order the runtimes' requests are served *)
Theorem C17_loaded_at_most_once : forall ok ps p, ok p = true -> (count_occ Nat.eq_dec (loads (requests ok empty ps)) p <= 1)%nat.
Proof. exact loaded_at_most_once. Qed.
Print Assumptions C17_loaded_at_most_once.

Theorem C17_loaded_exactly_once : forall ok ps p, ok p = true -> In p ps -> count_occ Nat.eq_dec (loads (requests ok empty ps)) p = 1%nat.
Proof. exact loaded_exactly_once. Qed.
Print Assumptions C17_loaded_exactly_once.

Theorem C17_order_irrelevant : forall ok ps qs p, ok p = true -> (In p ps <-> In p qs) ->
  count_occ Nat.eq_dec (loads (requests ok empty ps)) p = count_occ Nat.eq_dec (loads (requests ok empty qs)) p.
Proof. exact order_irrelevant. Qed.
Print Assumptions C17_order_irrelevant.

(* package.json files (read by loadAsDirectory through Registry.getManifest): reading one that exists a second time - from another
   runtime of the same Registry, from another requiring directory, or after it was compiled as a module - asks the SourceLoader
   nothing; the first reading asks it once *)
Theorem C17_manifest_fetched_once : forall fs st pk e, Model.Require.fs_get fs pk = Some e -> e <> Model.Require.FErr ->
  let st1 := Model.Require.read_manifest fs st pk in
  Model.Require.read_manifest fs st1 pk = st1 /\
  (length (Model.Require.loader_log st1) <= S (length (Model.Require.loader_log st)))%nat.
Proof. exact Proofs.RequireExtra.manifest_fetched_once. Qed.
Print Assumptions C17_manifest_fetched_once.

Example C17_nonvacuous :
  let ok := fun p => negb (Nat.eqb p 2%nat) in
  loads (requests ok empty [0; 1; 0; 2; 1; 2; 0]%nat) = [0; 1; 2; 2]%nat /\ length loop_access = 93%nat /\ length registry_access = 16%nat.
Proof. vm_compute. repeat split. Qed.

(* deadlock, the part that involves mutexes: on the table of synchronisation events regenerated from eventloop.go (every lock
   acquisition, blocking channel operation, condition wait, and call made while a mutex is held, with the mutexes held there)
   the mutexes are acquired in one global order and never re-acquired, nothing that can block on another thread - a channel
   operation, a blocking select, a function value, foreign code - runs inside a critical section (calls of this file's own
   functions are followed transitively), and the only wait inside one is stopCond.Wait() holding exactly stopLock *)
Theorem C17_lock_discipline : lock_discipline loop_sync = true.
Proof. exact loop_lock_discipline. Qed.
Print Assumptions C17_lock_discipline.

(* every function of console/module.go and util/module.go (what is created per runtime, what is looked up at call time) has
   the text the model and the claims of this property were written against (regenerated from the source on every run) *)
Theorem C17_console_util_source_tie : console_util_src = expected_console_util_src.
Proof. vm_compute. reflexivity. Qed.
Print Assumptions C17_console_util_source_tie.
