(* Properties/C12.v — URLSearchParams is the WHATWG ordered pair list and serialisation round-trips. *)
From GN Require Import Common.Base Gen.UrlTables Model.SearchParams Spec.SearchParamsSpec
  Proofs.SearchParamsOps Proofs.SearchParamsSort Proofs.SearchParamsRoundTrip.
From GN Require Import Model.UspSrc.

(* every history of append/delete/set/sort/getters/iterators: the object as written (index-j compaction over a
   mutable array, stale copy in set) makes exactly the observations of the WHATWG list *)
Theorem C12_refines_list : forall ops s, run s ops = spec_run s ops.
Proof. exact run_refines_spec. Qed.
Print Assumptions C12_refines_list.

Theorem C12_delete_is_filter : forall valid l, delete_as_written valid l = filter valid l.
Proof. exact delete_as_written_filter. Qed.
Print Assumptions C12_delete_is_filter.

Theorem C12_set_is_whatwg : forall name value l, set_as_written name value l = spec_set name value l.
Proof. exact set_as_written_spec. Qed.
Print Assumptions C12_set_is_whatwg.

(* sort: by name, stable, nothing lost *)
Theorem C12_sort_sorted : forall l, sorted_by_name (stable_sort l).
Proof. exact sort_sorted. Qed.
Print Assumptions C12_sort_sorted.

(* "by name" is the order of the WHATWG sort: UTF-16 code units. It is the byte order of the UTF-8 names except between a
   supplementary character and U+E000..U+FFFF: U+1F600 (D83D DE00) sorts before U+FF5E although its UTF-8 bytes are larger *)
Example C12_sort_is_by_code_units :
  stable_sort [([239;189;158], [49]); ([240;159;152;128], [50]); ([97], [51])] =
              [([97], [51]); ([240;159;152;128], [50]); ([239;189;158], [49])].
Proof. vm_compute. reflexivity. Qed.

Theorem C12_sort_stable : forall n l, filter (named n) (stable_sort l) = filter (named n) l.
Proof. exact sort_stable. Qed.
Print Assumptions C12_sort_stable.

(* the GENERATED escape table never emits a byte the parser treats specially: % + & = ? *)
Theorem C12_table_ok : url_tables_translated = true /\ table_ok tbl_query_param = true.
Proof. split; [reflexivity|exact table_param_ok]. Qed.
Print Assumptions C12_table_ok.

(* toString() followed by parsing yields the identical list, for ALL lists of byte-string pairs *)
Theorem C12_roundtrip : forall l, wf_pairs l -> parse_query (serialize l) = l.
Proof. exact serialize_parse_roundtrip. Qed.
Print Assumptions C12_roundtrip.

(* parsing accepts any string and is the WHATWG urlencoded parser: '+' is a space, a valid %XX is decoded,
   a malformed escape is kept literally, empty pairs are skipped, one leading '?' is dropped *)
Theorem C12_parse_spec : forall q, parse_query q = whatwg_parse q.
Proof. exact parse_is_whatwg. Qed.
Print Assumptions C12_parse_spec.

(* the URLSearchParams code the model mirrors — the methods of the prototype (incl. which sort function is called), the
   constructors, the sort.Interface methods, the list helpers, parser and escaper — has the text the model was written against *)
Theorem C12_source_tie : usp_src = expected_usp_src.
Proof. vm_compute. reflexivity. Qed.
Print Assumptions C12_source_tie.

Example C12_nonvacuous :
  let l := [([97;43], [37;38]); ([], []); ([97;43], [61;63;32;195;169])] in
  wf_pairs l /\ parse_query (serialize l) = l /\
  run (init l) [OSet [97;43] [49]; OSize; ODeleteNV [] []; OEntries]
    = [BNone; BNat 2; BNone; BPairs [([97;43], [49])]] /\
  parse_query [63;97;61;37;52;49;43;37;122;38;38;98] = [([97], [65;32;37;122]); ([98], [])].
Proof.
  cbv zeta. split; [|vm_compute; repeat split].
  repeat constructor; simpl; lia.
Qed.
