(* Properties/C20.v — process.env is a faithful snapshot of the host environment, private per runtime.
   Only statements; each closed by [exact lemma]. *)
From GN Require Import Common.Base Gen.ProcessEnv Model.Process Proofs.ProcessProofs.

(* every variable NAME=VALUE ('=' not in NAME) is split into exactly (NAME, VALUE):
   values that are empty or contain '=' are unchanged *)
Theorem C20_split : forall name value,
  ~ In 61 name -> entry_kv (name ++ 61 :: value) = Some (name, value).
Proof. exact entry_kv_join. Qed.
Print Assumptions C20_split.

(* exactly the host's variables: every name once, every value unchanged *)
Theorem C20_exact : forall ps,
  NoDup (map fst ps) ->
  (forall p, In p ps -> ~ In 61 (fst p)) ->
  exists m, build_env (map join_kv ps) [] = Some m
         /\ NoDup (map fst m)
         /\ forall k v, lookup k m = Some v <-> In (k, v) ps.
Proof. exact env_exact. Qed.
Print Assumptions C20_exact.

(* any history of require / assignment / delete over any number of runtimes: the host environment is
   unchanged and what runtime r sees depends only on the operations performed in r *)
Theorem C20_isolated : forall ops w w',
  run ops w = Some w' ->
  host w' = host w /\
  forall r, exists w'', run (filter (targets r) ops) w = Some w'' /\ rt_env w'' r = rt_env w' r.
Proof. exact env_isolated. Qed.
Print Assumptions C20_isolated.

Theorem C20_snapshot : forall w r m,
  rt_env w r = None -> build_env (host w) [] = Some m ->
  exists w', step w (Req r) = Some w' /\ rt_env w' r = Some m.
Proof. exact env_snapshot. Qed.
Print Assumptions C20_snapshot.

(* a snapshot: once a runtime has required process, nothing but its own assignments and deletes changes what it sees - not
   the host's later os.Setenv / os.Unsetenv, not other runtimes, not further requires *)
Theorem C20_snapshot_stable : forall hs w w' r m,
  rt_env w r = Some m ->
  forallb (fun h => negb (touches r h) || match h with RtOp (Req _) => true | _ => false end) hs = true ->
  hrun hs w = Some w' -> rt_env w' r = Some m.
Proof. exact snapshot_stable. Qed.
Print Assumptions C20_snapshot_stable.

(* ... and it is taken when process is first required, not earlier: a runtime created before a host change and requiring
   process after it sees the changed environment *)
Theorem C20_snapshot_taken_at_require : forall w r k v m,
  rt_env w r = None -> build_env (host_set k v (host w)) [] = Some m ->
  exists w', hrun [HostSet k v; RtOp (Req r)] w = Some w' /\ rt_env w' r = Some m.
Proof. exact snapshot_taken_at_require. Qed.
Print Assumptions C20_snapshot_taken_at_require.

(* non-vacuity: a concrete environment with an empty value, a value with two '=' and a runtime history *)
Example C20_nonvacuous :
  let ps := [([65], []); ([66;67], [61;120;61]); ([68], [32;195;169])] in
  NoDup (map fst ps) /\ (forall p, In p ps -> ~ In 61 (fst p)) /\
  exists w', run [Req 0%nat; Req 1%nat; SetVar 0%nat [65] [49]; DelVar 1%nat [68]] (init_world (map join_kv ps)) = Some w'
    /\ option_map (lookup [65]) (rt_env w' 0%nat) = Some (Some [49])
    /\ option_map (lookup [65]) (rt_env w' 1%nat) = Some (Some [])
    /\ option_map (lookup [68]) (rt_env w' 1%nat) = Some None
    /\ option_map (lookup [68]) (rt_env w' 0%nat) = Some (Some [32;195;169]).
Proof.
  cbv zeta. split; [|split].
  - repeat constructor; simpl; intuition discriminate.
  - intros p [<-|[<-|[<-|[]]]]; simpl; intuition discriminate.
  - eexists. split; [vm_compute; reflexivity|]. vm_compute. repeat split.
Qed.
