(* Properties/C09.v — no JavaScript input can crash or hang the host: the part carried by theorems.
   (The functions that call back into JavaScript or goja internals are covered by the run-time oracle only.) *)
From GN Require Import Common.Base Common.Int64 Model.VC Gen.BufferVC Gen.OtherVC Proofs.VCTactics Proofs.VCProofs
  Model.BufferTypes Gen.BufferMethods Model.Buffer Spec.BufferNumSpec Proofs.BufferGuards Proofs.BufferNumRefine Proofs.BufferNumExtra
  Model.Codecs Gen.BufferCodecs Model.BufferStrings Spec.BufferStringsSpec Proofs.BufferStringsProofs.
From GN Require Import Proofs.JobsRegistry.
From GN Require Import Gen.UtilFormat Model.ConsoleSrc.
From Coq Require Import String.
From GN Require Import Model.BufferSrc.
From GN Require Gen.RequireGlue Model.ResolveSrc Gen.UrlTables Model.UspSrc Gen.UrlGlue Model.UrlSrc Gen.LoopSkeleton Model.LoopSrc.
Open Scope Z_scope.

(* every index, slice and make in the Buffer natives (numeric methods, toString, write, alloc/fill, from) — the list is
   GENERATED from buffer.go by symbolic execution, with the guards that precede each operation as hypotheses — is in
   bounds for every int64 value of every variable and every slice length: no index/slice/makeslice panic *)
Theorem C09_no_trap_buffer : Forall vc_valid buffer_vcs.
Proof. exact buffer_vcs_valid. Qed.
Print Assumptions C09_no_trap_buffer.

(* same for url/escape.go (escape, unescapeSearchParam), valueToURLPort and util's js_format *)
Theorem C09_no_trap_other : Forall vc_valid other_vcs.
Proof. exact other_vcs_valid. Qed.
Print Assumptions C09_no_trap_other.

Theorem C09_vc_meaning : forall v, vc_valid v ->
  forall e lens,
    all_P (fun x => in_i64 (e x)) (vc_vars v) ->
    all_P (fun a => 0 <= lens a < 2 ^ 62) (vc_lens v) ->
    forallb (holds e lens) (vc_hyps v) = true ->
    holds e lens (vc_goal v) = true.
Proof. exact vc_valid_operational. Qed.
Print Assumptions C09_vc_meaning.

Theorem C09_vcs_cover : nonempty buffer_vcs = true /\ nonempty other_vcs = true /\ buffer_vc_uncovered = [] /\ other_vc_uncovered = [].
Proof. exact vcs_present. Qed.
Print Assumptions C09_vcs_cover.

(* the numeric methods, run through the generated descriptors with trapping slices, never reach a Go panic:
   every outcome is Ok or a Type/RangeError (refines has no case for MPanic) *)
Theorem C09_numeric_never_panics : forall js buf args sp,
  spec_of_name js = Some sp -> wf_buf buf -> wf_args args ->
  exists m, call_method js buf args = Some m /\ m <> MPanic.
Proof.
  intros js buf args sp Hsp Hb Ha. destruct (numeric_method_correct js buf args sp Hsp Hb Ha) as (m & Hm & Hr).
  exists m. split; [exact Hm|]. intro Hp. subst m. destruct (ms_write sp); [destruct (spec_write sp buf args)|destruct (spec_read sp buf args)]; exact Hr.
Qed.
Print Assumptions C09_numeric_never_panics.

(* Buffer.alloc(size, fill): the doubling loop always terminates (no FHang), whatever the pattern decodes to *)
Theorem C09_fill_terminates : forall size pattern e c,
  codec_strict e = Some c -> alloc_fill size pattern e <> FHang.
Proof. intros size pattern e c Hc. rewrite (alloc_fill_cyclic size pattern e c Hc). discriminate. Qed.
Print Assumptions C09_fill_terminates.

(* toString never traps on any start/end *)
Theorem C09_toString_never_traps : forall bb e a_s a_e, to_string bb e a_s a_e <> SPanic.
Proof.
  intros bb e a_s a_e. destruct (codec_strict e) as [c|] eqn:Ec.
  - rewrite (to_string_clamped bb e c a_s a_e Ec). discriminate.
  - unfold to_string. rewrite Ec. discriminate.
Qed.
Print Assumptions C09_toString_never_traps.

(* ... and that theorem is about the fill/alloc/toString/write code as it is now: the text of the string entry points is the
   one the model was written against (regenerated from buffer.go on every run) *)
Theorem C09_strings_source_tie : buffer_strings_src = expected_buffer_strings_src.
Proof. vm_compute. reflexivity. Qed.
Print Assumptions C09_strings_source_tie.

(* every function of console/module.go and util/module.go (what is created per runtime, what is looked up at call time) has
   the text the model and the claims of this property were written against (regenerated from the source on every run) *)
Theorem C09_console_util_source_tie : console_util_src = expected_console_util_src.
Proof. vm_compute. reflexivity. Qed.
Print Assumptions C09_console_util_source_tie.

(* the rest of what a script can reach - require() and its resolution (require/resolve.go, module.go), URL and URLSearchParams
   (url/url.go, nodeurl.go, urlsearchparams.go, escape.go) and the timer functions with the loop that runs them
   (eventloop/eventloop.go) - has the text that the models of C01-C08 and C12-C15 were written against and that the hostile
   sweep was exercised on (regenerated from the source on every run): a new index or slice expression, a conversion moved into
   a loop, a new installed function cannot arrive unnoticed *)
Theorem C09_reachable_source_tie :
  Gen.RequireGlue.resolve_src = Model.ResolveSrc.expected_resolve_src /\ Gen.UrlTables.usp_src = Model.UspSrc.expected_usp_src /\
  Gen.UrlGlue.url_funcs = Model.UrlSrc.expected_url_funcs /\ Gen.LoopSkeleton.loop_funcs = Model.LoopSrc.expected_loop_funcs.
Proof. repeat split; vm_compute; reflexivity. Qed.
Print Assumptions C09_reachable_source_tie.

(* removeJob (reached from clearTimeout, doTimeout, interval shutdown and Terminate): with the position invariant of loop.jobs,
   called on a registered job or on one already marked -1 it never indexes out of range *)
Theorem C09_removeJob_never_out_of_range : forall r j, reg_inv r -> (In j (rjobs r) \/ ridx r j < 0) -> reg_remove r j <> None.
Proof. exact remove_never_out_of_range. Qed.
Print Assumptions C09_removeJob_never_out_of_range.
