(* Properties/C19.v — util.format keeps literals, is positional; console sends one message per call. *)
From GN Require Import Common.Base Gen.UtilFormat Model.Format Spec.FormatSpec Proofs.FormatProofs.
From GN Require Import Gen.UtilFormat Model.ConsoleSrc.

(* for every format string (any code points) and every argument list, the scanner as written computes
   Node's restricted format: String(arg), String(Number(arg)), JSON.stringify(arg) are the oracles a_str/a_num/a_json *)
Theorem C19_format_spec : forall f args, format f args = spec_format arg a_str a_num a_json f args.
Proof. exact format_is_spec. Qed.
Print Assumptions C19_format_spec.

Theorem C19_literal_kept : forall f args,
  ~ In 37 f -> format f args = f ++ flat_map (fun a => 32 :: a_str a) args.
Proof. exact no_pct_literal. Qed.
Print Assumptions C19_literal_kept.

(* each console call delivers exactly one message = format of its arguments, to the sink of its method, in call order *)
Theorem C19_console : forall cs,
  s_log (console_run cs) = msgs_to SLog cs /\
  s_warn (console_run cs) = msgs_to SWarn cs /\
  s_err (console_run cs) = msgs_to SError cs.
Proof. exact console_one_message_per_call. Qed.
Print Assumptions C19_console.

Theorem C19_console_routing :
  console_translated = true /\
  assoc_zs [108;111;103] console_sinks = Some SLog /\
  assoc_zs [105;110;102;111] console_sinks = Some SLog /\
  assoc_zs [100;101;98;117;103] console_sinks = Some SLog /\
  assoc_zs [119;97;114;110] console_sinks = Some SWarn /\
  assoc_zs [101;114;114;111;114] console_sinks = Some SError.
Proof. exact console_table. Qed.
Print Assumptions C19_console_routing.

(* non-vacuity / sanity on the cases named in the property: '100%' ; '%s %%' with one argument ; '%x' ; surplus *)
Example C19_examples :
  let a := {| a_str := [97]; a_num := [78;97;78]; a_json := [34;97;34] |} in
  format [49;48;48;37] [] = [49;48;48;37] /\
  format [37;115;32;37;37] [a] = [97;32;37] /\
  format [37;37] [] = [37;37] /\
  format [37;120;37;100] [a] = [37;120;78;97;78] /\
  format [37;115] [a; a] = [97;32;97] /\
  format [37;115;37;115] [a] = [97;37;115].
Proof. vm_compute. repeat split. Qed.

(* every function of console/module.go and util/module.go (what is created per runtime, what is looked up at call time) has
   the text the model and the claims of this property were written against (regenerated from the source on every run) *)
Theorem C19_console_util_source_tie : console_util_src = expected_console_util_src.
Proof. vm_compute. reflexivity. Qed.
Print Assumptions C19_console_util_source_tie.
