(* Properties/C15.v — statements follow *)
From GN Require Import Common.Base Model.Paths Model.Require Spec.NodeResolve.
Theorem C15_placeholder : True. Proof. exact I. Qed.
Print Assumptions C15_placeholder.
