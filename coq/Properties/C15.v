(* Properties/C15.v — native/core names resolve by registration only, stably; 'node:' means core. *)
From GN Require Import Common.Base Model.Paths Model.Require Proofs.RequireInv Proofs.RequireExtra Proofs.ResolveProofs Gen.RequireGlue Model.ResolveSrc.
Open Scope Z_scope.

(* In every state reachable by any history of requires — prefixed, unprefixed and file requests, including a relative
   file whose resolved path equals a module name — every cached bare or node: name holds the implementation that the
   registrations alone prescribe (registry native, else global native, else core; node:X = core X). *)
Theorem C15_registration_only : forall fs nr fuel calls,
  wf_natives nr -> NInv nr (run_tops fs nr fuel init_state calls).
Proof. exact reachable_ninv. Qed.
Print Assumptions C15_registration_only.

(* a first lookup creates exactly the prescribed implementation, or fails with 'No such built-in module' for a node: name
   that is not core, or is not a native name at all *)
Theorem C15_first_lookup : forall nr st name,
  cache_get (native_cache st) name = None ->
  match native_choice nr name, snd (load_native nr st name) with
  | inl (Some nk), ROk m => native_owner (fst (load_native nr st name)) m = Some nk
  | inl None, RErr 3 => True
  | inr _, RNone => True
  | _, _ => False
  end.
Proof. exact load_native_by_registration. Qed.
Print Assumptions C15_first_lookup.

(* repeated calls return the identical object and no loader runs again *)
Theorem C15_same_object : forall nr st name m,
  cache_get (native_cache st) name = Some m -> load_native nr st name = (st, ROk m).
Proof. exact load_native_cached. Qed.
Print Assumptions C15_same_object.

(* require('X') and require('node:X') are the identical object for a core module X that is not overridden *)
Theorem C15_node_prefix_alias : forall name,
  let nr := {| n_registry := []; n_global := []; n_core := [name]; n_loader_reqs := []; n_loader_throws := [] |} in
  has_prefix node_prefix name = false ->
  forall st, cache_get (native_cache st) name = None ->
  let st1 := fst (load_native nr st name) in
  cache_get (native_cache st1) (node_prefix ++ name) = cache_get (native_cache st1) name.
Proof.
  intros name nr Hp st Hc st1. unfold st1, load_native. rewrite Hc. unfold nr. cbn [n_registry n_global n_core].
  assert (Hm : mem_zs name [name] = true) by (cbn [mem_zs]; rewrite zs_eqb_refl; reflexivity).
  change (mem_zs name []) with false. cbn iota. rewrite Hm. cbn iota.
  destruct (new_module st (ONative name NCore)) as [s1 m]. cbn [fst native_cache with_native]. rewrite Hp.
  rewrite !RequireInv.get_set. rewrite !zs_eqb_refl.
  destruct (zs_eqb name (node_prefix ++ name)); reflexivity.
Qed.
Print Assumptions C15_node_prefix_alias.

(* re-entrant loaders (a core loader that requires the other spelling of its own name, directly or through other loaders):
   the module is cached under both spellings before its loader runs *)
Theorem C15_alias_in_place_for_the_loader : forall nr rq st name,
  has_prefix node_prefix name = false ->
  mem_zs name (n_registry nr) = false -> mem_zs name (n_global nr) = false -> mem_zs name (n_core nr) = true ->
  cache_get (native_cache st) name = None ->
  exists m, snd (load_native nr st name) = ROk m /\
    let st1 := fst (load_native nr st name) in
    load_native_run nr rq st1 name = (st1, ROk m) /\ load_native_run nr rq st1 (node_prefix ++ name) = (st1, ROk m).
Proof. exact alias_in_place_for_the_loader. Qed.
Print Assumptions C15_alias_in_place_for_the_loader.

Theorem C15_source_tie : Gen.RequireGlue.resolve_src = Model.ResolveSrc.expected_resolve_src.
Proof. exact resolve_source_unchanged. Qed.
Print Assumptions C15_source_tie.

Example C15_nonvacuous :
  let util := [117;116;105;108] in
  let nr := {| n_registry := [util]; n_global := []; n_core := [util]; n_loader_reqs := []; n_loader_throws := [] |} in
  let fs := [(util ++ [46;106;115], FJs [IBump])] in                      (* "util.js" next to scripts with relative names *)
  let dot := parse [46] in
  let st := run_tops fs nr 5 init_state [(dot, [46;47] ++ util); (dot, node_prefix ++ util); (dot, util)] in
  wf_natives nr /\ NInv nr st /\
  option_map (native_owner st) (cache_get (native_cache st) util) = Some (Some (util, NRegistry)) /\
  option_map (native_owner st) (cache_get (native_cache st) (node_prefix ++ util)) = Some (Some (util, NCore)).
Proof.
  cbv zeta. assert (W : wf_natives {| n_registry := [[117;116;105;108]]; n_global := []; n_core := [[117;116;105;108]]; n_loader_reqs := []; n_loader_throws := [] |}).
  { split.
    - intros n [H|H]; cbn in H; [|discriminate]. rewrite orb_false_r in H. apply zs_eqb_eq in H. subst. reflexivity.
    - intros c H _. cbn in H. rewrite orb_false_r in H. apply zs_eqb_eq in H. subst. reflexivity. }
  split; [exact W|]. split; [apply reachable_ninv; exact W|]. split; vm_compute; reflexivity.
Qed.
