(* Properties/C01.v — statements follow *)
From GN Require Import Common.Base Model.Paths Model.Require Spec.NodeResolve.
Theorem C01_placeholder : True. Proof. exact I. Qed.
Print Assumptions C01_placeholder.
