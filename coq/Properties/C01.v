(* Properties/C01.v — require(): one evaluation and one exports identity per module per runtime. *)
From GN Require Import Common.Base Model.Paths Model.Require Proofs.RequireInv Proofs.RequireExtra Proofs.ResolveProofs Gen.RequireGlue Model.ResolveSrc.
Open Scope Z_scope.

(* For every file tree, every assignment of module programs (trees, DAGs, cycles of any length, self-requires, throws
   at any position), every registration set, every fuel and every sequence of top-level calls (from JavaScript at any
   directory or from Go), the state reached satisfies the cache invariant: every cached module is a file module that is
   also cached under its own resolved path, and cache keys are unique. *)
Theorem C01_invariant_reachable : forall fs nat_reg fuel calls, Inv (run_tops fs nat_reg fuel init_state calls).
Proof. exact reachable_inv. Qed.
Print Assumptions C01_invariant_reachable.

(* one exports identity per file: whatever the spellings (keys) under which two modules are cached — with or without
   extension, through a directory, with detours, absolute, via node_modules — if they belong to the same file they are
   the identical module *)
Theorem C01_identity : forall st k1 m1 k2 m2 p,
  Inv st -> cached st k1 m1 -> cached st k2 m2 -> file_owner st m1 = Some p -> file_owner st m2 = Some p -> m1 = m2.
Proof. exact one_module_per_file. Qed.
Print Assumptions C01_identity.

(* at most one evaluation while cached, and a module that is required again while it is still being evaluated (a cycle)
   is not re-entered: the cached module comes back, nothing runs, nothing changes — so the requirer sees the exports as
   populated so far *)
Theorem C01_cached_not_reentered : forall fs rq st p m,
  cache_get (files_cache st) (render p) = Some m -> load_module fs rq st p = (st, ROk m).
Proof. exact cached_not_reentered. Qed.
Print Assumptions C01_cached_not_reentered.

(* ... and the entry of a module under evaluation is still there in every state nested requires can reach *)
Theorem C01_in_progress_stays : forall fs nat_reg fuel st d r,
  Inv st -> ext st (fst (require_ fs nat_reg fuel st d r)).
Proof. intros fs nr fuel st d r HI. exact (proj2 (require_good fs nr fuel st d r HI)). Qed.
Print Assumptions C01_in_progress_stays.

(* a body that throws: the very same value passes through every un-caught require ... *)
Theorem C01_throw_same_value : forall rq st m file r rest st1 t,
  rq st (pdir (parse file)) r = (st1, RThrown t) ->
  snd (run_body rq st m file (IReq r false :: rest)) = RThrown t.
Proof. exact throw_passes_uncaught. Qed.
Print Assumptions C01_throw_same_value.

(* ... and the failed module does not stay cached under any name, so a later require evaluates the file afresh *)
Theorem C01_failure_uncached : forall fs rq,
  (forall st d r, Inv st -> good st (fst (rq st d r))) ->
  forall st p, Inv st -> cache_get (files_cache st) (render p) = None ->
  clean_failure st (fst (load_module fs rq st p)) (snd (load_module fs rq st p)).
Proof. intros fs rq Hrq st p HI Hn. exact (proj2 (proj2 (load_module_good3 fs rq Hrq st p HI)) Hn). Qed.
Print Assumptions C01_failure_uncached.

(* the model's resolve/loadModule/loadNative were written against this text of resolve.go (regenerated every run) *)
Theorem C01_source_tie : Gen.RequireGlue.resolve_src = Model.ResolveSrc.expected_resolve_src.
Proof. exact resolve_source_unchanged. Qed.
Print Assumptions C01_source_tie.

(* ... and ONLY the failed module: every other module - in particular a member of a cycle through the failed one whose own
   evaluation had completed - stays cached under every one of its names, with its exports, owner and evaluation counter
   untouched (every failure branch of load_module has the shape (forget stx m ps, r)) *)
Theorem C01_failure_evicts_only_the_failed : forall st m ps k m',
  Inv st -> cache_get (files_cache st) ps = Some m -> m' <> m -> cached st k m' ->
  cached (forget st m ps) k m' /\ store (forget st m ps) = store st /\ counters (forget st m ps) = counters st.
Proof. intros st m ps k m' HI Hps Hne Hc. split; [exact (forget_keeps_others st m ps k m' HI Hps Hne Hc)|exact (forget_store st m ps)]. Qed.
Print Assumptions C01_failure_evicts_only_the_failed.

(* non-vacuity: a <-> b cycle in which a throws after b required './a' (the history that used to leave a stale alias) *)
Example C01_nonvacuous :
  let fs := [([47;112;47;97;46;106;115], FJs [IBump; ISet 1 1; IReq [46;47;98] false; IThrow 7]);
             ([47;112;47;98;46;106;115], FJs [IBump; IReq [46;47;97] false; ISet 2 2])] in
  let nr := {| n_registry := []; n_global := []; n_core := []; n_loader_reqs := []; n_loader_throws := [] |} in
  let st := run_tops fs nr 10 init_state [(parse [47;112], [46;47;97]); (parse [47;112], [46;47;97])] in
  Inv st /\ counters st = [([47;112;47;97;46;106;115], 2%nat); ([47;112;47;98;46;106;115], 1%nat)] /\
  cache_get (files_cache st) [47;112;47;97] = None /\
  (* b, the member of the cycle that completed, survived both failures of a: still cached under its own path, evaluated once *)
  cache_get (files_cache st) [47;112;47;98;46;106;115] = Some 3%nat.
Proof. cbv zeta. split; [apply reachable_inv|]. repeat split; vm_compute; reflexivity. Qed.
