(* Properties/C03.v — callbacks never overlap and never start while the loop is stopped. `reach k s`: s is reached from the
   initial state by some sequence of events (any number of submitters, helper goroutines and controller calls, in any
   interleaving the code's synchronisation admits); k says what each queued closure is. *)
From GN Require Import Common.Base Common.Int64 Model.Loop Model.LoopSrc Model.LoopTime Gen.LoopSkeleton
  Proofs.LoopFrame Proofs.LoopCtl Proofs.LoopTimers Proofs.LoopInv Proofs.LoopProps Proofs.LoopTime Cases.LoopCheck Proofs.LoopReplay.
Open Scope Z_scope.

(* callbacks are executed only by the thread inside run() or by Terminate; the two never coexist, and while Terminate is
   active or the loop is stopped no run thread exists: at any instant at most one thread can be executing callbacks *)
Theorem C03_single_owner : forall k s, reach k s -> tph s <> TNone -> phase s = LNone /\ running s = false.
Proof. exact single_owner. Qed.
Print Assumptions C03_single_owner.

Theorem C03_stopped_no_run_thread : forall k s, reach k s -> running s = false -> phase s = LNone.
Proof. exact stopped_no_run_thread. Qed.
Print Assumptions C03_stopped_no_run_thread.

(* an event starts a callback or runs a queued function only if the thread taking it is that owner *)
Theorem C03_work_needs_owner : forall k s e s',
  do_ev k s e = Some s' -> (cbs s' <> cbs s \/ executed s' <> executed s) -> phase s <> LNone \/ tph s <> TNone.
Proof. exact work_needs_owner. Qed.
Print Assumptions C03_work_needs_owner.

(* from the moment Stop() has returned until the loop is started again, no callback begins and no queued function runs *)
Theorem C03_none_while_stopped : forall k s e s',
  reach k s -> running s = false -> tph s = TNone -> do_ev k s e = Some s' -> cbs s' = cbs s /\ executed s' = executed s.
Proof. exact none_while_stopped. Qed.
Print Assumptions C03_none_while_stopped.

Theorem C03_stop_returns_stopped : forall k s a b s', reach k s -> step k s stop_return a b = Some s' -> running s' = false /\ phase s' = LNone.
Proof. exact stop_returns_when_no_run_thread. Qed.
Print Assumptions C03_stop_returns_stopped.

(* a second run thread cannot appear while one exists (setRunning panics instead) *)
Theorem C03_new_run_only_after_exit : forall k s e s', reach k s -> do_ev k s e = Some s' -> phase s' = LStart -> phase s = LNone \/ phase s = LStart.
Proof. exact new_run_only_after_exit. Qed.
Print Assumptions C03_new_run_only_after_exit.

(* the text of eventloop/eventloop.go, and the order of its synchronisation points, are what the model was written against *)
Theorem C03_source_tie : loop_funcs = expected_loop_funcs /\ loop_points = expected_loop_points.
Proof. exact (conj loop_source_unchanged loop_points_unchanged). Qed.
Print Assumptions C03_source_tie.

(* the hypotheses are met by real executions: the harness's set-up state is reachable *)
Theorem C03_reach_nonvacuous : forall k, reach k init_after_setup.
Proof. exact setup_reach. Qed.
Print Assumptions C03_reach_nonvacuous.

(* a controlled execution of the real loop whose log replays without difference ends in a reachable state of the model:
   the theorems above apply to the executions the harness observes *)
Theorem C03_checker_sound : forall k l s m, replay k init_after_setup mon0 l 0 = (s, m) -> m_diff m = None -> reach k s.
Proof. exact replayed_state_reachable. Qed.
Print Assumptions C03_checker_sound.
