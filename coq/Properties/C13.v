(* Properties/C13.v — a URL object stays one coherent URL under every setter and searchParams history. The parser and
   printer of net/url, ParseRequestURI, lower-casing, IDNA and path cleaning are parameters: every theorem holds whatever
   they are (the host theorems under the stated, run-time validated assumptions about them). *)
From GN Require Import Common.Base Gen.UrlTables Gen.UrlGlue Model.SearchParams Proofs.SearchParamsRoundTrip Model.UrlObject Model.UrlSrc Proofs.UrlObjectProofs.
From GN Require Import Gen.UrlTables Model.UspSrc.
Open Scope Z_scope.

(* after every history of search/href assignments and searchParams append/delete/set/sort, interleaved with host, port,
   protocol, hash and pathname assignments, the materialised list is the parse of the raw query unless that was emptied
   by a searchParams change (and is re-encoded from the list by the next reader) *)
Theorem C13_query_coherent : forall parse_url host_ok lower norm_host clean_path ops s,
  Coh s -> Coh (urun parse_url host_ok lower norm_host clean_path s ops).
Proof. exact urun_coh. Qed.
Print Assumptions C13_query_coherent.

(* what is read in such a state: search is '' or '?' followed by the current query, and searchParams lists exactly the
   pairs of that query — right after search or href was assigned and right after searchParams was changed *)
Theorem C13_search_lists_params : forall s, Coh s -> wf_pairs (get_params s) ->
  (get_search s = [] \/ exists q, q <> [] /\ get_search s = 63 :: q /\ rawquery (sync s) = q) /\
  parse_raw (rawquery (sync s)) = get_params s.
Proof. exact search_lists_params. Qed.
Print Assumptions C13_search_lists_params.

(* assignments take effect. Right after url.search = v: search is '' or '?' + the assigned query and searchParams (handed
   out before or obtained now) lists exactly its pairs, whatever a searchParams change had left behind; scheme, host,
   fragment and path do not move *)
Theorem C13_search_assignment_takes_effect : forall s v,
  let q := fix_raw_query (trim_q v) in
  get_search (set_search s v) = show_query q /\ get_params (set_search s v) = parse_raw q /\
  scheme (set_search s v) = scheme s /\ host (set_search s v) = host s /\ fragment (set_search s v) = fragment s /\ upath (set_search s v) = upath s.
Proof. exact search_assignment_takes_effect. Qed.
Print Assumptions C13_search_assignment_takes_effect.

(* right after an accepted url.href = v: the query of v as net/url parses it *)
Theorem C13_href_assignment_takes_effect : forall parse_url lower norm_host clean_path s v s',
  set_href parse_url lower norm_host clean_path s v = Some s' ->
  exists sc h0 q0 f p0, parse_url v = Some (sc, h0, q0, f, p0) /\ scheme s' = sc /\ fragment s' = f /\
    get_search s' = show_query (fix_raw_query q0) /\ get_params s' = parse_raw (fix_raw_query q0).
Proof. exact href_assignment_takes_effect. Qed.
Print Assumptions C13_href_assignment_takes_effect.

(* right after a searchParams change f: the list is f of the list, and search (href prints the same synchronised URL) is that
   list re-encoded *)
Theorem C13_params_change_takes_effect : forall s f,
  get_params (mutate s f) = f (get_params s) /\
  get_search (mutate s f) = show_query (match f (get_params s) with [] => [] | l => serialize l end).
Proof. exact params_change_takes_effect. Qed.
Print Assumptions C13_params_change_takes_effect.

(* an assignment that throws stores nothing (host, hostname, protocol: a host that cannot be normalised after it passed the
   syntactic check), and the protocol setter stores nothing that is not a scheme *)
Theorem C13_throwing_assignment_stores_nothing : forall host_ok lower norm_host clean_path s v,
  (snd (set_host host_ok lower norm_host clean_path s v) = true -> fst (set_host host_ok lower norm_host clean_path s v) = s) /\
  (snd (set_hostname host_ok lower norm_host clean_path s v) = true -> fst (set_hostname host_ok lower norm_host clean_path s v) = s) /\
  (snd (set_protocol host_ok lower norm_host clean_path s v) = true -> fst (set_protocol host_ok lower norm_host clean_path s v) = s).
Proof. exact throwing_assignment_stores_nothing. Qed.
Print Assumptions C13_throwing_assignment_stores_nothing.

Theorem C13_protocol_needs_a_scheme : forall host_ok lower norm_host clean_path s p,
  valid_scheme p = false -> set_protocol host_ok lower norm_host clean_path s p = (s, false).
Proof. exact protocol_needs_a_scheme. Qed.
Print Assumptions C13_protocol_needs_a_scheme.

(* href, toString() and toJSON() re-encode a stale query and print the same url.URL: one function of the state *)
Theorem C13_serialisers_agree :
  href_syncs_then_prints = true /\ tostring_syncs_then_prints = true /\ tojson_syncs_then_prints = true /\
  forall s, sync (sync s) = sync s.
Proof. exact (conj eq_refl (conj eq_refl (conj eq_refl sync_idempotent))). Qed.
Print Assumptions C13_serialisers_agree.

(* host is hostname plus ':' + port when a port is present, for every host string (bracketed IPv6 literals included) *)
Theorem C13_host_is_hostname_port : forall h,
  (port_of h <> [] -> h = host_without_port h ++ 58 :: port_of h) /\
  (port_of h = [] -> h = host_without_port h \/ h = host_without_port h ++ [58]).
Proof. exact host_is_hostname_port. Qed.
Print Assumptions C13_host_is_hostname_port.

(* after every history the default port of the current scheme is never shown and host = hostname [':' port] *)
Theorem C13_default_port_never_shown : forall parse_url host_ok lower norm_host clean_path,
  (forall sc v, host_ok sc v = true -> plain (host_without_port v)) ->
  (forall v sc h q f p, parse_url v = Some (sc, h, q, f, p) -> plain (host_without_port h)) ->
  (forall x, plain x -> plain (lower x)) ->
  (forall x ch, norm_host x = Some ch -> plain x -> plain ch) ->
  forall ops s, Forall wf_op ops -> HostInv s ->
  let s' := urun parse_url host_ok lower norm_host clean_path s ops in
  (get_port s' = [] \/ is_default_port (scheme s') (num_of (get_port s')) = false) /\
  (get_port s' = [] -> get_host s' = get_hostname s') /\
  (get_port s' <> [] -> get_host s' = get_hostname s' ++ 58 :: get_port s').
Proof. exact default_port_never_shown. Qed.
Print Assumptions C13_default_port_never_shown.

(* the tables of the model are the ones in the source *)
Theorem C13_tables_from_source : default_ports = gen_default_ports /\ special_protocols = gen_special /\ url_object_translated = true.
Proof. exact (conj eq_refl (conj eq_refl eq_refl)). Qed.
Print Assumptions C13_tables_from_source.

Theorem C13_source_tie : url_funcs = expected_url_funcs.
Proof. exact url_source_unchanged. Qed.
Print Assumptions C13_source_tie.

Example C13_nonvacuous :
  let s := {| scheme := [104;116;116;112]; host := [104;58;56;49]; rawquery := [97;61;49]; fragment := []; upath := [47]; sp := None |} in
  let ops := [OAppend [98] [50]; OPort (PNum [56;48]); OSearch [63;120;61;49]; OAppend [121] [32]] in
  let s' := urun (fun _ => None) (fun _ _ => false) (fun x => x) (fun x => Some x) (fun p _ => p) s ops in
  Coh s /\ HostInv s /\ Forall wf_op ops /\
  get_search s' = [63;120;61;49;38;121;61;43] /\ get_params s' = [([120], [49]); ([121], [32])] /\ get_port s' = [] /\ get_host s' = [104].
Proof. vm_compute. repeat split; try reflexivity; try discriminate; try (left; reflexivity); try (right; reflexivity); repeat constructor; try discriminate. Qed.

(* the URLSearchParams code that url.searchParams hands out (and whose list the URL object shares) has the text the models of
   C12 and of this property were written against *)
Theorem C13_usp_source_tie : usp_src = expected_usp_src.
Proof. vm_compute. reflexivity. Qed.
Print Assumptions C13_usp_source_tie.
