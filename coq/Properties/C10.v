(* Properties/C10.v — Buffer numeric read/write: exact encodings and range checks, no stray byte. *)
From GN Require Import Common.Base Common.Int64 Model.BufferTypes Gen.BufferMethods Model.Buffer Spec.BufferNumSpec
  Proofs.BufferBytes Proofs.BufferGuards Proofs.BufferNumRefine Proofs.BufferNumExtra.
From Coq Require Import String.
Open Scope string_scope.
Open Scope list_scope.
Open Scope Z_scope.

(* For every method name of the Node specification table (8/16/32-bit, 1-6 byte variable width, 64-bit BigInt,
   float, double; BE/LE; signed/unsigned; every Uint alias), every buffer and every argument list:
   the method installed under that name — the descriptor GENERATED from buffer.go, run with Go's int64 wrap
   semantics and trapping slices — does what the specification says: Ok with exactly the spliced bytes and
   offset+width, or a Type/RangeError with the buffer untouched; a Go panic is never reached. *)
Theorem C10_methods_refine_spec : forall js buf args sp,
  spec_of_name js = Some sp -> wf_buf buf -> wf_args args ->
  exists m, call_method js buf args = Some m /\
            refines m (if ms_write sp then spec_write sp buf args else spec_read sp buf args).
Proof. exact numeric_method_correct. Qed.
Print Assumptions C10_methods_refine_spec.

(* the offset guard as generated from getOffsetArgument rejects exactly the offsets outside the buffer, for
   EVERY int64 offset (no wrap-around of offset+numBytes) *)
Theorem C10_offset_guard : forall off n buf,
  in_i64 off -> 0 <= n <= 8 -> len_ok buf ->
  guard_fires off_guard (upd (upd empty_env "offset" off) "numBytes" n) buf (GVInt off)
  = if in_buffer buf off n then None else Some 2.
Proof. exact off_guard_sem. Qed.
Print Assumptions C10_offset_guard.

Theorem C10_varlen_guards : forall off bl buf,
  in_i64 off -> in_i64 bl -> len_ok buf ->
  first_firing var_guards (upd (upd empty_env "offset" off) "byteLength" bl) buf (GVInt off)
  = if (1 <=? bl) && (bl <=? 6) then (if in_buffer buf off bl then None else Some 2) else Some 2.
Proof. exact var_guards_sem. Qed.
Print Assumptions C10_varlen_guards.

(* a successful write changes exactly positions offset..offset+width-1 and reading them back gives the bytes written *)
Theorem C10_frame : forall buf off bs,
  in_buffer buf off (Z.of_nat (List.length bs)) = true ->
  List.length (splice buf off bs) = List.length buf /\
  (forall i d, (i < Z.to_nat off \/ Z.to_nat off + List.length bs <= i)%nat -> nth i (splice buf off bs) d = nth i buf d) /\
  firstn (List.length bs) (skipn (Z.to_nat off) (splice buf off bs)) = bs.
Proof. exact splice_frame. Qed.
Print Assumptions C10_frame.

(* the matching read returns exactly the number that was written *)
Theorem C10_read_write_id : forall sg w e v,
  0 < w -> int_representable sg w v = true ->
  (let u := from_bytes e (enc_bytes e v w) in if sg then to_signed u w else u) = v.
Proof. exact int_roundtrip. Qed.
Print Assumptions C10_read_write_id.

Theorem C10_double_bits : forall e b, 0 <= b < two64 -> from_bytes e (bytes_of e b 8) = b.
Proof. exact double_roundtrip. Qed.
Print Assumptions C10_double_bits.

(* arbitrary bytes decode (totality) and decoding is inverse to encoding *)
Theorem C10_dec_enc_bijection : forall e bs, wf_bytes bs ->
  0 <= from_bytes e bs < 2 ^ (8 * Z.of_nat (List.length bs)) /\
  bytes_of e (from_bytes e bs) (Z.of_nat (List.length bs)) = bs.
Proof. intros e bs H. split; [exact (from_bytes_range e bs H)|exact (bytes_of_from_bytes e bs H)]. Qed.
Print Assumptions C10_dec_enc_bijection.

Theorem C10_sign_extend : forall u n, 1 <= n <= 6 -> 0 <= u < 2 ^ (8 * n) -> sign_extend u n = to_signed u n.
Proof. exact sign_extend_to_signed. Qed.
Print Assumptions C10_sign_extend.

Theorem C10_aliases :
  forallb (fun p => opt_s_eqb (assoc_s (fst p) registrations) (assoc_s (snd p) registrations)) alias_pairs = true.
Proof. exact aliases_registered. Qed.
Print Assumptions C10_aliases.

(* non-vacuity: concrete calls through the generated descriptors, incl. the offset that used to wrap around *)
Example C10_nonvacuous :
  call_method "writeInt16BE" [0;0;0;0] [ANum (-2) 0; ANum 1 0] = Some (MOk [0;255;254;0] (RInt 3)) /\
  call_method "readIntLE" [1;2;255;4] [ANum 1 0; ANum 2 0] = Some (MOk [1;2;255;4] (RInt (-254))) /\
  call_method "readUInt8" [7] [ANum 9223372036854775807 0] = Some (MThrow 2) /\
  call_method "writeBigUint64LE" [0;0;0;0;0;0;0;0] [ABig (-1)] = Some (MThrow 2) /\
  call_method "writeUIntBE" [0;0;0;0] [ANum 65536 0; ANum 0 0; ANum 2 0] = Some (MThrow 2) /\
  call_method "writeFloatLE" [0;0;0;0] [ANum 1 4607182418800017408] = Some (MOk [0;0;128;63] (RInt 4)) /\
  wf_buf [0;0;0;0] /\ wf_args [ANum (-2) 0; ANum 1 0].
Proof.
  split; [vm_compute; reflexivity|]. split; [vm_compute; reflexivity|]. split; [vm_compute; reflexivity|].
  split; [vm_compute; reflexivity|]. split; [vm_compute; reflexivity|]. split; [vm_compute; reflexivity|].
  split; [split|].
  - repeat constructor; unfold wf_byte; lia.
  - unfold len_ok. simpl. lia.
  - repeat constructor; unfold in_i64, two63, two64; lia.
Qed.
