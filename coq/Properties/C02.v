(* Properties/C02.v — require() selects the file the Node.js CommonJS resolution algorithm selects. *)
From GN Require Import Common.Base Model.Paths Model.Require Spec.NodeResolve Proofs.ResolveProofs Proofs.RequireInv Proofs.RequireSelect Proofs.PathsCanon Gen.RequireGlue Model.ResolveSrc.
Open Scope Z_scope.

(* for every file tree, every absolute requiring directory and every request — relative, absolute or bare — the probing
   order of the code (files, .js, .json, directory with package.json "main" as file then as directory, index.js, index.json;
   the upward walk through node_modules as the loop is written) selects the file, or the failure, that the algorithm of the
   Node.js manual selects. (A directory literally named node_modules directly inside node_modules is outside the claim.) *)
Theorem C02_selects_node_file : forall fs y x,
  rooted y = true -> no_double_nm (rev (segs y)) -> model_resolve fs y x = spec_resolve fs y x.
Proof. exact model_resolve_is_node. Qed.
Print Assumptions C02_selects_node_file.

(* the caches do not change the answer: in every state reachable by any sequence of requires (any module graph, cycles,
   failures, any spelling), a file-or-directory request that yields a module yields the module of the file the stateless
   probing order selects for the request path, and "no module" is reported only when that order finds nothing. (Before request
   paths got a map of their own — fix 0f7f2ed — require('./pkg') depended on an earlier require('./pkg/lib'); this theorem was
   not provable.) *)
Theorem C02_history_independent : forall fs nat_reg fuel calls d r st' x,
  is_file_or_dir_path r = true ->
  require_ fs nat_reg fuel (run_tops fs nat_reg fuel init_state calls) d r = (st', x) ->
  let k := render (pjoin (if is_abs r then None else Some d) r) in
  match x with
  | ROk m => exists f, file_owner st' m = Some f /\ select fs (cands_file_or_dir fs (parse k)) = SFile f
  | RNone => select fs (cands_file_or_dir fs (parse k)) = SNotFound
  | _ => True
  end.
Proof. exact resolve_history_independent. Qed.
Print Assumptions C02_history_independent.

(* ... hence the Node.js file in every reachable state, from every clean requiring directory (what filepath.Dir of a module's
   path is: parse, pjoin and pdir only produce clean paths, and a clean path is recovered from its rendering) *)
Theorem C02_node_file_in_every_state : forall fs nat_reg fuel calls d r st' m,
  is_file_or_dir_path r = true -> rooted d = true -> no_double_nm (rev (segs d)) -> clean d ->
  require_ fs nat_reg fuel (run_tops fs nat_reg fuel init_state calls) d r = (st', ROk m) ->
  exists f, file_owner st' m = Some f /\ spec_resolve fs d r = SFile f.
Proof. exact resolve_is_node_from_clean_dir. Qed.
Print Assumptions C02_node_file_in_every_state.

(* the same through r.nodeModules for bare names that are not native/core modules (key: start + NUL + name; stated for
   directories and names without a NUL byte, where the key splits in one way only) *)
Theorem C02_bare_history_independent : forall fs nat_reg fuel calls d r st' x,
  is_file_or_dir_path r = false ->
  snd (load_native nat_reg (run_tops fs nat_reg fuel init_state calls) r) = RNone ->
  ~ In 0 (render d) -> ~ In 0 r ->
  require_ fs nat_reg fuel (run_tops fs nat_reg fuel init_state calls) d r = (st', x) ->
  match x with
  | ROk m => exists f, file_owner st' m = Some f /\ select fs (cands_node fs (parse (render d)) r) = SFile f
  | RNone => select fs (cands_node fs (parse (render d)) r) = SNotFound
  | _ => True
  end.
Proof. exact bare_history_independent. Qed.
Print Assumptions C02_bare_history_independent.

Theorem C02_bare_node_file_in_every_state : forall fs nat_reg fuel calls d r st' m,
  is_file_or_dir_path r = false ->
  snd (load_native nat_reg (run_tops fs nat_reg fuel init_state calls) r) = RNone ->
  ~ In 0 (render d) -> ~ In 0 r -> rooted d = true -> no_double_nm (rev (segs d)) -> clean d ->
  require_ fs nat_reg fuel (run_tops fs nat_reg fuel init_state calls) d r = (st', ROk m) ->
  exists f, file_owner st' m = Some f /\ spec_resolve fs d r = SFile f.
Proof. exact bare_is_node_from_clean_dir. Qed.
Print Assumptions C02_bare_node_file_in_every_state.

(* the path representation is canonical: the rendered string identifies the path *)
Theorem C02_paths_canonical : (forall s, clean (parse s)) /\ (forall b rel, clean b -> clean (pjoin (Some b) rel)) /\
  (forall p, clean p -> clean (pdir p)) /\ (forall p, clean p -> parse (render p) = p).
Proof. exact (conj clean_parse (conj clean_pjoin (conj clean_pdir parse_render))). Qed.
Print Assumptions C02_paths_canonical.

(* non-vacuity: the history that used to go wrong. ./pkg has "main": "lib"; ./pkg/lib is a directory with its own package.json
   ("main": "alt.js") and an index.js. After require('./pkg/lib') (-> alt.js), require('./pkg') still yields lib/index.js *)
Example C02_history_nonvacuous :
  let fs := [([47;97;112;112;47;112;107;103;47;112;97;99;107;97;103;101;46;106;115;111;110], FPkg (Some [108;105;98]));
             ([47;97;112;112;47;112;107;103;47;108;105;98;47;112;97;99;107;97;103;101;46;106;115;111;110], FPkg (Some [97;108;116;46;106;115]));
             ([47;97;112;112;47;112;107;103;47;108;105;98;47;97;108;116;46;106;115], FJs [ISet 1 1]);
             ([47;97;112;112;47;112;107;103;47;108;105;98;47;105;110;100;101;120;46;106;115], FJs [ISet 2 2])] in
  let nr := {| n_registry := []; n_global := []; n_core := []; n_loader_reqs := []; n_loader_throws := [] |} in
  let app := parse [47;97;112;112] in
  let st := run_tops fs nr 5 init_state [(app, [46;47;112;107;103;47;108;105;98])] in
  let '(st', x) := require_ fs nr 5 st app [46;47;112;107;103] in
  match x with ROk m => file_owner st' m = Some [47;97;112;112;47;112;107;103;47;108;105;98;47;105;110;100;101;120;46;106;115] | _ => False end /\
  cache_get (resolved_cache st) [47;97;112;112;47;112;107;103;47;108;105;98] <> None.
Proof. vm_compute. split; [reflexivity|discriminate]. Qed.

(* a bare name is searched only in node_modules directories, never as a relative file *)
Theorem C02_bare_never_relative : forall y d,
  rooted y = true -> In d (walk_dirs (S (length (segs y))) y) -> last (segs d) [] = node_modules.
Proof. exact bare_only_in_node_modules. Qed.
Print Assumptions C02_bare_never_relative.

(* no candidate exists: not found ('Invalid module') *)
Theorem C02_invalid : forall fs cs, (forall p, In (CMod p) cs -> fs_get fs (render p) = None) -> select fs cs = SNotFound.
Proof. exact nothing_found. Qed.
Print Assumptions C02_invalid.

(* a loader failure other than 'does not exist' on the first existing candidate is reported, not skipped *)
Theorem C02_io_error_reported : forall fs cs1 p cs2,
  (forall q, In (CMod q) cs1 -> fs_get fs (render q) = None) -> fs_get fs (render p) = Some FErr ->
  select fs (cs1 ++ CMod p :: cs2) = SIOError (render p).
Proof. exact io_error_reported. Qed.
Print Assumptions C02_io_error_reported.

(* the model's candidate order was written against this text of resolve.go (regenerated every run) *)
Theorem C02_source_tie : Gen.RequireGlue.resolve_src = Model.ResolveSrc.expected_resolve_src.
Proof. exact resolve_source_unchanged. Qed.
Print Assumptions C02_source_tie.

Example C02_nonvacuous :
  let fs := [([47;97;47;110;111;100;101;95;109;111;100;117;108;101;115;47;109;46;106;115], FJs []);          (* /a/node_modules/m.js *)
             ([47;110;111;100;101;95;109;111;100;117;108;101;115;47;109;47;105;110;100;101;120;46;106;115], FJs [])] in  (* /node_modules/m/index.js *)
  let y := parse [47;97;47;98;47;110;111;100;101;95;109;111;100;117;108;101;115;47;120] in     (* /a/b/node_modules/x *)
  rooted y = true /\ no_double_nm (rev (segs y)) /\
  spec_resolve fs y [109] = SFile [47;97;47;110;111;100;101;95;109;111;100;117;108;101;115;47;109;46;106;115].
Proof. cbv zeta. split; [reflexivity|]. split; [vm_compute; repeat split; intros [H1 H2]; (discriminate H1 || discriminate H2)|vm_compute; reflexivity]. Qed.
