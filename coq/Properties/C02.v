(* Properties/C02.v — statements follow *)
From GN Require Import Common.Base Model.Paths Model.Require Spec.NodeResolve.
Theorem C02_placeholder : True. Proof. exact I. Qed.
Print Assumptions C02_placeholder.
