(* Properties/C16.v — a .json module is data: module.exports = JSON.parse(<literal denoting the file text>) *)
From GN Require Import Common.Base Gen.RequireGlue Model.JsonModule Model.LoaderSrc Proofs.JsonModuleProofs.

(* for EVERY text s (all Unicode scalar values: quotes, back-slashes, line terminators incl. U+2028/U+2029,
   controls, non-BMP, wrapper delimiters) and whatever follows, the literal built by the escaper lexes as
   exactly one JavaScript string literal whose value is s: nothing of s can terminate it or reach the wrapper *)
Theorem C16_airtight : forall s rest, Forall scalar s -> lex_dq (go_json_string s ++ rest) = Some (s, rest).
Proof. exact literal_airtight. Qed.
Print Assumptions C16_airtight.

(* with the pieces GENERATED from getCompiledSource: the compiled source is the wrapper around
   `module.exports = JSON.parse(` <that literal> `)` *)
Theorem C16_source : forall s, Forall scalar s ->
  exists src lit, json_module_source s = Some src /\
    src = wrap_pre ++ json_pre ++ lit ++ json_post ++ wrap_post /\
    lex_dq (lit ++ json_post ++ wrap_post) = Some (s, json_post ++ wrap_post).
Proof. exact json_source_shape. Qed.
Print Assumptions C16_source.

Theorem C16_glue :
  require_glue_translated = true /\ json_escaper = EscGoJSONMarshal /\
  json_ext = [46;106;115;111;110] /\
  json_pre = [109;111;100;117;108;101;46;101;120;112;111;114;116;115;32;61;32;74;83;79;78;46;112;97;114;115;101;40] /\
  json_post = [41].
Proof. exact glue_facts. Qed.
Print Assumptions C16_glue.

Example C16_nonvacuous :
  let s := [34; 39; 92; 10; 13; 8232; 8233; 0; 31; 1114111; 917505; 125; 41; 40; 42; 47; 60; 47; 115; 62] in
  Forall scalar s /\ lex_dq (go_json_string s ++ [41;10;125;41]) = Some (s, [41;10;125;41]).
Proof.
  cbv zeta. split; [|vm_compute; reflexivity].
  repeat constructor; unfold scalar; lia.
Qed.

(* the text handed to the wrapper is the text of the file: nothing between the SourceLoader and JSON.parse adds, drops or
   changes a byte (getSource and getCompiledSource as the model was written against) *)
Theorem C16_text_reaches_parser_unchanged : loader_src = expected_loader_src.
Proof. exact loader_source_unchanged. Qed.
Print Assumptions C16_text_reaches_parser_unchanged.
