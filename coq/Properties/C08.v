(* Properties/C08.v — Terminate() leaves no goroutine or timer, silences cancelled work, allows restart. *)
From GN Require Import Common.Base Common.Int64 Model.Loop Model.LoopSrc Model.LoopTime Gen.LoopSkeleton
  Proofs.LoopFrame Proofs.LoopCtl Proofs.LoopTimers Proofs.LoopInv Proofs.LoopProps Proofs.LoopTime Cases.LoopCheck Proofs.LoopReplay.
From GN Require Import Proofs.JobsRegistry.
Open Scope Z_scope.

(* when Terminate returns: the registry is empty, no runtime timer, ticker or helper goroutine of any job exists, every
   timeout and interval is cancelled, everything accepted has run and the queue is empty *)
Theorem C08_terminate_leaves_nothing : forall k s a b s', reach k s -> step k s term_done a b = Some s' ->
  jobs s' = [] /\ (forall t, In t (timers s') -> tj_h t = HDone /\ (tj_kind t <> TImmediate -> tj_cancelled t = true)) /\
  executed s' = accepted s' /\ aux s' = [] /\ terminated s' = true.
Proof. exact terminate_leaves_nothing. Qed.
Print Assumptions C08_terminate_leaves_nothing.

(* a cancelled job never runs again, restarts included *)
Theorem C08_cancelled_never_runs_again : forall k s l s' id t,
  reach k s -> run_evs k s l = Some s' -> find_t (timers s) id = Some t -> tj_cancelled t = true ->
  exists t', find_t (timers s') id = Some t' /\ tj_cancelled t' = true /\ tj_calls t' = tj_calls t.
Proof. exact cancelled_never_runs_again. Qed.
Print Assumptions C08_cancelled_never_runs_again.

(* every helper that still exists is registered, so Terminate's drain meets exactly the jobs in flight *)
Theorem C08_helpers_registered : forall k s, reach k s -> TJ (timers s) (jobs s).
Proof. exact helpers_registered. Qed.
Print Assumptions C08_helpers_registered.

(* submissions are refused from Terminate until the next Start/Run, and accepted again after it *)
Theorem C08_terminated_until_restart : forall k s p a b s', step k s p a b = Some s' -> terminated s = true -> p <> setrunning -> terminated s' = true.
Proof. exact terminated_until_restart. Qed.
Print Assumptions C08_terminated_until_restart.

Theorem C08_refuses_while_terminated : forall k s a b s',
  step k s aux_lock a b = Some s' ->
  (terminated s = false /\ accepted s' = accepted s ++ [a] /\ aux s' = aux s ++ [a] /\ refused s' = refused s) \/
  (terminated s = true /\ accepted s' = accepted s /\ aux s' = aux s /\ refused s' = refused s ++ [a]).
Proof. exact accept_iff_not_terminated. Qed.
Print Assumptions C08_refuses_while_terminated.

Theorem C08_restart_accepts : forall k s a b s', running s = false -> step k s setrunning a b = Some s' ->
  terminated s' = false /\ running s' = true /\ canrun s' = true.
Proof. exact restart_accepts. Qed.
Print Assumptions C08_restart_accepts.

(* loop.jobs as the array it is. Registration records the position in job.idx; removeJob as written (move the last entry into
   the freed slot, truncate, mark the job -1) keeps "jobs[k].idx = k and no job twice", removes exactly that job - which is the
   set removal the model's theorems above are about - and removeJob on a job already marked -1 does nothing, so the late
   doTimeout of a cleared timer and Terminate's drain cannot disturb other entries *)
Theorem C08_registry_append : forall r j, reg_inv r -> ~ In j (rjobs r) -> reg_inv (reg_append r j).
Proof. exact append_inv. Qed.
Print Assumptions C08_registry_append.

Theorem C08_registry_remove_refines_model : forall r j, reg_inv r -> In j (rjobs r) ->
  exists r', reg_remove r j = Some r' /\ reg_inv r' /\ forall x, In x (rjobs r') <-> In x (remove_job (rjobs r) j).
Proof. exact remove_refines_model. Qed.
Print Assumptions C08_registry_remove_refines_model.

Theorem C08_registry_remove_idempotent : forall r j, ridx r j < 0 -> reg_remove r j = Some r.
Proof. exact remove_idempotent. Qed.
Print Assumptions C08_registry_remove_idempotent.

(* the text of eventloop/eventloop.go, and the order of its synchronisation points, are what the model was written against *)
Theorem C08_source_tie : loop_funcs = expected_loop_funcs /\ loop_points = expected_loop_points.
Proof. exact (conj loop_source_unchanged loop_points_unchanged). Qed.
Print Assumptions C08_source_tie.

(* the hypotheses are met by real executions: the harness's set-up state is reachable *)
Theorem C08_reach_nonvacuous : forall k, reach k init_after_setup.
Proof. exact setup_reach. Qed.
Print Assumptions C08_reach_nonvacuous.

(* a controlled execution of the real loop whose log replays without difference ends in a reachable state of the model:
   the theorems above apply to the executions the harness observes *)
Theorem C08_checker_sound : forall k l s m, replay k init_after_setup mon0 l 0 = (s, m) -> m_diff m = None -> reach k s.
Proof. exact replayed_state_reachable. Qed.
Print Assumptions C08_checker_sound.
