(* Properties/C07.v — Stop() always returns and loses nothing; a restart resumes all pending work. *)
From GN Require Import Common.Base Common.Int64 Model.Loop Model.LoopSrc Model.LoopTime Gen.LoopSkeleton
  Proofs.LoopFrame Proofs.LoopCtl Proofs.LoopTimers Proofs.LoopInv Proofs.LoopProps Proofs.LoopTime Cases.LoopCheck Proofs.LoopReplay.
Open Scope Z_scope.

(* the stop request cannot be lost: once Stop() has stored canRun=0 and sent its token, the token is still in the channel
   or the run thread has consumed it and is on the path that tests canRun and leaves *)
Theorem C07_stop_request_not_lost : forall k s, reach k s -> (spc s = SSent \/ spc s = SWaiting) -> running s = true ->
  canrun s = false /\ (token s = true \/ exiting (phase s) = true).
Proof. exact stop_request_not_lost. Qed.
Print Assumptions C07_stop_request_not_lost.

(* on that path every step of the run thread strictly decreases (position, jobs left in the batch): it reaches the exit
   after finitely many of its own steps, whatever the other threads do *)
Theorem C07_exit_path_progress : forall k s p a b s',
  reach k s -> exiting (phase s) = true -> canrun s = false -> run_thread_point p = true -> step k s p a b = Some s' ->
  (prank (phase s') < prank (phase s))%nat \/ (phase s' = phase s /\ (length (batch s') < length (batch s))%nat).
Proof. exact exit_path_progress. Qed.
Print Assumptions C07_exit_path_progress.

Theorem C07_stop_noop_when_not_running : forall k s s1 s2,
  reach k s -> running s = false -> spc s = SNone ->
  step k s stop_enter 0 0 = Some s1 -> step k s1 stop_return 0 0 = Some s2 -> s2 = s.
Proof. exact stop_noop_when_not_running. Qed.
Print Assumptions C07_stop_noop_when_not_running.

(* Stop, StopNoWait, Start and the loop's own entry/exit steps leave the queue, the history, the timers, the registry
   and a received-but-not-run job untouched: nothing is lost or duplicated by stopping and restarting *)
Theorem C07_lifecycle_keeps_work : forall k s p a b s', lifecycle_point p = true -> step k s p a b = Some s' ->
  aux s' = aux s /\ batch s' = batch s /\ executed s' = executed s /\ accepted s' = accepted s /\ timers s' = timers s /\
  jobs s' = jobs s /\ pending s' = pending s /\ cbs s' = cbs s.
Proof. exact lifecycle_keeps_work. Qed.
Print Assumptions C07_lifecycle_keeps_work.

(* ... so accepted functions stay queued (C04_queue_is_history) and a live timeout stays registered with its runtime timer
   or its delivering goroutine, until the loop receives it; it then runs at most once *)
Theorem C07_pending_timeout_kept : forall k s t, reach k s -> In t (timers s) -> tj_kind t = TTimeout -> tj_cancelled t = false -> In (tj_id t) (jobs s).
Proof. exact live_timeout_registered. Qed.
Print Assumptions C07_pending_timeout_kept.

Theorem C07_queue_kept : forall k s, reach k s -> executed s ++ batch s ++ aux s = accepted s.
Proof. exact queue_is_history. Qed.
Print Assumptions C07_queue_kept.

Theorem C07_timeout_once : forall k s t, reach k s -> In t (timers s) -> tj_kind t <> TInterval -> (tj_calls t <= 1)%nat.
Proof. exact one_shot_at_most_once. Qed.
Print Assumptions C07_timeout_once.

(* the text of eventloop/eventloop.go, and the order of its synchronisation points, are what the model was written against *)
Theorem C07_source_tie : loop_funcs = expected_loop_funcs /\ loop_points = expected_loop_points.
Proof. exact (conj loop_source_unchanged loop_points_unchanged). Qed.
Print Assumptions C07_source_tie.

(* the hypotheses are met by real executions: the harness's set-up state is reachable *)
Theorem C07_reach_nonvacuous : forall k, reach k init_after_setup.
Proof. exact setup_reach. Qed.
Print Assumptions C07_reach_nonvacuous.

(* a controlled execution of the real loop whose log replays without difference ends in a reachable state of the model:
   the theorems above apply to the executions the harness observes *)
Theorem C07_checker_sound : forall k l s m, replay k init_after_setup mon0 l 0 = (s, m) -> m_diff m = None -> reach k s.
Proof. exact replayed_state_reachable. Qed.
Print Assumptions C07_checker_sound.
