(* Properties/C04.v — RunOnLoop: accepted functions run exactly once, in order, and are never left waiting. *)
From GN Require Import Common.Base Common.Int64 Model.Loop Model.LoopSrc Model.LoopTime Gen.LoopSkeleton
  Proofs.LoopFrame Proofs.LoopCtl Proofs.LoopTimers Proofs.LoopInv Proofs.LoopProps Proofs.LoopTime Cases.LoopCheck Proofs.LoopReplay Proofs.LoopProgress.
From GN Require Proofs.AuxBuffers.
Open Scope Z_scope.

(* in every reachable state, what has run, then what the current drain still holds, then the queue, is exactly the
   sequence of accepted submissions in the order their appends took effect — across Stop, Start, Run and Terminate *)
Theorem C04_queue_is_history : forall k s, reach k s -> executed s ++ batch s ++ aux s = accepted s.
Proof. exact queue_is_history. Qed.
Print Assumptions C04_queue_is_history.

Theorem C04_executed_prefix : forall k s, reach k s -> exists rest, accepted s = executed s ++ rest /\ rest = batch s ++ aux s.
Proof. exact executed_prefix. Qed.
Print Assumptions C04_executed_prefix.

Theorem C04_executed_once : forall k s, reach k s -> NoDup (accepted s) -> NoDup (executed s).
Proof. exact executed_once. Qed.
Print Assumptions C04_executed_once.

Theorem C04_refused_never_executed : forall k s x, reach k s -> NoDup (accepted s ++ refused s) -> In x (refused s) -> ~ In x (executed s).
Proof. exact refused_never_executed. Qed.
Print Assumptions C04_refused_never_executed.

Theorem C04_accept_iff_not_terminated : forall k s a b s',
  step k s aux_lock a b = Some s' ->
  (terminated s = false /\ accepted s' = accepted s ++ [a] /\ aux s' = aux s ++ [a] /\ refused s' = refused s) \/
  (terminated s = true /\ accepted s' = accepted s /\ aux s' = aux s /\ refused s' = refused s ++ [a]).
Proof. exact accept_iff_not_terminated. Qed.
Print Assumptions C04_accept_iff_not_terminated.

(* no lost wake-up: whenever the run thread is past its drain with a non-empty queue, a token is in the channel or a
   submitter is between its append and its send; a loop blocked in select with queued work always has a waker coming *)
Theorem C04_no_lost_wakeup : forall k s, reach k s -> awake (phase s) = true -> aux s <> [] -> token s = true \/ (0 < wakers s)%nat.
Proof. exact no_lost_wakeup. Qed.
Print Assumptions C04_no_lost_wakeup.

Theorem C04_blocked_with_work_has_waker : forall k s, reach k s -> phase s = LBlocked -> aux s <> [] -> (0 < wakers s)%nat.
Proof. exact blocked_with_work_has_waker. Qed.
Print Assumptions C04_blocked_with_work_has_waker.

(* progress form of "executed without any further submission being needed": while no stop was requested, every step of the
   run thread (other than serving a timer job: Go's select picks among ready arms at random) and every delivered wake-up
   strictly decreases a well-founded measure of the queued function x - (functions in front of it, not yet in the batch being
   executed, steps of the run thread to its next drain) - until x has run or the loop is on its way out ... *)
Theorem C04_head_progress : forall k s x m p a b s',
  reach k s -> tph s = TNone -> canrun s = true -> measure x s = Some m ->
  helpful p b = true -> step k s p a b = Some s' ->
  In x (executed s') \/ leaving (phase s') = true \/ (exists m', measure x s' = Some m' /\ lt3 m' m).
Proof. exact head_progress. Qed.
Print Assumptions C04_head_progress.

(* ... no step of a submitter, of Stop()/StopNoWait() or of a timer helper moves it away ... *)
Theorem C04_other_threads_keep : forall k s x m p a b s',
  reach k s -> running s = true -> measure x s = Some m -> neutral p = true -> step k s p a b = Some s' ->
  exists m', measure x s' = Some m' /\ le3 m' m.
Proof. exact other_threads_keep. Qed.
Print Assumptions C04_other_threads_keep.

(* ... a run thread blocked in its select with x queued always has a wake-up on its way, whose delivery is such a step ... *)
Theorem C04_blocked_is_woken : forall k s x m,
  reach k s -> phase s = LBlocked -> measure x s = Some m -> idx x (batch s) = None ->
  exists s', step k s aux_wakeup 0 0 = Some s' /\ phase s' = LArmW /\ exists m', measure x s' = Some m' /\ lt3 m' m.
Proof. exact blocked_is_woken. Qed.
Print Assumptions C04_blocked_is_woken.

(* ... and the measure cannot decrease for ever *)
Theorem C04_measure_well_founded : well_founded lt3.
Proof. exact lt3_wf. Qed.
Print Assumptions C04_measure_well_founded.

(* the queue as the two Go slices it is (backing arrays, lengths, capacities; append in place or with a fresh array of any
   capacity the runtime chooses): the code as written refines the two lists `aux` and `batch` of the model. In every state
   reachable by any interleaving of submissions with the steps of runAux the invariant holds - in particular the batch being
   executed and the queue never share a backing array - and: a submission appends to the queue and leaves the batch alone;
   the swap makes the queue the batch and empties the queue; the entry read for a call is never nil; clearing the slot removes
   the head of the batch and leaves the queue alone; at the end the emptied batch becomes the spare *)
Theorem C04_buffers_invariant_reachable : forall ops s', AuxBuffers.bruns AuxBuffers.binit ops = Some s' -> AuxBuffers.BInv s'.
Proof. intros ops s' H. exact (AuxBuffers.reachable_binv ops AuxBuffers.binit s' AuxBuffers.binit_inv H). Qed.
Print Assumptions C04_buffers_invariant_reachable.

Theorem C04_buffers_submit : forall s f c, AuxBuffers.BInv s ->
  let s' := AuxBuffers.do_append s f c in
  AuxBuffers.BInv s' /\ AuxBuffers.queue_of s' = AuxBuffers.queue_of s ++ [Some f] /\ AuxBuffers.batch_of s' = AuxBuffers.batch_of s.
Proof. exact AuxBuffers.submit_refines. Qed.
Print Assumptions C04_buffers_submit.

Theorem C04_buffers_swap : forall s, AuxBuffers.BInv s -> AuxBuffers.running s = None ->
  exists s', AuxBuffers.bstep s AuxBuffers.BSwap = Some (s', None) /\ AuxBuffers.BInv s' /\
             AuxBuffers.batch_of s' = AuxBuffers.queue_of s /\ AuxBuffers.queue_of s' = [].
Proof. exact AuxBuffers.swap_refines. Qed.
Print Assumptions C04_buffers_swap.

Theorem C04_buffers_call_never_nil : forall s x rest, AuxBuffers.BInv s -> AuxBuffers.batch_of s = x :: rest ->
  AuxBuffers.bstep s AuxBuffers.BCall = Some (s, Some x) /\ x <> None.
Proof. exact AuxBuffers.call_refines. Qed.
Print Assumptions C04_buffers_call_never_nil.

Theorem C04_buffers_clear : forall s x rest, AuxBuffers.BInv s -> AuxBuffers.batch_of s = x :: rest ->
  exists s', AuxBuffers.bstep s AuxBuffers.BClear = Some (s', None) /\ AuxBuffers.BInv s' /\
             AuxBuffers.batch_of s' = rest /\ AuxBuffers.queue_of s' = AuxBuffers.queue_of s.
Proof. exact AuxBuffers.clear_refines. Qed.
Print Assumptions C04_buffers_clear.

Theorem C04_buffers_done : forall s jobs i, AuxBuffers.BInv s -> AuxBuffers.running s = Some (jobs, i) -> AuxBuffers.batch_of s = [] ->
  exists s', AuxBuffers.bstep s AuxBuffers.BDone = Some (s', None) /\ AuxBuffers.BInv s' /\ AuxBuffers.running s' = None /\
             AuxBuffers.queue_of s' = AuxBuffers.queue_of s /\ AuxBuffers.batch_of s' = [].
Proof. exact AuxBuffers.done_refines. Qed.
Print Assumptions C04_buffers_done.

Theorem C04_terminate_runs_all_accepted : forall k s, reach k s -> (tph s = TCan \/ tph s = TDrain) -> executed s = accepted s /\ aux s = [].
Proof. exact terminate_runs_all_accepted. Qed.
Print Assumptions C04_terminate_runs_all_accepted.

(* the text of eventloop/eventloop.go, and the order of its synchronisation points, are what the model was written against *)
Theorem C04_source_tie : loop_funcs = expected_loop_funcs /\ loop_points = expected_loop_points.
Proof. exact (conj loop_source_unchanged loop_points_unchanged). Qed.
Print Assumptions C04_source_tie.

(* the hypotheses are met by real executions: the harness's set-up state is reachable *)
Theorem C04_reach_nonvacuous : forall k, reach k init_after_setup.
Proof. exact setup_reach. Qed.
Print Assumptions C04_reach_nonvacuous.

(* a controlled execution of the real loop whose log replays without difference ends in a reachable state of the model:
   the theorems above apply to the executions the harness observes *)
Theorem C04_checker_sound : forall k l s m, replay k init_after_setup mon0 l 0 = (s, m) -> m_diff m = None -> reach k s.
Proof. exact replayed_state_reachable. Qed.
Print Assumptions C04_checker_sound.
