(* Cases/LoopCheck.v — correspondence + oracles for the event loop (C03..C08): the observed trace of one controlled run
   is replayed on Model/Loop.v; monitors evaluate the properties on what the implementation did. *)
From GN Require Export Common.Base Model.Loop.
Open Scope Z_scope.

(* white-box snapshot taken just before a grant *)
Record snap := { s_jobcount : Z; s_jobs : nat; s_aux : nat; s_token : bool; s_canrun : bool; s_running : bool; s_terminated : bool }.

(* observations that are not transitions of the model *)
Inductive obsk :=
| o_cb_start | o_cb_end          (* a callback program starts / ends (a = callback id) *)
| o_aux_result                   (* RunOnLoop/SetTimeout/SetInterval returned (a = submission id, b = 1 accepted 0 refused) *)
| o_stop_returned                (* Stop() returned a *)
| o_run_returned
| o_terminate_returned.           (* Terminate() returned *)

Inductive lev :=
| LP (thread : nat) (p : pt) (arg arg2 : Z) (sn : snap)
| LE (thread : nat) (e : effk) (a b c : Z)
| LO (thread : nat) (o : obsk) (a b : Z).

Record case := {
  c_kinds : list (Z * subkind);
  c_log : list lev;
  c_final_jobs : nat;         (* len(loop.jobs) at the end (white box) *)
  c_final_count : Z           (* loop.jobCount at the end *)
}.

Fixpoint kind_of_list (l : list (Z * subkind)) (id : Z) : option subkind :=
  match l with [] => None | (i, k) :: r => if i =? id then Some k else kind_of_list r id end.

Definition snap_rest (s : lstate) (sn : snap) : bool :=
  Nat.eqb (length (jobs s)) (s_jobs sn) && Nat.eqb (length (aux s)) (s_aux sn) && Bool.eqb (token s) (s_token sn) &&
  Bool.eqb (canrun s) (s_canrun sn) && Bool.eqb (running s) (s_running sn) && Bool.eqb (terminated s) (s_terminated sn).
Definition snap_ok (s : lstate) (sn : snap) : bool := (jobcount s =? s_jobcount sn) && snap_rest s sn.

Definition has (l : list Z) (x : Z) : bool := existsb (Z.eqb x) l.

(* monitor state *)
Record mon := {
  m_active : nat;            (* callbacks executing *)
  m_expect : list Z;         (* callbacks the model says the last owner step starts, not yet observed *)
  m_started : list Z;
  m_bad : list Z;            (* 1 overlap, 2 callback while stopped, 3 callback of a cleared/terminated timer, 4 timeout or immediate
                                ran twice, 6 Run returned with live work, 7 Stop() returned a number other than the live jobs,
                                8 submission result differs from the terminated flag *)
  m_diff : option (nat * Z)  (* first disagreement model/implementation: 1 event impossible, 2 white-box state differs,
                                5 callbacks started differ from the model's *)
}.
Definition mon0 : mon := {| m_active := 0; m_expect := []; m_started := []; m_bad := []; m_diff := None |}.
Definition flag (m : mon) (b : Z) : mon :=
  {| m_active := m_active m; m_expect := m_expect m; m_started := m_started m; m_bad := b :: m_bad m; m_diff := m_diff m |}.
Definition differ (m : mon) (i : nat) (w : Z) : mon :=
  match m_diff m with
  | Some _ => m
  | None => {| m_active := m_active m; m_expect := m_expect m; m_started := m_started m; m_bad := m_bad m; m_diff := Some (i, w) |}
  end.
Definition with_expect (m : mon) (e : list Z) : mon :=
  {| m_active := m_active m; m_expect := e; m_started := m_started m; m_bad := m_bad m; m_diff := m_diff m |}.

Definition owner_active (s : lstate) : bool :=
  running s || match tph s with TNone => false | _ => true end.

Definition on_cb_start (s : lstate) (m : mon) (i : nat) (a : Z) : mon :=
  let m1 := if (0 <? m_active m)%nat then flag m 1 else m in
  let m2 := if owner_active s then m1 else flag m1 2 in
  let m3 := match find_t (timers s) a with
            | Some t =>
              let m' := if tj_cleared t then flag m2 3 else m2 in
              match tj_kind t with
              | TInterval => m'
              | _ => if has (m_started m') a then flag m' 4 else m'
              end
            | None => m2
            end in
  let m4 := match m_expect m3 with
            | x :: r => if x =? a then with_expect m3 r else differ m3 i 5
            | [] => differ m3 i 5
            end in
  {| m_active := S (m_active m4); m_expect := m_expect m4; m_started := m_started m4 ++ [a]; m_bad := m_bad m4; m_diff := m_diff m4 |}.

Definition on_obs (s : lstate) (m : mon) (i : nat) (o : obsk) (a b : Z) : mon :=
  match o with
  | o_cb_start => on_cb_start s m i a
  | o_cb_end => {| m_active := pred (m_active m); m_expect := m_expect m; m_started := m_started m; m_bad := m_bad m; m_diff := m_diff m |}
  | o_aux_result => if Bool.eqb (has (accepted s) a) (b =? 1) then m else flag m 8
  | o_stop_returned => if a =? live s then m else flag m 7
  | o_run_returned | o_terminate_returned => m
  end.

(* replay: the model state and monitor reached. After a difference in the job count alone the replay goes on without
   comparing counts, so that the oracles (which do not use the count) still see the rest of the run; it stops at the
   first event the model cannot take. *)
Fixpoint replay (kind_of : Z -> option subkind) (s : lstate) (m : mon) (l : list lev) (i : nat) : lstate * mon :=
  match l with
  | [] => (s, m)
  | LP _ p arg arg2 sn :: r =>
    let m0 := match m_expect m with [] => m | _ :: _ => differ (with_expect m []) i 5 end in
    let m1 := if snap_ok s sn then m0 else if snap_rest s sn then differ m0 i 2 else differ m0 i 2 in
    if snap_rest s sn then
      let m2 := match p with
                | run_exit => if natural_exit s && negb (live s =? 0) then flag m1 6 else m1
                | _ => m1
                end in
      match step kind_of s p arg arg2 with
      | Some s' => replay kind_of s' (with_expect m2 (skipn (length (cbs s)) (cbs s'))) r (S i)
      | None => (s, differ m2 i 1)
      end
    else (s, m1)
  | LE _ e a b c :: r =>
    match apply_eff s e a b c with
    | Some s' => replay kind_of s' (with_expect m (m_expect m ++ skipn (length (cbs s)) (cbs s'))) r (S i)
    | None => (s, differ m i 1)
    end
  | LO _ o a b :: r => replay kind_of s (on_obs s m i o a b) r (S i)
  end.

(* ---- the FIFO oracle of C04, computed from what the implementation reported only ---- *)
Fixpoint lock_order (l : list lev) : list Z :=
  match l with
  | [] => []
  | LP _ aux_lock sid _ _ :: r => sid :: lock_order r
  | _ :: r => lock_order r
  end.
Fixpoint results (l : list lev) : list (Z * Z) :=
  match l with
  | [] => []
  | LO _ o_aux_result sid ok :: r => (sid, ok) :: results r
  | _ :: r => results r
  end.
Fixpoint result_of (rs : list (Z * Z)) (sid : Z) : Z :=
  match rs with [] => 0 | (i, ok) :: r => if i =? sid then ok else result_of r sid end.
Definition run_cb (ks : list (Z * subkind)) (sid : Z) : option Z :=
  match kind_of_list ks sid with Some (KRun cb) => Some cb | _ => None end.
(* callbacks of accepted RunOnLoop submissions, in the order the submissions took effect *)
Definition expected_order (c : case) : list Z :=
  let rs := results (c_log c) in
  flat_map (fun sid => if result_of rs sid =? 1 then match run_cb (c_kinds c) sid with Some cb => [cb] | None => [] end else [])
           (lock_order (c_log c)).
Definition run_targets (c : case) : list Z :=
  flat_map (fun p => match snd p with KRun cb => [cb] | _ => [] end) (c_kinds c).
Fixpoint starts (l : list lev) : list Z :=
  match l with
  | [] => []
  | LO _ o_cb_start cb _ :: r => cb :: starts r
  | _ :: r => starts r
  end.
Definition observed_order (c : case) : list Z :=
  filter (fun cb => has (run_targets c) cb) (starts (c_log c)).

(* ---- C08: a timeout or interval requested before Terminate() returned whose callback had not started by then never runs,
   restarts included. Computed from the log alone (requests, returns of Terminate, callback starts). ---- *)
Definition start_target (ks : list (Z * subkind)) (sid : Z) : option Z :=
  match kind_of_list ks sid with Some (KStartTimeout t) | Some (KStartInterval t) => Some t | _ => None end.
Fixpoint silent_scan (ks : list (Z * subkind)) (l : list lev) (requested started silent : list Z) : bool :=
  match l with
  | [] => true
  | LO _ o_aux_result sid ok :: r =>
    silent_scan ks r (match start_target ks sid with Some t => if ok =? 1 then t :: requested else requested | None => requested end) started silent
  | LE _ e_js_timeout a _ _ :: r | LE _ e_js_interval a _ _ :: r => silent_scan ks r (a :: requested) started silent
  | LO _ o_terminate_returned _ _ :: r =>
    silent_scan ks r requested started (filter (fun t => negb (has started t)) requested ++ silent)
  | LO _ o_cb_start a _ :: r => if has silent a then false else silent_scan ks r requested (a :: started) silent
  | _ :: r => silent_scan ks r requested started silent
  end.

(* ---- C07: the loop leaves through the canRun test only if a stop was requested since it was (re)started.
   Computed from the log alone. ---- *)
Fixpoint self_stop_scan (l : list lev) (requested after_canrun : bool) : bool :=
  match l with
  | [] => true
  | LP _ setrunning _ _ sn :: r => self_stop_scan r (if s_running sn then requested else false) after_canrun
  | LP _ stop_request _ _ _ :: r | LP _ stopnowait _ _ _ :: r => self_stop_scan r true after_canrun
  | LP _ run_canrun _ _ _ :: r => self_stop_scan r requested true
  | LP _ run_select _ _ _ :: r => self_stop_scan r requested false
  | LP _ run_leave _ _ sn :: r => if after_canrun && (0 <? s_jobcount sn) && negb requested then false else self_stop_scan r requested false
  | _ :: r => self_stop_scan r requested after_canrun
  end.

Definition check_case (c : case) : list verdict :=
  let '(s, m) := replay (kind_of_list (c_kinds c)) init_after_setup mon0 (c_log c) 0 in
  (match m_diff m with Some (_, why) => [Diff (Z.to_N why)] | None => [] end) ++
  (if has (m_bad m) 1 then [SpecFail 1] else []) ++
  (if has (m_bad m) 2 then [SpecFail 2] else []) ++
  (if list_eqb Z.eqb (observed_order c) (expected_order c) then [] else [SpecFail 3]) ++
  (if has (m_bad m) 4 then [SpecFail 4] else []) ++
  (if has (m_bad m) 3 then [SpecFail 5] else []) ++
  (if has (m_bad m) 6 then [SpecFail 6] else []) ++
  (if has (m_bad m) 7 then [SpecFail 7] else []) ++
  (if has (m_bad m) 8 then [SpecFail 8] else []) ++
  (if (c_final_count c =? 0) then [] else [SpecFail 9]) ++
  (if Nat.eqb (c_final_jobs c) 0 then [] else [SpecFail 10]) ++
  (if silent_scan (c_kinds c) (c_log c) [] [] [] then [] else [SpecFail 11]) ++
  (if self_stop_scan (c_log c) false false then [] else [SpecFail 12]) ++
  (* what the model says about the end state: everything accepted was executed, in order (the run ends with Terminate) *)
  match m_diff m with
  | Some _ => []
  | None => (if list_eqb Z.eqb (executed s) (accepted s) then [] else [Diff 6]) ++
            (if (jobcount s =? c_final_count c) then [] else [Diff 7])
  end.

Definition run_cases (cs : list (N * case)) : list (N * verdict) := check_list check_case cs.
