(* Cases/C14Check.v — correspondence + oracle for new URL(reference, base) (C14), per component, after percent-decoding. *)
From GN Require Export Common.Base Gen.UrlTables Model.SearchParams Spec.SearchParamsSpec Spec.Rfc3986 Model.UrlResolve.
Open Scope Z_scope.

Definition gocomps := option (option zs * option zs * zs * option zs * option zs)%type.

Record case := {
  c_ref : zs; c_base : zs; c_single : bool;
  c_exp_scheme : zs; c_exp_auth : zs;          (* by construction of the generator: lower-case scheme; userinfo, host in its normal form, port unless default *)
  c_go_ref : gocomps; c_go_base : gocomps;      (* net/url's parse of both strings *)
  r_protocol : zs; r_auth : zs; r_path : zs; r_search : zs; r_hash : zs
}.

Definition dec_path (p : rpath) : rpath :=
  match p with PEmpty => PEmpty | PAbs s => PAbs (map pct_decode s) | PRel s => PRel (map pct_decode s) end.
Definition rpath_eqb (a b : rpath) : bool :=
  match a, b with
  | PEmpty, PEmpty => true
  | PAbs x, PAbs y | PRel x, PRel y => list_eqb zs_eqb x y
  | _, _ => false
  end.
Definition opt_dec (o : option zs) : zs := match o with Some q => pct_decode q | None => [] end.
Definition drop1 (ch : Z) (s : zs) : zs := match s with c :: r => if c =? ch then r else s | [] => [] end.

Definition of_go (g : gocomps) : option comps :=
  match g with
  | Some (sc, au, p, q, f) => Some (mkC sc au (parse_path p) q f)
  | None => None
  end.

(* compare a computed result with what the implementation returned: 1 scheme 2 authority 3 path 4 query 5 fragment *)
Definition cmp (check_auth : bool) (exp_scheme exp_auth : zs) (T : comps) (c : case) : list N :=
  (if zs_eqb (exp_scheme ++ [58]) (r_protocol c) then [] else [1%N]) ++
  (if negb check_auth || zs_eqb exp_auth (r_auth c) then [] else [2%N]) ++
  (if rpath_eqb (dec_path (c_path T)) (dec_path (parse_path (r_path c))) then [] else [3%N]) ++
  (if zs_eqb (opt_dec (c_query T)) (pct_decode (drop1 63 (r_search c))) then [] else [4%N]) ++
  (if zs_eqb (opt_dec (c_frag T)) (pct_decode (drop1 35 (r_hash c))) then [] else [5%N]).

Definition spec_result (c : case) : comps :=
  if c_single c then spec_resolve (parse_ref (c_ref c)) (mkC None None PEmpty None None)     (* the URL itself, normalised *)
  else spec_resolve (parse_ref (c_base c)) (parse_ref (c_ref c)).

Definition keep_frag (c : case) (T : comps) : comps :=
  if c_single c then mkC (c_scheme T) (c_auth T) (c_path T) (c_query (parse_ref (c_ref c))) (c_frag (parse_ref (c_ref c))) else T.

Definition check_case (c : case) : list verdict :=
  map SpecFail (cmp true (c_exp_scheme c) (c_exp_auth c) (keep_frag c (spec_result c)) c) ++
  match of_go (c_go_ref c), (if c_single c then Some (mkC None None PEmpty None None) else of_go (c_go_base c)) with
  | Some R, Some B =>
    let T := if c_single c then keep_frag c (impl_resolve R (mkC None None PEmpty None None)) else impl_resolve B R in
    let T := if c_single c then mkC (c_scheme T) (c_auth T) (c_path T) (c_query R) (c_frag R) else T in
    map Diff (cmp false (c_exp_scheme c) [] T c)
  | _, _ => [Diff 9]
  end.

Definition run_cases (cs : list (N * case)) : list (N * verdict) := check_list check_case cs.
