(* Cases/C20Check.v — correspondence + spec oracle for one observed history of C20 *)
From GN Require Export Common.Base Gen.ProcessEnv Model.Process.

Record case := {
  c_env : list zs;                 (* environment handed to the child process *)
  c_env_sorted : list zs;
  c_pairs : list (zs * zs);        (* the (name, value) pairs it was built from — generator's ground truth *)
  c_nrt : nat;
  c_ops : list hop;                (* operations of the runtimes and of the host (os.Setenv / os.Unsetenv) *)
  c_obs : list (list (option envmap));   (* after each op, Object.entries(process.env) of every runtime, sorted by key; [] = nothing was read after this op *)
  c_host_after : list zs                  (* os.Environ() at the end, sorted *)
}.

Fixpoint keys_nodup (m : envmap) : bool :=
  match m with
  | [] => true
  | (k, _) :: r => match lookup k r with Some _ => false | None => keys_nodup r end
  end.

Definition same_map (obs model : envmap) : bool :=
  Nat.eqb (length obs) (length model) && keys_nodup obs &&
  forallb (fun kv => option_eqb zs_eqb (lookup (fst kv) model) (Some (snd kv))) obs.

Definition same_opt (obs model : option envmap) : bool :=
  match obs, model with
  | None, None => true
  | Some a, Some b => same_map a b
  | _, _ => false
  end.

Fixpoint seqn (n : nat) : list nat := match n with O => [] | S k => seqn k ++ [k] end.

Definition all_rts_agree (nrt : nat) (obs : list (option envmap)) (f : nat -> option envmap) : bool :=
  Nat.eqb (length obs) nrt &&
  forallb (fun r => same_opt (nth r obs None) (f r)) (seqn nrt).

Definition unobserved (ob : list (option envmap)) : bool := match ob with [] => true | _ => false end.

(* correspondence: the model replays the history and must agree after every operation that was followed by a reading *)
Fixpoint model_agrees (nrt : nat) (w : world) (ops : list hop) (obs : list (list (option envmap))) : bool :=
  match ops, obs with
  | [], [] => true
  | o :: ops', ob :: obs' =>
    match hstep w o with
    | None => false
    | Some w' => (unobserved ob || all_rts_agree nrt ob (rt_env w')) && model_agrees nrt w' ops' obs'
    end
  | _, _ => false
  end.

(* specification oracle, independent of Model.build_env: a runtime that has required process sees exactly the pairs the
   host had at that moment (the generator's pairs, changed by the host's own Setenv/Unsetenv up to then), modified only
   by its own assignments and deletes *)
Definition spec_step (f : nat -> option envmap) (ps : envmap) (o : hop) : (nat -> option envmap) * envmap :=
  match o with
  | RtOp (Req r) => (match f r with Some _ => f | None => upd_rt f r (Some ps) end, ps)
  | RtOp (SetVar r k v) => (match f r with Some m => upd_rt f r (Some (set_key k v m)) | None => f end, ps)
  | RtOp (DelVar r k) => (match f r with Some m => upd_rt f r (Some (remove_key k m)) | None => f end, ps)
  | HostSet k v => (f, set_key k v ps)
  | HostUnset k => (f, remove_key k ps)
  end.

Definition hop_rt (o : hop) : option nat := match o with RtOp x => Some (op_rt x) | _ => None end.

Fixpoint spec_check (nrt : nat) (f : nat -> option envmap) (ps : envmap) (ops : list hop)
         (obs : list (list (option envmap))) : list verdict * envmap :=
  match ops, obs with
  | o :: ops', ob :: obs' =>
    let '(f', ps') := spec_step f ps o in
    let own := match hop_rt o with Some r => same_opt (nth r ob None) (f' r) | None => true end in
    let others := forallb (fun r => (match hop_rt o with Some r0 => Nat.eqb r r0 | None => false end) || same_opt (nth r ob None) (f' r)) (seqn nrt) in
    let '(rest, psf) := spec_check nrt f' ps' ops' obs' in
    ((if unobserved ob || own then [] else [SpecFail 1]) ++ (if unobserved ob || others then [] else [SpecFail 2]) ++ rest, psf)
  | _, _ => ([], ps)
  end.

Definition check (c : case) : list verdict :=
  let '(vs, psf) := spec_check (c_nrt c) (fun _ => None) (c_pairs c) (c_ops c) (c_obs c) in
  (if model_agrees (c_nrt c) (init_world (c_env c)) (c_ops c) (c_obs c) then [] else [Diff 1]) ++
  vs ++
  (* the host's own environment at the end: the generator's pairs changed by the host's own calls only *)
  (* (split at the first '=' here, not with the constants translated from the source: the oracle must not depend on them) *)
  (let hm := fold_left (fun m e => match split_at_first 61 e with Some (a, b) => set_key a b m | None => set_key e [] m end) (c_host_after c) [] in
   if same_map hm psf then [] else [SpecFail 3]).

Definition run_cases := check_list check.
