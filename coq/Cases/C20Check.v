(* Cases/C20Check.v — correspondence + spec oracle for one observed history of C20 *)
From GN Require Export Common.Base Gen.ProcessEnv Model.Process.

Record case := {
  c_env : list zs;                 (* environment handed to the child process *)
  c_env_sorted : list zs;
  c_pairs : list (zs * zs);        (* the (name, value) pairs it was built from — generator's ground truth *)
  c_nrt : nat;
  c_ops : list op;
  c_obs : list (list (option envmap));   (* after each op, Object.entries(process.env) of every runtime, sorted by key *)
  c_host_after : list zs                  (* os.Environ() at the end, sorted *)
}.

Fixpoint keys_nodup (m : envmap) : bool :=
  match m with
  | [] => true
  | (k, _) :: r => match lookup k r with Some _ => false | None => keys_nodup r end
  end.

Definition same_map (obs model : envmap) : bool :=
  Nat.eqb (length obs) (length model) && keys_nodup obs &&
  forallb (fun kv => option_eqb zs_eqb (lookup (fst kv) model) (Some (snd kv))) obs.

Definition same_opt (obs model : option envmap) : bool :=
  match obs, model with
  | None, None => true
  | Some a, Some b => same_map a b
  | _, _ => false
  end.

Fixpoint seqn (n : nat) : list nat := match n with O => [] | S k => seqn k ++ [k] end.

Definition all_rts_agree (nrt : nat) (obs : list (option envmap)) (f : nat -> option envmap) : bool :=
  Nat.eqb (length obs) nrt &&
  forallb (fun r => same_opt (nth r obs None) (f r)) (seqn nrt).

(* correspondence: the model replays the history and must agree after every operation *)
Fixpoint model_agrees (nrt : nat) (w : world) (ops : list op) (obs : list (list (option envmap))) : bool :=
  match ops, obs with
  | [], [] => true
  | o :: ops', ob :: obs' =>
    match step w o with
    | None => false
    | Some w' => all_rts_agree nrt ob (rt_env w') && model_agrees nrt w' ops' obs'
    end
  | _, _ => false
  end.

(* specification oracle, independent of Model.build_env: a runtime that has required process sees
   exactly the generator's pairs, modified only by its own assignments and deletes *)
Definition spec_step (f : nat -> option envmap) (ps : envmap) (o : op) : nat -> option envmap :=
  match o with
  | Req r => match f r with Some _ => f | None => upd_rt f r (Some ps) end
  | SetVar r k v => match f r with Some m => upd_rt f r (Some (set_key k v m)) | None => f end
  | DelVar r k => match f r with Some m => upd_rt f r (Some (remove_key k m)) | None => f end
  end.

Fixpoint spec_check (nrt : nat) (f : nat -> option envmap) (ps : envmap) (ops : list op)
         (obs : list (list (option envmap))) : list verdict :=
  match ops, obs with
  | o :: ops', ob :: obs' =>
    let f' := spec_step f ps o in
    let own := same_opt (nth (op_rt o) ob None) (f' (op_rt o)) in
    let others := forallb (fun r => Nat.eqb r (op_rt o) || same_opt (nth r ob None) (f' r)) (seqn nrt) in
    (if own then [] else [SpecFail 1]) ++ (if others then [] else [SpecFail 2]) ++
    spec_check nrt f' ps ops' obs'
  | _, _ => []
  end.

Definition check (c : case) : list verdict :=
  (if model_agrees (c_nrt c) (init_world (c_env c)) (c_ops c) (c_obs c) then [] else [Diff 1]) ++
  spec_check (c_nrt c) (fun _ => None) (c_pairs c) (c_ops c) (c_obs c) ++
  (if list_eqb zs_eqb (c_host_after c) (c_env_sorted c) then [] else [SpecFail 3]).

Definition run_cases := check_list check.
