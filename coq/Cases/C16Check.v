(* Cases/C16Check.v — the model of the escaper against encoding/json itself, and the lexer oracle on its output *)
From GN Require Export Common.Base Gen.RequireGlue Model.JsonModule.

Record case := { k_text : zs; k_go_lit : zs }.

Definition check (c : case) : list verdict :=
  (if option_eqb zs_eqb (escape_literal (k_text c)) (Some (k_go_lit c)) then [] else [Diff 1]) ++
  (match lex_dq (k_go_lit c ++ json_post ++ wrap_post) with
   | Some (v, rest) => if zs_eqb v (k_text c) && zs_eqb rest (json_post ++ wrap_post) then [] else [SpecFail 1]
   | None => [SpecFail 1]
   end).

Definition run_cases := check_list check.
