(* Cases/C18Check.v — the order of callbacks observed on the real loop is judged by the acceptor of Model/JsOrder.v. *)
From GN Require Export Common.Base Model.JsOrder.
Open Scope nat_scope.

Record case := { c_prog : program; c_log : list nat }.

(* every callback that was scheduled and neither cleared nor skipped by a throw must have run when Run() returned:
   at the end of an accepted complete log no timer is left armed *)
Definition check_case (c : case) : list verdict :=
  match c_log c with
  | 0 :: r =>
    match accept (c_prog c) (start (c_prog c) init_state 0) r with
    | None => [SpecFail 1]                                   (* the order is not one the rules allow *)
    | Some s =>
      (if bad s then [Diff 1] else []) ++
      (match micro s with [] => [] | _ => [SpecFail 2] end) ++   (* a queued reaction never ran *)
      (match imm s with [] => [] | _ => [SpecFail 3] end) ++     (* a requested immediate never ran *)
      (match timers s with [] => [] | _ => [SpecFail 4] end)     (* Run() returned with an armed, uncleared timer that never ran *)
    end
  | _ => [SpecFail 1]
  end.

Definition run_cases (cs : list (N * case)) : list (N * verdict) := check_list check_case cs.
