(* Cases/ReqCheck.v — correspondence + oracles for require(): shared by C01 (cache), C02 (resolution), C15 (native names) *)
From GN Require Export Common.Base Model.Paths Model.Require Spec.NodeResolve.
Open Scope Z_scope.

Definition event := (zs * zs * (Z * nat * list (nat * nat)))%type.

Record case := {
  c_fs : fsys; c_nat : natives;
  c_calls : list (zs * zs);                 (* directory of the calling script ("." from Go), request *)
  c_events : list event;                    (* requirer ("" = top level), request, outcome — in order *)
  c_files : list zs;                        (* per event: __filename / native marker of the module obtained ("" otherwise) *)
  c_evcounts : list nat;                    (* per event: evaluation counter of that file at that moment *)
  c_counters : list (zs * nat);             (* evaluations per file at the end *)
  c_loader_log : list zs;                   (* SourceLoader calls in order *)
  c_native_runs : list (zs * nat)           (* native loader invocations *)
}.

Definition fuel : nat := 40.

Fixpoint run_calls (fs : fsys) (nt : natives) (st : rstate) (calls : list (zs * zs)) : rstate :=
  match calls with
  | [] => st
  | (dir, req) :: r => run_calls fs nt (fst (top_require fs nt fuel st (parse dir) req)) r
  end.

(* canonical identities: rank of first appearance among successful outcomes *)
Fixpoint rank_of (seen : list nat) (m : nat) : option nat :=
  match seen with [] => None | x :: r => if Nat.eqb x m then Some (length r) else rank_of r m end.

Fixpoint canon (seen : list nat) (evs : list event) : list event :=
  match evs with
  | [] => []
  | (who, req, (k, m, ex)) :: r =>
    if k =? 0 then
      match rank_of seen m with
      | Some i => (who, req, (k, i, ex)) :: canon seen r
      | None => (who, req, (k, length seen, ex)) :: canon (m :: seen) r
      end
    else (who, req, (k, m, ex)) :: canon seen r
  end.

Definition pair_nn_eqb (a b : nat * nat) : bool := Nat.eqb (fst a) (fst b) && Nat.eqb (snd a) (snd b).
Definition sort_keys (l : list (nat * nat)) : list (nat * nat) := l.

Definition event_eqb (a b : event) : bool :=
  let '(w1, r1, (k1, m1, e1)) := a in let '(w2, r2, (k2, m2, e2)) := b in
  zs_eqb w1 w2 && zs_eqb r1 r2 && (k1 =? k2) && Nat.eqb m1 m2 && list_eqb pair_nn_eqb e1 e2.

Definition kind_name (k : nkind) : zs :=
  match k with NRegistry => [114;101;103;105;115;116;114;121] | NGlobal => [103;108;111;98;97;108] | NCore => [99;111;114;101] end.

Definition owner_marker (o : owner) : zs :=
  match o with
  | OFile p => p
  | ONative name k => [110;97;116;105;118;101;58] ++ kind_name k ++ 58 :: name      (* "native:<kind>:<name>" *)
  end.

(* files of the modules the model hands out, per event *)
Definition model_files (st : rstate) : list zs :=
  map (fun ev => let '(_, _, (k, m, _)) := ev in
                 if k =? 0 then match nth_error (store st) m with Some r => owner_marker (m_owner r) | None => [] end else [])
      (rev (events st)).

Fixpoint files_agree (model obs : list zs) : bool :=
  match model, obs with
  | [], [] => true
  | m :: mr, o :: orr => (zs_eqb m o || (match o with [] => has_prefix [110;97;116;105;118;101;58] m | _ => false end)) && files_agree mr orr
  | _, _ => false
  end.

Definition counters_eqb (a b : list (zs * nat)) : bool :=
  Nat.eqb (length a) (length b) && forallb (fun kv => match cache_get b (fst kv) with Some n => Nat.eqb n (snd kv) | None => false end) a.

(* ---- C02 oracle: each event's outcome against the Node algorithm ---- *)
Definition is_native_name (nt : natives) (req : zs) : bool :=
  mem_zs req (n_registry nt) || mem_zs req (n_global nt) || mem_zs req (n_core nt) || has_prefix node_prefix req.

Fixpoint spec_events (fs : fsys) (nt : natives) (calls : list (zs * zs)) (evs : list event) (files : list zs) : bool :=
  match evs, files with
  | [], _ => true
  | (who, req, (k, _, _)) :: r, f :: fr =>
    let dir_rest := match who with
                    | [] => match calls with (d, _) :: cr => (parse d, cr) | [] => (parse [46], []) end
                    | _ => (pdir (parse who), calls)
                    end in
    let ok :=
      if is_file_or_dir_path req || negb (is_native_name nt req) then
        match spec_resolve fs (fst dir_rest) req with
        | SFile p => if k =? 0 then zs_eqb f p else true      (* selected; or its evaluation failed (any error propagates) *)
        | SNotFound => k =? 1
        | SIOError _ => k =? 2
        end
      else true in
    ok && spec_events fs nt (snd dir_rest) r fr
  | _, [] => false
  end.

(* ---- C15 oracle: which implementation a name yields depends on the registrations only ---- *)
Definition spec_native (nt : natives) (req : zs) : option (option zs) :=      (* Some (Some marker) | Some None = nobuiltin | None = not a native name *)
  let stripped := skipn (length node_prefix) req in
  if mem_zs req (n_registry nt) then Some (Some (owner_marker (ONative req NRegistry)))
  else if mem_zs req (n_global nt) then Some (Some (owner_marker (ONative req NGlobal)))
  else if mem_zs req (n_core nt) then Some (Some (owner_marker (ONative req NCore)))
  else if has_prefix node_prefix req then
    (if mem_zs stripped (n_core nt) then Some (Some (owner_marker (ONative stripped NCore))) else Some None)
  else None.

Definition real_core (name : zs) : bool :=     (* core modules of the library itself carry no marker *)
  mem_zs name [[98;117;102;102;101;114]; [99;111;110;115;111;108;101]; [112;114;111;99;101;115;115]; [117;114;108]; [117;116;105;108]].

Fixpoint native_events (nt : natives) (evs : list event) (files : list zs) : bool :=
  match evs, files with
  | [], _ => true
  | (_, req, (k, _, _)) :: r, f :: fr =>
    (if is_file_or_dir_path req then true else
     match spec_native nt req with
     | Some (Some marker) => ((k =? 0) && (zs_eqb f marker || (match f with [] => true | _ => false end))) || (k =? 5)   (* or the loader itself threw *)
     | Some None => k =? 3
     | None => true
     end) && native_events nt r fr
  | _, [] => false
  end.

(* same native name (modulo the node: prefix of a non-overridden core module) -> same object, in any order *)
Definition native_key (nt : natives) (req : zs) : option zs :=
  match spec_native nt req with Some (Some marker) => Some marker | _ => None end.

Fixpoint same_native_same_id (nt : natives) (evs : list event) (seen : list (zs * nat)) : bool :=
  match evs with
  | [] => true
  | (_, req, (k, m, _)) :: r =>
    if (k =? 0) && negb (is_file_or_dir_path req) then
      match native_key nt req with
      | Some key => match cache_get seen key with
                    | Some m' => Nat.eqb m m' && same_native_same_id nt r seen
                    | None => same_native_same_id nt r ((key, m) :: seen)
                    end
      | None => same_native_same_id nt r seen
      end
    else same_native_same_id nt r seen
  end.

(* ---- C01 oracles on the observed trace alone ---- *)
(* two successful requires of one file with the same evaluation counter return the identical exports;
   a different counter needs a failed evaluation in between *)
Fixpoint c01_identity (evs : list event) (files : list zs) (cnts : list nat) (seen : list (zs * (nat * nat))) (failures : nat) (seenf : list (zs * nat)) : bool :=
  match evs, files, cnts with
  | [], _, _ => true
  | (_, _, (k, m, _)) :: r, f :: fr, c :: cr =>
    if negb (k =? 0) then c01_identity r fr cr seen (S failures) seenf
    else if (k =? 0) && negb (match f with [] => true | _ => false end) && negb (has_prefix [110;97;116;105;118;101;58] f) && negb (Nat.eqb c 0) then
      match cache_get (map (fun x => (fst x, fst (snd x))) seen) f, cache_get (map (fun x => (fst x, snd (snd x))) seen) f, cache_get seenf f with
      | Some c0, Some m0, Some fl0 =>
        (if Nat.eqb c c0 then Nat.eqb m m0 else Nat.ltb fl0 failures) &&
        c01_identity r fr cr ((f, (c, m)) :: seen) failures ((f, failures) :: seenf)
      | _, _, _ => c01_identity r fr cr ((f, (c, m)) :: seen) failures ((f, failures) :: seenf)
      end
    else c01_identity r fr cr seen failures seenf
  | _, _, _ => false
  end.

Definition check (c : case) : list verdict :=
  let st := run_calls (c_fs c) (c_nat c) init_state (c_calls c) in
  (if list_eqb event_eqb (canon [] (rev (events st))) (c_events c) then [] else [Diff 1]) ++
  (if files_agree (model_files st) (c_files c) then [] else [Diff 2]) ++
  (if counters_eqb (counters st) (c_counters c) then [] else [Diff 3]) ++
  (if list_eqb zs_eqb (rev (loader_log st)) (c_loader_log c) then [] else [Diff 4]) ++
  (if Nat.eqb (length (filter (fun nk => negb (match snd nk with NCore => real_core (fst nk) | _ => false end)) (native_runs st))) (fold_right (fun kv a => (snd kv + a)%nat) O (c_native_runs c)) then [] else [Diff 5]) ++
  (if spec_events (c_fs c) (c_nat c) (c_calls c) (c_events c) (c_files c) then [] else [SpecFail 1]) ++
  (if native_events (c_nat c) (c_events c) (c_files c) then [] else [SpecFail 2]) ++
  (if same_native_same_id (c_nat c) (c_events c) [] then [] else [SpecFail 3]) ++
  (if forallb (fun kv => Nat.leb (snd kv) 1) (c_native_runs c) then [] else [SpecFail 4]) ++
  (if c01_identity (c_events c) (c_files c) (c_evcounts c) [] O [] then [] else [SpecFail 5]).

Definition run_cases := check_list check.
