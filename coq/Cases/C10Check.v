(* Cases/C10Check.v — correspondence + spec oracle for the numeric Buffer methods *)
From GN Require Export Common.Base Common.Int64 Model.BufferTypes Gen.BufferMethods Model.Buffer Spec.BufferNumSpec.
From Coq Require Export String.
Open Scope string_scope.
Open Scope list_scope.
Open Scope Z_scope.

Inductive observed := OOk (r : jsres) | OThrow (cls : Z) | OPanic | OHang.

Record case := { k_name : string; k_buf : list Z; k_args : list jsarg; k_obs : observed; k_after : list Z }.

Definition lzeqb := list_eqb Z.eqb.

Definition jsres_eqb (a b : jsres) : bool :=
  match a, b with
  | RInt x, RInt y | RF64 x, RF64 y | RBig x, RBig y => x =? y
  | RNaN, RNaN => true
  | _, _ => false
  end.

Definition check (c : case) : list verdict :=
  let m := call_method (k_name c) (k_buf c) (k_args c) in
  let s := spec_call (k_name c) (k_buf c) (k_args c) in
  (match m, k_obs c with
   | Some (MOk b r), OOk r' => if jsres_eqb r r' && lzeqb b (k_after c) then [] else [Diff 1]
   | Some (MThrow cl), OThrow cl' => if (cl =? cl') && lzeqb (k_buf c) (k_after c) then [] else [Diff 2]
   | Some MPanic, OPanic => []
   | _, _ => [Diff 3]
   end) ++
  (match s, k_obs c with
   | Some (SOk b r), OOk r' => if jsres_eqb r r' && lzeqb b (k_after c) then [] else [SpecFail 1]   (* wrong bytes / stray byte / wrong return *)
   | Some SThrow, OThrow cl => if ((cl =? 1) || (cl =? 2)) && lzeqb (k_buf c) (k_after c) then [] else [SpecFail 2]  (* wrong class or buffer changed *)
   | Some (SOk _ _), OThrow _ => [SpecFail 3]     (* rejected a representable, in-range write/read *)
   | Some SThrow, OOk _ => [SpecFail 4]           (* accepted what must be rejected *)
   | _, OPanic => [SpecFail 5]
   | _, OHang => [SpecFail 6]
   | None, _ => [SpecFail 7]                      (* a numeric method the specification table does not know *)
   end).

Definition run_cases := check_list check.
