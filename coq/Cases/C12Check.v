(* Cases/C12Check.v — correspondence + spec oracle for URLSearchParams *)
From GN Require Export Common.Base Gen.UrlTables Model.SearchParams Spec.SearchParamsSpec.

Inductive initform := IStr (q : zs) | IPairs (l : plist).

(* ORoundTrip is a harness-only observation: Array.from(new URLSearchParams(p.toString())) *)
Inductive hop := HOp (o : op) | HRoundTrip.

Inductive case :=
| HistCase (i : initform) (ops : list hop) (observed : list obs)
| ParseCase (q : zs) (observed : plist).

Definition plist_eqb := list_eqb pair_eqb'.

Definition item_eqb (a b : zs + zs + pair) : bool :=
  match a, b with
  | inl (inl x), inl (inl y) => zs_eqb x y
  | inl (inr x), inl (inr y) => zs_eqb x y
  | inr p, inr q => pair_eqb' p q
  | _, _ => false
  end.

Definition obs_eqb (a b : obs) : bool :=
  match a, b with
  | BNone, BNone => true
  | BOptStr x, BOptStr y => option_eqb zs_eqb x y
  | BStrs x, BStrs y => list_eqb zs_eqb x y
  | BBool x, BBool y => Bool.eqb x y
  | BNat x, BNat y => Nat.eqb x y
  | BStr x, BStr y => zs_eqb x y
  | BPairs x, BPairs y => plist_eqb x y
  | BIter x, BIter y => Nat.eqb x y
  | BItem x, BItem y => option_eqb item_eqb x y
  | _, _ => false
  end.

Definition init_of (f : plist -> plist) (parse : zs -> plist) (i : initform) : spstate :=
  init (match i with IStr q => parse q | IPairs l => l end).

(* replay with a step function; HRoundTrip observes parse (serialize items) in the model, items in the spec *)
Fixpoint replay (stp : spstate -> op -> spstate * obs) (rt : plist -> plist) (s : spstate) (ops : list hop) : list obs :=
  match ops with
  | [] => []
  | HOp o :: r => let '(s', b) := stp s o in b :: replay stp rt s' r
  | HRoundTrip :: r => BPairs (rt (items s)) :: replay stp rt s r
  end.

Definition check (c : case) : list verdict :=
  match c with
  | HistCase i ops observed =>
    let m := replay step (fun l => parse_query (serialize l)) (init_of id parse_query i) ops in
    let sp := replay spec_step (fun l => l) (init_of id whatwg_parse i) ops in
    (if list_eqb obs_eqb m observed then [] else [Diff 1]) ++
    (if list_eqb obs_eqb sp observed then [] else [SpecFail 1])
  | ParseCase q observed =>
    (if plist_eqb (parse_query q) observed then [] else [Diff 2]) ++
    (if plist_eqb (whatwg_parse q) observed then [] else [SpecFail 2])
  end.

Definition run_cases := check_list check.
