(* Cases/C17Check.v — loader counts observed with many runtimes on one Registry, against the compile-cache model. *)
From Coq Require Import Arith.
From GN Require Export Common.Base Model.RegistryShare.
Open Scope nat_scope.

Record case := { c_reqs : list nat; c_ok : list bool; c_counts : list nat; c_shared : bool; c_evals_ok : bool }.

Definition ok_of (c : case) (p : nat) : bool := nth p (c_ok c) false.

Definition check_case (c : case) : list verdict :=
  let final := requests (ok_of c) empty (c_reqs c) in
  let ids := seq 0 (length (c_ok c)) in
  (* the property on the observed counts: a loadable file is fetched at most once *)
  (if forallb (fun p => negb (ok_of c p) || (nth p (c_counts c) 0 <=? 1)) ids then [] else [SpecFail 1]) ++
  (if c_shared c then [SpecFail 2] else []) ++
  (if c_evals_ok c then [] else [SpecFail 3]) ++
  (* the model's prediction for loadable files (the count of a failing file depends on which probes each require makes) *)
  (if forallb (fun p => negb (ok_of c p) || Nat.eqb (count_occ Nat.eq_dec (loads final) p) (nth p (c_counts c) 0)) ids then [] else [Diff 1]).

Definition run_cases (cs : list (N * case)) : list (N * verdict) := check_list check_case cs.
