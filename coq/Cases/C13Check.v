(* Cases/C13Check.v — correspondence + oracles for the URL object (C13). *)
From GN Require Export Common.Base Gen.UrlTables Gen.UrlGlue Model.SearchParams Model.UrlObject.
Open Scope Z_scope.

Record uobs := {
  o_href : zs; o_tostring : zs; o_tojson : zs; o_search : zs; o_host : zs; o_hostname : zs; o_port : zs; o_protocol : zs;
  o_params : option plist;       (* None: the searchParams getter was not called at this step *)
  o_threw : bool;
  o_silent : bool                (* the step was made blind: nothing but "did it throw" was read back *)
}.

Record case := {
  c_base : zs; c_early : bool; c_ops : list uop; c_obs : list uobs;
  c_parse : list (zs * option (zs * zs * zs * zs * zs));
  c_hostok : list (zs * zs * bool);
  c_lower : list (zs * zs);
  c_norm : list (zs * option zs)
}.

Fixpoint lookup {A} (l : list (zs * A)) (k : zs) : option A :=
  match l with [] => None | (k', v) :: r => if zs_eqb k k' then Some v else lookup r k end.
Fixpoint lookup2 (l : list (zs * zs * bool)) (a b : zs) : option bool :=
  match l with [] => None | (a', b', v) :: r => if zs_eqb a a' && zs_eqb b b' then Some v else lookup2 r a b end.

Definition parse_of (c : case) (v : zs) := match lookup (c_parse c) v with Some r => r | None => None end.
Definition hostok_of (c : case) (sc v : zs) := match lookup2 (c_hostok c) sc v with Some b => b | None => false end.
Definition lower_of (c : case) (x : zs) := match lookup (c_lower c) x with Some r => r | None => x end.
Definition norm_of (c : case) (x : zs) := match lookup (c_norm c) x with Some r => r | None => None end.
Definition clean_of (p sc : zs) : zs := p.        (* the path is not observed by this check *)

Definition empty_state : ustate := {| scheme := []; host := []; rawquery := []; fragment := []; upath := []; sp := None |}.

Definition step_c (c : case) := ustep (parse_of c) (hostok_of c) (lower_of c) (norm_of c) clean_of.
Definition threw_c (c : case) (s : ustate) (o : uop) : bool :=
  match o with
  | OHref v => match set_href (parse_of c) (lower_of c) (norm_of c) clean_of s v with Some _ => false | None => true end
  | OHost v => snd (set_host (hostok_of c) (lower_of c) (norm_of c) clean_of s v)
  | OHostname v => snd (set_hostname (hostok_of c) (lower_of c) (norm_of c) clean_of s v)
  | OProtocol p => snd (set_protocol (hostok_of c) (lower_of c) (norm_of c) clean_of s p)
  | _ => false
  end.

Definition plist_eqb (a b : plist) : bool := list_eqb pair_eqb' a b.

(* first difference between the model state and an observation: 1 search 2 host 3 hostname 4 port 5 protocol 6 params 7 threw *)
Definition diff_obs (s : ustate) (threw : bool) (o : uobs) : option N :=
  if o_silent o then (if negb (Bool.eqb threw (o_threw o)) then Some 7%N else None) else
  if negb (zs_eqb (get_search s) (o_search o)) then Some 1%N
  else if negb (zs_eqb (get_host s) (o_host o)) then Some 2%N
  else if negb (zs_eqb (get_hostname s) (o_hostname o)) then Some 3%N
  else if negb (zs_eqb (get_port s) (o_port o)) then Some 4%N
  else if negb (zs_eqb (scheme s ++ [58]) (o_protocol o)) then Some 5%N
  else if match o_params o with Some l => negb (plist_eqb (get_params s) l) | None => false end then Some 6%N
  else if negb (Bool.eqb threw (o_threw o)) then Some 7%N
  else None.

Definition after_obs (s : ustate) (o : uobs) : ustate := match o_params o with Some _ => materialise s | None => s end.

Fixpoint replay (c : case) (s : ustate) (ops : list uop) (obs : list uobs) : option N :=
  match ops, obs with
  | o :: ops', ob :: obs' =>
    let t := threw_c c s o in
    let s' := step_c c s o in
    match diff_obs s' t ob with
    | Some d => Some d
    | None => replay c (after_obs s' ob) ops' obs'
    end
  | [], [] => None
  | _, _ => Some 8%N
  end.

(* ---- the property, evaluated on what the implementation returned ---- *)
Fixpoint cut_first (ch : Z) (s : zs) : zs * option zs :=      (* (before, after the first ch) *)
  match s with
  | [] => ([], None)
  | c :: r => if c =? ch then ([], Some r) else let '(a, b) := cut_first ch r in (c :: a, b)
  end.
Definition query_of_href (h : zs) : zs :=
  let '(nofrag, _) := cut_first 35 h in
  match snd (cut_first 63 nofrag) with Some q => q | None => [] end.

Definition spec_obs (o : uobs) : list N := if o_silent o then [] else
  (if zs_eqb (o_href o) (o_tostring o) && zs_eqb (o_href o) (o_tojson o) then [] else [1%N]) ++
  (match o_search o with
   | [] => match o_params o with Some (_ :: _) => [2%N] | _ => [] end
   | 63 :: q => match q with [] => [2%N] | _ => match o_params o with Some l => if plist_eqb (parse_raw q) l then [] else [2%N] | None => [] end end
   | _ => [2%N]
   end) ++
  (if zs_eqb (o_host o) (o_hostname o ++ match o_port o with [] => [] | p => 58 :: p end) then [] else [3%N]) ++
  (match o_port o with
   | [] => []
   | p => if is_default_port (removelast (o_protocol o)) (num_of p) then [4%N] else []
   end) ++
  (if zs_eqb (query_of_href (o_href o)) (match o_search o with 63 :: q => q | _ => [] end) then [] else [5%N]).

(* assignments take effect (Proofs/UrlObjectProofs.v: search_/href_/params_change_takes_effect), evaluated on what the
   implementation returned: 6 right after search was assigned the pairs read back are not those of the assigned query;
   7 the same after an accepted href assignment; 8 right after a searchParams change the list is not that change applied to
   the list read just before *)
Definition obs_pairs (o : uobs) : plist :=
  match o_params o with Some l => l | None => parse_raw (match o_search o with 63 :: q => q | _ => [] end) end.
Definition list_change (o : uop) : option (plist -> plist) :=
  match o with
  | OAppend n v => Some (fun l => l ++ [(n, v)])
  | ODelete n => Some (fun l => delete_as_written (valid_name n) l)
  | OSet n v => Some (fun l => set_as_written n v l)
  | OSort => Some stable_sort
  | _ => None
  end.
Fixpoint spec_steps (c : case) (prev : uobs) (ops : list uop) (obs : list uobs) : list N :=
  match ops, obs with
  | o :: ops', ob :: obs' =>
    (if o_silent ob then [] else
     match o with
     | OSearch v => if plist_eqb (obs_pairs ob) (parse_raw (fix_raw_query (trim_q v))) then [] else [6%N]
     | OHref v => if o_threw ob then [] else
                  match parse_of c v with
                  | Some (_, _, q, _, _) => if plist_eqb (obs_pairs ob) (parse_raw (fix_raw_query q)) then [] else [7%N]
                  | None => []
                  end
     | _ => match list_change o, o_silent prev, o_params prev, o_params ob with
            | Some f, false, Some l0, Some l1 => if plist_eqb l1 (f l0) then [] else [8%N]
            | _, _, _, _ => []
            end
     end) ++ spec_steps c ob ops' obs'
  | _, _ => []
  end.

Definition check_case (c : case) : list verdict :=
  let specs := flat_map spec_obs (c_obs c) ++ match c_obs c with ob0 :: obs => spec_steps c ob0 (c_ops c) obs | [] => [] end in
  map SpecFail (nodup N.eq_dec specs) ++
  match c_obs c with
  | [] => [Diff 8]
  | ob0 :: obs =>
    match set_href (parse_of c) (lower_of c) (norm_of c) clean_of empty_state (c_base c) with
    | None => [Diff 9]
    | Some s0 =>
      let s0 := if c_early c then materialise s0 else s0 in
      match diff_obs s0 false ob0 with
      | Some d => [Diff (10 + d)]
      | None => match replay c (after_obs s0 ob0) (c_ops c) obs with Some d => [Diff d] | None => [] end
      end
    end
  end.

Definition run_cases (cs : list (N * case)) : list (N * verdict) := check_list check_case cs.
