(* Cases/C11Check.v — correspondence + spec oracle for the Buffer string entry points *)
From GN Require Export Common.Base Common.Int64 Model.BufferTypes Gen.BufferMethods Model.Buffer Model.Codecs Gen.BufferCodecs
  Model.BufferStrings Spec.BufferStringsSpec.
Open Scope list_scope.
Open Scope Z_scope.

Inductive obs_str := OStr (cps : list Z) | OStrThrow (cls : Z) | OStrPanic.
Inductive obs_w := OW (bb : list Z) (n : Z) | OWThrow (cls : Z) | OWPanic.
Inductive obs_f := OF (bb : list Z) | OFThrow (cls : Z) | OFPanic | OFHang.

Inductive case :=
| KToString (e : encarg) (b : list Z) (a_s a_e : jsarg) (wellformed : bool) (o : obs_str)
| KDecode (e : encarg) (s : list Z) (o : list Z)            (* Buffer.from(s, enc) *)
| KRoundTrip (e : encarg) (b : list Z) (wellformed : bool) (o : list Z)   (* Buffer.from(b.toString(enc), enc) *)
| KWrite (bb : list Z) (s : option (list Z)) (a_off a_len : jsarg) (e : encarg) (o : obs_w)
| KFill (size : nat) (pattern : list Z) (e : encarg) (o : obs_f)
| KArrayLike (items : list Z) (o : list Z).

Definition lz := list_eqb Z.eqb.

Definition is_utf8 (e : encarg) : bool := match codec_strict e with Some CUtf8 => true | _ => false end.

(* specification of write(string, offset, length, enc), independent of Model.write_str: as many whole characters
   (utf8) / bytes (other codecs) as fit in min(length, room) *)
Fixpoint fit_chars (cps : list Z) (room : Z) : list Z :=
  match cps with
  | [] => []
  | c :: r => let e := utf8_enc1 c in
              let l := Z.of_nat (List.length e) in
              if l <=? room then e ++ fit_chars r (room - l) else []
  end.

Definition spec_write (bb : list Z) (s : option (list Z)) (a_off a_len : jsarg) (e : encarg) : option obs_w :=
  match s, codec_strict e with
  | Some str, Some cd =>
    let len := Z.of_nat (List.length bb) in
    match (match a_off with AUndef => Some 0 | ANum v _ => Some v | _ => None end) with
    | None => None        (* must throw; class not specified here *)
    | Some off =>
      if (off <? 0) || (off >? len) then None else
      let room := len - off in
      match (match a_len with AUndef => Some room | ANum v _ => if v <? 0 then None else Some (Z.min v room) | _ => None end) with
      | None => None
      | Some limit =>
        let written := match cd with
                       | CUtf8 => fit_chars (map (fun c => if is_surrogate c then 65533 else c) str) limit
                       | _ => firstn (Z.to_nat limit) (codec_decode cd str)
                       end in
        let n := Z.of_nat (List.length written) in
        Some (OW (firstn (Z.to_nat off) bb ++ written ++ skipn (Z.to_nat (off + n)) bb) n)
      end
    end
  | _, _ => None
  end.

Definition check (c : case) : list verdict :=
  match c with
  | KToString e b a_s a_e wf o =>
    (match to_string b e a_s a_e, o with
     | SStr m, OStr x => if lz m x then [] else [Diff 1]
     | SThrowT, OStrThrow 1 => []
     | SPanic, OStrPanic => []
     | _, _ => [Diff 1]
     end) ++
    (match codec_strict e, o with
     | Some cd, OStr x => if lz (spec_to_string cd b a_s a_e) x then [] else [SpecFail 2]
     | Some _, _ => [SpecFail 2]
     | None, OStrThrow _ => []
     | None, _ => [SpecFail 2]
     end)
  | KDecode e s o => if lz (from_string s e) o then [] else [Diff 2]
  | KRoundTrip e b wf o =>
    (if lz (from_string (codec_encode (codec_or_utf8 e) b) e) o then [] else [Diff 3]) ++
    (if lz b o || (match codec_or_utf8 e with CUtf8 => negb wf | _ => false end) then [] else [SpecFail 1])
  | KWrite bb s a_off a_len e o =>
    (match spec_write bb s a_off a_len e, o with
     | Some (OW m n), OW x k => if lz m x && (n =? k) then [] else [SpecFail 7]
     | Some _, _ => [SpecFail 7]
     | None, OW _ _ => [SpecFail 7]      (* accepted a call that must throw *)
     | None, OWThrow _ => []
     | None, OWPanic => []               (* reported by the model comparison below as SpecFail 5 *)
     end) ++
    match write_str bb s a_off a_len e, o with
    | WOk m n, OW x k => if lz m x && (n =? k) then [] else [Diff 4]
    | WThrow cl, OWThrow cl' => if cl =? cl' then [] else [Diff 4]
    | WPanic, OWPanic => []
    | _, OWPanic => [Diff 4; SpecFail 5]
    | _, _ => [Diff 4]
    end
  | KFill size p e o =>
    (match alloc_fill size p e, o with
     | FOk m, OF x => if lz m x then [] else [Diff 5]
     | FThrow cl, OFThrow cl' => if cl =? cl' then [] else [Diff 5]
     | FHang, OFHang => []
     | _, _ => [Diff 5]
     end) ++
    (match codec_strict e, o with
     | Some cd, OF x => let b1 := codec_decode cd p in
                        if lz (if Nat.eqb (List.length b1) 0 then repeat 0 size else cyclic b1 size) x then [] else [SpecFail 3]
     | Some _, OFHang => [SpecFail 6]
     | Some _, OFPanic => [SpecFail 5]
     | Some _, OFThrow _ => [SpecFail 3]
     | None, OFThrow _ => []
     | None, _ => [SpecFail 3]
     end)
  | KArrayLike items o =>
    (if lz (from_arraylike items) o then [] else [Diff 6]) ++
    (if lz (map (fun v => v mod 256) items) o then [] else [SpecFail 4])
  end.

Definition run_cases := check_list check.
