(* Cases/C19Check.v — correspondence + spec oracle for C19 *)
From GN Require Export Common.Base Gen.UtilFormat Model.Format Spec.FormatSpec.

Inductive case :=
| FmtCase (f : option zs) (args : list arg) (out : zs)
| ConCase (cs : list ccall) (log warn err : list zs).

Definition spec_js_format (f : option zs) (args : list arg) : zs :=
  spec_format arg a_str a_num a_json (match f with Some x => x | None => [] end) args.

(* sink table of the property statement, independent of Gen *)
Definition spec_sink (m : zs) : option sink :=
  if zs_eqb m [108;111;103] || zs_eqb m [105;110;102;111] || zs_eqb m [100;101;98;117;103] then Some SLog
  else if zs_eqb m [119;97;114;110] then Some SWarn
  else if zs_eqb m [101;114;114;111;114] then Some SError else None.

Definition sink_eqb (a b : sink) : bool :=
  match a, b with SLog, SLog | SWarn, SWarn | SError, SError => true | _, _ => false end.

Definition spec_msgs (k : sink) (cs : list ccall) : list zs :=
  flat_map (fun c => match spec_sink (c_method c) with
                     | Some k' => if sink_eqb k k' then [spec_js_format (c_fmt c) (c_args c)] else []
                     | None => [] end) cs.

Definition lz_eqb := list_eqb zs_eqb.

Definition check (c : case) : list verdict :=
  match c with
  | FmtCase f args out =>
    (if zs_eqb (js_format (f, args)) out then [] else [Diff 1]) ++
    (if zs_eqb (spec_js_format f args) out then [] else [SpecFail 1])
  | ConCase cs log warn err =>
    let s := console_run cs in
    (if lz_eqb (s_log s) log && lz_eqb (s_warn s) warn && lz_eqb (s_err s) err then [] else [Diff 2]) ++
    (if Nat.eqb (length log + length warn + length err) (length cs) then [] else [SpecFail 3]) ++
    (if lz_eqb (spec_msgs SLog cs) log && lz_eqb (spec_msgs SWarn cs) warn && lz_eqb (spec_msgs SError cs) err
     then [] else [SpecFail 2])
  end.

Definition run_cases := check_list check.
