// Translator: reads the anchored source files of the repository under verification and emits
// Gallina data (coq/Gen/*.v). Standard library only (go/parser, go/ast, go/constant).
// A construct it does not recognise is never guessed at: the generated file then carries
// `<area>_translated := false` (and values that make the dependent theorems fail to compile).
package main

import (
	"bytes"
	"fmt"
	"go/ast"
	"go/parser"
	"go/printer"
	"go/token"
	"os"
	"path/filepath"
	"strconv"
	"strings"
)

var repo, outDir string
var facts = map[string]interface{}{}

func must(err error) {
	if err != nil {
		fmt.Fprintln(os.Stderr, "translator:", err)
		os.Exit(2)
	}
}

func parseFile(rel string) (*token.FileSet, *ast.File) {
	fset := token.NewFileSet()
	f, err := parser.ParseFile(fset, filepath.Join(repo, rel), nil, parser.ParseComments)
	must(err)
	return fset, f
}

func writeIfChanged(name string, content string) {
	p := filepath.Join(outDir, name)
	old, err := os.ReadFile(p)
	if err == nil && bytes.Equal(old, []byte(content)) {
		return
	}
	must(os.WriteFile(p, []byte(content), 0o644))
	fmt.Println("translator: wrote", p)
}

func findFunc(f *ast.File, recv, name string) *ast.FuncDecl {
	for _, d := range f.Decls {
		fd, ok := d.(*ast.FuncDecl)
		if !ok || fd.Name.Name != name {
			continue
		}
		if recv == "" {
			if fd.Recv == nil {
				return fd
			}
			continue
		}
		if fd.Recv != nil && len(fd.Recv.List) == 1 {
			t := fd.Recv.List[0].Type
			if s, ok := t.(*ast.StarExpr); ok {
				t = s.X
			}
			if id, ok := t.(*ast.Ident); ok && id.Name == recv {
				return fd
			}
		}
	}
	return nil
}

// zsLit renders a Go string as a Coq list of byte values.
func zsLit(s string) string {
	var parts []string
	for i := 0; i < len(s); i++ {
		parts = append(parts, strconv.Itoa(int(s[i])))
	}
	return "[" + strings.Join(parts, ";") + "]"
}

func strLit(e ast.Expr) (string, bool) {
	bl, ok := e.(*ast.BasicLit)
	if !ok || (bl.Kind != token.STRING && bl.Kind != token.CHAR) {
		return "", false
	}
	s, err := strconv.Unquote(bl.Value)
	if err != nil {
		return "", false
	}
	return s, true
}

func intLit(e ast.Expr) (int64, bool) {
	neg := false
	if u, ok := e.(*ast.UnaryExpr); ok && u.Op == token.SUB {
		neg = true
		e = u.X
	}
	bl, ok := e.(*ast.BasicLit)
	if !ok || bl.Kind != token.INT {
		return 0, false
	}
	v, err := strconv.ParseInt(bl.Value, 0, 64)
	if err != nil {
		return 0, false
	}
	if neg {
		v = -v
	}
	return v, true
}

func isSel(e ast.Expr, pkg, name string) bool {
	s, ok := e.(*ast.SelectorExpr)
	if !ok || s.Sel.Name != name {
		return false
	}
	id, ok := s.X.(*ast.Ident)
	return ok && id.Name == pkg
}

func main() {
	if len(os.Args) != 3 {
		fmt.Fprintln(os.Stderr, "usage: translator <repo> <outdir>")
		os.Exit(2)
	}
	repo, outDir = os.Args[1], os.Args[2]
	must(os.MkdirAll(outDir, 0o755))
	genProcessEnv()
	genUtilFormat()
	genUrlTables()
	genRequireGlue()
	genBufferMethods()
	genBufferCodecs()
	genBufferVC()
	genOtherVC()
	genLoop()
	genUrlObject()
	genLoopAccess()
	genRegistryAccess()
}

// exprString / stmtsString: canonical whitespace-free rendering of AST fragments used for shape matching.
func exprString(e ast.Expr) string {
	var b bytes.Buffer
	printer.Fprint(&b, token.NewFileSet(), e)
	return squeeze(b.String())
}

func stmtsString(ss []ast.Stmt) string {
	var parts []string
	for _, s := range ss {
		var b bytes.Buffer
		printer.Fprint(&b, token.NewFileSet(), s)
		parts = append(parts, squeeze(b.String()))
	}
	return strings.Join(parts, ";")
}

func squeeze(s string) string {
	var sb strings.Builder
	inStr := byte(0)
	for i := 0; i < len(s); i++ {
		c := s[i]
		if inStr != 0 {
			sb.WriteByte(c)
			if c == '\\' && i+1 < len(s) {
				i++
				sb.WriteByte(s[i])
			} else if c == inStr {
				inStr = 0
			}
			continue
		}
		if c == '"' || c == '\'' || c == '`' {
			inStr = c
			sb.WriteByte(c)
			continue
		}
		if c == '\n' {
			// statement separator inside blocks
			last := byte(0)
			if sb.Len() > 0 {
				last = sb.String()[sb.Len()-1]
			}
			j := i + 1
			for j < len(s) && (s[j] == ' ' || s[j] == '\t' || s[j] == '\n' || s[j] == '\r') {
				j++
			}
			next := byte(0)
			if j < len(s) {
				next = s[j]
			}
			if last != 0 && !strings.ContainsRune("{;(,|&+-*/=<>!:", rune(last)) && next != '}' && next != ')' && next != 0 {
				sb.WriteByte(';')
			}
			continue
		}
		if c == ' ' || c == '\t' || c == '\n' || c == '\r' {
			// keep a single space between identifier characters
			if sb.Len() > 0 && i+1 < len(s) && isIdent(s[i+1]) {
				last := sb.String()[sb.Len()-1]
				if isIdent(last) {
					sb.WriteByte(' ')
				}
			}
			continue
		}
		sb.WriteByte(c)
	}
	return sb.String()
}

func isIdent(c byte) bool {
	return c == '_' || (c >= 'a' && c <= 'z') || (c >= 'A' && c <= 'Z') || (c >= '0' && c <= '9')
}
