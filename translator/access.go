package main

import (
	"fmt"
	"go/ast"
	"go/token"
	"sort"
	"strings"
)

// Access table of eventloop/eventloop.go (C17): every read / write of a field of the loop, of a job, a Timer or an
// Interval, with the code unit it occurs in (function, or function literal and how that literal is used), the mutexes
// held at that point and whether the access is made through sync/atomic. Purely syntactic; which goroutines may execute
// a unit is decided in Model/LoopAccess.v.

type accessRow struct {
	unit, usage, field string
	write              bool
	locks              []string
	atomic             bool
}

var syncFields = map[string]bool{"auxJobsLock": true, "stopLock": true, "stopCond": true, "jobChan": true, "wakeupChan": true, "stopChan": true}

// synchronisation events (C17, deadlock part): lock acquisitions, blocking channel operations, condition waits and calls
// made while a mutex is held, each with the mutexes held at that point (in acquisition order)
type syncRow struct {
	unit, kind, what string
	held             []string
}

type accWalker struct {
	sync []syncRow
	rows []accessRow
	recv map[string]bool // receiver-like identifiers whose fields we track
	viaField string      // "r": also track r.r.<field> (the Registry reached from a RequireModule)
}

func lockCall(e ast.Expr) (lock string, op string) {
	c, ok := e.(*ast.CallExpr)
	if !ok {
		return "", ""
	}
	s, ok := c.Fun.(*ast.SelectorExpr)
	if !ok || (s.Sel.Name != "Lock" && s.Sel.Name != "Unlock") {
		return "", ""
	}
	if in, ok := s.X.(*ast.SelectorExpr); ok {
		return in.Sel.Name, s.Sel.Name
	}
	if _, ok := s.X.(*ast.Ident); ok {
		return "Mutex", s.Sel.Name // embedded sync.Mutex
	}
	return "", ""
}

func (w *accWalker) expr(e ast.Expr, unit, usage string, locks []string, write, atomic bool) {
	switch x := e.(type) {
	case nil:
	case *ast.SelectorExpr:
		if id, ok := x.X.(*ast.Ident); ok && w.recv[id.Name] {
			if !syncFields[x.Sel.Name] {
				w.rows = append(w.rows, accessRow{unit, usage, x.Sel.Name, write, append([]string{}, locks...), atomic})
			}
			return
		}
		if in, ok := x.X.(*ast.SelectorExpr); ok && w.viaField != "" && in.Sel.Name == w.viaField {
			if id, ok := in.X.(*ast.Ident); ok && id.Name == w.viaField {
				w.rows = append(w.rows, accessRow{unit, usage, x.Sel.Name, write, append([]string{}, locks...), atomic})
				return
			}
		}
		// a.b.c: the base a.b is read (method calls on embedded values, e.g. t.timer.Stop(), i.ticker.C)
		w.expr(x.X, unit, usage, locks, false, atomic)
	case *ast.CallExpr:
		if l, _ := lockCall(x); l != "" {
			return
		}
		isAtomic := false
		if s, ok := x.Fun.(*ast.SelectorExpr); ok {
			if id, ok := s.X.(*ast.Ident); ok && id.Name == "atomic" {
				isAtomic = true
				wr := strings.HasPrefix(s.Sel.Name, "Store") || strings.HasPrefix(s.Sel.Name, "Add") || strings.HasPrefix(s.Sel.Name, "CompareAndSwap") || strings.HasPrefix(s.Sel.Name, "Swap")
				for i, a := range x.Args {
					if i == 0 {
						if u, ok := a.(*ast.UnaryExpr); ok && u.Op == token.AND {
							w.expr(u.X, unit, usage, locks, wr, true)
							continue
						}
					}
					w.expr(a, unit, usage, locks, false, atomic)
				}
				return
			}
		}
		_ = isAtomic
		// function literals among the arguments become units of their own
		fname := exprString(x.Fun)
		for _, a := range x.Args {
			if fl, ok := a.(*ast.FuncLit); ok {
				u := "value"
				switch {
				case strings.HasSuffix(fname, ".addAuxJob"):
					u = "aux"
				case fname == "time.AfterFunc":
					u = "afterfunc"
				}
				w.funcLit(fl, unit, u)
				continue
			}
			w.expr(a, unit, usage, locks, false, atomic)
		}
		w.expr(x.Fun, unit, usage, locks, false, atomic)
	case *ast.FuncLit:
		w.funcLit(x, unit, "value")
	case *ast.UnaryExpr:
		w.expr(x.X, unit, usage, locks, write || x.Op == token.AND, atomic)
	case *ast.BinaryExpr:
		w.expr(x.X, unit, usage, locks, false, atomic)
		w.expr(x.Y, unit, usage, locks, false, atomic)
	case *ast.ParenExpr:
		w.expr(x.X, unit, usage, locks, write, atomic)
	case *ast.IndexExpr:
		w.expr(x.X, unit, usage, locks, write, atomic)
		w.expr(x.Index, unit, usage, locks, false, atomic)
	case *ast.SliceExpr:
		w.expr(x.X, unit, usage, locks, false, atomic)
		w.expr(x.Low, unit, usage, locks, false, atomic)
		w.expr(x.High, unit, usage, locks, false, atomic)
	case *ast.StarExpr:
		w.expr(x.X, unit, usage, locks, write, atomic)
	case *ast.CompositeLit:
		for _, el := range x.Elts {
			if kv, ok := el.(*ast.KeyValueExpr); ok {
				w.expr(kv.Value, unit, usage, locks, false, atomic)
			} else {
				w.expr(el, unit, usage, locks, false, atomic)
			}
		}
	case *ast.TypeAssertExpr:
		w.expr(x.X, unit, usage, locks, false, atomic)
	case *ast.KeyValueExpr:
		w.expr(x.Value, unit, usage, locks, false, atomic)
	}
}

// syncExpr records what an expression statement does to other threads: a receive, a condition wait, a call made with a mutex held
func (w *accWalker) syncExpr(e ast.Expr, unit string, held []string) {
	ast.Inspect(e, func(nd ast.Node) bool {
		switch x := nd.(type) {
		case *ast.FuncLit:
			return false // a unit of its own
		case *ast.UnaryExpr:
			if x.Op == token.ARROW {
				w.sync = append(w.sync, syncRow{unit, "chan-recv", exprString(x.X), append([]string{}, held...)})
			}
		case *ast.CallExpr:
			f := exprString(x.Fun)
			switch {
			case strings.HasSuffix(f, ".Wait"):
				w.sync = append(w.sync, syncRow{unit, "cond-wait", strings.TrimSuffix(f, ".Wait"), append([]string{}, held...)})
			case len(held) > 0:
				w.sync = append(w.sync, syncRow{unit, "call-holding", f, append([]string{}, held...)})
			default:
				w.sync = append(w.sync, syncRow{unit, "call", f, nil})
			}
		}
		return true
	})
}

var litCount = map[string]int{}

func (w *accWalker) funcLit(fl *ast.FuncLit, parent, usage string) {
	litCount[parent]++
	unit := fmt.Sprintf("%s#%d", parent, litCount[parent])
	w.block(fl.Body.List, unit, usage, nil)
}

func without(ls []string, l string) []string {
	var out []string
	for _, x := range ls {
		if x != l {
			out = append(out, x)
		}
	}
	return out
}

func (w *accWalker) block(stmts []ast.Stmt, unit, usage string, locks []string) {
	held := append([]string{}, locks...)
	for _, st := range stmts {
		switch s := st.(type) {
		case *ast.ExprStmt:
			if l, op := lockCall(s.X); l != "" {
				if op == "Lock" {
					w.sync = append(w.sync, syncRow{unit, "lock", l, append([]string{}, held...)})
					held = append(held, l)
				} else {
					held = without(held, l)
				}
				continue
			}
			w.syncExpr(s.X, unit, held)
			w.expr(s.X, unit, usage, held, false, false)
		case *ast.DeferStmt:
			if l, op := lockCall(s.Call); l != "" && op == "Unlock" {
				continue // held until the function returns
			}
			w.expr(s.Call, unit, usage, held, false, false)
		case *ast.AssignStmt:
			for _, r := range s.Rhs {
				if fl, ok := r.(*ast.FuncLit); ok {
					w.funcLit(fl, unit, "value")
				} else {
					w.expr(r, unit, usage, held, false, false)
				}
			}
			for _, l := range s.Lhs {
				w.expr(l, unit, usage, held, true, false)
				if s.Tok != token.ASSIGN && s.Tok != token.DEFINE {
					w.expr(l, unit, usage, held, false, false)
				}
			}
		case *ast.IncDecStmt:
			w.expr(s.X, unit, usage, held, true, false)
			w.expr(s.X, unit, usage, held, false, false)
		case *ast.SendStmt:
			w.sync = append(w.sync, syncRow{unit, "chan-send", exprString(s.Chan), append([]string{}, held...)})
			if fl, ok := s.Value.(*ast.FuncLit); ok {
				u := "value"
				if strings.HasSuffix(exprString(s.Chan), ".jobChan") {
					u = "job"
				}
				w.funcLit(fl, unit, u)
			} else {
				w.expr(s.Value, unit, usage, held, false, false)
			}
		case *ast.GoStmt:
			if fl, ok := s.Call.Fun.(*ast.FuncLit); ok {
				w.funcLit(fl, unit, "go")
			} else {
				for _, a := range s.Call.Args {
					w.expr(a, unit, usage, held, false, false)
				}
			}
		case *ast.ReturnStmt:
			for _, r := range s.Results {
				w.expr(r, unit, usage, held, false, false)
			}
		case *ast.IfStmt:
			if s.Init != nil {
				w.block([]ast.Stmt{s.Init}, unit, usage, held)
			}
			w.expr(s.Cond, unit, usage, held, false, false)
			w.block(s.Body.List, unit, usage, held)
			// a branch that unlocks and returns does not change what the code after the if holds
			if s.Else != nil {
				w.block([]ast.Stmt{s.Else}, unit, usage, held)
			}
		case *ast.BlockStmt:
			w.block(s.List, unit, usage, held)
		case *ast.ForStmt:
			if s.Init != nil {
				w.block([]ast.Stmt{s.Init}, unit, usage, held)
			}
			w.expr(s.Cond, unit, usage, held, false, false)
			if s.Post != nil {
				w.block([]ast.Stmt{s.Post}, unit, usage, held)
			}
			w.block(s.Body.List, unit, usage, held)
		case *ast.RangeStmt:
			w.expr(s.X, unit, usage, held, false, false)
			w.block(s.Body.List, unit, usage, held)
		case *ast.SelectStmt:
			hasDefault := false
			for _, c := range s.Body.List {
				if c.(*ast.CommClause).Comm == nil {
					hasDefault = true
				}
			}
			if !hasDefault {
				w.sync = append(w.sync, syncRow{unit, "select-blocking", "", append([]string{}, held...)})
			}
			for _, c := range s.Body.List {
				cc := c.(*ast.CommClause)
				if cc.Comm != nil {
					// the communication of a select arm is part of the select (recorded above), not a blocking operation of its own
					n0 := len(w.sync)
					w.block([]ast.Stmt{cc.Comm}, unit, usage, held)
					w.sync = w.sync[:n0]
				}
				w.block(cc.Body, unit, usage, held)
			}
		case *ast.SwitchStmt:
			w.expr(s.Tag, unit, usage, held, false, false)
			for _, c := range s.Body.List {
				cc := c.(*ast.CaseClause)
				for _, e := range cc.List {
					w.expr(e, unit, usage, held, false, false)
				}
				w.block(cc.Body, unit, usage, held)
			}
		case *ast.LabeledStmt:
			w.block([]ast.Stmt{s.Stmt}, unit, usage, held)
		case *ast.DeclStmt:
			if gd, ok := s.Decl.(*ast.GenDecl); ok {
				for _, sp := range gd.Specs {
					if vs, ok := sp.(*ast.ValueSpec); ok {
						for _, v := range vs.Values {
							w.expr(v, unit, usage, held, false, false)
						}
					}
				}
			}
		}
	}
}

func genLoopAccess() {
	_, f := parseFile("eventloop/eventloop.go")
	w := &accWalker{recv: map[string]bool{"loop": true, "t": true, "i": true, "job": true, "timeout": true, "interval": true}}
	litCount = map[string]int{}
	for _, d := range f.Decls {
		fd, ok := d.(*ast.FuncDecl)
		if !ok || fd.Body == nil {
			continue
		}
		name := fd.Name.Name
		if r := recvName(fd); r != "" {
			name = r + "." + name
		}
		w.block(fd.Body.List, name, "func", nil)
	}
	// data fields: the fields of the struct types declared in the file (methods and embedded structs are not data)
	fields := map[string]bool{}
	for _, d := range f.Decls {
		gd, ok := d.(*ast.GenDecl)
		if !ok || gd.Tok != token.TYPE {
			continue
		}
		for _, sp := range gd.Specs {
			ts := sp.(*ast.TypeSpec)
			st, ok := ts.Type.(*ast.StructType)
			if !ok {
				continue
			}
			for _, fl := range st.Fields.List {
				for _, n := range fl.Names {
					fields[n.Name] = true
				}
			}
		}
	}
	// canonical, duplicate-free
	seen := map[string]bool{}
	var rows []string
	for _, r := range w.rows {
		if !fields[r.field] || syncFields[r.field] {
			continue
		}
		sort.Strings(r.locks)
		var ls []string
		for _, l := range r.locks {
			ls = append(ls, coqStr(l))
		}
		s := fmt.Sprintf("(%s, %s, %s, %v, [%s], %v)", coqStr(r.unit), coqStr(r.usage), coqStr(r.field), r.write, strings.Join(ls, "; "), r.atomic)
		if !seen[s] {
			seen[s] = true
			rows = append(rows, s)
		}
	}
	out := "(* GENERATED by /verif/translator from eventloop/eventloop.go — do not edit *)\nFrom Coq Require Import String List.\nImport ListNotations.\n"
	out += "(* unit, how the unit is used (func / aux / job / afterfunc / go / value), field, is a write, mutexes held, through sync/atomic *)\n"
	out += "Definition loop_access : list (string * string * string * bool * list string * bool) := [\n  " + strings.Join(rows, ";\n  ") + "\n]%string.\n"
	// synchronisation events: unit, kind (lock / chan-send / chan-recv / select-blocking / cond-wait / call-holding / call), what, mutexes held (acquisition order)
	// callees: a call of a function or method declared in this file is resolved to its unit; everything else is external
	declared := map[string]string{}  // plain functions by name
	declaredM := map[string]bool{}    // Type.method
	_ = declaredM
	declaredMm := map[string]string{}
	for _, d := range f.Decls {
		if fd, ok := d.(*ast.FuncDecl); ok && fd.Body != nil {
			if r := recvName(fd); r != "" {
				declaredMm[r+"."+fd.Name.Name] = r + "." + fd.Name.Name
			} else {
				declared[fd.Name.Name] = fd.Name.Name
			}
		}
	}
	var srows []string
	sseen := map[string]bool{}
	for _, r := range w.sync {
		if r.kind == "call" || r.kind == "call-holding" {
			recvType := map[string]string{"loop": "EventLoop", "t": "Timer", "timeout": "Timer", "i": "Interval", "interval": "Interval"}
			parts := strings.Split(r.what, ".")
			resolved := ""
			switch {
			case len(parts) == 1:
				if u, ok := declared[parts[0]]; ok && !strings.Contains(u, ".") {
					resolved = u
				}
			case len(parts) == 2 && recvType[parts[0]] != "":
				if u, ok := declaredMm[recvType[parts[0]]+"."+parts[1]]; ok {
					resolved = u
				}
			}
			if resolved != "" {
				r.what = resolved
			} else {
				r.what = "ext:" + r.what
			}
		}
		var ls []string
		for _, l := range r.held {
			ls = append(ls, coqStr(l))
		}
		s := fmt.Sprintf("(%s, %s, %s, [%s])", coqStr(r.unit), coqStr(r.kind), coqStr(r.what), strings.Join(ls, "; "))
		if !sseen[s] {
			sseen[s] = true
			srows = append(srows, s)
		}
	}
	out += "Definition loop_sync : list (string * string * string * list string) := [\n  " + strings.Join(srows, ";\n  ") + "\n]%string.\n"
	writeIfChanged("LoopAccess.v", out)
}


// Registry (require/module.go) and its uses from a RequireModule (require/resolve.go, require/module.go): C17
func genRegistryAccess() {
	litCount = map[string]int{}
	var rows []accessRow
	fields := map[string]bool{}
	_, mf := parseFile("require/module.go")
	for _, d := range mf.Decls {
		if gd, ok := d.(*ast.GenDecl); ok && gd.Tok == token.TYPE {
			for _, sp := range gd.Specs {
				ts := sp.(*ast.TypeSpec)
				if st, ok := ts.Type.(*ast.StructType); ok && ts.Name.Name == "Registry" {
					for _, fl := range st.Fields.List {
						for _, n := range fl.Names {
							fields[n.Name] = true
						}
					}
				}
			}
		}
	}
	for _, rel := range []string{"require/module.go", "require/resolve.go"} {
		_, f := parseFile(rel)
		for _, d := range f.Decls {
			fd, ok := d.(*ast.FuncDecl)
			if !ok || fd.Body == nil {
				continue
			}
			rn := recvName(fd)
			name := fd.Name.Name
			if rn != "" {
				name = rn + "." + name
			}
			w := &accWalker{recv: map[string]bool{}}
			if rn == "Registry" {
				w.recv["r"] = true
			} else if rn == "RequireModule" {
				w.viaField = "r"
			} else {
				w.recv["r"] = true // option functions: func(r *Registry)
			}
			w.block(fd.Body.List, name, "func", nil)
			rows = append(rows, w.rows...)
		}
	}
	seen := map[string]bool{}
	var outRows []string
	for _, r := range rows {
		if !fields[r.field] {
			continue
		}
		sort.Strings(r.locks)
		var ls []string
		for _, l := range r.locks {
			ls = append(ls, coqStr(l))
		}
		s := fmt.Sprintf("(%s, %s, %s, %v, [%s], %v)", coqStr(r.unit), coqStr(r.usage), coqStr(r.field), r.write, strings.Join(ls, "; "), r.atomic)
		if !seen[s] {
			seen[s] = true
			outRows = append(outRows, s)
		}
	}
	out := "(* GENERATED by /verif/translator from require/module.go, require/resolve.go — do not edit *)\nFrom Coq Require Import String List.\nImport ListNotations.\n"
	out += "Definition registry_access : list (string * string * string * bool * list string * bool) := [\n  " + strings.Join(outRows, ";\n  ") + "\n]%string.\n"
	// getCompiledSource: r.Lock(); defer r.Unlock() as its first two statements: the cache lookup, the load, the compilation
	// and the store form one critical section, so concurrent first-time requests are served one after the other
	locked := false
	if fd := findFunc(mf, "Registry", "getCompiledSource"); fd != nil && len(fd.Body.List) >= 3 {
		locked = stmtsString(fd.Body.List[:2]) == "r.Lock();defer r.Unlock()" && !strings.Contains(stmtsString(fd.Body.List[2:]), "r.Unlock()")
	}
	out += fmt.Sprintf("Definition getcompiled_locked_throughout : bool := %v.\n", locked)
	writeIfChanged("RegistryAccess.v", out)
}
