package main

import (
	"fmt"
	"go/ast"
	"go/token"
	"sort"
	"strings"
)

// Verification-condition generator: a small symbolic executor over the straight-line, guard-and-panic style of the
// JavaScript-reachable natives. For every partial Go operation (index, slice, make) it emits the path condition and
// the bound to prove, as expressions of Common/Int64.v (int64 wrap semantics). Anything it does not understand makes
// the value opaque (a fresh unconstrained variable) or the function "uncovered" — never a guess.

type vcRec struct {
	fun, what   string
	vars, lens  []string
	hyps        []string
	goal        string
}

type spath struct {
	hyps   []string
	subst  map[string]string // int-valued local -> Coq expr
	slices map[string]bool   // names usable in ELen
}

func (p *spath) clone() *spath {
	q := &spath{hyps: append([]string{}, p.hyps...), subst: map[string]string{}, slices: map[string]bool{}}
	for k, v := range p.subst {
		q.subst[k] = v
	}
	for k, v := range p.slices {
		q.slices[k] = v
	}
	return q
}

type vcgen struct {
	file      *ast.File
	methods   map[string]*ast.FuncDecl // receiver methods by name
	funcs     map[string]*ast.FuncDecl // package functions
	vcs       []vcRec
	uncovered map[string]string
	cur       string
	fresh     int
	depth     int
	consts    map[string]string // package constants (int)
	arrays    map[string]int    // package arrays/strings with known length
}

func (g *vcgen) freshVar(base string) string {
	g.fresh++
	return fmt.Sprintf("%s#%d", base, g.fresh)
}

func (g *vcgen) ctx(p *spath) *exprCtx {
	c := &exprCtx{subst: map[string]string{}, lens: map[string]bool{}}
	for k, v := range p.subst {
		c.subst[k] = v
	}
	for k, v := range g.consts {
		if _, ok := c.subst[k]; !ok {
			c.subst[k] = v
		}
	}
	return c
}

func collectNames(coq string, marker string) []string {
	set := map[string]bool{}
	for {
		i := strings.Index(coq, marker+" \"")
		if i < 0 {
			break
		}
		rest := coq[i+len(marker)+2:]
		j := strings.Index(rest, "\"")
		set[rest[:j]] = true
		coq = rest[j:]
	}
	var out []string
	for k := range set {
		out = append(out, k)
	}
	sort.Strings(out)
	return out
}

func (g *vcgen) emit(p *spath, what, goal string) {
	all := strings.Join(p.hyps, " ") + " " + goal
	// hypotheses with shifts are dropped (sound: fewer assumptions); a goal with a shift is kept and will not prove
	var hyps []string
	for _, h := range p.hyps {
		if strings.Contains(h, "OShl") || strings.Contains(h, "OShr") || strings.Contains(h, "OMul") {
			continue
		}
		hyps = append(hyps, h)
	}
	g.vcs = append(g.vcs, vcRec{fun: g.cur, what: what, vars: collectNames(all, "EVar"), lens: collectNames(all, "ELen"), hyps: hyps, goal: goal})
}

// addPos / addNeg: record what is known when e is true / false, splitting && / || so that untranslatable
// conjuncts (calls) do not hide the translatable ones
func (g *vcgen) addPos(e ast.Expr, p *spath) {
	if pe, ok := e.(*ast.ParenExpr); ok {
		g.addPos(pe.X, p)
		return
	}
	if be, ok := e.(*ast.BinaryExpr); ok && be.Op == token.LAND {
		g.addPos(be.X, p)
		g.addPos(be.Y, p)
		return
	}
	if ue, ok := e.(*ast.UnaryExpr); ok && ue.Op == token.NOT {
		g.addNeg(ue.X, p)
		return
	}
	if c, ok := g.tr(e, p); ok {
		p.hyps = append(p.hyps, c)
	}
}

func (g *vcgen) addNeg(e ast.Expr, p *spath) {
	if pe, ok := e.(*ast.ParenExpr); ok {
		g.addNeg(pe.X, p)
		return
	}
	if be, ok := e.(*ast.BinaryExpr); ok && be.Op == token.LOR {
		g.addNeg(be.X, p)
		g.addNeg(be.Y, p)
		return
	}
	if ue, ok := e.(*ast.UnaryExpr); ok && ue.Op == token.NOT {
		g.addPos(ue.X, p)
		return
	}
	if c, ok := g.tr(e, p); ok {
		p.hyps = append(p.hyps, not(c))
	}
}

func and(a, b string) string { return fmt.Sprintf("(EBin OAnd %s %s)", a, b) }
func le(a, b string) string  { return fmt.Sprintf("(EBin OLe %s %s)", a, b) }
func lt(a, b string) string  { return fmt.Sprintf("(EBin OLt %s %s)", a, b) }
func eq(a, b string) string  { return fmt.Sprintf("(EBin OEq %s %s)", a, b) }
func not(a string) string    { return fmt.Sprintf("(ENot %s)", a) }
func lit(n int) string       { return fmt.Sprintf("(EInt %d)", n) }

// sliceName: the ELen name of a slice-valued expression, "" if unknown
func (g *vcgen) sliceName(e ast.Expr, p *spath) string {
	switch x := e.(type) {
	case *ast.Ident:
		if p.slices[x.Name] {
			return x.Name
		}
		if _, ok := g.arrays[x.Name]; ok {
			return x.Name
		}
	case *ast.SelectorExpr:
		if exprString(x) == "call.Arguments" {
			p.slices["call.Arguments"] = true
			return "call.Arguments"
		}
	case *ast.ParenExpr:
		return g.sliceName(x.X, p)
	}
	return ""
}

func (g *vcgen) tr(e ast.Expr, p *spath) (string, bool) {
	s, err := g.ctx(p).tryTr(e)
	if err != nil {
		return "", false
	}
	return s, true
}

// scan walks an expression, emitting a VC for each partial operation; extra are conditions known while evaluating it
func (g *vcgen) scan(e ast.Expr, p *spath) {
	switch x := e.(type) {
	case nil:
		return
	case *ast.ParenExpr:
		g.scan(x.X, p)
	case *ast.BinaryExpr:
		g.scan(x.X, p)
		if x.Op == token.LAND || x.Op == token.LOR {
			q := p.clone()
			if x.Op == token.LAND {
				g.addPos(x.X, q)
			} else {
				g.addNeg(x.X, q)
			}
			g.scan(x.Y, q)
			return
		}
		g.scan(x.Y, p)
	case *ast.UnaryExpr:
		g.scan(x.X, p)
	case *ast.StarExpr:
		g.scan(x.X, p)
	case *ast.CallExpr:
		for _, a := range x.Args {
			g.scan(a, p)
		}
		if id, ok := x.Fun.(*ast.Ident); ok && id.Name == "make" && len(x.Args) >= 2 {
			if n, ok := g.tr(x.Args[1], p); ok {
				bound := "(EInt 1099511627776)"
				if strings.HasPrefix(n, "(ELen ") {
					bound = "(EInt 4611686018427387904)" // as long as an existing slice
				}
				g.emit(p, "make(..., "+exprString(x.Args[1])+")", and(le(lit(0), n), le(n, bound)))
			} else {
				g.emit(p, "make(..., "+exprString(x.Args[1])+")", "(EVar \"untranslatable size\")")
			}
		}
		if se, ok := x.Fun.(*ast.SelectorExpr); ok {
			g.scan(se.X, p)
		}
	case *ast.IndexExpr:
		g.scan(x.X, p)
		g.scan(x.Index, p)
		name := g.sliceName(x.X, p)
		if name == "" {
			if _, isMap := x.X.(*ast.Ident); isMap && (exprString(x.X) == "stringCodecs" || exprString(x.X) == "decodeMap") {
				return // map lookup cannot trap
			}
			if strings.HasPrefix(exprString(x.X), "strings.Split(") {
				return // strings.Split never returns an empty slice
			}
			g.emit(p, exprString(x), "(EVar \"index into an untracked slice\")")
			return
		}
		i, ok := g.tr(x.Index, p)
		if !ok {
			g.emit(p, exprString(x), "(EVar \"untranslatable index\")")
			return
		}
		g.emit(p, exprString(x), and(le(lit(0), i), lt(i, fmt.Sprintf("(ELen %q)", name))))
	case *ast.SliceExpr:
		g.scan(x.X, p)
		g.scan(x.Low, p)
		g.scan(x.High, p)
		name := g.sliceName(x.X, p)
		if name == "" {
			g.emit(p, exprString(x), "(EVar \"slice of an untracked slice\")")
			return
		}
		lo, hi := lit(0), fmt.Sprintf("(ELen %q)", name)
		ok1, ok2 := true, true
		if x.Low != nil {
			lo, ok1 = g.tr(x.Low, p)
		}
		if x.High != nil {
			hi, ok2 = g.tr(x.High, p)
		}
		if !ok1 || !ok2 {
			g.emit(p, exprString(x), "(EVar \"untranslatable slice bound\")")
			return
		}
		// Go: 0 <= lo <= hi <= cap; these natives never rely on spare capacity, so len is used
		g.emit(p, exprString(x), and(and(le(lit(0), lo), le(lo, hi)), le(hi, fmt.Sprintf("(ELen %q)", name))))
	case *ast.SelectorExpr:
		g.scan(x.X, p)
	case *ast.CompositeLit:
		for _, el := range x.Elts {
			g.scan(el, p)
		}
	case *ast.TypeAssertExpr:
		g.scan(x.X, p)
	case *ast.FuncLit:
		// closures are executed elsewhere; their bodies are scanned as straight-line code
		g.exec(x.Body.List, p.clone())
	}
}

var intCoercions = map[string]bool{"goutil.RequiredIntegerArgument": true, "goutil.OptionalIntegerArgument": true, "goutil.CoercedIntegerArgument": true}

// sliceProducing: calls whose result is a fresh []byte / string of unknown length
func sliceProducing(fn string) bool {
	switch fn {
	case "Bytes", "b.bytes", "codec.Decode", "codec.DecodeAppend", "c.Decode", "goutil.RequiredStringArgument", "arg.String", "fill.String", "v.String", "[]byte":
		return true
	}
	return false
}

// assign handles `lhs := rhs` / `lhs = rhs` for one pair
func (g *vcgen) assign(lhs ast.Expr, rhs ast.Expr, p *spath) {
	id, isId := lhs.(*ast.Ident)
	if !isId {
		g.scan(lhs, p)
		g.scan(rhs, p)
		return
	}
	g.scan(rhs, p)
	wasSlice := p.slices[id.Name]
	delete(p.subst, id.Name)
	delete(p.slices, id.Name)
	switch r := rhs.(type) {
	case *ast.CallExpr:
		fn := exprString(r.Fun)
		if wasSlice && strings.HasPrefix(fn, "b.") {
			p.slices[id.Name] = true // x = b.f(x, ...): the argument is still the tracked slice while the helper runs
		}
		switch {
		case intCoercions[fn]:
			v := g.freshVar(id.Name)
			p.subst[id.Name] = fmt.Sprintf("(EVar %q)", v)
			if fn != "goutil.RequiredIntegerArgument" && len(r.Args) >= 5 {
				// the default value is one of the possible results: no constraint can be assumed
			}
			return
		case fn == "make" && len(r.Args) >= 2:
			p.slices[id.Name] = true
			if n, ok := g.tr(r.Args[1], p); ok {
				p.hyps = append(p.hyps, eq(fmt.Sprintf("(ELen %q)", id.Name), n))
			}
			return
		case sliceProducing(fn):
			p.slices[id.Name] = true
			return
		case fn == "int" || fn == "int64" || fn == "uint":
			// fallthrough to translation below
		case strings.HasPrefix(fn, "b.") && g.methods[strings.TrimPrefix(fn, "b.")] != nil:
			vals := g.inline(g.methods[strings.TrimPrefix(fn, "b.")], r.Args, p)
			if wasSlice {
				// a []byte result: a fresh slice of unknown length
				delete(p.subst, id.Name)
				nn := g.freshVar(id.Name)
				_ = nn
				p.slices[id.Name] = true
				p.hyps = dropLenFacts(p.hyps, id.Name)
				return
			}
			if len(vals) == 1 && vals[0] != "" {
				p.subst[id.Name] = vals[0]
			} else {
				p.subst[id.Name] = fmt.Sprintf("(EVar %q)", g.freshVar(id.Name))
			}
			return
		}
	case *ast.SliceExpr:
		if name := g.sliceName(r.X, p); name != "" {
			lo, hi := lit(0), fmt.Sprintf("(ELen %q)", name)
			ok1, ok2 := true, true
			if r.Low != nil {
				lo, ok1 = g.tr(r.Low, p)
			}
			if r.High != nil {
				hi, ok2 = g.tr(r.High, p)
			}
			nn := g.freshVar(id.Name)
			p.slices[nn] = true
			p.slices[id.Name] = true
			if ok1 && ok2 {
				p.hyps = append(p.hyps, eq(fmt.Sprintf("(ELen %q)", id.Name), fmt.Sprintf("(EBin OSub %s %s)", hi, lo)))
			}
			return
		}
	case *ast.CompositeLit:
		if at, ok := r.Type.(*ast.ArrayType); ok && at.Len != nil {
			if n, ok := intLit(at.Len); ok {
				p.slices[id.Name] = true
				p.hyps = append(p.hyps, eq(fmt.Sprintf("(ELen %q)", id.Name), lit(int(n))))
				return
			}
		}
	case *ast.IndexExpr:
		// a byte read: 0..255
		v := g.freshVar(id.Name)
		p.subst[id.Name] = fmt.Sprintf("(EVar %q)", v)
		p.hyps = append(p.hyps, le(lit(0), p.subst[id.Name]), le(p.subst[id.Name], lit(255)))
		return
	}
	if s, ok := g.tr(rhs, p); ok {
		p.subst[id.Name] = s
		return
	}
	// opaque
	p.subst[id.Name] = fmt.Sprintf("(EVar %q)", g.freshVar(id.Name))
}

// inline executes a helper symbolically on the current path (single fall-through path required); returns the Coq
// expressions of its results ("" when not translatable)
func (g *vcgen) inline(h *ast.FuncDecl, args []ast.Expr, p *spath) []string {
	if g.depth > 4 {
		return nil
	}
	g.depth++
	defer func() { g.depth-- }()
	saved := map[string]string{}
	savedSl := map[string]bool{}
	var params []string
	for _, f := range h.Type.Params.List {
		for _, n := range f.Names {
			params = append(params, n.Name)
		}
	}
	if len(params) != len(args) {
		return nil
	}
	// bind
	bind := map[string]string{}
	bindSl := map[string]string{}
	for i, a := range args {
		if s, ok := g.tr(a, p); ok {
			bind[params[i]] = s
		} else if name := g.sliceName(a, p); name != "" {
			bindSl[params[i]] = name
		}
	}
	for k, v := range p.subst {
		saved[k] = v
	}
	for k, v := range p.slices {
		savedSl[k] = v
	}
	for k, v := range bind {
		p.subst[k] = v
	}
	for k, v := range bindSl {
		if k != v {
			// alias: same length
			p.slices[k] = true
			p.hyps = append(p.hyps, eq(fmt.Sprintf("(ELen %q)", k), fmt.Sprintf("(ELen %q)", v)))
		}
	}
	var results []string
	outs := g.execRet(h.Body.List, p, &results)
	// merge: require exactly one surviving path and adopt it
	if len(outs) == 1 {
		*p = *outs[0]
	}
	// restore caller's names that the helper shadowed (keep hyps)
	for k := range p.subst {
		if _, was := saved[k]; !was {
			delete(p.subst, k)
		}
	}
	for k, v := range saved {
		p.subst[k] = v
	}
	return results
}

// execRet is exec for helper bodies: the (single) return statement's values are captured
func (g *vcgen) execRet(stmts []ast.Stmt, p *spath, results *[]string) []*spath {
	var outs []*spath
	paths := []*spath{p}
	for _, st := range stmts {
		if rs, ok := st.(*ast.ReturnStmt); ok {
			for _, q := range paths {
				var vals []string
				if len(rs.Results) == 1 {
					if c, isCall := rs.Results[0].(*ast.CallExpr); isCall {
						fn := exprString(c.Fun)
						if strings.HasPrefix(fn, "b.") && g.methods[strings.TrimPrefix(fn, "b.")] != nil {
							vals = g.inline(g.methods[strings.TrimPrefix(fn, "b.")], c.Args, q)
						}
					}
				}
				if vals == nil {
					for _, r := range rs.Results {
						g.scan(r, q)
						if s, ok := g.tr(r, q); ok {
							vals = append(vals, s)
						} else {
							vals = append(vals, "")
						}
					}
				}
				if *results == nil {
					*results = vals
				}
				outs = append(outs, q)
			}
			return outs
		}
		var next []*spath
		for _, q := range paths {
			next = append(next, g.execStmt(st, q)...)
		}
		paths = next
	}
	return append(outs, paths...)
}

func (g *vcgen) exec(stmts []ast.Stmt, p *spath) []*spath {
	paths := []*spath{p}
	for _, st := range stmts {
		var next []*spath
		for _, q := range paths {
			next = append(next, g.execStmt(st, q)...)
		}
		paths = next
		if len(paths) > 64 {
			g.uncovered[g.cur] = "path explosion"
			return nil
		}
	}
	return paths
}

func isPanicCall(st ast.Stmt) bool {
	es, ok := st.(*ast.ExprStmt)
	if !ok {
		return false
	}
	c, ok := es.X.(*ast.CallExpr)
	return ok && exprString(c.Fun) == "panic"
}

// execStmt returns the paths that fall through the statement
func (g *vcgen) execStmt(st ast.Stmt, p *spath) []*spath {
	switch s := st.(type) {
	case *ast.AssignStmt:
		if len(s.Lhs) == len(s.Rhs) {
			if s.Tok == token.ADD_ASSIGN || s.Tok == token.SUB_ASSIGN {
				g.scan(s.Rhs[0], p)
				if id, ok := s.Lhs[0].(*ast.Ident); ok {
					p.subst[id.Name] = fmt.Sprintf("(EVar %q)", g.freshVar(id.Name))
				}
				return []*spath{p}
			}
			for i := range s.Lhs {
				g.assign(s.Lhs[i], s.Rhs[i], p)
			}
			return []*spath{p}
		}
		// x, y := f(...)
		if len(s.Rhs) == 1 {
			g.scan(s.Rhs[0], p)
			if c, ok := s.Rhs[0].(*ast.CallExpr); ok {
				fn := exprString(c.Fun)
				if strings.HasPrefix(fn, "b.") && g.methods[strings.TrimPrefix(fn, "b.")] != nil {
					vals := g.inline(g.methods[strings.TrimPrefix(fn, "b.")], c.Args, p)
					for i, l := range s.Lhs {
						if id, ok := l.(*ast.Ident); ok && id.Name != "_" {
							if i < len(vals) && vals[i] != "" {
								p.subst[id.Name] = vals[i]
							} else {
								p.subst[id.Name] = fmt.Sprintf("(EVar %q)", g.freshVar(id.Name))
							}
						}
					}
					return []*spath{p}
				}
				if fn == "expandSlice" && len(s.Lhs) == 2 && len(c.Args) == 2 {
					// dst, res := expandSlice(b, l): len(dst) = l, len(res) = len(b)+l
					if d, ok := s.Lhs[0].(*ast.Ident); ok {
						p.slices[d.Name] = true
						if l, ok := g.tr(c.Args[1], p); ok {
							p.hyps = append(p.hyps, eq(fmt.Sprintf("(ELen %q)", d.Name), l))
						}
					}
					if rr, ok := s.Lhs[1].(*ast.Ident); ok {
						p.slices[rr.Name] = true
						if l, ok := g.tr(c.Args[1], p); ok {
							if bn := g.sliceName(c.Args[0], p); bn != "" {
								p.hyps = append(p.hyps, eq(fmt.Sprintf("(ELen %q)", rr.Name), fmt.Sprintf("(EBin OAdd (ELen %q) %s)", bn, l)))
							}
						}
					}
					return []*spath{p}
				}
			}
			if ta, ok := s.Rhs[0].(*ast.TypeAssertExpr); ok && ta.Type != nil && exprString(ta.Type) == "[]byte" {
				if id, ok := s.Lhs[0].(*ast.Ident); ok {
					p.hyps = dropLenFacts(p.hyps, id.Name)
					delete(p.subst, id.Name)
					p.slices[id.Name] = true
					return []*spath{p}
				}
			}
			for _, l := range s.Lhs {
				if id, ok := l.(*ast.Ident); ok && id.Name != "_" {
					delete(p.slices, id.Name)
					p.subst[id.Name] = fmt.Sprintf("(EVar %q)", g.freshVar(id.Name))
				}
			}
		}
		return []*spath{p}
	case *ast.DeclStmt:
		if gd, ok := s.Decl.(*ast.GenDecl); ok {
			for _, sp := range gd.Specs {
				if vs, ok := sp.(*ast.ValueSpec); ok {
					for i, n := range vs.Names {
						if i < len(vs.Values) {
							g.assign(n, vs.Values[i], p)
						} else {
							p.subst[n.Name] = lit(0)
						}
					}
				}
			}
		}
		return []*spath{p}
	case *ast.ExprStmt:
		if isPanicCall(s) {
			g.scan(s.X, p)
			return nil
		}
		if c, ok := s.X.(*ast.CallExpr); ok {
			fn := exprString(c.Fun)
			if strings.HasPrefix(fn, "b.") && g.methods[strings.TrimPrefix(fn, "b.")] != nil && g.methods[strings.TrimPrefix(fn, "b.")].Type.Results == nil {
				for _, a := range c.Args {
					g.scan(a, p)
				}
				g.inline(g.methods[strings.TrimPrefix(fn, "b.")], c.Args, p)
				return []*spath{p}
			}
		}
		g.scan(s.X, p)
		return []*spath{p}
	case *ast.IncDecStmt:
		if id, ok := s.X.(*ast.Ident); ok {
			if cur, has := p.subst[id.Name]; has {
				op := "OAdd"
				if s.Tok == token.DEC {
					op = "OSub"
				}
				p.subst[id.Name] = fmt.Sprintf("(EBin %s %s (EInt 1))", op, cur)
			}
		}
		return []*spath{p}
	case *ast.ReturnStmt:
		for _, r := range s.Results {
			g.scan(r, p)
		}
		return nil
	case *ast.BlockStmt:
		return g.exec(s.List, p)
	case *ast.IfStmt:
		if s.Init != nil {
			ps := g.execStmt(s.Init, p)
			if len(ps) != 1 {
				return ps
			}
			p = ps[0]
		}
		g.scan(s.Cond, p)
		thenP, elseP := p.clone(), p.clone()
		g.addPos(s.Cond, thenP)
		g.addNeg(s.Cond, elseP)
		outs := g.exec(s.Body.List, thenP)
		if s.Else != nil {
			outs = append(outs, g.execStmt(s.Else, elseP)...)
		} else {
			outs = append(outs, elseP)
		}
		return outs
	case *ast.ForStmt:
		return g.execFor(s, p)
	case *ast.RangeStmt:
		// for i := range x / for i, v := range x: i in [0, len x)
		q := p.clone()
		g.scan(s.X, q)
		if id, ok := s.Key.(*ast.Ident); ok && id.Name != "_" {
			v := fmt.Sprintf("(EVar %q)", g.freshVar(id.Name))
			q.subst[id.Name] = v
			if name := g.sliceName(s.X, q); name != "" {
				q.hyps = append(q.hyps, le(lit(0), v), lt(v, fmt.Sprintf("(ELen %q)", name)))
			}
		}
		if id, ok := s.Value.(*ast.Ident); ok && id.Name != "_" {
			q.subst[id.Name] = fmt.Sprintf("(EVar %q)", g.freshVar(id.Name))
		}
		g.exec(s.Body.List, q)
		g.havoc(s.Body, p)
		return []*spath{p}
	case *ast.SwitchStmt:
		if s.Init != nil {
			g.execStmt(s.Init, p)
		}
		g.scan(s.Tag, p)
		var outs []*spath
		hasDefault := false
		for _, cc := range s.Body.List {
			cl := cc.(*ast.CaseClause)
			q := p.clone()
			if cl.List == nil {
				hasDefault = true
			}
			for _, e := range cl.List {
				g.scan(e, q)
			}
			if s.Tag == nil && len(cl.List) == 1 {
				if c, ok := g.tr(cl.List[0], q); ok {
					q.hyps = append(q.hyps, c)
				}
			}
			outs = append(outs, g.exec(cl.Body, q)...)
		}
		if !hasDefault {
			outs = append(outs, p)
		}
		return outs
	case *ast.BranchStmt, *ast.EmptyStmt, *ast.LabeledStmt, *ast.DeferStmt, *ast.GoStmt:
		return []*spath{p}
	}
	return []*spath{p}
}

// havoc: every variable assigned in the block becomes unconstrained
func (g *vcgen) havoc(body *ast.BlockStmt, p *spath) {
	ast.Inspect(body, func(n ast.Node) bool {
		switch s := n.(type) {
		case *ast.AssignStmt:
			for _, l := range s.Lhs {
				if id, ok := l.(*ast.Ident); ok {
					if _, isInt := p.subst[id.Name]; isInt {
						p.subst[id.Name] = fmt.Sprintf("(EVar %q)", g.freshVar(id.Name))
					}
				}
			}
		case *ast.IncDecStmt:
			if id, ok := s.X.(*ast.Ident); ok {
				p.subst[id.Name] = fmt.Sprintf("(EVar %q)", g.freshVar(id.Name))
			}
		}
		return true
	})
}

func (g *vcgen) execFor(s *ast.ForStmt, p *spath) []*spath {
	// counting loops: for i := A; i < B; i++   |   for i := A; i >= 0; i--
	if s.Init != nil && s.Cond != nil && s.Post != nil {
		as, ok1 := s.Init.(*ast.AssignStmt)
		be, ok2 := s.Cond.(*ast.BinaryExpr)
		inc, ok3 := s.Post.(*ast.IncDecStmt)
		if ok1 && ok2 && ok3 && len(as.Lhs) == 1 && len(as.Rhs) == 1 {
			iv, _ := as.Lhs[0].(*ast.Ident)
			cl, _ := be.X.(*ast.Ident)
			pv, _ := inc.X.(*ast.Ident)
			if iv != nil && cl != nil && pv != nil && iv.Name == cl.Name && iv.Name == pv.Name && !assignsTo(s.Body, iv.Name) {
				a, okA := g.tr(as.Rhs[0], p)
				b, okB := g.tr(be.Y, p)
				if okA && okB {
					q := p.clone()
					v := fmt.Sprintf("(EVar %q)", g.freshVar(iv.Name))
					q.subst[iv.Name] = v
					switch {
					case inc.Tok == token.INC && be.Op == token.LSS:
						q.hyps = append(q.hyps, le(a, v), lt(v, b))
					case inc.Tok == token.DEC && be.Op == token.GEQ:
						q.hyps = append(q.hyps, le(b, v), le(v, a))
					default:
						goto generic
					}
					g.exec(s.Body.List, q)
					g.havoc(s.Body, p)
					delete(p.subst, iv.Name)
					return []*spath{p}
				}
			}
		}
	}
generic:
	// decreasing counter: for x > 0 && ... { x-- }: inside, 0 <= x' <= x
	if s.Init == nil && s.Post == nil && s.Cond != nil && len(s.Body.List) == 1 {
		if dec, ok := s.Body.List[0].(*ast.IncDecStmt); ok && dec.Tok == token.DEC {
			if id, ok := dec.X.(*ast.Ident); ok {
				if cur, has := p.subst[id.Name]; has {
					q := p.clone()
					v := fmt.Sprintf("(EVar %q)", g.freshVar(id.Name))
					q.subst[id.Name] = v
					q.hyps = append(q.hyps, le(v, cur))
					g.scan(s.Cond, q)
					// after the loop: x'' <= x and (the loop condition is false)
					p.subst[id.Name] = v
					p.hyps = append(p.hyps, le(v, cur))
					if c, ok := g.tr(s.Cond, p); ok {
						_ = c // the negated condition mentions an index expression: not added
					}
					if be, ok := s.Cond.(*ast.BinaryExpr); ok && be.Op == token.LAND {
						if c0, ok := g.tr(be.X, p); ok {
							// loop ran while x > 0: at every evaluation x >= 0 held on entry or after a decrement from > 0
							_ = c0
							p.hyps = append(p.hyps, le(lit(0), v))
						}
					}
					return []*spath{p}
				}
			}
		}
	}
	// increasing counter: for i := A; cond; { i += copy(...) }: inside, i >= A
	lower := ""
	lowerVar := ""
	postOK := s.Post == nil
	if pd, ok := s.Post.(*ast.IncDecStmt); ok && pd.Tok == token.INC {
		postOK = true
	}
	if as, ok := s.Init.(*ast.AssignStmt); ok && len(as.Lhs) == 1 && len(as.Rhs) == 1 && postOK {
		if iv, ok := as.Lhs[0].(*ast.Ident); ok && onlyIncreasedByCopy(s.Body, iv.Name) {
			if a, ok := g.tr(as.Rhs[0], p); ok {
				lower, lowerVar = a, iv.Name
			}
		}
	}
	// anything else: scan under havoc
	if s.Init != nil {
		g.execStmt(s.Init, p)
	}
	g.havoc(s.Body, p)
	_ = lowerVar
	if s.Post != nil {
		if ids, ok := s.Post.(*ast.IncDecStmt); ok {
			if id, ok := ids.X.(*ast.Ident); ok {
				p.subst[id.Name] = fmt.Sprintf("(EVar %q)", g.freshVar(id.Name))
			}
		}
	}
	if lower != "" {
		v := fmt.Sprintf("(EVar %q)", g.freshVar(lowerVar))
		p.subst[lowerVar] = v
		p.hyps = append(p.hyps, le(lower, v))
	}
	q := p.clone()
	if s.Cond != nil {
		g.scan(s.Cond, q)
		if c, ok := g.tr(s.Cond, q); ok {
			q.hyps = append(q.hyps, c)
		}
	}
	g.exec(s.Body.List, q)
	return []*spath{p}
}

// onlyIncreasedByCopy: every assignment to name in the body is `name += copy(...)` (copy returns a non-negative count)
func onlyIncreasedByCopy(body *ast.BlockStmt, name string) bool {
	okAll, seen := true, false
	ast.Inspect(body, func(n ast.Node) bool {
		switch s := n.(type) {
		case *ast.AssignStmt:
			for _, l := range s.Lhs {
				if id, ok := l.(*ast.Ident); ok && id.Name == name {
					seen = true
					c, isCall := s.Rhs[0].(*ast.CallExpr)
					lv, isLit := intLit(s.Rhs[0])
					if s.Tok != token.ADD_ASSIGN || !((isCall && exprString(c.Fun) == "copy") || (isLit && lv >= 0)) {
						okAll = false
					}
				}
			}
		case *ast.IncDecStmt:
			if id, ok := s.X.(*ast.Ident); ok && id.Name == name {
				seen = true
				if s.Tok != token.INC {
					okAll = false
				}
			}
		}
		return true
	})
	return okAll && seen
}

func assignsTo(body *ast.BlockStmt, name string) bool {
	found := false
	ast.Inspect(body, func(n ast.Node) bool {
		switch s := n.(type) {
		case *ast.AssignStmt:
			for _, l := range s.Lhs {
				if id, ok := l.(*ast.Ident); ok && id.Name == name {
					found = true
				}
			}
		case *ast.IncDecStmt:
			if id, ok := s.X.(*ast.Ident); ok && id.Name == name {
				found = true
			}
		}
		return true
	})
	return found
}

// dropLenFacts removes hypotheses about the length of a slice variable that has been reassigned
func dropLenFacts(hyps []string, name string) []string {
	var out []string
	for _, h := range hyps {
		if strings.Contains(h, fmt.Sprintf("(ELen %q)", name)) {
			continue
		}
		out = append(out, h)
	}
	return out
}

func coqStrList(xs []string) string {
	var q []string
	for _, x := range xs {
		q = append(q, coqStr(x))
	}
	return "[" + strings.Join(q, "; ") + "]"
}

// paramSlices registers slice-like parameters (strings, slices, pointers to arrays) of an entry function
func (g *vcgen) paramSlices(fd *ast.FuncDecl, p *spath) {
	for _, f := range fd.Type.Params.List {
		t := exprString(f.Type)
		for _, n := range f.Names {
			switch {
			case t == "string" || strings.HasPrefix(t, "[]") || strings.HasPrefix(t, "..."):
				p.slices[n.Name] = true
			case strings.HasPrefix(t, "*["):
				var k int
				if _, err := fmt.Sscanf(t, "*[%d]", &k); err == nil {
					p.slices[n.Name] = true
					p.hyps = append(p.hyps, eq(fmt.Sprintf("(ELen %q)", n.Name), lit(k)))
				}
			case t == "int" || t == "int64" || t == "bool" || t == "rune" || t == "byte":
				p.subst[n.Name] = fmt.Sprintf("(EVar %q)", n.Name)
			}
		}
	}
	for name, k := range g.arrays {
		p.hyps = append(p.hyps, eq(fmt.Sprintf("(ELen %q)", name), lit(k)))
	}
}

func newVCGen(rel string) *vcgen {
	_, f := parseFile(rel)
	g := &vcgen{file: f, methods: map[string]*ast.FuncDecl{}, funcs: map[string]*ast.FuncDecl{}, uncovered: map[string]string{},
		consts: map[string]string{}, arrays: map[string]int{}}
	for _, d := range f.Decls {
		switch x := d.(type) {
		case *ast.FuncDecl:
			if x.Recv != nil {
				g.methods[x.Name.Name] = x
			} else {
				g.funcs[x.Name.Name] = x
			}
		case *ast.GenDecl:
			for _, sp := range x.Specs {
				vs, ok := sp.(*ast.ValueSpec)
				if !ok || len(vs.Names) != 1 || len(vs.Values) != 1 {
					continue
				}
				if x.Tok == token.CONST {
					switch exprString(vs.Values[0]) {
					case "1<<32-1":
						g.consts[vs.Names[0].Name] = "(EInt 4294967295)"
					default:
						if v, ok := intLit(vs.Values[0]); ok {
							g.consts[vs.Names[0].Name] = fmt.Sprintf("(EInt %d)", v)
						} else if sl, ok := strLit(vs.Values[0]); ok {
							g.arrays[vs.Names[0].Name] = len(sl)
						}
					}
				}
			}
		}
	}
	return g
}

func (g *vcgen) write(outName, prefix string, names []string) {
	var sb strings.Builder
	sb.WriteString("(* GENERATED by /verif/translator — do not edit *)\nFrom GN Require Import Common.Base Common.Int64 Model.VC.\nFrom Coq Require Import String.\nOpen Scope string_scope.\n\n")
	fmt.Fprintf(&sb, "Definition %s_vcs : list vc := [\n", prefix)
	for i, v := range g.vcs {
		sep := ";"
		if i == len(g.vcs)-1 {
			sep = ""
		}
		fmt.Fprintf(&sb, "  {| vc_fun := %s; vc_what := %s; vc_vars := %s; vc_lens := %s;\n     vc_hyps := [%s];\n     vc_goal := %s |}%s\n",
			coqStr(v.fun), coqStr(v.what), coqStrList(v.vars), coqStrList(v.lens), strings.Join(v.hyps, "; "), v.goal, sep)
	}
	sb.WriteString("].\n\n")
	var unc, keys []string
	for k := range g.uncovered {
		keys = append(keys, k)
	}
	sort.Strings(keys)
	for _, k := range keys {
		unc = append(unc, fmt.Sprintf("(%s, %s)", coqStr(k), coqStr(g.uncovered[k])))
	}
	fmt.Fprintf(&sb, "Definition %s_vc_functions : list string := %s.\n", prefix, coqStrList(names))
	fmt.Fprintf(&sb, "Definition %s_vc_uncovered : list (string * string) := [%s].\n", prefix, strings.Join(unc, "; "))
	writeIfChanged(outName, sb.String())
}

// other natives: url/escape.go, url/url.go (valueToURLPort), util/module.go
func genOtherVC() {
	g := newVCGen("url/escape.go")
	names := []string{"escape", "unescapeSearchParam"}
	for _, n := range names {
		g.cur, g.fresh = n, 0
		p := &spath{subst: map[string]string{}, slices: map[string]bool{}}
		g.paramSlices(g.funcs[n], p)
		g.exec(g.funcs[n].Body.List, p)
	}
	g2 := newVCGen("url/url.go")
	if fd := g2.funcs["valueToURLPort"]; fd != nil {
		g2.cur, g2.fresh = "valueToURLPort", 0
		p := &spath{subst: map[string]string{}, slices: map[string]bool{}}
		p.slices["s"] = true
		g2.exec(fd.Body.List, p)
		g.vcs = append(g.vcs, g2.vcs...)
		names = append(names, "valueToURLPort")
	}
	g3 := newVCGen("util/module.go")
	if fd := g3.methods["js_format"]; fd != nil {
		g3.cur, g3.fresh = "js_format", 0
		p := &spath{subst: map[string]string{}, slices: map[string]bool{}}
		g3.exec(fd.Body.List, p)
		g.vcs = append(g.vcs, g3.vcs...)
		names = append(names, "js_format")
	}
	g.write("OtherVC.v", "other", names)
}

func genBufferVC() {
	_, f := parseFile("buffer/buffer.go")
	g := &vcgen{file: f, methods: map[string]*ast.FuncDecl{}, funcs: map[string]*ast.FuncDecl{}, uncovered: map[string]string{},
		consts: map[string]string{}, arrays: map[string]int{}}
	for _, d := range f.Decls {
		switch x := d.(type) {
		case *ast.FuncDecl:
			if x.Recv != nil {
				g.methods[x.Name.Name] = x
			} else {
				g.funcs[x.Name.Name] = x
			}
		case *ast.GenDecl:
			if x.Tok == token.CONST {
				for _, sp := range x.Specs {
					vs := sp.(*ast.ValueSpec)
					if len(vs.Names) == 1 && len(vs.Values) == 1 {
						switch exprString(vs.Values[0]) {
						case "1<<32-1":
							g.consts[vs.Names[0].Name] = "(EInt 4294967295)"
						default:
							if v, ok := intLit(vs.Values[0]); ok {
								g.consts[vs.Names[0].Name] = fmt.Sprintf("(EInt %d)", v)
							}
						}
					}
				}
			}
		}
	}
	// entry points: every method taking a goja.FunctionCall / ConstructorCall, plus fill and fromDepth
	var names []string
	for n, m := range g.methods {
		if m.Type.Params != nil && len(m.Type.Params.List) >= 1 {
			t := exprString(m.Type.Params.List[0].Type)
			if t == "goja.FunctionCall" || t == "goja.ConstructorCall" {
				names = append(names, n)
			}
		}
	}
	names = append(names, "fill", "fromDepth")
	sort.Strings(names)
	for _, n := range names {
		m := g.methods[n]
		if m == nil {
			continue
		}
		g.cur = n
		g.fresh = 0
		p := &spath{subst: map[string]string{}, slices: map[string]bool{}}
		if n == "fill" {
			p.slices["buf"] = true
		}
		if n == "fromDepth" {
			p.slices["args"] = true
			p.subst["depth"] = "(EVar \"depth\")"
		}
		g.exec(m.Body.List, p)
	}
	g.write("BufferVC.v", "buffer", names)
}
