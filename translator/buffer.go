package main

import (
	"fmt"
	"go/ast"
	"go/token"
	"regexp"
	"sort"
	"strings"
)

type guard struct {
	kind string // GExpr | GBigInt64 | GBigUint64 | GFloat32
	cond string // Coq expr (GExpr)
	name string
	cls  int
}

func (g guard) coq() string {
	switch g.kind {
	case "GExpr":
		return fmt.Sprintf("GExpr %s %s %d", g.cond, coqStr(g.name), g.cls)
	default:
		return g.kind
	}
}

type bufTr struct {
	file    *ast.File
	helpers map[string]*ast.FuncDecl
	notes   []string
}

func errClass(fun string) int {
	switch {
	case strings.Contains(fun, "OutOfRange") || strings.Contains(fun, "RangeError"):
		return 2
	default:
		return 1
	}
}

// guardsOf walks a statement list made of `x := pure`, `if c { panic(errors.NewX(b.r, "name", ...)) }`, helper calls.
// It returns the guards in order, the remaining statements (from the first unrecognised one) and the final substitution.
func (t *bufTr) guardsOf(stmts []ast.Stmt, ctx *exprCtx, depth int) ([]guard, []ast.Stmt) {
	var gs []guard
	for i, st := range stmts {
		switch s := st.(type) {
		case *ast.AssignStmt:
			if s.Tok == token.DEFINE && len(s.Lhs) == 1 && len(s.Rhs) == 1 {
				if id, ok := s.Lhs[0].(*ast.Ident); ok {
					if tr, err := ctx.tryTr(s.Rhs[0]); err == nil {
						ctx.subst[id.Name] = tr
						continue
					}
				}
			}
			return gs, stmts[i:]
		case *ast.IfStmt:
			if s.Else != nil || s.Init != nil || len(s.Body.List) != 1 {
				return gs, stmts[i:]
			}
			es, ok := s.Body.List[0].(*ast.ExprStmt)
			if !ok {
				return gs, stmts[i:]
			}
			pc, ok := es.X.(*ast.CallExpr)
			if !ok || exprString(pc.Fun) != "panic" || len(pc.Args) != 1 {
				return gs, stmts[i:]
			}
			ec, ok := pc.Args[0].(*ast.CallExpr)
			if !ok || len(ec.Args) < 2 {
				return gs, stmts[i:]
			}
			fun := exprString(ec.Fun)
			name, _ := strLit(ec.Args[1])
			cs := exprString(s.Cond)
			switch cs {
			case "!value.IsInt64()":
				gs = append(gs, guard{kind: "GBigInt64"})
				continue
			case "!value.IsUint64()":
				gs = append(gs, guard{kind: "GBigUint64"})
				continue
			case "value<-math.MaxFloat32||value>math.MaxFloat32":
				gs = append(gs, guard{kind: "GFloat32"})
				continue
			}
			tr, err := ctx.tryTr(s.Cond)
			if err != nil {
				return gs, stmts[i:]
			}
			gs = append(gs, guard{kind: "GExpr", cond: tr, name: name, cls: errClass(fun)})
		case *ast.ExprStmt:
			call, ok := s.X.(*ast.CallExpr)
			if !ok || depth > 3 {
				return gs, stmts[i:]
			}
			fn := exprString(call.Fun)
			if !strings.HasPrefix(fn, "b.") {
				return gs, stmts[i:]
			}
			h := t.helpers[strings.TrimPrefix(fn, "b.")]
			if h == nil || h.Type.Results != nil {
				return gs, stmts[i:]
			}
			// bind parameters
			sub := &exprCtx{subst: map[string]string{}, lens: ctx.lens}
			var params []string
			for _, f := range h.Type.Params.List {
				for _, n := range f.Names {
					params = append(params, n.Name)
				}
			}
			if len(params) != len(call.Args) {
				return gs, stmts[i:]
			}
			okArgs := true
			for k, a := range call.Args {
				tr, err := ctx.tryTr(a)
				if err != nil {
					// float-typed helper argument: keep the name
					if id, isId := a.(*ast.Ident); isId {
						tr = fmt.Sprintf("(EVar %q)", id.Name)
					} else {
						okArgs = false
					}
				}
				sub.subst[params[k]] = tr
			}
			if !okArgs {
				return gs, stmts[i:]
			}
			hg, rest := t.guardsOf(h.Body.List, sub, depth+1)
			if len(rest) != 0 {
				return gs, stmts[i:]
			}
			gs = append(gs, hg...)
		default:
			return gs, stmts[i:]
		}
	}
	return gs, nil
}

var (
	rePut   = regexp.MustCompile(`^binary\.(Big|Little)Endian\.PutUint(16|32|64)\(bb\[offset:offset\+(\d)\],(.+)\)$`)
	reGet   = regexp.MustCompile(`^value:=(int64|int32|int16|)\(?binary\.(Big|Little)Endian\.Uint(16|32|64)\(bb\[offset:offset\+(\d)\]\)\)?$`)
	reRetW  = regexp.MustCompile(`^return b\.r\.ToValue\(offset\+(\d|byteLength)\)$`)
	reOffF  = regexp.MustCompile(`^offset:=b\.getOffsetArgument\(call,(\d),bb,(\d)\)$`)
	reOffV  = regexp.MustCompile(`^offset,byteLength:=b\.getVariableLength(Read|Write)Arguments\(call,bb\)$`)
	reCoerc = regexp.MustCompile(`^value:=goutil\.Required(Integer|Float|BigInt)Argument\(b\.r,call,"value",(\d)\)$`)
)

var loopForms = map[string]string{
	// writes
	"for i:=int64(0);i<byteLength;i++{shift:=uint(8*(byteLength-1-i));bb[offset+i]=byte(value>>shift)}": "SLoopBE",
	"for i:=int64(0);i<byteLength;i++{shift:=(byteLength-1-i)*8;bb[offset+i]=byte(value>>shift)}":       "SLoopBE",
	"for i:=int64(0);i<byteLength;i++{shift:=uint(8*i);bb[offset+i]=byte(value>>shift)}":                "SLoopLE",
	// reads
	"for i:=int64(0);i<byteLength;i++{value=(value<<8)|int64(bb[offset+i])}":  "LLoop BE",
	"for i:=byteLength-1;i>=0;i--{value=(value<<8)|int64(bb[offset+i])}":      "LLoop LE",
	"for i:=int64(0);i<byteLength;i++{value=(value<<8)|uint64(bb[offset+i])}": "LLoop BE",
	"for i:=byteLength-1;i>=0;i--{value=(value<<8)|uint64(bb[offset+i])}":     "LLoop LE",
}

func genBufferMethods() {
	_, f := parseFile("buffer/buffer.go")
	t := &bufTr{file: f, helpers: map[string]*ast.FuncDecl{}}
	for _, d := range f.Decls {
		if fd, ok := d.(*ast.FuncDecl); ok && fd.Recv != nil {
			t.helpers[fd.Name.Name] = fd
		}
	}
	var out strings.Builder
	out.WriteString("(* GENERATED by /verif/translator from buffer/buffer.go and goutil/argtypes.go — do not edit *)\nFrom GN Require Import Common.Base Common.Int64 Model.BufferTypes.\nFrom Coq Require Import String.\nOpen Scope string_scope.\n\n")
	ok := true
	fail := func(why string) {
		ok = false
		t.notes = append(t.notes, why)
	}

	// ---- getOffsetArgument / getVariableLengthArguments ----
	offGuard, varGuards := "", ""
	if h := t.helpers["getOffsetArgument"]; h != nil && len(h.Body.List) == 3 {
		first := stmtsString(h.Body.List[:1])
		last := stmtsString(h.Body.List[2:])
		ctx := &exprCtx{subst: map[string]string{}, lens: map[string]bool{"bb": true}}
		gs, rest := t.guardsOf(h.Body.List[1:2], ctx, 0)
		if first != `offset:=goutil.OptionalIntegerArgument(b.r,call,"offset",argIndex,0)` || last != "return offset" || len(gs) != 1 || rest != nil {
			fail("getOffsetArgument shape")
		} else {
			offGuard = gs[0].coq()
		}
	} else {
		fail("getOffsetArgument missing")
	}
	if h := t.helpers["getVariableLengthArguments"]; h != nil && len(h.Body.List) == 5 {
		pre := stmtsString(h.Body.List[:2])
		last := stmtsString(h.Body.List[4:])
		ctx := &exprCtx{subst: map[string]string{}, lens: map[string]bool{"bb": true}}
		gs, rest := t.guardsOf(h.Body.List[2:4], ctx, 0)
		if pre != `offset:=goutil.RequiredIntegerArgument(b.r,call,"offset",offsetArgIndex);byteLength:=goutil.RequiredIntegerArgument(b.r,call,"byteLength",byteLengthArgIndex)` || last != "return offset,byteLength" || len(gs) != 2 || rest != nil {
			fail("getVariableLengthArguments shape")
		} else {
			varGuards = "[" + gs[0].coq() + "; " + gs[1].coq() + "]"
		}
	} else {
		fail("getVariableLengthArguments missing")
	}
	rd, wr := "", ""
	if h := t.helpers["getVariableLengthReadArguments"]; h != nil {
		rd = stmtsString(h.Body.List)
	}
	if h := t.helpers["getVariableLengthWriteArguments"]; h != nil {
		wr = stmtsString(h.Body.List)
	}
	if rd != "return b.getVariableLengthArguments(call,bb,0,1)" || wr != "return b.getVariableLengthArguments(call,bb,1,2)" {
		fail("getVariableLength{Read,Write}Arguments indices")
	}
	if offGuard == "" {
		offGuard = "GBigInt64"
	}
	if varGuards == "" {
		varGuards = "[]"
	}
	fmt.Fprintf(&out, "Definition off_guard : guard := %s.\nDefinition var_guards : list guard := %s.\n", offGuard, varGuards)

	// signExtend
	if h := findFunc(f, "", "signExtend"); h == nil || stmtsString(h.Body.List) != "return(value<<(64-8*numBytes))>>(64-8*numBytes)" {
		fail("signExtend shape")
	}

	// ---- methods ----
	var names []string
	for n := range t.helpers {
		if regexp.MustCompile(`^(read|write)(Big)?(U?Int|Float|Double)`).MatchString(n) {
			names = append(names, n)
		}
	}
	sort.Strings(names)
	var wds, rds []string
	for _, n := range names {
		fd := t.helpers[n]
		ss := fd.Body.List
		bad := func(why string) { fail(n + ": " + why) }
		if len(ss) < 3 || stmtsString(ss[:1]) != "bb:=b.bytes(call.This)" { // bytes(): Bytes() with the nested-conversion guard (fix c0ae6bb)
			bad("first statement")
			continue
		}
		ss = ss[1:]
		if strings.HasPrefix(n, "write") {
			m := reCoerc.FindStringSubmatch(stmtsString(ss[:1]))
			if m == nil {
				bad("value coercion")
				continue
			}
			coerc, valIdx := "C"+m[1], m[2]
			ss = ss[1:]
			offS := stmtsString(ss[:1])
			off := ""
			width := ""
			if m := reOffF.FindStringSubmatch(offS); m != nil {
				off = fmt.Sprintf("OffFixed %s%%nat %s", m[1], m[2])
				width = m[2]
			} else if m := reOffV.FindStringSubmatch(offS); m != nil && m[1] == "Write" {
				off = "OffVar 1%nat 2%nat"
				width = "byteLength"
			} else {
				bad("offset statement")
				continue
			}
			ss = ss[1:]
			ctx := &exprCtx{subst: map[string]string{}, lens: map[string]bool{"bb": true}}
			gs, rest := t.guardsOf(ss, ctx, 0)
			var gstr []string
			for _, g := range gs {
				gstr = append(gstr, g.coq())
			}
			// conversions + store + return
			rs := stmtsString(rest)
			parts := strings.Split(rs, ";")
			store := ""
			retS := ""
			if len(rest) >= 2 {
				retS = stmtsString(rest[len(rest)-1:])
				body := rest[:len(rest)-1]
				bodyS := stmtsString(body)
				switch {
				case len(body) == 1 && loopForms[bodyS] != "":
					store = loopForms[bodyS]
				case len(body) == 1 && (bodyS == "bb[offset]=byte(int8(value))" || bodyS == "bb[offset]=uint8(value)"):
					store = "SPut 1 BE"
				default:
					conv := ""
					if len(body) == 2 {
						conv = stmtsString(body[:1])
						body = body[1:]
					}
					if len(body) != 1 {
						break
					}
					m := rePut.FindStringSubmatch(stmtsString(body))
					if m == nil || m[2] != map[string]string{"2": "16", "4": "32", "8": "64"}[m[3]] {
						break
					}
					en := map[string]string{"Big": "BE", "Little": "LE"}[m[1]]
					src := m[4]
					switch {
					case conv == "" && (src == "uint16(value)" || src == "uint32(value)"):
						store = fmt.Sprintf("SPut %s %s", m[3], en)
					case conv == "intValue:=value.Int64()" && src == "uint64(intValue)":
						store = fmt.Sprintf("SBig %s true", en)
					case conv == "uintValue:=value.Uint64()" && src == "uintValue":
						store = fmt.Sprintf("SBig %s false", en)
					case conv == "bits:=math.Float64bits(value)" && src == "bits" && m[3] == "8":
						store = fmt.Sprintf("SBits64 %s", en)
					case conv == "bits:=math.Float32bits(float32(value))" && src == "bits" && m[3] == "4":
						store = fmt.Sprintf("SBits32 %s", en)
					}
				}
			}
			_ = parts
			mr := reRetW.FindStringSubmatch(retS)
			if store == "" || mr == nil || mr[1] != width {
				bad("store/return: " + rs)
				continue
			}
			wds = append(wds, fmt.Sprintf("  {| w_go := %s; w_coerce := %s; w_valarg := %s%%nat; w_off := %s; w_guards := [%s]; w_store := %s |}",
				coqStr(n), coerc, valIdx, off, strings.Join(gstr, "; "), store))
		} else {
			offS := stmtsString(ss[:1])
			off := ""
			if m := reOffF.FindStringSubmatch(offS); m != nil && m[1] == "0" {
				off = fmt.Sprintf("OffFixed 0%%nat %s", m[2])
			} else if m := reOffV.FindStringSubmatch(offS); m != nil && m[1] == "Read" {
				off = "OffVar 0%nat 1%nat"
			} else {
				bad("offset statement")
				continue
			}
			ss = ss[1:]
			rs := stmtsString(ss)
			load := ""
			switch {
			case rs == "value:=int8(bb[offset]);return b.r.ToValue(value)":
				load = "LGet 1 BE true"
			case rs == "value:=bb[offset];return b.r.ToValue(value)":
				load = "LGet 1 BE false"
			case len(ss) == 2:
				m := reGet.FindStringSubmatch(stmtsString(ss[:1]))
				ret := stmtsString(ss[1:])
				if m == nil || m[3] != map[string]string{"2": "16", "4": "32", "8": "64"}[m[4]] {
					break
				}
				en := map[string]string{"Big": "BE", "Little": "LE"}[m[2]]
				switch {
				case ret == "return b.r.ToValue(value)" && m[1] == "" && m[4] != "8":
					load = fmt.Sprintf("LGet %s %s false", m[4], en)
				case ret == "return b.r.ToValue(value)" && m[1] == "int"+m[3] && m[4] != "8":
					load = fmt.Sprintf("LGet %s %s true", m[4], en)
				case ret == "return b.r.ToValue(big.NewInt(value))" && m[1] == "int64" && m[4] == "8":
					load = fmt.Sprintf("LBig %s true", en)
				case ret == "return b.r.ToValue(new(big.Int).SetUint64(value))" && m[1] == "" && m[4] == "8":
					load = fmt.Sprintf("LBig %s false", en)
				case ret == "return b.r.ToValue(math.Float64frombits(value))" && m[1] == "" && m[4] == "8":
					load = fmt.Sprintf("LF64 %s", en)
				case ret == "return b.r.ToValue(math.Float32frombits(value))" && m[1] == "" && m[4] == "4":
					load = fmt.Sprintf("LF32 %s", en)
				}
			case len(ss) == 4 && stmtsString(ss[:1]) == "var value int64" && stmtsString(ss[2:]) == "value=signExtend(value,byteLength);return b.r.ToValue(value)":
				if l := loopForms[stmtsString(ss[1:2])]; strings.HasPrefix(l, "LLoop") {
					load = l + " true"
				}
			case len(ss) == 3 && stmtsString(ss[:1]) == "var value uint64" && stmtsString(ss[2:]) == "return b.r.ToValue(value)":
				if l := loopForms[stmtsString(ss[1:2])]; strings.HasPrefix(l, "LLoop") {
					load = l + " false"
				}
			}
			if load == "" {
				bad("load: " + rs)
				continue
			}
			rds = append(rds, fmt.Sprintf("  {| r_go := %s; r_off := %s; r_load := %s |}", coqStr(n), off, load))
		}
	}
	fmt.Fprintf(&out, "\nDefinition write_methods : list wdesc := [\n%s\n].\n\nDefinition read_methods : list rdesc := [\n%s\n].\n", strings.Join(wds, ";\n"), strings.Join(rds, ";\n"))

	// ---- registrations: proto.Set("name", b.method) ----
	var regs []string
	if req := findFunc(f, "", "Require"); req != nil {
		ast.Inspect(req.Body, func(nd ast.Node) bool {
			c, is := nd.(*ast.CallExpr)
			if !is || exprString(c.Fun) != "proto.Set" || len(c.Args) != 2 {
				return true
			}
			name, okN := strLit(c.Args[0])
			m := exprString(c.Args[1])
			if okN && strings.HasPrefix(m, "b.") {
				regs = append(regs, fmt.Sprintf("(%s, %s)", coqStr(name), coqStr(strings.TrimPrefix(m, "b."))))
			}
			return true
		})
	}
	fmt.Fprintf(&out, "\nDefinition registrations : list (string * string) := [\n  %s\n].\n", strings.Join(regs, ";\n  "))

	// ---- goutil coercion functions: number / undefined / other behaviour ----
	_, gf := parseFile("goutil/argtypes.go")
	var rules []string
	for _, n := range []string{"RequiredIntegerArgument", "RequiredFloatArgument", "OptionalIntegerArgument", "CoercedIntegerArgument"} {
		fd := findFunc(gf, "", n)
		if fd == nil || len(fd.Body.List) != 4 || stmtsString(fd.Body.List[:1]) != "arg:=call.Argument(argIndex)" {
			fail("goutil." + n + " shape")
			continue
		}
		num, und, oth := "", "", ""
		switch stmtsString(fd.Body.List[1:2]) {
		case "if goja.IsNumber(arg){return arg.ToInteger()}":
			num = "NumToInteger"
		case "if goja.IsNumber(arg){return arg.ToFloat()}":
			num = "NumToFloat"
		}
		s2 := stmtsString(fd.Body.List[2:3])
		switch {
		case s2 == "if goja.IsUndefined(arg){return defaultValue}":
			und = "UndefDefault"
		case strings.HasPrefix(s2, "if goja.IsUndefined(arg){panic(errors.NewTypeError(r,errors.ErrCodeInvalidArgType,"):
			und = "UndefTypeError"
		}
		switch stmtsString(fd.Body.List[3:]) {
		case "panic(errors.NewArgumentNotNumberTypeError(r,name))":
			oth = "OtherTypeError"
		case "return typeMistMatchValue":
			oth = "OtherMismatch"
		}
		if num == "" || und == "" || oth == "" {
			fail("goutil." + n + " body")
			continue
		}
		rules = append(rules, fmt.Sprintf("(%s, (%s, %s, %s))", coqStr(n), num, und, oth))
	}
	if fd := findFunc(gf, "", "RequiredBigIntArgument"); fd == nil || !strings.HasPrefix(stmtsString(fd.Body.List), `arg:=call.Argument(argIndex);if goja.IsUndefined(arg){panic(errors.NewTypeError(`) || !strings.Contains(stmtsString(fd.Body.List), "};if!goja.IsBigInt(arg){panic(errors.NewArgumentNotBigIntTypeError(r,name))};n,_:=arg.Export().(*big.Int);if n==nil{n=new(big.Int)};return n") {
		fail("goutil.RequiredBigIntArgument shape")
	}
	fmt.Fprintf(&out, "\nDefinition coerce_rules : list (string * (num_rule * undef_rule * other_rule)) := [\n  %s\n].\n", strings.Join(rules, ";\n  "))
	fmt.Fprintf(&out, "\nDefinition buffer_methods_translated : bool := %v.\n", ok)
	for _, n := range t.notes {
		fmt.Fprintf(&out, "(* Untranslated: %s *)\n", strings.ReplaceAll(n, "*)", "* )"))
	}
	writeIfChanged("BufferMethods.v", out.String())
}
