package main

import (
	"fmt"
	"go/ast"
	"go/token"
	"math"
	"strconv"
)

// Translation of int64-typed Go expressions into the Coq expression AST of Common/Int64.v.

type exprCtx struct {
	subst map[string]string // local name -> already translated Coq expr (x := pure-expr)
	lens  map[string]bool   // names of slices whose len may be taken
}

var mathConsts = map[string]string{
	"MinInt8": strconv.Itoa(math.MinInt8), "MaxInt8": strconv.Itoa(math.MaxInt8),
	"MinInt16": strconv.Itoa(math.MinInt16), "MaxInt16": strconv.Itoa(math.MaxInt16),
	"MinInt32": strconv.Itoa(math.MinInt32), "MaxInt32": strconv.Itoa(math.MaxInt32),
	"MinInt64": strconv.FormatInt(math.MinInt64, 10), "MaxInt64": strconv.FormatInt(math.MaxInt64, 10),
	"MaxUint8": strconv.Itoa(math.MaxUint8), "MaxUint16": strconv.Itoa(math.MaxUint16),
	"MaxUint32": strconv.FormatUint(math.MaxUint32, 10),
}

func coqZ(s string) string {
	if len(s) > 0 && s[0] == '-' {
		return "(" + s + ")"
	}
	return s
}

type untranslatable struct{ why string }

func (u untranslatable) Error() string { return u.why }

func (c *exprCtx) tr(e ast.Expr) string {
	switch x := e.(type) {
	case *ast.ParenExpr:
		return c.tr(x.X)
	case *ast.Ident:
		if s, ok := c.subst[x.Name]; ok {
			return s
		}
		return fmt.Sprintf("(EVar %q)", x.Name)
	case *ast.BasicLit:
		if x.Kind == token.INT {
			v, err := strconv.ParseInt(x.Value, 0, 64)
			if err == nil {
				return fmt.Sprintf("(EInt %s)", coqZ(strconv.FormatInt(v, 10)))
			}
		}
		if x.Kind == token.CHAR {
			s, err := strconv.Unquote(x.Value)
			if err == nil && len(s) == 1 {
				return fmt.Sprintf("(EInt %d)", s[0])
			}
		}
	case *ast.SelectorExpr:
		if id, ok := x.X.(*ast.Ident); ok && id.Name == "math" {
			if v, ok := mathConsts[x.Sel.Name]; ok {
				return fmt.Sprintf("(EInt %s)", coqZ(v))
			}
		}
	case *ast.UnaryExpr:
		switch x.Op {
		case token.SUB:
			return "(ENeg " + c.tr(x.X) + ")"
		case token.NOT:
			return "(ENot " + c.tr(x.X) + ")"
		}
	case *ast.BinaryExpr:
		ops := map[token.Token]string{token.ADD: "OAdd", token.SUB: "OSub", token.MUL: "OMul", token.SHL: "OShl", token.SHR: "OShr",
			token.LSS: "OLt", token.LEQ: "OLe", token.GTR: "OGt", token.GEQ: "OGe", token.EQL: "OEq", token.NEQ: "ONe",
			token.LAND: "OAnd", token.LOR: "OOr"}
		if o, ok := ops[x.Op]; ok {
			return fmt.Sprintf("(EBin %s %s %s)", o, c.tr(x.X), c.tr(x.Y))
		}
		if x.Op == token.AND { // x & (2^k - 1) is x mod 2^k for every integer x
			if m, ok := intLit(x.Y); ok && m > 0 && (m&(m+1)) == 0 {
				return fmt.Sprintf("(EBin OMod %s (EInt %d))", c.tr(x.X), m+1)
			}
		}
	case *ast.CallExpr:
		// int64(len(x)) ; int64(e) ; len(x) ; uint(e) for shift counts
		if id, ok := x.Fun.(*ast.Ident); ok && len(x.Args) == 1 {
			switch id.Name {
			case "int64", "int", "uint":
				if inner, ok := x.Args[0].(*ast.CallExpr); ok {
					if f, ok := inner.Fun.(*ast.Ident); ok && f.Name == "len" && len(inner.Args) == 1 {
						if a, ok := inner.Args[0].(*ast.Ident); ok {
							return fmt.Sprintf("(ELen %q)", a.Name)
						}
					}
				}
				if id.Name == "int64" || id.Name == "uint" {
					// int64(<int64 expr>) is the identity; uint(e) only occurs as a shift count of a non-negative e
					return c.tr(x.Args[0])
				}
			case "len":
				if a, ok := x.Args[0].(*ast.Ident); ok {
					return fmt.Sprintf("(ELen %q)", a.Name)
				}
				if exprString(x.Args[0]) == "call.Arguments" {
					return "(ELen \"call.Arguments\")"
				}
			}
		}
	}
	panic(untranslatable{"expression " + exprString(e)})
}

// tryTr translates or reports failure
func (c *exprCtx) tryTr(e ast.Expr) (s string, err error) {
	defer func() {
		if r := recover(); r != nil {
			if u, ok := r.(untranslatable); ok {
				err = u
				return
			}
			panic(r)
		}
	}()
	return c.tr(e), nil
}

func coqStr(s string) string {
	out := "\""
	for _, ch := range s {
		if ch == '"' {
			out += "\"\""
		} else {
			out += string(ch)
		}
	}
	return out + "\""
}
