// Package lib: shared helpers of the correspondence harness (PRNG, Coq term printers, case files).
package lib

import (
	"crypto/sha256"
	"encoding/hex"
	"encoding/json"
	"fmt"
	"os"
	"sort"
	"strconv"
	"strings"
)

// ---- one PRNG (splitmix64), every random choice derives from VERIF_SEED ----

type Rand struct{ s uint64 }

// NewRand: the state advances by a fixed odd constant per draw, so the initial state must not be an affine function of the
// seed with that same constant (seeds k and k+1 would then give one stream, shifted by a draw): the seed goes through
// murmur3's 64-bit finaliser first.
func NewRand(seed uint64) *Rand {
	z := seed + 0x1234567
	z ^= z >> 33
	z *= 0xFF51AFD7ED558CCD
	z ^= z >> 33
	z *= 0xC4CEB9FE1A85EC53
	z ^= z >> 33
	return &Rand{s: z}
}

func (r *Rand) U64() uint64 {
	r.s += 0x9E3779B97F4A7C15
	z := r.s
	z = (z ^ (z >> 30)) * 0xBF58476D1CE4E5B9
	z = (z ^ (z >> 27)) * 0x94D049BB133111EB
	return z ^ (z >> 31)
}
func (r *Rand) Intn(n int) int {
	if n <= 0 {
		return 0
	}
	return int(r.U64() % uint64(n))
}
func (r *Rand) Bool() bool        { return r.U64()&1 == 1 }
func (r *Rand) Chance(p int) bool { return r.Intn(100) < p }
func (r *Rand) Pick(xs []string) string {
	return xs[r.Intn(len(xs))]
}

func Seed() uint64 {
	if s := os.Getenv("VERIF_SEED"); s != "" {
		if v, err := strconv.ParseUint(s, 10, 64); err == nil {
			return v
		}
		if v, err := strconv.ParseInt(s, 10, 64); err == nil {
			return uint64(v)
		}
	}
	return 1
}

func Tier() string {
	if t := os.Getenv("VERIF_TIER"); t == "thorough" {
		return t
	}
	return "quick"
}

// ---- Coq term printers ----

func Z(v int64) string {
	if v < 0 {
		return "(" + strconv.FormatInt(v, 10) + ")"
	}
	return strconv.FormatInt(v, 10)
}

func ZBig(s string) string { // decimal string, possibly negative
	if strings.HasPrefix(s, "-") {
		return "(" + s + ")"
	}
	return s
}

func Zs(b []byte) string {
	parts := make([]string, len(b))
	for i, c := range b {
		parts[i] = strconv.Itoa(int(c))
	}
	return "[" + strings.Join(parts, ";") + "]"
}

func ZsStr(s string) string { return Zs([]byte(s)) }

// Runes renders a string as its list of code points
func Runes(s string) string {
	var parts []string
	for _, r := range s {
		parts = append(parts, strconv.Itoa(int(r)))
	}
	return "[" + strings.Join(parts, ";") + "]"
}

func List(items []string) string { return "[" + strings.Join(items, "; ") + "]" }

func Pair(a, b string) string { return "(" + a + ", " + b + ")" }

func Nat(n int) string { return strconv.Itoa(n) + "%nat" }

func N(n int) string { return strconv.Itoa(n) + "%N" }

func Bool(b bool) string {
	if b {
		return "true"
	}
	return "false"
}

func OptionS(present bool, v string) string {
	if present {
		return "(Some " + v + ")"
	}
	return "None"
}

// ---- case files ----

type Case struct {
	ID         int         `json:"id"`
	Coq        string      `json:"coq"`        // Coq term of the property's case type
	Desc       interface{} `json:"desc"`       // human-readable rendering (goes to samples / replays)
	Nontrivial bool        `json:"nontrivial"` // by the property's rule
	Tags       []string    `json:"tags"`       // input-class tags used to match known findings narrowly
	Key        string      `json:"key"`        // hash of the canonical case (distinctness)
}

type ImplFailure struct { // a violation decided on the Go side (direct run-time oracle)
	CaseID int         `json:"case_id"`
	Oracle string      `json:"oracle"`
	Tags   []string    `json:"tags"`
	Detail interface{} `json:"detail"`
}

type Output struct {
	Property     string                    `json:"property"`
	Seed         uint64                    `json:"seed"`
	Tier         string                    `json:"tier"`
	Cases        []Case                    `json:"cases"`
	Distribution map[string]map[string]int `json:"distribution"`
	ImplFailures []ImplFailure             `json:"impl_failures"`
	Notes        []string                  `json:"notes"`
	Extra        map[string]interface{}    `json:"extra,omitempty"`
}

func NewOutput(prop string) *Output {
	return &Output{ImplFailures: []ImplFailure{}, Notes: []string{}, Property: prop, Seed: Seed(), Tier: Tier(), Distribution: map[string]map[string]int{}, Extra: map[string]interface{}{}}
}

func (o *Output) Count(dim, bucket string) {
	m := o.Distribution[dim]
	if m == nil {
		m = map[string]int{}
		o.Distribution[dim] = m
	}
	m[bucket]++
}

func (o *Output) Add(coq string, desc interface{}, nontrivial bool, tags ...string) int {
	src := []byte(coq)
	if coq == "crashed" { // no Coq term: distinctness by the rendered case
		src, _ = json.Marshal(desc)
	}
	h := sha256.Sum256(src)
	id := len(o.Cases)
	sort.Strings(tags)
	o.Cases = append(o.Cases, Case{ID: id, Coq: coq, Desc: desc, Nontrivial: nontrivial, Tags: tags, Key: hex.EncodeToString(h[:8])})
	return id
}

func (o *Output) Fail(caseID int, oracle string, detail interface{}, tags ...string) {
	o.ImplFailures = append(o.ImplFailures, ImplFailure{CaseID: caseID, Oracle: oracle, Tags: tags, Detail: detail})
}

func (o *Output) Write(path string) {
	f, err := os.Create(path)
	if err != nil {
		fmt.Fprintln(os.Stderr, err)
		os.Exit(2)
	}
	defer f.Close()
	enc := json.NewEncoder(f)
	enc.SetEscapeHTML(false)
	if err := enc.Encode(o); err != nil {
		fmt.Fprintln(os.Stderr, err)
		os.Exit(2)
	}
}

func SizeBucket(n int) string {
	switch {
	case n == 0:
		return "0"
	case n == 1:
		return "1"
	case n <= 4:
		return "2-4"
	case n <= 16:
		return "5-16"
	case n <= 64:
		return "17-64"
	default:
		return "65+"
	}
}

// Breadcrumb records the call about to be executed next to the output file, so that a fatal crash of this process
// (not recoverable in Go) still leaves the failing call behind.
func Breadcrumb(outPath, text string) {
	_ = os.WriteFile(outPath+".last", []byte(text), 0o644)
}
