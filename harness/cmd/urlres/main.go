// C14 harness: (reference, base) pairs from a grammar; the result of new URL(reference, base) is compared per component
// with RFC 3986 5.2 (evaluated in Coq on the strings) and with the component-level model fed with net/url's parse.
package main

import (
	"encoding/json"
	"fmt"
	neturl "net/url"
	"os"
	"strconv"
	"strings"

	"github.com/dop251/goja"
	"github.com/dop251/goja_nodejs/require"
	"github.com/dop251/goja_nodejs/url"

	"verif/harness/lib"
)

func js(s string) string { b, _ := json.Marshal(s); return string(b) }

var schemes = []string{"http", "https", "ws", "wss", "ftp"}
var defPort = map[string]string{"http": "80", "https": "443", "ws": "80", "wss": "443", "ftp": "21"}

// host as written -> host as it must appear
var hostForms = [][2]string{{"a", "a"}, {"example.com", "example.com"}, {"EXAMPLE.Com", "example.com"}, {"h.example.org", "h.example.org"},
	{"é.com", "xn--9ca.com"}, {"bücher.example", "xn--bcher-kva.example"}, {"127.0.0.1", "127.0.0.1"}, {"[::1]", "[::1]"}, {"xn--9ca.com", "xn--9ca.com"},
	// upper-case letters outside ASCII: the host is lower-cased as a whole before it is converted (expected forms from the punycode of the lower-case name)
	{"É.com", "xn--9ca.com"}, {"BÜCHER.example", "xn--bcher-kva.example"}, {"Ä.Example", "xn--4ca.example"}, {"XN--9CA.com", "xn--9ca.com"}}
var users = []string{"", "", "", "u@", "u:p@", "a.b:c-d@"}
var segs = []string{"a", "b", "c", "dd", "x.y", "~t", "a-b_c", "g;x=1", "p,q", "a=b", "$&'()*+", "%41", "%C3%A9", "é", "日本", "a%20b", ".x", "x.", "..y", "...", "a:b", "@v"}
var queries = []string{"q", "a=1&b=2", "x=%20y", "é=ü", "a/b/../c", "k=v?w", ""}
var frags = []string{"f", "s/./x", "é", "a?b", "top"}

type gen struct{ r *lib.Rand }

func (g *gen) scheme() (raw, norm string) {
	s := g.r.Pick(schemes)
	if g.r.Chance(15) {
		return strings.ToUpper(s), s
	}
	return s, s
}

// authority: raw and normal form
func (g *gen) auth(scheme string) (raw, norm string) {
	h := hostForms[g.r.Intn(len(hostForms))]
	u := g.r.Pick(users)
	port, nport := "", ""
	switch g.r.Intn(5) {
	case 0:
		port, nport = ":"+defPort[scheme], ""
	case 1:
		p := g.r.Pick([]string{"8080", "1", "65535", "81"})
		port, nport = ":"+p, ":"+p
	}
	return u + h[0] + port, u + h[1] + nport
}

func (g *gen) path(depth int, dots bool) string {
	n := g.r.Intn(depth + 1)
	var parts []string
	for i := 0; i < n; i++ {
		if dots && g.r.Chance(30) {
			parts = append(parts, g.r.Pick([]string{".", ".."}))
		} else {
			parts = append(parts, g.r.Pick(segs))
		}
	}
	p := strings.Join(parts, "/")
	if n > 0 && g.r.Chance(35) {
		p += "/"
	}
	return p
}

func main() {
	outPath := os.Args[1]
	n := 900
	if lib.Tier() == "thorough" {
		n = 12000
	}
	if len(os.Args) > 2 {
		n, _ = strconv.Atoi(os.Args[2])
	}
	out := lib.NewOutput("C14")
	g := &gen{r: lib.NewRand(lib.Seed()*131 + 5)}
	r := g.r
	vm := goja.New()
	new(require.Registry).Enable(vm)
	url.Enable(vm)
	vm.RunString(`function __res(ref, base) {
  try { var u = base === null ? new URL(ref) : new URL(ref, base);
        return JSON.stringify({ok: true, href: u.href, protocol: u.protocol, username: u.username, password: u.password, host: u.host, pathname: u.pathname, search: u.search, hash: u.hash}) }
  catch (e) { return JSON.stringify({ok: false, err: String(e)}) } }`)
	for c := 0; c < n; c++ {
		bsRaw, bs := g.scheme()
		baRaw, ba := g.auth(bs)
		bpath := g.path(3, r.Chance(15))
		base := bsRaw + "://" + baRaw
		if bpath != "" || r.Chance(70) {
			base += "/" + bpath
		}
		if r.Chance(40) {
			base += "?" + r.Pick(queries)
		}
		if r.Chance(30) {
			base += "#" + r.Pick(frags)
		}
		// reference
		kind := r.Intn(10)
		ref := ""
		expAuth := ba
		expScheme := bs
		single := false
		switch kind {
		case 0: // absolute
			rsRaw, rs := g.scheme()
			raRaw, ra := g.auth(rs)
			ref = rsRaw + "://" + raRaw + "/" + g.path(3, true)
			expAuth, expScheme = ra, rs
		case 1: // scheme-relative
			raRaw, ra := g.auth(bs)
			ref = "//" + raRaw
			if r.Chance(80) {
				ref += "/" + g.path(2, true)
			}
			expAuth = ra
		case 2: // path-absolute
			ref = "/" + g.path(3, true)
		case 3, 4, 5, 6: // path-relative
			ref = g.path(4, true)
			if ref == "" || strings.Contains(strings.SplitN(ref, "/", 2)[0], ":") {
				ref = "./" + ref
			}
		case 7: // query only / fragment only / empty
			ref = ""
		case 8:
			single = true
		default:
			ref = ""
		}
		if !single {
			if r.Chance(35) || kind == 7 && r.Bool() {
				ref += "?" + r.Pick(queries)
			}
			if r.Chance(25) || kind == 7 && r.Bool() {
				ref += "#" + r.Pick(frags)
			}
		}
		lib.Breadcrumb(outPath, ref+" , "+base)
		var v goja.Value
		// the result is a function of (reference, base) only: other URL objects that were given the same strings and then
		// changed through their setters (in this runtime, just before) must not show in it
		if r.Chance(35) {
			pol := base
			if r.Chance(30) {
				pol = ref
			}
			vm.RunString(fmt.Sprintf(`(function(){ try { var o = new URL("http://pollute.example/p"); o.href = %s; o.pathname = "/polluted/x/y"; o.host = "evil.test:8443"; o.search = "?token=1"; o.hash = "#h"; o.protocol = "https:";
  var q = new URL(%s); q.pathname = "/q"; q.searchParams.append("k", "v"); q.port = "81"; } catch (e) {} })()`, js(pol), js(pol)))
			out.Count("history", "polluted")
		} else {
			out.Count("history", "fresh")
		}
		if single {
			// one argument: the absolute URL itself, or (sometimes) a string without a scheme, which must be rejected
			if r.Chance(25) {
				ref = r.Pick([]string{"/x", "x/y", "//h/p", "?q", "#f", "", "example.com/p"})
				v, _ = vm.RunString(fmt.Sprintf("__res(%s, null)", js(ref)))
				var res map[string]interface{}
				json.Unmarshal([]byte(v.String()), &res)
				if res["ok"] == true {
					out.Fail(len(out.Cases), "accepted-string-without-scheme", map[string]interface{}{"input": ref, "result": res})
				}
				continue
			}
			ref, base = base, ""
			v, _ = vm.RunString(fmt.Sprintf("__res(%s, null)", js(ref)))
		} else {
			v, _ = vm.RunString(fmt.Sprintf("__res(%s, %s)", js(ref), js(base)))
		}
		var res struct {
			Ok                                                                       bool
			Err, Href, Protocol, Username, Password, Host, Pathname, Search, Hash string
		}
		json.Unmarshal([]byte(v.String()), &res)
		if !res.Ok {
			out.Fail(len(out.Cases), "valid-pair-rejected", map[string]interface{}{"ref": ref, "base": base, "err": res.Err})
			continue
		}
		// net/url's view of both sides, for the component-level model
		goComps := func(s string) string {
			u, err := neturl.Parse(s)
			if err != nil {
				return "None"
			}
			opt := func(ok bool, v string) string {
				if ok {
					return "(Some " + lib.ZsStr(v) + ")"
				}
				return "None"
			}
			auth := u.Host
			if u.User != nil {
				auth = u.User.String() + "@" + u.Host
			}
			return fmt.Sprintf("(Some (%s, %s, %s, %s, %s))", opt(u.Scheme != "", u.Scheme), opt(u.Host != "" || u.User != nil, auth), lib.ZsStr(u.EscapedPath()),
				opt(u.RawQuery != "" || u.ForceQuery, u.RawQuery), opt(u.Fragment != "", u.EscapedFragment()))
		}
		userinfo := ""
		if res.Username != "" || res.Password != "" {
			userinfo = res.Username
			if res.Password != "" {
				userinfo += ":" + res.Password
			}
			userinfo += "@"
		}
		coq := fmt.Sprintf("{| c_ref := %s; c_base := %s; c_single := %s; c_exp_scheme := %s; c_exp_auth := %s; c_go_ref := %s; c_go_base := %s; r_protocol := %s; r_auth := %s; r_path := %s; r_search := %s; r_hash := %s |}",
			lib.ZsStr(ref), lib.ZsStr(base), lib.Bool(single), lib.ZsStr(expScheme), lib.ZsStr(expAuth), goComps(ref), goComps(base),
			lib.ZsStr(res.Protocol), lib.ZsStr(userinfo+res.Host), lib.ZsStr(res.Pathname), lib.ZsStr(res.Search), lib.ZsStr(res.Hash))
		out.Add(coq, map[string]interface{}{"ref": ref, "base": base, "href": res.Href}, !single && kind >= 2 && kind <= 6)
		out.Count("kind", map[int]string{0: "absolute", 1: "scheme-relative", 2: "path-absolute", 3: "path-relative", 4: "path-relative", 5: "path-relative", 6: "path-relative", 7: "query/fragment/empty", 8: "single", 9: "empty"}[kind])
	}
	out.Write(outPath)
}
