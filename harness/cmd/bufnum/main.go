// C10 harness: numeric Buffer methods at every boundary, against the generated-descriptor model and the Node spec.
package main

import (
	"fmt"
	"math"
	"math/big"
	"os"
	"sort"
	"strconv"
	"strings"

	"github.com/dop251/goja"
	"github.com/dop251/goja_nodejs/buffer"
	"github.com/dop251/goja_nodejs/require"

	"verif/harness/lib"
)

type argv struct {
	src string // JavaScript source of the argument
	coq string
	cls string // undef | num | big | other
	frac bool
}

func mkArg(vm *goja.Runtime, src string) argv {
	v, err := vm.RunString("(" + src + ")")
	if err != nil {
		panic(fmt.Sprint(src, err))
	}
	switch {
	case goja.IsUndefined(v):
		return argv{src, "AUndef", "undef", false}
	case goja.IsNumber(v):
		f := v.ToFloat()
		return argv{src, fmt.Sprintf("(ANum %s %s)", lib.Z(v.ToInteger()), strconv.FormatUint(math.Float64bits(f), 10)), "num", f != math.Trunc(f) && !math.IsNaN(f) && !math.IsInf(f, 0)}
	case goja.IsBigInt(v):
		return argv{src, "(ABig " + lib.ZBig(v.Export().(*big.Int).String()) + ")", "big", false}
	default:
		return argv{src, "AOther", "other", false}
	}
}

func renderRes(v goja.Value) string {
	switch {
	case goja.IsBigInt(v):
		return "RBig " + lib.ZBig(v.Export().(*big.Int).String())
	case goja.IsNumber(v):
		f := v.ToFloat()
		switch {
		case math.IsNaN(f):
			return "RNaN"
		case f == math.Trunc(f) && math.Abs(f) < 9007199254740992 && !(f == 0 && math.Signbit(f)):
			return "RInt " + lib.Z(int64(f))
		default:
			return "RF64 " + strconv.FormatUint(math.Float64bits(f), 10)
		}
	}
	return "RNaN (* unexpected result kind *)"
}

func zlist(b []byte) string {
	p := make([]string, len(b))
	for i, c := range b {
		p[i] = strconv.Itoa(int(c))
	}
	return "[" + strings.Join(p, ";") + "]"
}

func main() {
	outPath := os.Args[1]
	n := 2600
	if lib.Tier() == "thorough" {
		n = 40000
	}
	if len(os.Args) > 2 {
		n, _ = strconv.Atoi(os.Args[2])
	}
	out := lib.NewOutput("C10")
	r := lib.NewRand(lib.Seed())
	vm := goja.New()
	new(require.Registry).Enable(vm)
	buffer.Enable(vm)

	// inventory of numeric methods actually installed
	v, err := vm.RunString(`Object.getOwnPropertyNames(Buffer.prototype).filter(function(n){return /^(read|write)./.test(n)})`)
	if err != nil {
		panic(err)
	}
	var methods []string
	for _, x := range v.Export().([]interface{}) {
		methods = append(methods, x.(string))
	}
	sort.Strings(methods)
	out.Extra["methods_installed"] = methods

	intBoundaries := func(bits int) []string {
		var s []string
		for _, k := range []int{bits - 1, bits} {
			p := new(big.Int).Lsh(big.NewInt(1), uint(k))
			for _, d := range []int64{-1, 0, 1} {
				x := new(big.Int).Add(p, big.NewInt(d))
				s = append(s, x.String(), "-"+x.String())
			}
		}
		return s
	}
	common := []string{"0", "1", "-1", "-0", "NaN", "Infinity", "-Infinity", "1.5", "-1.5", "255.5", "9007199254740992", "-9007199254740992", "9223372036854775807", "1e30", "-1e30",
		"undefined", "null", `"7"`, "true", "{}", "[]", "7n"}
	floats := []string{"0", "-0", "1", "1.5", "-2.25", "5e-324", "2.2250738585072014e-308", "1.401298464324817e-45", "7e-46", "1e-40", "1.1754943508222875e-38", "3.4028234663852886e38", "3.4028235677973366e38", "3.5e38", "-3.4028234663852886e38",
		"16777217", "0.1", "NaN", "Infinity", "-Infinity", "1e308", "123456.789", "undefined", `"1"`, "null", "1n", "4.000000238418579", "4.0000002384185791015625", "1.0000000596046448"}
	bigs := []string{"0n", "1n", "-1n", "9223372036854775807n", "9223372036854775808n", "-9223372036854775808n", "-9223372036854775809n", "18446744073709551615n", "18446744073709551616n", "18446744073709551621n", "-18446744073709551616n", "123456789012345678901234567890n", "5", "undefined", `"5"`, "null", "1.5"}

	widthOf := func(m string) int { // 0 = variable
		switch {
		case strings.Contains(m, "Big") || strings.Contains(m, "Double"):
			return 8
		case strings.Contains(m, "Float") || strings.Contains(m, "32"):
			return 4
		case strings.Contains(m, "16"):
			return 2
		case strings.Contains(m, "8"):
			return 1
		}
		return 0
	}

	for c := 0; c < n; c++ {
		m := methods[c%len(methods)]
		if m == "write" {
			continue
		}
		w := widthOf(m)
		benign := r.Chance(55) // structured, mostly-valid stream; the rest is the hostile stream
		blen := r.Intn(12)
		if r.Chance(10) {
			blen = 0
		}
		if benign {
			blen = 8 + r.Intn(8)
		}
		buf := make([]byte, blen)
		for i := range buf {
			buf[i] = byte(r.U64())
			if r.Chance(30) {
				buf[i] = []byte{0, 0xff, 0x80, 0x7f}[r.Intn(4)]
			}
		}
		// byteLength (variable-width methods)
		bl := 1 + r.Intn(6)
		blSrc := strconv.Itoa(bl)
		if w == 0 && r.Chance(25) && !benign {
			blSrc = r.Pick([]string{"0", "7", "8", "-1", "undefined", "1.9", "6.5", `"2"`, "NaN", "9223372036854775807", "null"})
			bl = 6
		}
		ww := w
		if w == 0 {
			ww = bl
		}
		// offset
		offs := []string{"0", "-1", "1", strconv.Itoa(blen - ww - 1), strconv.Itoa(blen - ww), strconv.Itoa(blen - ww + 1), strconv.Itoa(blen), "2147483648", "9007199254740992",
			"9223372036854775807", strconv.FormatInt(math.MaxInt64-int64(ww), 10), strconv.FormatInt(math.MaxInt64-int64(ww)+1, 10), "1e30", "-1e30", "undefined", "NaN", `"0"`, "null", "0.9", "1.7", "Infinity", "1n"}
		offSrc := r.Pick(offs)
		if r.Chance(50) {
			offSrc = strconv.Itoa(r.Intn(blen + 1))
		}
		if benign {
			offSrc = strconv.Itoa(r.Intn(blen - ww + 1))
			if r.Chance(25) {
				offSrc = r.Pick([]string{strconv.Itoa(blen - ww), "0", strconv.Itoa(blen - ww + 1), "undefined"})
			}
		}
		var args []argv
		isWrite := strings.HasPrefix(m, "write")
		if isWrite {
			var valSrc string
			switch {
			case strings.Contains(m, "Big"):
				valSrc = r.Pick(bigs)
			case strings.Contains(m, "Float") || strings.Contains(m, "Double"):
				valSrc = r.Pick(floats)
				if r.Chance(30) {
					valSrc = strconv.FormatFloat(math.Float64frombits(r.U64()), 'g', -1, 64)
					if valSrc == "+Inf" || valSrc == "-Inf" {
						valSrc = "Infinity"
					}
				}
			default:
				pool := append(append([]string{}, common...), intBoundaries(8*ww)...)
				valSrc = r.Pick(pool)
				if benign {
					valSrc = r.Pick(intBoundaries(8 * ww))
				}
				if r.Chance(30) || (benign && r.Chance(50)) {
					valSrc = strconv.FormatInt(int64(r.U64()>>uint(64-8*ww))-int64(r.Intn(2))<<uint(8*ww-1), 10)
				}
			}
			args = append(args, mkArg(vm, valSrc))
		}
		args = append(args, mkArg(vm, offSrc))
		if w == 0 {
			args = append(args, mkArg(vm, blSrc))
		}
		if r.Chance(5) && len(args) > 1 { // drop trailing arguments
			args = args[:len(args)-1]
		}
		var srcs, coqs []string
		anyFrac := false
		for i, a := range args {
			srcs = append(srcs, a.src)
			coqs = append(coqs, a.coq)
			if a.frac && !(isWrite && i == 0 && (strings.Contains(m, "Float") || strings.Contains(m, "Double"))) {
				anyFrac = true
			}
		}
		vm.Set("__bytes", vm.NewArrayBuffer(append([]byte{}, buf...)))
		script := fmt.Sprintf(`(function(){ var b = Buffer.from(__bytes); var r, cls = 0, code = "";
  try { r = b[%q](%s) } catch (e) { cls = (e instanceof RangeError) ? 2 : (e instanceof TypeError) ? 1 : 3; code = String(e.code) }
  return [cls, code, r, b] })()`, m, strings.Join(srcs, ","))
		obs, after := "", []byte(nil)
		func() {
			defer func() {
				if x := recover(); x != nil {
					obs = "OPanic"
					after = buf
					out.Count("outcome", "go-panic")
				}
			}()
			res, err := vm.RunString(script)
			if err != nil {
				obs = "OPanic"
				after = buf
				out.Count("outcome", "uncaught:"+err.Error()[:20])
				return
			}
			arr := res.ToObject(vm)
			cls := arr.Get("0").ToInteger()
			after = buffer.Bytes(vm, arr.Get("3"))
			if cls != 0 {
				obs = fmt.Sprintf("OThrow %d", cls)
				out.Count("outcome", "throw-"+[]string{"", "TypeError", "RangeError", "other"}[cls]+":"+arr.Get("1").String())
			} else {
				obs = "OOk (" + renderRes(arr.Get("2")) + ")"
				out.Count("outcome", "ok")
			}
		}()
		nearEdge := false
		for _, s := range []string{strconv.Itoa(blen - ww - 1), strconv.Itoa(blen - ww), strconv.Itoa(blen - ww + 1)} {
			if offSrc == s {
				nearEdge = true
			}
		}
		tags := []string{}
		if anyFrac {
			tags = append(tags, "fractional-integer-argument")
		}
		out.Add(fmt.Sprintf("{| k_name := %q; k_buf := %s; k_args := %s; k_obs := %s; k_after := %s |}", m, zlist(buf), lib.List(coqs), obs, zlist(after)),
			map[string]interface{}{"call": fmt.Sprintf("Buffer.from([%s]).%s(%s)", strings.Trim(zlist(buf), "[]"), m, strings.Join(srcs, ", ")), "observed": obs, "after": fmt.Sprintf("%x", after)},
			nearEdge || strings.Contains(offSrc, "9223372036854775") || len(offSrc) > 6, tags...)
		out.Count("method_kind", map[bool]string{true: "write", false: "read"}[isWrite])
		out.Count("buffer_len", lib.SizeBucket(blen))
	}
	out.Notes = append(out.Notes, "ToInteger / Float64bits of every argument are taken from goja itself (oracle); results canonicalised to RInt / RF64 bits / RNaN / RBig")
	out.Write(outPath)
}
