package main

// Free-running stress: no parking. The Go scheduler picks the interleavings, perturbed by yields and short sleeps at the
// verifPoints, so windows that contain no point (two statements of one segment) are exercised too. Nothing here consults the
// model: every oracle is evaluated on the implementation's own observations, and each is sound for any schedule
// (it can only fire if the property's text is violated). Scenario parameters derive from the seeded PRNG; the interleaving
// itself is the Go runtime's and is not replayable bit for bit — the failure detail names the scenario kind and parameters.

import (
	"fmt"
	"runtime"
	"strconv"
	"strings"
	"sync"
	"sync/atomic"
	"time"

	"github.com/dop251/goja"
	"github.com/dop251/goja_nodejs/console"
	"github.com/dop251/goja_nodejs/eventloop"
	"github.com/dop251/goja_nodejs/require"

	"verif/harness/lib"
)

var perturbCtr uint64

func perturbHook(loop *eventloop.EventLoop, name string, objs ...interface{}) {
	x := atomic.AddUint64(&perturbCtr, 0x9E3779B97F4A7C15)
	x = (x ^ (x >> 30)) * 0xBF58476D1CE4E5B9
	x ^= x >> 27
	switch name { // the hand-over points between the run thread and its controller: linger there more often
	case "run_exit", "run_leave", "stop_return", "start_go", "setrunning", "term_flag":
		if x%3 == 0 {
			time.Sleep(time.Duration(1+(x>>9)%120) * time.Microsecond)
			return
		}
	}
	switch {
	case x%6 == 0:
		runtime.Gosched()
	case x%23 == 1:
		time.Sleep(time.Duration(1+(x>>9)%60) * time.Microsecond)
	}
}

type freeRun struct {
	kind    string
	params  string
	loop    *eventloop.EventLoop
	stopped int32 // 1 from the return of Stop()/Run() until the next Start()/Run()/Terminate() call
	active  int32
	mu      sync.Mutex
	fails   map[string]interface{}
	// RunOnLoop bookkeeping: per submitter, sequence numbers in submission order
	accepted map[int][]int
	refused  map[[2]int]bool
	executed map[int][]int
	execCnt  map[[2]int]int
	// timers
	fired        map[int]int
	cleared      map[int]bool // cleared on the loop thread (from a callback) before it fired
	cbs          int
	foreground   bool // use StartInForeground (on its own goroutine) instead of Start
	elapsedCalls int32
}

func newFreeRun(kind, params string) *freeRun {
	reg := new(require.Registry)
	reg.RegisterNativeModule(console.ModuleName, console.RequireWithPrinter(silent{}))
	return &freeRun{kind: kind, params: params, loop: eventloop.NewEventLoop(eventloop.WithRegistry(reg)), fails: map[string]interface{}{},
		accepted: map[int][]int{}, refused: map[[2]int]bool{}, executed: map[int][]int{}, execCnt: map[[2]int]int{}, fired: map[int]int{}, cleared: map[int]bool{}}
}

func (f *freeRun) fail(oracle string, detail interface{}) {
	f.mu.Lock()
	if _, ok := f.fails[oracle]; !ok {
		f.fails[oracle] = map[string]interface{}{"kind": f.kind, "params": f.params, "what": detail}
	}
	f.mu.Unlock()
}

func (f *freeRun) enter(what string) {
	if atomic.AddInt32(&f.active, 1) > 1 {
		f.fail("free-callbacks-overlap", what+" began while another callback was executing")
	}
	if atomic.LoadInt32(&f.stopped) == 1 {
		f.fail("free-callback-while-stopped", what+" was executing after Stop()/Run() had returned and before the loop was started again")
	}
	f.mu.Lock()
	f.cbs++
	f.mu.Unlock()
}

func (f *freeRun) leave(what string) {
	if atomic.LoadInt32(&f.stopped) == 1 {
		f.fail("free-callback-while-stopped", what+" was still executing after Stop()/Run() had returned")
	}
	atomic.AddInt32(&f.active, -1)
}

// submit one RunOnLoop function for (sub, seq); body runs on the loop
func (f *freeRun) submit(sub, seq int, body func(vm *goja.Runtime)) bool {
	// the bookkeeping of "accepted in this order" must be atomic with the call as far as one submitter is concerned: each
	// submitter is one goroutine, so its own order is its program order
	ok := f.loop.RunOnLoop(func(vm *goja.Runtime) {
		what := fmt.Sprintf("RunOnLoop function %d/%d", sub, seq)
		f.enter(what)
		f.mu.Lock()
		f.executed[sub] = append(f.executed[sub], seq)
		f.execCnt[[2]int{sub, seq}]++
		f.mu.Unlock()
		if body != nil {
			body(vm)
		}
		f.leave(what)
	})
	f.mu.Lock()
	if ok {
		f.accepted[sub] = append(f.accepted[sub], seq)
	} else {
		f.refused[[2]int{sub, seq}] = true
	}
	f.mu.Unlock()
	return ok
}

// install __t(id): marks a timer callback; __clr(id) marks a clear done by a callback
func (f *freeRun) install(vm *goja.Runtime) {
	vm.Set("__t", func(id int) {
		what := fmt.Sprintf("timer callback %d", id)
		f.enter(what)
		f.mu.Lock()
		f.fired[id]++
		n, c := f.fired[id], f.cleared[id]
		f.mu.Unlock()
		if n > 1 && id < 1000 {
			f.fail("free-timeout-ran-twice", what)
		}
		if c {
			f.fail("free-ran-after-clear", what+" ran although it had been cleared on the loop before it fired")
		}
		f.leave(what)
	})
	vm.Set("__clr", func(id int) {
		f.mu.Lock()
		if f.fired[id] == 0 {
			f.cleared[id] = true
		}
		f.mu.Unlock()
	})
	vm.Set("__early", func(what string) {
		f.fail("free-timer-fired-early", "the callback of "+what+" ran within seconds of being set (or the call that set it threw)")
	})
	t00 := time.Now()
	vm.Set("__now", func() float64 { return float64(time.Since(t00).Nanoseconds()) / 1e6 })
	vm.Set("__elapsed", func(what string, want, got float64) {
		defer atomic.AddInt32(&f.elapsedCalls, 1)
		if got < want {
			f.fail("free-timer-fired-early", fmt.Sprintf("setTimeout with delay %s ran %.3f ms after it was set (delay %.3f ms)", what, got, want))
		}
	})
	vm.Set("__busy", func(us int) {
		t := time.Now()
		for time.Since(t) < time.Duration(us)*time.Microsecond {
		}
	})
	vm.RunString("var __h = {}")
}

func (f *freeRun) sync(what string) bool {
	done := make(chan struct{})
	if !f.loop.RunOnLoop(func(*goja.Runtime) { close(done) }) {
		return false
	}
	select {
	case <-done:
		return true
	case <-time.After(3 * time.Second):
		f.fail("free-accepted-function-never-ran", what+": a function accepted by a running loop did not run within 3 s")
		return false
	}
}

func (f *freeRun) within(oracle, what string, d time.Duration, call func()) bool {
	done := make(chan struct{})
	panicked := false
	go func() {
		defer close(done)
		defer func() {
			if x := recover(); x != nil {
				panicked = true
				f.fail("free-api-call-panicked", fmt.Sprintf("%s: %v", what, x))
			}
		}()
		call()
	}()
	select {
	case <-done:
		return !panicked
	case <-time.After(d):
		f.fail(oracle, what)
		return false
	}
}

func pause(r *lib.Rand, maxUs int) {
	if maxUs > 0 && r.Chance(60) {
		time.Sleep(time.Duration(r.Intn(maxUs)) * time.Microsecond)
	}
}

// helper goroutines that an earlier, failed scenario left behind are not this scenario's
var staleHelpers = map[string]bool{}

func helperIDs() []string {
	buf := make([]byte, 1<<19)
	n := runtime.Stack(buf, true)
	var ids []string
	for _, g := range strings.Split(string(buf[:n]), "\n\n") {
		if strings.Contains(g, "eventloop.(*Interval).run") || strings.Contains(g, "(*Timer).start.") {
			if f := strings.Fields(g); len(f) > 1 {
				ids = append(ids, f[1])
			}
		}
	}
	return ids
}

func leftoverHelpers() string {
	buf := make([]byte, 1<<19)
	for try := 0; ; try++ {
		n := runtime.Stack(buf, true)
		var left []string
		for _, g := range strings.Split(string(buf[:n]), "\n\n") {
			if strings.Contains(g, "eventloop.(*Interval).run") || strings.Contains(g, "(*Timer).start.") {
				if f := strings.Fields(g); len(f) > 1 && staleHelpers[f[1]] {
					continue
				}
				hdr := g
				if i := strings.Index(g, "\n"); i >= 0 {
					hdr = g[:i]
				}
				if fr := strings.Split(g, "\n"); len(fr) > 1 {
					hdr += " in " + strings.TrimSpace(fr[1])
				}
				left = append(left, hdr)
			}
		}
		if len(left) == 0 {
			return ""
		}
		if try >= 200 { // 100 ms: a helper that was released only has to return
			return strings.Join(left, "; ")
		}
		time.Sleep(500 * time.Microsecond)
	}
}

// final checks shared by the kinds: after Terminate() everything accepted ran exactly once, in per-submitter order
func (f *freeRun) finish() {
	atomic.StoreInt32(&f.stopped, 0)
	if !f.within("free-terminate-did-not-return", "Terminate()", 5*time.Second, f.loop.Terminate) {
		return
	}
	atomic.StoreInt32(&f.stopped, 1)
	if left := leftoverHelpers(); left != "" {
		f.fail("free-goroutine-left-after-terminate", left)
	}
	time.Sleep(200 * time.Microsecond)
	f.mu.Lock()
	defer f.mu.Unlock()
	for sub, acc := range f.accepted {
		ex := f.executed[sub]
		for _, seq := range acc {
			if c := f.execCnt[[2]int{sub, seq}]; c != 1 {
				if _, dup := f.fails["free-accepted-not-run-once"]; !dup {
					f.fails["free-accepted-not-run-once"] = map[string]interface{}{"kind": f.kind, "params": f.params,
						"what": fmt.Sprintf("function %d of submitter %d (RunOnLoop returned true) ran %d times; accepted %d, executed %d", seq, sub, c, len(acc), len(ex))}
				}
				break
			}
		}
		for i := 1; i < len(ex); i++ {
			if ex[i] <= ex[i-1] {
				if _, dup := f.fails["free-fifo-broken"]; !dup {
					f.fails["free-fifo-broken"] = map[string]interface{}{"kind": f.kind, "params": f.params,
						"what": fmt.Sprintf("submitter %d: function %d ran after function %d", sub, ex[i], ex[i-1])}
				}
				break
			}
		}
	}
	for k := range f.refused {
		if f.execCnt[k] > 0 {
			f.fails["free-refused-ran"] = map[string]interface{}{"kind": f.kind, "params": f.params, "what": fmt.Sprint(k)}
		}
	}
}

func (f *freeRun) stop(r *lib.Rand) (int, bool) {
	n := 0
	ok := f.within("free-stop-did-not-return", "Stop()", 4*time.Second, func() { n = f.loop.Stop() })
	if ok {
		atomic.StoreInt32(&f.stopped, 1)
	}
	return n, ok
}

func (f *freeRun) start() {
	atomic.StoreInt32(&f.stopped, 0)
	if f.foreground { // StartInForeground on a goroutine of its own: the same loop as Start(), run by the caller's goroutine
		entered := make(chan struct{})
		go func() {
			defer func() {
				if x := recover(); x != nil {
					f.fail("free-api-call-panicked", fmt.Sprintf("StartInForeground(): %v", x))
				}
			}()
			close(entered)
			f.loop.StartInForeground()
		}()
		<-entered
		// Start() returns once the loop is marked running; wait for the same here before the caller goes on to Stop()
		for i := 0; i < 2000 && !f.sync0(); i++ {
			time.Sleep(50 * time.Microsecond)
		}
		return
	}
	f.loop.Start()
}

// sync0: has the foreground loop taken up its work? (a probe function ran)
func (f *freeRun) sync0() bool {
	done := make(chan struct{})
	if !f.loop.RunOnLoop(func(*goja.Runtime) { close(done) }) {
		return true
	}
	select {
	case <-done:
		return true
	case <-time.After(2 * time.Millisecond):
		return false
	}
}

// ---- kinds ----

// lifecycle: submitters race with Start/Stop/Run cycles
func freeLifecycle(r *lib.Rand) *freeRun {
	nsub, per, cycles := 1+r.Intn(3), 5+r.Intn(40), 2+r.Intn(4)
	f := newFreeRun("lifecycle", fmt.Sprintf("submitters=%d per=%d cycles=%d", nsub, per, cycles))
	f.foreground = r.Chance(25)
	if f.foreground {
		f.params += " StartInForeground"
	}
	f.loop.Run(func(vm *goja.Runtime) { f.install(vm) })
	atomic.StoreInt32(&f.stopped, 1)
	var wg sync.WaitGroup
	for s := 0; s < nsub; s++ {
		wg.Add(1)
		rs := lib.NewRand(r.U64())
		go func(s int) {
			defer wg.Done()
			for q := 0; q < per; q++ {
				var body func(vm *goja.Runtime)
				id := s*100 + q
				switch rs.Intn(8) {
				case 0:
					body = func(vm *goja.Runtime) {
						vm.RunString(fmt.Sprintf("__h[%d] = setTimeout(function(){ __t(%d) }, %d)", id, id, rs.Intn(3)))
					}
				case 1:
					body = func(vm *goja.Runtime) { vm.RunString(fmt.Sprintf("setImmediate(function(){ __t(%d) })", id)) }
				case 2:
					body = func(vm *goja.Runtime) {
						vm.RunString(fmt.Sprintf("__h[%d] = setTimeout(function(){ __t(%d) }, 1); __clr(%d); clearTimeout(__h[%d])", id, id, id, id))
					}
				case 3:
					t := f.loop.SetTimeout(func(vm *goja.Runtime) {
						f.enter("go timeout")
						f.leave("go timeout")
					}, time.Duration(rs.Intn(2000))*time.Microsecond)
					if rs.Chance(50) {
						f.loop.ClearTimeout(t)
					}
				}
				f.submit(s, q, body)
				pause(rs, 120)
			}
		}(s)
	}
	for c := 0; c < cycles; c++ {
		if r.Chance(70) {
			f.start()
			pause(r, 600)
			if _, ok := f.stop(r); !ok {
				return f
			}
		} else {
			atomic.StoreInt32(&f.stopped, 0)
			if !f.within("free-run-did-not-return", "Run() with only short timeouts pending", 5*time.Second, func() {
				f.loop.Run(func(vm *goja.Runtime) {
					f.enter("Run fn")
					vm.RunString("setTimeout(function(){}, 1)")
					f.leave("Run fn")
				})
			}) {
				return f
			}
			atomic.StoreInt32(&f.stopped, 1)
		}
		// a callback that begins now begins while the loop is stopped
		time.Sleep(time.Duration(r.Intn(400)) * time.Microsecond)
	}
	wg.Wait()
	f.start()
	f.sync("final drain")
	time.Sleep(3 * time.Millisecond)
	f.finish()
	return f
}

// burst: both queue buffers get some capacity, then a large batch is queued while the loop is stopped, then functions are
// submitted (from the loop and from outside) while batches are being executed
func freeBurst(r *lib.Rand) *freeRun {
	sizes := []int{0, 1, 3, 40, 300, 900}
	w1, w2 := sizes[r.Intn(len(sizes))], sizes[r.Intn(len(sizes))]
	n := 1100 + r.Intn(2500)
	late := []int{0, 1, 2, 10, 100, 300}[r.Intn(6)]
	every := []int{97, 400, 5000}[r.Intn(3)]
	f := newFreeRun("burst", fmt.Sprintf("warm-up=%d,%d queued-while-stopped=%d concurrent=%d inner-every=%d", w1, w2, n, late, every))
	f.loop.Run(func(vm *goja.Runtime) { f.install(vm) })
	atomic.StoreInt32(&f.stopped, 1)
	inner := 0
	fromLoop := func(k int) func(vm *goja.Runtime) { // a job on the loop submits k functions
		return func(vm *goja.Runtime) {
			for i := 0; i < k; i++ {
				inner++
				f.submit(7, inner, nil)
			}
		}
	}
	seq9 := 0
	if w1+w2 > 0 {
		f.start()
		for _, w := range []int{w1, w2} {
			seq9++
			f.submit(9, seq9, fromLoop(w))
			f.sync("warm-up")
		}
		f.stop(r)
	}
	for q := 0; q < n; q++ {
		var body func(vm *goja.Runtime)
		if q%every == 3 {
			body = fromLoop(1)
		}
		f.submit(0, q, body)
	}
	f.start()
	var wg sync.WaitGroup
	for s := 1; s <= 2; s++ {
		wg.Add(1)
		rs := lib.NewRand(r.U64())
		go func(s int) {
			defer wg.Done()
			for q := 0; q < late; q++ {
				f.submit(s, q, nil)
				pause(rs, 30)
			}
		}(s)
	}
	wg.Wait()
	f.sync("after burst")
	// later batches: submissions arrive while a batch is being executed
	for round := 0; round < 3; round++ {
		seq9++
		f.submit(9, seq9, fromLoop(1+r.Intn(4)))
		seq9++
		f.submit(9, seq9, fromLoop(r.Intn(3)))
		f.sync("later batch")
	}
	if r.Chance(50) {
		f.stop(r)
		for q := 0; q < 40; q++ {
			f.submit(3, q, nil)
		}
		f.start()
		f.sync("after restart")
	}
	f.finish()
	return f
}

// count: timers that cannot expire; Stop() must return exactly the number set and not cleared
func freeCount(r *lib.Rand) *freeRun {
	k, c, j, iv, im := 1+r.Intn(5), 0, r.Intn(4), r.Intn(3), r.Intn(3)
	f := newFreeRun("count", "")
	f.loop.Run(func(vm *goja.Runtime) { f.install(vm) })
	f.start()
	var hs []*eventloop.Timer
	for i := 0; i < k; i++ {
		hs = append(hs, f.loop.SetTimeout(func(*goja.Runtime) {}, time.Hour))
	}
	if !f.sync("timers started") {
		return f
	}
	for _, h := range hs {
		if r.Chance(40) {
			f.loop.ClearTimeout(h)
			c++
		}
	}
	selfClr := r.Chance(50)
	// delays from an hour up to anything a script can write: none of these timers may fire during the scenario
	far := []string{"3600000", "3600000", "1e13", "2**53", "9223372036854", "9223372036855", "18446744073710", "18446744073711", "27670116110564", "36893488147420",
		"55340232221129", "1.8446744073709552e19", "1e300", "Infinity", "4294967296", "2**32*1000", "2**63", "9007199254740993",
		// the same as strings, and as objects that convert to them (a delay is converted like any other number)
		`"1e30"`, `"9223372036854775808"`, `"1e400"`, `"  1e19 "`, `"Infinity"`, `"3600000"`, `"\u00a03600000"`, `"3600000\ufeff"`, `({valueOf: function(){ return "1e30" }})`, `new Number(1e15)`, `"3.6e6"`, `"0x36EE80"`}
	// calls that throw (or are refused) set nothing: the count must not see them
	duds := []string{
		"try { setTimeout(function(){ __early('dud') }, {valueOf: function(){ throw new Error('v') }}) } catch (e) {}",
		"try { setInterval(function(){ __early('dud') }, Symbol()) } catch (e) {}",
		"try { setTimeout(function(){ __early('dud') }, {valueOf: function(){ throw 1 }}, 1, 2) } catch (e) {}",
		"try { setInterval(function(){ __early('dud') }, {toString: function(){ throw 1 }, valueOf: undefined}) } catch (e) {}",
		"try { setTimeout() } catch (e) {}", "try { setInterval(1, 2) } catch (e) {}", "try { setImmediate({}) } catch (e) {}",
		"try { setTimeout(function(){ __early('dud') }, 10n) } catch (e) {}",
	}
	nd := r.Intn(3)
	// fractional and string delays of a few milliseconds: the callback must not run before that much time has passed
	fracs := []string{"1.9", "0.99", "2.5", `"1.9"`, "2.0001", `"\u00a03"`, `" 3 "`, "3.999"}
	var usedFar, usedDuds []string
	fracUsed := r.Chance(60)
	f.loop.RunOnLoop(func(vm *goja.Runtime) {
		for i := 0; i < nd; i++ {
			d := r.Pick(duds)
			usedDuds = append(usedDuds, d)
			if _, err := vm.RunString(d); err != nil {
				f.fail("free-api-call-panicked", "script "+d+": "+err.Error())
			}
		}
		for i := 0; i < j; i++ {
			d := r.Pick(far)
			usedFar = append(usedFar, d)
			vm.RunString("setTimeout(function(){ __early(" + strconv.Quote("setTimeout "+d) + ") }, " + d + ")")
		}
		if fracUsed {
			d := r.Pick(fracs)
			usedFar = append(usedFar, d)
			vm.RunString("(function(){ var t0 = __now(), d = " + d + "; setTimeout(function(){ __elapsed(" + strconv.Quote(d) + ", Number(d), __now() - t0) }, d) })()")
		}
		for i := 0; i < iv; i++ {
			d := r.Pick(far)
			usedFar = append(usedFar, d)
			vm.RunString("setInterval(function(){ __early(" + strconv.Quote("setInterval "+d) + ") }, " + d + ")")
		}
		for i := 0; i < im; i++ {
			// an immediate that clears itself while running, and once more afterwards: completed work is not counted again
			if selfClr {
				vm.RunString("(function(){ var h = setImmediate(function(){ clearImmediate(h); setImmediate(function(){ clearImmediate(h) }) }) })()")
			} else {
				vm.RunString("setImmediate(function(){})")
			}
		}
	})
	if !f.sync("js timers set") || !f.sync("immediates ran") || !f.sync("second-level immediates ran") {
		return f
	}
	if fracUsed { // the short timeout (at most 4 ms) has completed before the count is taken (progress, not a deadline)
		for w := 0; w < 3000 && atomic.LoadInt32(&f.elapsedCalls) == 0; w++ {
			time.Sleep(time.Millisecond)
		}
		if atomic.LoadInt32(&f.elapsedCalls) == 0 {
			f.fail("free-uncleared-timeout-never-ran", "a timeout of a few milliseconds set on a running loop did not run within 3 s")
			return f
		}
		if !f.sync("short timeout ran") {
			return f
		}
	}
	want := k - c + j + iv
	f.params = fmt.Sprintf("go-timeouts=%d cleared=%d js-timeouts=%d js-intervals=%d immediates=%d self-clearing=%v delays=%v calls-that-set-nothing=%q", k, c, j, iv, im, selfClr, usedFar, usedDuds)
	for round := 0; round < 2; round++ {
		got, ok := f.stop(r)
		if !ok {
			return f
		}
		if got != want {
			f.fail("free-stop-count-wrong", fmt.Sprintf("Stop() returned %d with %d timers set and not cleared (round %d)", got, want, round))
		}
		if round == 0 {
			f.start()
			if r.Chance(50) {
				f.sync("restart")
			}
		}
	}
	f.finish()
	// a terminated loop has no live work: Run() returns as soon as its function has
	atomic.StoreInt32(&f.stopped, 0)
	f.within("free-run-did-not-return-at-quiescence", "Run(func(){}) after Terminate()", 3*time.Second, func() { f.loop.Run(func(*goja.Runtime) {}) })
	return f
}

// stop-during-run: Stop() from another goroutine while Run() is busy with (possibly its last) work
func freeStopDuringRun(r *lib.Rand) *freeRun {
	nt, busy, delay := r.Intn(3), r.Intn(1500), r.Intn(1200)
	restartAtOnce, postPause := r.Chance(50), r.Intn(300)
	d0, d1, d2 := r.Intn(2), r.Intn(2), r.Intn(2)
	f := newFreeRun("stop-during-run", fmt.Sprintf("timeouts=%d busy=%dus stop-after=%dus restart-at-once=%v", nt, busy, delay, restartAtOnce))
	f.loop.Run(func(vm *goja.Runtime) { f.install(vm) })
	began := make(chan struct{})
	runDone := make(chan struct{})
	go func() {
		f.loop.Run(func(vm *goja.Runtime) {
			f.enter("Run fn")
			close(began)
			for i := 0; i < nt; i++ {
				vm.RunString(fmt.Sprintf("setTimeout(function(){ __t(%d); __busy(%d) }, %d)", i, busy/2, []int{d0, d1, d2}[i]))
			}
			vm.RunString(fmt.Sprintf("__busy(%d)", busy))
			f.leave("Run fn")
		})
		close(runDone)
	}()
	<-began
	time.Sleep(time.Duration(delay) * time.Microsecond)
	if _, ok := f.stop(r); !ok {
		return f
	}
	if restartAtOnce { // Stop() has returned: Start() is allowed, even though the other goroutine is still on its way out of Run()
		f.start()
		for q := 0; q < 20; q++ {
			f.submit(1, q, nil)
			time.Sleep(30 * time.Microsecond)
		}
		select {
		case <-runDone:
		case <-time.After(3 * time.Second):
			f.fail("free-run-did-not-return-after-stop", "Run() still blocked 3 s after Stop() returned")
			return f
		}
		f.sync("restarted at once")
		if _, ok := f.stop(r); !ok {
			return f
		}
		for q := 0; q < 5; q++ { // submitted to a stopped loop: they wait for the next start
			f.submit(2, q, nil)
		}
		time.Sleep(time.Duration(500+postPause) * time.Microsecond) // nothing may begin now
		f.start()
		f.sync("second restart")
		f.finish()
		return f
	}
	select {
	case <-runDone:
	case <-time.After(3 * time.Second):
		f.fail("free-run-did-not-return-after-stop", "Run() still blocked 3 s after Stop() returned")
		return f
	}
	time.Sleep(time.Duration(postPause) * time.Microsecond)
	f.start()
	f.sync("restart")
	time.Sleep(2 * time.Millisecond)
	f.finish()
	return f
}

// run-ends-with-backlog: the last piece of work of a Run() (the function itself, its last timeout or its last immediate) submits
// functions with RunOnLoop; Run() winds down because no timer is left, with those functions still queued. Another goroutine calls
// Stop() around that moment (it returns at once when the loop has already marked itself stopped) and, in half of the runs, starts
// the loop again at once: nothing may begin between the return of Stop() and the restart, nothing may overlap afterwards, and
// every accepted function runs exactly once, in order, after the restart
func freeRunEndsWithBacklog(r *lib.Rand) *freeRun {
	from, nq, busy, delay := r.Intn(3), 3+r.Intn(30), 20+r.Intn(300), r.Intn(400)
	restartAtOnce := r.Chance(50)
	f := newFreeRun("run-ends-with-backlog", fmt.Sprintf("submitted-from=%s functions=%d each-busy=%dus stop-after=%dus restart-at-once=%v",
		[]string{"Run function", "last timeout", "last immediate"}[from], nq, busy, delay, restartAtOnce))
	f.loop.Run(func(vm *goja.Runtime) { f.install(vm) })
	atomic.StoreInt32(&f.stopped, 0)
	submitted := make(chan struct{})
	runDone := make(chan struct{})
	go func() {
		defer close(runDone)
		defer func() {
			if x := recover(); x != nil {
				f.fail("free-api-call-panicked", fmt.Sprintf("Run(): %v", x))
			}
		}()
		f.loop.Run(func(vm *goja.Runtime) {
			f.enter("Run fn")
			vm.Set("__last", func() {
				for q := 0; q < nq; q++ {
					f.submit(0, q, func(vm *goja.Runtime) { vm.RunString(fmt.Sprintf("__busy(%d)", busy)) })
				}
				close(submitted)
			})
			switch from {
			case 0:
				vm.RunString("__last()")
			case 1:
				vm.RunString("setTimeout(function(){ __t(1) }, 0); setTimeout(function(){ __t(2); __last() }, 2)")
			default:
				vm.RunString("setImmediate(function(){ setImmediate(function(){ __last() }) })")
			}
			f.leave("Run fn")
		})
	}()
	select {
	case <-submitted:
	case <-time.After(3 * time.Second):
		f.fail("free-run-did-not-return", "the last piece of work of Run() did not run within 3 s")
		return f
	}
	time.Sleep(time.Duration(delay) * time.Microsecond)
	if _, ok := f.stop(r); !ok {
		return f
	}
	if !restartAtOnce {
		time.Sleep(time.Duration(500+2*busy) * time.Microsecond) // nothing may begin now
		select {
		case <-runDone:
		case <-time.After(3 * time.Second):
			f.fail("free-run-did-not-return-at-quiescence", "Run() still blocked 3 s after its last timer and Stop()")
			return f
		}
	}
	f.start()
	f.sync("restart")
	select {
	case <-runDone:
	case <-time.After(3 * time.Second):
		f.fail("free-run-did-not-return-at-quiescence", "Run() still blocked 3 s after its last timer and Stop()")
		return f
	}
	f.finish()
	return f
}

// stopnowait-at-quiescence: StopNoWait() from the last piece of work of a Run() (the loop leaves because nothing is left, not
// because of the request); a later Run()/Start() with timers must behave like a fresh one
func freeStopNoWaitAtQuiescence(r *lib.Rand) *freeRun {
	mode, second := r.Intn(3), r.Intn(2)
	f := newFreeRun("stopnowait-at-quiescence", fmt.Sprintf("mode=%d second=%d", mode, second))
	f.loop.Run(func(vm *goja.Runtime) { f.install(vm) })
	atomic.StoreInt32(&f.stopped, 0)
	ok := f.within("free-run-did-not-return", "Run() whose only work calls StopNoWait()", 3*time.Second, func() {
		f.loop.Run(func(vm *goja.Runtime) {
			switch mode {
			case 0: // from the function passed to Run, nothing scheduled
				f.loop.StopNoWait()
			case 1: // from the last timeout callback
				vm.Set("__snw", func() { f.loop.StopNoWait() })
				vm.RunString("setTimeout(function(){ __snw() }, 1)")
			default: // from the last immediate
				vm.Set("__snw", func() { f.loop.StopNoWait() })
				vm.RunString("setImmediate(function(){ __snw() })")
			}
		})
	})
	if !ok {
		return f
	}
	if second == 0 {
		ok = f.within("free-run-did-not-return", "second Run() with one 3 ms timeout", 3*time.Second, func() {
			f.loop.Run(func(vm *goja.Runtime) { vm.RunString("setTimeout(function(){ __t(1) }, 3)") })
		})
		f.mu.Lock()
		n := f.fired[1]
		f.mu.Unlock()
		if ok && n != 1 {
			f.fail("free-run-returned-before-quiescence", fmt.Sprintf("Run() returned although its 3 ms timeout had run %d times", n))
		}
	} else {
		f.start()
		f.loop.RunOnLoop(func(vm *goja.Runtime) { vm.RunString("setTimeout(function(){ __t(1) }, 2)") })
		deadline := time.Now().Add(2 * time.Second)
		for {
			f.mu.Lock()
			n := f.fired[1]
			f.mu.Unlock()
			if n > 0 {
				break
			}
			if time.Now().After(deadline) {
				f.fail("free-uncleared-timeout-never-ran", "a 2 ms timeout set on a restarted loop that was not stopped again did not run within 2 s")
				break
			}
			time.Sleep(200 * time.Microsecond)
		}
		f.stop(r)
	}
	atomic.StoreInt32(&f.stopped, 1)
	f.finish()
	return f
}

// terminate-with-backlog: a long queue (functions, timer registrations) is waiting when Terminate() is called on a stopped
// loop; Terminate runs what was accepted, and nothing that was requested before it returned runs after a restart
func freeTerminateBacklog(r *lib.Rand) *freeRun {
	n := []int{3, 200, 1030, 1500, 2600}[r.Intn(5)]
	f := newFreeRun("terminate-with-backlog", fmt.Sprintf("queued=%d", n))
	f.loop.Run(func(vm *goja.Runtime) { f.install(vm) })
	if r.Chance(50) {
		f.start()
		f.sync("warm-up")
		f.stop(r)
	}
	atomic.StoreInt32(&f.stopped, 1)
	var late int32
	for q := 0; q < n; q++ {
		f.submit(0, q, nil)
	}
	afterTerm := func(what string) func(*goja.Runtime) {
		return func(*goja.Runtime) {
			if atomic.LoadInt32(&late) == 1 {
				f.fail("free-ran-after-terminate", what+" requested before Terminate() returned ran after the restart")
			}
		}
	}
	f.loop.SetTimeout(afterTerm("a timeout"), time.Millisecond)
	f.loop.SetInterval(afterTerm("an interval"), time.Millisecond)
	atomic.StoreInt32(&f.stopped, 0)
	if !f.within("free-terminate-did-not-return", "Terminate()", 5*time.Second, f.loop.Terminate) {
		return f
	}
	atomic.StoreInt32(&late, 1)
	atomic.StoreInt32(&f.stopped, 1)
	f.mu.Lock()
	ran := len(f.executed[0])
	f.mu.Unlock()
	if ran != n {
		f.fail("free-accepted-not-run-by-terminate", fmt.Sprintf("%d of %d functions accepted before Terminate() had run when it returned", ran, n))
	}
	f.mu.Lock()
	before := f.cbs
	f.mu.Unlock()
	f.start()
	f.sync("restart")
	time.Sleep(4 * time.Millisecond)
	f.mu.Lock()
	after := f.cbs
	f.mu.Unlock()
	if after != before {
		f.fail("free-ran-after-terminate", fmt.Sprintf("%d functions queued before Terminate() ran after the restart", after-before))
	}
	f.finish()
	return f
}

// expired-then-cleared: a timeout expires while the loop is busy or stopped, is cleared before delivery, then Terminate()
func freeExpiredCleared(r *lib.Rand) *freeRun {
	mode := r.Intn(3)
	f := newFreeRun("expired-then-cleared", fmt.Sprintf("mode=%d", mode))
	f.loop.Run(func(vm *goja.Runtime) { f.install(vm) })
	switch mode {
	case 0: // busy callback: set, spin past the expiry, clear
		f.start()
		f.loop.RunOnLoop(func(vm *goja.Runtime) {
			vm.RunString("__h[1] = setTimeout(function(){ __t(1) }, 1); __busy(2500); __clr(1); clearTimeout(__h[1])")
		})
		f.sync("busy callback")
	case 1: // Go handle, loop stopped while the timer expires, ClearTimeout queued, Terminate runs it
		f.start()
		h := f.loop.SetTimeout(func(*goja.Runtime) { f.enter("go timeout"); f.leave("go timeout") }, 1500*time.Microsecond)
		f.sync("armed")
		f.stop(r)
		time.Sleep(3 * time.Millisecond)
		f.loop.ClearTimeout(h)
	default: // the same with a restart in between
		f.start()
		h := f.loop.SetTimeout(func(*goja.Runtime) { f.enter("go timeout"); f.leave("go timeout") }, 1500*time.Microsecond)
		f.sync("armed")
		f.loop.RunOnLoop(func(vm *goja.Runtime) { vm.RunString("__busy(3000)") })
		f.loop.ClearTimeout(h)
		f.sync("cleared")
	}
	f.finish()
	return f
}

// self-clear: clearing from inside the job's own callback, clearing twice and clearing null/undefined are harmless: a
// timeout set afterwards still fires on a loop that was started and never stopped, and the count stays exact
func freeSelfClear(r *lib.Rand) *freeRun {
	ni, nt, nv := r.Intn(3), r.Intn(3), r.Intn(2)
	f := newFreeRun("self-clear", fmt.Sprintf("immediates=%d timeouts=%d intervals=%d clearing themselves", ni, nt, nv))
	f.loop.Run(func(vm *goja.Runtime) { f.install(vm) })
	f.start()
	f.loop.RunOnLoop(func(vm *goja.Runtime) {
		for i := 0; i < ni; i++ {
			vm.RunString("(function(){ var h = setImmediate(function(){ clearImmediate(h); clearImmediate(h); clearImmediate(null); clearImmediate(undefined) }) })()")
		}
		vm.RunString("var __stale = []")
		for i := 0; i < nt; i++ {
			vm.RunString("(function(){ var h = setTimeout(function(){ clearTimeout(h); clearTimeout(h); clearTimeout(null) }, 0); __stale.push(h) })()")
		}
		for i := 0; i < 1+nt; i++ { // plain timeouts that simply complete; their handles are kept
			vm.RunString("__stale.push(setTimeout(function(){}, 0)); __stale.push(setImmediate(function(){}))")
		}
		for i := 0; i < nv; i++ {
			vm.RunString("(function(){ var h = setInterval(function(){ clearInterval(h); clearInterval(h); clearInterval(undefined) }, 1) })()")
		}
	})
	f.sync("set")
	time.Sleep(4 * time.Millisecond)
	// the probe timeout is set first; then the handles of timers that have already completed are cleared once more (stale
	// handles: harmless, and in particular they do not belong to any timer created later)
	f.loop.RunOnLoop(func(vm *goja.Runtime) {
		vm.RunString("setTimeout(function(){ __t(7) }, 2); (__stale || []).forEach(function(h){ clearTimeout(h); clearImmediate(h); clearInterval(h) })")
	})
	deadline := time.Now().Add(2 * time.Second)
	for {
		f.mu.Lock()
		n := f.fired[7]
		f.mu.Unlock()
		if n > 0 {
			break
		}
		if time.Now().After(deadline) {
			f.fail("free-uncleared-timeout-never-ran", "a 2 ms timeout set on a loop that was started and never stopped did not run within 2 s")
			break
		}
		time.Sleep(200 * time.Microsecond)
	}
	time.Sleep(2 * time.Millisecond)
	if got, ok := f.stop(r); ok && got != 0 {
		f.fail("free-stop-count-wrong", fmt.Sprintf("Stop() returned %d although every timer has completed or cleared itself", got))
	}
	f.finish()
	return f
}

// terminated-stays-terminated: after Terminate() the loop refuses work until it is started again, whatever no-op calls are made
// on it meanwhile (Stop(), StopNoWait(), Terminate() again, clears)
func freeTerminatedStays(r *lib.Rand) *freeRun {
	f := newFreeRun("terminated-stays-terminated", "")
	f.loop.Run(func(vm *goja.Runtime) { f.install(vm) })
	if r.Chance(60) {
		f.start()
		f.sync("warm-up")
	}
	atomic.StoreInt32(&f.stopped, 0)
	if !f.within("free-terminate-did-not-return", "Terminate()", 5*time.Second, f.loop.Terminate) {
		return f
	}
	atomic.StoreInt32(&f.stopped, 1)
	var calls []string
	for i, k := 0, 1+r.Intn(3); i < k; i++ {
		switch r.Intn(4) {
		case 0:
			calls = append(calls, "Stop()")
			f.within("free-stop-did-not-return", "Stop() on a terminated loop", 3*time.Second, func() { f.loop.Stop() })
		case 1:
			calls = append(calls, "StopNoWait()")
			f.loop.StopNoWait()
		case 2:
			calls = append(calls, "Terminate()")
			atomic.StoreInt32(&f.stopped, 0)
			f.within("free-terminate-did-not-return", "second Terminate()", 3*time.Second, f.loop.Terminate)
			atomic.StoreInt32(&f.stopped, 1)
		default:
			calls = append(calls, "ClearTimeout(nil)")
			f.loop.ClearTimeout(nil)
		}
	}
	f.params = strings.Join(calls, "; ")
	ran := int32(0)
	if f.loop.RunOnLoop(func(*goja.Runtime) { atomic.AddInt32(&ran, 1) }) {
		f.fail("free-accepted-while-terminated", "RunOnLoop returned true on a terminated loop after "+f.params)
	}
	if t := f.loop.SetTimeout(func(*goja.Runtime) { atomic.AddInt32(&ran, 1) }, 0); t != nil {
		f.fail("free-accepted-while-terminated", "SetTimeout returned a handle on a terminated loop after "+f.params)
	}
	if i := f.loop.SetInterval(func(*goja.Runtime) { atomic.AddInt32(&ran, 1) }, time.Millisecond); i != nil {
		f.fail("free-accepted-while-terminated", "SetInterval returned a handle on a terminated loop after "+f.params)
	}
	f.start()
	f.sync("restart")
	time.Sleep(3 * time.Millisecond)
	if atomic.LoadInt32(&ran) != 0 {
		f.fail("free-ran-after-terminate", "work submitted to a terminated loop ran after the restart")
	}
	// started again: the loop accepts and runs work like a fresh one
	okc := make(chan struct{})
	if !f.loop.RunOnLoop(func(*goja.Runtime) { close(okc) }) {
		f.fail("free-refused-after-restart", "RunOnLoop returned false on a restarted loop")
	} else {
		select {
		case <-okc:
		case <-time.After(2 * time.Second):
			f.fail("free-accepted-function-never-ran", "a function accepted by the restarted loop did not run within 2 s")
		}
	}
	f.finish()
	return f
}

// restart-while-stopping: Start() issued after StopNoWait() but before the loop has wound down. The loop is still running:
// Start() panics ("Loop is already started") and changes nothing; whatever happens, no second run goroutine may come to life
func freeRestartWhileStopping(r *lib.Rand) *freeRun {
	busy, useRun := 500+r.Intn(2500), r.Chance(30)
	f := newFreeRun("restart-while-stopping", fmt.Sprintf("callback-busy=%dus second-start-by-Run=%v", busy, useRun))
	f.loop.Run(func(vm *goja.Runtime) { f.install(vm) })
	f.start()
	f.loop.RunOnLoop(func(vm *goja.Runtime) { vm.RunString("setInterval(function(){ __t(1001) }, 1)") })
	f.sync("interval set")
	began := make(chan struct{})
	f.loop.RunOnLoop(func(vm *goja.Runtime) {
		f.enter("stopping callback")
		f.loop.StopNoWait()
		close(began)
		vm.RunString(fmt.Sprintf("__busy(%d)", busy))
		f.leave("stopping callback")
	})
	<-began
	// allowed to panic: the loop has usually not stopped yet. If it has, the call is an ordinary restart (Run() then serves the
	// interval until the Stop() below), so it is made on a goroutine of its own; the scenario goes on only once the call has
	// panicked, returned (Start) or entered its function (Run)
	settled := make(chan struct{})
	var once sync.Once
	settle := func() { once.Do(func() { close(settled) }) }
	go func() {
		defer settle()
		defer func() { recover() }()
		if useRun {
			f.loop.Run(func(*goja.Runtime) { settle() })
		} else {
			f.loop.Start()
		}
	}()
	select {
	case <-settled:
	case <-time.After(3 * time.Second):
		f.fail("free-scenario-did-not-finish", "Start()/Run() issued after StopNoWait() neither panicked nor returned within 3 s")
		return f
	}
	time.Sleep(time.Duration(busy+1500) * time.Microsecond)
	if _, ok := f.stop(r); !ok {
		return f
	}
	for q := 0; q < 5; q++ {
		f.submit(2, q, nil)
	}
	time.Sleep(3 * time.Millisecond) // the interval keeps ticking only if a run goroutine survived Stop()
	f.start()
	f.sync("restart")
	f.finish()
	return f
}

// chain: a function on the loop that submits its successor every time it runs (a polling chain, a recursive setImmediate):
// the queue is never found empty, yet every single step of the loop is bounded, so Stop() returns, StopNoWait() from a
// callback stops the loop, and timers keep being served
func freeChain(r *lib.Rand) *freeRun {
	mode := r.Intn(3)
	f := newFreeRun("chain", fmt.Sprintf("mode=%d", mode))
	f.loop.Run(func(vm *goja.Runtime) { f.install(vm) })
	var stopChain int32
	var link func(*goja.Runtime)
	links := int32(0)
	link = func(*goja.Runtime) {
		atomic.AddInt32(&links, 1)
		if atomic.LoadInt32(&stopChain) == 0 {
			f.loop.RunOnLoop(link)
		}
	}
	switch mode {
	case 0, 1: // Go-side chain on a started loop; Stop() from the controller
		f.start()
		f.loop.RunOnLoop(link)
		if mode == 1 {
			f.loop.RunOnLoop(func(vm *goja.Runtime) { vm.RunString("setTimeout(function(){ __t(3) }, 1)") })
		}
		time.Sleep(time.Duration(500+r.Intn(2000)) * time.Microsecond)
		if _, ok := f.stop(r); !ok {
			atomic.StoreInt32(&stopChain, 1)
			return f
		}
		if mode == 1 {
			f.mu.Lock()
			n := f.fired[3]
			f.mu.Unlock()
			_ = n // a 1 ms timeout may or may not have been served before the stop; after the restart it must be
		}
		before := atomic.LoadInt32(&links)
		time.Sleep(600 * time.Microsecond)
		if atomic.LoadInt32(&links) != before {
			f.fail("free-callback-while-stopped", "the chain kept running after Stop() had returned")
		}
		f.start()
		// progress, not a deadline: on a loaded machine the loop goroutine may not be scheduled within milliseconds
		for w := 0; w < 3000 && atomic.LoadInt32(&links) == before; w++ {
			time.Sleep(time.Millisecond)
		}
		if atomic.LoadInt32(&links) == before {
			f.fail("free-accepted-function-never-ran", "the chain did not resume within 3 s of the restart")
		}
		if mode == 1 {
			fired := func() int {
				f.mu.Lock()
				defer f.mu.Unlock()
				return f.fired[3]
			}
			for w := 0; w < 3000 && fired() == 0; w++ { // progress, not a deadline
				time.Sleep(time.Millisecond)
			}
			if n := fired(); n != 1 {
				f.fail("free-uncleared-timeout-never-ran", fmt.Sprintf("a 1 ms timeout set next to a busy chain ran %d times within 3 s of the restart (the chain itself kept running)", n))
			}
		}
		atomic.StoreInt32(&stopChain, 1)
		f.sync("chain end")
	default: // JS chain of immediates inside Run(); a timeout callback calls StopNoWait()
		atomic.StoreInt32(&f.stopped, 0)
		f.within("free-run-did-not-return-after-stop", "Run() with a recursive setImmediate chain whose 2 ms timeout calls StopNoWait()", 4*time.Second, func() {
			f.loop.Run(func(vm *goja.Runtime) {
				vm.Set("__snw", func() { f.loop.StopNoWait() })
				vm.RunString("var __go = true; function __tick(){ if (__go) setImmediate(__tick) } __tick(); setTimeout(function(){ __snw() }, 2); setTimeout(function(){}, 3600000)")
			})
		})
		atomic.StoreInt32(&f.stopped, 1)
		f.loop.RunOnLoop(func(vm *goja.Runtime) { vm.RunString("__go = false") })
	}
	f.finish()
	return f
}

// runFree executes n free-running scenarios and returns the failures (one per oracle and kind at most) and statistics
func runFree(r *lib.Rand, n int, profile string, outPath string) ([]lib.ImplFailure, map[string]int) {
	eventloop.VerifHook = perturbHook
	defer func() { eventloop.VerifHook = nil }()
	stats := map[string]int{}
	seen := map[string]bool{}
	hungScenarios := 0
	var out []lib.ImplFailure
	kinds := []func(*lib.Rand) *freeRun{freeLifecycle, freeLifecycle, freeBurst, freeCount, freeStopDuringRun, freeExpiredCleared, freeSelfClear, freeStopNoWaitAtQuiescence, freeTerminateBacklog, freeTerminatedStays, freeRestartWhileStopping, freeChain, freeRunEndsWithBacklog}
	bias := map[string][]int{"overlap": {0, 4, 10, 12, 12}, "fifo": {2}, "timers": {6, 5, 6}, "count": {3, 7}, "stop": {4, 7, 11, 12}, "terminate": {5, 8, 9}}[profile]
	for i := 0; i < n; i++ {
		k := r.Intn(len(kinds))
		if r.Chance(40) {
			k = bias[r.Intn(len(bias))]
		}
		var f *freeRun
		seed := r.U64()
		// a crash inside a goroutine of the library cannot be recovered: leave the scenario behind for the replay
		lib.Breadcrumb(outPath, fmt.Sprintf("free-running scenario %d: kind index %d (0,1 lifecycle; 2 burst; 3 count; 4 stop-during-run; 5 expired-then-cleared; 6 self-clear; 7 stopnowait-at-quiescence; 8 terminate-with-backlog; 9 terminated-stays-terminated; 10 restart-while-stopping; 11 chain; 12 run-ends-with-backlog), scenario seed %d", i, k, seed))
		doneCh := make(chan *freeRun, 1)
		go func() {
			var g *freeRun
			defer func() {
				if x := recover(); x != nil {
					g = newFreeRun("panicked", "")
					g.fail("free-api-call-panicked", fmt.Sprint(x))
				}
				doneCh <- g
			}()
			g = kinds[k](lib.NewRand(seed))
		}()
		select {
		case f = <-doneCh:
		case <-time.After(40 * time.Second): // every wait inside a scenario is bounded by a few seconds: this is a call that does not return
			f = newFreeRun("hung", fmt.Sprintf("kind index %d, scenario seed %d", k, seed))
			f.fail("free-scenario-did-not-finish", "a scenario did not finish within 40 s (some API call never returned)")
			hungScenarios++
		}
		if hungScenarios >= 3 {
			stats["free:stopped-early"] = 1
			i = n
		}
		stats["free:"+f.kind]++
		if len(f.fails) > 0 { // whatever this scenario left running is not the next one's
			time.Sleep(5 * time.Millisecond)
			for _, id := range helperIDs() {
				staleHelpers[id] = true
			}
		}
		stats["free:callbacks"] += f.cbs
		for oracle, d := range f.fails {
			if !seen[oracle+f.kind] {
				seen[oracle+f.kind] = true
				out = append(out, lib.ImplFailure{Oracle: oracle, Detail: d})
			}
		}
	}
	return out, stats
}
