// loopfree: the free-running phase of the event-loop checks (C03-C08) as a program of its own. It needs the verifPoint hook
// (build tag verif) but NOT the white-box overlay, so it still builds and runs when a change of the EventLoop struct breaks the
// controlled harness.
// usage: loopfree <out.json> [n]   with VERIF_PROFILE as for the loop harness
package main

import (
	"fmt"
	"os"
	"strconv"
	"strings"

	"verif/harness/lib"
)

type silent struct{}

func (silent) Log(string)   {}
func (silent) Warn(string)  {}
func (silent) Error(string) {}

func main() {
	outPath := os.Args[1]
	profile := os.Getenv("VERIF_PROFILE")
	if profile == "" {
		profile = "fifo"
	}
	n := 100
	if lib.Tier() == "thorough" {
		n = 1200
	}
	if v := os.Getenv("VERIF_FREE"); v != "" {
		n, _ = strconv.Atoi(v)
	}
	if len(os.Args) > 2 {
		n, _ = strconv.Atoi(os.Args[2])
	}
	prop := map[string]string{"overlap": "C03", "fifo": "C04", "timers": "C05", "count": "C06", "stop": "C07", "terminate": "C08"}[profile]
	out := lib.NewOutput(prop)
	rnd := lib.NewRand(lib.Seed()*104729 + uint64(len(profile)))
	fails, stats := runFree(rnd, n, profile, outPath)
	for _, f := range fails {
		out.Fail(-1, f.Oracle, f.Detail)
	}
	m := map[string]int{}
	for k, v := range stats {
		m[strings.TrimPrefix(k, "free:")] = v
	}
	out.Distribution["free-running"] = m
	out.Notes = append(out.Notes, fmt.Sprintf("free-running phase: %d scenarios under the Go scheduler with yields/sleeps injected at the verifPoints; oracles evaluated on observations only; interleavings not replayable bit for bit", n))
	out.Write(outPath)
}
