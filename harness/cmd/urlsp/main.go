// C12 harness: URLSearchParams histories and parsing against the Coq model and the WHATWG list specification.
package main

import (
	"encoding/json"
	"fmt"
	"os"
	"strconv"
	"strings"

	"github.com/dop251/goja"
	"github.com/dop251/goja_nodejs/require"
	"github.com/dop251/goja_nodejs/url"

	"verif/harness/lib"
)

var names = []string{"a", "b", "a", "A", "", "é", "é", "a+b", "a b", "%", "&=", "?x", "日本", "🙂", "x%41", "a&b=c", "+", "%zz", "c", "q", "a", "b",
	// sort() compares UTF-16 code units: a supplementary character (surrogates D800..DFFF) sorts before U+E000..U+FFFF, whose UTF-8 bytes are smaller
	"～", "\uE000", "😀", "𐀀", "a～", "a😀", "a\uFFFF"}
var values = []string{"1", "2", "", "x y", "+", "%", "&", "=", "?", "é", "a=b", "%2B", "1+1=2", "🙂", "日本", "#h", "/p?q", "~", "*", "a&b", "1", "x"}
var qpieces = []string{"a=1", "b=2", "&", "&&", "=", "a", "%41", "%4", "%", "+", "%zz", "?", "é", "%C3%A9", "a=b=c", "x=%26%3D", " ", "a=", "=v", "%2B", "%25", "&a", "b&", "#", "%E6%97%A5", "a+b=c+d", "%7e"}

func js(s string) string {
	b, _ := json.Marshal(s)
	return string(b)
}

type gen struct {
	r *lib.Rand
}

func (g *gen) name() string  { return g.r.Pick(names) }
func (g *gen) value() string { return g.r.Pick(values) }

func coqPairs(ps [][2]string) string {
	var it []string
	for _, p := range ps {
		it = append(it, lib.Pair(lib.ZsStr(p[0]), lib.ZsStr(p[1])))
	}
	return lib.List(it)
}

func toStr(v interface{}) string {
	s, _ := v.(string)
	return s
}

func main() {
	outPath := os.Args[1]
	n := 700
	if lib.Tier() == "thorough" {
		n = 12000
	}
	if len(os.Args) > 2 {
		n, _ = strconv.Atoi(os.Args[2])
	}
	out := lib.NewOutput("C12")
	g := &gen{r: lib.NewRand(lib.Seed())}
	r := g.r
	vm := goja.New()
	new(require.Registry).Enable(vm)
	url.Enable(vm)

	nHist := n * 7 / 10
	for c := 0; c < n; c++ {
		if c >= nHist {
			// parsing of arbitrary strings
			k := r.Intn(7)
			var sb strings.Builder
			for i := 0; i < k; i++ {
				sb.WriteString(r.Pick(qpieces))
				if r.Chance(50) {
					sb.WriteString("&")
				}
			}
			q := sb.String()
			v, err := vm.RunString("JSON.stringify(Array.from(new URLSearchParams(" + js(q) + ")))")
			if err != nil {
				out.Fail(len(out.Cases), "parse-threw", map[string]string{"q": q, "err": err.Error()})
				out.Add("crashed", q, false)
				continue
			}
			var ps [][2]string
			json.Unmarshal([]byte(v.String()), &ps)
			if strings.ContainsRune(v.String(), 0xFFFD) { // %XX run decoding to ill-formed UTF-8: outside the claim
				out.Count("kind", "parse-skipped-illformed-utf8")
				continue
			}
			special := strings.ContainsAny(q, "%+&=?")
			out.Add(fmt.Sprintf("ParseCase %s %s", lib.ZsStr(q), coqPairs(ps)), map[string]interface{}{"parse": q, "entries": ps}, special)
			out.Count("kind", "parse")
			out.Count("parse_len", lib.SizeBucket(len(q)))
			continue
		}
		// ---- history ----
		var script strings.Builder
		var srcPairs [][2]string
		script.WriteString("var obs=[], its=[], kinds=[];\n")
		var initCoq, initDesc string
		switch form := r.Intn(6); form {
		case 0:
			script.WriteString("var p = new URLSearchParams();\n")
			initCoq, initDesc = "IPairs []", "new URLSearchParams()"
		case 1:
			k := r.Intn(5)
			var sb strings.Builder
			if r.Chance(30) {
				sb.WriteString("?")
			}
			for i := 0; i < k; i++ {
				sb.WriteString(r.Pick(qpieces))
				if r.Chance(60) {
					sb.WriteString("&")
				}
			}
			q := sb.String()
			script.WriteString("var p = new URLSearchParams(" + js(q) + ");\n")
			initCoq, initDesc = "IStr "+lib.ZsStr(q), "new URLSearchParams("+js(q)+")"
		default:
			k := r.Intn(5)
			longList := form == 3 && r.Chance(45) // long lists with few names: stability of sort() only shows beyond a dozen pairs
			if longList {
				k = 13 + r.Intn(60)
			}
			var ps [][2]string
			used := map[string]bool{}
			few := []string{g.name(), g.name(), g.name(), "b", "a"}
			for i := 0; i < k; i++ {
				nm := g.name()
				if longList {
					nm = few[r.Intn(len(few))]
				}
				if form == 2 { // record: distinct, non-integer keys
					if used[nm] || nm == "" {
						continue
					}
					used[nm] = true
				}
				ps = append(ps, [2]string{nm, g.value()})
			}
			var items []string
			for _, p := range ps {
				items = append(items, "["+js(p[0])+","+js(p[1])+"]")
			}
			arr := "[" + strings.Join(items, ",") + "]"
			var ctor string
			srcPairs = nil
			if form == 4 {
				srcPairs = ps
			}
			switch form {
			case 2:
				var fields []string
				for _, p := range ps {
					fields = append(fields, js(p[0])+":"+js(p[1]))
				}
				ctor = "new URLSearchParams({" + strings.Join(fields, ",") + "})"
			case 3:
				ctor = "new URLSearchParams(" + arr + ")"
			case 4:
				// the source object stays alive: what is done to the copy must not show in it
				script.WriteString("var __src = new URLSearchParams(" + arr + ");\n")
				ctor = "new URLSearchParams(__src)"
			default:
				ctor = "new URLSearchParams(new Map(" + arr + ".map(function(e,i){return [e[0]+'#'+i,e]})).values())"
			}
			script.WriteString("var p = " + ctor + ";\n")
			initCoq, initDesc = "IPairs "+coqPairs(ps), ctor
		}
		nops := 1 + r.Intn(10)
		forceSort := strings.Contains(initDesc, "],[") && strings.Count(initDesc, "],[") >= 12
		if forceSort {
			nops += 2
		}
		var opsCoq, opsDesc []string
		iters := 0
		var iterKinds []string
		mut, dupOps := 0, 0
		for i := 0; i < nops; i++ {
			var stmt, coq string
			k := r.Intn(20)
			if forceSort && i == nops-2 {
				k = 11 // sort()
			} else if forceSort && i == nops-1 {
				k = 17 // list the pairs
			}
			switch {
			case k < 4:
				nm, v := g.name(), g.value()
				stmt = fmt.Sprintf("p.append(%s,%s); obs.push(['none']);", js(nm), js(v))
				coq = fmt.Sprintf("HOp (OAppend %s %s)", lib.ZsStr(nm), lib.ZsStr(v))
				mut++
			case k < 6:
				nm := g.name()
				if r.Chance(30) {
					stmt = fmt.Sprintf("p.delete(%s, undefined); obs.push(['none']);", js(nm))
				} else {
					stmt = fmt.Sprintf("p.delete(%s); obs.push(['none']);", js(nm))
				}
				coq = "HOp (ODelete " + lib.ZsStr(nm) + ")"
				mut++
			case k < 8:
				nm, v := g.name(), g.value()
				stmt = fmt.Sprintf("p.delete(%s,%s); obs.push(['none']);", js(nm), js(v))
				coq = fmt.Sprintf("HOp (ODeleteNV %s %s)", lib.ZsStr(nm), lib.ZsStr(v))
				mut++
			case k < 11:
				nm, v := g.name(), g.value()
				stmt = fmt.Sprintf("p.set(%s,%s); obs.push(['none']);", js(nm), js(v))
				coq = fmt.Sprintf("HOp (OSet %s %s)", lib.ZsStr(nm), lib.ZsStr(v))
				mut++
			case k < 12:
				stmt = "p.sort(); obs.push(['none']);"
				coq = "HOp OSort"
				mut++
			case k < 13:
				nm := g.name()
				stmt = fmt.Sprintf("obs.push(['opt', p.get(%s)]);", js(nm))
				coq = "HOp (OGet " + lib.ZsStr(nm) + ")"
			case k < 14:
				nm := g.name()
				stmt = fmt.Sprintf("obs.push(['strs', p.getAll(%s)]);", js(nm))
				coq = "HOp (OGetAll " + lib.ZsStr(nm) + ")"
			case k < 15:
				nm := g.name()
				if r.Bool() {
					stmt = fmt.Sprintf("obs.push(['bool', p.has(%s)]);", js(nm))
					coq = "HOp (OHas " + lib.ZsStr(nm) + ")"
				} else {
					v := g.value()
					stmt = fmt.Sprintf("obs.push(['bool', p.has(%s,%s)]);", js(nm), js(v))
					coq = fmt.Sprintf("HOp (OHasNV %s %s)", lib.ZsStr(nm), lib.ZsStr(v))
				}
			case k < 16:
				stmt = "obs.push(['nat', p.size]);"
				coq = "HOp OSize"
			case k < 17:
				stmt = "obs.push(['str', p.toString()]);"
				coq = "HOp OToString"
			case k < 18:
				switch r.Intn(4) {
				case 0:
					stmt = "obs.push(['pairs', Array.from(p)]);"
				case 1:
					stmt = "obs.push(['pairs', Array.from(p.entries())]);"
				case 2:
					stmt = "(function(){var a=[]; p.forEach(function(v,k,o){ if(o!==p) throw new Error('this'); a.push([k,v])}); obs.push(['pairs', a]);})();"
				default:
					stmt = "(function(){var ks=Array.from(p.keys()), vs=Array.from(p.values()); obs.push(['pairs', ks.map(function(k,i){return [k,vs[i]]})]);})();"
				}
				coq = "HOp OEntries"
			case k < 19:
				stmt = "obs.push(['pairs', Array.from(new URLSearchParams(p.toString()))]);"
				coq = "HRoundTrip"
			default:
				if iters > 0 && r.Chance(70) {
					it := r.Intn(iters)
					stmt = fmt.Sprintf("(function(){var x=its[%d].next(); obs.push(['item', x.done, x.value===undefined?null:x.value]);})();", it)
					coq = "HOp (ONext " + lib.Nat(it) + ")"
				} else {
					kd := r.Intn(3)
					m := []string{"keys", "values", "entries"}[kd]
					if kd == 2 && r.Bool() {
						stmt = "its.push(p[Symbol.iterator]()); obs.push(['iter', its.length-1]);"
					} else {
						stmt = fmt.Sprintf("its.push(p.%s()); obs.push(['iter', its.length-1]);", m)
					}
					coq = "HOp (ONewIter " + []string{"IKeys", "IValues", "IEntries"}[kd] + ")"
					iterKinds = append(iterKinds, m)
					iters++
				}
			}
			if i > 0 && r.Chance(25) && iters > 0 { // extra next() calls interleaved with mutations
				dupOps++
			}
			script.WriteString(stmt + "\n")
			opsCoq = append(opsCoq, coq)
			opsDesc = append(opsDesc, stmt)
		}
		script.WriteString("obs.push(['src', (typeof __src === 'undefined' || __src === null) ? null : Array.from(__src)]); __src = null;\n")
		script.WriteString("JSON.stringify(obs)")
		v, err := vm.RunString(script.String())
		if err != nil {
			out.Fail(len(out.Cases), "history-threw", map[string]string{"script": script.String(), "err": err.Error()})
			out.Add("crashed", script.String(), false)
			continue
		}
		var raw [][]interface{}
		if err := json.Unmarshal([]byte(v.String()), &raw); err != nil {
			panic(err)
		}
		if strings.ContainsRune(v.String(), 0xFFFD) {
			out.Count("kind", "history-skipped-illformed-utf8")
			continue
		}
		var obsCoq []string
		iterSeen := 0
		_ = iterSeen
		// to render 'item' we need the iterator's kind: recover from the op list
		opIdx := 0
		kindsByIter := iterKinds
		for _, o := range raw {
			tag := toStr(o[0])
			switch tag {
			case "src":
				if o[1] != nil {
					var got [][2]string
					for _, e := range o[1].([]interface{}) {
						pr := e.([]interface{})
						got = append(got, [2]string{toStr(pr[0]), toStr(pr[1])})
					}
					same := len(got) == len(srcPairs)
					for i := range got {
						if same && got[i] != srcPairs[i] {
							same = false
						}
					}
					if !same {
						out.Fail(len(out.Cases), "copy-shares-state-with-its-source", map[string]interface{}{"script": script.String(), "source_now": got, "source_was": srcPairs})
					}
				}
			case "none":
				obsCoq = append(obsCoq, "BNone")
			case "opt":
				if o[1] == nil {
					obsCoq = append(obsCoq, "BOptStr None")
				} else {
					obsCoq = append(obsCoq, "BOptStr (Some "+lib.ZsStr(toStr(o[1]))+")")
				}
			case "strs":
				var it []string
				for _, s := range o[1].([]interface{}) {
					it = append(it, lib.ZsStr(toStr(s)))
				}
				obsCoq = append(obsCoq, "BStrs "+lib.List(it))
			case "bool":
				obsCoq = append(obsCoq, "BBool "+lib.Bool(o[1].(bool)))
			case "nat":
				obsCoq = append(obsCoq, "BNat "+lib.Nat(int(o[1].(float64))))
			case "str":
				obsCoq = append(obsCoq, "BStr "+lib.ZsStr(toStr(o[1])))
			case "pairs":
				var ps [][2]string
				for _, e := range o[1].([]interface{}) {
					kv := e.([]interface{})
					ps = append(ps, [2]string{toStr(kv[0]), toStr(kv[1])})
				}
				obsCoq = append(obsCoq, "BPairs "+coqPairs(ps))
			case "iter":
				obsCoq = append(obsCoq, "BIter "+lib.Nat(int(o[1].(float64))))
			case "item":
				if o[1].(bool) {
					obsCoq = append(obsCoq, "BItem None")
				} else {
					// which iterator? parse from the op text
					coq := opsCoq[opIdx]
					var it int
					fmt.Sscanf(coq, "HOp (ONext %d%%nat)", &it)
					switch kindsByIter[it] {
					case "keys":
						obsCoq = append(obsCoq, "BItem (Some (inl (inl "+lib.ZsStr(toStr(o[2]))+")))")
					case "values":
						obsCoq = append(obsCoq, "BItem (Some (inl (inr "+lib.ZsStr(toStr(o[2]))+")))")
					default:
						kv := o[2].([]interface{})
						obsCoq = append(obsCoq, "BItem (Some (inr "+lib.Pair(lib.ZsStr(toStr(kv[0])), lib.ZsStr(toStr(kv[1])))+"))")
					}
				}
			}
			opIdx++
		}
		out.Add(fmt.Sprintf("HistCase (%s) %s %s", initCoq, lib.List(opsCoq), lib.List(obsCoq)),
			map[string]interface{}{"init": initDesc, "ops": opsDesc, "observed": raw}, mut >= 1 && nops >= 3)
		out.Count("kind", "history")
		out.Count("history_ops", lib.SizeBucket(nops))
		out.Count("mutations", lib.SizeBucket(mut))
		out.Count("iterators", strconv.Itoa(iters))
	}
	out.Notes = append(out.Notes, "names/values are well-formed Unicode strings compared as UTF-8 bytes; %XX in parsed strings decode to ASCII or valid UTF-8 only")
	// forEach against the live walk: the iterators are the model's (live-index, proven to observe the WHATWG list); forEach must
	// visit exactly what "for (const [k, v] of p)" visits when the callback changes the list in the same way at the same visit
	nfe := 120
	if lib.Tier() == "thorough" {
		nfe = 3000
	}
	for c := 0; c < nfe; c++ {
		np := 1 + r.Intn(6)
		var init []string
		for i := 0; i < np; i++ {
			init = append(init, r.Pick([]string{"a", "b", "c", "x"})+"="+strconv.Itoa(i))
		}
		muts := []string{`q.delete(k)`, `q.delete("a")`, `q.delete("a"); q.delete("b"); q.delete("c"); q.delete("x")`, `q.append("n", "1")`, `q.append("a", "9"); q.append("b", "9")`,
			`q.set(k, "s")`, `q.set("zz", "1")`, `q.sort()`, `q.delete("b", v)`, `if (u) u.search = "?z=9&y=8"`, `if (u) u.search = ""`, `if (u) u.href = "http://other/?m=1&n=2&o=3"`}
		m1, at := r.Pick(muts), r.Intn(np+1)
		viaURL := r.Chance(40)
		mk := `new URLSearchParams(` + js(strings.Join(init, "&")) + `)`
		if viaURL {
			mk = `(u = new URL("http://h/?` + strings.Join(init, "&") + `")).searchParams`
		}
		script := fmt.Sprintf(`(function(){
  function run(mode){ var u = null, q = %s, log = [], n = 0;
    var visit = function(v, k){ log.push(k + "=" + v); if (n++ === %d) { %s } if (n > 40) throw new Error("runaway") };
    try { if (mode === 0) q.forEach(function(v, k){ visit(v, k) }); else for (var e of q) visit(e[1], e[0]) } catch (e) { log.push("threw " + e.message) }
    return log.join("&") + " | " + q.toString() }
  return JSON.stringify([run(0), run(1)]) })()`, mk, at, m1)
		v, err := vm.RunString(script)
		if err != nil {
			out.Fail(len(out.Cases), "history-threw", map[string]interface{}{"script": script, "err": err.Error()})
			continue
		}
		var two []string
		json.Unmarshal([]byte(v.String()), &two)
		if len(two) == 2 && two[0] != two[1] {
			out.Fail(len(out.Cases), "forEach-is-not-the-live-walk-of-the-list", map[string]interface{}{"list": strings.Join(init, "&"), "through_url": viaURL,
				"callback_at_visit": at, "callback_does": m1, "forEach_visited_then_list": two[0], "for_of_visited_then_list": two[1]})
		}
		out.Count("kind", "forEach-vs-iterator")
	}
	out.Write(outPath)
}
