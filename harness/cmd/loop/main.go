// C03-C08 (and C17/C18 in other modes) harness: the event loop under a controlled scheduler.
// usage: loop <out.json> [n]   with VERIF_PROFILE selecting the scenario family (the property being targeted)
package main

import (
	"fmt"
	"os"
	"runtime"
	"sort"
	"strconv"
	"strings"
	"sync"
	"time"

	"github.com/dop251/goja"
	"github.com/dop251/goja_nodejs/console"
	"github.com/dop251/goja_nodejs/eventloop"
	"github.com/dop251/goja_nodejs/require"

	"verif/harness/lib"
)

// ---------------- scenario ----------------
type cbOp struct {
	Kind string // runonloop | js_timeout | js_interval | js_immediate | js_clear | go_cleartimeout | go_clearinterval | stopnowait | throw
	A, B int
}

type actOp struct {
	Kind string // runonloop | settimeout | setinterval | cleartimeout | clearinterval | stopnowait   (submitters)
	// start | stop | run | terminate | stopnowait | idle                                              (controller)
	A, B int
}

type scenario struct {
	cbs        [][]cbOp  // callback programs
	submitters [][]actOp // per goroutine
	controller []actOp
}

type silent struct{}

func (silent) Log(string)   {}
func (silent) Warn(string)  {}
func (silent) Error(string) {}

// ---------------- one run ----------------
type run struct {
	sc       *scenario
	loop     *eventloop.EventLoop
	s        *sched
	mu       sync.Mutex
	handles  map[int]interface{} // Go-side handles by timer id
	subID    int                 // next submission id
	subKind  map[int]string      // submission id -> kind description "runonloop:cb" "start_timeout:tid:delay" ...
	active   int                 // callbacks currently executing (monitor C03)
	overlap  []string
	execLog  []int // order of executed RunOnLoop callbacks (cb ids)
	finished map[string]bool
	setAt    map[int]time.Time
	delayOf  map[int]int
	early    []string
	stopRet  []int
	failures []lib.ImplFailure
	interval map[int]string // timer id -> "js" | "go" for intervals
	ticks    map[int]int
	maxTicks map[int]int
}

func (r *run) newSub(kind string) int {
	r.mu.Lock()
	defer r.mu.Unlock()
	id := r.subID
	r.subID++
	r.subKind[id] = kind
	gid := curGID()
	r.s.effMu.Lock()
	r.s.pending[gid] = id
	r.s.effMu.Unlock()
	return id
}

// runCB executes callback program id on the current (owner) thread
func (r *run) runCB(vm *goja.Runtime, id int, viaJS bool) {
	r.mu.Lock()
	r.active++
	if r.active > 1 {
		r.overlap = append(r.overlap, fmt.Sprintf("callback %d started while another callback was executing", id))
	}
	r.mu.Unlock()
	r.s.effect("cb_start", id, -1)
	// every interval clears itself after a few ticks so that scenarios end
	r.mu.Lock()
	kind, isInt := r.interval[id]
	selfClear := false
	if isInt {
		r.ticks[id]++
		_, haveHandle := r.handles[id]
		selfClear = r.ticks[id] >= r.maxTicks[id] && (kind == "js" || haveHandle) && !r.finished[fmt.Sprint("cleared", id)]
		if selfClear {
			r.finished[fmt.Sprint("cleared", id)] = true
		}
	}
	r.mu.Unlock()
	if selfClear {
		if kind == "js" {
			if _, err := vm.RunString(fmt.Sprintf("clearInterval(__h[%d])", id)); err != nil {
				panic(err)
			}
			r.s.effect3("js_clear", id, 1, 0)
		} else {
			r.mu.Lock()
			h, _ := r.handles[id].(*eventloop.Interval)
			r.mu.Unlock()
			sid := r.newSub(fmt.Sprintf("clearinterval:%d", id))
			r.loop.ClearInterval(h)
			r.s.effect("go_clear_submitted", sid, id)
		}
	}
	r.mu.Lock()
	at, okAt := r.setAt[id]
	dl := r.delayOf[id]
	r.mu.Unlock()
	if ok := okAt; ok { // a timer callback: never early
		if d := dl; d > 0 && time.Since(at) < time.Duration(d)*time.Millisecond-200*time.Microsecond {
			r.early = append(r.early, fmt.Sprintf("timer %d (delay %dms) ran after %v", id, d, time.Since(at)))
		}
	}
	for _, op := range r.sc.cbs[id] {
		switch op.Kind {
		case "runonloop":
			sid := r.newSub(fmt.Sprintf("runonloop:%d", op.A))
			cb := op.A
			ok := r.loop.RunOnLoop(func(vm *goja.Runtime) { r.runCB(vm, cb, false) })
			r.s.effect("aux_result", sid, b2i(ok))
		case "go_settimeout", "go_setinterval":
			kind := op.Kind[3:] // settimeout | setinterval
			sid := r.newSub(fmt.Sprintf("start_%s:%d:%d", kind[3:], op.A, op.B))
			cb := op.A
			r.mu.Lock()
			r.setAt[cb], r.delayOf[cb] = time.Now(), op.B
			if kind == "setinterval" {
				r.interval[cb], r.maxTicks[cb] = "go", 1+cb%3
			}
			r.mu.Unlock()
			var h interface{}
			if kind == "settimeout" {
				if t := r.loop.SetTimeout(func(vm *goja.Runtime) { r.runCB(vm, cb, false) }, time.Duration(op.B)*time.Millisecond); t != nil {
					h = t
				}
			} else {
				if i := r.loop.SetInterval(func(vm *goja.Runtime) { r.runCB(vm, cb, false) }, time.Duration(op.B)*time.Millisecond); i != nil {
					h = i
				}
			}
			if h != nil {
				r.mu.Lock()
				r.handles[cb] = h
				r.mu.Unlock()
				r.s.effMu.Lock()
				r.s.objID[h] = cb
				r.s.effMu.Unlock()
			}
			r.s.effect("aux_result", sid, b2i(h != nil))
		case "js_timeout", "js_interval":
			fn := map[string]string{"js_timeout": "setTimeout", "js_interval": "setInterval"}[op.Kind]
			r.mu.Lock()
			r.setAt[op.A], r.delayOf[op.A] = time.Now(), op.B
			if op.Kind == "js_interval" {
				r.interval[op.A], r.maxTicks[op.A] = "js", 1+op.A%3
			}
			r.mu.Unlock()
			if _, err := vm.RunString(fmt.Sprintf("__h[%d] = %s(function(a, b){ __cb(%d, a, b) }, %d, 'x%d', %d)", op.A, fn, op.A, op.B, op.A, op.A)); err != nil {
				panic(err)
			}
			if hv, err := vm.RunString(fmt.Sprintf("__h[%d]", op.A)); err == nil {
				r.s.effMu.Lock()
				r.s.objID[hv.Export()] = op.A
				r.s.effMu.Unlock()
			}
			r.s.effect(op.Kind, op.A, op.B)
		case "js_immediate":
			sid := r.newSub(fmt.Sprintf("immediate:%d", op.A))
			if _, err := vm.RunString(fmt.Sprintf("__h[%d] = setImmediate(function(a){ __cb(%d, a) }, 'x%d')", op.A, op.A, op.A)); err != nil {
				panic(err)
			}
			r.s.effect("js_immediate", op.A, sid)
		case "js_clear":
			// A = timer id whose JS handle is cleared (may be unset -> undefined); B = which clear function 0 timeout 1 interval 2 immediate
			fn := []string{"clearTimeout", "clearInterval", "clearImmediate"}[op.B]
			before := eventloop.VerifSnapshot(r.loop).Jobs // the registry is owned by this (the owner) thread
			if _, err := vm.RunString(fmt.Sprintf("%s(__h[%d])", fn, op.A)); err != nil {
				panic(err)
			}
			r.s.effect3("js_clear", op.A, op.B, b2i(eventloop.VerifSnapshot(r.loop).Jobs < before))
		case "stopnowait":
			r.loop.StopNoWait()
			r.s.effect("cb_stopnowait", id, -1)
		case "throw":
			if viaJS {
				r.s.effect("cb_throw", id, -1)
				r.mu.Lock()
				r.active--
				r.mu.Unlock()
				r.s.effect("cb_end", id, -1)
				panic(vm.ToValue("thrown by callback"))
			}
		}
	}
	r.mu.Lock()
	r.active--
	r.mu.Unlock()
	r.s.effect("cb_end", id, -1)
}

// helperGoroutines lists goroutines created by timers and intervals of the package that still exist
func helperGoroutines(s *sched) string {
	buf := make([]byte, 1<<18)
	// a helper that was just released needs a moment to return
	for try := 0; ; try++ {
		n := runtime.Stack(buf, true)
		var left []string
		for _, g := range strings.Split(string(buf[:n]), "\n\n") {
			if strings.Contains(g, "eventloop.(*Interval).run") || strings.Contains(g, "(*Timer).start.") {
				hdr := g
				if i := strings.Index(g, "\n"); i >= 0 {
					hdr = g[:i]
				}
				if f := strings.Fields(hdr); len(f) > 1 {
					id, _ := strconv.ParseInt(f[1], 10, 64)
					s.effMu.Lock()
					fin := s.finished[id]
					s.effMu.Unlock()
					if fin {
						continue
					}
				}
				left = append(left, hdr)
			}
		}
		if len(left) == 0 {
			return ""
		}
		if try >= 40 {
			return strings.Join(left, "; ")
		}
		time.Sleep(250 * time.Microsecond)
	}
}

func b2i(b bool) int {
	if b {
		return 1
	}
	return 0
}

type actor struct {
	r    *run
	name string
	ops  []actOp
	done chan struct{}
}

// an API call that panics (e.g. "Loop is already started") ends the actor; the scenario continues without it
func (a *actor) recoverPanic() {
	if x := recover(); x != nil {
		a.r.mu.Lock()
		a.r.failures = append(a.r.failures, lib.ImplFailure{Oracle: "api-call-panicked", Detail: fmt.Sprintf("%s: %v", a.name, x)})
		a.r.mu.Unlock()
	}
}

func (a *actor) submitter() {
	defer close(a.done)
	defer a.recoverPanic()
	r := a.r
	for _, op := range a.ops {
		switch op.Kind {
		case "runonloop":
			sid := r.newSub(fmt.Sprintf("runonloop:%d", op.A))
			cb := op.A
			ok := r.loop.RunOnLoop(func(vm *goja.Runtime) { r.runCB(vm, cb, false) })
			r.s.effect("aux_result", sid, b2i(ok))
		case "settimeout", "setinterval":
			sid := r.newSub(fmt.Sprintf("start_%s:%d:%d", op.Kind[3:], op.A, op.B))
			cb := op.A
			r.mu.Lock()
			r.setAt[cb], r.delayOf[cb] = time.Now(), op.B
			if op.Kind == "setinterval" {
				r.interval[cb], r.maxTicks[cb] = "go", 1+cb%3
			}
			r.mu.Unlock()
			var h interface{}
			if op.Kind == "settimeout" {
				if t := r.loop.SetTimeout(func(vm *goja.Runtime) { r.runCB(vm, cb, false) }, time.Duration(op.B)*time.Millisecond); t != nil {
					h = t
				}
			} else {
				if i := r.loop.SetInterval(func(vm *goja.Runtime) { r.runCB(vm, cb, false) }, time.Duration(op.B)*time.Millisecond); i != nil {
					h = i
				}
			}
			r.mu.Lock()
			if h != nil {
				r.handles[cb] = h
				r.s.effMu.Lock()
				r.s.objID[h] = cb
				r.s.effMu.Unlock()
			}
			r.mu.Unlock()
			r.s.effect("aux_result", sid, b2i(h != nil))
		case "cleartimeout", "clearinterval":
			r.mu.Lock()
			h := r.handles[op.A]
			r.mu.Unlock()
			target := op.A
			if h == nil {
				target = -1 // the handle is not known yet (set by another goroutine): Clear*(nil) is a no-op
			}
			sid := r.newSub(fmt.Sprintf("%s:%d", op.Kind, target))
			if op.Kind == "cleartimeout" {
				t, _ := h.(*eventloop.Timer)
				r.loop.ClearTimeout(t)
			} else {
				i, _ := h.(*eventloop.Interval)
				r.loop.ClearInterval(i)
			}
			r.s.effect("go_clear_submitted", sid, op.A)
		case "stopnowait":
			r.loop.StopNoWait()
			r.s.effect("stopnowait_called", -1, -1)
		}
	}
}

func (a *actor) controller() {
	defer close(a.done)
	defer a.recoverPanic()
	r := a.r
	for _, op := range a.ops {
		switch op.Kind {
		case "start":
			r.s.effect("ctl_start", -1, -1)
			r.loop.Start()
			r.s.effect("ctl_start_returned", -1, -1)
		case "stop":
			r.s.effect("ctl_stop", -1, -1)
			n := r.loop.Stop()
			r.stopRet = append(r.stopRet, n)
			r.s.effect("ctl_stop_returned", n, -1)
		case "run":
			r.s.effect("ctl_run", op.A, -1)
			cb := op.A
			r.s.effMu.Lock()
			r.s.pending[curGID()] = cb
			r.s.effMu.Unlock()
			r.loop.Run(func(vm *goja.Runtime) { r.runCB(vm, cb, false) })
			r.s.effect("ctl_run_returned", -1, -1)
		case "terminate":
			r.s.effect("ctl_terminate", -1, -1)
			r.loop.Terminate()
			if left := helperGoroutines(r.s); left != "" {
				r.failures = append(r.failures, lib.ImplFailure{Oracle: "goroutine-left-after-terminate", Detail: left})
			}
			if sn := eventloop.VerifSnapshot(r.loop); sn.Jobs != 0 {
				r.failures = append(r.failures, lib.ImplFailure{Oracle: "jobs-left-after-terminate", Detail: fmt.Sprint(sn.Jobs)})
			}
			r.s.effect("ctl_terminate_returned", -1, -1)
		case "stopnowait":
			r.loop.StopNoWait()
			r.s.effect("stopnowait_called", -1, -1)
		case "idle":
			// let real time pass so that timers expire: an explicit point handled by the scheduler
			r.s.effect("ctl_idle", op.A, -1)
			time.Sleep(time.Duration(op.A) * time.Millisecond)
		}
	}
}

// ---------------- scenario generation ----------------
func genScenario(r *lib.Rand, profile string) *scenario {
	sc := &scenario{}
	newCB := func(ops ...cbOp) int {
		sc.cbs = append(sc.cbs, ops)
		return len(sc.cbs) - 1
	}
	timers := []int{} // timer ids (cb ids) created by JS ops so far (for clears)
	var genCB func(depth int, js bool) int
	genCB = func(depth int, js bool) int {
		id := newCB()
		n := r.Intn(3)
		if depth >= 2 {
			n = 0
		}
		var ops []cbOp
		for i := 0; i < n; i++ {
			switch k := r.Intn(12); {
			case k < 4:
				ops = append(ops, cbOp{"runonloop", genCB(depth+1, false), 0})
			case k < 6:
				t := genCB(depth+1, true)
				timers = append(timers, t)
				ops = append(ops, cbOp{"js_timeout", t, r.Intn(4)})
			case k < 7:
				t := genCB(2, true)
				timers = append(timers, t)
				ops = append(ops, cbOp{"js_interval", t, 1 + r.Intn(2)})
			case k < 8:
				t := genCB(depth+1, true)
				timers = append(timers, t)
				ops = append(ops, cbOp{"js_immediate", t, 0})
			case k < 9:
				if len(timers) > 0 {
					ops = append(ops, cbOp{"js_clear", timers[r.Intn(len(timers))], r.Intn(3)})
				}
			case k < 10:
				if r.Chance(70) {
					ops = append(ops, cbOp{"go_settimeout", genCB(depth+1, false), r.Intn(3)})
				} else {
					ops = append(ops, cbOp{"go_setinterval", genCB(2, false), 1 + r.Intn(2)})
				}
			case k < 11:
				if profile == "stop" || profile == "count" || r.Chance(35) {
					ops = append(ops, cbOp{"stopnowait", 0, 0})
				}
			default:
				if js {
					ops = append(ops, cbOp{"throw", 0, 0})
				}
			}
		}
		sc.cbs[id] = ops
		return id
	}
	nsub := 1 + r.Intn(3)
	goTimers := []int{}
	for s := 0; s < nsub; s++ {
		var ops []actOp
		k := 1 + r.Intn(4)
		for i := 0; i < k; i++ {
			switch x := r.Intn(10); {
			case x < 6:
				ops = append(ops, actOp{"runonloop", genCB(0, false), 0})
			case x < 7:
				t := genCB(1, false)
				goTimers = append(goTimers, t)
				ops = append(ops, actOp{"settimeout", t, r.Intn(4)})
			case x < 8:
				t := genCB(2, false)
				goTimers = append(goTimers, t)
				ops = append(ops, actOp{"setinterval", t, 1 + r.Intn(2)})
			case x < 9:
				if len(goTimers) > 0 {
					t := goTimers[r.Intn(len(goTimers))]
					if len(sc.cbs[t]) >= 0 {
						// clear with the matching function (Go API is typed)
						kind := "cleartimeout"
						for _, sub := range sc.submitters {
							for _, o := range sub {
								if o.Kind == "setinterval" && o.A == t {
									kind = "clearinterval"
								}
							}
						}
						for _, o := range ops {
							if o.Kind == "setinterval" && o.A == t {
								kind = "clearinterval"
							}
						}
						ops = append(ops, actOp{kind, t, 0})
					}
				}
			default:
				if profile == "stop" || r.Chance(35) {
					ops = append(ops, actOp{"stopnowait", 0, 0})
				}
			}
		}
		sc.submitters = append(sc.submitters, ops)
	}
	// controller
	var ctl []actOp
	cycles := 1 + r.Intn(2)
	for c := 0; c < cycles; c++ {
		if r.Chance(65) {
			ctl = append(ctl, actOp{"start", 0, 0})
			if r.Chance(60) {
				ctl = append(ctl, actOp{"idle", 1 + r.Intn(4), 0})
			}
			if profile == "terminate" && r.Chance(60) {
				ctl = append(ctl, actOp{"terminate", 0, 0})
			} else {
				ctl = append(ctl, actOp{"stop", 0, 0})
			}
		} else {
			ctl = append(ctl, actOp{"run", genCB(0, false), 0})
			if profile == "terminate" && r.Chance(40) {
				ctl = append(ctl, actOp{"terminate", 0, 0})
			}
		}
	}
	// always end quiescent: drain what is left
	ctl = append(ctl, actOp{"start", 0, 0}, actOp{"idle", 6, 0}, actOp{"terminate", 0, 0})
	sc.controller = ctl
	return sc
}

// ---------------- execution ----------------
func execute(sc *scenario, seed uint64) (*run, string) {
	reg := new(require.Registry)
	reg.RegisterNativeModule(console.ModuleName, console.RequireWithPrinter(silent{}))
	loop := eventloop.NewEventLoop(eventloop.WithRegistry(reg))
	rnd := lib.NewRand(seed)
	s := newSched(loop, rnd)
	r := &run{sc: sc, loop: loop, s: s, handles: map[int]interface{}{}, subKind: map[int]string{}, finished: map[string]bool{},
		setAt: map[int]time.Time{}, delayOf: map[int]int{}, interval: map[int]string{}, ticks: map[int]int{}, maxTicks: map[int]int{}}
	eventloop.VerifHook = s.hook
	defer func() { eventloop.VerifHook = nil }()

	// the runtime gets __cb and __h before anything runs (no loop thread yet: direct access is safe)
	var vm0 *goja.Runtime
	done0 := make(chan struct{})
	go func() {
		s.setRole(curGID(), "C")
		loop.Run(func(vm *goja.Runtime) { vm0 = vm })
		close(done0)
	}()
	// drive that initial Run() to completion
	for {
		select {
		case <-done0:
			goto ready
		default:
		}
		if !s.step() {
			select {
			case <-done0:
				goto ready
			case <-time.After(time.Millisecond):
			}
		}
	}
ready:
	vm0.Set("__cb", func(call goja.FunctionCall) goja.Value {
		id := int(call.Argument(0).ToInteger())
		// extra arguments given at creation must arrive
		if a := call.Argument(1); !goja.IsUndefined(a) && a.String() != fmt.Sprintf("x%d", id) {
			r.failures = append(r.failures, lib.ImplFailure{Oracle: "timer-arguments-wrong", Detail: fmt.Sprintf("timer %d got %v", id, a)})
		}
		r.runCB(vm0, id, true)
		return nil
	})
	vm0.RunString("var __h = []")
	s.log = nil // the set-up phase is not part of the scenario
	s.seq = 0

	ctl := &actor{r: r, name: "C", ops: sc.controller, done: make(chan struct{})}
	go func() { s.setRole(curGID(), "C"); ctl.controller() }()
	var subs []*actor
	for i, ops := range sc.submitters {
		a := &actor{r: r, name: fmt.Sprintf("S%d", i), ops: ops, done: make(chan struct{})}
		subs = append(subs, a)
		name := a.name
		go func() { s.setRole(curGID(), name); a.submitter() }()
	}
	allDone := func() bool {
		select {
		case <-ctl.done:
		default:
			return false
		}
		for _, a := range subs {
			select {
			case <-a.done:
			default:
				return false
			}
		}
		return true
	}
	steps, idleRounds := 0, 0
	for steps < 4000 {
		if s.step() {
			steps++
			idleRounds = 0
			continue
		}
		if allDone() {
			break
		}
		// nothing parked: threads are blocked (waiting for real time, or stuck)
		idleRounds++
		time.Sleep(500 * time.Microsecond)
		if idleRounds > 400 { // 200 ms without any point reached
			buf := make([]byte, 1<<16)
			_ = buf
			return r, "stuck: no thread can make progress; parked=[" + s.describeParked() + "]"
		}
	}
	if steps >= 4000 {
		return r, "step budget exhausted"
	}
	return r, ""
}

func main() {
	outPath := os.Args[1]
	profile := os.Getenv("VERIF_PROFILE")
	if profile == "" {
		profile = "fifo"
	}
	n := 150
	if lib.Tier() == "thorough" {
		n = 1500
	}
	if len(os.Args) > 2 {
		n, _ = strconv.Atoi(os.Args[2])
	}
	prop := map[string]string{"overlap": "C03", "fifo": "C04", "timers": "C05", "count": "C06", "stop": "C07", "terminate": "C08"}[profile]
	out := lib.NewOutput(prop)
	rnd := lib.NewRand(lib.Seed()*7919 + uint64(len(profile)))
	for c := 0; c < n; c++ {
		sc := genScenario(rnd, profile)
		lib.Breadcrumb(outPath, fmt.Sprintf("scenario %d", c))
		r, stuck := execute(sc, rnd.U64())
		id := len(out.Cases)
		desc := map[string]interface{}{"controller": sc.controller, "submitters": sc.submitters, "callbacks": len(sc.cbs), "events": len(r.s.log)}
		if stuck != "" {
			out.Fail(id, "stuck", map[string]interface{}{"what": stuck, "scenario": desc, "tail": tailLog(r.s.log, 25)})
		}
		for _, o := range r.overlap {
			out.Fail(id, "callbacks-overlap", map[string]interface{}{"what": o, "scenario": desc})
		}
		for _, e := range r.early {
			out.Fail(id, "timer-early", map[string]interface{}{"what": e, "scenario": desc})
		}
		for _, f := range r.failures {
			out.Fail(id, f.Oracle, f.Detail)
		}
		if r.s.lostWakeup != "" {
			out.Fail(id, "accepted-function-left-waiting", map[string]interface{}{"what": r.s.lostWakeup, "scenario": desc})
		}
		if r.s.idxBroken != "" {
			out.Fail(id, "jobs-index-broken", r.s.idxBroken)
		}
		preempt := countPreemptions(r.s.log)
		out.Add(coqCase(sc, r), map[string]interface{}{"scenario": desc, "trace": tailLog(r.s.log, 12)}, preempt >= 1)
		out.Count("events", lib.SizeBucket(len(r.s.log)))
		out.Count("preemptions", lib.SizeBucket(preempt))
		out.Count("submitters", strconv.Itoa(len(sc.submitters)))
	}
	out.Notes = append(out.Notes, "profile="+profile+"; one thread runs between two points; stability decided from goroutine states; white-box snapshot before every grant")
	out.Write(outPath)
}

func countPreemptions(log []*logEntry) int {
	n := 0
	var last int64 = -1
	for _, e := range log {
		if strings.HasPrefix(e.Point, "eff:") {
			continue
		}
		if last >= 0 && e.Gid != last {
			n++
		}
		last = e.Gid
	}
	return n
}

func tailLog(log []*logEntry, k int) []string {
	var out []string
	start := 0
	if len(log) > k {
		start = len(log) - k
	}
	for _, e := range log[start:] {
		out = append(out, fmt.Sprintf("%d %s %s %d %d", e.Seq, e.Role, e.Point, e.Arg, e.Arg2))
	}
	return out
}

var _ = sort.Ints

var effNames = map[string]string{"js_timeout": "e_js_timeout", "js_interval": "e_js_interval",
	"js_immediate": "e_js_immediate", "js_clear": "e_js_clear", "delivered_timeout": "e_delivered_timeout", "delivered_tick": "e_delivered_tick",
	"delivered_remove": "e_delivered_remove"}
var obsNames = map[string]string{"cb_start": "o_cb_start", "cb_end": "o_cb_end", "aux_result": "o_aux_result", "ctl_stop_returned": "o_stop_returned",
	"ctl_run_returned": "o_run_returned", "ctl_terminate_returned": "o_terminate_returned"}

func coqCase(sc *scenario, r *run) string {
	r.s.resolve()
	// submission kinds
	var kinds []string
	var ids []int
	for id := range r.subKind {
		ids = append(ids, id)
	}
	sort.Ints(ids)
	for _, id := range ids {
		f := strings.Split(r.subKind[id], ":")
		k, ok := map[string]string{"runonloop": "KRun", "start_timeout": "KStartTimeout", "start_interval": "KStartInterval",
			"cleartimeout": "KClearTimeout", "clearinterval": "KClearInterval", "immediate": "KImmediate"}[f[0]]
		if !ok {
			continue
		}
		kinds = append(kinds, fmt.Sprintf("(%d, %s (%s))", id, k, f[1]))
	}
	threads := map[int64]int{}
	tid := func(g int64) int {
		if _, ok := threads[g]; !ok {
			threads[g] = len(threads)
		}
		return threads[g]
	}
	var evs []string
	for _, e := range r.s.log {
		if strings.HasPrefix(e.Point, "eff:") {
			nm := strings.TrimPrefix(e.Point, "eff:")
			if name, ok := effNames[nm]; ok {
				evs = append(evs, fmt.Sprintf("LE %d%%nat %s %s %s %s", tid(e.Gid), name, lib.Z(int64(e.Arg)), lib.Z(int64(e.Arg2)), lib.Z(int64(e.Arg3))))
			} else if name, ok := obsNames[nm]; ok {
				evs = append(evs, fmt.Sprintf("LO %d%%nat %s %s %s", tid(e.Gid), name, lib.Z(int64(e.Arg)), lib.Z(int64(e.Arg2))))
			}
			continue
		}
		sn := e.Snap
		evs = append(evs, fmt.Sprintf("LP %d%%nat %s %s %s {| s_jobcount := %s; s_jobs := %d%%nat; s_aux := %d%%nat; s_token := %s; s_canrun := %s; s_running := %s; s_terminated := %s |}",
			tid(e.Gid), e.Point, lib.Z(int64(e.Arg)), lib.Z(int64(e.Arg2)), lib.Z(int64(sn.JobCount)), sn.Jobs, sn.AuxJobs, lib.Bool(sn.Token == 1), lib.Bool(sn.CanRun == 1), lib.Bool(sn.Running), lib.Bool(sn.Terminated)))
	}
	fin := eventloop.VerifSnapshot(r.loop)
	return fmt.Sprintf("{| c_kinds := %s; c_log := %s; c_final_jobs := %d%%nat; c_final_count := %s |}", lib.List(kinds), lib.List(evs), fin.Jobs, lib.Z(int64(fin.JobCount)))
}
