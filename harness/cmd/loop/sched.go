package main

import (
	"bytes"
	"fmt"
	"runtime"
	"strconv"
	"strings"
	"sync"
	"sync/atomic"
	"time"

	"github.com/dop251/goja_nodejs/eventloop"

	"verif/harness/lib"
)

// ---------------- controlled scheduler ----------------
// Every goroutine that reaches a verifPoint parks on its own channel. The scheduler grants exactly one parked thread,
// then waits until the system is stable again: every relevant goroutine is parked at a point, finished, or blocked in
// a real blocking operation (decided from goroutine states, runtime.Stack(all)), never from a time-out guess alone.

type arrival struct {
	gid   int64
	name  string
	objs  []interface{}
	grant chan struct{}
}

type logEntry struct {
	Seq    int
	Gid    int64
	Role   string // C controller, L loop, S<k> submitter, T timer helper, I interval helper
	Point  string // point name, or "eff:<name>" for an effect recorded by instrumented callbacks
	Arg    int    // submission / job / timer id where known, else -1
	Arg2   int
	Arg3   int
	Snap   *eventloop.VerifSnap
	Accept int // aux_lock: 1 accepted, 0 refused (filled in after the call returned), -1 n/a
	obj    interface{} // object passed to the point; its id may become known only later (handle returned to the caller)
}

// resolve fills in ids of objects that were not known when the entry was logged
func (s *sched) resolve() {
	for _, e := range s.log {
		if e.obj != nil && e.Arg < 0 {
			e.Arg = s.objOf(e.obj)
		}
	}
}

type sched struct {
	loop     *eventloop.EventLoop
	arrive   chan *arrival
	parked   map[int64]*arrival
	log      []*logEntry
	roles    map[int64]string
	rolesMu  sync.Mutex
	r        *lib.Rand
	seq      int32
	stuck    string
	prio     map[int64]int
	effMu    sync.Mutex
	pending  map[int64]int // gid -> id of the submission being made (set by actors before calling the API)
	objID    map[interface{}]int
	nextObj  int
	lastAux  map[int64]*logEntry
	maxSteps int
	lastPt   map[int64]string // last granted point per goroutine
	selEntry *logEntry        // the run_select grant whose outcome is still to be observed
	selGid   int64
	prev       *logEntry
	lostWakeup string
	idxBroken  string
	finished map[int64]bool // helpers parked at their last point (their work is done; only the return is left)
}

func curGID() int64 {
	var buf [64]byte
	n := runtime.Stack(buf[:], false)
	// "goroutine 123 [running]:"
	f := bytes.Fields(buf[:n])
	id, _ := strconv.ParseInt(string(f[1]), 10, 64)
	return id
}

func newSched(loop *eventloop.EventLoop, r *lib.Rand) *sched {
	s := &sched{loop: loop, arrive: make(chan *arrival, 4096), parked: map[int64]*arrival{}, roles: map[int64]string{}, r: r,
		prio: map[int64]int{}, pending: map[int64]int{}, objID: map[interface{}]int{}, lastAux: map[int64]*logEntry{}, maxSteps: 600, lastPt: map[int64]string{}, finished: map[int64]bool{}}
	return s
}

func (s *sched) hook(loop *eventloop.EventLoop, name string, objs ...interface{}) {
	if loop != s.loop {
		return
	}
	a := &arrival{gid: curGID(), name: name, objs: objs, grant: make(chan struct{})}
	s.arrive <- a
	<-a.grant
}

func (s *sched) setRole(gid int64, role string) {
	s.rolesMu.Lock()
	s.roles[gid] = role
	s.rolesMu.Unlock()
}

func (s *sched) role(gid int64, point string) string {
	s.rolesMu.Lock()
	defer s.rolesMu.Unlock()
	if r, ok := s.roles[gid]; ok {
		// the controller goroutine is the loop thread while inside Run()
		return r
	}
	switch {
	case strings.HasPrefix(point, "timer_"):
		s.roles[gid] = "T"
	case strings.HasPrefix(point, "int_"):
		s.roles[gid] = "I"
	case strings.HasPrefix(point, "run") || strings.HasPrefix(point, "arm_"):
		s.roles[gid] = "L"
	default:
		s.roles[gid] = "?"
	}
	return s.roles[gid]
}

// effect: recorded by instrumented callbacks / actors on the currently running thread (between two grants)
func (s *sched) effect(name string, arg, arg2 int) {
	gid := curGID()
	s.effMu.Lock()
	s.log = append(s.log, &logEntry{Seq: int(atomic.AddInt32(&s.seq, 1)), Gid: gid, Role: s.role(gid, ""), Point: "eff:" + name, Arg: arg, Arg2: arg2, Accept: -1})
	s.effMu.Unlock()
}

func (s *sched) effect3(name string, arg, arg2, arg3 int) {
	gid := curGID()
	s.effMu.Lock()
	s.log = append(s.log, &logEntry{Seq: int(atomic.AddInt32(&s.seq, 1)), Gid: gid, Role: s.role(gid, ""), Point: "eff:" + name, Arg: arg, Arg2: arg2, Arg3: arg3, Accept: -1})
	s.effMu.Unlock()
}

// goroutine states of everything that runs library or harness-actor code
var stackBuf = make([]byte, 1<<18)

func relevantBusy() (busy int, dump string) {
	buf := stackBuf
	n := runtime.Stack(buf, true)
	self := curGID()
	for _, g := range strings.Split(string(buf[:n]), "\n\n") {
		if !strings.Contains(g, "goja_nodejs/eventloop") && !strings.Contains(g, "cmd/loop.(*actor)") && !strings.Contains(g, "main.(*actor)") {
			continue
		}
		hdr := g
		if i := strings.Index(g, "\n"); i >= 0 {
			hdr = g[:i]
		}
		f := strings.Fields(hdr)
		if len(f) < 3 {
			continue
		}
		id, _ := strconv.ParseInt(f[1], 10, 64)
		if id == self {
			continue
		}
		state := strings.Trim(strings.Join(f[2:], " "), "[]:")
		if strings.HasPrefix(state, "running") || strings.HasPrefix(state, "runnable") || strings.HasPrefix(state, "syscall") {
			busy++
			dump += hdr + "\n"
		}
	}
	return
}

// waitStable collects arrivals until nothing relevant is running
// park registers an arrival; a helper that arrives at the point after its send tells us its message was received
func (s *sched) park(a *arrival) {
	s.parked[a.gid] = a
	if a.name == "timer_sent" || a.name == "int_done" {
		s.effMu.Lock()
		s.finished[a.gid] = true
		s.effMu.Unlock()
	}
	id := -1
	var obj interface{}
	if len(a.objs) > 0 {
		obj = a.objs[0]
		id = s.objOf(obj)
	}
	switch {
	case a.name == "timer_sent":
		s.effectFor(a.gid, "delivered_timeout", id, -1, obj)
	case a.name == "int_select" && s.lastPt[a.gid] == "int_tick_send":
		s.effectFor(a.gid, "delivered_tick", id, -1, obj)
	case a.name == "int_done":
		s.effectFor(a.gid, "delivered_remove", id, -1, obj)
	}
}

func (s *sched) effectFor(gid int64, name string, arg, arg2 int, obj interface{}) {
	s.effMu.Lock()
	s.log = append(s.log, &logEntry{Seq: int(atomic.AddInt32(&s.seq, 1)), Gid: gid, Role: s.role(gid, ""), Point: "eff:" + name, Arg: arg, Arg2: arg2, Accept: -1, obj: obj})
	s.effMu.Unlock()
}

func (s *sched) waitStable() {
	idle := 0
	for {
		select {
		case a := <-s.arrive:
			s.park(a)
			idle = 0
			continue
		default:
		}
		runtime.Gosched()
		if busy, _ := relevantBusy(); busy == 0 {
			// drain once more: a goroutine may have queued its arrival just before parking
			select {
			case a := <-s.arrive:
				s.park(a)
				continue
			default:
			}
			idle++
			if idle >= 2 {
				return
			}
		} else {
			idle = 0
			time.Sleep(20 * time.Microsecond)
		}
	}
}

var holdsStopLock = map[string]bool{"stop_request": true, "stop_wakeup": true, "stop_wait": true, "stop_return": true}
var takesStopLock = map[string]bool{"run_exit": true, "stopnowait": true, "setrunning": true, "stop_enter": true}

func (s *sched) grantable() []*arrival {
	holder := int64(-1)
	for _, a := range s.parked {
		if holdsStopLock[a.name] {
			holder = a.gid
		}
	}
	var out []*arrival
	for _, a := range s.parked {
		if holder >= 0 && a.gid != holder && takesStopLock[a.name] {
			continue // its next action would block on a mutex held by a parked thread: no effect until that thread moves
		}
		out = append(out, a)
	}
	// deterministic order before the seeded choice
	for i := 0; i < len(out); i++ {
		for j := i + 1; j < len(out); j++ {
			if out[j].gid < out[i].gid {
				out[i], out[j] = out[j], out[i]
			}
		}
	}
	return out
}

func (s *sched) objOf(o interface{}) int {
	s.effMu.Lock()
	defer s.effMu.Unlock()
	if id, ok := s.objID[o]; ok {
		return id
	}
	for h, id := range s.objID { // the registry hands out the embedded job of a handle
		if j := eventloop.VerifJobOf(h); j != nil && interface{}(j) == o {
			return id
		}
	}
	return -1
}

// step grants one thread; returns false when nothing can be granted
func (s *sched) step() bool {
	s.waitStable()
	if s.selEntry != nil { // which arm did the select take at once?
		if a, ok := s.parked[s.selGid]; ok && a.name == "arm_wakeup" {
			s.selEntry.Arg2 = 1
		} else if ok && a.name == "arm_job" {
			s.selEntry.Arg2 = 2
		} else {
			s.selEntry.Arg2 = 0
		}
		s.selEntry = nil
	}
	cands := s.grantable()
	if len(cands) == 0 {
		return false
	}
	// PCT-flavoured choice: mostly the highest priority, priorities reshuffled now and then
	var pick *arrival
	if s.r.Chance(70) {
		best := -1
		for _, a := range cands {
			if _, ok := s.prio[a.gid]; !ok {
				s.prio[a.gid] = s.r.Intn(1000)
			}
			if s.prio[a.gid] > best {
				best, pick = s.prio[a.gid], a
			}
		}
		if s.r.Chance(15) {
			s.prio[pick.gid] = s.r.Intn(1000)
		}
	} else {
		pick = cands[s.r.Intn(len(cands))]
	}
	snap := eventloop.VerifSnapshot(s.loop)
	s.monitor(&snap)
	// did the time.Timer.Stop() inside the previous segment succeed? (the registry shrank)
	if s.prev != nil && (s.prev.Point == "runaux_job" || s.prev.Point == "term_cancel") && snap.Jobs < s.prev.Snap.Jobs {
		s.prev.Arg2 = 1
	}
	arg := -1
	var pobj interface{}
	if len(pick.objs) > 0 {
		pobj = pick.objs[0]
		arg = s.objOf(pobj)
	}
	if pick.name == "aux_lock" || pick.name == "run_fn" {
		s.effMu.Lock()
		if id, ok := s.pending[pick.gid]; ok {
			arg = id
		}
		s.effMu.Unlock()
	}
	e := &logEntry{Seq: int(atomic.AddInt32(&s.seq, 1)), Gid: pick.gid, Role: s.role(pick.gid, pick.name), Point: pick.name, Arg: arg, Arg2: 0, Snap: &snap, Accept: -1, obj: pobj}
	s.effMu.Lock()
	s.log = append(s.log, e)
	s.prev = e
	if pick.name == "aux_lock" {
		s.lastAux[pick.gid] = e
	}
	if pick.name == "run_select" {
		s.selEntry, s.selGid = e, pick.gid
	}
	s.lastPt[pick.gid] = pick.name
	s.effMu.Unlock()
	delete(s.parked, pick.gid)
	close(pick.grant)
	return true
}

func (s *sched) describeParked() string {
	var parts []string
	for _, a := range s.parked {
		parts = append(parts, fmt.Sprintf("%s@%s", s.role(a.gid, a.name), a.name))
	}
	return strings.Join(parts, " ")
}

// monitor: state predicates on the implementation at a stable point (every thread parked or blocked).
// Lost wake-up: the queue holds an accepted function, the loop sleeps in its select, the wake-up channel is empty and
// no thread is on its way to send a token: nothing but a further submission (or Stop) will ever run that function.
func (s *sched) monitor(sn *eventloop.VerifSnap) {
	if !sn.JobIdxOK && s.idxBroken == "" {
		s.idxBroken = fmt.Sprintf("at step %d", s.seq)
	}
	if s.lostWakeup != "" || sn.AuxJobs == 0 || sn.Token != 0 || !sn.Running {
		return
	}
	loopGid := int64(-1)
	for g, p := range s.lastPt {
		if p == "run_select" {
			loopGid = g
		}
	}
	if loopGid < 0 {
		return
	}
	if _, parked := s.parked[loopGid]; parked {
		return // it left the select
	}
	for _, a := range s.parked {
		if a.name == "aux_wakeup" || a.name == "stop_wakeup" {
			return
		}
	}
	s.lostWakeup = fmt.Sprintf("step %d: %d function(s) queued, wake-up channel empty, loop blocked in select, nobody about to wake it", s.seq, sn.AuxJobs)
}
