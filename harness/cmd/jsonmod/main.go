// C16 harness: .json modules are data.
package main

import (
	"encoding/json"
	"fmt"
	"os"
	"strconv"
	"strings"
	"unicode/utf8"

	"github.com/dop251/goja"
	"github.com/dop251/goja_nodejs/require"

	"verif/harness/lib"
)

var strPieces = []string{"a", "\"", "'", "\\", "\n", "\r", " ", " ", "\x00", "\x1f", "\x7f", "é", "日本", "🙂", "\U0010FFFF", "\U000E0001", "￾", "​",
	"%", "%%", "%s", "%d", "%v", "%.1s", "%20", "100%", "%!", "%[1]s", "%q",
	"})", ")(", "*/", "/*", "</script>", "<!--", "')", "\")", "';globalThis.__pwned=1;'", "\";globalThis.__pwned=1;\"", "\\u0041", "\\", "\\'", "${x}", "`", "\t", "\b", "\f", "&", "<", ">", "=", "\u0085"}

type gen struct{ r *lib.Rand }

func (g *gen) str() string {
	n := g.r.Intn(6)
	var sb strings.Builder
	for i := 0; i < n; i++ {
		sb.WriteString(g.r.Pick(strPieces))
	}
	return sb.String()
}

func (g *gen) value(depth int) interface{} {
	switch k := g.r.Intn(10); {
	case k < 4 || depth > 3:
		return g.str()
	case k < 5:
		return []interface{}{float64(g.r.Intn(1000)) / 8, nil, true}[g.r.Intn(3)]
	case k < 7:
		n := g.r.Intn(4)
		a := make([]interface{}, n)
		for i := range a {
			a[i] = g.value(depth + 1)
		}
		return a
	default:
		n := g.r.Intn(4)
		m := map[string]interface{}{}
		for i := 0; i < n; i++ {
			k := g.str()
			if g.r.Chance(25) { // keys with a meaning in JavaScript object literals / prototypes
				k = g.r.Pick([]string{"__proto__", "constructor", "toString", "valueOf", "hasOwnProperty", "prototype", "__defineGetter__", "length", "0"})
			}
			m[k] = g.value(depth + 1)
		}
		return m
	}
}

// validJSON renders v with randomly chosen escape forms (the full range of JSON escapes)
func (g *gen) validJSON(v interface{}) string {
	switch x := v.(type) {
	case string:
		var sb strings.Builder
		sb.WriteByte('"')
		for _, c := range x {
			switch {
			case c == '"' || c == '\\':
				sb.WriteByte('\\')
				sb.WriteRune(c)
			case c < 0x20 || g.r.Chance(10):
				if c > 0xFFFF {
					c1, c2 := 0xD800+((c-0x10000)>>10), 0xDC00+((c-0x10000)&0x3FF)
					fmt.Fprintf(&sb, "\\u%04x\\u%04X", c1, c2)
				} else {
					fmt.Fprintf(&sb, "\\u%04x", c)
				}
			default:
				sb.WriteRune(c) // incl. raw U+2028/U+2029, DEL, astral
			}
		}
		sb.WriteByte('"')
		return sb.String()
	case []interface{}:
		var it []string
		for _, e := range x {
			it = append(it, g.validJSON(e))
		}
		return "[" + strings.Join(it, []string{",", " , ", ",\n"}[g.r.Intn(3)]) + "]"
	case map[string]interface{}:
		var it []string
		for k, e := range x {
			it = append(it, g.validJSON(k)+":"+g.validJSON(e))
			if g.r.Chance(8) { // duplicate member names are valid JSON (last one wins)
				it = append(it, g.validJSON(k)+":"+g.validJSON(e))
			}
		}
		return "{" + strings.Join(it, ",") + "}"
	default:
		b, _ := json.Marshal(x)
		return string(b)
	}
}

func main() {
	outPath := os.Args[1]
	n := 1200
	if lib.Tier() == "thorough" {
		n = 15000
	}
	if len(os.Args) > 2 {
		n, _ = strconv.Atoi(os.Args[2])
	}
	out := lib.NewOutput("C16")
	g := &gen{r: lib.NewRand(lib.Seed())}
	r := g.r

	files := map[string][]byte{}
	reg := require.NewRegistry(require.WithLoader(func(p string) ([]byte, error) {
		if b, ok := files[p]; ok {
			return b, nil
		}
		return nil, require.ModuleFileDoesNotExistError
	}), require.WithPathResolver(func(base, p string) string {
		if strings.HasPrefix(p, "/") {
			return p
		}
		return base + "/" + p
	}))
	vm := goja.New()
	reg.Enable(vm)
	vm.Set("__text", "")
	vm.Set("__path", "")
	if _, err := vm.RunString(`var __globals0 = Object.getOwnPropertyNames(globalThis).length + 2;
function __probe(text, path) {
  var a, ea, b, eb;
  try { a = JSON.stringify(JSON.parse(text)) } catch (e) { ea = e.name }
  try { b = JSON.stringify(require(path)) } catch (e) { eb = e.name }
  return [a === undefined ? null : a, ea || null, b === undefined ? null : b, eb || null, typeof __pwned, Object.getOwnPropertyNames(globalThis).length];
}`); err != nil {
		panic(err)
	}
	baseline := ""
	// large documents: every byte offset that is a multiple of 512 falls inside a run of 2-, 3- and 4-byte characters (at a random
	// alignment), so a loader that handles the text in blocks, windows or buffers of any usual size cuts through a character
	largeLens := []int{600, 1100, 4200, 8300, 16500, 33000, 66000, 132000, 270000}
	nLarge := 8
	if lib.Tier() == "thorough" {
		nLarge = 60
	}
	large := map[int]string{}
	for i := 0; i < nLarge; i++ {
		L := largeLens[r.Intn(len(largeLens))]
		var sb strings.Builder
		sb.WriteString(`{"k":["`)
		sb.WriteString(strings.Repeat("x", r.Intn(10)))
		unit := []string{"aé世😀", "é", "世界", "😀", " é"}[r.Intn(5)]
		for sb.Len() < L {
			if r.Chance(3) {
				sb.WriteString(`","`)
			} else if r.Chance(2) {
				sb.WriteString(`\n\"`)
			}
			sb.WriteString(unit)
		}
		sb.WriteString(`"]}`)
		large[r.Intn(n)] = sb.String()
	}
	for c := 0; c < n; c++ {
		var content string
		class := ""
		if big, ok := large[c]; ok {
			content, class = big, "large-multibyte"
		} else {
			switch k := r.Intn(10); {
			case k < 5:
				content, class = g.validJSON(g.value(0)), "valid-json"
			case k < 7:
				base := g.validJSON(g.value(0))
				muts := []func(string) string{
					func(s string) string { return strings.Replace(s, "]", ",]", 1) },
					func(s string) string { return s + " // c" },
					func(s string) string { return strings.Replace(s, "\"", "'", 2) },
					func(s string) string { return s + "}" },
					func(s string) string { return "/* */" + s },
					func(s string) string { return "" },
					func(s string) string { return s + "\n" + s },
				}
				content, class = muts[r.Intn(len(muts))](base), "near-json"
			case k < 9:
				content, class = g.str()+g.str(), "adversarial-delimiters"
			default:
				content, class = "\""+g.str()+"\"", "quoted-raw"
			}
		}
		if class != "large-multibyte" && r.Chance(12) { // text framing: what precedes / follows the value is part of the text that JSON.parse sees
			pre := r.Pick([]string{"\uFEFF", "\uFEFF\uFEFF", " \uFEFF", "\u00A0", "\u2028", "\t\n\r ", "\x00", "\uFFFE", "\v", "\f"})
			if r.Chance(70) {
				content = pre + content
			} else {
				content = content + pre
			}
			class += "+framing"
		}
		illformed := false
		if r.Chance(4) { // separate malformed stream: ill-formed UTF-8 bytes
			content += string([]byte{0xff, 0xc3, 0x28, 0xed, 0xa0, 0x80})
			illformed = true
			class = "illformed-utf8"
		}
		// every name that ends in ".json" is data, whatever stands before the dot (nothing, another dot, another extension)
		path := fmt.Sprintf("/m/f%d.json", c)
		switch r.Intn(12) {
		case 0:
			path = fmt.Sprintf("/m/d%d/.json", c)
		case 1:
			path = fmt.Sprintf("/m/d%d/..json", c)
		case 2:
			path = fmt.Sprintf("/m/f%d.js.json", c)
		case 3:
			path = fmt.Sprintf("/m/.f%d.json", c)
		case 4:
			path = fmt.Sprintf("/m/f%d.min.v2.json", c)
		}
		out.Count("file_name", map[bool]string{true: "plain", false: "dotted"}[strings.HasPrefix(path, "/m/f") && strings.Count(path, ".") == 1])
		files[path] = []byte(content)
		vm.Set("__text", content)
		vm.Set("__path", path)
		v, err := vm.RunString(`__probe(__text, __path)`)
		if err != nil {
			out.Fail(len(out.Cases), "probe-threw", map[string]string{"content": content, "err": err.Error()})
			out.Add("crashed", content, false)
			continue
		}
		res := v.Export().([]interface{})
		desc := map[string]interface{}{"content": content, "class": class, "json_parse": res[0], "json_parse_error": res[1], "required": res[2], "require_error": res[3]}
		id := len(out.Cases)
		tags := []string{class}
		if res[4] != "undefined" {
			out.Fail(id, "code-executed", desc, tags...)
		}
		if baseline == "" {
			baseline = fmt.Sprint(res[5])
		}
		if fmt.Sprint(res[5]) != baseline {
			out.Fail(id, "globals-changed", desc, tags...)
		}
		if res[1] == nil { // valid JSON: deep-equal value
			if res[3] != nil || res[0] != res[2] {
				out.Fail(id, "module-differs-from-JSON.parse", desc, tags...)
			}
		} else if res[3] != "SyntaxError" {
			out.Fail(id, "invalid-json-did-not-throw-SyntaxError", desc, tags...)
		}
		lit, _ := json.Marshal(content)
		nontriv := strings.ContainsAny(content, "'\"\\\n\r})(") || !isASCII(content)
		if class == "large-multibyte" {
			short := map[string]interface{}{}
			for k, v := range desc { // a failure recorded above keeps the whole text; the case list keeps a summary
				short[k] = v
			}
			short["content"] = fmt.Sprintf("%d bytes: %s ... %s", len(content), content[:40], content[len(content)-24:])
			short["json_parse"], short["required"] = "(omitted)", "(omitted)"
			desc = short
			if res[1] != nil {
				panic("generator: large document is not valid JSON")
			}
			out.Add("crashed", desc, true, tags...) // Go-side oracle only (deep equality with JSON.parse of the text in the same runtime)
		} else if illformed || !utf8.ValidString(content) {
			out.Add("crashed", desc, nontriv, tags...) // Go-side oracle only: the Coq model is over scalar values
		} else {
			out.Add(fmt.Sprintf("{| k_text := %s; k_go_lit := %s |}", lib.Runes(content), lib.Runes(string(lit))), desc, nontriv, tags...)
		}
		out.Count("class", class)
		out.Count("content_len", lib.SizeBucket(len(content)))
		if res[1] == nil {
			out.Count("json_validity", "valid")
		} else {
			out.Count("json_validity", "invalid")
		}
	}
	out.Notes = append(out.Notes, "oracle in the same runtime: JSON.stringify(require(f)) === JSON.stringify(JSON.parse(text)) or both throw SyntaxError; sentinel global; own-property count of globalThis")
	out.Write(outPath)
}

func isASCII(s string) bool {
	for i := 0; i < len(s); i++ {
		if s[i] >= 0x80 {
			return false
		}
	}
	return true
}
