// C19 harness: util.format and console against the Coq model and the Node-format specification.
package main

import (
	"fmt"
	"os"
	"strconv"
	"strings"

	"github.com/dop251/goja"
	"github.com/dop251/goja_nodejs/console"
	"github.com/dop251/goja_nodejs/require"
	"github.com/dop251/goja_nodejs/util"

	"verif/harness/lib"
)

type recPrinter struct{ log, warn, err []string }

func (p *recPrinter) Log(s string)   { p.log = append(p.log, s) }
func (p *recPrinter) Warn(s string)  { p.warn = append(p.warn, s) }
func (p *recPrinter) Error(s string) { p.err = append(p.err, s) }

// format string pieces: rich in '%', directive letters, other letters, multi-byte and astral characters
var fmtPieces = []string{"%", "%", "%%", "%s", "%d", "%j", "%x", "%S", "%д", "%🙂", "% ", "s", "d", "j", "a", " ", "é", "日", "🙂", "100", ":", "%%%", "%s%s", "x%", "\n"}

// JS source of argument values
var argSrc = []string{`"str"`, `""`, `"%s"`, `"a b"`, `"é🙂"`, `42`, `-0`, `0`, `NaN`, `1.5`, `1e21`, `-1e-7`, `Infinity`, `true`, `false`, `null`, `undefined`,
	`[1,2,3]`, `[]`, `["a",[1]]`, `({})`, `({a:1,b:"x"})`, `({a:[1,{b:null}]})`, `"100%"`, `" "`, `123456789012`,
	// numbers whose JavaScript rendering is not their exact integer value, around every integer width, and strings that convert to them
	`9007199254740992`, `9007199254740993`, `2**53+2`, `2**60`, `-(2**60)`, `2**62+2**9`, `2**63`, `-(2**63)`, `2**64`, `1e300`, `-1e21`, `4294967296`, `2147483648`,
	`"1152921504606846976"`, `"0x10"`, `"1e3"`, `" 12 "`, `"12px"`, `5e-324`, `0.1+0.2`, `123456789.12345678`, `-2147483649`, `1e-7`, `[7]`, `[1,2]`, `new Date(0)`, `"9223372036854775808"`}

func genFmt(r *lib.Rand) string {
	n := r.Intn(7)
	var sb strings.Builder
	for i := 0; i < n; i++ {
		sb.WriteString(r.Pick(fmtPieces))
	}
	return sb.String()
}

func jsStr(s string) string { // JS string literal for s (well-formed Unicode)
	var sb strings.Builder
	sb.WriteByte('"')
	for _, c := range s {
		switch {
		case c == '"' || c == '\\':
			sb.WriteByte('\\')
			sb.WriteRune(c)
		case c == '\n':
			sb.WriteString(`\n`)
		case c < 0x20:
			fmt.Fprintf(&sb, `\x%02x`, c)
		default:
			sb.WriteRune(c)
		}
	}
	sb.WriteByte('"')
	return sb.String()
}

type oracle struct{ str, num, json string }

func coqArg(o oracle) string {
	return fmt.Sprintf("{| a_str := %s; a_num := %s; a_json := %s |}", lib.Runes(o.str), lib.Runes(o.num), lib.Runes(o.json))
}

func main() {
	outPath := os.Args[1]
	n := 1500
	if lib.Tier() == "thorough" {
		n = 20000
	}
	if len(os.Args) > 2 {
		n, _ = strconv.Atoi(os.Args[2])
	}
	out := lib.NewOutput("C19")
	r := lib.NewRand(lib.Seed())

	vm := goja.New()
	pr := &recPrinter{}
	reg := new(require.Registry)
	reg.Enable(vm)
	reg.RegisterNativeModule(console.ModuleName, console.RequireWithPrinter(pr))
	console.Enable(vm)
	if _, err := vm.RunString(`var util = require('util'); var S=function(a){return String(a)}, Nn=function(a){return String(Number(a))}, J=function(a){return String(JSON.stringify(a))};`); err != nil {
		panic(err)
	}
	_ = util.ModuleName
	oracles := func(src string) oracle {
		get := func(fn string) string {
			v, err := vm.RunString(fn + "(" + src + ")")
			if err != nil {
				panic(err)
			}
			return v.String()
		}
		return oracle{get("S"), get("Nn"), get("J")}
	}
	orc := map[string]oracle{}
	for _, a := range argSrc {
		orc[a] = oracles(a)
	}

	// format must be a function of its arguments: a call that throws half-way (JSON.stringify of a circular
	// object, a toString that throws) is caught by the script and must leave no trace in later calls
	faults := []string{
		`try { util.format("partial %j tail", (function(){var o={}; o.o=o; return o})()) } catch (e) {}`,
		`try { console.warn("state: %j", (function(){var o={}; o.o=o; return o})()) } catch (e) {}`,
		`try { util.format("a%sb", {toString: function(){ throw new Error("x") }}) } catch (e) {}`,
		`try { console.log("n=%d", {valueOf: function(){ throw new Error("x") }}) } catch (e) {}`,
	}
	nFmt := n * 4 / 5
	for c := 0; c < n; c++ {
		if r.Chance(12) {
			f := r.Pick(faults)
			if _, err := vm.RunString(f); err != nil {
				out.Fail(len(out.Cases), "fault-escaped", map[string]string{"script": f, "err": err.Error()})
			}
			out.Count("faulting_call_before_case", "yes")
		}
		if c < nFmt {
			f := genFmt(r)
			na := r.Intn(4)
			if r.Chance(20) {
				na = 0
			}
			var args []string
			for i := 0; i < na; i++ {
				args = append(args, r.Pick(argSrc))
			}
			noFmt := r.Chance(3)
			first := jsStr(f)
			if r.Chance(8) { // the format is whatever the first argument converts to: String(a), and "" for undefined
				a := r.Pick(argSrc)
				first, f = a, orc[a].str
				if a == "undefined" {
					f = ""
				}
				out.Count("first_argument", "not-a-string")
			}
			call := "util.format(" + strings.Join(append([]string{first}, args...), ",") + ")"
			if noFmt {
				call = "util.format()"
				args = nil
			}
			v, err := vm.RunString(call)
			if err != nil {
				out.Fail(len(out.Cases), "format-threw", map[string]string{"call": call, "err": err.Error()})
				out.Add("crashed", map[string]string{"call": call}, false)
				continue
			}
			res := v.String()
			var coqArgs []string
			for _, a := range args {
				coqArgs = append(coqArgs, coqArg(orc[a]))
			}
			fOpt := "(Some " + lib.Runes(f) + ")"
			if noFmt {
				fOpt = "None"
			}
			npct := strings.Count(f, "%")
			var tags []string
			if strings.HasSuffix(f, "%") {
				tags = append(tags, "ends-with-pct")
			}
			out.Add(fmt.Sprintf("FmtCase %s %s %s", fOpt, lib.List(coqArgs), lib.Runes(res)),
				map[string]interface{}{"call": call, "result": res}, npct >= 1 && len(args) >= 1, tags...)
			out.Count("percent_signs", lib.SizeBucket(npct))
			out.Count("args", strconv.Itoa(len(args)))
			if strings.HasSuffix(f, "%") {
				out.Count("position", "percent-last")
			}
			for _, ch := range f {
				if ch > 0xffff {
					out.Count("chars", "astral")
					break
				}
			}
		} else {
			// console history
			pr.log, pr.warn, pr.err = nil, nil, nil
			k := 1 + r.Intn(6)
			methods := []string{"log", "info", "debug", "warn", "error"}
			var coqCalls, descr, sameArgs, sinks []string
			var script strings.Builder
			for i := 0; i < k; i++ {
				m := r.Pick(methods)
				f := genFmt(r)
				na := r.Intn(3)
				var args []string
				for j := 0; j < na; j++ {
					args = append(args, r.Pick(argSrc))
				}
				noFmt := r.Chance(8)
				var call, fOpt string
				if noFmt {
					call = "console." + m + "()"
					fOpt = "None"
					args = nil
				} else {
					first := jsStr(f)
					if r.Chance(12) {
						a := r.Pick(argSrc)
						first, f = a, orc[a].str
						if a == "undefined" {
							f = ""
						}
						out.Count("first_argument", "not-a-string")
					}
					call = "console." + m + "(" + strings.Join(append([]string{first}, args...), ",") + ")"
					fOpt = "(Some " + lib.Runes(f) + ")"
				}
				script.WriteString(call + ";\n")
				descr = append(descr, call)
				sameArgs = append(sameArgs, "util.format"+call[len("console."+m):])
				sinks = append(sinks, m)
				var coqArgs []string
				for _, a := range args {
					coqArgs = append(coqArgs, coqArg(orc[a]))
				}
				coqCalls = append(coqCalls, fmt.Sprintf("{| c_method := %s; c_fmt := %s; c_args := %s |}", lib.ZsStr(m), fOpt, lib.List(coqArgs)))
				out.Count("console_method", m)
			}
			if _, err := vm.RunString(script.String()); err != nil {
				out.Fail(len(out.Cases), "console-threw", map[string]string{"script": script.String(), "err": err.Error()})
				out.Add("crashed", descr, false)
				continue
			}
			// the property's own words: each message equals util.format of the call's arguments, computed here by a
			// separate call in the same runtime, and goes to the sink of its method, in call order
			{
				var wl, ww, we []string
				for i, e := range sameArgs {
					v, err := vm.RunString(e)
					if err != nil {
						out.Fail(len(out.Cases), "format-threw", map[string]string{"call": e, "err": err.Error()})
						continue
					}
					switch sinks[i] {
					case "warn":
						ww = append(ww, v.String())
					case "error":
						we = append(we, v.String())
					default:
						wl = append(wl, v.String())
					}
				}
				if strings.Join(wl, "\x00") != strings.Join(pr.log, "\x00") || strings.Join(ww, "\x00") != strings.Join(pr.warn, "\x00") || strings.Join(we, "\x00") != strings.Join(pr.err, "\x00") {
					out.Fail(len(out.Cases), "console-message-is-not-format-of-arguments", map[string]interface{}{"calls": descr, "log": pr.log, "warn": pr.warn, "error": pr.err,
						"want_log": wl, "want_warn": ww, "want_error": we})
				}
			}
			sink := func(xs []string) string {
				var it []string
				for _, x := range xs {
					it = append(it, lib.Runes(x))
				}
				return lib.List(it)
			}
			out.Add(fmt.Sprintf("ConCase %s %s %s %s", lib.List(coqCalls), sink(pr.log), sink(pr.warn), sink(pr.err)),
				map[string]interface{}{"calls": descr, "log": pr.log, "warn": pr.warn, "error": pr.err}, k >= 2)
			out.Count("console_calls", strconv.Itoa(k))
		}
	}
	out.Notes = append(out.Notes, "conversion oracles String(a), String(Number(a)), String(JSON.stringify(a)) are computed in the same runtime, independently of util.format")
	out.Write(outPath)
}
