// C13 harness: histories of setter assignments and searchParams operations on URL objects, observed through every getter
// after every step; the oracles of the Coq model (net/url's parser, ParseRequestURI, IDNA) are evaluated here with the
// same library functions and handed to the model as tables.
package main

import (
	"encoding/json"
	"fmt"
	neturl "net/url"
	"os"
	"strconv"
	"strings"

	"github.com/dop251/goja"
	"github.com/dop251/goja_nodejs/require"
	"github.com/dop251/goja_nodejs/url"
	"golang.org/x/net/idna"

	"verif/harness/lib"
)

func js(s string) string {
	b, _ := json.Marshal(s)
	return string(b)
}

var bases = []string{
	"http://example.com/", "http://example.com/p/q?a=1&b=2#frag", "https://user:pw@Example.COM:8443/a/b/?x=1", "http://example.com:80/x?q",
	"https://example.com:443/", "ws://h:81/s?a=b&a=c", "wss://h/", "ftp://files.example.org:2121/pub/", "http://[::1]:8080/v6?z=1", "http://[::1]:80/",
	"http://[2001:DB8::1]/", "foo://bar/baz?k=v", "foo:opaque", "http://xn--9ca.com/", "http://é.com:8080/é?é=é#é", "http://a.b/?%41=%42&c=d+e",
	"http://example.com/?", "http://example.com/?a=1#", "file:///etc/hosts", "http://example.com:65535/", "http://a/b/c/d;p?q", "http://h/?a=%zz&&b",
}
var searches = []string{"", "?", "a=1", "?a=1", "??a=1", "a=1&b=2", "x y", "é=ü", "a=%zz", "a=b#c", "&&", "=", "?=", "a+b=c+d", "%41=%42", "q=#", "?a=1&a=2", "k", "a=1&&b=2&"}
var hosts = []string{"xn--zz", "xn--zz:81", "XN--0:80", "example.org", "EXAMPLE.org", "example.org:80", "example.org:443", "example.org:8080", "example.org:", "x/y", "a@b", "x?y", "x#y", "", "[::1]", "[::1]:80", "[::1]:9",
	"h:65536", "h:0", "h:080", "h:99999999999999999999", "é.com", "é.com:21", "a b", "a:b", "h:8x", "1.2.3.4", "1.2.3.4:21", "xn--", "a..b", "%41"}
var hostnames = []string{"example.net", "UP.net", "", "x/y", "a:1", "é.org", "[::1]", "a b", "h", "1.2.3.4", "a@b", "x?y",
	"[::2]:82", "[::1]:443", "[::1]:80", "[::3]", "[::1", "É.Org", "h:", ":80",
	// labels that look like punycode and are not: the conversion fails after the value has been looked at
	"xn--zz", "xn--0", "XN--ZZ", "a.xn--zz.b"}
var ports = []string{"", "80", "443", "21", "8080", "0", "65535", "65536", "-1", "8x", "x8", " 9", "080", "99999", "1e3", "21.5"}
var protocols = []string{"http", "https", "http:", "HTTPS:", "ws", "wss:", "ftp", "file", "foo", "foo:", "bar:baz", "", ":", "h ttp", "1x", "/", "//", "/a/../b", "a+b.c-d", "-x", "é"}
var hashes = []string{"", "#", "x", "#x", "##x", "a b", "é", "#a?b"}
var paths = []string{"", "/", "/a/b", "a/b", "/a/../b/", "/a b", "/é", "//x", "/a/./b/.", "/%2e%2e/x", "?x", "#y"}
var hrefs = []string{"http://other.org/q?z=9", "https://h:443/?a=1&a=2#f", "http://h:80", "nonsense", "", "//h/p", "ws://W:80/x?", "http://[::1]:80/?k", "foo:bar?x=1", "http://h/?a=%zz", "http://:80/", "http://"}
var spNames = []string{"a", "b", "x", "é", "a b", "", "&", "k"}
var spValues = []string{"1", "2", "", "x y", "&=", "é", "+", "%41"}

type obs struct {
	Href, ToString, ToJSON, Search, Host, Hostname, Port, Protocol string
	Params                                                         [][2]string
	WithParams                                                     bool
	Threw                                                          bool
	Reparse                                                        string      // new URL(href).href, or "THROWS"
	Held                                                           [][2]string // what the searchParams object obtained EARLIER lists (HasHeld)
	HasHeld                                                        bool
	Silent                                                         bool // the step was made without reading anything back
}

func coqPairs(ps [][2]string) string {
	var it []string
	for _, p := range ps {
		it = append(it, lib.Pair(lib.ZsStr(p[0]), lib.ZsStr(p[1])))
	}
	return lib.List(it)
}

func (o obs) coq() string {
	return fmt.Sprintf("{| o_href := %s; o_tostring := %s; o_tojson := %s; o_search := %s; o_host := %s; o_hostname := %s; o_port := %s; o_protocol := %s; o_params := %s; o_threw := %s; o_silent := %s |}",
		lib.ZsStr(o.Href), lib.ZsStr(o.ToString), lib.ZsStr(o.ToJSON), lib.ZsStr(o.Search), lib.ZsStr(o.Host), lib.ZsStr(o.Hostname), lib.ZsStr(o.Port), lib.ZsStr(o.Protocol), map[bool]string{true: "(Some " + coqPairs(o.Params) + ")", false: "None"}[o.WithParams], lib.Bool(o.Threw), lib.Bool(o.Silent))
}

func optZs(ok bool, s string) string {
	if ok {
		return "(Some " + lib.ZsStr(s) + ")"
	}
	return "None"
}

// valueToURLPort for string arguments, classified as the model expects (the digit loop itself is covered by C09's VCs)
func classifyPort(s string) string {
	if s == "" {
		return "PEmpty"
	}
	first := -1
	for i := 0; i < len(s); i++ {
		if s[i] >= '0' && s[i] <= '9' {
			first = i
			break
		}
	}
	if first == -1 {
		return "PInvalid"
	}
	if first > 0 {
		return "PEmpty"
	}
	n := 0
	for i := 0; i < len(s) && s[i] >= '0' && s[i] <= '9'; i++ {
		n = n*10 + int(s[i]-'0')
		if n > 65535 {
			return "PInvalid"
		}
	}
	return "(PNum " + lib.ZsStr(strconv.Itoa(n)) + ")"
}

func main() {
	outPath := os.Args[1]
	n := 500
	if lib.Tier() == "thorough" {
		n = 8000
	}
	if len(os.Args) > 2 {
		n, _ = strconv.Atoi(os.Args[2])
	}
	out := lib.NewOutput("C13")
	r := lib.NewRand(lib.Seed()*31 + 7)
	vm := goja.New()
	new(require.Registry).Enable(vm)
	url.Enable(vm)
	_, err := vm.RunString(`
function __obs(u, withParams, sp) {
  var o = {Threw: false, WithParams: !!withParams};
  // the object handed out earlier is read BEFORE url.searchParams is touched again: it must list the current pairs by itself
  o.HasHeld = !!(withParams && sp); o.Held = o.HasHeld ? Array.from(sp.entries()) : [];
  o.Href = u.href; o.ToString = u.toString(); o.ToJSON = u.toJSON(); o.Search = u.search; o.Host = u.host; o.Hostname = u.hostname; o.Port = u.port; o.Protocol = u.protocol;
  o.Params = withParams ? Array.from(u.searchParams.entries()) : [];
  try { o.Reparse = new URL(o.Href).href } catch (e) { o.Reparse = "THROWS" }
  return JSON.stringify(o);
}
function __step(u, sp, kind, a, b, withParams, silent) {
  var threw = false;
  try {
    switch (kind) {
    case "search": u.search = a; break; case "href": u.href = a; break; case "materialise": u.searchParams; break;
    case "append": sp.append(a, b); break; case "delete": sp.delete(a); break; case "set": sp.set(a, b); break; case "sort": sp.sort(); break;
    case "port": u.port = a; break; case "protocol": u.protocol = a; break; case "host": u.host = a; break; case "hostname": u.hostname = a; break;
    case "hash": u.hash = a; break; case "pathname": u.pathname = a; break;
    case "username": u.username = a; break; case "password": u.password = a; break;
    }
  } catch (e) { threw = true }
  if (silent) return JSON.stringify({Threw: threw, Silent: true});   // nothing is read back: the next step meets whatever this one left
  var o = JSON.parse(__obs(u, withParams, sp)); o.Threw = threw; return JSON.stringify(o);
}`)
	if err != nil {
		panic(err)
	}
	for c := 0; c < n; c++ {
		base := r.Pick(bases)
		early := r.Bool() // searchParams object obtained before the assignments
		k := 1 + r.Intn(7)
		type op struct{ Kind, A, B string }
		var ops []op
		for i := 0; i < k; i++ {
			switch x := r.Intn(20); {
			case x < 3:
				ops = append(ops, op{"search", r.Pick(searches), ""})
			case x < 5:
				ops = append(ops, op{"href", r.Pick(hrefs), ""})
			case x < 6:
				ops = append(ops, op{"materialise", "", ""})
			case x < 8:
				ops = append(ops, op{"append", r.Pick(spNames), r.Pick(spValues)})
			case x < 9:
				ops = append(ops, op{"delete", r.Pick(spNames), ""})
			case x < 10:
				ops = append(ops, op{"set", r.Pick(spNames), r.Pick(spValues)})
			case x < 11:
				ops = append(ops, op{"sort", "", ""})
			case x < 13:
				ops = append(ops, op{"port", r.Pick(ports), ""})
			case x < 15:
				ops = append(ops, op{"protocol", r.Pick(protocols), ""})
			case x < 17:
				ops = append(ops, op{"host", r.Pick(hosts), ""})
			case x < 18:
				ops = append(ops, op{"hostname", r.Pick(hostnames), ""})
			case x < 19:
				if r.Chance(45) { // username / password: none of the modelled fields may move, the three serialisers stay equal, href re-parses
					ops = append(ops, op{r.Pick([]string{"username", "password"}), r.Pick([]string{"", "u", "a:b", "a@b", "é", "%41", "a/b", "p w", "x?y#z", "[::1]"}), ""})
				} else {
					ops = append(ops, op{"hash", r.Pick(hashes), ""})
				}
			default:
				ops = append(ops, op{"pathname", r.Pick(paths), ""})
			}
		}
		if r.Chance(15) { // every pair deleted through the object, then a query assigned, then the same object used again
			extra := []op{{"deleteall", "", ""}}
			if r.Bool() {
				extra = append(extra, op{"search", r.Pick(searches), ""})
			} else {
				extra = append(extra, op{"href", r.Pick(hrefs), ""})
			}
			extra = append(extra, op{r.Pick([]string{"append", "set"}), r.Pick(spNames), r.Pick(spValues)})
			at := r.Intn(len(ops) + 1)
			ops = append(ops[:at:at], append(extra, ops[at:]...)...)
			early = early || r.Chance(70)
		}
		lib.Breadcrumb(outPath, fmt.Sprintf("%s %v", base, ops))
		script := fmt.Sprintf("var __u = new URL(%s); var __sp = %s; __obs(__u, false)", js(base), map[bool]string{true: "__u.searchParams", false: "null"}[early]) + ""
		v, err := vm.RunString(script)
		if err != nil {
			out.Fail(len(out.Cases), "constructor-threw", map[string]string{"base": base, "err": err.Error()})
			continue
		}
		var o0 obs
		json.Unmarshal([]byte(v.String()), &o0)
		var coqOps, coqObs []string
		parseTab := map[string]string{}
		hostOK := map[string]string{}
		normTab := map[string]string{}
		addParse := func(s string) {
			u, err := neturl.Parse(s)
			if err != nil {
				parseTab[s] = "None"
				return
			}
			if u.Opaque != "" { // opaque URLs: outside the model (the path/host split is different); treated as rejected, see skip below
				parseTab[s] = "None"
				return
			}
			parseTab[s] = fmt.Sprintf("(Some (%s, %s, %s, %s, %s))", lib.ZsStr(u.Scheme), lib.ZsStr(u.Host), lib.ZsStr(u.RawQuery), lib.ZsStr(u.Fragment), lib.ZsStr(u.Path))
		}
		lowerTab := map[string]string{}
		addNorm := func(h string) {
			lh := strings.ToLower(h)
			lowerTab[h] = lib.ZsStr(lh)
			ch, err := idna.Punycode.ToASCII(lh)
			normTab[lh] = optZs(err == nil, ch)
		}
		skip := false
		addParse(base)
		if u, err := neturl.Parse(base); err == nil && u.Opaque != "" {
			skip = true
		}
		curScheme := func() string { return strings.TrimSuffix(o0.Protocol, ":") }
		_ = curScheme
		cur := o0
		allObs := []obs{o0}
		for pi := 0; pi < len(ops); pi++ {
			p := ops[pi]
			if p.Kind == "deleteall" { // expanded, now that the names are known, into one delete per name the object lists
				if !early {
					vm.RunString("__sp = __u.searchParams")
					early = true
					ops[pi] = op{"materialise", "", ""}
					ops = append(ops[:pi+1:pi+1], append([]op{{"deleteall", "", ""}}, ops[pi+1:]...)...)
					pi--
					continue
				}
				kv, _ := vm.RunString(`JSON.stringify(Array.from(new Set(Array.from(__sp.keys()))))`)
				var names []string
				json.Unmarshal([]byte(kv.String()), &names)
				var dels []op
				for _, nm := range names {
					dels = append(dels, op{"delete", nm, ""})
				}
				ops = append(ops[:pi:pi], append(dels, ops[pi+1:]...)...)
				pi--
				continue
			}
			a := p.A
			withParams := pi == len(ops)-1 || r.Chance(40)
			if !early && (p.Kind == "append" || p.Kind == "delete" || p.Kind == "set" || p.Kind == "sort") {
				vm.RunString("__sp = __u.searchParams")
			}
			sc := strings.TrimSuffix(cur.Protocol, ":")
			switch p.Kind {
			case "search":
				coqOps = append(coqOps, "OSearch "+lib.ZsStr(a))
			case "href":
				coqOps = append(coqOps, "OHref "+lib.ZsStr(a))
				addParse(a)
				if u, err := neturl.Parse(a); err == nil && u.Opaque != "" {
					skip = true
				}
			case "materialise":
				coqOps = append(coqOps, "OMaterialise")
			case "append":
				coqOps = append(coqOps, fmt.Sprintf("OAppend %s %s", lib.ZsStr(p.A), lib.ZsStr(p.B)))
			case "delete":
				coqOps = append(coqOps, "ODelete "+lib.ZsStr(p.A))
			case "set":
				coqOps = append(coqOps, fmt.Sprintf("OSet %s %s", lib.ZsStr(p.A), lib.ZsStr(p.B)))
			case "sort":
				coqOps = append(coqOps, "OSort")
			case "port":
				coqOps = append(coqOps, "OPort "+classifyPort(a))
			case "protocol":
				s := a
				if i := strings.IndexByte(s, ':'); i >= 0 {
					s = s[:i]
				}
				s = strings.ToLower(s)
				coqOps = append(coqOps, "OProtocol "+lib.ZsStr(s))
				_, err := neturl.ParseRequestURI(s + "://" + cur.Host)
				hostOK[s+"\x00"+cur.Host] = lib.Bool(err == nil)
			case "host", "hostname":
				if p.Kind == "host" {
					coqOps = append(coqOps, "OHost "+lib.ZsStr(a))
				} else {
					coqOps = append(coqOps, "OHostname "+lib.ZsStr(a))
				}
				pu, err := neturl.ParseRequestURI(sc + "://" + a)
				hostOK[sc+"\x00"+a] = lib.Bool(err == nil && pu.Host == a)
			case "username", "password":
				coqOps = append(coqOps, "OUserinfo")
			case "hash":
				coqOps = append(coqOps, "OHash "+lib.ZsStr(a))
			case "pathname":
				coqOps = append(coqOps, "OPath "+lib.ZsStr(a))
			}
			// a third of the steps that leave scheme and host alone are made blind: no getter runs between them and the next step
			silent := false
			switch p.Kind {
			case "search", "hash", "append", "delete", "set", "sort", "materialise", "username", "password", "pathname":
				silent = pi < len(ops)-1 && r.Chance(35)
			}
			if silent {
				out.Count("step", "blind")
			} else {
				out.Count("step", "observed")
			}
			v, err := vm.RunString(fmt.Sprintf("__step(__u, __sp, %s, %s, %s, %v, %v)", js(p.Kind), js(p.A), js(p.B), withParams, silent))
			if err != nil {
				out.Fail(len(out.Cases), "step-failed", map[string]string{"base": base, "err": err.Error()})
				skip = true
				break
			}
			var o obs
			json.Unmarshal([]byte(v.String()), &o)
			if o.HasHeld && fmt.Sprint(o.Held) != fmt.Sprint(o.Params) {
				out.Fail(len(out.Cases), "held-searchParams-object-out-of-date", map[string]interface{}{"base": base, "ops": ops[:pi+1],
					"held_object_lists": o.Held, "url.searchParams_lists": o.Params, "search": o.Search})
			}
			if !o.Silent {
				cur = o
			}
			allObs = append(allObs, o)
		}
		if skip {
			continue
		}
		// every host the model may hand to norm_host is the name part of some host string in play: give it all candidates
		cands := map[string]bool{}
		addHostCands := func(h string) {
			cands[h] = true
			if u := (&neturl.URL{Host: h}); true {
				if p := u.Port(); p != "" {
					cands[strings.TrimSuffix(h, ":"+p)] = true
				} else {
					cands[strings.TrimSuffix(h, ":")] = true
				}
			}
		}
		for _, h := range hosts {
			addHostCands(h)
		}
		for _, h := range hostnames {
			addHostCands(h)
			for _, o := range allObs {
				if o.Port != "" {
					addHostCands(h + ":" + o.Port)
				}
			}
		}
		for _, o := range allObs {
			addHostCands(o.Host)
		}
		for s := range parseTab {
			if u, err := neturl.Parse(s); err == nil {
				addHostCands(u.Host)
			}
		}
		for h := range cands {
			addNorm(h)
		}
		tab := func(m map[string]string, two bool) string {
			var it []string
			keys := make([]string, 0, len(m))
			for k := range m {
				keys = append(keys, k)
			}
			sortStrings(keys)
			for _, k := range keys {
				if two {
					f := strings.SplitN(k, "\x00", 2)
					it = append(it, fmt.Sprintf("(%s, %s, %s)", lib.ZsStr(f[0]), lib.ZsStr(f[1]), m[k]))
				} else {
					it = append(it, fmt.Sprintf("(%s, %s)", lib.ZsStr(k), m[k]))
				}
			}
			return lib.List(it)
		}
		for _, o := range allObs {
			coqObs = append(coqObs, o.coq())
		}
		coq := fmt.Sprintf("{| c_base := %s; c_early := %s; c_ops := %s; c_obs := %s; c_parse := %s; c_hostok := %s; c_lower := %s; c_norm := %s |}",
			lib.ZsStr(base), lib.Bool(early), lib.List(coqOps), lib.List(coqObs), tab(parseTab, false), tab(hostOK, true), tab(lowerTab, false), tab(normTab, false))
		id := out.Add(coq, map[string]interface{}{"base": base, "ops": ops, "early": early, "final": cur}, len(ops) >= 2)
		// Go-side oracle: the href parses again to the same href
		for i, o := range allObs {
			if !o.Silent && o.Reparse != o.Href {
				out.Fail(id, "href-does-not-reparse-to-itself", map[string]interface{}{"base": base, "ops": ops[:i], "href": o.Href, "reparsed": o.Reparse})
				break
			}
		}
		out.Count("ops", strconv.Itoa(len(ops)))
		for _, p := range ops {
			out.Count("kind", p.Kind)
		}
	}
	out.Write(outPath)
}

func sortStrings(a []string) {
	for i := 1; i < len(a); i++ {
		for j := i; j > 0 && a[j] < a[j-1]; j-- {
			a[j], a[j-1] = a[j-1], a[j]
		}
	}
}
